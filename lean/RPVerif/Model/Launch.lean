/-
Model of the launch methods (property C09):
  agent/launch_method/{fork,mpirun,mpiexec,srun,aprun,ccmrun,ibrun,prte,ssh,rsh}.py
      can_launch / get_launch_cmds
  agent/resource_manager/base.py  find_launcher
A command is kept structured (`Cmd`): process count, host arguments, and the
CONTENT of any host / rank / node file it references.  What the third-party
launcher does with such a command is an explicit interpretation (`procsOn`),
written next to the man-page sentence it encodes; it is part of the trusted base.
JSRUN (old slot format of the jsrun scheduler), FLUX and DRAGON are not modelled.
-/
namespace RPVerif.Launch

abbrev Host := Nat

structure Slot where
  host      : Host
  nodeIndex : Nat
  cores     : List Nat
  gpus      : List Nat
deriving DecidableEq, Repr

structure Task where
  ranks   : Nat
  cpr     : Nat                 -- cores_per_rank
  gpus    : Bool                -- gpus_per_rank is truthy
  slots   : List Slot
  useMpi  : Option Bool
  hasExe  : Bool
  mem     : Nat := 0
deriving Repr

inductive Err where
  | value | runtime | assertion
deriving DecidableEq, Repr

/-- first-occurrence order with counts (a Python dict / defaultdict(int)) -/
def countHosts : List Host → List (Host × Nat) → List (Host × Nat)
  | [],      acc => acc
  | h :: hs, acc =>
    if acc.any (fun e => e.1 = h) then countHosts hs (acc.map (fun e => if e.1 = h then (e.1, e.2 + 1) else e))
    else countHosts hs (acc ++ [(h, 1)])

def hostsOf (t : Task) : List Host := t.slots.map (·.host)

/-- sorted, duplicate-free (canonical form of a Python `set` of node names) -/
def insertSorted (h : Host) : List Host → List Host
  | []      => [h]
  | x :: xs => if h < x then h :: x :: xs else if h = x then x :: xs else x :: insertSorted h xs

def hostSet (hs : List Host) : List Host := hs.foldl (fun acc h => insertSorted h acc) []

/-- one `--cpu-bind list:` entry: `a-b` or `c1,c2,..` -/
inductive Bind where
  | range (a b : Nat)
  | list (cs : List Nat)
deriving DecidableEq, Repr

/-- the cores an entry names -/
def Bind.cores : Bind → List Nat
  | .range a b => List.range' a (b + 1 - a)
  | .list cs   => cs

/-- a run `a, a+1, .., b` is written `a-b`, a single core as itself, anything else core by core -/
def bindEntry (cores : List Nat) : Bind :=
  match cores with
  | []      => .list []
  | [c]     => .list [c]
  | c :: cs => if c :: cs = List.range' c ((c :: cs).getLastD c + 1 - c) then .range c ((c :: cs).getLastD c)
               else .list (c :: cs)

inductive Cmd where
  | fork
  /-- `[ccmrun] mpirun [h1,h2,..] [-gpu] -np N [dplace -c ..] [-host h1,.. | -hostfile F | -file F]` -/
  | mpirun (np : Nat) (mptHosts : List Host) (hostArg : List Host) (hostfile : Option (List Host))
           (dplace : Option (List Nat)) (mpt : Bool)
  /-- `mpiexec -np N [-rf F | --ppn P --cpu-bind list:.. --hostfile F | -f F | --hostfile F]` -/
  | mpiexec (np : Nat) (rankfile : Option (List (Host × List Nat))) (hostfile : Option (List (Host × Nat)))
            (ppn : Option Nat) (cpuBind : List Bind)
  /-- `srun --nodes N --ntasks T --cpus-per-task C [--nodelist=.. | --nodefile=F]` -/
  | srun (nodes : Option Nat) (ntasks cpt : Nat) (nodelist : List Host) (viaFile : Bool)
  | aprun (n d : Nat)
  | ccmrun (n : Nat)
  /-- `IBRUN_TASKS_PER_NODE=k ibrun -n N -o OFFSET` -/
  | ibrun (tpn n offset : Nat)
  /-- `prun --np N --map-by ..PE=T.. --host h1:k1,h2:k2` -/
  | prte (np pe : Nat) (hosts : List (Host × Nat))
  | ssh (host : Host)
  | rsh (host : Host)
deriving DecidableEq, Repr

/-! ### command construction -/

structure MpirunCfg where
  mpt    : Bool
  dplace : Bool      -- '_dplace' in self.name
  spectrum : Bool    -- mpi flavor is Spectrum MPI
deriving Repr

/-- `dplace -c c0,c1,..`: the first core of every rank -/
def dplaceCores (t : Task) : List Nat := t.slots.filterMap (fun s => s.cores.head?)

def cmdMpirun (c : MpirunCfg) (t : Task) : Except Err Cmd :=
  if c.dplace ∧ t.cpr > 1 then .error .value          -- 'dplace can not place threads'
  else
    match t.slots.map (fun s => s.cores.head?) |>.all Option.isSome with
    | false => .error .runtime                          -- slot['cores'][0]: IndexError
    | true  =>
      .ok (.mpirun (if c.mpt then 1 else (hostsOf t).length)
                   (if c.mpt ∧ (hostsOf t).length ≤ 42 then hostsOf t else [])
                   (if ¬ c.mpt ∧ (hostsOf t).length ≤ 42 then hostsOf t else [])
                   (if (hostsOf t).length > 42 then some (hostsOf t) else none)
                   (if c.dplace then some (dplaceCores t) else none)
                   c.mpt)

structure MpiexecCfg where
  useRf : Bool
  useHf : Bool
  pals  : Bool
deriving Repr

def cmdMpiexec (c : MpiexecCfg) (t : Task) : Except Err Cmd :=
  if t.slots = [] then .error .assertion
  else if c.useRf then
    .ok (.mpiexec t.slots.length (some (t.slots.map (fun s => (s.host, s.cores)))) none none [])
  else if c.pals then
      .ok (.mpiexec t.slots.length none (some ((countHosts (hostsOf t) []).map (fun e => (e.1, 0))))
             (some ((countHosts (hostsOf t) []).foldl (fun m e => max m e.2) 0))
             (t.slots.map (fun s => bindEntry s.cores)))
  else
    .ok (.mpiexec t.slots.length none (some (countHosts (hostsOf t) [])) none [])

structure SrunCfg where
  vmajor   : Nat
  traverse : Bool
  cpn      : Nat        -- rm_info.cores_per_node (> 0)
deriving Repr

/-- `--nodes` is the number of distinct nodes of the placement, `--ntasks` the number of slots;
    without a placement the task's own rank count and a node count derived from it -/
def cmdSrun (c : SrunCfg) (t : Task) : Cmd :=
  if t.slots = [] then
    .srun (if c.traverse then none else some ((t.ranks + c.cpn - 1) / c.cpn)) t.ranks t.cpr [] false
  else
    .srun (if c.traverse then none else some (hostSet (hostsOf t)).length) t.slots.length t.cpr
          (hostSet (hostsOf t)) (decide (c.vmajor > 18 ∧ (hostSet (hostsOf t)).length > 42))

structure IbrunCfg where
  tpnOpt : Nat            -- options.tasks_per_node, 0 = unset
  cpn    : Nat
  nodeIdx : List Nat      -- indices of rm_info.node_list, in order
deriving Repr

/-- walk the RM node list: `(tasks before the first used node, that node)` -/
def ibrunFirst (tpn : Nat) (used : List Nat) : List Nat → Nat → Option (Nat × Nat)
  | [],      _   => none
  | n :: ns, acc => if n ∈ used then some (acc, n) else ibrunFirst tpn used ns (acc + tpn)

def listMin : List Nat → Nat
  | []      => 0
  | x :: xs => xs.foldl min x

/-- `IBRUN_TASKS_PER_NODE`: the configured value, or cores_per_node // (ranks * threads) (at least 1) -/
def ibrunTpn (c : IbrunCfg) (t : Task) : Nat :=
  if c.tpnOpt ≠ 0 then c.tpnOpt
  else if c.cpn / (t.ranks * t.cpr) = 0 then 1 else c.cpn / (t.ranks * t.cpr)

/-- the `-o` offset into the job's task slots (`tpn` per node, nodes in RM order) -/
def ibrunOffset (tpn : Nat) (c : IbrunCfg) (t : Task) : Except Err Nat :=
  match ibrunFirst tpn (t.slots.map (·.nodeIndex)) c.nodeIdx 0 with
  | none => .ok 0
  | some (base, first) =>
    -- the ranks on the first used node: the smallest first core, in units of ranks
    if (t.slots.filter (fun s => s.nodeIndex = first)).any (fun s => s.cores = []) then .error .runtime
    else
      .ok (base + listMin ((t.slots.filter (fun s => s.nodeIndex = first)).map (fun s => s.cores.headD 0)) / t.cpr)

def cmdIbrun (c : IbrunCfg) (t : Task) : Except Err Cmd :=
  if t.slots = [] then .error .assertion
  else
    match ibrunOffset (ibrunTpn c t) c t with
    | .error e => .error e
    | .ok o    => .ok (.ibrun (ibrunTpn c t) t.ranks o)

/-- what `ibrun -n n -o off` with `IBRUN_TASKS_PER_NODE=tpn` starts (TACC): rank `j` takes task slot
    `off + j` of the job, i.e. slot `(off + j) % tpn` of node `(off + j) / tpn` in RM order; a task
    slot is `cpr` consecutive cores.  (Interpretation of the site tool: trusted base.) -/
def ibrunPlace (tpn cpr : Nat) (nodeIdx : List Nat) (off n : Nat) : List Slot :=
  (List.range n).map (fun j =>
    { host := nodeIdx.getD ((off + j) / tpn) 0, nodeIndex := nodeIdx.getD ((off + j) / tpn) 0,
      cores := (List.range cpr).map (fun k => ((off + j) % tpn) * cpr + k), gpus := [] })

def cmdPrte (t : Task) : Cmd := .prte t.ranks t.cpr (countHosts (hostsOf t) [])

def cmdSsh (t : Task) : Except Err Cmd :=
  match t.slots with
  | [s] => .ok (.ssh s.host)
  | _   => .error .runtime

def cmdRsh (t : Task) : Except Err Cmd :=
  match t.slots with
  | [s] => .ok (.rsh s.host)
  | _   => .error .runtime

/-! ### can_launch -/

def canFork (localhost self : Host) (t : Task) : Bool :=
  match t.slots with
  | []      => false          -- IndexError in the code; never offered to Fork without slots
  | s :: ss => ss.isEmpty && (s.host = localhost || s.host = self) && t.useMpi != some true
               && decide (t.ranks ≤ 1) && t.hasExe

def canSsh (t : Task) : Bool := decide (t.slots.length ≤ 1) && t.useMpi != some true && t.hasExe
def canRsh (t : Task) : Bool := decide (t.slots.length ≤ 1) && t.useMpi != some true
def canExe (t : Task) : Bool := t.hasExe

/-- `ResourceManager.find_launcher`: the first launcher in the configured order that can launch -/
def findLauncher (order : List (Nat × Bool)) : Option Nat :=
  match order.find? (fun e => e.2) with
  | some e => some e.1
  | none   => none

/-! ### interpretation of the commands: processes per host -/

/-- how many processes the launcher starts on host `h` (for launchers that name hosts) -/
def procsOn : Cmd → Host → Option Nat
  | .fork, _ => none
  -- Open MPI: "-host a,a,b -np 3": one slot per host entry, ranks fill the slots.
  -- HPE MPT: "mpirun a,b -np k": k processes on every host entry.
  | .mpirun np mh ha hf _ mpt, h =>
    some (if mpt then (mh ++ (hf.getD [])).count h * np else (ha ++ (hf.getD [])).count h)
  -- rank file: "rank i=host slots=..": rank i runs on host.  hostfile "host slots=k" / "host:k": k ranks.
  | .mpiexec _ (some rf) _ _ _, h => some ((rf.map (·.1)).count h)
  | .mpiexec _ none (some hf) none _, h => some ((hf.filter (fun e => e.1 = h)).foldl (fun a e => a + e.2) 0)
  | .mpiexec _ _ _ _ _, _ => none                 -- PALS --ppn placement: see `palsProcs`
  | .prte _ _ hosts, h => some ((hosts.filter (fun e => e.1 = h)).foldl (fun a e => a + e.2) 0)
  | .ssh host, h => some (if host = h then 1 else 0)
  | .rsh host, h => some (if host = h then 1 else 0)
  | _, _ => none

/-- PALS `mpiexec --ppn P -np N --hostfile F`: the hosts of F are filled in order, P ranks each
    ("--ppn ... will place processes within the same node first", NOTE in mpiexec.py) -/
def palsFill (ppn : Nat) : List Host → Nat → List (Host × Nat)
  | [],      _  => []
  | h :: hs, np => (h, min ppn np) :: palsFill ppn hs (np - min ppn np)

/-- total number of processes started -/
def procCount : Cmd → Nat
  | .fork => 1
  | .mpirun np mh _ hf _ mpt => if mpt then (mh ++ hf.getD []).length * np else np
  | .mpiexec np _ _ _ _ => np
  | .srun _ nt _ _ _ => nt
  | .aprun n _ => n
  | .ccmrun n => n
  | .ibrun _ n _ => n
  | .prte np _ _ => np
  | .ssh _ => 1
  | .rsh _ => 1

/-! ### JSRUN (agent/launch_method/jsrun.py): resource sets

The jsrun scheduler hands over the placement as a list of resource sets: a node, the cores of every
rank of the set, and the GPUs all ranks of the set share. -/

structure RSet where
  node  : Nat
  ranks : List (List Nat)      -- cores of each rank of the set
  gpus  : List Nat             -- GPUs shared by the ranks of the set
deriving DecidableEq, Repr

/-- one line of the explicit resource file: `rank: a,b : { host: H; cpu: {..},{..}; gpu: {..} }` -/
structure ErfLine where
  ranks : List Nat
  host  : Nat
  cpus  : List (List Nat)
  gpus  : List Nat
deriving DecidableEq, Repr

/-- `_create_resource_set_file`: rank ids run on from set to set (`base_id += ranks_per_rs`) -/
def erfFrom : Nat → List RSet → List ErfLine
  | _,    []      => []
  | base, r :: rs => { ranks := List.range' base r.ranks.length, host := r.node, cpus := r.ranks, gpus := r.gpus }
                       :: erfFrom (base + r.ranks.length) rs

def totalRanks (rs : List RSet) : Nat := (rs.map (fun r => r.ranks.length)).sum

structure JsrunOpts where
  n : Nat                      -- -n: resource sets
  a : Nat                      -- -a: ranks per resource set
  c : Nat                      -- -c: physical cores per resource set
  g : Nat                      -- -g: GPUs per resource set
  r : Option Nat               -- -r: resource sets per host
  b : Option (Option Nat)      -- -b: none = absent, some none = `rs`, some (some k) = `packed:k`
deriving DecidableEq, Repr

/-- the flags of the non-ERF flavour: everything is read off the FIRST resource set -/
def jsrunOpts (tpc gpn : Nat) (omp : Bool) (rs : List RSet) : Option JsrunOpts :=
  match rs with
  | []         => none
  | first :: _ =>
    match first.ranks with
    | []       => none
    | r0 :: _  =>
      (fun (cpr : Nat) =>
        some { n := rs.length, a := first.ranks.length, c := cpr * first.ranks.length, g := first.gpus.length,
               r := if first.gpus.length = 0 then none
                    else if rs.length > gpn / first.gpus.length then some (Nat.gcd rs.length (gpn / first.gpus.length))
                    else some (min rs.length (gpn / first.gpus.length)),
               b := if first.ranks.length > 1 then (if omp then some (some cpr) else none) else some none })
        ((r0.length + tpc - 1) / tpc)

/-- `--smpiargs`: only for CUDA tasks; `true` = "-gpu" (MPI), `false` = "off" -/
def jsrunSmpi (cuda : Bool) (ranks : Nat) : Option Bool := if cuda then some (decide (ranks > 1)) else none

/-! ### the registry of launch-method inspections -/

/-- a launch method: its family (MPIRUN, MPIEXEC, JSRUN ...) and its flavour within the family (plain, _MPT, _DPLACE ...);
    the flags it works with are derived from its name when it inspects the platform -/
structure LMName where
  family  : Nat
  flavour : Nat
deriving DecidableEq, Repr

/-- the registry key of a launch method: its own name (`perName`, read from the source), or - the alternative shown for
    contrast - one key for the whole family -/
def lmKey (perName : Bool) (n : LMName) : LMName := if perName then n else { n with flavour := 0 }

/-- `LaunchMethod.__init__`: look the inspection result up under the key; when there is none, inspect (the result carries
    the flags of THIS name) and store it.  Returns the registry and the info the new instance initialises from -/
def lmCreate (perName : Bool) (reg : List (LMName × LMName)) (n : LMName) : List (LMName × LMName) × LMName :=
  match reg.find? (fun e => e.1 = lmKey perName n) with
  | some e => (reg, e.2)
  | none   => (reg ++ [(lmKey perName n, n)], n)

def lmCreateAll (perName : Bool) (reg : List (LMName × LMName)) (ns : List LMName) : List (LMName × LMName) :=
  ns.foldl (fun r n => (lmCreate perName r n).1) reg

end RPVerif.Launch
