/-
Model of the places where user data enters the generated task scripts (property C10):
  radical.utils  sh_quote
  agent/launch_method/base.py   get_exec / _create_arg_string
  agent/executing/base.py       _get_task_env (export lines), _get_rp_env (sandbox reference,
                                gpus_per_rank formatting), _get_launch (redirections)
and of what bash does with such text: tokenisation of a simple command made of plain
characters and double-quoted strings (POSIX 2.2.3: inside double quotes a backslash is
special only before $ ` " \ and newline; $ and ` start expansions, which are outside this
model and make the parse fail), and `$NAME` expansion of one variable.
-/
namespace RPVerif.Shell

abbrev Str := List Char

/-- `ru.sh_quote` without the surrounding quotes: backslash and double quote get a backslash -/
def escape : Str → Str
  | []      => []
  | c :: cs => if c = '\\' then '\\' :: '\\' :: escape cs
               else if c = '"' then '\\' :: '"' :: escape cs
               else c :: escape cs

def shQuote (s : Str) : Str := '"' :: (escape s ++ ['"'])       -- '""' for the empty string

/-- `LaunchMethod.get_exec`: `exe "a1" "a2" ..` -/
def execLine (exe : Str) (args : List Str) : Str :=
  exe ++ (args.map (fun a => ' ' :: shQuote a)).flatten

/-- `_get_task_env`: `export K="V"` -/
def exportLine (k v : Str) : Str := "export ".toList ++ k ++ ('=' :: shQuote v)

/-! ### bash: tokenising a simple command -/

/-- characters that are literal outside quotes (no quoting, expansion, globbing, operators) -/
def plainChar (c : Char) : Bool :=
  c.isAlphanum || c = '/' || c = '.' || c = '_' || c = '-' || c = '+' || c = ':' || c = '=' || c = ',' || c = '@' || c = '%'

inductive Mode where
  | between       -- between words
  | plain         -- in a word, outside quotes
  | dquote        -- inside double quotes
  | dqEsc         -- after a backslash inside double quotes
  | afterQuote    -- in a word, just after a closing quote
deriving DecidableEq, Repr

structure PS where
  mode : Mode := .between
  cur  : Str := []                -- current word
  done : List Str := []           -- finished words
deriving Repr

def stepc (s : PS) (c : Char) : Option PS :=
  match s.mode with
  | .between =>
    if c = ' ' then some s
    else if c = '"' then some { s with mode := .dquote, cur := [] }
    else if plainChar c then some { s with mode := .plain, cur := [c] }
    else none
  | .plain =>
    if c = ' ' then some { mode := .between, cur := [], done := s.done ++ [s.cur] }
    else if c = '"' then some { s with mode := .dquote }
    else if plainChar c then some { s with cur := s.cur ++ [c] }
    else none
  | .afterQuote =>
    if c = ' ' then some { mode := .between, cur := [], done := s.done ++ [s.cur] }
    else if c = '"' then some { s with mode := .dquote }
    else if plainChar c then some { s with mode := .plain, cur := s.cur ++ [c] }
    else none
  | .dquote =>
    if c = '"' then some { s with mode := .afterQuote }
    else if c = '\\' then some { s with mode := .dqEsc }
    else if c = '$' || c = '`' then none                 -- expansion: outside the model
    else some { s with cur := s.cur ++ [c] }
  | .dqEsc =>
    if c = '$' || c = '`' || c = '"' || c = '\\' then some { s with mode := .dquote, cur := s.cur ++ [c] }
    else if c = '\n' then some { s with mode := .dquote }                   -- line continuation
    else some { s with mode := .dquote, cur := s.cur ++ ['\\', c] }

def runc (s : PS) : Str → Option PS
  | []      => some s
  | c :: cs => match stepc s c with
               | some s' => runc s' cs
               | none    => none

def finish (s : PS) : Option (List Str) :=
  match s.mode with
  | .between    => some s.done
  | .plain      => some (s.done ++ [s.cur])
  | .afterQuote => some (s.done ++ [s.cur])
  | _           => none

def finishO : Option PS → Option (List Str)
  | some s => finish s
  | none   => none

/-- the words bash makes of a command line of this fragment -/
def words (line : Str) : Option (List Str) := finishO (runc {} line)

/-- what an `export K=...` line assigns: (name, value) -/
def exported (line : Str) : Option (Str × Str) :=
  match words line with
  | some [w1, w2] =>
    if w1 = "export".toList then some (w2.takeWhile (· ≠ '='), (w2.dropWhile (· ≠ '=')).drop 1) else none
  | _ => none

/-! ### `$NAME` at the start of a word -/

def nameChar (c : Char) : Bool := c.isAlphanum || c = '_'

/-- bash expands `$` followed by the LONGEST name; `env` knows one variable -/
def expandHead (name val : Str) (s : Str) : Str :=
  match s with
  | '$' :: rest =>
    if rest.takeWhile nameChar = name then val ++ rest.dropWhile nameChar
    else rest.dropWhile nameChar            -- another (unset) variable: empty
  | _ => s

def isPrefixB : Str → Str → Bool
  | [],      _       => true
  | _ :: _,  []      => false
  | a :: as, b :: bs => a = b && isPrefixB as bs

def pilotVar : Str := "RP_PILOT_SANDBOX".toList

/-- `_get_rp_env`: the task sandbox is written relative to `$RP_PILOT_SANDBOX` when it lies in it
    (`componentwise := false` is the comparison of the original code: plain string prefix) -/
def sboxRef (componentwise : Bool) (pwd sbox : Str) : Str :=
  if componentwise then
    (if sbox = pwd ∨ isPrefixB (pwd ++ ['/']) sbox = true then '$' :: (pilotVar ++ sbox.drop pwd.length) else sbox)
  else
    (if isPrefixB pwd sbox = true then '$' :: (pilotVar ++ sbox.drop pwd.length) else sbox)

/-- `gpus_per_rank` as written to RP_GPUS_PER_RANK: `%d` for whole numbers, else `%f`
    (six decimals); the value is given in sixteenths -/
def pad6 (n : Nat) : Str :=
  let s := (toString n).toList
  List.replicate (6 - s.length) '0' ++ s

def gprStr (k16 : Nat) : Str :=
  if k16 % 16 = 0 then (toString (k16 / 16)).toList
  else (toString (k16 / 16)).toList ++ ('.' :: pad6 ((k16 % 16) * 1000000 / 16))

end RPVerif.Shell
