/-
Model of the pilot sizing arithmetic in
`PMGRLaunchingComponent._prepare_pilot` (pmgr/launching/base.py), C17.
All quantities are natural numbers (`math.ceil(a / b)` on the tied integer
range equals ceiling division).
-/
namespace RPVerif.Sizing

/-- what the resource config contributes -/
structure RC where
  cpn : Nat            -- cores_per_node (0 = unknown)
  gpn : Nat            -- gpus_per_node
  smt : Nat            -- RADICAL_SMT or system_architecture.smt (default 1)
  blockedCores : Nat   -- len(blocked_cores)
  blockedGpus  : Nat   -- len(blocked_gpus)
deriving Repr, DecidableEq

/-- what the pilot description contributes -/
structure PD where
  nodes  : Nat
  cores  : Nat
  gpus   : Nat
  backup : Nat
deriving Repr, DecidableEq

inductive Err where
  | assertion     -- AssertionError (blocked cores/gpus exceed the node)
  | runtime       -- RuntimeError('use "cores" in PilotDescription')
deriving Repr, DecidableEq

structure Sizing where
  -- batch job description
  nodeCount : Nat
  totalCpu  : Nat
  totalGpu  : Nat
  procsPerHost : Nat
  -- agent config
  agentNodes  : Nat
  agentBackup : Nat
  agentCores  : Nat
  agentGpus   : Nat
  agentCoresPerNode : Nat
  agentGpusPerNode  : Nat
deriving Repr, DecidableEq

/-- `math.ceil(a / b)` for b > 0 -/
def ceilDiv (a b : Nat) : Nat := (a + b - 1) / b

/-- `cores_per_node *= smt` (only if both are truthy) -/
def coresPerNode (rc : RC) : Nat :=
  if rc.cpn ≠ 0 ∧ rc.smt ≠ 0 then rc.cpn * rc.smt else rc.cpn

/-- `avail_cores_per_node`, `None` = AssertionError -/
def availCores (rc : RC) : Option Nat :=
  if coresPerNode rc ≠ 0 ∧ rc.blockedCores ≠ 0 then
    (if rc.blockedCores < coresPerNode rc then some (coresPerNode rc - rc.blockedCores) else none)
  else some (coresPerNode rc)

def availGpus (rc : RC) : Option Nat :=
  if rc.gpn ≠ 0 ∧ rc.blockedGpus ≠ 0 then
    (if rc.blockedGpus ≤ rc.gpn then some (rc.gpn - rc.blockedGpus) else none)
  else some rc.gpn

/-- the node count requested from the batch system (without backup nodes) -/
def reqNodes (pd : PD) (ac ag : Nat) : Except Err Nat :=
  if pd.nodes ≠ 0 then
    (if ac = 0 then .error .runtime else .ok pd.nodes)
  else
    .ok (max (if ag ≠ 0 then ceilDiv pd.gpus ag else 0) (if ac ≠ 0 then ceilDiv pd.cores ac else 0))

/-- `x or y` -/
def orElse (x y : Nat) : Nat := if x ≠ 0 then x else y

def sizePilot (rc : RC) (pd : PD) : Except Err Sizing :=
  match availCores rc, availGpus rc with
  | none, _ => .error .assertion
  | _, none => .error .assertion
  | some ac, some ag =>
    match reqNodes pd ac ag with
    | .error e => .error e
    | .ok n =>
      .ok { nodeCount := n + pd.backup,
            totalCpu  := orElse ((n + pd.backup) * ac) pd.cores,
            totalGpu  := orElse ((n + pd.backup) * ag) pd.gpus,
            procsPerHost := ac,
            agentNodes := n, agentBackup := pd.backup,
            agentCores := orElse ((n + pd.backup) * ac) pd.cores,
            agentGpus  := orElse ((n + pd.backup) * ag) pd.gpus,
            agentCoresPerNode := coresPerNode rc,
            agentGpusPerNode  := rc.gpn }

/-! ### the node figure the agent works with -/

/-- `ResourceManager._init_from_scratch`: the agent was told `told` nodes by the configuration `_prepare_pilot` wrote (0: not
    told - platforms whose node size the client does not know); `derived` is what the core / GPU figures of the job - which
    cover the backup nodes too - would give.  With `keepsTold` (the guard of the fallback as read from the source) the
    derivation is the fallback; otherwise it always replaces what the agent was told -/
def agentNodes (keepsTold : Bool) (told derived : Nat) : Nat :=
  if keepsTold then (if told = 0 then derived else told) else derived

end RPVerif.Sizing
