/-
Model of the delivery of one task state notification to the application's callbacks (C06):
  task_manager.py  TaskManager._task_cb (wildcard callbacks, then the callbacks of the task),
                   register_callback / unregister_callback called from inside a callback
A callback is identified by a number; `act id` is what it does to the registry when it is called
(the registry lock is re-entrant, so a callback may use the registry).
-/
namespace RPVerif.Callbacks

inductive Edit where
  | nothing
  | unregister (id : Nat)      -- e.g. a one-shot callback taking itself out
  | register (id : Nat)        -- a callback installing a follow-up callback
deriving DecidableEq, Repr

def applyEdit (reg : List Nat) : Edit → List Nat
  | .nothing       => reg
  | .unregister id => reg.filter (· ≠ id)
  | .register id   => if reg.contains id then reg else reg ++ [id]

/-- iteration over the live registry: Python raises `RuntimeError: dictionary changed size during
    iteration` at the next step once a callback changed the number of entries -/
def liveLoop (act : Nat → Edit) : List Nat → List Nat → List Nat → List Nat × List Nat × Bool
  | [],        reg, called => (called, reg, false)
  | id :: rest, reg, called =>
    let reg' := applyEdit reg (act id)
    if reg'.length ≠ reg.length then (called ++ [id], reg', true)
    else liveLoop act rest reg' (called ++ [id])

/-- `_task_cb`: with `snapshot` the callbacks are first collected in a list, which is then walked.
    Returns the callbacks called (in order), the registry afterwards, and whether an exception escaped -/
def deliver (snapshot : Bool) (reg : List Nat) (act : Nat → Edit) : List Nat × List Nat × Bool :=
  if snapshot then (reg, reg.foldl (fun r id => applyEdit r (act id)) reg, false)
  else liveLoop act reg reg []

end RPVerif.Callbacks
