/-
Model of the delivery of one task state notification to the application's callbacks (C06):
  task_manager.py  TaskManager._task_cb (wildcard callbacks, then the callbacks of the task),
                   register_callback / unregister_callback called from inside a callback
A callback is identified by a number; `act id` is what it does to the registry when it is called
(the registry lock is re-entrant, so a callback may use the registry).
-/
namespace RPVerif.Callbacks

inductive Edit where
  | nothing
  | unregister (id : Nat)      -- e.g. a one-shot callback taking itself out
  | register (id : Nat)        -- a callback installing a follow-up callback
deriving DecidableEq, Repr

def applyEdit (reg : List Nat) : Edit → List Nat
  | .nothing       => reg
  | .unregister id => reg.filter (· ≠ id)
  | .register id   => if reg.contains id then reg else reg ++ [id]

/-- iteration over the live registry: Python raises `RuntimeError: dictionary changed size during
    iteration` at the next step once a callback changed the number of entries -/
def liveLoop (act : Nat → Edit) : List Nat → List Nat → List Nat → List Nat × List Nat × Bool
  | [],        reg, called => (called, reg, false)
  | id :: rest, reg, called =>
    let reg' := applyEdit reg (act id)
    if reg'.length ≠ reg.length then (called ++ [id], reg', true)
    else liveLoop act rest reg' (called ++ [id])

/-- `_task_cb`: with `snapshot` the callbacks are first collected in a list, which is then walked.
    Returns the callbacks called (in order), the registry afterwards, and whether an exception escaped -/
def deliver (snapshot : Bool) (reg : List Nat) (act : Nat → Edit) : List Nat × List Nat × Bool :=
  if snapshot then (reg, reg.foldl (fun r id => applyEdit r (act id)) reg, false)
  else liveLoop act reg reg []

/-! ### a pilot ends while `TaskManager.submit_tasks` is under way

The application thread creates the tasks of a bulk, enters them into the registry and hands the bulk to the
scheduler; the pilot update thread delivers the pilot's final state to `_pilot_state_cb`, which scans the registry
(without the tasks lock).  `handedBefore`: the bulk had reached the scheduler when the callback ran. -/

inductive SubEv where
  | register | handOver | final
deriving DecidableEq, Repr

/-- the two steps of the submitting thread in the order the code has them -/
def submitOrder (registersFirst : Bool) : List SubEv :=
  if registersFirst then [.register, .handOver] else [.handOver, .register]

/-- the callback runs after `i` steps of the submitting thread -/
def withFinalAt (l : List SubEv) (i : Nat) : List SubEv := l.take i ++ [.final] ++ l.drop i

structure SubSt where
  registered   : Bool := false
  handed       : Bool := false
  handedBefore : Bool := false      -- when the callback ran the scheduler already had the bulk
  failed       : Bool := false      -- the callback found the bulk's task of the dead pilot and failed it
deriving DecidableEq, Repr

def subStep (s : SubSt) : SubEv → SubSt
  | .register => { s with registered := true }
  | .handOver => { s with handed := true }
  | .final    => { s with handedBefore := s.handed, failed := s.registered }

def subRun (evs : List SubEv) : SubSt := evs.foldl subStep {}

/-! ### two notifications for one pilot handled by `PilotManager._update_pilot` on a thread each

A notification is handled in two steps - read the pilot's state and plan the progression, then apply it to the pilot
object.  Inside one section of the pilots lock the two are one step (`update`); with the application outside the lock
they are `plan` and `apply`, and the other thread may come in between.  States are their values (a notification makes
the pilot progress to the larger value; final states carry the largest). -/

inductive UpdEv where
  | update (target : Nat)              -- plan and apply in one lock section
  | plan (k : Nat) (target : Nat)      -- thread k reads the state and plans
  | apply (k : Nat)                    -- thread k writes what it planned
deriving DecidableEq, Repr

structure UpdSt where
  cur   : Nat
  plans : List (Nat × Nat) := []
deriving DecidableEq, Repr

def updStep (s : UpdSt) : UpdEv → UpdSt
  | .update t => { s with cur := max s.cur t }
  | .plan k t => { s with plans := s.plans ++ [(k, max s.cur t)] }
  | .apply k  => match s.plans.find? (fun e => e.1 = k) with
                 | some (_, v) => { cur := v, plans := s.plans.filter (fun e => e.1 ≠ k) }
                 | none        => s

def updRun (s : UpdSt) (evs : List UpdEv) : UpdSt := evs.foldl updStep s

/-- the steps of two threads handling targets `a` and `b` -/
def updThreads (inLock : Bool) (a b : Nat) : List UpdEv × List UpdEv :=
  if inLock then ([.update a], [.update b]) else ([.plan 0 a, .apply 0], [.plan 1 b, .apply 1])

end RPVerif.Callbacks
