/-
Model of the JSRUN flavour of the agent scheduler (property C01):
  agent/scheduler/continuous_jsrun.py  ContinuousJsrun.schedule_task (resource-set shape,
                                       node walk for untagged tasks), _find_resources,
                                       _change_slot_states, unschedule_task
A *resource set* is what jsrun places: `ranks_per_slot` ranks which together own
`gpus_per_slot` whole GPUs.  A task with a fractional `gpus_per_rank` is turned into
resource sets so that several ranks share the GPUs of one set.
GPU amounts are counted in sixteenths (dyadic floats are exact): 16 = one GPU.
-/
import RPVerif.Model.Sched
namespace RPVerif.JsrunSched
open RPVerif.Sched (Occ NodeSt Err)

/-- one placed resource set -/
structure RSlot where
  node  : Nat
  cores : List (List Nat)      -- one list per rank
  gpus  : List Nat             -- whole GPUs, seen by every rank of the set
  lfs   : Nat
  mem   : Nat
deriving DecidableEq, Repr

structure Shape where
  reqSlots     : Nat
  ranksPerSlot : Nat
  coresPerSlot : Nat
  gpusPerSlot  : Nat
  lfsPerSlot   : Nat
  memPerSlot   : Nat
deriving DecidableEq, Repr

/-- `m.ceil(ranks * gpus_per_rank)` with the share in sixteenths -/
def ceil16 (x : Nat) : Nat := (x + 15) / 16

/-- the head of `schedule_task`: how a request is cut into resource sets -/
def shape (ranks cpr gpr lfs mem : Nat) : Shape :=
  let cps := if cpr = 0 then 1 else cpr
  if gpr % 16 ≠ 0 then
    let gpus := ceil16 (ranks * gpr)
    let rs   := Nat.gcd ranks gpus
    let rps  := ranks / rs
    { reqSlots := rs, ranksPerSlot := rps, coresPerSlot := cps * rps, gpusPerSlot := gpus / rs,
      lfsPerSlot := lfs * rps, memPerSlot := mem * rps }
  else
    { reqSlots := ranks, ranksPerSlot := 1, coresPerSlot := cps, gpusPerSlot := gpr / 16,
      lfsPerSlot := lfs, memPerSlot := mem }

def countFree (l : List Occ) : Nat := (l.filter (· = .free)).length

/-- `while len(xs) < need: if occ[idx] == FREE: xs.append(idx); idx += 1`;
    `none` = the index ran off the list (IndexError) -/
def takeFree : List Occ → Nat → Nat → Option (List Nat × Nat)
  | _,       idx, 0        => some ([], idx)
  | [],      _,   _ + 1    => none
  | o :: os, idx, need + 1 =>
    if o = .free then
      match takeFree os (idx + 1) need with
      | some (r, e) => some (idx :: r, e)
      | none        => none
    else takeFree os (idx + 1) (need + 1)

/-- `cores[i:i + cores_per_rank] for i in range(0, len(cores), cores_per_rank)` -/
def chunks (fuel : Nat) (k : Nat) (l : List Nat) : List (List Nat) :=
  match fuel with
  | 0        => []
  | fuel + 1 => if l = [] then [] else if k = 0 then [] else l.take k :: chunks fuel k (l.drop k)

/-- how many resource sets the node can serve at most -/
def servable (n : NodeSt) (cps gps lfs mem : Nat) : Nat :=
  let a := if cps ≠ 0 then countFree n.cores / cps else 1
  let a := if gps ≠ 0 then min a (countFree n.gpus / gps) else a
  let a := if lfs ≠ 0 then min a (n.lfs.toNat / lfs) else a
  let a := if mem ≠ 0 then min a (n.mem.toNat / mem) else a
  a

/-- the `for _ in range(alc_slots)` loop -/
def digOut (n : NodeSt) (rps cps gps lfs mem : Nat) : Nat → Nat → Nat → Option (List RSlot)
  | 0,     _,  _  => some []
  | k + 1, ci, gi =>
    match takeFree (n.cores.drop ci) ci cps with
    | none => none
    | some (cs, ci') =>
      match takeFree (n.gpus.drop gi) gi gps with
      | none => none
      | some (gs, gi') =>
        match digOut n rps cps gps lfs mem k ci' gi' with
        | none => none
        | some rest =>
          some ({ node := n.index, cores := chunks cs.length (cps / rps) cs, gpus := gs, lfs := lfs, mem := mem } :: rest)

/-- `_find_resources(node, n_slots, ranks_per_slot, ..., partial)`; `.ok none` = `None`,
    `.error` = the loop ran off the node (never happens: `find_total`) -/
def findJ (n : NodeSt) (nSlots rps cps gps lfs mem : Nat) (partial_ : Bool) : Except Err (Option (List RSlot)) :=
  let a := servable n cps gps lfs mem
  if a = 0 then .ok none
  else if !partial_ && a < nSlots then .ok none
  else
    match digOut n rps cps gps lfs mem (min a nSlots) 0 0 with
    | none    => .error .runtime
    | some sl => .ok (some sl)

/-! ### `_change_slot_states` -/

def setAll (l : List Occ) (idx : List Nat) (v : Occ) : List Occ :=
  idx.foldl (fun acc i => acc.set i v) l

def markSlot (busy : Bool) (n : NodeSt) (s : RSlot) : NodeSt :=
  if n.index ≠ s.node then n
  else
    { n with cores := setAll n.cores s.cores.flatten (if busy then .busy else .free),
             gpus  := setAll n.gpus s.gpus (if busy then .busy else .free),
             lfs   := if busy then n.lfs - s.lfs else n.lfs + s.lfs,
             mem   := if busy then n.mem - s.mem else n.mem + s.mem }

/-- the first node with that index is the one changed (`break` at the first match);
    `none` = 'inconsistent node information' -/
def changeOne (busy : Bool) : List NodeSt → RSlot → Option (List NodeSt)
  | [],      _ => none
  | n :: ns, s =>
    if n.index = s.node then some (markSlot busy n s :: ns)
    else match changeOne busy ns s with
         | some r => some (n :: r)
         | none   => none

def changeAll (busy : Bool) (nodes : List NodeSt) (sl : List RSlot) : Option (List NodeSt) :=
  sl.foldl (fun acc s => match acc with | some ns => changeOne busy ns s | none => none) (some nodes)

/-! ### `schedule_task` for untagged tasks -/

structure Walk where
  alc     : List RSlot := []
  rem     : Nat
  isFirst : Bool := true
  isLast  : Bool := false
  done    : Bool := false
deriving Repr

def slotsPerNode (cpn gpn lfsPn memPn : Nat) (s : Shape) : Nat :=
  let a := cpn / s.coresPerSlot
  let a := if s.gpusPerSlot ≠ 0 then min a (gpn / s.gpusPerSlot) else a
  let a := if s.lfsPerSlot ≠ 0 then min a (lfsPn / s.lfsPerSlot) else a
  let a := if s.memPerSlot ≠ 0 then min a (memPn / s.memPerSlot) else a
  a

/-- one node of the walk -/
def walkStep (scattered mpi : Bool) (s : Shape) (spn : Nat) (w : Walk) (n : NodeSt) : Except Err Walk :=
  if w.done then .ok w
  else
    let isLast := w.isLast || decide (w.rem < spn)
    let part := mpi && (w.isFirst || scattered || isLast)
    match findJ n (min w.rem spn) s.ranksPerSlot s.coresPerSlot s.gpusPerSlot s.lfsPerSlot s.memPerSlot part with
    | .error e => .error e
    | .ok none =>
      if scattered then .ok { w with isLast := isLast }
      else .ok { alc := [], rem := s.reqSlots, isFirst := true, isLast := false, done := false }
    | .ok (some []) =>                      -- `if not new_slots`: an empty list counts as no match
      if scattered then .ok { w with isLast := isLast }
      else .ok { alc := [], rem := s.reqSlots, isFirst := true, isLast := false, done := false }
    | .ok (some sl) =>
      .ok { alc := w.alc ++ sl, rem := w.rem - sl.length, isFirst := false, isLast := isLast,
            done := decide (w.rem - sl.length = 0) }

def rotate (l : List NodeSt) (k : Nat) : List NodeSt := l.drop k ++ l.take k

structure JCfg where
  cpn : Nat
  gpn : Nat
  lfsPn : Nat
  memPn : Nat
  scattered : Bool
deriving Repr

structure JReq where
  uid   : Nat
  ranks : Nat
  cpr   : Nat
  gpr   : Nat
  lfs   : Nat
  mem   : Nat
deriving Repr

inductive JRes where
  | placed (slots : List RSlot)
  | noRoom
  | raised (e : Err)
deriving Repr

/-- the `for node in self._iterate_nodes()` loop: stops at the node that completes the request;
    returns the walk state and the number of nodes the iterator handed out -/
def walkGo (scattered mpi : Bool) (s : Shape) (spn : Nat) : List NodeSt → Walk → Nat → Except Err (Walk × Nat)
  | [],        w, visited => .ok (w, visited)
  | n :: rest, w, visited =>
    match walkStep scattered mpi s spn w n with
    | .error e => .error e
    | .ok w'   => if w'.done then .ok (w', visited + 1) else walkGo scattered mpi s spn rest w' (visited + 1)

/-- `schedule_task`: result and the new node offset (the iterator is suspended at the node where
    the loop breaks, so the offset is not moved past that node) -/
def schedule (cfg : JCfg) (nodes : List NodeSt) (offset : Nat) (r : JReq) : JRes × Nat :=
  let s := shape r.ranks r.cpr r.gpr r.lfs r.mem
  if s.coresPerSlot > cfg.cpn ∨ s.gpusPerSlot > cfg.gpn ∨ s.lfsPerSlot > cfg.lfsPn ∨ s.memPerSlot > cfg.memPn then
    (.raised .assertion, offset)
  else
    let spn := slotsPerNode cfg.cpn cfg.gpn cfg.lfsPn cfg.memPn s
    let mpi := decide (r.ranks > 1)
    if !mpi && s.reqSlots > spn then (.raised .value, offset)
    else
      match walkGo cfg.scattered mpi s spn (rotate nodes offset) { rem := s.reqSlots } 0 with
      | .error e => (.raised e, offset)
      | .ok (w, visited) =>
        let off' := if nodes.length = 0 then offset else (offset + visited - (if w.done then 1 else 0)) % nodes.length
        if w.rem > 0 then (.noRoom, off') else (.placed w.alc, off')

/-! ### the scheduler's bookkeeping around it (`_try_allocation`, release) -/

structure JState where
  nodes  : List NodeSt
  offset : Nat := 0
  active : Nat := 0
  held   : List (Nat × List RSlot) := []
deriving Repr

inductive JOut where
  | placed (slots : List RSlot)
  | wait
  | raised (e : Err)
  | released
  | unknown
deriving Repr

/-- `_try_allocation` -/
def tryAlloc (cfg : JCfg) (st : JState) (r : JReq) : JState × JOut :=
  match schedule cfg st.nodes st.offset r with
  | (.raised e, off) => ({ st with offset := off }, .raised e)
  | (.noRoom, off)   =>
    if st.active = 0 then ({ st with offset := off }, .raised .runtime) else ({ st with offset := off }, .wait)
  | (.placed [], off) =>
    if st.active = 0 then ({ st with offset := off }, .raised .runtime) else ({ st with offset := off }, .wait)
  | (.placed sl, off) =>
    match changeAll true st.nodes sl with
    | none    => ({ st with offset := off, active := st.active + 1 }, .raised .runtime)
    | some ns => ({ nodes := ns, offset := off, active := st.active + 1, held := st.held ++ [(r.uid, sl)] }, .placed sl)

/-- `unschedule_task` for a task holding a placement (and the counter of `_unschedule_completed`) -/
def release (st : JState) (uid : Nat) : JState × JOut :=
  match st.held.find? (fun e => e.1 = uid) with
  | none   => (st, .unknown)
  | some e =>
    match changeAll false st.nodes e.2 with
    | none    => (st, .raised .runtime)
    | some ns => ({ st with nodes := ns, active := st.active - 1, held := st.held.filter (fun x => x.1 ≠ uid) }, .released)

inductive JOp where
  | alloc (r : JReq)
  | rel (uid : Nat)
deriving Repr

def jstep (cfg : JCfg) (st : JState) : JOp → JState × JOut
  | .alloc r => tryAlloc cfg st r
  | .rel u   => release st u

end RPVerif.JsrunSched
