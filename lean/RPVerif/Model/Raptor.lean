/-
Model of raptor request accounting (property C20):
  raptor/worker_default.py  _alloc / _dealloc (allocator of one worker's cores and GPUs),
                            _request_cb / _dispatch / _worker_proc / _result_cb (life cycle)
  raptor/master.py          _submit_tasks (routing by mode), _request_cb (raptor_seen),
                            _result_cb (exit code -> target state)
  agent/scheduler/base.py   _schedule_incoming: forwarding of raptor tasks
  raptor/worker.py          _dispatch_func/_eval/_exec/_proc/_shell (capture, env save/restore)
-/
namespace RPVerif.Raptor

/-! ### (1) the allocator -/

structure Res where
  cores : List Bool        -- busy flags
  gpus  : List Bool
deriving DecidableEq, Repr

structure Slots where
  cores : List Nat
  gpus  : List Nat
deriving DecidableEq, Repr

def countFree (l : List Bool) : Nat := l.count false

/-- the first `k` free indices, scanning from `i` -/
def pick : List Bool → Nat → Nat → List Nat
  | [],      _, _     => []
  | _ :: _,  _, 0     => []
  | b :: bs, i, k + 1 => if b then pick bs (i + 1) (k + 1) else i :: pick bs (i + 1) k

def setAll (l : List Bool) (idx : List Nat) (v : Bool) : List Bool :=
  idx.foldl (fun acc i => acc.set i v) l

inductive AllocRes where
  | assertion               -- cores < 1, or more than the worker has
  | wait                    -- not enough free right now
  | ok (r : Res) (s : Slots)
deriving DecidableEq, Repr

def alloc (r : Res) (cores gpus : Nat) : AllocRes :=
  if cores < 1 ∨ cores > r.cores.length ∨ gpus > r.gpus.length then .assertion
  else if cores > countFree r.cores ∨ gpus > countFree r.gpus then .wait
  else
    (fun (cs gs : List Nat) =>
      .ok { cores := setAll r.cores cs true, gpus := setAll r.gpus gs true } { cores := cs, gpus := gs })
      (pick r.cores 0 cores) (pick r.gpus 0 gpus)

/-- `_dealloc`: `none` = assertion (a listed core or GPU is not busy) -/
def dealloc (r : Res) (s : Slots) : Option Res :=
  if s.cores.all (fun i => r.cores.getD i false) ∧ s.gpus.all (fun i => r.gpus.getD i false)
  then some { cores := setAll r.cores s.cores false, gpus := setAll r.gpus s.gpus false }
  else none

/-! ### (2) life cycle of one request in the worker
  three parties: the rank process `_worker_proc` (computes, takes the result lock, puts the result,
  releases the lock, exits), the dispatch process `_dispatch` (joins with the task's timeout, takes
  the lock, decides whether the rank process must be terminated and a timeout result queued), and
  the result watcher (`_result_cb`: forget the pid, release the resources, answer the master).
  `flagCheck = true` is the code after the repair (the rank process records under the lock that it
  queued its result), `false` the original test `worker_proc.is_alive()`. -/

inductive WP where
  | running | hasLock | put | released | exited | killed
deriving DecidableEq, Repr

inductive DP where
  | joining | wantLock | hasLock | done
deriving DecidableEq, Repr

structure LS where
  wp        : WP := .running
  dp        : DP := .joining
  lock      : Bool := false          -- result lock held by someone
  doneFlag  : Bool := false          -- set by the rank process together with its result
  queued    : Nat := 0               -- results on the result queue
  inPool    : Bool := true           -- pid registered in `_pool`
  held      : Bool := true           -- resources of the request are allocated
  answers   : Nat := 0               -- results sent to the master
  watcher   : Bool := true           -- result watcher thread alive
deriving DecidableEq, Repr

inductive LChoice where
  | wp          -- the rank process takes its next step
  | dp          -- the dispatch process takes its next step (join returns when the rank process exited)
  | timeout     -- the join of the dispatch process times out
  | watcher     -- the result watcher handles one queued result
deriving DecidableEq, Repr

def lstep (flagCheck : Bool) (s : LS) : LChoice → LS
  | .wp =>
    match s.wp with
    | .running  => if s.lock then s else { s with wp := .hasLock, lock := true }
    | .hasLock  => { s with wp := .put, queued := s.queued + 1, doneFlag := true }
    | .put      => { s with wp := .released, lock := false }
    | .released => { s with wp := .exited }
    | _         => s
  | .dp =>
    match s.dp with
    | .joining  => if s.wp = .exited then { s with dp := .wantLock } else s
    | .wantLock => if s.lock then s else { s with dp := .hasLock, lock := true }
    | .hasLock  =>
      -- `if worker_proc.is_alive()` / `if not done.is_set()`
      if (if flagCheck then ¬ s.doneFlag else (s.wp ≠ .exited)) then
        { s with dp := .done, lock := false, wp := .killed, queued := s.queued + 1 }
      else { s with dp := .done, lock := false }
    | .done     => s
  | .timeout =>
    match s.dp with
    | .joining => { s with dp := .wantLock }
    | _        => s
  | .watcher =>
    if s.watcher ∧ s.queued > 0 then
      (if s.inPool then { s with queued := s.queued - 1, inPool := false, held := false, answers := s.answers + 1 }
       else { s with queued := s.queued - 1, watcher := false })       -- `del self._pool[pid]`: KeyError
    else s

def lrun (flagCheck : Bool) (s : LS) (cs : List LChoice) : LS := cs.foldl (lstep flagCheck) s

/-! ### (2b) starting a request: the request thread (`_request_cb`) against the result watcher (`_result_cb`)
  The request thread creates the dispatch process, starts it and registers its pid in `_pool`; the
  watcher removes the pid under the same lock (`_plock`) before it releases the resources and answers
  the master.  Once started, the process may deliver its result at any time.
  `startInLock` says whether `proc.start()` sits inside the `with self._plock:` block together with
  the registration (read from worker_default.py by the translator). -/

inductive RQ where
  | idle | locked | started | registered | done
deriving DecidableEq, Repr

structure SS where
  rq       : RQ   := .idle
  plock    : Bool := false        -- `_plock` held by the request thread
  started  : Bool := false        -- the dispatch process runs
  finished : Bool := false        -- ... and has come to its end
  queued   : Bool := false        -- its result is on the result queue
  inPool   : Bool := false
  held     : Bool := true         -- resources of the request (allocated before the start)
  answered : Bool := false
  watcher  : Bool := true
deriving DecidableEq, Repr

inductive SChoice where
  | req        -- the request thread takes its next step
  | proc       -- the dispatch process (with its rank process) runs to its end and queues the result
  | watcher    -- the result watcher handles the queued result (blocked while `_plock` is held)
deriving DecidableEq, Repr

def sstep (startInLock : Bool) (s : SS) : SChoice → SS
  | .req =>
    if startInLock then
      match s.rq with
      | .idle       => { s with rq := .locked, plock := true }
      | .locked     => { s with rq := .started, started := true }
      | .started    => { s with rq := .registered, inPool := true }
      | .registered => { s with rq := .done, plock := false }
      | .done       => s
    else
      match s.rq with
      | .idle       => { s with rq := .started, started := true }
      | .started    => { s with rq := .locked, plock := true }
      | .locked     => { s with rq := .registered, inPool := true }
      | .registered => { s with rq := .done, plock := false }
      | .done       => s
  | .proc =>
    if s.started ∧ ¬ s.finished then { s with finished := true, queued := true } else s
  | .watcher =>
    if s.watcher ∧ s.queued ∧ ¬ s.plock then
      (if s.inPool then { s with queued := false, inPool := false, held := false, answered := true }
       else { s with queued := false, watcher := false })              -- `del self._pool[pid]`: KeyError
    else s

def srun (startInLock : Bool) (s : SS) (cs : List SChoice) : SS := cs.foldl (sstep startInLock) s

/-! ### (3) master and scheduler: routing and target state -/

inductive Mode where
  | executable | func | meth | eval | exec | proc | shell | raptorWorker | raptorMaster
deriving DecidableEq, Repr

inductive Route where
  | agent       -- pushed into the agent's normal path (AGENT_STAGING_INPUT_PENDING)
  | workers     -- put on the worker request queue
deriving DecidableEq, Repr

/-- `Master._submit_tasks` -/
def masterRoute (m : Mode) : Route := if m = .executable then .agent else .workers

/-- `Master._request_cb`: executable tasks are marked as seen -/
def masterSeen (m : Mode) (seen : Bool) : Bool := if m = .executable then true else seen

inductive SchedRoute where
  | toRaptor    -- forwarded to the raptor master named by the task
  | schedule    -- placed by the agent scheduler
deriving DecidableEq, Repr

/-- `AgentSchedulingComponent._schedule_incoming` -/
def schedRoute (hasRaptorId : Bool) (m : Mode) (seen : Bool) : SchedRoute :=
  if hasRaptorId ∧ m ≠ .raptorWorker then (if seen then .schedule else .toRaptor) else .schedule

/-- `Master._result_cb`: a missing exit code counts as -1 -/
def targetState (exitCode : Option Int) : String :=
  if exitCode.getD (-1) = 0 then "DONE" else "FAILED"

/-! ### (3b) the scheduler's raptor backlog
  requests naming a master (`some m`) or any master (`none`, raptor_id '*') are handed to the
  master's queue if it is registered, shared out round robin for '*', or kept until a queue registers -/

structure Fwd where
  queues    : List Nat                          -- registered masters, in registration order
  backlog   : List (Option Nat × List Nat)      -- `_raptor_tasks`: key (none = '*') -> waiting requests
  delivered : List (Nat × Nat)                  -- (master, request) in the order they were put
  failed    : List Nat
  canceled  : List Nat
deriving DecidableEq, Repr

def blGet (b : List (Option Nat × List Nat)) (k : Option Nat) : List Nat :=
  match b.find? (fun e => e.1 = k) with
  | some e => e.2
  | none   => []

def blAdd (b : List (Option Nat × List Nat)) (k : Option Nat) (ts : List Nat) : List (Option Nat × List Nat) :=
  if b.any (fun e => e.1 = k) then b.map (fun e => if e.1 = k then (e.1, e.2 ++ ts) else e) else b ++ [(k, ts)]

def blDel (b : List (Option Nat × List Nat)) (k : Option Nat) : List (Option Nat × List Nat) :=
  b.filter (fun e => e.1 ≠ k)

/-- `names[idx % n_names]` for the request with index `idx` -/
def rrFrom (queues : List Nat) : Nat → List Nat → List (Nat × Nat)
  | _, []      => []
  | i, t :: ts => (match queues[i % queues.length]? with
                   | some q => [(q, t)]
                   | none   => []) ++ rrFrom queues (i + 1) ts

def roundRobin (queues : List Nat) (ts : List Nat) : List (Nat × Nat) := rrFrom queues 0 ts

/-- one drain of `_schedule_incoming`: the raptor requests of this drain, grouped by key in
    first-occurrence order -/
def fwdIncoming (s : Fwd) : List (Option Nat × List Nat) → Fwd
  | []            => s
  | (k, ts) :: gs =>
    (match k with
     | some m =>
       if m ∈ s.queues then fwdIncoming { s with delivered := s.delivered ++ ts.map (fun t => (m, t)) } gs
       else fwdIncoming { s with backlog := blAdd s.backlog k ts } gs
     | none =>
       if s.queues ≠ [] then fwdIncoming { s with delivered := s.delivered ++ roundRobin s.queues ts } gs
       else fwdIncoming { s with backlog := blAdd s.backlog k ts } gs)

/-- `register_raptor_queue` -/
def fwdRegister (s : Fwd) (m : Nat) : Fwd :=
  { s with queues := if m ∈ s.queues then s.queues else s.queues ++ [m],
           delivered := s.delivered ++ (blGet s.backlog (some m)).map (fun t => (m, t))
                                    ++ (blGet s.backlog none).map (fun t => (m, t)),
           backlog := blDel (blDel s.backlog (some m)) none }

/-- `unregister_raptor_queue` -/
def fwdUnregister (s : Fwd) (m : Nat) : Fwd :=
  { s with queues := s.queues.filter (· ≠ m),
           failed := s.failed ++ blGet s.backlog (some m),
           backlog := blDel s.backlog (some m) }

/-- `cancel_tasks`: waiting requests named by the message are canceled -/
def fwdCancel (s : Fwd) (uids : List Nat) : Fwd :=
  { s with canceled := s.canceled ++ (s.backlog.flatMap (fun e => e.2.filter (fun t => t ∈ uids))),
           backlog := s.backlog.map (fun e => (e.1, e.2.filter (fun t => t ∉ uids))) }

inductive FOp where
  | incoming (groups : List (Option Nat × List Nat))
  | register (m : Nat)
  | unregister (m : Nat)
  | cancel (uids : List Nat)
deriving DecidableEq, Repr

def fwdStep (s : Fwd) : FOp → Fwd
  | .incoming gs  => fwdIncoming s gs
  | .register m   => fwdRegister s m
  | .unregister m => fwdUnregister s m
  | .cancel us    => fwdCancel s us

/-! ### (4) the dispatchers: what a payload does, what is reported, what is restored -/

inductive Outcome where
  | returns (val : Nat)
  | raises (exc : Nat)
deriving DecidableEq, Repr

/-- abstract behaviour of a function / eval / exec payload -/
structure Payload where
  out      : List Nat                   -- what it prints to stdout (tokens)
  err      : List Nat
  envEdits : List (Nat × Option Nat)    -- os.environ[k] = v / del os.environ[k]
  rebinds  : Bool                       -- replaces sys.stdout / sys.stderr itself
  outcome  : Outcome
deriving DecidableEq, Repr

abbrev Env := List (Nat × Nat)

def envSet (e : Env) (k v : Nat) : Env := (k, v) :: e.filter (fun x => x.1 ≠ k)
def envDel (e : Env) (k : Nat) : Env := e.filter (fun x => x.1 ≠ k)
def applyEdits (e : Env) : List (Nat × Option Nat) → Env
  | []                => e
  | (k, some v) :: es => applyEdits (envSet e k v) es
  | (k, none) :: es   => applyEdits (envDel e k) es

structure Report where
  out : List Nat
  err : List Nat
  ret : Nat
  val : Option Nat
  exc : Option Nat
deriving DecidableEq, Repr

structure Proc where
  env    : Env          -- os.environ as a mapping
  cenv   : Env          -- the process environment (what children started without `env=` inherit)
  real   : Bool         -- os.environ is the real os._Environ object (assignments reach the process environment)
  stdout : Nat          -- identity of sys.stdout
  stderr : Nat
deriving DecidableEq, Repr

def setMany (e : Env) (kvs : List (Nat × Nat)) : Env := kvs.foldl (fun e kv => envSet e kv.1 kv.2) e

/-- `_dispatch_func/_eval/_exec`: task environment applied, stdio captured, payload run, report
    built, stdio and environment restored.  `restoreC = true` is the code after the repair
    (`os.environ.clear(); os.environ.update(old_env)`: mapping and process environment restored, the
    object stays the real one); `false` the original `os.environ = old_env`, which restores the mapping
    only and replaces it by a plain dict -/
def dispatchPy (restoreC : Bool) (p : Proc) (taskEnv : List (Nat × Nat)) (pl : Payload) : Report × Proc :=
  (match pl.outcome with
   | .returns v => { out := if pl.rebinds then [] else pl.out, err := if pl.rebinds then [] else pl.err,
                     ret := 0, val := some v, exc := none }
   | .raises e  => { out := if pl.rebinds then [] else pl.out, err := (if pl.rebinds then [] else pl.err) ++ [0],
                     ret := 1, val := none, exc := some e },
   if restoreC then p
   else { p with cenv := if p.real then applyEdits (setMany p.cenv taskEnv) pl.envEdits else p.cenv, real := false })

/-- a function request whose callable cannot be obtained (unknown name, a PythonTask that comes with
    arguments): the dispatcher raises before anything runs; the request fails, the process is as before -/
def dispatchUnresolved (p : Proc) : Report × Proc :=
  ({ out := [], err := [], ret := 1, val := none, exc := some 0 }, p)

/-- `DefaultWorker._dispatch/_worker_proc`: what the rank process queues for one request.  The dispatcher
    returned its tuple (`.ok r`): that tuple.  Anything in the try block raised instead - the sandbox cannot
    be made or entered, no dispatcher for the mode, a dispatcher that refuses the request before its own
    capturing block (`.error e`): the exception is recorded, nothing else is known, and the exit code is the one
    the code sets for that path (`raisedExit`, read from the source by the translator) -/
def rankResult (raisedExit : Int) : Except Nat Report → (Int × Option Nat × Option Nat)
  | .ok r    => (r.ret, r.val, r.exc)
  | .error e => (raisedExit, none, some e)

/-- `_dispatch_proc/_shell`: a child process; exit code and captured output are reported as they are -/
def dispatchProc (out err : List Nat) (exitCode : Nat) : Report :=
  { out := out, err := err, ret := exitCode, val := none, exc := none }

/-- `_dispatch_proc` / `_dispatch_shell`: the child is started with a COPY of the worker's base task
    environment updated by the request's own `environment`; the base is not touched.  A stream of
    such requests on one worker: what each child sees -/
def procEnvs (base : Env) (reqs : List (List (Nat × Nat))) : List Env := reqs.map (fun r => setMany base r)

def envGet (e : Env) (k : Nat) : Option Nat := (e.find? (fun x => x.1 = k)).map (·.2)

end RPVerif.Raptor
