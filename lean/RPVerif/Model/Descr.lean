/-
Model of `TaskDescription._verify` (task_description.py) and of the slot format
conversions (utils/misc.py, resource_config.Slot), property C19.
The alias table and the mode chain are PARAMETERS of the model; the instances
that the code contains are regenerated into `Gen/Descr.lean` on every run.
-/
namespace RPVerif.Descr

/-- attribute values; `flt` counts sixteenths (dyadic floats) -/
inductive V where
  | none
  | bool (b : Bool)
  | int (n : Int)
  | flt (n : Int)
  | str (s : String)
deriving DecidableEq, Repr, Inhabited

/-- Python truthiness -/
def V.truthy : V → Bool
  | .none   => false
  | .bool b => b
  | .int n  => n != 0
  | .flt n  => n != 0
  | .str s  => s != ""

/-- a description: attribute name -> value (every schema key has a value) -/
abbrev Dict := String → V

def Dict.set (d : Dict) (k : String) (v : V) : Dict := fun k' => if k' = k then v else d k'

/-- `if self.<old>: self.<new> = [float](self.<old>); self.<resetAttr> = <resetVal>` -/
structure Alias where
  old       : String
  new       : String
  resetAttr : String
  resetVal  : V
  toFloat   : Bool
deriving Repr, DecidableEq

/-- one branch of the mode chain -/
structure ModeCheck where
  modes    : List String
  required : List String
  banned   : List String
deriving Repr, DecidableEq

def conv (a : Alias) (v : V) : V :=
  if a.toFloat then (match v with | .int n => .flt (n * 16) | w => w) else v

def applyAlias (d : Dict) (a : Alias) : Dict :=
  if (d a.old).truthy then (d.set a.new (conv a (d a.old))).set a.resetAttr a.resetVal else d

/-- the `if/elif` chain: the first branch naming the mode decides -/
def modeOk (d : Dict) : List ModeCheck → Bool
  | []      => true
  | c :: cs =>
    if (match d "mode" with | .str m => decide (m ∈ c.modes) | _ => false) then
      c.required.all (fun k => (d k).truthy) && c.banned.all (fun k => !(d k).truthy)
    else modeOk d cs

/-- `bool(self.ranks - 1)` -/
def ranksMinusOne (v : V) : V :=
  match v with
  | .int n => .bool (n - 1 != 0)
  | w      => w

/-- `TaskDescription._verify`; `none` = ValueError -/
def verify (checks : List ModeCheck) (aliases : List Alias) (dm : String) (d : Dict) : Option Dict :=
  if modeOk (if (d "mode").truthy then d else d.set "mode" (.str dm)) checks then
    some ((fun d2 : Dict => if d2 "use_mpi" = .none then d2.set "use_mpi" (ranksMinusOne (d2 "ranks")) else d2)
           (aliases.foldl applyAlias (if (d "mode").truthy then d else d.set "mode" (.str dm))))
  else none

/-! ### tabulated evaluation (used by the driver; `Lemmas/Descr.lean` proves it
    agrees with `verify` on the tabulated keys) -/

def ofList (l : List (String × V)) : Dict :=
  fun k => match l.find? (fun p => p.1 = k) with
           | some p => p.2
           | none   => .none

def tabulate (ks : List String) (d : Dict) : List (String × V) := ks.map (fun k => (k, d k))

def verifyFast (checks : List ModeCheck) (aliases : List Alias) (dm : String) (ks : List String)
    (d : Dict) : Option (List (String × V)) :=
  if modeOk (if (d "mode").truthy then d else d.set "mode" (.str dm)) checks then
    some (tabulate ks
      ((fun d2 : Dict => if d2 "use_mpi" = .none then d2.set "use_mpi" (ranksMinusOne (d2 "ranks")) else d2)
        (ofList (aliases.foldl (fun l a => tabulate ks (applyAlias (ofList l) a))
                   (tabulate ks (if (d "mode").truthy then d else d.set "mode" (.str dm)))))))
  else none

/-! ### slot formats -/

/-- new format (`Slot`): resource occupations = (index, occupation in 1/16) -/
structure Slot where
  cores : List (Nat × Nat)
  gpus  : List (Nat × Nat)
  lfs   : Nat
  mem   : Nat
  nodeIndex : Nat
  nodeName  : String
deriving DecidableEq, Repr

/-- the forms `Slot.__init__` accepts for `cores` / `gpus`: plain dicts (what `as_dict()` gives),
    bare indices (occupation 1.0) or resource-occupation objects -/
inductive InitRes where
  | dicts (l : List (Nat × Nat))
  | ints  (l : List Nat)
  | ros   (l : List (Nat × Nat))
deriving DecidableEq, Repr

def initRes : InitRes → List (Nat × Nat)
  | .dicts l => l
  | .ints l  => l.map (fun i => (i, 16))
  | .ros l   => l

/-- `Slot(from_dict=...)` / `Slot(**kwargs)` -/
def slotInit (cores gpus : InitRes) (lfs mem nodeIndex : Nat) (nodeName : String) : Slot :=
  { cores := initRes cores, gpus := initRes gpus, lfs := lfs, mem := mem, nodeIndex := nodeIndex, nodeName := nodeName }

/-- the forms `convert_slots_to_new` accepts for `cores` / `gpus` of an old slot -/
inductive OldRes where
  | ints  (l : List Nat)                 -- [0, 1, 2]                  -> occupation 1.0
  | pairs (l : List (Nat × Nat))         -- [(0, occ), ...] or dicts   -> as given
  | lists (l : List (List Nat))          -- [[0], [1]]: what convert_slots_to_old produces
deriving DecidableEq, Repr

structure OldSlot where
  cores : OldRes
  gpus  : OldRes
  lfs   : Nat
  mem   : Nat
  nodeIndex : Nat
  nodeName  : String
deriving DecidableEq, Repr

/-- `none` = ValueError (cannot unpack) -/
def resToNew : OldRes → Option (List (Nat × Nat))
  | .ints l       => some (l.map (fun i => (i, 16)))
  | .pairs l      => some l
  | .lists []     => some []          -- empty: `if cores:` is false, passed through
  | .lists (_ :: _) => none           -- `for i,o in [[c], ...]` raises

def toNew (o : OldSlot) : Option Slot :=
  match resToNew o.cores, resToNew o.gpus with
  | some c, some g => some { cores := c, gpus := g, lfs := o.lfs, mem := o.mem,
                             nodeIndex := o.nodeIndex, nodeName := o.nodeName }
  | _, _ => none

/-- `convert_slots_to_new` on a list of slots: every slot is converted on its own; one slot that
    cannot be converted makes the call raise -/
def toNewList : List OldSlot → Option (List Slot)
  | []      => some []
  | o :: os =>
    match toNew o, toNewList os with
    | some s, some ss => some (s :: ss)
    | _, _            => none

/-- `convert_slots_to_old` on a new slot -/
def toOld (s : Slot) : OldSlot :=
  { cores := .lists (s.cores.map (fun ro => [ro.1])), gpus := .lists (s.gpus.map (fun ro => [ro.1])),
    lfs := s.lfs, mem := s.mem, nodeIndex := s.nodeIndex, nodeName := s.nodeName }

def OldRes.indices : OldRes → List Nat
  | .ints l  => l
  | .pairs l => l.map (·.1)
  | .lists l => l.flatten

end RPVerif.Descr
