import RPVerif.Model.Raptor
/-! helper lemmas for C20: the allocator of one raptor worker -/
namespace RPVerif.Raptor
open List

theorem pick_mem (l : List Bool) : ∀ (i k j : Nat), j ∈ pick l i k → i ≤ j ∧ l[j - i]? = some false := by
  induction l with
  | nil => intro i k j h; cases k <;> simp [pick] at h
  | cons b bs ih =>
    intro i k j h
    cases k with
    | zero => simp [pick] at h
    | succ k =>
      cases b with
      | true =>
        simp only [pick, if_true] at h
        obtain ⟨h1, h2⟩ := ih (i + 1) (k + 1) j h
        refine ⟨by omega, ?_⟩
        have : j - i = (j - (i + 1)) + 1 := by omega
        rw [this]; simpa using h2
      | false =>
        simp only [pick, Bool.false_eq_true, if_false, mem_cons] at h
        rcases h with rfl | h
        · simp
        · obtain ⟨h1, h2⟩ := ih (i + 1) k j h
          refine ⟨by omega, ?_⟩
          have : j - i = (j - (i + 1)) + 1 := by omega
          rw [this]; simpa using h2

theorem pick_sorted (l : List Bool) : ∀ (i k : Nat), (pick l i k).Pairwise (· < ·) := by
  induction l with
  | nil => intro i k; cases k <;> simp [pick]
  | cons b bs ih =>
    intro i k
    cases k with
    | zero => simp [pick]
    | succ k =>
      cases b with
      | true => simp only [pick, if_true]; exact ih (i + 1) (k + 1)
      | false =>
        simp only [pick, Bool.false_eq_true, if_false, pairwise_cons]
        refine ⟨?_, ih (i + 1) k⟩
        intro j hj
        have := (pick_mem bs (i + 1) k j hj).1
        omega

theorem pick_length (l : List Bool) : ∀ (i k : Nat), k ≤ countFree l → (pick l i k).length = k := by
  induction l with
  | nil => intro i k h; simp [countFree] at h; subst h; simp [pick]
  | cons b bs ih =>
    intro i k h
    cases k with
    | zero => simp [pick]
    | succ k =>
      cases b with
      | true =>
        simp only [pick, if_true]
        apply ih
        simpa [countFree] using h
      | false =>
        simp only [pick, Bool.false_eq_true, if_false, length_cons]
        rw [ih (i + 1) k (by simp [countFree] at h ⊢; omega)]

theorem setAll_length (idx : List Nat) : ∀ (l : List Bool) (v : Bool), (setAll l idx v).length = l.length := by
  induction idx with
  | nil => intro l v; rfl
  | cons i is ih => intro l v; simp only [setAll, foldl_cons]; rw [show foldl (fun acc i => acc.set i v) (l.set i v) is = setAll (l.set i v) is v from rfl, ih]; simp

theorem setAll_get (idx : List Nat) : ∀ (l : List Bool) (v : Bool) (j : Nat),
    (setAll l idx v)[j]? = if j ∈ idx then (l[j]?).map (fun _ => v) else l[j]? := by
  induction idx with
  | nil => intro l v j; simp [setAll]
  | cons i is ih =>
    intro l v j
    simp only [setAll, foldl_cons]
    rw [show foldl (fun acc i => acc.set i v) (l.set i v) is = setAll (l.set i v) is v from rfl, ih]
    by_cases hji : j = i
    · subst hji
      by_cases hj : j ∈ is
      · simp [hj, getElem?_set]
        by_cases hl : j < l.length <;> simp [hl]
      · simp [hj, getElem?_set]
        by_cases hl : j < l.length <;> simp [hl]
    · have : ¬ i = j := fun e => hji e.symm
      by_cases hj : j ∈ is
      · simp [hj, hji, getElem?_set, this]
      · simp [hj, hji, getElem?_set, this]

/-- busy flags are exactly the indices held by the live requests, and no index is held twice -/
def AInv (flags : List Bool) (live : List (List Nat)) : Prop :=
  (∀ j, flags[j]? = some true ↔ ∃ s ∈ live, j ∈ s) ∧ live.Pairwise (fun a b => ∀ j, j ∈ a → j ∉ b)

theorem AInv_init (n : Nat) : AInv (List.replicate n false) [] := by
  refine ⟨fun j => ?_, Pairwise.nil⟩
  constructor
  · intro h
    by_cases hj : j < n
    · simp [hj] at h
    · simp [hj] at h
  · rintro ⟨s, hs, _⟩; cases hs

/-- taking the first free indices keeps the invariant; what is taken was held by nobody -/
theorem AInv_alloc (flags : List Bool) (live : List (List Nat)) (k : Nat) (h : AInv flags live) :
    AInv (setAll flags (pick flags 0 k) true) (pick flags 0 k :: live)
    ∧ ∀ j ∈ pick flags 0 k, ∀ s ∈ live, j ∉ s := by
  have hfree : ∀ j ∈ pick flags 0 k, flags[j]? = some false := by
    intro j hj; have := (pick_mem flags 0 k j hj).2; simpa using this
  have hnot : ∀ j ∈ pick flags 0 k, ∀ s ∈ live, j ∉ s := by
    intro j hj s hs hjs
    have := (h.1 j).mpr ⟨s, hs, hjs⟩
    rw [hfree j hj] at this; cases this
  refine ⟨⟨fun j => ?_, ?_⟩, hnot⟩
  · rw [setAll_get]
    by_cases hj : j ∈ pick flags 0 k
    · simp only [hj, if_true, hfree j hj, Option.map_some]
      constructor
      · intro _; exact ⟨_, mem_cons_self, hj⟩
      · intro _; trivial
    · simp only [hj, if_false]
      rw [h.1 j]
      constructor
      · rintro ⟨s, hs, hjs⟩; exact ⟨s, mem_cons_of_mem _ hs, hjs⟩
      · rintro ⟨s, hs, hjs⟩
        rcases mem_cons.mp hs with rfl | hs
        · exact absurd hjs hj
        · exact ⟨s, hs, hjs⟩
  · exact pairwise_cons.mpr ⟨fun s hs j hj => hnot j hj s hs, h.2⟩

/-- giving the indices of a live request back keeps the invariant for the others -/
theorem AInv_dealloc (flags : List Bool) (l1 l2 : List (List Nat)) (s : List Nat) (h : AInv flags (l1 ++ s :: l2)) :
    (∀ j ∈ s, flags[j]? = some true) ∧ AInv (setAll flags s false) (l1 ++ l2) := by
  refine ⟨fun j hj => (h.1 j).mpr ⟨s, by simp, hj⟩, ?_⟩
  have hpw := h.2
  have hp1 : l1.Pairwise (fun a b => ∀ j, j ∈ a → j ∉ b) := (pairwise_append.mp hpw).1
  have hp2 := (pairwise_append.mp hpw).2.1
  have hp12 := (pairwise_append.mp hpw).2.2
  have hs2 : ∀ b ∈ l2, ∀ j, j ∈ s → j ∉ b := (pairwise_cons.mp hp2).1
  have hp2' : l2.Pairwise (fun a b => ∀ j, j ∈ a → j ∉ b) := (pairwise_cons.mp hp2).2
  refine ⟨fun j => ?_, ?_⟩
  · rw [setAll_get]
    by_cases hj : j ∈ s
    · simp only [hj, if_true]
      constructor
      · intro hh
        cases hf : flags[j]? with
        | none => rw [hf] at hh; cases hh
        | some b => rw [hf] at hh; simp at hh
      · rintro ⟨s', hs', hjs'⟩
        exfalso
        rcases mem_append.mp hs' with h1 | h2
        · exact hp12 s' h1 s mem_cons_self j hjs' hj
        · exact hs2 s' h2 j hj hjs'
    · simp only [hj, if_false]
      rw [h.1 j]
      constructor
      · rintro ⟨s', hs', hjs'⟩
        rcases mem_append.mp hs' with h1 | h2
        · exact ⟨s', mem_append_left _ h1, hjs'⟩
        · rcases mem_cons.mp h2 with rfl | h2
          · exact absurd hjs' hj
          · exact ⟨s', mem_append_right _ h2, hjs'⟩
      · rintro ⟨s', hs', hjs'⟩
        rcases mem_append.mp hs' with h1 | h2
        · exact ⟨s', mem_append_left _ h1, hjs'⟩
        · exact ⟨s', mem_append_right _ (mem_cons_of_mem _ h2), hjs'⟩
  · apply pairwise_append.mpr
    exact ⟨hp1, hp2', fun a ha b hb => hp12 a ha b (mem_cons_of_mem _ hb)⟩

/-- nothing is held: every flag is free again -/
theorem AInv_empty (flags : List Bool) (h : AInv flags []) : flags = List.replicate flags.length false := by
  apply ext_getElem?
  intro j
  by_cases hj : j < flags.length
  · simp only [hj, getElem?_replicate, if_true]
    cases hb : flags[j]? with
    | none => simp [hj] at hb
    | some b =>
      cases b with
      | false => rfl
      | true => obtain ⟨s, hs, _⟩ := (h.1 j).mp hb; cases hs
  · simp [hj]

end RPVerif.Raptor

namespace RPVerif.Raptor
open List

abbrev BL := List (Option Nat × List Nat)

theorem blGet_cons_pos (e : Option Nat × List Nat) (es : BL) (k : Option Nat) (h : e.1 = k) : blGet (e :: es) k = e.2 := by
  unfold blGet; rw [find?_cons_of_pos (by simpa using h)]

theorem blGet_cons_neg (e : Option Nat × List Nat) (es : BL) (k : Option Nat) (h : ¬ e.1 = k) : blGet (e :: es) k = blGet es k := by
  unfold blGet; rw [find?_cons_of_neg (by simpa using h)]

theorem blGet_map (b : BL) (k k' : Option Nat) (ts : List Nat) :
    blGet (b.map (fun e => if e.1 = k then (e.1, e.2 ++ ts) else e)) k'
      = if k' = k ∧ b.any (fun e => e.1 = k) = true then blGet b k ++ ts else blGet b k' := by
  induction b with
  | nil => simp [blGet]
  | cons e es ih =>
    rw [map_cons]
    by_cases he : e.1 = k
    · rw [if_pos he]
      by_cases hk : k' = k
      · subst hk
        rw [blGet_cons_pos _ _ _ (by simpa using he), blGet_cons_pos _ _ _ he]
        simp [he]
      · have hne : ¬ e.1 = k' := fun h => hk (h ▸ he ▸ rfl)
        rw [blGet_cons_neg _ _ _ (by simpa using hne), ih, blGet_cons_neg _ _ _ hne]
        simp [hk]
    · rw [if_neg he]
      by_cases hk' : e.1 = k'
      · have hkk : ¬ k' = k := fun h => he (hk' ▸ h)
        rw [blGet_cons_pos _ _ _ hk', blGet_cons_pos _ _ _ hk']
        simp [hkk]
      · rw [blGet_cons_neg _ _ _ hk', ih, blGet_cons_neg _ _ _ hk', blGet_cons_neg _ _ _ he]
        have hany : (e :: es).any (fun e => decide (e.1 = k)) = es.any (fun e => decide (e.1 = k)) := by
          rw [any_cons]
          have : decide (e.1 = k) = false := decide_eq_false he
          rw [this, Bool.false_or]
        rw [hany]

theorem blGet_none_of_not_any (b : BL) (k : Option Nat) (h : ¬ b.any (fun e => e.1 = k) = true) : blGet b k = [] := by
  unfold blGet
  have : b.find? (fun e => decide (e.1 = k)) = none := by
    apply find?_eq_none.mpr
    intro e he hk
    exact h (any_eq_true.mpr ⟨e, he, hk⟩)
  rw [this]

theorem blGet_append_single (b : BL) (k k' : Option Nat) (ts : List Nat) (h : ¬ b.any (fun e => e.1 = k) = true) :
    blGet (b ++ [(k, ts)]) k' = if k' = k then ts else blGet b k' := by
  induction b with
  | nil =>
    by_cases hk : k' = k
    · subst hk; simp [blGet]
    · have : ¬ k = k' := fun h => hk h.symm
      simp [blGet, hk, this]
  | cons e es ih =>
    have he : ¬ e.1 = k := by
      intro hh; exact h (by simp [hh])
    have hes : ¬ es.any (fun e => e.1 = k) = true := by
      intro hh; exact h (by simp only [any_cons, Bool.or_eq_true]; exact Or.inr hh)
    rw [cons_append]
    by_cases hk' : e.1 = k'
    · have hkk : ¬ k' = k := fun h => he (hk' ▸ h)
      rw [blGet_cons_pos _ _ _ hk', blGet_cons_pos _ _ _ hk']; simp [hkk]
    · rw [blGet_cons_neg _ _ _ hk', ih hes, blGet_cons_neg _ _ _ hk']

theorem blGet_add (b : BL) (k k' : Option Nat) (ts : List Nat) :
    blGet (blAdd b k ts) k' = if k' = k then blGet b k ++ ts else blGet b k' := by
  unfold blAdd
  by_cases hany : b.any (fun e => e.1 = k) = true
  · rw [if_pos hany, blGet_map]; simp [hany]
  · rw [if_neg hany, blGet_append_single _ _ _ _ hany]
    by_cases hk : k' = k
    · subst hk; simp [blGet_none_of_not_any _ _ hany]
    · simp [hk]

theorem blGet_del (b : BL) (k k' : Option Nat) : blGet (blDel b k) k' = if k' = k then [] else blGet b k' := by
  unfold blDel
  induction b with
  | nil => simp [blGet]
  | cons e es ih =>
    by_cases he : e.1 = k
    · have hf : (e :: es).filter (fun e => decide (e.1 ≠ k)) = es.filter (fun e => decide (e.1 ≠ k)) := by
        rw [filter_cons]; simp [he]
      rw [hf, ih]
      by_cases hk : k' = k
      · simp [hk]
      · have : ¬ e.1 = k' := fun h => hk (h ▸ he ▸ rfl)
        simp [hk, blGet_cons_neg _ _ _ this]
    · have hf : (e :: es).filter (fun e => decide (e.1 ≠ k)) = e :: es.filter (fun e => decide (e.1 ≠ k)) := by
        rw [filter_cons]; simp [he]
      rw [hf]
      by_cases hk' : e.1 = k'
      · have hkk : ¬ k' = k := fun h => he (hk' ▸ h)
        rw [blGet_cons_pos _ _ _ hk', blGet_cons_pos _ _ _ hk']; simp [hkk]
      · rw [blGet_cons_neg _ _ _ hk', ih, blGet_cons_neg _ _ _ hk']

theorem blGet_filter (b : BL) (k : Option Nat) (p : Nat → Bool) :
    blGet (b.map (fun e => (e.1, e.2.filter p))) k = (blGet b k).filter p := by
  induction b with
  | nil => simp [blGet]
  | cons e es ih =>
    rw [map_cons]
    by_cases he : e.1 = k
    · rw [blGet_cons_pos _ _ _ (by simpa using he), blGet_cons_pos _ _ _ he]
    · rw [blGet_cons_neg _ _ _ (by simpa using he), ih, blGet_cons_neg _ _ _ he]

/-- no request waits for a master that is registered -/
def FInv (s : Fwd) : Prop :=
  (∀ m ∈ s.queues, blGet s.backlog (some m) = []) ∧ (s.queues ≠ [] → blGet s.backlog none = [])

theorem finv_incoming (gs : List (Option Nat × List Nat)) : ∀ s, FInv s → FInv (fwdIncoming s gs) := by
  induction gs with
  | nil => intro s h; exact h
  | cons g gs ih =>
    intro s h
    obtain ⟨k, ts⟩ := g
    unfold fwdIncoming
    cases k with
    | some m =>
      simp only
      split
      · exact ih _ h
      · rename_i hm
        apply ih
        refine ⟨fun m' hm' => ?_, fun hq => ?_⟩
        · show blGet (blAdd s.backlog (some m) ts) (some m') = []
          rw [blGet_add]
          have : ¬ (some m' = some m) := by
            intro e; injection e with e; subst e; exact hm hm'
          simp [this, h.1 m' hm']
        · show blGet (blAdd s.backlog (some m) ts) none = []
          rw [blGet_add]; simp [h.2 hq]
    | none =>
      simp only
      split
      · exact ih _ h
      · rename_i hq
        apply ih
        have hq' : s.queues = [] := by simpa using hq
        refine ⟨fun m' hm' => ?_, fun hq2 => absurd hq' hq2⟩
        show blGet (blAdd s.backlog none ts) (some m') = []
        rw [hq'] at hm'; cases hm'

theorem finv_step (s : Fwd) (op : FOp) (h : FInv s) : FInv (fwdStep s op) := by
  cases op with
  | incoming gs => exact finv_incoming gs s h
  | register m =>
    refine ⟨fun m' hm' => ?_, fun _ => ?_⟩
    · show blGet (blDel (blDel s.backlog (some m)) none) (some m') = []
      rw [blGet_del, blGet_del]
      by_cases hmm : m' = m
      · simp [hmm]
      · have hin : m' ∈ s.queues := by
          have : m' ∈ (if m ∈ s.queues then s.queues else s.queues ++ [m]) := hm'
          split at this
          · exact this
          · rcases mem_append.mp this with h1 | h1
            · exact h1
            · simp at h1; exact absurd h1 hmm
        have : ¬ (some m' = some m) := by intro e; injection e with e; exact hmm e
        simp [this, h.1 m' hin]
    · show blGet (blDel (blDel s.backlog (some m)) none) none = []
      rw [blGet_del]; simp
  | unregister m =>
    refine ⟨fun m' hm' => ?_, fun hq => ?_⟩
    · show blGet (blDel s.backlog (some m)) (some m') = []
      have hin : m' ∈ s.queues := (mem_filter.mp hm').1
      rw [blGet_del]
      split
      · rfl
      · exact h.1 m' hin
    · show blGet (blDel s.backlog (some m)) none = []
      have hq' : s.queues ≠ [] := by
        intro e
        apply hq
        show s.queues.filter (· ≠ m) = []
        rw [e]; rfl
      rw [blGet_del]; simp [h.2 hq']
  | cancel us =>
    refine ⟨fun m' hm' => ?_, fun hq => ?_⟩
    · show blGet (s.backlog.map (fun e => (e.1, e.2.filter (fun t => decide (t ∉ us))))) (some m') = []
      rw [blGet_filter, h.1 m' hm']; rfl
    · show blGet (s.backlog.map (fun e => (e.1, e.2.filter (fun t => decide (t ∉ us))))) none = []
      rw [blGet_filter, h.2 hq]; rfl

end RPVerif.Raptor

namespace RPVerif.Raptor
open List

theorem rrFrom_snd (qs : List Nat) (hq : qs ≠ []) (ts : List Nat) : ∀ i, (rrFrom qs i ts).map (·.2) = ts := by
  induction ts with
  | nil => intro i; rfl
  | cons t ts ih =>
    intro i
    have hl : 0 < qs.length := length_pos_iff.mpr hq
    have hlt : i % qs.length < qs.length := Nat.mod_lt _ hl
    simp only [rrFrom, getElem?_eq_getElem hlt, map_append, map_cons, map_nil, ih (i + 1)]
    rfl

theorem roundRobin_snd (qs : List Nat) (hq : qs ≠ []) (ts : List Nat) : (roundRobin qs ts).map (·.2) = ts :=
  rrFrom_snd qs hq ts 0

theorem rrFrom_fst (qs : List Nat) (ts : List Nat) : ∀ i, ∀ e ∈ rrFrom qs i ts, e.1 ∈ qs := by
  induction ts with
  | nil => intro i e he; cases he
  | cons t ts ih =>
    intro i e he
    simp only [rrFrom, mem_append] at he
    rcases he with he | he
    · cases hq : qs[i % qs.length]? with
      | none => rw [hq] at he; cases he
      | some q =>
        rw [hq] at he
        simp at he
        subst he
        exact mem_of_getElem? hq
    · exact ih (i + 1) e he

/-- keys of the backlog are distinct -/
def KeysNodup (b : BL) : Prop := (b.map (·.1)).Nodup

def waiting (b : BL) : List Nat := b.flatMap (·.2)

theorem waiting_cons (e : Option Nat × List Nat) (es : BL) : waiting (e :: es) = e.2 ++ waiting es := by
  simp [waiting]

theorem blGet_of_not_mem (b : BL) (k : Option Nat) (h : k ∉ b.map (·.1)) : blGet b k = [] := by
  apply blGet_none_of_not_any
  intro hany
  obtain ⟨e, he, hk⟩ := any_eq_true.mp hany
  exact h (mem_map.mpr ⟨e, he, by simpa using hk⟩)

/-- with distinct keys, deleting a key removes exactly what `blGet` reads -/
theorem count_blDel (b : BL) (k : Option Nat) (t : Nat) (hn : KeysNodup b) :
    (waiting (blDel b k)).count t + (blGet b k).count t = (waiting b).count t := by
  induction b with
  | nil => simp [waiting, blDel, blGet]
  | cons e es ih =>
    have hn' : KeysNodup es := (nodup_cons.mp (by simpa [KeysNodup] using hn)).2
    have hnot : e.1 ∉ es.map (·.1) := (nodup_cons.mp (by simpa [KeysNodup] using hn)).1
    by_cases he : e.1 = k
    · have hf : blDel (e :: es) k = blDel es k := by
        unfold blDel; rw [filter_cons]; simp [he]
      have hnotk : k ∉ es.map (·.1) := he ▸ hnot
      have hdel : blDel es k = es := by
        unfold blDel
        apply filter_eq_self.mpr
        intro x hx
        have : x.1 ≠ k := fun h => hnotk (mem_map.mpr ⟨x, hx, h⟩)
        simpa using this
      rw [hf, hdel, blGet_cons_pos _ _ _ he, waiting_cons, count_append]
      omega
    · have hf : blDel (e :: es) k = e :: blDel es k := by
        unfold blDel; rw [filter_cons]; simp [he]
      rw [hf, blGet_cons_neg _ _ _ he, waiting_cons, waiting_cons, count_append, count_append]
      have := ih hn'
      omega

theorem keysNodup_blDel (b : BL) (k : Option Nat) (hn : KeysNodup b) : KeysNodup (blDel b k) := by
  unfold KeysNodup blDel at *
  exact hn.sublist ((filter_sublist (l := b)).map _)

theorem keysNodup_blAdd (b : BL) (k : Option Nat) (ts : List Nat) (hn : KeysNodup b) : KeysNodup (blAdd b k ts) := by
  unfold blAdd
  split
  · unfold KeysNodup at *
    have : (b.map (fun e => if e.1 = k then (e.1, e.2 ++ ts) else e)).map (·.1) = b.map (·.1) := by
      rw [map_map]; apply map_congr_left; intro e _; simp only [Function.comp]; split <;> rfl
    rw [this]; exact hn
  · rename_i hany
    unfold KeysNodup at *
    rw [map_append]
    apply nodup_append.mpr
    refine ⟨hn, by simp, ?_⟩
    intro a ha b' hb' hab
    simp at hb'
    obtain ⟨e, he, rfl⟩ := mem_map.mp ha
    apply hany
    exact any_eq_true.mpr ⟨e, he, by simp [hab, hb']⟩

theorem count_blAdd (b : BL) (k : Option Nat) (ts : List Nat) (t : Nat) (hn : KeysNodup b) :
    (waiting (blAdd b k ts)).count t = (waiting b).count t + ts.count t := by
  unfold blAdd
  by_cases hany : b.any (fun e => e.1 = k) = true
  · rw [if_pos hany]
    induction b with
    | nil => simp at hany
    | cons e es ih =>
      have hn' : KeysNodup es := (nodup_cons.mp (by simpa [KeysNodup] using hn)).2
      have hnot : e.1 ∉ es.map (·.1) := (nodup_cons.mp (by simpa [KeysNodup] using hn)).1
      rw [map_cons, waiting_cons, waiting_cons]
      by_cases he : e.1 = k
      · have hnotk : k ∉ es.map (·.1) := he ▸ hnot
        have hrest : es.map (fun e => if e.1 = k then (e.1, e.2 ++ ts) else e) = es := by
          conv => rhs; rw [← map_id es]
          apply map_congr_left
          intro x hx
          have : ¬ x.1 = k := fun h => hnotk (mem_map.mpr ⟨x, hx, h⟩)
          simp [this]
        rw [hrest, if_pos he]
        simp only [count_append]
        omega
      · have hany' : es.any (fun e => e.1 = k) = true := by
          simp only [any_cons, Bool.or_eq_true, decide_eq_true_eq] at hany
          rcases hany with h | h
          · exact absurd h he
          · simpa using h
        rw [if_neg he]
        simp only [count_append, ih hn' hany']
        omega
  · rw [if_neg hany]
    simp [waiting, count_append]

end RPVerif.Raptor

namespace RPVerif.Raptor
open List

/-- in how many places request `t` is: delivered to a master, failed, canceled, or waiting -/
def cnt (s : Fwd) (t : Nat) : Nat :=
  (s.delivered.map (·.2)).count t + s.failed.count t + s.canceled.count t + (waiting s.backlog).count t

theorem count_filter_split (l : List Nat) (p : Nat → Bool) (t : Nat) :
    (l.filter p).count t + (l.filter (fun x => !p x)).count t = l.count t := by
  induction l with
  | nil => rfl
  | cons x xs ih =>
    by_cases hp : p x = true
    · simp only [filter_cons, hp, if_true, Bool.not_true, Bool.false_eq_true, if_false, count_cons]; omega
    · have hp' : p x = false := by simpa using hp
      simp only [filter_cons, hp', Bool.false_eq_true, if_false, Bool.not_false, if_true, count_cons]; omega

theorem cnt_cancel_aux (b : BL) (us : List Nat) (t : Nat) :
    (waiting (b.map (fun e => (e.1, e.2.filter (fun x => decide (x ∉ us)))))).count t
      + (b.flatMap (fun e => e.2.filter (fun x => decide (x ∈ us)))).count t = (waiting b).count t := by
  induction b with
  | nil => rfl
  | cons e es ih =>
    rw [map_cons, waiting_cons, waiting_cons, flatMap_cons, count_append, count_append, count_append]
    have h := count_filter_split e.2 (fun x => decide (x ∈ us)) t
    have e1 : (e.2.filter (fun x => !decide (x ∈ us))) = e.2.filter (fun x => decide (x ∉ us)) := by
      apply filter_congr; intro x _; simp
    rw [e1] at h
    simp only at h ⊢
    omega

theorem keysNodup_cancel (b : BL) (p : Nat → Bool) (hn : KeysNodup b) : KeysNodup (b.map (fun e => (e.1, e.2.filter p))) := by
  unfold KeysNodup at *
  rw [map_map]
  exact hn

theorem cnt_step_local (s : Fwd) (op : FOp) (t : Nat) (hn : KeysNodup s.backlog)
    (hop : ∀ gs, op ≠ .incoming gs) : cnt (fwdStep s op) t = cnt s t ∧ KeysNodup (fwdStep s op).backlog := by
  cases op with
  | incoming gs => exact absurd rfl (hop gs)
  | register m =>
    refine ⟨?_, keysNodup_blDel _ _ (keysNodup_blDel _ _ hn)⟩
    simp only [fwdStep, fwdRegister, cnt, map_append, map_map, count_append]
    have h1 := count_blDel s.backlog (some m) t hn
    have h2 := count_blDel (blDel s.backlog (some m)) none t (keysNodup_blDel _ _ hn)
    have h3 : blGet (blDel s.backlog (some m)) none = blGet s.backlog none := by
      rw [blGet_del]; simp
    rw [h3] at h2
    have e1 : ∀ l : List Nat, (l.map ((fun x : Nat × Nat => x.2) ∘ fun t => (m, t))) = l := by
      intro l; simp [Function.comp_def]
    rw [e1, e1]
    omega
  | unregister m =>
    refine ⟨?_, keysNodup_blDel _ _ hn⟩
    simp only [fwdStep, fwdUnregister, cnt, count_append]
    have h1 := count_blDel s.backlog (some m) t hn
    omega
  | cancel us =>
    refine ⟨?_, keysNodup_cancel _ _ hn⟩
    simp only [fwdStep, fwdCancel, cnt, count_append]
    have h := cnt_cancel_aux s.backlog us t
    omega

theorem cnt_incoming (gs : List (Option Nat × List Nat)) (t : Nat) : ∀ s, KeysNodup s.backlog →
    cnt (fwdIncoming s gs) t = cnt s t + (gs.flatMap (·.2)).count t ∧ KeysNodup (fwdIncoming s gs).backlog := by
  induction gs with
  | nil => intro s hn; exact ⟨by simp [fwdIncoming], hn⟩
  | cons g gs ih =>
    intro s hn
    obtain ⟨k, ts⟩ := g
    unfold fwdIncoming
    rw [flatMap_cons, count_append]
    cases k with
    | some m =>
      simp only
      split
      · have := ih { s with delivered := s.delivered ++ ts.map (fun t => (m, t)) } hn
        refine ⟨?_, this.2⟩
        rw [this.1]
        simp only [cnt, map_append, map_map, count_append]
        have e1 : (ts.map ((fun x : Nat × Nat => x.2) ∘ fun t => (m, t))) = ts := by simp [Function.comp_def]
        rw [e1]; omega
      · have := ih { s with backlog := blAdd s.backlog (some m) ts } (keysNodup_blAdd _ _ _ hn)
        refine ⟨?_, this.2⟩
        rw [this.1]
        simp only [cnt, count_blAdd _ _ _ _ hn]; omega
    | none =>
      simp only
      split
      · rename_i hq
        have := ih { s with delivered := s.delivered ++ roundRobin s.queues ts } hn
        refine ⟨?_, this.2⟩
        rw [this.1]
        simp only [cnt, map_append, count_append, roundRobin_snd s.queues hq ts]; omega
      · have := ih { s with backlog := blAdd s.backlog none ts } (keysNodup_blAdd _ _ _ hn)
        refine ⟨?_, this.2⟩
        rw [this.1]
        simp only [cnt, count_blAdd _ _ _ _ hn]; omega

/-- the requests that came in with the drains of a history -/
def arrived : List FOp → List Nat
  | []                  => []
  | .incoming gs :: ops => gs.flatMap (·.2) ++ arrived ops
  | _ :: ops            => arrived ops

theorem cnt_run (ops : List FOp) (t : Nat) : ∀ s, KeysNodup s.backlog →
    cnt (ops.foldl fwdStep s) t = cnt s t + (arrived ops).count t := by
  induction ops with
  | nil => intro s _; simp [arrived]
  | cons op ops ih =>
    intro s hn
    rw [foldl_cons]
    cases op with
    | incoming gs =>
      have h := cnt_incoming gs t s hn
      show cnt (foldl fwdStep (fwdIncoming s gs) ops) t = _
      rw [ih _ h.2, h.1, arrived, count_append]; omega
    | register m =>
      have h := cnt_step_local s (.register m) t hn (fun gs h => by cases h)
      rw [ih _ h.2, h.1]; rfl
    | unregister m =>
      have h := cnt_step_local s (.unregister m) t hn (fun gs h => by cases h)
      rw [ih _ h.2, h.1]; rfl
    | cancel us =>
      have h := cnt_step_local s (.cancel us) t hn (fun gs h => by cases h)
      rw [ih _ h.2, h.1]; rfl

end RPVerif.Raptor
