import RPVerif.Model.Raptor
/-! helper lemmas for C20: the allocator of one raptor worker -/
namespace RPVerif.Raptor
open List

theorem pick_mem (l : List Bool) : ∀ (i k j : Nat), j ∈ pick l i k → i ≤ j ∧ l[j - i]? = some false := by
  induction l with
  | nil => intro i k j h; cases k <;> simp [pick] at h
  | cons b bs ih =>
    intro i k j h
    cases k with
    | zero => simp [pick] at h
    | succ k =>
      cases b with
      | true =>
        simp only [pick, if_true] at h
        obtain ⟨h1, h2⟩ := ih (i + 1) (k + 1) j h
        refine ⟨by omega, ?_⟩
        have : j - i = (j - (i + 1)) + 1 := by omega
        rw [this]; simpa using h2
      | false =>
        simp only [pick, Bool.false_eq_true, if_false, mem_cons] at h
        rcases h with rfl | h
        · simp
        · obtain ⟨h1, h2⟩ := ih (i + 1) k j h
          refine ⟨by omega, ?_⟩
          have : j - i = (j - (i + 1)) + 1 := by omega
          rw [this]; simpa using h2

theorem pick_sorted (l : List Bool) : ∀ (i k : Nat), (pick l i k).Pairwise (· < ·) := by
  induction l with
  | nil => intro i k; cases k <;> simp [pick]
  | cons b bs ih =>
    intro i k
    cases k with
    | zero => simp [pick]
    | succ k =>
      cases b with
      | true => simp only [pick, if_true]; exact ih (i + 1) (k + 1)
      | false =>
        simp only [pick, Bool.false_eq_true, if_false, pairwise_cons]
        refine ⟨?_, ih (i + 1) k⟩
        intro j hj
        have := (pick_mem bs (i + 1) k j hj).1
        omega

theorem pick_length (l : List Bool) : ∀ (i k : Nat), k ≤ countFree l → (pick l i k).length = k := by
  induction l with
  | nil => intro i k h; simp [countFree] at h; subst h; simp [pick]
  | cons b bs ih =>
    intro i k h
    cases k with
    | zero => simp [pick]
    | succ k =>
      cases b with
      | true =>
        simp only [pick, if_true]
        apply ih
        simpa [countFree] using h
      | false =>
        simp only [pick, Bool.false_eq_true, if_false, length_cons]
        rw [ih (i + 1) k (by simp [countFree] at h ⊢; omega)]

theorem setAll_length (idx : List Nat) : ∀ (l : List Bool) (v : Bool), (setAll l idx v).length = l.length := by
  induction idx with
  | nil => intro l v; rfl
  | cons i is ih => intro l v; simp only [setAll, foldl_cons]; rw [show foldl (fun acc i => acc.set i v) (l.set i v) is = setAll (l.set i v) is v from rfl, ih]; simp

theorem setAll_get (idx : List Nat) : ∀ (l : List Bool) (v : Bool) (j : Nat),
    (setAll l idx v)[j]? = if j ∈ idx then (l[j]?).map (fun _ => v) else l[j]? := by
  induction idx with
  | nil => intro l v j; simp [setAll]
  | cons i is ih =>
    intro l v j
    simp only [setAll, foldl_cons]
    rw [show foldl (fun acc i => acc.set i v) (l.set i v) is = setAll (l.set i v) is v from rfl, ih]
    by_cases hji : j = i
    · subst hji
      by_cases hj : j ∈ is
      · simp [hj, getElem?_set]
        by_cases hl : j < l.length <;> simp [hl]
      · simp [hj, getElem?_set]
        by_cases hl : j < l.length <;> simp [hl]
    · have : ¬ i = j := fun e => hji e.symm
      by_cases hj : j ∈ is
      · simp [hj, hji, getElem?_set, this]
      · simp [hj, hji, getElem?_set, this]

/-- busy flags are exactly the indices held by the live requests, and no index is held twice -/
def AInv (flags : List Bool) (live : List (List Nat)) : Prop :=
  (∀ j, flags[j]? = some true ↔ ∃ s ∈ live, j ∈ s) ∧ live.Pairwise (fun a b => ∀ j, j ∈ a → j ∉ b)

theorem AInv_init (n : Nat) : AInv (List.replicate n false) [] := by
  refine ⟨fun j => ?_, Pairwise.nil⟩
  constructor
  · intro h
    by_cases hj : j < n
    · simp [hj] at h
    · simp [hj] at h
  · rintro ⟨s, hs, _⟩; cases hs

/-- taking the first free indices keeps the invariant; what is taken was held by nobody -/
theorem AInv_alloc (flags : List Bool) (live : List (List Nat)) (k : Nat) (h : AInv flags live) :
    AInv (setAll flags (pick flags 0 k) true) (pick flags 0 k :: live)
    ∧ ∀ j ∈ pick flags 0 k, ∀ s ∈ live, j ∉ s := by
  have hfree : ∀ j ∈ pick flags 0 k, flags[j]? = some false := by
    intro j hj; have := (pick_mem flags 0 k j hj).2; simpa using this
  have hnot : ∀ j ∈ pick flags 0 k, ∀ s ∈ live, j ∉ s := by
    intro j hj s hs hjs
    have := (h.1 j).mpr ⟨s, hs, hjs⟩
    rw [hfree j hj] at this; cases this
  refine ⟨⟨fun j => ?_, ?_⟩, hnot⟩
  · rw [setAll_get]
    by_cases hj : j ∈ pick flags 0 k
    · simp only [hj, if_true, hfree j hj, Option.map_some]
      constructor
      · intro _; exact ⟨_, mem_cons_self, hj⟩
      · intro _; trivial
    · simp only [hj, if_false]
      rw [h.1 j]
      constructor
      · rintro ⟨s, hs, hjs⟩; exact ⟨s, mem_cons_of_mem _ hs, hjs⟩
      · rintro ⟨s, hs, hjs⟩
        rcases mem_cons.mp hs with rfl | hs
        · exact absurd hjs hj
        · exact ⟨s, hs, hjs⟩
  · exact pairwise_cons.mpr ⟨fun s hs j hj => hnot j hj s hs, h.2⟩

/-- giving the indices of a live request back keeps the invariant for the others -/
theorem AInv_dealloc (flags : List Bool) (l1 l2 : List (List Nat)) (s : List Nat) (h : AInv flags (l1 ++ s :: l2)) :
    (∀ j ∈ s, flags[j]? = some true) ∧ AInv (setAll flags s false) (l1 ++ l2) := by
  refine ⟨fun j hj => (h.1 j).mpr ⟨s, by simp, hj⟩, ?_⟩
  have hpw := h.2
  have hp1 : l1.Pairwise (fun a b => ∀ j, j ∈ a → j ∉ b) := (pairwise_append.mp hpw).1
  have hp2 := (pairwise_append.mp hpw).2.1
  have hp12 := (pairwise_append.mp hpw).2.2
  have hs2 : ∀ b ∈ l2, ∀ j, j ∈ s → j ∉ b := (pairwise_cons.mp hp2).1
  have hp2' : l2.Pairwise (fun a b => ∀ j, j ∈ a → j ∉ b) := (pairwise_cons.mp hp2).2
  refine ⟨fun j => ?_, ?_⟩
  · rw [setAll_get]
    by_cases hj : j ∈ s
    · simp only [hj, if_true]
      constructor
      · intro hh
        cases hf : flags[j]? with
        | none => rw [hf] at hh; cases hh
        | some b => rw [hf] at hh; simp at hh
      · rintro ⟨s', hs', hjs'⟩
        exfalso
        rcases mem_append.mp hs' with h1 | h2
        · exact hp12 s' h1 s mem_cons_self j hjs' hj
        · exact hs2 s' h2 j hj hjs'
    · simp only [hj, if_false]
      rw [h.1 j]
      constructor
      · rintro ⟨s', hs', hjs'⟩
        rcases mem_append.mp hs' with h1 | h2
        · exact ⟨s', mem_append_left _ h1, hjs'⟩
        · rcases mem_cons.mp h2 with rfl | h2
          · exact absurd hjs' hj
          · exact ⟨s', mem_append_right _ h2, hjs'⟩
      · rintro ⟨s', hs', hjs'⟩
        rcases mem_append.mp hs' with h1 | h2
        · exact ⟨s', mem_append_left _ h1, hjs'⟩
        · exact ⟨s', mem_append_right _ (mem_cons_of_mem _ h2), hjs'⟩
  · apply pairwise_append.mpr
    exact ⟨hp1, hp2', fun a ha b hb => hp12 a ha b (mem_cons_of_mem _ hb)⟩

/-- nothing is held: every flag is free again -/
theorem AInv_empty (flags : List Bool) (h : AInv flags []) : flags = List.replicate flags.length false := by
  apply ext_getElem?
  intro j
  by_cases hj : j < flags.length
  · simp only [hj, getElem?_replicate, if_true]
    cases hb : flags[j]? with
    | none => simp [hj] at hb
    | some b =>
      cases b with
      | false => rfl
      | true => obtain ⟨s, hs, _⟩ := (h.1 j).mp hb; cases hs
  · simp [hj]

end RPVerif.Raptor

namespace RPVerif.Raptor
open List

abbrev BL := List (Option Nat × List Nat)

theorem blGet_cons_pos (e : Option Nat × List Nat) (es : BL) (k : Option Nat) (h : e.1 = k) : blGet (e :: es) k = e.2 := by
  unfold blGet; rw [find?_cons_of_pos (by simpa using h)]

theorem blGet_cons_neg (e : Option Nat × List Nat) (es : BL) (k : Option Nat) (h : ¬ e.1 = k) : blGet (e :: es) k = blGet es k := by
  unfold blGet; rw [find?_cons_of_neg (by simpa using h)]

theorem blGet_map (b : BL) (k k' : Option Nat) (ts : List Nat) :
    blGet (b.map (fun e => if e.1 = k then (e.1, e.2 ++ ts) else e)) k'
      = if k' = k ∧ b.any (fun e => e.1 = k) = true then blGet b k ++ ts else blGet b k' := by
  induction b with
  | nil => simp [blGet]
  | cons e es ih =>
    rw [map_cons]
    by_cases he : e.1 = k
    · rw [if_pos he]
      by_cases hk : k' = k
      · subst hk
        rw [blGet_cons_pos _ _ _ (by simpa using he), blGet_cons_pos _ _ _ he]
        simp [he]
      · have hne : ¬ e.1 = k' := fun h => hk (h ▸ he ▸ rfl)
        rw [blGet_cons_neg _ _ _ (by simpa using hne), ih, blGet_cons_neg _ _ _ hne]
        simp [hk]
    · rw [if_neg he]
      by_cases hk' : e.1 = k'
      · have hkk : ¬ k' = k := fun h => he (hk' ▸ h)
        rw [blGet_cons_pos _ _ _ hk', blGet_cons_pos _ _ _ hk']
        simp [hkk]
      · rw [blGet_cons_neg _ _ _ hk', ih, blGet_cons_neg _ _ _ hk', blGet_cons_neg _ _ _ he]
        have hany : (e :: es).any (fun e => decide (e.1 = k)) = es.any (fun e => decide (e.1 = k)) := by
          rw [any_cons]
          have : decide (e.1 = k) = false := decide_eq_false he
          rw [this, Bool.false_or]
        rw [hany]

theorem blGet_none_of_not_any (b : BL) (k : Option Nat) (h : ¬ b.any (fun e => e.1 = k) = true) : blGet b k = [] := by
  unfold blGet
  have : b.find? (fun e => decide (e.1 = k)) = none := by
    apply find?_eq_none.mpr
    intro e he hk
    exact h (any_eq_true.mpr ⟨e, he, hk⟩)
  rw [this]

theorem blGet_append_single (b : BL) (k k' : Option Nat) (ts : List Nat) (h : ¬ b.any (fun e => e.1 = k) = true) :
    blGet (b ++ [(k, ts)]) k' = if k' = k then ts else blGet b k' := by
  induction b with
  | nil =>
    by_cases hk : k' = k
    · subst hk; simp [blGet]
    · have : ¬ k = k' := fun h => hk h.symm
      simp [blGet, hk, this]
  | cons e es ih =>
    have he : ¬ e.1 = k := by
      intro hh; exact h (by simp [hh])
    have hes : ¬ es.any (fun e => e.1 = k) = true := by
      intro hh; exact h (by simp only [any_cons, Bool.or_eq_true]; exact Or.inr hh)
    rw [cons_append]
    by_cases hk' : e.1 = k'
    · have hkk : ¬ k' = k := fun h => he (hk' ▸ h)
      rw [blGet_cons_pos _ _ _ hk', blGet_cons_pos _ _ _ hk']; simp [hkk]
    · rw [blGet_cons_neg _ _ _ hk', ih hes, blGet_cons_neg _ _ _ hk']

theorem blGet_add (b : BL) (k k' : Option Nat) (ts : List Nat) :
    blGet (blAdd b k ts) k' = if k' = k then blGet b k ++ ts else blGet b k' := by
  unfold blAdd
  by_cases hany : b.any (fun e => e.1 = k) = true
  · rw [if_pos hany, blGet_map]; simp [hany]
  · rw [if_neg hany, blGet_append_single _ _ _ _ hany]
    by_cases hk : k' = k
    · subst hk; simp [blGet_none_of_not_any _ _ hany]
    · simp [hk]

theorem blGet_del (b : BL) (k k' : Option Nat) : blGet (blDel b k) k' = if k' = k then [] else blGet b k' := by
  unfold blDel
  induction b with
  | nil => simp [blGet]
  | cons e es ih =>
    by_cases he : e.1 = k
    · have hf : (e :: es).filter (fun e => decide (e.1 ≠ k)) = es.filter (fun e => decide (e.1 ≠ k)) := by
        rw [filter_cons]; simp [he]
      rw [hf, ih]
      by_cases hk : k' = k
      · simp [hk]
      · have : ¬ e.1 = k' := fun h => hk (h ▸ he ▸ rfl)
        simp [hk, blGet_cons_neg _ _ _ this]
    · have hf : (e :: es).filter (fun e => decide (e.1 ≠ k)) = e :: es.filter (fun e => decide (e.1 ≠ k)) := by
        rw [filter_cons]; simp [he]
      rw [hf]
      by_cases hk' : e.1 = k'
      · have hkk : ¬ k' = k := fun h => he (hk' ▸ h)
        rw [blGet_cons_pos _ _ _ hk', blGet_cons_pos _ _ _ hk']; simp [hkk]
      · rw [blGet_cons_neg _ _ _ hk', ih, blGet_cons_neg _ _ _ hk']

theorem blGet_filter (b : BL) (k : Option Nat) (p : Nat → Bool) :
    blGet (b.map (fun e => (e.1, e.2.filter p))) k = (blGet b k).filter p := by
  induction b with
  | nil => simp [blGet]
  | cons e es ih =>
    rw [map_cons]
    by_cases he : e.1 = k
    · rw [blGet_cons_pos _ _ _ (by simpa using he), blGet_cons_pos _ _ _ he]
    · rw [blGet_cons_neg _ _ _ (by simpa using he), ih, blGet_cons_neg _ _ _ he]

/-- no request waits for a master that is registered -/
def FInv (s : Fwd) : Prop :=
  (∀ m ∈ s.queues, blGet s.backlog (some m) = []) ∧ (s.queues ≠ [] → blGet s.backlog none = [])

theorem finv_incoming (gs : List (Option Nat × List Nat)) : ∀ s, FInv s → FInv (fwdIncoming s gs) := by
  induction gs with
  | nil => intro s h; exact h
  | cons g gs ih =>
    intro s h
    obtain ⟨k, ts⟩ := g
    unfold fwdIncoming
    cases k with
    | some m =>
      simp only
      split
      · exact ih _ h
      · rename_i hm
        apply ih
        refine ⟨fun m' hm' => ?_, fun hq => ?_⟩
        · show blGet (blAdd s.backlog (some m) ts) (some m') = []
          rw [blGet_add]
          have : ¬ (some m' = some m) := by
            intro e; injection e with e; subst e; exact hm hm'
          simp [this, h.1 m' hm']
        · show blGet (blAdd s.backlog (some m) ts) none = []
          rw [blGet_add]; simp [h.2 hq]
    | none =>
      simp only
      split
      · exact ih _ h
      · rename_i hq
        apply ih
        have hq' : s.queues = [] := by simpa using hq
        refine ⟨fun m' hm' => ?_, fun hq2 => absurd hq' hq2⟩
        show blGet (blAdd s.backlog none ts) (some m') = []
        rw [hq'] at hm'; cases hm'

theorem finv_step (s : Fwd) (op : FOp) (h : FInv s) : FInv (fwdStep s op) := by
  cases op with
  | incoming gs => exact finv_incoming gs s h
  | register m =>
    refine ⟨fun m' hm' => ?_, fun _ => ?_⟩
    · show blGet (blDel (blDel s.backlog (some m)) none) (some m') = []
      rw [blGet_del, blGet_del]
      by_cases hmm : m' = m
      · simp [hmm]
      · have hin : m' ∈ s.queues := by
          have : m' ∈ (if m ∈ s.queues then s.queues else s.queues ++ [m]) := hm'
          split at this
          · exact this
          · rcases mem_append.mp this with h1 | h1
            · exact h1
            · simp at h1; exact absurd h1 hmm
        have : ¬ (some m' = some m) := by intro e; injection e with e; exact hmm e
        simp [this, h.1 m' hin]
    · show blGet (blDel (blDel s.backlog (some m)) none) none = []
      rw [blGet_del]; simp
  | unregister m =>
    refine ⟨fun m' hm' => ?_, fun hq => ?_⟩
    · show blGet (blDel s.backlog (some m)) (some m') = []
      have hin : m' ∈ s.queues := (mem_filter.mp hm').1
      rw [blGet_del]
      split
      · rfl
      · exact h.1 m' hin
    · show blGet (blDel s.backlog (some m)) none = []
      have hq' : s.queues ≠ [] := by
        intro e
        apply hq
        show s.queues.filter (· ≠ m) = []
        rw [e]; rfl
      rw [blGet_del]; simp [h.2 hq']
  | cancel us =>
    refine ⟨fun m' hm' => ?_, fun hq => ?_⟩
    · show blGet (s.backlog.map (fun e => (e.1, e.2.filter (fun t => decide (t ∉ us))))) (some m') = []
      rw [blGet_filter, h.1 m' hm']; rfl
    · show blGet (s.backlog.map (fun e => (e.1, e.2.filter (fun t => decide (t ∉ us))))) none = []
      rw [blGet_filter, h.2 hq]; rfl

end RPVerif.Raptor
