import RPVerif.Model.Raptor
/-! helper lemmas for C20: the allocator of one raptor worker -/
namespace RPVerif.Raptor
open List

theorem pick_mem (l : List Bool) : ∀ (i k j : Nat), j ∈ pick l i k → i ≤ j ∧ l[j - i]? = some false := by
  induction l with
  | nil => intro i k j h; cases k <;> simp [pick] at h
  | cons b bs ih =>
    intro i k j h
    cases k with
    | zero => simp [pick] at h
    | succ k =>
      cases b with
      | true =>
        simp only [pick, if_true] at h
        obtain ⟨h1, h2⟩ := ih (i + 1) (k + 1) j h
        refine ⟨by omega, ?_⟩
        have : j - i = (j - (i + 1)) + 1 := by omega
        rw [this]; simpa using h2
      | false =>
        simp only [pick, Bool.false_eq_true, if_false, mem_cons] at h
        rcases h with rfl | h
        · simp
        · obtain ⟨h1, h2⟩ := ih (i + 1) k j h
          refine ⟨by omega, ?_⟩
          have : j - i = (j - (i + 1)) + 1 := by omega
          rw [this]; simpa using h2

theorem pick_sorted (l : List Bool) : ∀ (i k : Nat), (pick l i k).Pairwise (· < ·) := by
  induction l with
  | nil => intro i k; cases k <;> simp [pick]
  | cons b bs ih =>
    intro i k
    cases k with
    | zero => simp [pick]
    | succ k =>
      cases b with
      | true => simp only [pick, if_true]; exact ih (i + 1) (k + 1)
      | false =>
        simp only [pick, Bool.false_eq_true, if_false, pairwise_cons]
        refine ⟨?_, ih (i + 1) k⟩
        intro j hj
        have := (pick_mem bs (i + 1) k j hj).1
        omega

theorem pick_length (l : List Bool) : ∀ (i k : Nat), k ≤ countFree l → (pick l i k).length = k := by
  induction l with
  | nil => intro i k h; simp [countFree] at h; subst h; simp [pick]
  | cons b bs ih =>
    intro i k h
    cases k with
    | zero => simp [pick]
    | succ k =>
      cases b with
      | true =>
        simp only [pick, if_true]
        apply ih
        simpa [countFree] using h
      | false =>
        simp only [pick, Bool.false_eq_true, if_false, length_cons]
        rw [ih (i + 1) k (by simp [countFree] at h ⊢; omega)]

theorem setAll_length (idx : List Nat) : ∀ (l : List Bool) (v : Bool), (setAll l idx v).length = l.length := by
  induction idx with
  | nil => intro l v; rfl
  | cons i is ih => intro l v; simp only [setAll, foldl_cons]; rw [show foldl (fun acc i => acc.set i v) (l.set i v) is = setAll (l.set i v) is v from rfl, ih]; simp

theorem setAll_get (idx : List Nat) : ∀ (l : List Bool) (v : Bool) (j : Nat),
    (setAll l idx v)[j]? = if j ∈ idx then (l[j]?).map (fun _ => v) else l[j]? := by
  induction idx with
  | nil => intro l v j; simp [setAll]
  | cons i is ih =>
    intro l v j
    simp only [setAll, foldl_cons]
    rw [show foldl (fun acc i => acc.set i v) (l.set i v) is = setAll (l.set i v) is v from rfl, ih]
    by_cases hji : j = i
    · subst hji
      by_cases hj : j ∈ is
      · simp [hj, getElem?_set]
        by_cases hl : j < l.length <;> simp [hl]
      · simp [hj, getElem?_set]
        by_cases hl : j < l.length <;> simp [hl]
    · have : ¬ i = j := fun e => hji e.symm
      by_cases hj : j ∈ is
      · simp [hj, hji, getElem?_set, this]
      · simp [hj, hji, getElem?_set, this]

/-- busy flags are exactly the indices held by the live requests, and no index is held twice -/
def AInv (flags : List Bool) (live : List (List Nat)) : Prop :=
  (∀ j, flags[j]? = some true ↔ ∃ s ∈ live, j ∈ s) ∧ live.Pairwise (fun a b => ∀ j, j ∈ a → j ∉ b)

theorem AInv_init (n : Nat) : AInv (List.replicate n false) [] := by
  refine ⟨fun j => ?_, Pairwise.nil⟩
  constructor
  · intro h
    by_cases hj : j < n
    · simp [hj] at h
    · simp [hj] at h
  · rintro ⟨s, hs, _⟩; cases hs

/-- taking the first free indices keeps the invariant; what is taken was held by nobody -/
theorem AInv_alloc (flags : List Bool) (live : List (List Nat)) (k : Nat) (h : AInv flags live) :
    AInv (setAll flags (pick flags 0 k) true) (pick flags 0 k :: live)
    ∧ ∀ j ∈ pick flags 0 k, ∀ s ∈ live, j ∉ s := by
  have hfree : ∀ j ∈ pick flags 0 k, flags[j]? = some false := by
    intro j hj; have := (pick_mem flags 0 k j hj).2; simpa using this
  have hnot : ∀ j ∈ pick flags 0 k, ∀ s ∈ live, j ∉ s := by
    intro j hj s hs hjs
    have := (h.1 j).mpr ⟨s, hs, hjs⟩
    rw [hfree j hj] at this; cases this
  refine ⟨⟨fun j => ?_, ?_⟩, hnot⟩
  · rw [setAll_get]
    by_cases hj : j ∈ pick flags 0 k
    · simp only [hj, if_true, hfree j hj, Option.map_some]
      constructor
      · intro _; exact ⟨_, mem_cons_self, hj⟩
      · intro _; trivial
    · simp only [hj, if_false]
      rw [h.1 j]
      constructor
      · rintro ⟨s, hs, hjs⟩; exact ⟨s, mem_cons_of_mem _ hs, hjs⟩
      · rintro ⟨s, hs, hjs⟩
        rcases mem_cons.mp hs with rfl | hs
        · exact absurd hjs hj
        · exact ⟨s, hs, hjs⟩
  · exact pairwise_cons.mpr ⟨fun s hs j hj => hnot j hj s hs, h.2⟩

/-- giving the indices of a live request back keeps the invariant for the others -/
theorem AInv_dealloc (flags : List Bool) (l1 l2 : List (List Nat)) (s : List Nat) (h : AInv flags (l1 ++ s :: l2)) :
    (∀ j ∈ s, flags[j]? = some true) ∧ AInv (setAll flags s false) (l1 ++ l2) := by
  refine ⟨fun j hj => (h.1 j).mpr ⟨s, by simp, hj⟩, ?_⟩
  have hpw := h.2
  have hp1 : l1.Pairwise (fun a b => ∀ j, j ∈ a → j ∉ b) := (pairwise_append.mp hpw).1
  have hp2 := (pairwise_append.mp hpw).2.1
  have hp12 := (pairwise_append.mp hpw).2.2
  have hs2 : ∀ b ∈ l2, ∀ j, j ∈ s → j ∉ b := (pairwise_cons.mp hp2).1
  have hp2' : l2.Pairwise (fun a b => ∀ j, j ∈ a → j ∉ b) := (pairwise_cons.mp hp2).2
  refine ⟨fun j => ?_, ?_⟩
  · rw [setAll_get]
    by_cases hj : j ∈ s
    · simp only [hj, if_true]
      constructor
      · intro hh
        cases hf : flags[j]? with
        | none => rw [hf] at hh; cases hh
        | some b => rw [hf] at hh; simp at hh
      · rintro ⟨s', hs', hjs'⟩
        exfalso
        rcases mem_append.mp hs' with h1 | h2
        · exact hp12 s' h1 s mem_cons_self j hjs' hj
        · exact hs2 s' h2 j hj hjs'
    · simp only [hj, if_false]
      rw [h.1 j]
      constructor
      · rintro ⟨s', hs', hjs'⟩
        rcases mem_append.mp hs' with h1 | h2
        · exact ⟨s', mem_append_left _ h1, hjs'⟩
        · rcases mem_cons.mp h2 with rfl | h2
          · exact absurd hjs' hj
          · exact ⟨s', mem_append_right _ h2, hjs'⟩
      · rintro ⟨s', hs', hjs'⟩
        rcases mem_append.mp hs' with h1 | h2
        · exact ⟨s', mem_append_left _ h1, hjs'⟩
        · exact ⟨s', mem_append_right _ (mem_cons_of_mem _ h2), hjs'⟩
  · apply pairwise_append.mpr
    exact ⟨hp1, hp2', fun a ha b hb => hp12 a ha b (mem_cons_of_mem _ hb)⟩

/-- nothing is held: every flag is free again -/
theorem AInv_empty (flags : List Bool) (h : AInv flags []) : flags = List.replicate flags.length false := by
  apply ext_getElem?
  intro j
  by_cases hj : j < flags.length
  · simp only [hj, getElem?_replicate, if_true]
    cases hb : flags[j]? with
    | none => simp [hj] at hb
    | some b =>
      cases b with
      | false => rfl
      | true => obtain ⟨s, hs, _⟩ := (h.1 j).mp hb; cases hs
  · simp [hj]

end RPVerif.Raptor
