import RPVerif.Model.TmgrSched
/-!
The usage figure of the backfilling scheduler (C12): for every pilot, `used` is the cores of the tasks
assigned to it minus the cores of those reported finished; so it is zero when all of them finished.
`cf` gives the cores of a task (ranks * cores_per_rank, fixed by the description): submissions and
state notifications carry that figure.
-/
namespace RPVerif.TmgrSched
open List

def sumc (cf : Nat → Nat) (l : List Nat) : Int := ((l.map cf).sum : Nat)

theorem sumc_append (cf : Nat → Nat) (a b : List Nat) : sumc cf (a ++ b) = sumc cf a + sumc cf b := by
  simp [sumc]

theorem sumc_single (cf : Nat → Nat) (u : Nat) : sumc cf [u] = cf u := by simp [sumc]

/-- the usage invariant of one pilot entry -/
structure UsedInv (cf : Nat → Nat) (p : Pilot) : Prop where
  used  : p.used = sumc cf p.tasks - sumc cf p.done
  nodup : p.done.Nodup
  sub   : ∀ u ∈ p.done, u ∈ p.tasks

def AllUsed (cf : Nat → Nat) (ps : List Pilot) : Prop := ∀ p ∈ ps, UsedInv cf p

theorem findPilot_mem (ps : List Pilot) (pid : Nat) (p : Pilot) (h : findPilot ps pid = some p) : p ∈ ps :=
  mem_of_find?_eq_some h

theorem allUsed_setPilot (cf : Nat → Nat) (ps : List Pilot) (p : Pilot) (h : AllUsed cf ps) (hp : UsedInv cf p) :
    AllUsed cf (setPilot ps p) := by
  unfold setPilot
  split
  · intro q hq
    obtain ⟨x, hx, rfl⟩ := mem_map.mp hq
    split
    · exact hp
    · exact h x hx
  · intro q hq
    rcases mem_append.mp hq with hq | hq
    · exact h q hq
    · simp only [mem_singleton] at hq; subst hq; exact hp

/-- changing anything but `used`, `tasks`, `done` keeps the invariant -/
theorem usedInv_congr (cf : Nat → Nat) (p q : Pilot) (h : UsedInv cf p) (h1 : q.used = p.used) (h2 : q.tasks = p.tasks)
    (h3 : q.done = p.done) : UsedInv cf q :=
  ⟨by rw [h1, h2, h3]; exact h.used, by rw [h3]; exact h.nodup, by rw [h2, h3]; exact h.sub⟩

theorem usedInv_fresh (cf : Nat → Nat) (p : Pilot) (h1 : p.used = 0) (h2 : p.tasks = []) (h3 : p.done = []) : UsedInv cf p :=
  ⟨by rw [h1, h2, h3]; rfl, by rw [h3]; exact nodup_nil, by rw [h3]; intro u hu; cases hu⟩

theorem touchPilot_used (cf : Nat → Nat) (ps : List Pilot) (pid : Nat) (v : Option Nat) (h : AllUsed cf ps) :
    AllUsed cf (touchPilot ps pid v) := by
  unfold touchPilot
  split
  · rename_i p hp
    exact allUsed_setPilot cf ps _ h (usedInv_congr cf p _ (h p (findPilot_mem ps pid p hp)) rfl rfl rfl)
  · intro q hq
    rcases mem_append.mp hq with hq | hq
    · exact h q hq
    · simp only [mem_singleton] at hq; subst hq; exact usedInv_fresh cf _ rfl rfl rfl

theorem markAdded_used (cf : Nat → Nat) (pids : List Nat) : ∀ (ps : List Pilot), AllUsed cf ps → AllUsed cf (markAdded ps pids).1 := by
  induction pids with
  | nil => intro ps h; exact h
  | cons pid rest ih =>
    intro ps h
    unfold markAdded
    split
    · rename_i p hp
      split
      · exact h
      · exact ih _ (allUsed_setPilot cf ps _ h (usedInv_congr cf p _ (h p (findPilot_mem ps pid p hp)) rfl rfl rfl))
    · apply ih
      intro q hq
      rcases mem_append.mp hq with hq | hq
      · exact h q hq
      · simp only [mem_singleton] at hq; subst hq; exact usedInv_fresh cf _ rfl rfl rfl

theorem markRemoved_used (cf : Nat → Nat) (pids : List Nat) : ∀ (ps : List Pilot), AllUsed cf ps → AllUsed cf (markRemoved ps pids).1 := by
  induction pids with
  | nil => intro ps h; exact h
  | cons pid rest ih =>
    intro ps h
    unfold markRemoved
    split
    · rename_i p hp
      split
      · exact h
      · exact ih _ (allUsed_setPilot cf ps _ h (usedInv_congr cf p _ (h p (findPilot_mem ps pid p hp)) rfl rfl rfl))
    · exact h

theorem bfInitInfo_used (cf : Nat → Nat) (c : BFCfg) (pids : List Nat) :
    ∀ (cores : List Nat) (ps : List Pilot), AllUsed cf ps → AllUsed cf (bfInitInfo c ps pids cores) := by
  induction pids with
  | nil => intro cores ps h; simpa [bfInitInfo] using h
  | cons pid rest ih =>
    intro cores ps h
    cases cores with
    | nil => simpa [bfInitInfo] using h
    | cons co cs =>
      unfold bfInitInfo
      split
      · exact ih cs _ (allUsed_setPilot cf ps _ h (usedInv_fresh cf _ rfl rfl rfl))
      · exact ih cs ps h

/-- the tasks of the wait pool carry their description's cores -/
def TasksOK (cf : Nat → Nat) (ts : List Task) : Prop := ∀ t ∈ ts, t.cores = cf t.uid

theorem bfPlace_used (cf : Nat → Nat) (t : Task) (ht : t.cores = cf t.uid) (pids : List Nat) :
    ∀ (ps ps' : List Pilot) (pid : Nat) (full : Bool), AllUsed cf ps → bfPlace ps t pids = some (ps', pid, full) → AllUsed cf ps' := by
  induction pids with
  | nil => intro ps ps' pid full _ h; cases h
  | cons x rest ih =>
    intro ps ps' pid full h hpl
    unfold bfPlace at hpl
    split at hpl
    · exact ih ps ps' pid full h hpl
    · rename_i p hp
      split at hpl
      · simp only [Option.some.injEq, Prod.mk.injEq] at hpl
        obtain ⟨rfl, _, _⟩ := hpl
        have hi := h p (findPilot_mem ps x p hp)
        refine allUsed_setPilot cf ps _ h ⟨?_, hi.nodup, fun u hu => mem_append_left _ (hi.sub u hu)⟩
        show p.used + (t.cores : Int) = sumc cf (p.tasks ++ [t.uid]) - sumc cf p.done
        rw [sumc_append, sumc_single, hi.used, ht]; omega
      · exact ih ps ps' pid full h hpl

theorem bfLoop_used (cf : Nat → Nat) (ts : List Task) (hts : TasksOK cf ts) :
    ∀ (ps : List Pilot) (pids : List Nat), AllUsed cf ps → AllUsed cf (bfLoop ps pids ts).1 := by
  induction ts with
  | nil => intro ps pids h; exact h
  | cons t ts ih =>
    intro ps pids h
    have ht : t.cores = cf t.uid := hts t mem_cons_self
    have hts' : TasksOK cf ts := fun x hx => hts x (mem_cons_of_mem _ hx)
    unfold bfLoop
    split
    · have := ih hts' ps pids h
      split
      rename_i heq; rw [heq] at this; exact this
    · split
      · have := ih hts' ps pids h
        split
        rename_i heq; rw [heq] at this; exact this
      · rename_i ps1 pid full hpl
        have h1 := bfPlace_used cf t ht pids ps ps1 pid full h hpl
        have := ih hts' ps1 (if full then pids.erase pid else pids) h1
        split
        rename_i heq; rw [heq] at this; exact this

/-- invariant on the scheduler state: every pilot entry, and every waiting task carries its cores -/
structure BFInv (cf : Nat → Nat) (s : S) : Prop where
  pilots : AllUsed cf s.pilots
  wait   : TasksOK cf s.wait

theorem bfLoop_wait (cf : Nat → Nat) (ts : List Task) (hts : TasksOK cf ts) :
    ∀ (ps : List Pilot) (pids : List Nat), TasksOK cf (bfLoop ps pids ts).2.1 := by
  induction ts with
  | nil => intro ps pids t ht; cases ht
  | cons t ts ih =>
    intro ps pids
    have ht : t.cores = cf t.uid := hts t mem_cons_self
    have hts' : TasksOK cf ts := fun x hx => hts x (mem_cons_of_mem _ hx)
    unfold bfLoop
    split
    · have := ih hts' ps pids
      split
      rename_i heq; rw [heq] at this
      intro x hx
      rcases mem_cons.mp hx with rfl | hx
      · exact ht
      · exact this x hx
    · split
      · have := ih hts' ps pids
        split
        rename_i heq; rw [heq] at this
        intro x hx
        rcases mem_cons.mp hx with rfl | hx
        · exact ht
        · exact this x hx
      · rename_i ps1 pid full hpl
        have := ih hts' ps1 (if full then pids.erase pid else pids)
        split
        rename_i heq; rw [heq] at this; exact this

theorem bfSchedule_inv (cf : Nat → Nat) (c : BFCfg) (s : S) (h : BFInv cf s) : BFInv cf (bfSchedule c s).1 := by
  unfold bfSchedule
  split
  · exact h
  · split
    · exact h
    · have h1 := bfLoop_used cf s.wait h.wait s.pilots (eligiblePids c s) h.pilots
      have h2 := bfLoop_wait cf s.wait h.wait s.pilots (eligiblePids c s)
      split
      rename_i heq; rw [heq] at h1 h2
      exact ⟨h1, h2⟩

theorem waitInsert_ok (cf : Nat → Nat) (w : List Task) (t : Task) (hw : TasksOK cf w) (ht : t.cores = cf t.uid) :
    TasksOK cf (waitInsert w t) := by
  unfold waitInsert
  split
  · intro x hx
    obtain ⟨y, hy, rfl⟩ := mem_map.mp hx
    split
    · exact ht
    · exact hw y hy
  · intro x hx
    rcases mem_append.mp hx with hx | hx
    · exact hw x hx
    · simp only [mem_singleton] at hx; subst hx; exact ht

theorem workFilter_rest (cf : Nat → Nat) (ps : List Pilot) (ts : List Task) (hts : TasksOK cf ts) :
    ∀ (early : List (Nat × Task)), TasksOK cf (workFilter ps early ts).2.2 := by
  induction ts with
  | nil => intro early t ht; cases ht
  | cons t ts ih =>
    intro early
    have hts' : TasksOK cf ts := fun x hx => hts x (mem_cons_of_mem _ hx)
    unfold workFilter
    split
    · split
      · split
        rename_i heq
        have e := congrArg (fun r => r.2.2) heq
        simp only at e ⊢
        rw [← e]; exact ih hts' _
      · split
        rename_i heq
        have e := congrArg (fun r => r.2.2) heq
        simp only at e ⊢
        rw [← e]; exact ih hts' _
    · split
      rename_i heq
      have e := congrArg (fun r => r.2.2) heq
      simp only at e ⊢
      intro x hx
      rcases mem_cons.mp hx with rfl | hx
      · exact hts _ mem_cons_self
      · rw [← e] at hx; exact ih hts' _ x hx

/-- a state notification is consistent with the description: it carries the task's cores -/
def NotesOK (cf : Nat → Nat) (us : List (Nat × Option Nat × Nat × Nat)) : Prop := ∀ n ∈ us, n.2.2.2 = cf n.1

theorem bfUpdateTasks_used (cf : Nat → Nat) (execVal : Nat) (us : List (Nat × Option Nat × Nat × Nat)) (hus : NotesOK cf us) :
    ∀ (ps : List Pilot) (r : Bool), AllUsed cf ps → AllUsed cf (bfUpdateTasks execVal ps us r).1 := by
  induction us with
  | nil => intro ps r h; exact h
  | cons n us ih =>
    intro ps r h
    obtain ⟨uid, pil, sv, cores⟩ := n
    have hn : cores = cf uid := hus (uid, pil, sv, cores) mem_cons_self
    have hus' : NotesOK cf us := fun x hx => hus x (mem_cons_of_mem _ hx)
    unfold bfUpdateTasks
    cases pil with
    | none => exact ih hus' ps r h
    | some pid =>
      simp only
      split
      · exact ih hus' ps r h
      · rename_i p hp
        have hi := h p (findPilot_mem ps pid p hp)
        by_cases h1 : uid ∈ p.done
        · rw [if_pos h1]; exact ih hus' ps r h
        · rw [if_neg h1]
          by_cases h2 : sv ≤ execVal
          · rw [if_pos h2]; exact ih hus' ps r h
          · rw [if_neg h2]
            by_cases h3 : uid ∉ p.tasks
            · rw [if_pos h3]; exact ih hus' ps r h
            · rw [if_neg h3]
              have hmem : uid ∈ p.tasks := by simpa using h3
              have hnew : UsedInv cf { p with done := p.done ++ [uid], used := p.used - cores } := by
                refine ⟨?_, ?_, ?_⟩
                · show p.used - (cores : Int) = sumc cf p.tasks - sumc cf (p.done ++ [uid])
                  rw [sumc_append, sumc_single, hi.used, hn]; omega
                · exact nodup_append.mpr ⟨hi.nodup, (by simp), fun a ha b hb e => by
                    simp only [mem_singleton] at hb; subst hb; subst e; exact h1 ha⟩
                · intro u hu
                  rcases mem_append.mp hu with hu | hu
                  · exact hi.sub u hu
                  · simp only [mem_singleton] at hu; subst hu; exact hmem
              split
              · exact allUsed_setPilot cf ps _ h hnew
              · exact ih hus' _ true (allUsed_setPilot cf ps _ h hnew)

theorem ite_ind {α : Type} (P : α → Prop) (c : Prop) [Decidable c] (a b : α) (ha : P a) (hb : P b) :
    P (if c then a else b) := by
  split <;> assumption

/-- the operations the environment feeds are consistent with the descriptions -/
def OpOK (cf : Nat → Nat) : Op → Prop
  | .work ts       => TasksOK cf ts
  | .taskStates us => NotesOK cf us
  | _              => True

theorem bfStep_inv (cf : Nat → Nat) (c : BFCfg) (execVal : Nat) (s : S) (op : Op) (h : BFInv cf s) (hop : OpOK cf op) :
    BFInv cf (bfStep c execVal s op).1 := by
  cases op with
  | addPilots pids cores =>
    simp only [bfStep]
    unfold bfAddPilots
    have hm := markAdded_used cf pids s.pilots h.pilots
    split
    · rename_i ps e heq
      rw [heq] at hm
      exact ⟨hm, h.wait⟩
    · rename_i ps heq
      rw [heq] at hm
      split
      rename_i early' outs hfe
      have hb := bfSchedule_inv cf c { s with pilots := bfInitInfo c ps pids cores, early := early', pids := s.pids ++ pids }
                   ⟨bfInitInfo_used cf c pids cores ps hm, h.wait⟩
      split
      rename_i heq2; rw [heq2] at hb; exact hb
  | removePilots pids =>
    simp only [bfStep]
    unfold rrRemovePilots
    have hm := markRemoved_used cf pids s.pilots h.pilots
    split
    · rename_i ps e heq; rw [heq] at hm; exact ⟨hm, h.wait⟩
    · rename_i ps heq; rw [heq] at hm
      split
      exact ⟨hm, h.wait⟩
  | pilotState pid v =>
    simp only [bfStep]
    have ht := touchPilot_used cf s.pilots pid v h.pilots
    have hb := bfSchedule_inv cf c { s with pilots := touchPilot s.pilots pid v } ⟨ht, h.wait⟩
    refine ite_ind (fun r : Res => BFInv cf r.1) _ _ _ ⟨ht, h.wait⟩ ?_
    exact ite_ind (fun r : Res => BFInv cf r.1) _ _ _ hb ⟨ht, h.wait⟩
  | work ts =>
    simp only [bfStep]
    unfold bfWork
    have hrest := workFilter_rest cf s.pilots ts hop s.early
    split
    rename_i early' outs rest heq
    rw [heq] at hrest
    simp only at hrest
    have hw : TasksOK cf (rest.foldl waitInsert s.wait) := by
      have key : ∀ (l : List Task) (w : List Task), TasksOK cf l → TasksOK cf w → TasksOK cf (l.foldl waitInsert w) := by
        intro l
        induction l with
        | nil => intro w _ hw; exact hw
        | cons x xs ih =>
          intro w hl hw
          exact ih _ (fun y hy => hl y (mem_cons_of_mem _ hy)) (waitInsert_ok cf w x hw (hl x mem_cons_self))
      exact key rest s.wait hrest h.wait
    have hb := bfSchedule_inv cf c { s with early := early', wait := rest.foldl waitInsert s.wait } ⟨h.pilots, hw⟩
    split
    rename_i heq2; rw [heq2] at hb; exact hb
  | taskStates us =>
    simp only [bfStep]
    have hu := bfUpdateTasks_used cf execVal us hop s.pilots false h.pilots
    split
    · rename_i ps b e heq; rw [heq] at hu; exact ⟨hu, h.wait⟩
    · rename_i ps heq; rw [heq] at hu
      exact bfSchedule_inv cf c { s with pilots := ps } ⟨hu, h.wait⟩
    · rename_i ps heq; rw [heq] at hu; exact ⟨hu, h.wait⟩

theorem bfRun_inv (cf : Nat → Nat) (c : BFCfg) (execVal : Nat) (ops : List Op) (hops : ∀ op ∈ ops, OpOK cf op) :
    ∀ (s : S), BFInv cf s → BFInv cf (bfRun c execVal s ops).1 := by
  induction ops with
  | nil => intro s h; exact h
  | cons op ops ih =>
    intro s h
    unfold bfRun
    have h1 := bfStep_inv cf c execVal s op h (hops op mem_cons_self)
    split
    rename_i s' outs e heq
    rw [heq] at h1
    have := ih (fun o ho => hops o (mem_cons_of_mem _ ho)) s' h1
    split
    rename_i heq2; rw [heq2] at this; exact this

/-- all finished: the usage figure is zero -/
theorem usedInv_zero (cf : Nat → Nat) (p : Pilot) (h : UsedInv cf p) (hn : p.tasks.Nodup) (hall : ∀ u ∈ p.tasks, u ∈ p.done) :
    p.used = 0 := by
  have hperm : p.done.Perm p.tasks := by
    apply (perm_ext_iff_of_nodup h.nodup hn).mpr
    intro a; exact ⟨h.sub a, hall a⟩
  have : sumc cf p.done = sumc cf p.tasks := by
    unfold sumc
    rw [(hperm.map cf).sum_nat]
  rw [h.used, this]; omega

end RPVerif.TmgrSched
