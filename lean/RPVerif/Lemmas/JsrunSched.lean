import RPVerif.Model.JsrunSched
namespace RPVerif.JsrunSched
open RPVerif.Sched (Occ NodeSt Err)

/-! ### the shape of resource sets -/

theorem ceil16_ge (x : Nat) : x ≤ ceil16 x * 16 := by
  unfold ceil16; omega

theorem shape_frac (ranks cpr gpr lfs mem : Nat) (hr : 0 < ranks) (hg : gpr % 16 ≠ 0) :
    (shape ranks cpr gpr lfs mem).ranksPerSlot * gpr ≤ (shape ranks cpr gpr lfs mem).gpusPerSlot * 16
    ∧ (shape ranks cpr gpr lfs mem).reqSlots * (shape ranks cpr gpr lfs mem).ranksPerSlot = ranks
    ∧ 0 < (shape ranks cpr gpr lfs mem).ranksPerSlot := by
  simp only [shape, hg, ne_eq, not_false_eq_true, if_true]
  generalize hG : ceil16 (ranks * gpr) = G
  have hge : ranks * gpr ≤ G * 16 := hG ▸ ceil16_ge _
  have hd : 0 < Nat.gcd ranks G := Nat.gcd_pos_of_pos_left _ hr
  have h1 : Nat.gcd ranks G * (ranks / Nat.gcd ranks G) = ranks := Nat.mul_div_cancel' (Nat.gcd_dvd_left _ _)
  have h2 : Nat.gcd ranks G * (G / Nat.gcd ranks G) = G := Nat.mul_div_cancel' (Nat.gcd_dvd_right _ _)
  generalize Nat.gcd ranks G = d at *
  generalize ranks / d = a at *
  generalize G / d = b at *
  refine ⟨?_, h1, ?_⟩
  · subst h1 h2
    have : d * (a * gpr) ≤ d * (b * 16) := by
      calc d * (a * gpr) = d * a * gpr := by rw [Nat.mul_assoc]
        _ ≤ d * b * 16 := hge
        _ = d * (b * 16) := by rw [Nat.mul_assoc]
    exact Nat.le_of_mul_le_mul_left this hd
  · cases a with
    | zero => simp at h1; omega
    | succ a => omega

/-! ### `_find_resources` -/

theorem takeFree_spec (l : List Occ) (idx need : Nat) (r : List Nat) (e : Nat)
    (h : takeFree l idx need = some (r, e)) :
    r.length = need ∧ idx ≤ e ∧ e ≤ idx + l.length ∧
    (∀ i ∈ r, idx ≤ i ∧ i < e ∧ l[i - idx]? = some .free) ∧ r.Pairwise (· < ·) := by
  induction l generalizing idx need r e with
  | nil =>
    cases need with
    | zero => simp [takeFree] at h; obtain ⟨rfl, rfl⟩ := h; simp
    | succ k => simp [takeFree] at h
  | cons o os ih =>
    cases need with
    | zero => simp [takeFree] at h; obtain ⟨rfl, rfl⟩ := h; simp
    | succ k =>
      simp only [takeFree] at h
      split at h
      · next hfree =>
        split at h
        · next r' e' hrec =>
          simp at h; obtain ⟨rfl, rfl⟩ := h
          obtain ⟨h1, h2, h3, h4, h5⟩ := ih (idx + 1) k r' e' hrec
          refine ⟨by simp [h1], by omega, by simp; omega, ?_, ?_⟩
          · intro i hi
            rcases List.mem_cons.mp hi with rfl | hi
            · refine ⟨Nat.le_refl _, by omega, by simp [hfree]⟩
            · obtain ⟨a, b, c⟩ := h4 i hi
              refine ⟨by omega, b, ?_⟩
              have : i - idx = (i - (idx + 1)) + 1 := by omega
              rw [this]; simpa using c
          · refine List.pairwise_cons.mpr ⟨?_, h5⟩
            intro i hi; have := (h4 i hi).1; omega
        · simp at h
      · obtain ⟨h1, h2, h3, h4, h5⟩ := ih (idx + 1) (k + 1) r e h
        refine ⟨h1, by omega, by simp; omega, ?_, h5⟩
        intro i hi
        obtain ⟨a, b, c⟩ := h4 i hi
        refine ⟨by omega, b, ?_⟩
        have : i - idx = (i - (idx + 1)) + 1 := by omega
        rw [this]; simpa using c

theorem takeFree_drop (l : List Occ) (ci need : Nat) (r : List Nat) (e : Nat)
    (h : takeFree (l.drop ci) ci need = some (r, e)) :
    r.length = need ∧ ci ≤ e ∧ (∀ i ∈ r, ci ≤ i ∧ i < e ∧ l[i]? = some .free) ∧ r.Pairwise (· < ·) := by
  obtain ⟨h1, h2, _, h4, h5⟩ := takeFree_spec _ _ _ _ _ h
  refine ⟨h1, h2, ?_, h5⟩
  intro i hi
  obtain ⟨a, b, c⟩ := h4 i hi
  refine ⟨a, b, ?_⟩
  rw [List.getElem?_drop] at c
  have : ci + (i - ci) = i := by omega
  rwa [this] at c

theorem chunks_prefix (fuel k : Nat) (l : List Nat) : (chunks fuel k l).flatten <+: l := by
  induction fuel generalizing l with
  | zero => simp [chunks]
  | succ f ih =>
    simp only [chunks]
    split
    · simp
    · split
      · simp
      · simp only [List.flatten_cons]
        conv => rhs; rw [← List.take_append_drop k l]
        exact (List.prefix_append_right_inj _).mpr (ih _)

def coresOf (sl : List RSlot) : List Nat := sl.flatMap (fun s => s.cores.flatten)
def gpusOf (sl : List RSlot) : List Nat := sl.flatMap (fun s => s.gpus)

theorem digOut_spec (n : NodeSt) (rps cps gps lfs mem : Nat) (k ci gi : Nat) (sl : List RSlot)
    (h : digOut n rps cps gps lfs mem k ci gi = some sl) :
    sl.length = k ∧ (∀ s ∈ sl, s.node = n.index ∧ s.lfs = lfs ∧ s.mem = mem) ∧
    (coresOf sl).Pairwise (· < ·) ∧ (∀ c ∈ coresOf sl, ci ≤ c ∧ n.cores[c]? = some .free) ∧
    (gpusOf sl).Pairwise (· < ·) ∧ (∀ g ∈ gpusOf sl, gi ≤ g ∧ n.gpus[g]? = some .free) := by
  induction k generalizing ci gi sl with
  | zero => simp [digOut] at h; subst h; simp [coresOf, gpusOf]
  | succ k ih =>
    simp only [digOut] at h
    split at h
    · simp at h
    · next cs ci' hc =>
      split at h
      · simp at h
      · next gs gi' hg =>
        split at h
        · simp at h
        · next rest hrest =>
          simp at h; subst h
          obtain ⟨r1, r2, r3, r4, r5, r6⟩ := ih ci' gi' rest hrest
          obtain ⟨c1, c2, c3, c4⟩ := takeFree_drop _ _ _ _ _ hc
          obtain ⟨g1, g2, g3, g4⟩ := takeFree_drop _ _ _ _ _ hg
          have hpre := chunks_prefix cs.length (cps / rps) cs
          refine ⟨by simp [r1], ?_, ?_, ?_, ?_, ?_⟩
          · intro s hs
            rcases List.mem_cons.mp hs with rfl | hs
            · simp
            · exact r2 s hs
          · simp only [coresOf, List.flatMap_cons]
            refine List.pairwise_append.mpr ⟨c4.sublist hpre.sublist, r3, ?_⟩
            intro a ha b hb
            have := (c3 a (hpre.sublist.subset ha)).2.1
            have := (r4 b hb).1
            omega
          · intro c hc'
            simp only [coresOf, List.flatMap_cons, List.mem_append] at hc'
            rcases hc' with hc' | hc'
            · have := c3 c (hpre.sublist.subset hc'); exact ⟨this.1, this.2.2⟩
            · have := r4 c hc'; exact ⟨by omega, this.2⟩
          · simp only [gpusOf, List.flatMap_cons]
            refine List.pairwise_append.mpr ⟨g4, r5, ?_⟩
            intro a ha b hb
            have := (g3 a ha).2.1
            have := (r6 b hb).1
            omega
          · intro g hg'
            simp only [gpusOf, List.flatMap_cons, List.mem_append] at hg'
            rcases hg' with hg' | hg'
            · have := g3 g hg'; exact ⟨this.1, this.2.2⟩
            · have := r6 g hg'; exact ⟨by omega, this.2⟩

theorem servable_lfs (n : NodeSt) (cps gps lfs mem : Nat) (h : lfs ≠ 0) :
    servable n cps gps lfs mem * lfs ≤ n.lfs.toNat := by
  have hd := Nat.div_mul_le_self n.lfs.toNat lfs
  have : servable n cps gps lfs mem ≤ n.lfs.toNat / lfs := by
    simp only [servable, h, ne_eq, not_false_eq_true, if_true]
    split <;> omega
  exact Nat.le_trans (Nat.mul_le_mul_right _ this) hd

theorem servable_mem (n : NodeSt) (cps gps lfs mem : Nat) (h : mem ≠ 0) :
    servable n cps gps lfs mem * mem ≤ n.mem.toNat := by
  have hd := Nat.div_mul_le_self n.mem.toNat mem
  have : servable n cps gps lfs mem ≤ n.mem.toNat / mem := by
    simp only [servable, h, ne_eq, not_false_eq_true, if_true]
    omega
  exact Nat.le_trans (Nat.mul_le_mul_right _ this) hd

/-- what `_find_resources` returns: at most the sets asked for, all on this node, made of cores
    and GPUs that are free now, none of them twice, and no more lfs/mem than the node has left -/
theorem findJ_spec (n : NodeSt) (nSlots rps cps gps lfs mem : Nat) (part : Bool) (sl : List RSlot)
    (h : findJ n nSlots rps cps gps lfs mem part = .ok (some sl)) :
    sl.length ≤ nSlots ∧ (∀ s ∈ sl, s.node = n.index ∧ s.lfs = lfs ∧ s.mem = mem) ∧
    (coresOf sl).Nodup ∧ (∀ c ∈ coresOf sl, n.cores[c]? = some .free) ∧
    (gpusOf sl).Nodup ∧ (∀ g ∈ gpusOf sl, n.gpus[g]? = some .free) ∧
    sl.length * lfs ≤ n.lfs.toNat ∧ sl.length * mem ≤ n.mem.toNat := by
  simp only [findJ] at h
  split at h
  · simp at h
  · split at h
    · simp at h
    · split at h
      · simp at h
      · next sl' hd =>
        simp at h; subst h
        obtain ⟨d1, d2, d3, d4, d5, d6⟩ := digOut_spec _ _ _ _ _ _ _ _ _ _ hd
        refine ⟨by omega, d2, ?_, fun c hc => (d4 c hc).2, ?_, fun g hg => (d6 g hg).2, ?_, ?_⟩
        · exact d3.imp (fun h => Nat.ne_of_lt h)
        · exact d5.imp (fun h => Nat.ne_of_lt h)
        · by_cases hl : lfs = 0
          · simp [hl]
          · have := servable_lfs n cps gps lfs mem hl
            have h2 : sl'.length ≤ servable n cps gps lfs mem := by omega
            exact Nat.le_trans (Nat.mul_le_mul_right _ h2) this
        · by_cases hl : mem = 0
          · simp [hl]
          · have := servable_mem n cps gps lfs mem hl
            have h2 : sl'.length ≤ servable n cps gps lfs mem := by omega
            exact Nat.le_trans (Nat.mul_le_mul_right _ h2) this

/-! ### `_change_slot_states` -/

theorem setAll_length (l : List Occ) (idx : List Nat) (v : Occ) : (setAll l idx v).length = l.length := by
  induction idx generalizing l with
  | nil => rfl
  | cons i is ih => simp [setAll, List.foldl_cons] at *; rw [ih]; simp

theorem setAll_get (l : List Occ) (idx : List Nat) (v : Occ) (c : Nat) :
    (setAll l idx v)[c]? = if c ∈ idx ∧ c < l.length then some v else l[c]? := by
  induction idx generalizing l with
  | nil => simp [setAll]
  | cons i is ih =>
    have : setAll l (i :: is) v = setAll (l.set i v) is v := by simp [setAll]
    rw [this, ih]
    by_cases hci : c = i
    · subst hci
      by_cases hlt : c < l.length
      · simp [hlt]
      · simp [hlt]
    · simp only [List.length_set, List.mem_cons, hci, false_or]
      rw [List.getElem?_set_ne (Ne.symm hci)]

def nodeAt (ns : List NodeSt) (i : Nat) : Option NodeSt := ns.find? (fun n => n.index = i)

theorem markSlot_index (b : Bool) (n : NodeSt) (s : RSlot) : (markSlot b n s).index = n.index := by
  unfold markSlot; split <;> rfl

theorem changeOne_nodeAt (b : Bool) (ns ns' : List NodeSt) (s : RSlot) (h : changeOne b ns s = some ns') (i : Nat) :
    nodeAt ns' i = if i = s.node then (nodeAt ns i).map (fun n => markSlot b n s) else nodeAt ns i := by
  induction ns generalizing ns' with
  | nil => simp [changeOne] at h
  | cons n rest ih =>
    simp only [changeOne] at h
    split at h
    · next hn =>
      simp at h; subst h
      by_cases hi : i = s.node
      · subst hi; simp [nodeAt, markSlot_index, hn]
      · have : ¬ n.index = i := by omega
        simp [nodeAt, markSlot_index, this, hi]
    · next hn =>
      split at h
      · next r hr =>
        simp at h; subst h
        have := ih r hr
        by_cases hni : n.index = i
        · have hi : ¬ i = s.node := by omega
          simp [nodeAt, hni, hi]
        · simp only [nodeAt, List.find?_cons, hni, decide_false] at this ⊢
          exact this
      · simp at h

theorem changeOne_indices (b : Bool) (ns ns' : List NodeSt) (s : RSlot) (h : changeOne b ns s = some ns') :
    ns'.map (·.index) = ns.map (·.index) := by
  induction ns generalizing ns' with
  | nil => simp [changeOne] at h
  | cons n rest ih =>
    simp only [changeOne] at h
    split at h
    · simp at h; subst h; simp [markSlot_index]
    · split at h
      · next r hr => simp at h; subst h; simp [ih r hr]
      · simp at h

theorem changeOne_isSome (b : Bool) (ns : List NodeSt) (s : RSlot) (h : s.node ∈ ns.map (·.index)) :
    ∃ ns', changeOne b ns s = some ns' := by
  induction ns with
  | nil => simp at h
  | cons n rest ih =>
    simp only [changeOne]
    split
    · exact ⟨_, rfl⟩
    · next hn =>
      have : s.node ∈ rest.map (·.index) := by
        simp only [List.map_cons, List.mem_cons] at h
        rcases h with h | h
        · exact absurd h.symm hn
        · exact h
      obtain ⟨r, hr⟩ := ih this
      exact ⟨n :: r, by simp [hr]⟩

/-- all slots applied to one node -/
def markAll (b : Bool) (n : NodeSt) (sl : List RSlot) : NodeSt := sl.foldl (markSlot b) n

theorem changeAll_cons (b : Bool) (ns : List NodeSt) (s : RSlot) (sl : List RSlot) :
    changeAll b ns (s :: sl) = match changeOne b ns s with | some r => changeAll b r sl | none => none := by
  simp only [changeAll, List.foldl_cons]
  cases changeOne b ns s with
  | some r => rfl
  | none =>
    simp only
    induction sl with
    | nil => rfl
    | cons x xs ih => simpa [List.foldl_cons] using ih

theorem changeAll_nodeAt (b : Bool) (ns ns' : List NodeSt) (sl : List RSlot) (h : changeAll b ns sl = some ns') (i : Nat) :
    nodeAt ns' i = (nodeAt ns i).map (fun n => markAll b n sl) := by
  induction sl generalizing ns with
  | nil => simp [changeAll] at h; subst h; simp [markAll]
  | cons s rest ih =>
    rw [changeAll_cons] at h
    split at h
    · next r hr =>
      rw [ih r h, changeOne_nodeAt b ns r s hr]
      by_cases hi : i = s.node
      · simp only [hi, if_true, Option.map_map]
        congr
      · simp only [hi, if_false]
        cases hn : nodeAt ns i with
        | none => rfl
        | some n =>
          have hidx : n.index = i := by
            have := List.find?_some hn; simpa using this
          simp only [Option.map_some, markAll, List.foldl_cons]
          have : markSlot b n s = n := by
            unfold markSlot; rw [if_pos]; omega
          rw [this]
    · simp at h

theorem changeAll_indices (b : Bool) (ns ns' : List NodeSt) (sl : List RSlot) (h : changeAll b ns sl = some ns') :
    ns'.map (·.index) = ns.map (·.index) := by
  induction sl generalizing ns with
  | nil => simp [changeAll] at h; subst h; rfl
  | cons s rest ih =>
    rw [changeAll_cons] at h
    split at h
    · next r hr => rw [ih r h, changeOne_indices b ns r s hr]
    · simp at h

theorem changeAll_isSome (b : Bool) (ns : List NodeSt) (sl : List RSlot) (h : ∀ s ∈ sl, s.node ∈ ns.map (·.index)) :
    ∃ ns', changeAll b ns sl = some ns' := by
  induction sl generalizing ns with
  | nil => exact ⟨ns, rfl⟩
  | cons s rest ih =>
    obtain ⟨r, hr⟩ := changeOne_isSome b ns s (h s (by simp))
    rw [changeAll_cons, hr]
    apply ih
    intro x hx
    rw [changeOne_indices b ns r s hr]
    exact h x (by simp [hx])

def coresOn (i : Nat) (sl : List RSlot) : List Nat := (sl.filter (fun s => s.node = i)).flatMap (fun s => s.cores.flatten)
def gpusOn (i : Nat) (sl : List RSlot) : List Nat := (sl.filter (fun s => s.node = i)).flatMap (fun s => s.gpus)

def occOfB (b : Bool) : Occ := if b then .busy else .free

theorem markAll_index (b : Bool) (n : NodeSt) (sl : List RSlot) : (markAll b n sl).index = n.index := by
  induction sl generalizing n with
  | nil => rfl
  | cons s rest ih => simp only [markAll, List.foldl_cons] at *; rw [ih, markSlot_index]

theorem markAll_cores (b : Bool) (n : NodeSt) (sl : List RSlot) (c : Nat) :
    (markAll b n sl).cores[c]? = if c ∈ coresOn n.index sl ∧ c < n.cores.length then some (occOfB b) else n.cores[c]? := by
  induction sl generalizing n with
  | nil => simp [markAll, coresOn]
  | cons s rest ih =>
    have hstep : markAll b n (s :: rest) = markAll b (markSlot b n s) rest := by simp [markAll]
    rw [hstep, ih, markSlot_index]
    by_cases hn : n.index = s.node
    · have hm : (markSlot b n s).cores = setAll n.cores s.cores.flatten (occOfB b) := by
        unfold markSlot occOfB; rw [if_neg (by omega)]
      rw [hm, setAll_length, setAll_get]
      have hco : coresOn n.index (s :: rest) = s.cores.flatten ++ coresOn n.index rest := by
        simp [coresOn, hn.symm]
      rw [hco]
      by_cases h1 : c ∈ coresOn n.index rest ∧ c < n.cores.length
      · simp [h1]
      · by_cases h2 : c ∈ s.cores.flatten ∧ c < n.cores.length
        · simp only [h2, and_self, if_true, List.mem_append, true_or]
          split <;> rfl
        · have : ¬ ((c ∈ s.cores.flatten ++ coresOn n.index rest) ∧ c < n.cores.length) := by
            rw [List.mem_append]; intro ⟨h, hl⟩
            rcases h with h | h
            · exact h2 ⟨h, hl⟩
            · exact h1 ⟨h, hl⟩
          simp only [h1, if_false, h2, this]
    · have hm : markSlot b n s = n := by unfold markSlot; rw [if_pos hn]
      have hco : coresOn n.index (s :: rest) = coresOn n.index rest := by
        have : ¬ s.node = n.index := fun h => hn h.symm
        simp [coresOn, this]
      rw [hm, hco]

theorem markAll_gpus (b : Bool) (n : NodeSt) (sl : List RSlot) (c : Nat) :
    (markAll b n sl).gpus[c]? = if c ∈ gpusOn n.index sl ∧ c < n.gpus.length then some (occOfB b) else n.gpus[c]? := by
  induction sl generalizing n with
  | nil => simp [markAll, gpusOn]
  | cons s rest ih =>
    have hstep : markAll b n (s :: rest) = markAll b (markSlot b n s) rest := by simp [markAll]
    rw [hstep, ih, markSlot_index]
    by_cases hn : n.index = s.node
    · have hm : (markSlot b n s).gpus = setAll n.gpus s.gpus (occOfB b) := by
        unfold markSlot occOfB; rw [if_neg (by omega)]
      rw [hm, setAll_length, setAll_get]
      have hco : gpusOn n.index (s :: rest) = s.gpus ++ gpusOn n.index rest := by
        simp [gpusOn, hn.symm]
      rw [hco]
      by_cases h1 : c ∈ gpusOn n.index rest ∧ c < n.gpus.length
      · simp [h1]
      · by_cases h2 : c ∈ s.gpus ∧ c < n.gpus.length
        · simp only [h2, and_self, if_true, List.mem_append, true_or]
          split <;> rfl
        · have : ¬ ((c ∈ s.gpus ++ gpusOn n.index rest) ∧ c < n.gpus.length) := by
            rw [List.mem_append]; intro ⟨h, hl⟩
            rcases h with h | h
            · exact h2 ⟨h, hl⟩
            · exact h1 ⟨h, hl⟩
          simp only [h1, if_false, h2, this]
    · have hm : markSlot b n s = n := by unfold markSlot; rw [if_pos hn]
      have hco : gpusOn n.index (s :: rest) = gpusOn n.index rest := by
        have : ¬ s.node = n.index := fun h => hn h.symm
        simp [gpusOn, this]
      rw [hm, hco]

def coreKeys (sl : List RSlot) : List (Nat × Nat) := sl.flatMap (fun s => s.cores.flatten.map (fun c => (s.node, c)))
def gpuKeys (sl : List RSlot) : List (Nat × Nat) := sl.flatMap (fun s => s.gpus.map (fun g => (s.node, g)))

theorem mem_coreKeys (sl : List RSlot) (i c : Nat) : (i, c) ∈ coreKeys sl ↔ c ∈ coresOn i sl := by
  simp only [coreKeys, coresOn, List.mem_flatMap, List.mem_map, List.mem_filter, Prod.mk.injEq, decide_eq_true_eq]
  constructor
  · rintro ⟨s, hs, c', hc', rfl, rfl⟩; exact ⟨s, ⟨hs, rfl⟩, hc'⟩
  · rintro ⟨s, ⟨hs, rfl⟩, hc⟩; exact ⟨s, hs, c, hc, rfl, rfl⟩

theorem mem_gpuKeys (sl : List RSlot) (i c : Nat) : (i, c) ∈ gpuKeys sl ↔ c ∈ gpusOn i sl := by
  simp only [gpuKeys, gpusOn, List.mem_flatMap, List.mem_map, List.mem_filter, Prod.mk.injEq, decide_eq_true_eq]
  constructor
  · rintro ⟨s, hs, c', hc', rfl, rfl⟩; exact ⟨s, ⟨hs, rfl⟩, hc'⟩
  · rintro ⟨s, ⟨hs, rfl⟩, hc⟩; exact ⟨s, hs, c, hc, rfl, rfl⟩

/-! ### `schedule_task`: what a placement is made of -/

theorem coreKeys_append (a b : List RSlot) : coreKeys (a ++ b) = coreKeys a ++ coreKeys b := by
  simp [coreKeys]
theorem gpuKeys_append (a b : List RSlot) : gpuKeys (a ++ b) = gpuKeys a ++ gpuKeys b := by
  simp [gpuKeys]

theorem coreKeys_same (sl : List RSlot) (i : Nat) (h : ∀ s ∈ sl, s.node = i) :
    coreKeys sl = (coresOf sl).map (fun c => (i, c)) := by
  induction sl with
  | nil => rfl
  | cons s rest ih =>
    have h1 := h s (by simp)
    have h2 := ih (fun x hx => h x (by simp [hx]))
    simp only [coreKeys, coresOf, List.flatMap_cons, List.map_append] at *
    rw [h2, h1]

theorem gpuKeys_same (sl : List RSlot) (i : Nat) (h : ∀ s ∈ sl, s.node = i) :
    gpuKeys sl = (gpusOf sl).map (fun c => (i, c)) := by
  induction sl with
  | nil => rfl
  | cons s rest ih =>
    have h1 := h s (by simp)
    have h2 := ih (fun x hx => h x (by simp [hx]))
    simp only [gpuKeys, gpusOf, List.flatMap_cons, List.map_append] at *
    rw [h2, h1]

theorem coreKeys_node (sl : List RSlot) (k : Nat × Nat) (h : k ∈ coreKeys sl) : ∃ s ∈ sl, s.node = k.1 := by
  simp only [coreKeys, List.mem_flatMap, List.mem_map] at h
  obtain ⟨s, hs, c, _, rfl⟩ := h
  exact ⟨s, hs, rfl⟩

theorem gpuKeys_node (sl : List RSlot) (k : Nat × Nat) (h : k ∈ gpuKeys sl) : ∃ s ∈ sl, s.node = k.1 := by
  simp only [gpuKeys, List.mem_flatMap, List.mem_map] at h
  obtain ⟨s, hs, c, _, rfl⟩ := h
  exact ⟨s, hs, rfl⟩

/-- a placement made of free cores and GPUs of the nodes in `all`, none of them twice -/
structure Good (all : List NodeSt) (sl : List RSlot) : Prop where
  cND   : (coreKeys sl).Nodup
  gND   : (gpuKeys sl).Nodup
  cFree : ∀ k ∈ coreKeys sl, ∃ n ∈ all, n.index = k.1 ∧ n.cores[k.2]? = some .free
  gFree : ∀ k ∈ gpuKeys sl, ∃ n ∈ all, n.index = k.1 ∧ n.gpus[k.2]? = some .free
  nodes : ∀ s ∈ sl, s.node ∈ all.map (·.index)

theorem good_nil (all : List NodeSt) : Good all [] :=
  ⟨by simp [coreKeys], by simp [gpuKeys], by simp [coreKeys], by simp [gpuKeys], by simp⟩

theorem good_append (all : List NodeSt) (a sl : List RSlot) (n : NodeSt) (V : List Nat)
    (ha : Good all a) (hV : ∀ s ∈ a, s.node ∈ V) (hn : n ∈ all) (hnV : n.index ∉ V)
    (h1 : ∀ s ∈ sl, s.node = n.index) (h2 : (coresOf sl).Nodup) (h3 : ∀ c ∈ coresOf sl, n.cores[c]? = some .free)
    (h4 : (gpusOf sl).Nodup) (h5 : ∀ g ∈ gpusOf sl, n.gpus[g]? = some .free) : Good all (a ++ sl) := by
  have hinj : Function.Injective (fun c : Nat => (n.index, c)) := fun x y h => by simpa using h
  refine ⟨?_, ?_, ?_, ?_, ?_⟩
  · rw [coreKeys_append, coreKeys_same sl n.index h1]
    refine List.nodup_append.mpr ⟨ha.cND, List.Pairwise.map _ (fun a b hab heq => hab (hinj heq)) h2, ?_⟩
    intro k hk k' hk' heq
    subst heq
    obtain ⟨s, hs, hsn⟩ := coreKeys_node a k hk
    simp only [List.mem_map] at hk'
    obtain ⟨c, _, rfl⟩ := hk'
    have hsn' : s.node = n.index := hsn
    exact hnV (hsn' ▸ hV s hs)
  · rw [gpuKeys_append, gpuKeys_same sl n.index h1]
    refine List.nodup_append.mpr ⟨ha.gND, List.Pairwise.map _ (fun a b hab heq => hab (hinj heq)) h4, ?_⟩
    intro k hk k' hk' heq
    subst heq
    obtain ⟨s, hs, hsn⟩ := gpuKeys_node a k hk
    simp only [List.mem_map] at hk'
    obtain ⟨c, _, rfl⟩ := hk'
    have hsn' : s.node = n.index := hsn
    exact hnV (hsn' ▸ hV s hs)
  · intro k hk
    rw [coreKeys_append, List.mem_append] at hk
    rcases hk with hk | hk
    · exact ha.cFree k hk
    · rw [coreKeys_same sl n.index h1, List.mem_map] at hk
      obtain ⟨c, hc, rfl⟩ := hk
      exact ⟨n, hn, rfl, h3 c hc⟩
  · intro k hk
    rw [gpuKeys_append, List.mem_append] at hk
    rcases hk with hk | hk
    · exact ha.gFree k hk
    · rw [gpuKeys_same sl n.index h1, List.mem_map] at hk
      obtain ⟨c, hc, rfl⟩ := hk
      exact ⟨n, hn, rfl, h5 c hc⟩
  · intro s hs
    rcases List.mem_append.mp hs with hs | hs
    · exact ha.nodes s hs
    · rw [h1 s hs]; exact List.mem_map.mpr ⟨n, hn, rfl⟩

theorem walkStep_good (all : List NodeSt) (sc mpi : Bool) (s : Shape) (spn : Nat) (w w' : Walk) (n : NodeSt) (V : List Nat)
    (ha : Good all w.alc) (hV : ∀ x ∈ w.alc, x.node ∈ V) (hn : n ∈ all) (hnV : n.index ∉ V)
    (h : walkStep sc mpi s spn w n = .ok w') :
    Good all w'.alc ∧ ∀ x ∈ w'.alc, x.node ∈ n.index :: V := by
  have keep : Good all w.alc ∧ ∀ x ∈ w.alc, x.node ∈ n.index :: V :=
    ⟨ha, fun x hx => List.mem_cons_of_mem _ (hV x hx)⟩
  have empty : Good all ([] : List RSlot) ∧ ∀ x ∈ ([] : List RSlot), x.node ∈ n.index :: V :=
    ⟨good_nil all, by simp⟩
  simp only [walkStep] at h
  split at h
  · simp at h; subst h; exact keep
  · split at h
    · simp at h
    · split at h <;> (simp at h; subst h) <;> first | exact keep | exact empty
    · split at h <;> (simp at h; subst h) <;> first | exact keep | exact empty
    · next sl hne hf =>
      simp at h; subst h
      obtain ⟨_, f2, f3, f4, f5, f6, _, _⟩ := findJ_spec _ _ _ _ _ _ _ _ _ hf
      refine ⟨good_append all w.alc sl n V ha hV hn hnV (fun x hx => (f2 x hx).1) f3 f4 f5 f6, ?_⟩
      intro x hx
      rcases List.mem_append.mp hx with hx | hx
      · exact List.mem_cons_of_mem _ (hV x hx)
      · rw [(f2 x hx).1]; simp

theorem walkGo_good (all : List NodeSt) (sc mpi : Bool) (s : Shape) (spn : Nat) (ns : List NodeSt) (w w' : Walk)
    (visited v' : Nat) (V : List Nat)
    (hsub : ∀ n ∈ ns, n ∈ all) (hnd : (ns.map (·.index)).Nodup) (hdis : ∀ i ∈ V, i ∉ ns.map (·.index))
    (ha : Good all w.alc) (hV : ∀ x ∈ w.alc, x.node ∈ V)
    (h : walkGo sc mpi s spn ns w visited = .ok (w', v')) : Good all w'.alc := by
  induction ns generalizing w visited V with
  | nil => simp [walkGo] at h; rw [← h.1]; exact ha
  | cons n rest ih =>
    simp only [walkGo] at h
    split at h
    · simp at h
    · next w1 hw1 =>
      have hnV : n.index ∉ V := fun hm => hdis _ hm (by simp)
      obtain ⟨g1, g2⟩ := walkStep_good all sc mpi s spn w w1 n V ha hV (hsub n (by simp)) hnV hw1
      split at h
      · simp at h; rw [← h.1]; exact g1
      · simp only [List.map_cons, List.nodup_cons] at hnd
        refine ih w1 (visited + 1) (n.index :: V) (fun x hx => hsub x (by simp [hx])) hnd.2 ?_ g1 g2 h
        intro i hi
        rcases List.mem_cons.mp hi with rfl | hi
        · exact hnd.1
        · intro hm; exact hdis i hi (by simp [hm])

theorem rotate_mem (l : List NodeSt) (k : Nat) (n : NodeSt) : n ∈ rotate l k ↔ n ∈ l := by
  unfold rotate
  rw [List.mem_append]
  constructor
  · rintro (h | h)
    · exact List.mem_of_mem_drop h
    · exact List.mem_of_mem_take h
  · intro h
    rw [← List.take_append_drop k l, List.mem_append] at h
    exact h.symm

theorem rotate_nodup (l : List NodeSt) (k : Nat) (h : (l.map (·.index)).Nodup) : ((rotate l k).map (·.index)).Nodup := by
  unfold rotate
  rw [← List.take_append_drop k l, List.map_append, List.nodup_append] at h
  rw [List.map_append, List.nodup_append]
  refine ⟨h.2.1, h.1, ?_⟩
  intro a ha b hb heq
  exact h.2.2 b hb a ha heq.symm

/-- a placement `schedule_task` returns is made of cores and GPUs which are free in the node map
    it was given, none of them named twice, on nodes of that map -/
theorem schedule_good (cfg : JCfg) (nodes : List NodeSt) (off off' : Nat) (r : JReq) (sl : List RSlot)
    (hnd : (nodes.map (·.index)).Nodup) (h : schedule cfg nodes off r = (.placed sl, off')) : Good nodes sl := by
  simp only [schedule] at h
  split at h
  · simp at h
  · split at h
    · simp at h
    · split at h
      · simp at h
      · next w visited hw =>
        split at h
        · simp at h
        · simp at h
          rw [← h.1]
          exact walkGo_good nodes _ _ _ _ _ _ w 0 visited [] (fun n hn => (rotate_mem _ _ _).mp hn)
            (rotate_nodup _ _ hnd) (by simp) (good_nil _) (by simp) hw

/-! ### the invariant of the scheduler's bookkeeping -/

def heldSlots (st : JState) : List RSlot := st.held.flatMap (·.2)

def keysBy (f : RSlot → List (Nat × Nat)) (held : List (Nat × List RSlot)) : List (Nat × Nat) :=
  (held.flatMap (·.2)).flatMap f

theorem keysBy_append (f : RSlot → List (Nat × Nat)) (a b : List (Nat × List RSlot)) :
    keysBy f (a ++ b) = keysBy f a ++ keysBy f b := by simp [keysBy]

theorem keysBy_cons (f : RSlot → List (Nat × Nat)) (e : Nat × List RSlot) (b : List (Nat × List RSlot)) :
    keysBy f (e :: b) = e.2.flatMap f ++ keysBy f b := by simp [keysBy]

theorem keysBy_filter_sublist (f : RSlot → List (Nat × Nat)) (p : Nat × List RSlot → Bool) (l : List (Nat × List RSlot)) :
    (keysBy f (l.filter p)).Sublist (keysBy f l) := by
  induction l with
  | nil => simp [keysBy]
  | cons x xs ih =>
    rw [List.filter_cons]
    split
    · rw [keysBy_cons, keysBy_cons]; exact List.Sublist.append (List.Sublist.refl _) ih
    · rw [keysBy_cons]; exact List.Sublist.trans ih (List.sublist_append_right _ _)

theorem release_keys (f : RSlot → List (Nat × Nat)) (held : List (Nat × List RSlot)) (e : Nat × List RSlot)
    (he : e ∈ held) (hnd : (keysBy f held).Nodup) :
    (keysBy f (held.filter (fun x => x.1 ≠ e.1))).Nodup ∧
    ∀ k ∈ keysBy f (held.filter (fun x => x.1 ≠ e.1)), k ∈ keysBy f held ∧ k ∉ e.2.flatMap f := by
  refine ⟨hnd.sublist (keysBy_filter_sublist f _ held), ?_⟩
  intro k hk
  refine ⟨(keysBy_filter_sublist f _ held).subset hk, ?_⟩
  obtain ⟨l1, l2, rfl⟩ := List.append_of_mem he
  rw [keysBy_append, keysBy_cons, List.nodup_append] at hnd
  obtain ⟨_, h2, h3⟩ := hnd
  rw [List.nodup_append] at h2
  obtain ⟨_, _, h5⟩ := h2
  rw [List.filter_append, List.filter_cons] at hk
  simp only [ne_eq, not_true_eq_false, decide_false, Bool.false_eq_true, if_false] at hk
  rw [keysBy_append, List.mem_append] at hk
  intro hke
  rcases hk with hk | hk
  · exact h3 k ((keysBy_filter_sublist f _ l1).subset hk) k (List.mem_append_left _ hke) rfl
  · exact h5 k hke k ((keysBy_filter_sublist f _ l2).subset hk) rfl

def coreF (s : RSlot) : List (Nat × Nat) := s.cores.flatten.map (fun c => (s.node, c))
def gpuF (s : RSlot) : List (Nat × Nat) := s.gpus.map (fun g => (s.node, g))

theorem coreKeys_eq (sl : List RSlot) : coreKeys sl = sl.flatMap coreF := rfl
theorem gpuKeys_eq (sl : List RSlot) : gpuKeys sl = sl.flatMap gpuF := rfl

structure JInv (st : JState) : Prop where
  idx   : (st.nodes.map (·.index)).Nodup
  cND   : (keysBy coreF st.held).Nodup
  gND   : (keysBy gpuF st.held).Nodup
  cBusy : ∀ k ∈ keysBy coreF st.held, ∃ n, nodeAt st.nodes k.1 = some n ∧ n.cores[k.2]? = some .busy
  gBusy : ∀ k ∈ keysBy gpuF st.held, ∃ n, nodeAt st.nodes k.1 = some n ∧ n.gpus[k.2]? = some .busy

theorem nodeAt_of_mem (ns : List NodeSt) (n : NodeSt) (hnd : (ns.map (·.index)).Nodup) (hn : n ∈ ns) :
    nodeAt ns n.index = some n := by
  induction ns with
  | nil => simp at hn
  | cons x xs ih =>
    simp only [List.map_cons, List.nodup_cons] at hnd
    rcases List.mem_cons.mp hn with rfl | hn
    · simp [nodeAt]
    · have : ¬ x.index = n.index := fun h => hnd.1 (h ▸ List.mem_map.mpr ⟨n, hn, rfl⟩)
      simp only [nodeAt, List.find?_cons, this, decide_false]
      exact ih hnd.2 hn

theorem nodeAt_index (ns : List NodeSt) (i : Nat) (n : NodeSt) (h : nodeAt ns i = some n) : n.index = i := by
  have := List.find?_some h; simpa using this

theorem release_inv (st : JState) (uid : Nat) (h : JInv st) : JInv (release st uid).1 := by
  unfold release
  split
  · exact h
  · next e he =>
    split
    · exact h
    · next ns hns =>
      have hmem : e ∈ st.held := List.mem_of_find?_eq_some he
      have heu : e.1 = uid := by have := List.find?_some he; simpa using this
      subst heu
      obtain ⟨c1, c2⟩ := release_keys coreF st.held e hmem h.cND
      obtain ⟨g1, g2⟩ := release_keys gpuF st.held e hmem h.gND
      refine ⟨?_, c1, g1, ?_, ?_⟩
      · show (ns.map (·.index)).Nodup
        rw [changeAll_indices false st.nodes ns e.2 hns]; exact h.idx
      · intro k hk
        obtain ⟨hk1, hk2⟩ := c2 k hk
        obtain ⟨n, hn, hb⟩ := h.cBusy k hk1
        refine ⟨markAll false n e.2, ?_, ?_⟩
        · show nodeAt ns k.1 = _
          rw [changeAll_nodeAt false st.nodes ns e.2 hns, hn]; rfl
        · rw [markAll_cores, if_neg, hb]
          intro ⟨hc, _⟩
          rw [nodeAt_index _ _ _ hn, ← mem_coreKeys] at hc
          exact hk2 hc
      · intro k hk
        obtain ⟨hk1, hk2⟩ := g2 k hk
        obtain ⟨n, hn, hb⟩ := h.gBusy k hk1
        refine ⟨markAll false n e.2, ?_, ?_⟩
        · show nodeAt ns k.1 = _
          rw [changeAll_nodeAt false st.nodes ns e.2 hns, hn]; rfl
        · rw [markAll_gpus, if_neg, hb]
          intro ⟨hc, _⟩
          rw [nodeAt_index _ _ _ hn, ← mem_gpuKeys] at hc
          exact hk2 hc

theorem keysBy_single (f : RSlot → List (Nat × Nat)) (u : Nat) (sl : List RSlot) : keysBy f [(u, sl)] = sl.flatMap f := by
  simp [keysBy]

theorem get_lt_of_some {α : Type} (l : List α) (i : Nat) (v : α) (h : l[i]? = some v) : i < l.length := by
  rcases Nat.lt_or_ge i l.length with hl | hl
  · exact hl
  · rw [List.getElem?_eq_none hl] at h; simp at h

theorem tryAlloc_inv (cfg : JCfg) (st : JState) (r : JReq) (h : JInv st) : JInv (tryAlloc cfg st r).1 := by
  have keep : ∀ off act, JInv { st with offset := off, active := act } := fun _ _ => ⟨h.idx, h.cND, h.gND, h.cBusy, h.gBusy⟩
  unfold tryAlloc
  split
  · exact keep _ _
  · split <;> exact keep _ _
  · split <;> exact keep _ _
  · next sl off hne hs =>
    split
    · exact keep _ _
    · next ns hns =>
      have good := schedule_good cfg st.nodes st.offset off r sl h.idx hs
      have hat : ∀ i, nodeAt ns i = (nodeAt st.nodes i).map (fun n => markAll true n sl) :=
        changeAll_nodeAt true st.nodes ns sl hns
      refine ⟨?_, ?_, ?_, ?_, ?_⟩
      · show (ns.map (·.index)).Nodup
        rw [changeAll_indices true st.nodes ns sl hns]; exact h.idx
      · show (keysBy coreF (st.held ++ [(r.uid, sl)])).Nodup
        rw [keysBy_append, keysBy_single]
        refine List.nodup_append.mpr ⟨h.cND, good.cND, ?_⟩
        intro k hk k' hk' heq
        subst heq
        obtain ⟨n, hn, hb⟩ := h.cBusy k hk
        obtain ⟨n', hn', hi, hf⟩ := good.cFree k hk'
        have := nodeAt_of_mem st.nodes n' h.idx hn'
        rw [hi, hn] at this
        simp at this; subst this
        rw [hb] at hf; simp at hf
      · show (keysBy gpuF (st.held ++ [(r.uid, sl)])).Nodup
        rw [keysBy_append, keysBy_single]
        refine List.nodup_append.mpr ⟨h.gND, good.gND, ?_⟩
        intro k hk k' hk' heq
        subst heq
        obtain ⟨n, hn, hb⟩ := h.gBusy k hk
        obtain ⟨n', hn', hi, hf⟩ := good.gFree k hk'
        have := nodeAt_of_mem st.nodes n' h.idx hn'
        rw [hi, hn] at this
        simp at this; subst this
        rw [hb] at hf; simp at hf
      · intro k hk
        change k ∈ keysBy coreF (st.held ++ [(r.uid, sl)]) at hk
        rw [keysBy_append, keysBy_single, List.mem_append] at hk
        rcases hk with hk | hk
        · obtain ⟨n, hn, hb⟩ := h.cBusy k hk
          refine ⟨markAll true n sl, by show nodeAt ns k.1 = _; rw [hat, hn]; rfl, ?_⟩
          rw [markAll_cores]
          split
          · rfl
          · exact hb
        · obtain ⟨n', hn', hi, hf⟩ := good.cFree k hk
          have hn := nodeAt_of_mem st.nodes n' h.idx hn'
          rw [hi] at hn
          refine ⟨markAll true n' sl, by show nodeAt ns k.1 = _; rw [hat, hn]; rfl, ?_⟩
          rw [markAll_cores, if_pos]
          · rfl
          · refine ⟨?_, get_lt_of_some _ _ _ hf⟩
            rw [hi, ← mem_coreKeys]; exact hk
      · intro k hk
        change k ∈ keysBy gpuF (st.held ++ [(r.uid, sl)]) at hk
        rw [keysBy_append, keysBy_single, List.mem_append] at hk
        rcases hk with hk | hk
        · obtain ⟨n, hn, hb⟩ := h.gBusy k hk
          refine ⟨markAll true n sl, by show nodeAt ns k.1 = _; rw [hat, hn]; rfl, ?_⟩
          rw [markAll_gpus]
          split
          · rfl
          · exact hb
        · obtain ⟨n', hn', hi, hf⟩ := good.gFree k hk
          have hn := nodeAt_of_mem st.nodes n' h.idx hn'
          rw [hi] at hn
          refine ⟨markAll true n' sl, by show nodeAt ns k.1 = _; rw [hat, hn]; rfl, ?_⟩
          rw [markAll_gpus, if_pos]
          · rfl
          · refine ⟨?_, get_lt_of_some _ _ _ hf⟩
            rw [hi, ← mem_gpuKeys]; exact hk

theorem jstep_inv (cfg : JCfg) (st : JState) (op : JOp) (h : JInv st) : JInv (jstep cfg st op).1 := by
  cases op with
  | alloc r => exact tryAlloc_inv cfg st r h
  | rel u => exact release_inv st u h

def jrun (cfg : JCfg) (st : JState) (ops : List JOp) : JState := ops.foldl (fun s o => (jstep cfg s o).1) st

theorem jrun_inv (cfg : JCfg) (st : JState) (ops : List JOp) (h : JInv st) : JInv (jrun cfg st ops) := by
  induction ops generalizing st with
  | nil => exact h
  | cons o os ih => exact ih _ (jstep_inv cfg st o h)

theorem init_inv (nodes : List NodeSt) (h : (nodes.map (·.index)).Nodup) : JInv { nodes := nodes } :=
  ⟨h, by simp [keysBy], by simp [keysBy], by simp [keysBy], by simp [keysBy]⟩

/-! ### blocked cores and GPUs stay blocked -/

def DownKept (init : List NodeSt) (st : JState) : Prop :=
  ∀ (i : Nat) (n0 : NodeSt), nodeAt init i = some n0 → ∃ n : NodeSt, nodeAt st.nodes i = some n ∧
    (∀ c : Nat, n0.cores[c]? = some Occ.down → n.cores[c]? = some Occ.down) ∧
    (∀ g : Nat, n0.gpus[g]? = some Occ.down → n.gpus[g]? = some Occ.down)

theorem mem_keysBy_of_mem (f : RSlot → List (Nat × Nat)) (held : List (Nat × List RSlot)) (e : Nat × List RSlot)
    (he : e ∈ held) (k : Nat × Nat) (hk : k ∈ e.2.flatMap f) : k ∈ keysBy f held := by
  simp only [keysBy, List.mem_flatMap] at hk ⊢
  obtain ⟨s, hs, hks⟩ := hk
  exact ⟨s, ⟨e, he, hs⟩, hks⟩

theorem release_down (init : List NodeSt) (st : JState) (uid : Nat) (h : JInv st) (hd : DownKept init st) :
    DownKept init (release st uid).1 := by
  unfold release
  split
  · exact fun i n0 hn0 => hd i n0 hn0
  · next e he =>
    split
    · exact fun i n0 hn0 => hd i n0 hn0
    · next ns hns =>
      have hmem : e ∈ st.held := List.mem_of_find?_eq_some he
      unfold DownKept
      intro i n0 hn0
      obtain ⟨n, hn, hc, hg⟩ := hd i n0 hn0
      have hi := nodeAt_index _ _ _ hn
      refine ⟨markAll false n e.2, by show nodeAt ns i = _; rw [changeAll_nodeAt false st.nodes ns e.2 hns, hn]; rfl, ?_, ?_⟩
      · intro c hdown
        rw [markAll_cores, if_neg]
        · exact hc c hdown
        · intro ⟨hm, _⟩
          rw [hi, ← mem_coreKeys] at hm
          obtain ⟨n', hn', hb⟩ := h.cBusy (i, c) (mem_keysBy_of_mem coreF _ e hmem _ hm)
          rw [hn] at hn'; simp at hn'; subst hn'
          rw [hc c hdown] at hb; simp at hb
      · intro c hdown
        rw [markAll_gpus, if_neg]
        · exact hg c hdown
        · intro ⟨hm, _⟩
          rw [hi, ← mem_gpuKeys] at hm
          obtain ⟨n', hn', hb⟩ := h.gBusy (i, c) (mem_keysBy_of_mem gpuF _ e hmem _ hm)
          rw [hn] at hn'; simp at hn'; subst hn'
          rw [hg c hdown] at hb; simp at hb

theorem nodeAt_mem (ns : List NodeSt) (i : Nat) (n : NodeSt) (h : nodeAt ns i = some n) : n ∈ ns :=
  List.mem_of_find?_eq_some h

theorem tryAlloc_down (init : List NodeSt) (cfg : JCfg) (st : JState) (r : JReq) (h : JInv st) (hd : DownKept init st) :
    DownKept init (tryAlloc cfg st r).1 := by
  unfold tryAlloc
  split
  · exact fun i n0 hn0 => hd i n0 hn0
  · split <;> exact fun i n0 hn0 => hd i n0 hn0
  · split <;> exact fun i n0 hn0 => hd i n0 hn0
  · next sl off hne hs =>
    split
    · exact fun i n0 hn0 => hd i n0 hn0
    · next ns hns =>
      have good := schedule_good cfg st.nodes st.offset off r sl h.idx hs
      unfold DownKept
      intro i n0 hn0
      obtain ⟨n, hn, hc, hg⟩ := hd i n0 hn0
      have hi := nodeAt_index _ _ _ hn
      refine ⟨markAll true n sl, by show nodeAt ns i = _; rw [changeAll_nodeAt true st.nodes ns sl hns, hn]; rfl, ?_, ?_⟩
      · intro c hdown
        rw [markAll_cores, if_neg]
        · exact hc c hdown
        · intro ⟨hm, _⟩
          rw [hi, ← mem_coreKeys] at hm
          obtain ⟨n', hn', hi', hf⟩ := good.cFree (i, c) hm
          have := nodeAt_of_mem st.nodes n' h.idx hn'
          rw [hi'] at this
          simp only at this
          rw [hn] at this; simp at this; subst this
          rw [hc c hdown] at hf; simp at hf
      · intro c hdown
        rw [markAll_gpus, if_neg]
        · exact hg c hdown
        · intro ⟨hm, _⟩
          rw [hi, ← mem_gpuKeys] at hm
          obtain ⟨n', hn', hi', hf⟩ := good.gFree (i, c) hm
          have := nodeAt_of_mem st.nodes n' h.idx hn'
          rw [hi'] at this
          simp only at this
          rw [hn] at this; simp at this; subst this
          rw [hg c hdown] at hf; simp at hf

theorem jrun_down (init : List NodeSt) (cfg : JCfg) (st : JState) (ops : List JOp) (h : JInv st) (hd : DownKept init st) :
    DownKept init (jrun cfg st ops) := by
  induction ops generalizing st with
  | nil => exact hd
  | cons o os ih =>
    refine ih _ (jstep_inv cfg st o h) ?_
    cases o with
    | alloc r => exact tryAlloc_down init cfg st r h hd
    | rel u => exact release_down init st u h hd

theorem init_down (nodes : List NodeSt) : DownKept nodes { nodes := nodes } :=
  fun _ n0 hn0 => ⟨n0, hn0, fun _ h => h, fun _ h => h⟩

end RPVerif.JsrunSched
