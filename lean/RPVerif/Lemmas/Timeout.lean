import RPVerif.Model.Timeout
namespace RPVerif.Timeout

/-- a cancel time `ct` for task `u` that stems from a timeout the task asked for: a nonzero startup or
    execution timeout counted from `handle_timeout`, or a nonzero execution timeout counted from a
    reported startup -/
def Just (H : List (Nat × Ev)) (u ct : Nat) : Prop :=
  ∃ t0 v, v ≠ 0 ∧ ct = t0 + v ∧
    ((∃ st et, (t0, Ev.reg u st et) ∈ H ∧ v = (if st ≠ 0 then st else et)) ∨ ((t0, Ev.done u v) ∈ H))

structure Inv (H : List (Nat × Ev)) (w : TW) : Prop where
  pend : ∀ p ∈ w.pending, p.ct ≠ 0 → Just H p.uid p.ct
  tab  : ∀ e ∈ w.table, e.2 ≠ 0 → Just H e.1 e.2

theorem setKey_mem (t : List (Nat × Nat)) (u c : Nat) (e : Nat × Nat) (h : e ∈ setKey t u c) : e ∈ t ∨ e = (u, c) := by
  unfold setKey at h
  split at h
  · simp only [List.mem_map] at h
    obtain ⟨x, hx, rfl⟩ := h
    split
    · right; rfl
    · left; exact hx
  · rcases List.mem_append.mp h with h | h
    · left; exact h
    · right; simpa using h

theorem merge_mem (t : List (Nat × Nat)) (p : Pend) (e : Nat × Nat) (h : e ∈ merge t p) : e ∈ t ∨ e = (p.uid, p.ct) := by
  unfold merge at h
  split at h
  · exact setKey_mem t _ _ e h
  · left; exact h

theorem foldl_merge_mem (ps : List Pend) (t : List (Nat × Nat)) (e : Nat × Nat) (h : e ∈ ps.foldl merge t) :
    e ∈ t ∨ ∃ p ∈ ps, e = (p.uid, p.ct) := by
  induction ps generalizing t with
  | nil => left; exact h
  | cons p ps ih =>
    rcases ih (merge t p) h with h | ⟨q, hq, rfl⟩
    · rcases merge_mem t p e h with h | rfl
      · left; exact h
      · right; exact ⟨p, by simp, rfl⟩
    · right; exact ⟨q, by simp [hq], rfl⟩

theorem insertCt_mem (e x : Nat × Nat) (l : List (Nat × Nat)) (h : x ∈ insertCt e l) : x = e ∨ x ∈ l := by
  induction l with
  | nil => simp [insertCt] at h; left; exact h
  | cons y ys ih =>
    simp only [insertCt] at h
    split at h
    · rcases List.mem_cons.mp h with h | h
      · left; exact h
      · right; exact h
    · rcases List.mem_cons.mp h with h | h
      · right; simp [h]
      · rcases ih h with h | h
        · left; exact h
        · right; simp [h]

theorem sortCt_mem (l : List (Nat × Nat)) (x : Nat × Nat) (h : x ∈ sortCt l) : x ∈ l := by
  induction l with
  | nil => simp [sortCt] at h
  | cons y ys ih =>
    simp only [sortCt, List.foldr_cons] at h
    rcases insertCt_mem y x _ h with h | h
    · simp [h]
    · simp [ih h]

theorem mem_takeWhile {α : Type} (p : α → Bool) (l : List α) (x : α) (h : x ∈ l.takeWhile p) : p x = true ∧ x ∈ l := by
  induction l with
  | nil => simp at h
  | cons y ys ih =>
    simp only [List.takeWhile_cons] at h
    split at h
    · next hy =>
      rcases List.mem_cons.mp h with h | h
      · subst h; exact ⟨hy, by simp⟩
      · exact ⟨(ih h).1, by simp [(ih h).2]⟩
    · simp at h

/-- what one pass cancels: a task whose entry carries a nonzero cancel time that lies in the past -/
theorem pass_cancels (w : TW) (now u : Nat) (h : u ∈ (pass w now).2) :
    ∃ ct, ct ≠ 0 ∧ ct < now ∧ ((u, ct) ∈ w.table ∨ ∃ p ∈ w.pending, p.uid = u ∧ p.ct = ct) := by
  simp only [pass, List.mem_map, List.mem_filter] at h
  obtain ⟨e, ⟨he, hne⟩, rfl⟩ := h
  have hlt := (mem_takeWhile _ _ _ he).1
  have hm := sortCt_mem _ _ (mem_takeWhile _ _ _ he).2
  refine ⟨e.2, by simpa using hne, by simpa using hlt, ?_⟩
  rcases foldl_merge_mem _ _ _ hm with h | ⟨p, hp, hpe⟩
  · left; exact h
  · right; exact ⟨p, hp, by simp [hpe], by simp [hpe]⟩

theorem pass_inv (H : List (Nat × Ev)) (w : TW) (now : Nat) (h : Inv H w) : Inv H (pass w now).1 := by
  refine ⟨by simp [pass], ?_⟩
  intro e he hne
  simp only [pass, List.mem_filter] at he
  rcases foldl_merge_mem _ _ _ he.1 with h1 | ⟨p, hp, rfl⟩
  · exact h.tab e h1 hne
  · exact h.pend p hp hne

theorem step_inv (H : List (Nat × Ev)) (w : TW) (t : Nat) (e : Ev) (he : (t, e) ∈ H) (h : Inv H w) : Inv H (step w t e).1 := by
  cases e with
  | reg u st et =>
    simp only [step, handleTimeout]
    split
    · next hne =>
      refine ⟨?_, h.tab⟩
      intro p hp hct
      rcases List.mem_append.mp hp with hp | hp
      · exact h.pend p hp hct
      · have hp := List.mem_singleton.mp hp
        subst hp
        refine ⟨t, (if st ≠ 0 then st else et), ?_, rfl, Or.inl ⟨st, et, he, rfl⟩⟩
        split <;> omega
    · exact h
  | done u et =>
    simp only [step, startupDone]
    split
    · exact h
    · refine ⟨?_, h.tab⟩
      intro p hp hct
      rcases List.mem_append.mp hp with hp | hp
      · exact h.pend p hp hct
      · have hp := List.mem_singleton.mp hp
        subst hp
        by_cases h0 : et = 0
        · simp [h0] at hct
        · exact ⟨t, et, h0, by simp [h0]; omega, Or.inr he⟩
  | pass => exact pass_inv H w t h

/-- every cancellation by the watcher stems from a nonzero timeout the task asked for, and that
    timeout has run out -/
theorem run_justified (H : List (Nat × Ev)) (w : TW) (hist : List (Nat × Ev)) (hsub : ∀ x ∈ hist, x ∈ H) (h : Inv H w)
    (t u : Nat) (hc : (t, u) ∈ (run w hist).2) : ∃ ct, ct < t ∧ Just H u ct := by
  induction hist generalizing w with
  | nil => simp [run] at hc
  | cons x rest ih =>
    obtain ⟨t1, e⟩ := x
    simp only [run] at hc
    rcases List.mem_append.mp hc with hc | hc
    · simp only [List.mem_map, Prod.mk.injEq] at hc
      obtain ⟨u', hu', rfl, rfl⟩ := hc
      cases e with
      | reg a b c => simp [step] at hu'
      | done a b => simp [step] at hu'
      | pass =>
        obtain ⟨ct, h1, h2, h3⟩ := pass_cancels w t1 u' hu'
        refine ⟨ct, h2, ?_⟩
        rcases h3 with h3 | ⟨p, hp, rfl, rfl⟩
        · exact h.tab _ h3 h1
        · exact h.pend p hp h1
    · exact ih _ (fun y hy => hsub y (by simp [hy])) (step_inv H w t1 e (hsub _ (by simp)) h) hc

/-! ### a reported startup replaces the startup deadline -/

/-- all entries for `u` carry cancel time `c` -/
def AllFor (t : List (Nat × Nat)) (u c : Nat) : Prop := ∀ e ∈ t, e.1 = u → e.2 = c

theorem setKey_same (t : List (Nat × Nat)) (u c : Nat) : AllFor (setKey t u c) u c := by
  intro e he hu
  unfold setKey at he
  split at he
  · simp only [List.mem_map] at he
    obtain ⟨x, _, rfl⟩ := he
    split
    · rfl
    · next hx => split at hu <;> simp_all
  · next hnone =>
    rcases List.mem_append.mp he with he | he
    · exfalso; apply hnone
      simp only [List.any_eq_true, decide_eq_true_eq]
      exact ⟨e, he, hu⟩
    · simp at he; simp [he]

theorem setKey_other (t : List (Nat × Nat)) (u c u' c' : Nat) (hne : u' ≠ u) (h : AllFor t u c) :
    AllFor (setKey t u' c') u c := by
  intro e he hu
  rcases setKey_mem t u' c' e he with he | rfl
  · exact h e he hu
  · exact absurd hu hne

theorem merge_started (t : List (Nat × Nat)) (p : Pend) (hs : p.started = true) : AllFor (merge t p) p.uid p.ct := by
  unfold merge
  rw [if_pos (Or.inl hs)]
  exact setKey_same t _ _

theorem merge_other (t : List (Nat × Nat)) (p : Pend) (u c : Nat) (hne : p.uid ≠ u) (h : AllFor t u c) :
    AllFor (merge t p) u c := by
  unfold merge
  split
  · exact setKey_other t u c _ _ hne h
  · exact h

theorem foldl_merge_after (ys : List Pend) (t : List (Nat × Nat)) (u c : Nat) (hys : ∀ p ∈ ys, p.uid ≠ u)
    (h : AllFor t u c) : AllFor (ys.foldl merge t) u c := by
  induction ys generalizing t with
  | nil => exact h
  | cons p ps ih =>
    exact ih _ (fun q hq => hys q (by simp [hq])) (merge_other t p u c (hys p (by simp)) h)

theorem pass_cancels_entry (w : TW) (now u : Nat) (h : u ∈ (pass w now).2) :
    ∃ e ∈ w.pending.foldl merge w.table, e.1 = u ∧ e.2 ≠ 0 := by
  simp only [pass, List.mem_map, List.mem_filter] at h
  obtain ⟨e, ⟨he, hne⟩, rfl⟩ := h
  exact ⟨e, sortCt_mem _ _ (mem_takeWhile _ _ _ he).2, rfl, by simpa using hne⟩

/-- if the last entry handed to the watcher for `u` is a reported startup without an execution
    timeout, the next pass does not cancel `u`, whenever it runs -/
theorem pass_after_startup (w : TW) (xs ys : List Pend) (u now : Nat)
    (hp : w.pending = xs ++ [{ uid := u, ct := 0, started := true }] ++ ys) (hys : ∀ p ∈ ys, p.uid ≠ u) :
    u ∉ (pass w now).2 := by
  intro hc
  obtain ⟨e, he, hu, hne⟩ := pass_cancels_entry w now u hc
  rw [hp, List.foldl_append, List.foldl_append] at he
  have h1 : AllFor (List.foldl merge (List.foldl merge w.table xs) [{ uid := u, ct := 0, started := true }]) u 0 := by
    simp only [List.foldl_cons, List.foldl_nil]
    exact merge_started _ { uid := u, ct := 0, started := true } rfl
  exact hne (foldl_merge_after ys _ u 0 hys h1 e he hu)

/-- events which are neither a pass nor about task `u` -/
def Quiet (u : Nat) : Ev → Prop
  | .reg a _ _ => a ≠ u
  | .done a _  => a ≠ u
  | .pass      => False

theorem handleTimeout_pending (w : TW) (t a st et : Nat) :
    ∃ zs, (handleTimeout w t a st et).pending = w.pending ++ zs ∧ ∀ p ∈ zs, p.uid = a := by
  unfold handleTimeout
  split
  · exact ⟨[_], rfl, by simp⟩
  · exact ⟨[], by simp, by simp⟩

theorem startupDone_pending (w : TW) (t a et : Nat) :
    ∃ zs, (startupDone w t a et).pending = w.pending ++ zs ∧ ∀ p ∈ zs, p.uid = a := by
  unfold startupDone
  split
  · exact ⟨[], by simp, by simp⟩
  · exact ⟨[_], rfl, by simp⟩

theorem run_quiet (w : TW) (u : Nat) (evs : List (Nat × Ev)) (hq : ∀ x ∈ evs, Quiet u x.2) :
    ∃ ys, (run w evs).1.pending = w.pending ++ ys ∧ (∀ p ∈ ys, p.uid ≠ u) ∧ (run w evs).2 = [] := by
  induction evs generalizing w with
  | nil => exact ⟨[], by simp [run], by simp, rfl⟩
  | cons x rest ih =>
    obtain ⟨t, e⟩ := x
    have hqe := hq (t, e) (by simp)
    have hrest : ∀ y ∈ rest, Quiet u y.2 := fun y hy => hq y (by simp [hy])
    cases e with
    | pass => exact absurd hqe (by simp [Quiet])
    | reg a st et =>
      simp only [Quiet] at hqe
      simp only [run, step, List.map_nil, List.nil_append]
      obtain ⟨ys, h1, h2, h3⟩ := ih (handleTimeout w t a st et) hrest
      obtain ⟨zs, z1, z2⟩ := handleTimeout_pending w t a st et
      refine ⟨zs ++ ys, by rw [h1, z1, List.append_assoc], ?_, h3⟩
      intro p hp
      rcases List.mem_append.mp hp with hp | hp
      · rw [z2 p hp]; exact hqe
      · exact h2 p hp
    | done a et =>
      simp only [Quiet] at hqe
      simp only [run, step, List.map_nil, List.nil_append]
      obtain ⟨ys, h1, h2, h3⟩ := ih (startupDone w t a et) hrest
      obtain ⟨zs, z1, z2⟩ := startupDone_pending w t a et
      refine ⟨zs ++ ys, by rw [h1, z1, List.append_assoc], ?_, h3⟩
      intro p hp
      rcases List.mem_append.mp hp with hp | hp
      · rw [z2 p hp]; exact hqe
      · exact h2 p hp

end RPVerif.Timeout

namespace RPVerif.Timeout

/-! ### an expired deadline is enforced at the next pass -/

theorem insertCt_mem' (e x : Nat × Nat) (l : List (Nat × Nat)) : x ∈ insertCt e l ↔ x = e ∨ x ∈ l := by
  induction l with
  | nil => simp [insertCt]
  | cons y ys ih =>
    simp only [insertCt]
    split
    · simp
    · simp only [List.mem_cons, ih]
      constructor
      · rintro (h | h | h)
        · right; left; exact h
        · left; exact h
        · right; right; exact h
      · rintro (h | h | h)
        · right; left; exact h
        · left; exact h
        · right; right; exact h

theorem sortCt_mem' (l : List (Nat × Nat)) (x : Nat × Nat) : x ∈ sortCt l ↔ x ∈ l := by
  induction l with
  | nil => simp [sortCt]
  | cons y ys ih =>
    have : sortCt (y :: ys) = insertCt y (sortCt ys) := rfl
    rw [this, insertCt_mem', ih]; simp

def SortedCt (l : List (Nat × Nat)) : Prop := l.Pairwise (fun a b => a.2 ≤ b.2)

theorem insertCt_sorted (e : Nat × Nat) (l : List (Nat × Nat)) (h : SortedCt l) : SortedCt (insertCt e l) := by
  induction l with
  | nil => simp [insertCt, SortedCt]
  | cons y ys ih =>
    simp only [insertCt]
    have hy := List.pairwise_cons.mp h
    split
    · next hle =>
      refine List.pairwise_cons.mpr ⟨?_, h⟩
      intro b hb
      rcases List.mem_cons.mp hb with rfl | hb
      · exact hle
      · exact Nat.le_trans hle (hy.1 b hb)
    · next hgt =>
      refine List.pairwise_cons.mpr ⟨?_, ih hy.2⟩
      intro b hb
      rcases (insertCt_mem' e b ys).mp hb with rfl | hb
      · omega
      · exact hy.1 b hb

theorem sortCt_sorted (l : List (Nat × Nat)) : SortedCt (sortCt l) := by
  induction l with
  | nil => simp [sortCt, SortedCt]
  | cons y ys ih => exact insertCt_sorted y _ ih

theorem takeWhile_sorted (l : List (Nat × Nat)) (now : Nat) (h : SortedCt l) (x : Nat × Nat) (hx : x ∈ l) (hlt : x.2 < now) :
    x ∈ l.takeWhile (fun e => decide (e.2 < now)) := by
  induction l with
  | nil => simp at hx
  | cons y ys ih =>
    have hy := List.pairwise_cons.mp h
    rcases List.mem_cons.mp hx with rfl | hx
    · simp [List.takeWhile_cons, hlt]
    · have : y.2 < now := Nat.lt_of_le_of_lt (hy.1 x hx) hlt
      simp only [List.takeWhile_cons, this, decide_true, if_true]
      exact List.mem_cons_of_mem _ (ih hy.2 hx)

/-- whatever entry the watcher holds after taking in what was handed to it: if its cancel time is a real
    deadline (nonzero) and lies in the past, this pass cancels the task -/
theorem pass_enforces (w : TW) (now u ct : Nat) (hm : (u, ct) ∈ w.pending.foldl merge w.table)
    (h0 : ct ≠ 0) (hlt : ct < now) : u ∈ (pass w now).2 := by
  simp only [pass, List.mem_map, List.mem_filter]
  refine ⟨(u, ct), ⟨?_, by simpa using h0⟩, rfl⟩
  exact takeWhile_sorted _ now (sortCt_sorted _) (u, ct) ((sortCt_mem' _ _).mpr hm) hlt

/-- a task with a startup timeout whose startup is never reported is cancelled at the first pass after
    the deadline (single task, nothing else registered) -/
theorem startup_timeout_enforced (t st et now : Nat) (hst : st ≠ 0) (hlt : t + st < now) :
    (pass (handleTimeout {} t 0 st et) now).2 = [0] := by
  have : (handleTimeout {} t 0 st et) = { pending := [{ uid := 0, ct := t + st, started := false }] } := by
    simp [handleTimeout, hst]
  rw [this]
  have hne : t + st ≠ 0 := by omega
  simp [pass, merge, setKey, sortCt, insertCt, hlt]
  exact ⟨t + st, by simp; intro _; exact hst⟩

end RPVerif.Timeout
