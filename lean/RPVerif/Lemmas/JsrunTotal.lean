import RPVerif.Lemmas.JsrunSched
namespace RPVerif.JsrunSched
open RPVerif.Sched (Occ NodeSt Err)

/-! ### `_find_resources` never runs off the node -/

theorem countFree_cons (o : Occ) (os : List Occ) : countFree (o :: os) = (if o = .free then 1 else 0) + countFree os := by
  unfold countFree
  by_cases h : o = .free
  · simp [h]; omega
  · simp [h]

theorem takeFree_total (l : List Occ) (idx need : Nat) (h : need ≤ countFree l) :
    ∃ r e, takeFree l idx need = some (r, e) ∧ idx ≤ e ∧ e ≤ idx + l.length ∧
      countFree (l.drop (e - idx)) = countFree l - need := by
  induction l generalizing idx need with
  | nil =>
    cases need with
    | zero => exact ⟨[], idx, by simp [takeFree], Nat.le_refl _, by simp, by simp⟩
    | succ k => simp [countFree] at h
  | cons o os ih =>
    cases need with
    | zero => exact ⟨[], idx, by simp [takeFree], Nat.le_refl _, by simp, by simp⟩
    | succ k =>
      rw [countFree_cons] at h
      simp only [takeFree]
      by_cases ho : o = .free
      · simp only [ho, if_true] at h ⊢
        obtain ⟨r, e, h1, h2, h3, h4⟩ := ih (idx + 1) k (by omega)
        refine ⟨idx :: r, e, by simp [h1], by omega, by simp; omega, ?_⟩
        have : e - idx = (e - (idx + 1)) + 1 := by omega
        rw [this, List.drop_succ_cons, h4, countFree_cons]
        simp only [if_true]; omega
      · simp only [ho, if_false, Nat.zero_add] at h ⊢
        obtain ⟨r, e, h1, h2, h3, h4⟩ := ih (idx + 1) (k + 1) h
        refine ⟨r, e, h1, by omega, by simp; omega, ?_⟩
        have : e - idx = (e - (idx + 1)) + 1 := by omega
        rw [this, List.drop_succ_cons, h4, countFree_cons]
        simp [ho]

theorem digOut_total (n : NodeSt) (rps cps gps lfs mem : Nat) (k ci gi : Nat)
    (hc : k * cps ≤ countFree (n.cores.drop ci)) (hg : k * gps ≤ countFree (n.gpus.drop gi)) :
    ∃ sl, digOut n rps cps gps lfs mem k ci gi = some sl := by
  induction k generalizing ci gi with
  | zero => exact ⟨[], rfl⟩
  | succ k ih =>
    simp only [digOut]
    have hc1 : cps ≤ countFree (n.cores.drop ci) := by rw [Nat.add_mul] at hc; omega
    have hg1 : gps ≤ countFree (n.gpus.drop gi) := by rw [Nat.add_mul] at hg; omega
    obtain ⟨cs, ci', e1, e2, e3, e4⟩ := takeFree_total (n.cores.drop ci) ci cps hc1
    obtain ⟨gs, gi', f1, f2, f3, f4⟩ := takeFree_total (n.gpus.drop gi) gi gps hg1
    rw [e1, f1]
    simp only
    have hcd : n.cores.drop ci' = (n.cores.drop ci).drop (ci' - ci) := by
      rw [List.drop_drop]; congr 1; omega
    have hgd : n.gpus.drop gi' = (n.gpus.drop gi).drop (gi' - gi) := by
      rw [List.drop_drop]; congr 1; omega
    obtain ⟨rest, hr⟩ := ih ci' gi' (by rw [hcd, e4]; rw [Nat.add_mul] at hc; omega) (by rw [hgd, f4]; rw [Nat.add_mul] at hg; omega)
    rw [hr]
    exact ⟨_, rfl⟩

theorem servable_cores (n : NodeSt) (cps gps lfs mem : Nat) (h : cps ≠ 0) :
    servable n cps gps lfs mem * cps ≤ countFree n.cores := by
  have hd := Nat.div_mul_le_self (countFree n.cores) cps
  have : servable n cps gps lfs mem ≤ countFree n.cores / cps := by
    simp only [servable, h, ne_eq, not_false_eq_true, if_true]
    repeat' split
    all_goals omega
  exact Nat.le_trans (Nat.mul_le_mul_right _ this) hd

theorem servable_gpus (n : NodeSt) (cps gps lfs mem : Nat) (h : gps ≠ 0) :
    servable n cps gps lfs mem * gps ≤ countFree n.gpus := by
  have hd := Nat.div_mul_le_self (countFree n.gpus) gps
  have : servable n cps gps lfs mem ≤ countFree n.gpus / gps := by
    simp only [servable, h, ne_eq, not_false_eq_true, if_true]
    repeat' split
    all_goals omega
  exact Nat.le_trans (Nat.mul_le_mul_right _ this) hd

/-- `_find_resources` never raises (the loops that pick free cores and GPUs do not run off the node):
    the number of sets it digs out was bounded by what the node has free -/
theorem findJ_total (n : NodeSt) (nSlots rps cps gps lfs mem : Nat) (part : Bool) :
    ∃ r, findJ n nSlots rps cps gps lfs mem part = .ok r := by
  simp only [findJ]
  split
  · exact ⟨_, rfl⟩
  · split
    · exact ⟨_, rfl⟩
    · have hk : min (servable n cps gps lfs mem) nSlots ≤ servable n cps gps lfs mem := Nat.min_le_left _ _
      have hc : min (servable n cps gps lfs mem) nSlots * cps ≤ countFree (n.cores.drop 0) := by
        by_cases h0 : cps = 0
        · simp [h0]
        · exact Nat.le_trans (Nat.mul_le_mul_right _ hk) (by simpa using servable_cores n cps gps lfs mem h0)
      have hg : min (servable n cps gps lfs mem) nSlots * gps ≤ countFree (n.gpus.drop 0) := by
        by_cases h0 : gps = 0
        · simp [h0]
        · exact Nat.le_trans (Nat.mul_le_mul_right _ hk) (by simpa using servable_gpus n cps gps lfs mem h0)
      obtain ⟨sl, hs⟩ := digOut_total n rps cps gps lfs mem _ 0 0 hc hg
      rw [hs]
      exact ⟨_, rfl⟩

end RPVerif.JsrunSched
