import RPVerif.Model.Exec

namespace RPVerif.Exec
open List

def CPc.owner : CPc → Bool
  | .c3 | .c4 | .c5 => true
  | _ => false

def b2n : Bool → Nat
  | true  => 1
  | false => 0

def ownersI (s : ES) : Nat := match s.intake with | .iCancel c => b2n c.owner | _ => 0
def ownersW (s : ES) : Nat := match s.watcher with | .w4 _ => 1 | _ => 0
def ownersC (s : ES) : Nat := s.cancels.countP CPc.owner

/-- threads that have removed the uid from `_tasks` and not yet handed the task on -/
def owners (s : ES) : Nat := ownersI s + ownersW s + ownersC s

/-- the ownership token: in `_tasks`, or with exactly one finishing thread, or handed on -/
def tok (s : ES) : Nat := b2n s.inTasks + owners s + s.handed

/-- no process exists and no finishing path has been entered -/
def NoProc (s : ES) : Prop :=
  s.proc = .none ∧ s.procKey = false ∧ s.watching = false ∧ s.armed = false ∧ s.handed = 0
  ∧ s.watcher = .wIdle ∧ (∀ c ∈ s.cancels, c = .c0 ∨ c = .cDone)

def preSpawn (s : ES) : Prop := s.intake = .i0 ∨ s.intake = .i1 ∨ s.intake = .iFault

structure Inv (s : ES) : Prop where
  at_i0      : s.intake = .i0 → s.started = 0 ∧ s.inTasks = false ∧ s.failed = 0 ∧ s.unsched = 0 ∧ s.cancels = []
  post_i0    : s.intake ≠ .i0 → s.started = 1 ∧ tok s = 1
  failed_le  : s.failed ≤ 1
  failed_dn  : s.failed = 1 → s.intake = .iDone
  noproc     : (preSpawn s ∨ s.failed = 1) → NoProc s
  fault_in   : (s.intake = .i1 ∨ s.intake = .iFault ∨ s.failed = 1) → s.inTasks = true
  unsched_eq : s.unsched = s.handed + s.failed

theorem countP_set (l : List CPc) (i : Nat) (c c' : CPc) (h : l[i]? = some c) :
    (l.set i c').countP CPc.owner + b2n c.owner = l.countP CPc.owner + b2n c'.owner := by
  induction l generalizing i with
  | nil => simp at h
  | cons x xs ih =>
    cases i with
    | zero =>
      simp only [getElem?_cons_zero, Option.some.injEq] at h
      subst h
      simp only [set_cons_zero, countP_cons, b2n]
      cases x.owner <;> cases c'.owner <;> simp <;> omega
    | succ j =>
      simp only [getElem?_cons_succ] at h
      have := ih j h
      simp only [set_cons_succ, countP_cons]
      omega

theorem owners_early (l : List CPc) (h : ∀ c ∈ l, c = .c0 ∨ c = .cDone) : l.countP CPc.owner = 0 := by
  apply countP_eq_zero.mpr
  intro c hc
  rcases h c hc with rfl | rfl <;> simp [CPc.owner]

/-- effect of one `cancel_task` step on the token -/
theorem cancel_token (s : ES) (c : CPc) (hc : c.owner = true → s.inTasks = false) :
    b2n (cancelSt s c).inTasks + b2n (cancelPc s c).owner + (cancelSt s c).handed
      = b2n s.inTasks + b2n c.owner + s.handed := by
  cases c with
  | c0 =>
    show b2n s.inTasks + b2n (if s.procKey then CPc.c1 else CPc.cDone).owner + s.handed = _
    cases s.procKey <;> rfl
  | c1 =>
    show b2n s.inTasks + b2n (if s.proc.isExited then CPc.cDone else CPc.c2).owner + s.handed = _
    cases s.proc.isExited <;> rfl
  | c2 =>
    show b2n (if s.inTasks then { s with inTasks := false } else s).inTasks
          + b2n (if s.inTasks then CPc.c3 else CPc.cDone).owner
          + (if s.inTasks then { s with inTasks := false } else s).handed = _
    cases h : s.inTasks <;> simp [h, b2n, CPc.owner]
  | c3 =>
    have := hc rfl
    show b2n s.inTasks + b2n CPc.c4.owner + s.handed = _
    rfl
  | c4 =>
    show b2n s.inTasks + b2n CPc.c5.owner + s.handed = _
    rfl
  | c5 =>
    have h := hc rfl
    show b2n s.inTasks + b2n CPc.cDone.owner + (s.handed + 1) = b2n s.inTasks + b2n CPc.c5.owner + s.handed
    simp [b2n, CPc.owner]; omega
  | cDone => rfl

theorem cancel_frame (s : ES) (c : CPc) :
    (cancelSt s c).intake = s.intake ∧ (cancelSt s c).watcher = s.watcher
    ∧ (cancelSt s c).cancels = s.cancels ∧ (cancelSt s c).started = s.started
    ∧ (cancelSt s c).failed = s.failed ∧ (cancelSt s c).watching = s.watching
    ∧ (cancelSt s c).armed = s.armed ∧ (cancelSt s c).mark = s.mark
    ∧ (cancelSt s c).unsched + s.handed = s.unsched + (cancelSt s c).handed := by
  cases c <;> simp [cancelSt]
  · cases s.inTasks <;> simp
  · omega


theorem inv_init : Inv {} := by
  refine ⟨fun _ => ⟨rfl, rfl, rfl, rfl, rfl⟩, fun h => absurd rfl h, by decide, ?_, ?_, ?_, rfl⟩
  · intro h; exact absurd h (by decide)
  · intro _; exact ⟨rfl, rfl, rfl, rfl, rfl, rfl, fun c hc => absurd hc (List.not_mem_nil)⟩
  · intro h; rcases h with h | h | h
    · exact absurd h (by decide)
    · exact absurd h (by decide)
    · exact absurd h (by decide)

/-- frame: a step that only touches `proc` -/
theorem inv_exit (s : ES) (code : Nat) (h : Inv s) : Inv (step s (.exit code)) := by
  unfold step
  cases hp : s.proc with
  | none => simpa [hp] using h
  | exited c => simpa [hp] using h
  | running =>
    simp only
    have hnp : ¬ (preSpawn s ∨ s.failed = 1) := by
      intro hx; have := (h.noproc hx).1; rw [hp] at this; cases this
    refine ⟨h.at_i0, ?_, h.failed_le, h.failed_dn, ?_, h.fault_in, h.unsched_eq⟩
    · intro hi; exact h.post_i0 hi
    · intro hx; exact absurd hx hnp

theorem inv_cancelReq (s : ES) (h : Inv s) : Inv (step s .cancelReq) := by
  unfold step
  by_cases hin : s.inTasks = true
  · rw [if_pos hin]
    have hi0 : s.intake ≠ .i0 := by
      intro e; have := (h.at_i0 e).2.1; rw [this] at hin; cases hin
    refine ⟨fun e => absurd e hi0, ?_, h.failed_le, h.failed_dn, ?_, h.fault_in, h.unsched_eq⟩
    · intro _
      have ⟨a, b⟩ := h.post_i0 hi0
      refine ⟨a, ?_⟩
      simp only [tok, owners, ownersI, ownersW, ownersC, countP_append, countP_cons, countP_nil, CPc.owner] at b ⊢
      simpa using b
    · intro hx
      obtain ⟨n1, n2, n3, n4, n5, n6, n7⟩ := h.noproc hx
      refine ⟨n1, n2, n3, n4, n5, n6, ?_⟩
      intro c hc
      rcases mem_append.mp hc with hc | hc
      · exact n7 c hc
      · simp only [mem_singleton] at hc; exact Or.inl hc
  · rw [if_neg hin]
    exact ⟨h.at_i0, h.post_i0, h.failed_le, h.failed_dn, h.noproc, h.fault_in, h.unsched_eq⟩

theorem inv_timeout (s : ES) (h : Inv s) : Inv (step s .timeout) := by
  unfold step
  by_cases ha : s.armed = true
  · rw [if_pos ha]
    have hnp : ¬ (preSpawn s ∨ s.failed = 1) := by
      intro hx; have := (h.noproc hx).2.2.2.1; rw [this] at ha; cases ha
    have hi0 : s.intake ≠ .i0 := fun e => hnp (Or.inl (Or.inl e))
    refine ⟨fun e => absurd e hi0, ?_, h.failed_le, h.failed_dn, fun hx => absurd hx hnp, h.fault_in, h.unsched_eq⟩
    intro _
    have ⟨a, b⟩ := h.post_i0 hi0
    refine ⟨a, ?_⟩
    simp only [tok, owners, ownersI, ownersW, ownersC, countP_append, countP_cons, countP_nil, CPc.owner] at b ⊢
    simpa using b
  · rw [if_neg ha]; exact h


theorem owner_not_inTasks {s : ES} (h : Inv s) (hi : s.intake ≠ .i0) (ho : 1 ≤ owners s) : s.inTasks = false := by
  have ⟨_, b⟩ := h.post_i0 hi
  unfold tok at b
  cases hin : s.inTasks
  · rfl
  · rw [hin] at b; simp [b2n] at b; omega

theorem countP_pos_of_mem (l : List CPc) (i : Nat) (c : CPc) (h : l[i]? = some c) (ho : c.owner = true) :
    1 ≤ l.countP CPc.owner := by
  have hm : c ∈ l := mem_of_getElem? h
  exact countP_pos_iff.mpr ⟨c, hm, ho⟩

theorem inv_cancel (s : ES) (i : Nat) (h : Inv s) : Inv (step s (.cancel i)) := by
  simp only [step]
  split
  · exact h
  · rename_i c hc
    obtain ⟨f1, f2, f3, f4, f5, f6, f7, f8, f9⟩ := cancel_frame s c
    have hi0 : s.intake ≠ .i0 := by
      intro e; have := (h.at_i0 e).2.2.2.2; rw [this] at hc; simp at hc
    have hown : c.owner = true → s.inTasks = false := by
      intro ho
      apply owner_not_inTasks h hi0
      have := countP_pos_of_mem s.cancels i c hc ho
      simp only [owners, ownersC]; omega
    have htok := cancel_token s c hown
    have hset := countP_set s.cancels i c (cancelPc s c) hc
    refine ⟨?_, ?_, ?_, ?_, ?_, ?_, ?_⟩
    · intro e; simp only [f1] at e; exact absurd e hi0
    · intro _
      have ⟨a, b⟩ := h.post_i0 hi0
      refine ⟨(by simp only [f4]; exact a), ?_⟩
      simp only [tok, owners, ownersI, ownersW, ownersC, setAt, f1, f2] at b ⊢
      omega
    · simp only [f5]; exact h.failed_le
    · intro e; simp only [f5] at e; simp only [f1]; exact h.failed_dn e
    · intro hx
      have hx' : preSpawn s ∨ s.failed = 1 := by
        simpa only [preSpawn, f1, f5] using hx
      obtain ⟨n1, n2, n3, n4, n5, n6, n7⟩ := h.noproc hx'
      -- the invocation is at c0 (returns: no process) or already done
      have hce : c = .c0 ∨ c = .cDone := n7 c (mem_of_getElem? hc)
      have hst : cancelSt s c = s := by rcases hce with rfl | rfl <;> rfl
      have hpc : cancelPc s c = .cDone := by
        rcases hce with rfl | rfl
        · simp [cancelPc, n2]
        · rfl
      rw [hst, hpc]
      refine ⟨n1, n2, n3, n4, n5, n6, ?_⟩
      intro x hx2
      rcases mem_or_eq_of_mem_set hx2 with hm | he
      · exact n7 x hm
      · exact Or.inr he
    · intro hx
      have hx' : s.intake = .i1 ∨ s.intake = .iFault ∨ s.failed = 1 := by
        simpa only [f1, f5] using hx
      have hin := h.fault_in hx'
      have hps : preSpawn s ∨ s.failed = 1 := by
        rcases hx' with e | e | e
        · exact Or.inl (Or.inr (Or.inl e))
        · exact Or.inl (Or.inr (Or.inr e))
        · exact Or.inr e
      obtain ⟨_, _, _, _, _, _, n7⟩ := h.noproc hps
      have hce : c = .c0 ∨ c = .cDone := n7 c (mem_of_getElem? hc)
      have hst : cancelSt s c = s := by rcases hce with rfl | rfl <;> rfl
      rw [hst]; exact hin
    · have := h.unsched_eq
      simp only [f5]
      omega


theorem inv_watcher (s : ES) (h : Inv s) : Inv (step s .watcher) := by
  simp only [step]
  cases hw : s.watcher with
  | wIdle =>
    simp only
    by_cases hwt : s.watching = true
    · rw [if_pos hwt]
      have hnp : ¬ (preSpawn s ∨ s.failed = 1) := by
        intro hx; have := (h.noproc hx).2.2.1; rw [this] at hwt; cases hwt
      refine ⟨h.at_i0, ?_, h.failed_le, h.failed_dn, fun hx => absurd hx hnp, h.fault_in, h.unsched_eq⟩
      intro hi
      have ⟨a, b⟩ := h.post_i0 hi
      refine ⟨a, ?_⟩
      simp only [tok, owners, ownersI, ownersW, ownersC, hw] at b ⊢
      exact b
    · rw [if_neg hwt]; exact h
  | w0 =>
    simp only
    have hnp : ¬ (preSpawn s ∨ s.failed = 1) := by
      intro hx; have := (h.noproc hx).2.2.2.2.2.1; rw [hw] at this; cases this
    by_cases hk : s.procKey = true
    · rw [if_pos hk]
      refine ⟨h.at_i0, ?_, h.failed_le, h.failed_dn, fun hx => absurd hx hnp, h.fault_in, h.unsched_eq⟩
      intro hi
      have ⟨a, b⟩ := h.post_i0 hi
      refine ⟨a, ?_⟩
      simp only [tok, owners, ownersI, ownersW, ownersC, hw] at b ⊢
      exact b
    · rw [if_neg hk]
      refine ⟨h.at_i0, ?_, h.failed_le, h.failed_dn, fun hx => absurd hx hnp, h.fault_in, h.unsched_eq⟩
      intro hi
      have ⟨a, b⟩ := h.post_i0 hi
      refine ⟨a, ?_⟩
      simp only [tok, owners, ownersI, ownersW, ownersC, hw] at b ⊢
      exact b
  | w1 =>
    simp only
    have hnp : ¬ (preSpawn s ∨ s.failed = 1) := by
      intro hx; have := (h.noproc hx).2.2.2.2.2.1; rw [hw] at this; cases this
    cases hp : s.proc <;> simp only
    all_goals
      refine ⟨h.at_i0, ?_, h.failed_le, h.failed_dn, fun hx => absurd hx hnp, h.fault_in, h.unsched_eq⟩
      intro hi
      have ⟨a, b⟩ := h.post_i0 hi
      refine ⟨a, ?_⟩
      simp only [tok, owners, ownersI, ownersW, ownersC, hw] at b ⊢
      exact b
  | w2b c =>
    simp only
    have hnp : ¬ (preSpawn s ∨ s.failed = 1) := by
      intro hx; have := (h.noproc hx).2.2.2.2.2.1; rw [hw] at this; cases this
    refine ⟨h.at_i0, ?_, h.failed_le, h.failed_dn, fun hx => absurd hx hnp, h.fault_in, h.unsched_eq⟩
    intro hi
    have ⟨a, b⟩ := h.post_i0 hi
    refine ⟨a, ?_⟩
    simp only [tok, owners, ownersI, ownersW, ownersC, hw] at b ⊢
    exact b
  | w3 c =>
    simp only
    have hnp : ¬ (preSpawn s ∨ s.failed = 1) := by
      intro hx; have := (h.noproc hx).2.2.2.2.2.1; rw [hw] at this; cases this
    have hi0 : s.intake ≠ .i0 := fun e => hnp (Or.inl (Or.inl e))
    have hfi : ¬ (s.intake = .i1 ∨ s.intake = .iFault ∨ s.failed = 1) := by
      intro hx
      rcases hx with e | e | e
      · exact hnp (Or.inl (Or.inr (Or.inl e)))
      · exact hnp (Or.inl (Or.inr (Or.inr e)))
      · exact hnp (Or.inr e)
    by_cases hin : s.inTasks = true
    · rw [if_pos hin]
      refine ⟨fun e => absurd e hi0, ?_, h.failed_le, h.failed_dn, fun hx => absurd hx hnp, fun hx => absurd hx hfi, h.unsched_eq⟩
      intro _
      have ⟨a, b⟩ := h.post_i0 hi0
      refine ⟨a, ?_⟩
      simp only [tok, owners, ownersI, ownersW, ownersC, hw, hin, b2n] at b ⊢
      omega
    · rw [if_neg hin]
      refine ⟨h.at_i0, ?_, h.failed_le, h.failed_dn, fun hx => absurd hx hnp, h.fault_in, h.unsched_eq⟩
      intro hi
      have ⟨a, b⟩ := h.post_i0 hi
      refine ⟨a, ?_⟩
      simp only [tok, owners, ownersI, ownersW, ownersC, hw] at b ⊢
      exact b
  | w4 c =>
    simp only
    have hnp : ¬ (preSpawn s ∨ s.failed = 1) := by
      intro hx; have := (h.noproc hx).2.2.2.2.2.1; rw [hw] at this; cases this
    have hi0 : s.intake ≠ .i0 := fun e => hnp (Or.inl (Or.inl e))
    refine ⟨fun e => absurd e hi0, ?_, h.failed_le, h.failed_dn, fun hx => absurd hx hnp, h.fault_in, ?_⟩
    · intro _
      have ⟨a, b⟩ := h.post_i0 hi0
      refine ⟨a, ?_⟩
      simp only [tok, owners, ownersI, ownersW, ownersC, hw] at b ⊢
      omega
    · have := h.unsched_eq
      simp only; omega


theorem inv_intakeFault (s : ES) (h : Inv s) : Inv (step s .intakeFault) := by
  simp only [step]
  cases hi : s.intake <;> simp only <;> try exact h
  -- i1 -> iFault
  have hnp := h.noproc (Or.inl (Or.inr (Or.inl hi)))
  have hin := h.fault_in (Or.inl hi)
  have hf0 : s.failed ≠ 1 := fun e => by have := h.failed_dn e; rw [hi] at this; cases this
  refine ⟨(fun e => by cases e), ?_, h.failed_le, fun e => absurd e hf0, ?_, fun _ => hin, h.unsched_eq⟩
  · intro _
    have ⟨a, b⟩ := h.post_i0 (by rw [hi]; exact fun e => by cases e)
    refine ⟨a, ?_⟩
    simp only [tok, owners, ownersI, ownersW, ownersC, hi] at b ⊢
    exact b
  · intro _; exact hnp

theorem inv_intake (s : ES) (h : Inv s) : Inv (step s .intake) := by
  simp only [step]
  cases hi : s.intake with
  | i0 =>
    simp only
    obtain ⟨a1, a2, a3, a4, a5⟩ := h.at_i0 hi
    obtain ⟨n1, n2, n3, n4, n5, n6, n7⟩ := h.noproc (Or.inl (Or.inl hi))
    refine ⟨(fun e => by cases e), ?_, h.failed_le, ?_, ?_, fun _ => rfl, h.unsched_eq⟩
    · intro _
      refine ⟨(by simp [a1]), ?_⟩
      simp only [tok, owners, ownersI, ownersW, ownersC, n6, a5, n5, b2n]
      rfl
    · intro e; rw [a3] at e; cases e
    · intro _; exact ⟨n1, n2, n3, n4, n5, n6, n7⟩
  | i1 =>
    simp only
    have hf0 : s.failed ≠ 1 := fun e => by have := h.failed_dn e; rw [hi] at this; cases this
    refine ⟨(fun e => by cases e), ?_, h.failed_le, fun e => absurd e hf0, ?_, ?_, h.unsched_eq⟩
    · intro _
      have ⟨a, b⟩ := h.post_i0 (by rw [hi]; exact fun e => by cases e)
      refine ⟨a, ?_⟩
      simp only [tok, owners, ownersI, ownersW, ownersC, hi] at b ⊢
      exact b
    · intro hx
      rcases hx with hx | hx
      · rcases hx with e | e | e <;> cases e
      · exact absurd hx hf0
    · intro hx
      rcases hx with e | e | e
      · cases e
      · cases e
      · exact absurd e hf0
  | i2 =>
    simp only
    have hf0 : s.failed ≠ 1 := fun e => by have := h.failed_dn e; rw [hi] at this; cases this
    refine ⟨(fun e => by cases e), ?_, h.failed_le, fun e => absurd e hf0, ?_, ?_, h.unsched_eq⟩
    · intro _
      have ⟨a, b⟩ := h.post_i0 (by rw [hi]; exact fun e => by cases e)
      refine ⟨a, ?_⟩
      simp only [tok, owners, ownersI, ownersW, ownersC, hi] at b ⊢
      exact b
    · intro hx
      rcases hx with hx | hx
      · rcases hx with e | e | e <;> cases e
      · exact absurd hx hf0
    · intro hx
      rcases hx with e | e | e
      · cases e
      · cases e
      · exact absurd e hf0
  | i3 =>
    simp only
    have hf0 : s.failed ≠ 1 := fun e => by have := h.failed_dn e; rw [hi] at this; cases this
    by_cases hm : s.mark = true
    · rw [if_pos hm]
      refine ⟨(fun e => by cases e), ?_, h.failed_le, fun e => absurd e hf0, ?_, ?_, h.unsched_eq⟩
      · intro _
        have ⟨a, b⟩ := h.post_i0 (by rw [hi]; exact fun e => by cases e)
        refine ⟨a, ?_⟩
        simp only [tok, owners, ownersI, ownersW, ownersC, hi, CPc.owner, b2n] at b ⊢
        exact b
      · intro hx
        rcases hx with hx | hx
        · rcases hx with e | e | e <;> cases e
        · exact absurd hx hf0
      · intro hx
        rcases hx with e | e | e
        · cases e
        · cases e
        · exact absurd e hf0
    · rw [if_neg hm]
      refine ⟨(fun e => by cases e), ?_, h.failed_le, fun _ => rfl, ?_, ?_, h.unsched_eq⟩
      · intro _
        have ⟨a, b⟩ := h.post_i0 (by rw [hi]; exact fun e => by cases e)
        refine ⟨a, ?_⟩
        simp only [tok, owners, ownersI, ownersW, ownersC, hi] at b ⊢
        exact b
      · intro hx
        rcases hx with hx | hx
        · rcases hx with e | e | e <;> cases e
        · exact absurd hx hf0
      · intro hx
        rcases hx with e | e | e
        · cases e
        · cases e
        · exact absurd e hf0
  | iCancel c =>
    simp only
    have hf0 : s.failed ≠ 1 := fun e => by have := h.failed_dn e; rw [hi] at this; cases this
    have hi0 : s.intake ≠ .i0 := by rw [hi]; exact fun e => by cases e
    obtain ⟨f1, f2, f3, f4, f5, f6, f7, f8, f9⟩ := cancel_frame s c
    have hown : c.owner = true → s.inTasks = false := by
      intro ho
      apply owner_not_inTasks h hi0
      simp only [owners, ownersI, hi, ho, b2n]; omega
    have htok := cancel_token s c hown
    have ⟨a, b⟩ := h.post_i0 hi0
    have hueq := h.unsched_eq
    by_cases hd : cancelPc s c = .cDone
    · rw [if_pos hd]
      rw [hd] at htok
      refine ⟨(fun e => by cases e), ?_, ?_, fun _ => rfl, ?_, ?_, ?_⟩
      · intro _
        refine ⟨(by simp only [f4]; exact a), ?_⟩
        simp only [tok, owners, ownersI, ownersW, ownersC, hi, f2, f3, CPc.owner, b2n] at b htok ⊢
        omega
      · simp only [f5]; exact h.failed_le
      · intro hx
        rcases hx with hx | hx
        · rcases hx with e | e | e <;> cases e
        · simp only [f5] at hx; exact absurd hx hf0
      · intro hx
        rcases hx with e | e | e
        · cases e
        · cases e
        · simp only [f5] at e; exact absurd e hf0
      · simp only [f5]; omega
    · rw [if_neg hd]
      refine ⟨(fun e => by cases e), ?_, ?_, ?_, ?_, ?_, ?_⟩
      · intro _
        refine ⟨(by simp only [f4]; exact a), ?_⟩
        simp only [tok, owners, ownersI, ownersW, ownersC, hi, f2, f3] at b htok ⊢
        omega
      · simp only [f5]; exact h.failed_le
      · intro e; simp only [f5] at e; exact absurd e hf0
      · intro hx
        rcases hx with hx | hx
        · rcases hx with e | e | e <;> cases e
        · simp only [f5] at hx; exact absurd hx hf0
      · intro hx
        rcases hx with e | e | e
        · cases e
        · cases e
        · simp only [f5] at e; exact absurd e hf0
      · simp only [f5]; omega
  | iFault =>
    simp only
    have hf0 : s.failed ≠ 1 := fun e => by have := h.failed_dn e; rw [hi] at this; cases this
    have hfz : s.failed = 0 := by have := h.failed_le; omega
    have hnp := h.noproc (Or.inl (Or.inr (Or.inr hi)))
    have hin := h.fault_in (Or.inr (Or.inl hi))
    refine ⟨(fun e => by cases e), ?_, (by simp [hfz]), fun _ => rfl, fun _ => hnp, fun _ => hin, ?_⟩
    · intro _
      have ⟨a, b⟩ := h.post_i0 (by rw [hi]; exact fun e => by cases e)
      refine ⟨a, ?_⟩
      simp only [tok, owners, ownersI, ownersW, ownersC, hi] at b ⊢
      exact b
    · have := h.unsched_eq; simp only; omega
  | iDone => simpa [hi] using h

/-- **the invariant holds in every reachable state, for every schedule** -/
theorem inv_step (s : ES) (c : Choice) (h : Inv s) : Inv (step s c) := by
  cases c with
  | intake => exact inv_intake s h
  | intakeFault => exact inv_intakeFault s h
  | watcher => exact inv_watcher s h
  | cancel i => exact inv_cancel s i h
  | exit code => exact inv_exit s code h
  | cancelReq => exact inv_cancelReq s h
  | timeout => exact inv_timeout s h

theorem inv_run (cs : List Choice) (s : ES) (h : Inv s) : Inv (run s cs) := by
  induction cs generalizing s with
  | nil => exact h
  | cons c cs ih => exact ih (step s c) (inv_step s c h)


/-! ### liveness bookkeeping: an unclaimed, launched task is still being watched -/

def spawnedPc : IPc → Bool
  | .i2 | .i3 | .iCancel _ | .iDone => true
  | _ => false

def queuedPc : IPc → Bool
  | .i3 | .iCancel _ | .iDone => true
  | _ => false

def atW3 : WPc → Bool
  | .w3 _ => true
  | _ => false

def atW2b3 : WPc → Bool
  | .w2b _ | .w3 _ => true
  | _ => false

structure Live (s : ES) : Prop where
  key   : spawnedPc s.intake = true → s.failed = 0 → s.inTasks = true → s.procKey = true ∨ atW3 s.watcher = true
  watch : queuedPc s.intake = true → s.failed = 0 → s.inTasks = true → s.watching = true ∨ atW2b3 s.watcher = true

theorem live_init : Live {} := ⟨(fun h => by cases h), (fun h => by cases h)⟩

theorem cancelSt_live (s : ES) (c : CPc) (hown : c.owner = true → s.inTasks = false) :
    ((cancelSt s c).inTasks = true → s.inTasks = true ∧ (cancelSt s c).procKey = s.procKey) := by
  cases c with
  | c0 => intro h; exact ⟨h, rfl⟩
  | c1 => intro h; exact ⟨h, rfl⟩
  | c2 =>
    show (if s.inTasks then { s with inTasks := false } else s).inTasks = true → _
    cases hin : s.inTasks <;> simp [hin]
  | c3 => intro h; exact ⟨h, rfl⟩
  | c4 =>
    intro h
    have := hown rfl
    have h' : s.inTasks = true := h
    rw [this] at h'; cases h'
  | c5 => intro h; exact ⟨h, rfl⟩
  | cDone => intro h; exact ⟨h, rfl⟩

theorem live_step (s : ES) (c : Choice) (hi : Inv s) (hl : Live s) : Live (step s c) := by
  cases c with
  | exit code =>
    simp only [step]
    cases hp : s.proc <;> simp only <;> exact ⟨hl.key, hl.watch⟩
  | cancelReq =>
    simp only [step]
    split <;> exact ⟨hl.key, hl.watch⟩
  | timeout =>
    simp only [step]
    split <;> exact ⟨hl.key, hl.watch⟩
  | intakeFault =>
    simp only [step]
    cases h : s.intake <;> simp only <;> first
      | exact hl
      | exact ⟨(fun e => by cases e), (fun e => by cases e)⟩
  | cancel i =>
    simp only [step]
    split
    · exact hl
    · rename_i c hc
      obtain ⟨f1, f2, f3, f4, f5, f6, f7, f8, f9⟩ := cancel_frame s c
      have hi0 : s.intake ≠ .i0 := by
        intro e; have := (hi.at_i0 e).2.2.2.2; rw [this] at hc; simp at hc
      have hown : c.owner = true → s.inTasks = false := by
        intro ho
        apply owner_not_inTasks hi hi0
        have := countP_pos_of_mem s.cancels i c hc ho
        simp only [owners, ownersC]; omega
      have hcl := cancelSt_live s c hown
      constructor
      · intro a b d
        simp only [f1] at a; simp only [f5] at b
        have ⟨d1, d2⟩ := hcl d
        simp only [f2, d2]
        exact hl.key a b d1
      · intro a b d
        simp only [f1] at a; simp only [f5] at b
        have ⟨d1, _⟩ := hcl d
        simp only [f2, f6]
        exact hl.watch a b d1
  | watcher =>
    simp only [step]
    cases hw : s.watcher with
    | wIdle =>
      simp only
      split
      · constructor
        · intro a b d
          rcases hl.key a b d with h | h
          · exact Or.inl h
          · rw [hw] at h; cases h
        · intro a b d
          rcases hl.watch a b d with h | h
          · exact Or.inl h
          · rw [hw] at h; cases h
      · exact hl
    | w0 =>
      simp only
      by_cases hk : s.procKey = true
      · rw [if_pos hk]
        constructor
        · intro a b d; exact Or.inl hk
        · intro a b d
          rcases hl.watch a b d with h | h
          · exact Or.inl h
          · rw [hw] at h; cases h
      · rw [if_neg hk]
        have hcontra : ∀ (a : spawnedPc s.intake = true) (b : s.failed = 0) (d : s.inTasks = true), False := by
          intro a b d
          rcases hl.key a b d with h | h
          · exact hk h
          · rw [hw] at h; cases h
        constructor
        · intro a b d; exact absurd (hcontra a b d) id
        · intro a b d
          have a' : spawnedPc s.intake = true := by
            cases hh : s.intake <;> simp_all [queuedPc, spawnedPc]
          exact absurd (hcontra a' b d) id
    | w1 =>
      simp only
      cases hp : s.proc <;> simp only
      · constructor
        · intro a b d
          rcases hl.key a b d with h | h
          · exact Or.inl h
          · rw [hw] at h; cases h
        · intro a b d
          rcases hl.watch a b d with h | h
          · exact Or.inl h
          · rw [hw] at h; cases h
      · constructor
        · intro a b d
          rcases hl.key a b d with h | h
          · exact Or.inl h
          · rw [hw] at h; cases h
        · intro a b d
          rcases hl.watch a b d with h | h
          · exact Or.inl h
          · rw [hw] at h; cases h
      · constructor
        · intro a b d
          rcases hl.key a b d with h | h
          · exact Or.inl h
          · rw [hw] at h; cases h
        · intro a b d; exact Or.inr rfl
    | w2b c =>
      simp only
      exact ⟨fun _ _ _ => Or.inr rfl, fun _ _ _ => Or.inr rfl⟩
    | w3 c =>
      simp only
      by_cases hin : s.inTasks = true
      · rw [if_pos hin]
        exact ⟨(fun _ _ d => by cases d), (fun _ _ d => by cases d)⟩
      · rw [if_neg hin]
        exact ⟨fun _ _ d => absurd d hin, fun _ _ d => absurd d hin⟩
    | w4 c =>
      simp only
      have hnp : ¬ (preSpawn s ∨ s.failed = 1) := by
        intro hx; have := (hi.noproc hx).2.2.2.2.2.1; rw [hw] at this; cases this
      have hi0 : s.intake ≠ .i0 := fun e => hnp (Or.inl (Or.inl e))
      have : s.inTasks = false := by
        apply owner_not_inTasks hi hi0
        simp only [owners, ownersW, hw]; omega
      exact ⟨(fun _ _ d => by rw [this] at d; cases d), (fun _ _ d => by rw [this] at d; cases d)⟩
  | intake =>
    simp only [step]
    cases hin : s.intake with
    | i0 => simp only; exact ⟨(fun e => by cases e), (fun e => by cases e)⟩
    | i1 => simp only; exact ⟨(fun _ _ _ => Or.inl rfl), (fun e => by cases e)⟩
    | i2 =>
      simp only
      constructor
      · intro _ b d; exact hl.key (by rw [hin]; rfl) b d
      · intro _ _ _; exact Or.inl rfl
    | i3 =>
      simp only
      split
      · constructor
        · intro _ b d; exact hl.key (by rw [hin]; rfl) b d
        · intro _ b d; exact hl.watch (by rw [hin]; rfl) b d
      · constructor
        · intro _ b d; exact hl.key (by rw [hin]; rfl) b d
        · intro _ b d; exact hl.watch (by rw [hin]; rfl) b d
    | iCancel c =>
      simp only
      obtain ⟨f1, f2, f3, f4, f5, f6, f7, f8, f9⟩ := cancel_frame s c
      have hi0 : s.intake ≠ .i0 := by rw [hin]; exact fun e => by cases e
      have hown : c.owner = true → s.inTasks = false := by
        intro ho
        apply owner_not_inTasks hi hi0
        simp only [owners, ownersI, hin, ho, b2n]; omega
      have hcl := cancelSt_live s c hown
      split
      · constructor
        · intro _ b d
          simp only [f5] at b
          have ⟨d1, d2⟩ := hcl d
          simp only [f2, d2]
          exact hl.key (by rw [hin]; rfl) b d1
        · intro _ b d
          simp only [f5] at b
          have ⟨d1, _⟩ := hcl d
          simp only [f2, f6]
          exact hl.watch (by rw [hin]; rfl) b d1
      · constructor
        · intro _ b d
          simp only [f5] at b
          have ⟨d1, d2⟩ := hcl d
          simp only [f2, d2]
          exact hl.key (by rw [hin]; rfl) b d1
        · intro _ b d
          simp only [f5] at b
          have ⟨d1, _⟩ := hcl d
          simp only [f2, f6]
          exact hl.watch (by rw [hin]; rfl) b d1
    | iFault =>
      simp only
      have hf0 : s.failed ≠ 1 := fun e => by have := hi.failed_dn e; rw [hin] at this; cases this
      have hfz : s.failed = 0 := by have := hi.failed_le; omega
      exact ⟨(fun _ b _ => by simp [hfz] at b), (fun _ b _ => by simp [hfz] at b)⟩
    | iDone => simp only; exact hl

theorem live_run (cs : List Choice) (s : ES) (hi : Inv s) (hl : Live s) : Live (run s cs) := by
  induction cs generalizing s with
  | nil => exact hl
  | cons c cs ih => exact ih (step s c) (inv_step s c hi) (live_step s c hi hl)

end RPVerif.Exec
