import RPVerif.Model.TmgrSched
/-
Backfilling: the state the scheduler has recorded for a pilot is written by `_update_pilot_states` (touchPilot) only -
a scheduling pass and the digestion of task notifications change usage figures and task lists, never the state.
(Used by C12_mixed_window: a pass that runs after the pilot part of a notification sees the states it reported.)
-/
namespace RPVerif.TmgrSched
open List

theorem find_map_same (ps : List Pilot) (p' : Pilot) :
    (ps.map (fun q => if q.pid = p'.pid then p' else q)).find? (fun q => q.pid = p'.pid)
      = (ps.find? (fun q => q.pid = p'.pid)).map (fun _ => p') := by
  induction ps with
  | nil => rfl
  | cons q qs ih =>
    by_cases h : q.pid = p'.pid
    · simp [h]
    · simp [h, ih]

theorem find_map_other (ps : List Pilot) (p' : Pilot) (q : Nat) (hq : q ≠ p'.pid) :
    (ps.map (fun x => if x.pid = p'.pid then p' else x)).find? (fun x => x.pid = q)
      = ps.find? (fun x => x.pid = q) := by
  induction ps with
  | nil => rfl
  | cons x xs ih =>
    by_cases h : x.pid = p'.pid
    · have h1 : decide (p'.pid = q) = false := by
        simp only [decide_eq_false_iff_not]; exact fun e => hq e.symm
      have h2 : decide (x.pid = q) = false := by
        simp only [decide_eq_false_iff_not]; exact fun e => hq (e.symm.trans h)
      simp only [List.map_cons, List.find?_cons, if_pos h, h1, h2]
      exact ih
    · cases h3 : decide (x.pid = q) with
      | true  => simp only [List.map_cons, List.find?_cons, if_neg h, h3]
      | false => simp only [List.map_cons, List.find?_cons, if_neg h, h3]; exact ih

/-- replacing the entry of a pilot by one with the same state leaves every recorded state as it was -/
theorem stateOf_setPilot (ps : List Pilot) (p p' : Pilot) (q : Nat)
    (hf : findPilot ps p'.pid = some p) (hs : p'.state = p.state) :
    stateOf (setPilot ps p') q = stateOf ps q := by
  have hm : p ∈ ps := List.mem_of_find?_eq_some hf
  have hp : p.pid = p'.pid := by
    have := List.find?_some hf
    simpa using this
  have hany : (ps.any (fun x => x.pid = p'.pid)) = true := by
    simp only [List.any_eq_true, decide_eq_true_eq]
    exact ⟨p, hm, hp⟩
  unfold stateOf setPilot findPilot
  rw [if_pos hany]
  by_cases hq : q = p'.pid
  · subst hq
    rw [find_map_same]
    simp only [findPilot] at hf
    rw [hf]
    simp [hs]
  · rw [find_map_other ps p' q hq]

theorem bfPlace_state (ps : List Pilot) (t : Task) (pids : List Nat) (ps' : List Pilot) (pid : Nat) (full : Bool)
    (h : bfPlace ps t pids = some (ps', pid, full)) (q : Nat) : stateOf ps' q = stateOf ps q := by
  induction pids with
  | nil => simp [bfPlace] at h
  | cons x xs ih =>
    unfold bfPlace at h
    cases hf : findPilot ps x with
    | none => rw [hf] at h; exact ih h
    | some p =>
      rw [hf] at h
      simp only at h
      by_cases hu : p.used ≤ (p.hwm : Int)
      · rw [if_pos hu] at h
        have hp : p.pid = x := by
          have := List.find?_some hf
          simpa using this
        cases h
        apply stateOf_setPilot ps p
        · simp only [hp]; exact hf
        · rfl
      · rw [if_neg hu] at h
        exact ih h

theorem bfLoop_state (ts : List Task) (ps : List Pilot) (pids : List Nat) (q : Nat) :
    stateOf (bfLoop ps pids ts).1 q = stateOf ps q := by
  induction ts generalizing ps pids with
  | nil => simp [bfLoop]
  | cons t ts ih =>
    unfold bfLoop
    by_cases he : pids = []
    · rw [if_pos he]
      rcases hl : bfLoop ps pids ts with ⟨ps', un, outs⟩
      have := ih ps pids
      rw [hl] at this
      exact this
    · rw [if_neg he]
      cases hb : bfPlace ps t pids with
      | none =>
        rcases hl : bfLoop ps pids ts with ⟨ps', un, outs⟩
        have := ih ps pids
        rw [hl] at this
        exact this
      | some r =>
        obtain ⟨ps1, pid, full⟩ := r
        simp only
        rcases hl : bfLoop ps1 (if full then pids.erase pid else pids) ts with ⟨ps', un, outs⟩
        have := ih ps1 (if full then pids.erase pid else pids)
        rw [hl] at this
        simp only at this ⊢
        rw [this]
        exact bfPlace_state ps t pids ps1 pid full hb q

theorem bfSchedule_state (c : BFCfg) (s : S) (q : Nat) :
    stateOf (bfSchedule c s).1.pilots q = stateOf s.pilots q := by
  unfold bfSchedule
  by_cases h1 : s.pids = []
  · rw [if_pos h1]
  · rw [if_neg h1]
    by_cases h2 : eligiblePids c s = []
    · rw [if_pos h2]
    · rw [if_neg h2]
      rcases hl : bfLoop s.pilots (eligiblePids c s) s.wait with ⟨ps', un, outs⟩
      have := bfLoop_state s.wait s.pilots (eligiblePids c s) q
      rw [hl] at this
      exact this

theorem bfUpdateTasks_state (execVal : Nat) (us : List (Nat × Option Nat × Nat × Nat)) :
    ∀ (ps : List Pilot) (r : Bool) (q : Nat), stateOf (bfUpdateTasks execVal ps us r).1 q = stateOf ps q := by
  induction us with
  | nil => intro ps r q; simp [bfUpdateTasks]
  | cons u us ih =>
    intro ps r q
    obtain ⟨uid, pil, sv, cores⟩ := u
    unfold bfUpdateTasks
    cases pil with
    | none => exact ih ps r q
    | some pid =>
      simp only
      cases hf : findPilot ps pid with
      | none => exact ih ps r q
      | some p =>
        simp only
        have hp : p.pid = pid := by
          have := List.find?_some hf
          simpa using this
        have hset : ∀ q, stateOf (setPilot ps { p with done := p.done ++ [uid], used := p.used - cores }) q = stateOf ps q := by
          intro q
          apply stateOf_setPilot ps p
          · simp only [hp]; exact hf
          · rfl
        split
        · exact ih ps r q
        · split
          · exact ih ps r q
          · split
            · exact ih ps r q
            · split
              · exact hset q
              · rw [ih]; exact hset q

end RPVerif.TmgrSched
