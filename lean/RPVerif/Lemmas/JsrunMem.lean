import RPVerif.Lemmas.JsrunSched
namespace RPVerif.JsrunSched
open RPVerif.Sched (Occ NodeSt Err)

/-! ### lfs and memory: a node never serves more than it has -/

def lfsOn (i : Nat) (sl : List RSlot) : Nat := ((sl.filter (fun s => s.node = i)).map (·.lfs)).sum
def memOn (i : Nat) (sl : List RSlot) : Nat := ((sl.filter (fun s => s.node = i)).map (·.mem)).sum

theorem lfsOn_append (i : Nat) (a b : List RSlot) : lfsOn i (a ++ b) = lfsOn i a + lfsOn i b := by
  simp [lfsOn]
theorem memOn_append (i : Nat) (a b : List RSlot) : memOn i (a ++ b) = memOn i a + memOn i b := by
  simp [memOn]

theorem lfsOn_none (i : Nat) (sl : List RSlot) (h : ∀ s ∈ sl, s.node ≠ i) : lfsOn i sl = 0 := by
  have : sl.filter (fun s => s.node = i) = [] := by
    rw [List.filter_eq_nil_iff]; intro s hs; simpa using h s hs
  simp [lfsOn, this]
theorem memOn_none (i : Nat) (sl : List RSlot) (h : ∀ s ∈ sl, s.node ≠ i) : memOn i sl = 0 := by
  have : sl.filter (fun s => s.node = i) = [] := by
    rw [List.filter_eq_nil_iff]; intro s hs; simpa using h s hs
  simp [memOn, this]

theorem lfsOn_same (i : Nat) (sl : List RSlot) (v : Nat) (h : ∀ s ∈ sl, s.node = i ∧ s.lfs = v) : lfsOn i sl = sl.length * v := by
  induction sl with
  | nil => simp [lfsOn]
  | cons s rest ih =>
    have h1 := h s (by simp)
    have h2 := ih (fun x hx => h x (by simp [hx]))
    simp only [lfsOn, List.filter_cons, h1.1, decide_true, if_true, List.map_cons, List.sum_cons, List.length_cons] at *
    rw [h2, h1.2, Nat.add_mul]; omega
theorem memOn_same (i : Nat) (sl : List RSlot) (v : Nat) (h : ∀ s ∈ sl, s.node = i ∧ s.mem = v) : memOn i sl = sl.length * v := by
  induction sl with
  | nil => simp [memOn]
  | cons s rest ih =>
    have h1 := h s (by simp)
    have h2 := ih (fun x hx => h x (by simp [hx]))
    simp only [memOn, List.filter_cons, h1.1, decide_true, if_true, List.map_cons, List.sum_cons, List.length_cons] at *
    rw [h2, h1.2, Nat.add_mul]; omega

theorem markAll_lfs (b : Bool) (n : NodeSt) (sl : List RSlot) :
    (markAll b n sl).lfs = (if b then n.lfs - (lfsOn n.index sl : Int) else n.lfs + (lfsOn n.index sl : Int)) ∧
    (markAll b n sl).mem = (if b then n.mem - (memOn n.index sl : Int) else n.mem + (memOn n.index sl : Int)) := by
  induction sl generalizing n with
  | nil => cases b <;> simp [markAll, lfsOn, memOn]
  | cons s rest ih =>
    have hstep : markAll b n (s :: rest) = markAll b (markSlot b n s) rest := by simp [markAll]
    rw [hstep]
    obtain ⟨i1, i2⟩ := ih (markSlot b n s)
    rw [i1, i2, markSlot_index]
    by_cases hn : n.index = s.node
    · have hl : (markSlot b n s).lfs = (if b then n.lfs - (s.lfs : Int) else n.lfs + (s.lfs : Int)) := by
        unfold markSlot; rw [if_neg (by omega)]
      have hm : (markSlot b n s).mem = (if b then n.mem - (s.mem : Int) else n.mem + (s.mem : Int)) := by
        unfold markSlot; rw [if_neg (by omega)]
      have h1 : lfsOn n.index (s :: rest) = s.lfs + lfsOn n.index rest := by simp [lfsOn, hn.symm]
      have h2 : memOn n.index (s :: rest) = s.mem + memOn n.index rest := by simp [memOn, hn.symm]
      rw [hl, hm, h1, h2]
      cases b <;> simp <;> omega
    · have hm : markSlot b n s = n := by unfold markSlot; rw [if_pos hn]
      have hne : ¬ s.node = n.index := fun h => hn h.symm
      have h1 : lfsOn n.index (s :: rest) = lfsOn n.index rest := by simp [lfsOn, hne]
      have h2 : memOn n.index (s :: rest) = memOn n.index rest := by simp [memOn, hne]
      rw [hm, h1, h2]; exact ⟨rfl, rfl⟩

/-- what a placement takes from every node fits into what that node has left -/
def Fits (all : List NodeSt) (sl : List RSlot) : Prop :=
  ∀ n ∈ all, lfsOn n.index sl ≤ n.lfs.toNat ∧ memOn n.index sl ≤ n.mem.toNat

theorem fits_nil (all : List NodeSt) : Fits all [] := by
  intro n _; simp [lfsOn, memOn]

theorem same_of_index (all : List NodeSt) (hnd : (all.map (·.index)).Nodup) (a b : NodeSt) (ha : a ∈ all) (hb : b ∈ all)
    (h : a.index = b.index) : a = b := by
  have h1 := nodeAt_of_mem all a hnd ha
  have h2 := nodeAt_of_mem all b hnd hb
  rw [h] at h1; rw [h1] at h2; exact Option.some.inj h2

theorem walkStep_fits (all : List NodeSt) (hnd : (all.map (·.index)).Nodup) (sc mpi : Bool) (s : Shape) (spn : Nat)
    (w w' : Walk) (n : NodeSt) (V : List Nat)
    (ha : Fits all w.alc) (hV : ∀ x ∈ w.alc, x.node ∈ V) (hn : n ∈ all) (hnV : n.index ∉ V)
    (h : walkStep sc mpi s spn w n = .ok w') :
    Fits all w'.alc ∧ ∀ x ∈ w'.alc, x.node ∈ n.index :: V := by
  have keep : Fits all w.alc ∧ ∀ x ∈ w.alc, x.node ∈ n.index :: V :=
    ⟨ha, fun x hx => List.mem_cons_of_mem _ (hV x hx)⟩
  have empty : Fits all ([] : List RSlot) ∧ ∀ x ∈ ([] : List RSlot), x.node ∈ n.index :: V :=
    ⟨fits_nil all, by simp⟩
  simp only [walkStep] at h
  split at h
  · simp at h; subst h; exact keep
  · split at h
    · simp at h
    · split at h <;> (simp at h; subst h) <;> first | exact keep | exact empty
    · split at h <;> (simp at h; subst h) <;> first | exact keep | exact empty
    · next sl hne hf =>
      simp at h; subst h
      obtain ⟨_, f2, _, _, _, _, f7, f8⟩ := findJ_spec _ _ _ _ _ _ _ _ _ hf
      refine ⟨?_, ?_⟩
      · intro m hm
        rw [lfsOn_append, memOn_append]
        by_cases hi : m.index = n.index
        · have : m = n := same_of_index all hnd m n hm hn hi
          subst this
          have z1 : lfsOn m.index w.alc = 0 := lfsOn_none _ _ (fun x hx hxe => hnV (hxe ▸ hV x hx))
          have z2 : memOn m.index w.alc = 0 := memOn_none _ _ (fun x hx hxe => hnV (hxe ▸ hV x hx))
          rw [z1, z2, lfsOn_same m.index sl _ (fun x hx => ⟨(f2 x hx).1, (f2 x hx).2.1⟩),
              memOn_same m.index sl _ (fun x hx => ⟨(f2 x hx).1, (f2 x hx).2.2⟩)]
          omega
        · have z1 : lfsOn m.index sl = 0 := lfsOn_none _ _ (fun x hx hxe => hi (by rw [← hxe, (f2 x hx).1]))
          have z2 : memOn m.index sl = 0 := memOn_none _ _ (fun x hx hxe => hi (by rw [← hxe, (f2 x hx).1]))
          rw [z1, z2]
          have := ha m hm
          omega
      · intro x hx
        rcases List.mem_append.mp hx with hx | hx
        · exact List.mem_cons_of_mem _ (hV x hx)
        · rw [(f2 x hx).1]; simp

theorem walkGo_fits (all : List NodeSt) (hall : (all.map (·.index)).Nodup) (sc mpi : Bool) (s : Shape) (spn : Nat)
    (ns : List NodeSt) (w w' : Walk) (visited v' : Nat) (V : List Nat)
    (hsub : ∀ n ∈ ns, n ∈ all) (hnd : (ns.map (·.index)).Nodup) (hdis : ∀ i ∈ V, i ∉ ns.map (·.index))
    (ha : Fits all w.alc) (hV : ∀ x ∈ w.alc, x.node ∈ V)
    (h : walkGo sc mpi s spn ns w visited = .ok (w', v')) : Fits all w'.alc := by
  induction ns generalizing w visited V with
  | nil => simp [walkGo] at h; rw [← h.1]; exact ha
  | cons n rest ih =>
    simp only [walkGo] at h
    split at h
    · simp at h
    · next w1 hw1 =>
      have hnV : n.index ∉ V := fun hm => hdis _ hm (by simp)
      obtain ⟨g1, g2⟩ := walkStep_fits all hall sc mpi s spn w w1 n V ha hV (hsub n (by simp)) hnV hw1
      split at h
      · simp at h; rw [← h.1]; exact g1
      · simp only [List.map_cons, List.nodup_cons] at hnd
        refine ih w1 (visited + 1) (n.index :: V) (fun x hx => hsub x (by simp [hx])) hnd.2 ?_ g1 g2 h
        intro i hi
        rcases List.mem_cons.mp hi with rfl | hi
        · exact hnd.1
        · intro hm; exact hdis i hi (by simp [hm])

theorem schedule_fits (cfg : JCfg) (nodes : List NodeSt) (off off' : Nat) (r : JReq) (sl : List RSlot)
    (hnd : (nodes.map (·.index)).Nodup) (h : schedule cfg nodes off r = (.placed sl, off')) : Fits nodes sl := by
  simp only [schedule] at h
  split at h
  · simp at h
  · split at h
    · simp at h
    · split at h
      · simp at h
      · next w visited hw =>
        split at h
        · simp at h
        · simp at h
          rw [← h.1]
          exact walkGo_fits nodes hnd _ _ _ _ _ _ w 0 visited [] (fun n hn => (rotate_mem _ _ _).mp hn)
            (rotate_nodup _ _ hnd) (by simp) (fits_nil _) (by simp) hw

/-- no node's free lfs or memory ever goes below zero -/
def NonNeg (st : JState) : Prop := ∀ n ∈ st.nodes, 0 ≤ n.lfs ∧ 0 ≤ n.mem

theorem mem_changeAll (b : Bool) (ns ns' : List NodeSt) (sl : List RSlot) (hnd : (ns.map (·.index)).Nodup)
    (h : changeAll b ns sl = some ns') (n' : NodeSt) (hn' : n' ∈ ns') : ∃ n ∈ ns, n' = markAll b n sl := by
  have hnd' : (ns'.map (·.index)).Nodup := by rw [changeAll_indices b ns ns' sl h]; exact hnd
  have h1 := nodeAt_of_mem ns' n' hnd' hn'
  rw [changeAll_nodeAt b ns ns' sl h] at h1
  cases hn : nodeAt ns n'.index with
  | none => rw [hn] at h1; simp at h1
  | some n => rw [hn] at h1; simp at h1; exact ⟨n, nodeAt_mem _ _ _ hn, h1.symm⟩

theorem tryAlloc_nonneg (cfg : JCfg) (st : JState) (r : JReq) (h : JInv st) (hn : NonNeg st) : NonNeg (tryAlloc cfg st r).1 := by
  unfold tryAlloc
  split
  · exact hn
  · split <;> exact hn
  · split <;> exact hn
  · next sl off hne hs =>
    split
    · exact hn
    · next ns hns =>
      have fits := schedule_fits cfg st.nodes st.offset off r sl h.idx hs
      intro n' hn'
      obtain ⟨n, hnm, rfl⟩ := mem_changeAll true st.nodes ns sl h.idx hns n' hn'
      obtain ⟨l1, l2⟩ := markAll_lfs true n sl
      obtain ⟨f1, f2⟩ := fits n hnm
      obtain ⟨p1, p2⟩ := hn n hnm
      rw [l1, l2]
      simp only [if_true]
      omega

theorem release_nonneg (st : JState) (uid : Nat) (h : JInv st) (hn : NonNeg st) : NonNeg (release st uid).1 := by
  unfold release
  split
  · exact hn
  · next e he =>
    split
    · exact hn
    · next ns hns =>
      intro n' hn'
      obtain ⟨n, hnm, rfl⟩ := mem_changeAll false st.nodes ns e.2 h.idx hns n' hn'
      obtain ⟨l1, l2⟩ := markAll_lfs false n e.2
      obtain ⟨p1, p2⟩ := hn n hnm
      rw [l1, l2]
      simp only [Bool.false_eq_true, if_false]
      omega

theorem jrun_nonneg (cfg : JCfg) (st : JState) (ops : List JOp) (h : JInv st) (hn : NonNeg st) : NonNeg (jrun cfg st ops) := by
  induction ops generalizing st with
  | nil => exact hn
  | cons o os ih =>
    refine ih _ (jstep_inv cfg st o h) ?_
    cases o with
    | alloc r => exact tryAlloc_nonneg cfg st r h hn
    | rel u => exact release_nonneg st u h hn

end RPVerif.JsrunSched
