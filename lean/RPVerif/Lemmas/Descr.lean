import RPVerif.Model.Descr

namespace RPVerif.Descr

theorem set_same (d : Dict) (k : String) (v : V) : (d.set k v) k = v := by simp [Dict.set]
theorem set_other (d : Dict) (k k' : String) (v : V) (h : k' ≠ k) : (d.set k v) k' = d k' := by
  simp [Dict.set, h]

/-- a key that no alias writes is untouched by the whole alias pass -/
theorem fold_untouched (as : List Alias) (d : Dict) (k : String)
    (h : ∀ a ∈ as, k ≠ a.new ∧ k ≠ a.resetAttr) : (as.foldl applyAlias d) k = d k := by
  induction as generalizing d with
  | nil => rfl
  | cons x xs ih =>
    simp only [List.foldl_cons]
    rw [ih _ (fun a ha => h a (List.mem_cons_of_mem _ ha))]
    have ⟨h1, h2⟩ := h x List.mem_cons_self
    unfold applyAlias
    split
    · rw [set_other _ _ _ _ h2, set_other _ _ _ _ h1]
    · rfl

/-- if no deprecated attribute is set, the alias pass changes nothing -/
theorem fold_noop (as : List Alias) (d : Dict) (h : ∀ a ∈ as, (d a.old).truthy = false) :
    as.foldl applyAlias d = d := by
  induction as generalizing d with
  | nil => rfl
  | cons x xs ih =>
    simp only [List.foldl_cons]
    have hx : applyAlias d x = d := by
      unfold applyAlias; simp [h x List.mem_cons_self]
    rw [hx]
    exact ih d (fun a ha => h a (List.mem_cons_of_mem _ ha))

/-- well-formedness of an alias table (decidable; checked on the generated table) -/
def AliasesWF (as : List Alias) : Prop :=
  (∀ a ∈ as, a.resetAttr = a.old)
  ∧ (∀ a ∈ as, a.resetVal.truthy = false)
  ∧ (as.map (·.old)).Nodup
  ∧ (as.map (·.new)).Nodup
  ∧ (∀ a ∈ as, ∀ b ∈ as, a.old ≠ b.new)

instance (as : List Alias) : Decidable (AliasesWF as) := by
  unfold AliasesWF; infer_instance

theorem wf_tail {x : Alias} {xs : List Alias} (h : AliasesWF (x :: xs)) : AliasesWF xs := by
  obtain ⟨h1, h2, h3, h4, h5⟩ := h
  refine ⟨fun a ha => h1 a (List.mem_cons_of_mem _ ha), fun a ha => h2 a (List.mem_cons_of_mem _ ha),
          ?_, ?_, fun a ha b hb => h5 a (List.mem_cons_of_mem _ ha) b (List.mem_cons_of_mem _ hb)⟩
  · simp only [List.map_cons, List.nodup_cons] at h3; exact h3.2
  · simp only [List.map_cons, List.nodup_cons] at h4; exact h4.2

/-- **what the alias pass does to each alias pair** -/
theorem fold_alias (as : List Alias) (hw : AliasesWF as) (d : Dict) :
    ∀ a ∈ as,
      (as.foldl applyAlias d) a.new = (if (d a.old).truthy then conv a (d a.old) else d a.new)
      ∧ (as.foldl applyAlias d) a.old = (if (d a.old).truthy then a.resetVal else d a.old) := by
  induction as generalizing d with
  | nil => intro a ha; cases ha
  | cons x xs ih =>
    intro a ha
    have hw' := wf_tail hw
    obtain ⟨h1, h2, h3, h4, h5⟩ := hw
    simp only [List.map_cons, List.nodup_cons, List.mem_map, not_exists, not_and] at h3 h4
    simp only [List.foldl_cons]
    have hxr : x.resetAttr = x.old := h1 x List.mem_cons_self
    have hxon : x.old ≠ x.new := h5 x List.mem_cons_self x List.mem_cons_self
    rcases List.mem_cons.mp ha with rfl | hin
    · -- the head alias: later aliases do not touch its two attributes
      have hu1 : ∀ b ∈ xs, a.new ≠ b.new ∧ a.new ≠ b.resetAttr := by
        intro b hb
        refine ⟨fun e => h4.1 b hb e.symm, ?_⟩
        rw [h1 b (List.mem_cons_of_mem _ hb)]
        exact fun e => h5 b (List.mem_cons_of_mem _ hb) a List.mem_cons_self e.symm
      have hu2 : ∀ b ∈ xs, a.old ≠ b.new ∧ a.old ≠ b.resetAttr := by
        intro b hb
        refine ⟨h5 a List.mem_cons_self b (List.mem_cons_of_mem _ hb), ?_⟩
        rw [h1 b (List.mem_cons_of_mem _ hb)]
        exact fun e => h3.1 b hb e.symm
      rw [fold_untouched xs _ _ hu1, fold_untouched xs _ _ hu2]
      unfold applyAlias
      by_cases ht : (d a.old).truthy = true
      · simp only [ht, if_true]
        rw [hxr]
        constructor
        · rw [set_other _ _ _ _ (fun e => hxon e.symm), set_same]
        · rw [set_same]
      · simp [ht]
    · -- an alias of the tail: the head does not touch its attributes
      have ⟨i1, i2⟩ := ih hw' (applyAlias d x) a hin
      have hne1 : a.old ≠ x.new := h5 a (List.mem_cons_of_mem _ hin) x List.mem_cons_self
      have hne2 : a.old ≠ x.old := fun e => h3.1 a hin e
      have hne3 : a.new ≠ x.new := fun e => h4.1 a hin e
      have hne4 : a.new ≠ x.old := fun e => h5 x List.mem_cons_self a (List.mem_cons_of_mem _ hin) e.symm
      have ho : (applyAlias d x) a.old = d a.old := by
        unfold applyAlias; split
        · rw [hxr, set_other _ _ _ _ hne2, set_other _ _ _ _ hne1]
        · rfl
      have hn : (applyAlias d x) a.new = d a.new := by
        unfold applyAlias; split
        · rw [hxr, set_other _ _ _ _ hne4, set_other _ _ _ _ hne3]
        · rfl
      rw [i1, i2, ho, hn]
      exact ⟨rfl, rfl⟩

theorem all_congr_mem {α : Type} (l : List α) (f g : α → Bool) (h : ∀ k ∈ l, f k = g k) :
    l.all f = l.all g := by
  induction l with
  | nil => rfl
  | cons x xs ih =>
    simp only [List.all_cons]
    rw [h x List.mem_cons_self, ih (fun k hk => h k (List.mem_cons_of_mem _ hk))]

/-- `modeOk` only reads "mode" and the attributes named in the chain -/
theorem modeOk_congr (cs : List ModeCheck) (d d' : Dict) (hm : d "mode" = d' "mode")
    (hk : ∀ c ∈ cs, ∀ k ∈ c.required ++ c.banned, d k = d' k) : modeOk d cs = modeOk d' cs := by
  induction cs with
  | nil => rfl
  | cons c cs ih =>
    unfold modeOk
    rw [hm]
    have hc := hk c List.mem_cons_self
    have e1 : c.required.all (fun k => (d k).truthy) = c.required.all (fun k => (d' k).truthy) := by
      apply all_congr_mem
      intro k hk'; rw [hc k (List.mem_append_left _ hk')]
    have e2 : c.banned.all (fun k => !(d k).truthy) = c.banned.all (fun k => !(d' k).truthy) := by
      apply all_congr_mem
      intro k hk'; rw [hc k (List.mem_append_right _ hk')]
    rw [e1, e2, ih (fun c' hc' => hk c' (List.mem_cons_of_mem _ hc'))]


/-! ### the tabulated evaluation agrees with `verify` on the tabulated keys -/

theorem ofList_tabulate (ks : List String) (d : Dict) (k : String) (hk : k ∈ ks) :
    ofList (tabulate ks d) k = d k := by
  unfold ofList tabulate
  induction ks with
  | nil => cases hk
  | cons x xs ih =>
    simp only [List.map_cons, List.find?_cons]
    by_cases hx : x = k
    · subst hx; simp
    · have : k ∈ xs := by
        rcases List.mem_cons.mp hk with h | h
        · exact absurd h.symm hx
        · exact h
      simp only [hx, decide_false]
      exact ih this

theorem applyAlias_congr (d d' : Dict) (a : Alias) (k : String)
    (ho : d a.old = d' a.old) (hk : d k = d' k) : applyAlias d a k = applyAlias d' a k := by
  unfold applyAlias
  rw [ho]
  split
  · simp only [Dict.set]; rw [hk]
  · exact hk

theorem foldFast_agrees (ks : List String) (as : List Alias) (hold : ∀ a ∈ as, a.old ∈ ks)
    (l : List (String × V)) (d : Dict) (h : ∀ k ∈ ks, ofList l k = d k) :
    ∀ k ∈ ks, ofList (as.foldl (fun l a => tabulate ks (applyAlias (ofList l) a)) l) k
              = (as.foldl applyAlias d) k := by
  induction as generalizing l d with
  | nil => exact h
  | cons x xs ih =>
    simp only [List.foldl_cons]
    apply ih (fun a ha => hold a (List.mem_cons_of_mem _ ha))
    intro k hk
    rw [ofList_tabulate ks _ k hk]
    exact applyAlias_congr _ _ x k (h x.old (hold x List.mem_cons_self)) (h k hk)

/-- **the driver's tabulated evaluation computes `verify`** on every tabulated key -/
theorem verifyFast_agrees (cs : List ModeCheck) (as : List Alias) (dm : String) (ks : List String)
    (d : Dict) (hold : ∀ a ∈ as, a.old ∈ ks) (hu : "use_mpi" ∈ ks) (hr : "ranks" ∈ ks) :
    (verifyFast cs as dm ks d).isSome = (verify cs as dm d).isSome
    ∧ ∀ l d', verifyFast cs as dm ks d = some l → verify cs as dm d = some d' →
        ∀ k ∈ ks, ofList l k = d' k := by
  unfold verifyFast verify
  generalize (if (d "mode").truthy then d else d.set "mode" (.str dm)) = d1
  by_cases hm : modeOk d1 cs = true
  · rw [if_pos hm, if_pos hm]
    refine ⟨rfl, ?_⟩
    intro l d' h1 h2 k hk
    cases h1; cases h2
    rw [ofList_tabulate ks _ k hk]
    have key := foldFast_agrees ks as hold (tabulate ks d1) d1
      (fun k hk => ofList_tabulate ks _ k hk)
    simp only
    rw [key "use_mpi" hu, key "ranks" hr]
    split
    · simp only [Dict.set]
      split
      · rfl
      · exact key k hk
    · exact key k hk
  · rw [if_neg hm, if_neg hm]
    exact ⟨rfl, fun l d' h1 _ => by cases h1⟩

end RPVerif.Descr
