import RPVerif.Model.States

namespace RPVerif.States

/-- a state of the model with `N` non-final states -/
def St.WF (N : Nat) : St → Prop
  | .nf i => i < N
  | _     => True

instance (N : Nat) (s : St) : Decidable (s.WF N) := by
  cases s <;> simp [St.WF] <;> infer_instance

/-- one observable step of the state model: the next state in order, or
    FAILED / CANCELED from anywhere; never out of a final state -/
def Step (N : Nat) (a b : St) : Prop :=
  a.isFinal = false ∧ b.WF N ∧ (b.val N = a.val N + 1 ∨ b.isFC = true)

/-- `ns` is a sequence of observable steps starting in `s` -/
def Chain (N : Nat) : St → List St → Prop
  | _, []      => True
  | s, n :: ns => Step N s n ∧ Chain N n ns

def lastOf : St → List St → St
  | s, []      => s
  | _, n :: ns => lastOf n ns

theorem chain_append {N : Nat} {s : St} {xs ys : List St}
    (h1 : Chain N s xs) (h2 : Chain N (lastOf s xs) ys) : Chain N s (xs ++ ys) := by
  induction xs generalizing s with
  | nil => simpa [lastOf] using h2
  | cons x xs ih =>
    simp only [Chain, List.cons_append] at *
    exact ⟨h1.1, ih h1.2 (by simpa [lastOf] using h2)⟩

theorem lastOf_append (s : St) (xs ys : List St) :
    lastOf s (xs ++ ys) = lastOf (lastOf s xs) ys := by
  induction xs generalizing s with
  | nil => rfl
  | cons x xs ih => simp [lastOf, ih]

theorem nfRange_length (lo hi : Nat) : (nfRange lo hi).length = hi - lo := by
  induction hi with
  | zero => simp [nfRange]
  | succ n ih =>
    unfold nfRange
    split
    · simp [ih]; omega
    · simp; omega

/-- the elements of `nfRange lo hi` are `nf lo, nf (lo+1), …, nf (hi-1)` -/
theorem nfRange_get (lo hi : Nat) (k : Nat) (hk : k < hi - lo) :
    (nfRange lo hi)[k]? = some (St.nf (lo + k)) := by
  induction hi with
  | zero => omega
  | succ n ih =>
    unfold nfRange
    split
    · rename_i hle
      by_cases hkn : k < n - lo
      · rw [List.getElem?_append_left (by rw [nfRange_length]; exact hkn)]
        exact ih hkn
      · have : k = n - lo := by omega
        rw [List.getElem?_append_right (by rw [nfRange_length]; omega)]
        simp [nfRange_length, this]
        omega
    · omega


theorem val_le {N : Nat} {s : St} (h : s.WF N) : s.val N ≤ N := by
  cases s <;> simp [St.val, St.WF] at * <;> omega

theorem val_final {N : Nat} {s : St} (h : s.isFinal = true) : s.val N = N := by
  cases s <;> simp [St.val, St.isFinal] at *

theorem nfRange_chain {N : Nat} (lo hi : Nat) (s : St) (hs : s.isFinal = false)
    (hlo : s.val N + 1 = lo) (hhi : hi ≤ N) :
    Chain N s (nfRange lo hi)
    ∧ (lastOf s (nfRange lo hi)).val N + 1 = max lo hi
    ∧ (lastOf s (nfRange lo hi)).isFinal = false := by
  induction hi with
  | zero => simp only [nfRange, Chain, lastOf, hs]; exact ⟨trivial, by omega, trivial⟩
  | succ n ih =>
    unfold nfRange
    split
    · rename_i hle
      have ⟨c, l, f⟩ := ih (by omega)
      have hl : (lastOf s (nfRange lo n)).val N + 1 = n := by omega
      have hv : (St.nf n).val N = n := rfl
      refine ⟨chain_append c ?_, ?_, ?_⟩
      · simp only [Chain, Step, and_true]
        exact ⟨f, by simp [St.WF]; omega, Or.inl (by omega)⟩
      · rw [lastOf_append]; simp only [lastOf]; omega
      · rw [lastOf_append]; simp [lastOf, St.isFinal]
    · simp only [Chain, lastOf, hs]; exact ⟨trivial, by omega, trivial⟩

theorem taskUpdate_step {N : Nat} (t : Task) (u : Upd) (s : St) (h : Step N t.state s) :
    taskUpdate N t { u with state := s } false
      = .ok { t with state := s, detail := u.detail.or t.detail } := by
  obtain ⟨hf, _, hv⟩ := h
  unfold taskUpdate
  have h1 : ¬ (t.state = .failed ∨ t.state = .done) := by
    intro h; rcases h with h | h <;> simp [h, St.isFinal] at hf
  have h2 : ¬ (t.state = .canceled) := by
    intro h; simp [h, St.isFinal] at hf
  simp only [h1, if_false, h2, false_and]
  rcases hv with hv | hv
  · simp [hv]
  · simp [hv]

/-- replaying a chain of observable steps never raises, notifies exactly the
    chain and leaves the task in its last state -/
theorem replay_chain {N : Nat} (t : Task) (u : Upd) (ss : List St) (h : Chain N t.state ss) :
    ∃ t', replay N t u ss = .ok (t', ss) ∧ t'.state = lastOf t.state ss
          ∧ t'.uid = t.uid ∧ t'.pilot = t.pilot := by
  induction ss generalizing t with
  | nil => exact ⟨t, rfl, rfl, rfl, rfl⟩
  | cons s ss ih =>
    obtain ⟨hs, hc⟩ := h
    unfold replay
    rw [taskUpdate_step t u s hs]
    have ⟨t', h1, h2, h3, h4⟩ :=
      ih { t with state := s, detail := u.detail.or t.detail } hc
    simp only [h1]
    exact ⟨t', rfl, by simpa [lastOf] using h2, by simpa using h3, by simpa using h4⟩

/-- the progress helper for tasks never raises -/
theorem taskProgress_ok (N : Nat) (c t : St) : ∃ r, taskProgress N c t = .ok r := by
  unfold taskProgress
  split
  · exact ⟨_, rfl⟩
  · split
    · exact ⟨_, rfl⟩
    · split <;> exact ⟨_, rfl⟩

/-- **no exception ever escapes the per-task body of `_update_tasks`**, and what
    it notifies is a chain of observable steps from the task's current state -/
theorem updateOne_spec {N : Nat} (t : Task) (u : Upd) (hu : u.state.WF N) :
    ∃ t' ns, updateOne N t u = .ok (t', ns) ∧ Chain N t.state ns
      ∧ t'.state = lastOf t.state ns ∧ t'.uid = t.uid ∧ t'.pilot = t.pilot := by
  unfold updateOne
  by_cases h0 : t.state = u.state
  · rw [if_pos h0]; exact ⟨t, [], rfl, trivial, rfl, rfl, rfl⟩
  rw [if_neg h0]
  unfold taskProgress
  by_cases h1 : t.state = .canceled ∧ u.state.isFinal
  · rw [if_pos h1]
    refine ⟨t, [], ?_, trivial, rfl, rfl, rfl⟩
    simp [replay]
  rw [if_neg h1]
  by_cases h2 : t.state.isFinal ∧ u.state.isFinal
  · rw [if_pos h2]
    refine ⟨t, [], ?_, trivial, rfl, rfl, rfl⟩
    simp [replay]
  rw [if_neg h2]
  by_cases h3 : t.state.val N ≥ u.state.val N
  · rw [if_pos h3]
    refine ⟨t, [], ?_, trivial, rfl, rfl, rfl⟩
    simp [replay]
  rw [if_neg h3]
  -- genuine progress: the current state is not final
  have hnf : t.state.isFinal = false := by
    cases hfin : t.state.isFinal
    · rfl
    · have := val_final (N := N) hfin
      have := val_le hu
      omega
  have ⟨c, l, f⟩ := nfRange_chain (N := N) (t.state.val N + 1) (u.state.val N) t.state hnf rfl (val_le hu)
  by_cases hfc : u.state.isFC = true
  · simp only [hfc, if_true]
    have : (nfRange (t.state.val N + 1) (u.state.val N) ++ [u.state]).drop
        ((nfRange (t.state.val N + 1) (u.state.val N) ++ [u.state]).length - 1) = [u.state] := by
      simp
    rw [this]
    have hc : Chain N t.state [u.state] := ⟨⟨hnf, hu, Or.inr hfc⟩, trivial⟩
    have ⟨t', e1, e2, e3, e4⟩ := replay_chain t u [u.state] hc
    exact ⟨t', _, e1, hc, e2, e3, e4⟩
  · simp only [hfc]
    have hc : Chain N t.state (nfRange (t.state.val N + 1) (u.state.val N) ++ [u.state]) := by
      apply chain_append c
      exact ⟨⟨f, hu, Or.inl (by omega)⟩, trivial⟩
    have ⟨t', e1, e2, e3, e4⟩ := replay_chain t u _ hc
    exact ⟨t', _, e1, hc, e2, e3, e4⟩


/-! ### lifting to `_update_tasks` and to sequences of batches -/

def uids (ts : Tasks) : List Nat := ts.map (·.uid)

/-- effect of one update dict on the task it names (total: see `updateOne_spec`) -/
def one (N : Nat) (t : Task) (u : Upd) : Task × List St :=
  match updateOne N t u with
  | .ok r    => r
  | .error _ => (t, [])

/-- what a batch does to ONE task, looking only at the dicts that name it -/
def foldOne (N : Nat) (t : Task) : List Upd → Task × List St
  | []      => (t, [])
  | u :: us =>
    if u.uid = t.uid then
      ((foldOne N (one N t u).1 us).1, (one N t u).2 ++ (foldOne N (one N t u).1 us).2)
    else foldOne N t us

theorem one_spec {N : Nat} (t : Task) (u : Upd) (hu : u.state.WF N) :
    updateOne N t u = .ok (one N t u) ∧ Chain N t.state (one N t u).2
      ∧ (one N t u).1.state = lastOf t.state (one N t u).2
      ∧ (one N t u).1.uid = t.uid ∧ (one N t u).1.pilot = t.pilot := by
  have ⟨t', ns, h, c, l, i, p⟩ := updateOne_spec (N := N) t u hu
  simp [one, h, c, l, i, p]

theorem uids_setTask (ts : Tasks) (t : Task) : uids (setTask ts t) = uids ts := by
  unfold uids setTask
  rw [List.map_map]
  apply List.map_congr_left
  intro x _
  by_cases h : x.uid = t.uid <;> simp [h]

theorem mem_setTask_same {ts : Tasks} {t0 t' : Task} (h : t0 ∈ ts) (hu : t'.uid = t0.uid) :
    t' ∈ setTask ts t' := by
  unfold setTask
  exact List.mem_map.mpr ⟨t0, h, by simp [hu]⟩

theorem mem_setTask_other {ts : Tasks} {t t' : Task} (h : t ∈ ts) (hu : t.uid ≠ t'.uid) :
    t ∈ setTask ts t' := by
  unfold setTask
  exact List.mem_map.mpr ⟨t, h, by simp [hu]⟩

theorem find_of_mem {ts : Tasks} {t : Task} (hn : (uids ts).Nodup) (h : t ∈ ts) :
    ts.find? (fun x => x.uid = t.uid) = some t := by
  induction ts with
  | nil => cases h
  | cons x xs ih =>
    simp only [uids, List.map_cons, List.nodup_cons] at hn
    rw [List.find?_cons]
    rcases List.mem_cons.mp h with rfl | h
    · simp
    · have : x.uid ≠ t.uid := by
        intro e; exact hn.1 (e ▸ List.mem_map.mpr ⟨t, h, rfl⟩)
      simp [this, ih hn.2 h]

theorem find_none_uid {ts : Tasks} {t : Task} {k : Nat} (h : t ∈ ts)
    (hf : ts.find? (fun x => x.uid = k) = none) : k ≠ t.uid := by
  intro e
  have := List.find?_eq_none.mp hf t h
  simp [e] at this

theorem find_some_uid {ts : Tasks} {t0 : Task} {k : Nat}
    (hf : ts.find? (fun x => x.uid = k) = some t0) : t0 ∈ ts ∧ t0.uid = k := by
  exact ⟨List.mem_of_find?_eq_some hf, by simpa using List.find?_some hf⟩

theorem same_of_uid {ts : Tasks} {a b : Task} (hn : (uids ts).Nodup) (ha : a ∈ ts) (hb : b ∈ ts)
    (h : a.uid = b.uid) : a = b := by
  have h1 := find_of_mem hn ha
  have h2 := find_of_mem hn hb
  rw [h] at h1
  rw [h1] at h2
  exact Option.some.inj h2

/-- **projection**: `_update_tasks` treats every task on its own — what happens
    to task `t` is `foldOne t` of the batch, whatever else the batch contains;
    no exception escapes. -/
theorem updateTasksAux_proj {N : Nat} (us : List Upd) (hw : ∀ u ∈ us, u.state.WF N) :
    ∀ (ts : Tasks) (acc : List (Nat × St)), (uids ts).Nodup → ∀ t ∈ ts,
      (updateTasksAux N ts us acc).1.find? (fun x => x.uid = t.uid) = some (foldOne N t us).1
      ∧ (updateTasksAux N ts us acc).2.1.filter (fun p => p.1 = t.uid)
          = acc.filter (fun p => p.1 = t.uid) ++ (foldOne N t us).2.map (fun s => (t.uid, s))
      ∧ (updateTasksAux N ts us acc).2.2 = none
      ∧ uids (updateTasksAux N ts us acc).1 = uids ts := by
  induction us with
  | nil =>
    intro ts acc hn t ht
    simp [updateTasksAux, foldOne, find_of_mem hn ht]
  | cons u us ih =>
    intro ts acc hn t ht
    have hwu := hw u (List.mem_cons_self)
    have hws : ∀ u ∈ us, u.state.WF N := fun x hx => hw x (List.mem_cons_of_mem _ hx)
    unfold updateTasksAux
    cases hf : ts.find? (fun x => x.uid = u.uid) with
    | none =>
      have hne := find_none_uid ht hf
      simp only [foldOne, hne, if_false]
      exact ih hws ts acc hn t ht
    | some t0 =>
      have ⟨h0m, h0u⟩ := find_some_uid hf
      have ⟨e1, _, _, e4, _⟩ := one_spec (N := N) t0 u hwu
      simp only [e1]
      have hn' : (uids (setTask ts (one N t0 u).1)).Nodup := by rw [uids_setTask]; exact hn
      by_cases hu : u.uid = t.uid
      · have htt : t0 = t := same_of_uid hn h0m ht (by omega)
        subst htt
        have hm : (one N t0 u).1 ∈ setTask ts (one N t0 u).1 := mem_setTask_same h0m e4
        have ⟨i1, i2, i3, i4⟩ := ih hws (setTask ts (one N t0 u).1)
            (acc ++ (one N t0 u).2.map (fun s => (u.uid, s))) hn' _ hm
        rw [e4] at i1 i2
        simp only [hu] at i1 i2 i3 i4
        simp only [foldOne, hu, if_true]
        refine ⟨i1, ?_, i3, by rw [i4, uids_setTask]⟩
        rw [i2]
        have ft : ∀ l : List St, l.filter (fun _ => true) = l := fun l => List.filter_eq_self.mpr (by simp)
        simp [List.filter_append, List.filter_map, Function.comp_def, ft]
      · have hm : t ∈ setTask ts (one N t0 u).1 := mem_setTask_other ht (by omega)
        have ⟨i1, i2, i3, i4⟩ := ih hws (setTask ts (one N t0 u).1)
            (acc ++ (one N t0 u).2.map (fun s => (u.uid, s))) hn' t hm
        simp only [foldOne, hu, if_false]
        refine ⟨i1, ?_, i3, by rw [i4, uids_setTask]⟩
        rw [i2]
        simp [List.filter_append, List.filter_map, hu, Function.comp_def]

theorem foldOne_spec {N : Nat} (us : List Upd) (hw : ∀ u ∈ us, u.state.WF N) (t : Task) :
    Chain N t.state (foldOne N t us).2
    ∧ (foldOne N t us).1.state = lastOf t.state (foldOne N t us).2
    ∧ (foldOne N t us).1.uid = t.uid ∧ (foldOne N t us).1.pilot = t.pilot := by
  induction us generalizing t with
  | nil => simp [foldOne, Chain, lastOf]
  | cons u us ih =>
    have hwu := hw u (List.mem_cons_self)
    have hws : ∀ u ∈ us, u.state.WF N := fun x hx => hw x (List.mem_cons_of_mem _ hx)
    unfold foldOne
    split
    · have ⟨_, c, l, i, p⟩ := one_spec (N := N) t u hwu
      have ⟨c', l', i', p'⟩ := ih hws (one N t u).1
      refine ⟨chain_append c (l ▸ c'), ?_, by rw [i', i], by rw [p', p]⟩
      rw [lastOf_append, ← l]; exact l'
    · exact ih hws t

theorem foldOne_append (N : Nat) (t : Task) (xs ys : List Upd) :
    foldOne N t (xs ++ ys)
      = ((foldOne N (foldOne N t xs).1 ys).1, (foldOne N t xs).2 ++ (foldOne N (foldOne N t xs).1 ys).2) := by
  induction xs generalizing t with
  | nil => simp [foldOne]
  | cons x xs ih =>
    simp only [List.cons_append, foldOne]
    split
    · rw [ih]; simp [List.append_assoc]
    · exact ih t

theorem foldOne_uid_eq {N : Nat} (us : List Upd) (hw : ∀ u ∈ us, u.state.WF N) (t : Task) :
    (foldOne N t us).1.uid = t.uid := (foldOne_spec us hw t).2.2.1

/-- dicts naming other tasks are invisible to `t` -/
theorem foldOne_skip (N : Nat) (t : Task) (xs : List Upd) (d : Upd) (ys : List Upd)
    (hd : d.uid ≠ t.uid) (hw : ∀ u ∈ xs, u.state.WF N) :
    foldOne N t (xs ++ d :: ys) = foldOne N t (xs ++ ys) := by
  rw [foldOne_append, foldOne_append]
  have : d.uid ≠ (foldOne N t xs).1.uid := by rw [foldOne_uid_eq xs hw]; exact hd
  simp [foldOne, this]

/-- values strictly increase along a chain of observable steps -/
theorem chain_increasing {N : Nat} (s : St) (ns : List St) (hs : s.WF N) (h : Chain N s ns) :
    List.Pairwise (· < ·) ((s :: ns).map (St.val N)) ∧ ∀ n ∈ ns, s.val N < n.val N := by
  induction ns generalizing s with
  | nil => simp
  | cons n ns ih =>
    obtain ⟨⟨hf, hw, hv⟩, hc⟩ := h
    have ⟨p, q⟩ := ih n hw hc
    have hlt : s.val N < n.val N := by
      rcases hv with hv | hv
      · omega
      · have : n.val N = N := by cases n <;> simp [St.isFC] at hv <;> rfl
        cases s <;> simp [St.isFinal] at hf
        simp [St.val, St.WF] at *; omega
    have hall : ∀ m ∈ n :: ns, s.val N < m.val N := by
      intro m hm
      rcases List.mem_cons.mp hm with rfl | hm
      · exact hlt
      · exact Nat.lt_trans hlt (q m hm)
    refine ⟨?_, hall⟩
    simp only [List.map_cons, List.pairwise_cons] at p ⊢
    refine ⟨?_, p⟩
    intro a ha
    rcases List.mem_cons.mp ha with rfl | ha
    · exact hlt
    · obtain ⟨m, hm, rfl⟩ := List.mem_map.mp ha
      exact hall m (List.mem_cons_of_mem _ hm)

theorem chain_of_final {N : Nat} (s : St) (ns : List St) (hf : s.isFinal = true)
    (h : Chain N s ns) : ns = [] := by
  cases ns with
  | nil => rfl
  | cons n ns => have := h.1.1; simp [hf] at this


/-- projection for a whole history of batches -/
theorem runBatches_proj {N : Nat} (bs : List (List Upd)) (hw : ∀ b ∈ bs, ∀ u ∈ b, u.state.WF N) :
    ∀ (ts : Tasks), (uids ts).Nodup → ∀ t ∈ ts,
      (runBatches N ts bs).1.find? (fun x => x.uid = t.uid) = some (foldOne N t bs.flatten).1
      ∧ (runBatches N ts bs).2.filter (fun p => p.1 = t.uid)
          = (foldOne N t bs.flatten).2.map (fun s => (t.uid, s)) := by
  induction bs with
  | nil =>
    intro ts hn t ht
    simp [runBatches, foldOne, find_of_mem hn ht]
  | cons b bs ih =>
    intro ts hn t ht
    have hwb : ∀ u ∈ b, u.state.WF N := hw b List.mem_cons_self
    have hws : ∀ b ∈ bs, ∀ u ∈ b, u.state.WF N := fun x hx => hw x (List.mem_cons_of_mem _ hx)
    have ⟨p1, p2, _, p4⟩ := updateTasksAux_proj (N := N) b hwb ts [] hn t ht
    have hm : (foldOne N t b).1 ∈ (updateTasksAux N ts b []).1 := List.mem_of_find?_eq_some p1
    have hn' : (uids (updateTasksAux N ts b []).1).Nodup := by rw [p4]; exact hn
    have ⟨q1, q2⟩ := ih hws _ hn' _ hm
    have hu : (foldOne N t b).1.uid = t.uid := foldOne_uid_eq b hwb t
    rw [hu] at q1 q2
    simp only [runBatches, updateTasks, List.flatten_cons, foldOne_append]
    refine ⟨q1, ?_⟩
    simp only [List.filter_append, q2, p2, List.filter_nil, List.nil_append, List.map_append]

end RPVerif.States
