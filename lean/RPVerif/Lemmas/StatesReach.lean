import RPVerif.Lemmas.States
/-
"No notification is ignored": after a batch a task is at least as far as every notification of the batch that named it
(values of `_task_state_values`; the final states share the top value).  Used by C06_most_advanced.
-/
namespace RPVerif.States

theorem lastOf_snoc (s : St) (xs : List St) (a : St) : lastOf s (xs ++ [a]) = a := by
  rw [lastOf_append]; rfl

theorem lastOf_mem (s : St) (ns : List St) (h : ns ≠ []) : lastOf s ns ∈ ns := by
  induction ns generalizing s with
  | nil => exact absurd rfl h
  | cons n ns ih =>
    cases ns with
    | nil => simp [lastOf]
    | cons m ms =>
      have := ih n (by simp)
      simp only [lastOf] at this ⊢
      exact List.mem_cons_of_mem _ this

theorem lastOf_ge {N : Nat} (s : St) (ns : List St) (hs : s.WF N) (h : Chain N s ns) :
    s.val N ≤ (lastOf s ns).val N := by
  cases ns with
  | nil => exact Nat.le_refl _
  | cons n ns =>
    have := (chain_increasing s (n :: ns) hs h).2 (lastOf s (n :: ns)) (lastOf_mem s (n :: ns) (by simp))
    omega

theorem lastOf_wf {N : Nat} (s : St) (ns : List St) (hs : s.WF N) (h : Chain N s ns) : (lastOf s ns).WF N := by
  induction ns generalizing s with
  | nil => exact hs
  | cons n ns ih => exact ih n h.1.2.1 h.2

/-- one notification brings the task it names at least as far as the state it carries -/
theorem updateOne_reaches {N : Nat} (t : Task) (u : Upd) (hu : u.state.WF N) :
    ∃ t' ns, updateOne N t u = .ok (t', ns) ∧ u.state.val N ≤ t'.state.val N := by
  unfold updateOne
  by_cases h0 : t.state = u.state
  · rw [if_pos h0]; exact ⟨t, [], rfl, by rw [h0]; exact Nat.le_refl _⟩
  rw [if_neg h0]
  unfold taskProgress
  by_cases h1 : t.state = .canceled ∧ u.state.isFinal
  · rw [if_pos h1]
    refine ⟨t, [], by simp [replay], ?_⟩
    have h := val_le hu
    rw [h1.1]; simpa [St.val] using h
  rw [if_neg h1]
  by_cases h2 : t.state.isFinal ∧ u.state.isFinal
  · rw [if_pos h2]
    refine ⟨t, [], by simp [replay], ?_⟩
    have h := val_le hu
    rw [val_final (N := N) h2.1]; exact h
  rw [if_neg h2]
  by_cases h3 : t.state.val N ≥ u.state.val N
  · rw [if_pos h3]
    exact ⟨t, [], by simp [replay], h3⟩
  rw [if_neg h3]
  have hnf : t.state.isFinal = false := by
    cases hfin : t.state.isFinal
    · rfl
    · have := val_final (N := N) hfin
      have := val_le hu
      omega
  have ⟨c, l, f⟩ := nfRange_chain (N := N) (t.state.val N + 1) (u.state.val N) t.state hnf rfl (val_le hu)
  by_cases hfc : u.state.isFC = true
  · simp only [hfc, if_true]
    have : (nfRange (t.state.val N + 1) (u.state.val N) ++ [u.state]).drop
        ((nfRange (t.state.val N + 1) (u.state.val N) ++ [u.state]).length - 1) = [u.state] := by
      simp
    rw [this]
    have hc : Chain N t.state [u.state] := ⟨⟨hnf, hu, Or.inr hfc⟩, trivial⟩
    have ⟨t', e1, e2, _, _⟩ := replay_chain t u [u.state] hc
    refine ⟨t', _, e1, ?_⟩
    rw [e2]; simp [lastOf]
  · simp only [hfc]
    have hc : Chain N t.state (nfRange (t.state.val N + 1) (u.state.val N) ++ [u.state]) := by
      apply chain_append c
      exact ⟨⟨f, hu, Or.inl (by omega)⟩, trivial⟩
    have ⟨t', e1, e2, _, _⟩ := replay_chain t u _ hc
    refine ⟨t', _, e1, ?_⟩
    rw [e2, lastOf_snoc]; exact Nat.le_refl _

theorem one_reaches {N : Nat} (t : Task) (u : Upd) (hu : u.state.WF N) :
    u.state.val N ≤ (one N t u).1.state.val N := by
  have ⟨t', ns, h, hv⟩ := updateOne_reaches (N := N) t u hu
  simp [one, h, hv]

theorem one_wf {N : Nat} (t : Task) (u : Upd) (hu : u.state.WF N) (ht : t.state.WF N) :
    (one N t u).1.state.WF N := by
  have ⟨_, c, l, _, _⟩ := one_spec (N := N) t u hu
  rw [l]; exact lastOf_wf t.state _ ht c

theorem foldOne_mono {N : Nat} (us : List Upd) (hw : ∀ u ∈ us, u.state.WF N) (t : Task) (ht : t.state.WF N) :
    t.state.val N ≤ (foldOne N t us).1.state.val N := by
  have ⟨c, l, _, _⟩ := foldOne_spec (N := N) us hw t
  rw [l]; exact lastOf_ge t.state _ ht c

/-- after the batch the task is at least as far as every notification of the batch that named it -/
theorem foldOne_reaches {N : Nat} (us : List Upd) (hw : ∀ u ∈ us, u.state.WF N) (t : Task) (ht : t.state.WF N)
    (u : Upd) (hu : u ∈ us) (hid : u.uid = t.uid) :
    u.state.val N ≤ (foldOne N t us).1.state.val N := by
  induction us generalizing t with
  | nil => simp at hu
  | cons x xs ih =>
    have hwx := hw x List.mem_cons_self
    have hws : ∀ u ∈ xs, u.state.WF N := fun y hy => hw y (List.mem_cons_of_mem _ hy)
    unfold foldOne
    by_cases hx : x.uid = t.uid
    · rw [if_pos hx]
      simp only
      have hwf := one_wf (N := N) t x hwx ht
      rcases List.mem_cons.mp hu with rfl | hu'
      · exact Nat.le_trans (one_reaches t u hwx) (foldOne_mono xs hws _ hwf)
      · have huid : u.uid = (one N t x).1.uid := by
          rw [(one_spec (N := N) t x hwx).2.2.2.1]; exact hid
        exact ih hws (one N t x).1 hwf hu' huid
    · rw [if_neg hx]
      rcases List.mem_cons.mp hu with rfl | hu'
      · exact absurd hid hx
      · exact ih hws t ht hu' hid

end RPVerif.States
