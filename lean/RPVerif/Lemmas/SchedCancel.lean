import RPVerif.Lemmas.SchedConserve
/-!
Who is reported CANCELED by the agent scheduler (C08): over a whole history of the scheduling loop, only
tasks named by a cancel message or a cancel mark.  Every other task keeps its place: it is not taken out
of the wait pool by somebody else's cancel request and is never reported CANCELED.
-/
namespace RPVerif.Sched
open List

/-- the uids reported CANCELED -/
def canceledUids (evs : List Ev) : List Nat :=
  evs.filterMap (fun e => match e with | .adv u st => if st = "CANCELED" then some u else none)

@[simp] theorem canceledUids_nil : canceledUids [] = [] := rfl
@[simp] theorem canceledUids_append (a b : List Ev) : canceledUids (a ++ b) = canceledUids a ++ canceledUids b := by
  simp [canceledUids, filterMap_append]

theorem canceledUids_map_ne (l : List Req) (st : String) (h : st ≠ "CANCELED") :
    canceledUids (l.map (fun t => Ev.adv t.uid st)) = [] := by
  induction l with
  | nil => rfl
  | cons x xs ih => simpa [canceledUids, h] using ih

/-! ### the cancel list is only touched by the marks and by `parkTasks` -/

theorem finishTask_ck (s : SchedSt) (r : Req) (it : IterSt) : (finishTask s r it).2.cancel = s.cancel := by
  unfold finishTask
  split
  · rfl
  · split <;> rfl

theorem scheduleTask_ck (c : Cfg) (s : SchedSt) (r : Req) : (scheduleTask c s r).2.cancel = s.cancel := by
  unfold scheduleTask
  split
  · rfl
  · split
    · rfl
    · split
      · rfl
      · exact finishTask_ck s r _

theorem tryAllocation_ck (c : Cfg) (s : SchedSt) (r : Req) : (tryAllocation c s r).2.cancel = s.cancel := by
  unfold tryAllocation
  have h := scheduleTask_ck c s r
  rcases hst : scheduleTask c s r with ⟨res, s'⟩
  rw [hst] at h
  simp only at h
  cases res with
  | error e => exact h
  | ok o =>
    cases o with
    | none => simp only; split <;> exact h
    | some sl =>
      cases sl with
      | nil => simp only; split <;> exact h
      | cons x xs => simp only; split <;> exact h

theorem bisCheck_ck (c : Cfg) (data : List Req) (idx : Nat) (b : BisSt) (s : SchedSt) :
    (bisCheck c data idx b s).2.2.cancel = s.cancel := by
  unfold bisCheck
  split
  · rfl
  · rename_i r _
    have := tryAllocation_ck c s r
    split <;> simp_all

theorem bisNext_ck (c : Cfg) (data : List Req) (b : BisSt) (s : SchedSt) (p : BisSt × SchedSt)
    (h : bisNext c data b s = some p) : p.2.cancel = s.cancel := by
  unfold bisNext at h
  split at h
  · have := bisCheck_ck c data (data.length - 1) b s
    split at h <;> (rename_i heq; rw [heq] at this; cases h; exact this)
  · split at h
    · cases h
    · split at h
      · cases h; rfl
      · split at h
        · cases h; rfl
        · rename_i g _ _ _ _ _
          have := bisCheck_ck c data (g - 1) b s
          split at h <;> (rename_i heq; rw [heq] at this; cases h; exact this)
  · split at h
    · cases h
    · rename_i bad _ _
      have hmid : (if bisIdx (resetGood b.lastGood bad) bad ∈ b.good then (true, b, s)
             else if bisIdx (resetGood b.lastGood bad) bad ∈ b.bad then (false, b, s)
             else bisCheck c data (bisIdx (resetGood b.lastGood bad) bad) b s).2.2.cancel = s.cancel := by
        split
        · rfl
        · split
          · rfl
          · exact bisCheck_ck c data _ b s
      split at h
      · rename_i heq; rw [heq] at hmid
        split at h
        · cases h; exact hmid
        · split at h <;> (cases h; exact hmid)
      · rename_i heq; rw [heq] at hmid
        cases h; exact hmid

theorem bisLoop_ck (c : Cfg) (data : List Req) :
    ∀ (fuel : Nat) (b : BisSt) (s : SchedSt), (bisLoop c data fuel b s).2.cancel = s.cancel := by
  intro fuel
  induction fuel with
  | zero => intro b s; rfl
  | succ k ih =>
    intro b s
    rw [bisLoop_succ]
    cases hnx : bisNext c data b s with
    | none => rfl
    | some p => simp only; rw [ih]; exact bisNext_ck c data b s p hnx

theorem lazyBisect_ck (c : Cfg) (data : List Req) (s : SchedSt) : (lazyBisect c data s).2.cancel = s.cancel := by
  unfold lazyBisect
  split
  · rfl
  · exact bisLoop_ck c data _ _ s

theorem incomingOne_ck (c : Cfg) (ts : List Req) :
    ∀ (s : SchedSt) (toWait : List Req) (evs : List Ev), (incomingOne c s ts toWait evs).1.cancel = s.cancel := by
  induction ts with
  | nil => intro s _ _; rfl
  | cons t ts ih =>
    intro s toWait evs
    unfold incomingOne
    have htry := tryAllocation_ck c s t
    split
    · exact ih _ _ _
    · split
      · split
        · rw [ih]
        · split <;> (rename_i heq; rw [heq] at htry; rw [ih]; exact htry)
      · split <;> (rename_i heq; rw [heq] at htry; rw [ih]; exact htry)

theorem releaseOne_ck (s : SchedSt) (u : Nat) : (releaseOne s u).cancel = s.cancel := by
  unfold releaseOne
  split
  · rfl
  · split <;> rfl

theorem unscheduleCompleted_ck (s : SchedSt) (msgs : List (List Nat)) :
    (unscheduleCompleted s msgs).1.cancel = s.cancel := by
  unfold unscheduleCompleted
  split
  split
  · rfl
  · have key : ∀ (l : List Nat) (acc : SchedSt), (l.foldl releaseOne acc).cancel = acc.cancel := by
      intro l
      induction l with
      | nil => intro acc; rfl
      | cons x xs ih => intro acc; rw [foldl_cons, ih, releaseOne_ck]
    rw [key]

/-! ### who is reported CANCELED, stage by stage -/

theorem incomingOne_canceled (c : Cfg) (ts : List Req) :
    ∀ (s : SchedSt) (toWait : List Req) (evs : List Ev),
      canceledUids (incomingOne c s ts toWait evs).2.2 = canceledUids evs := by
  induction ts with
  | nil => intro s _ _; rfl
  | cons t ts ih =>
    intro s toWait evs
    unfold incomingOne
    split
    · exact ih _ _ _
    · split
      · split
        · rw [ih]; simp [canceledUids]
        · split <;> (rw [ih]; try simp [canceledUids])
      · split <;> (rw [ih]; try simp [canceledUids])

theorem waitpoolOne_canceled (c : Cfg) (s : SchedSt) (p : Int) :
    canceledUids (waitpoolOne c s p).2.1 = [] ∧ (waitpoolOne c s p).1.cancel = s.cancel := by
  unfold waitpoolOne
  simp only
  split
  · exact ⟨rfl, rfl⟩
  · split
    · exact ⟨rfl, rfl⟩
    · have hk := lazyBisect_ck c (sortDesc (fun r => r.ranks * r.cpr * r.gpr) ((poolOf s.waitpool p).filter (envOk s.envs))) s
      rcases hlb : lazyBisect c (sortDesc (fun r => r.ranks * r.cpr * r.gpr) ((poolOf s.waitpool p).filter (envOk s.envs))) s with ⟨b, s'⟩
      rw [hlb] at hk
      simp only at hk ⊢
      refine ⟨?_, hk⟩
      rw [canceledUids_append, canceledUids_map_ne _ _ (by decide), canceledUids_map_ne _ _ (by decide)]
      rfl

theorem scheduleWaitpool_canceled (c : Cfg) (s : SchedSt) :
    canceledUids (scheduleWaitpool c s).2.1 = [] ∧ (scheduleWaitpool c s).1.cancel = s.cancel := by
  rw [scheduleWaitpool_eq]
  have key : ∀ (ps : List Int) (acc : SchedSt × List Ev × Bool × Bool),
      canceledUids (ps.foldl (wpStep c) acc).2.1 = canceledUids acc.2.1
      ∧ (ps.foldl (wpStep c) acc).1.cancel = acc.1.cancel := by
    intro ps
    induction ps with
    | nil => intro acc; exact ⟨rfl, rfl⟩
    | cons p ps ih =>
      intro acc
      rw [foldl_cons]
      obtain ⟨w1, w2⟩ := waitpoolOne_canceled c acc.1 p
      rcases hwo : waitpoolOne c acc.1 p with ⟨s', evs, act, unsched⟩
      rw [hwo] at w1 w2
      simp only at w1 w2
      have hstep : wpStep c acc p = (s', acc.2.1 ++ evs, acc.2.2.1 && !unsched, acc.2.2.2 || act) := by
        unfold wpStep; rw [hwo]
      rw [hstep]
      obtain ⟨i1, i2⟩ := ih (s', acc.2.1 ++ evs, acc.2.2.1 && !unsched, acc.2.2.2 || act)
      refine ⟨?_, ?_⟩
      · rw [i1]; simp [w1]
      · rw [i2]; exact w2
  have := key (prios s.waitpool) (s, [], true, false)
  simpa using this

/-- a cancel message: what is reported CANCELED is named by the message; the cancel list is not touched -/
theorem cancelFold_canceled (us : List Nat) :
    ∀ (acc : SchedSt × List Ev),
      (∀ u ∈ canceledUids (us.foldl (fun (acc : SchedSt × List Ev) uid =>
          match removeFromPools acc.1.waitpool uid with
          | (wp, some t) => ({ acc.1 with waitpool := wp }, acc.2 ++ [Ev.adv t.uid "CANCELED"])
          | (_,  none)   => acc) acc).2, u ∈ canceledUids acc.2 ∨ u ∈ us)
      ∧ (us.foldl (fun (acc : SchedSt × List Ev) uid =>
          match removeFromPools acc.1.waitpool uid with
          | (wp, some t) => ({ acc.1 with waitpool := wp }, acc.2 ++ [Ev.adv t.uid "CANCELED"])
          | (_,  none)   => acc) acc).1.cancel = acc.1.cancel := by
  induction us with
  | nil => intro acc; exact ⟨fun u hu => Or.inl hu, rfl⟩
  | cons x xs ih =>
    intro acc
    rw [foldl_cons]
    rcases hr : removeFromPools acc.1.waitpool x with ⟨wp', ot⟩
    cases ot with
    | none =>
      simp only
      obtain ⟨i1, i2⟩ := ih acc
      exact ⟨fun u hu => (i1 u hu).imp id (mem_cons_of_mem _), i2⟩
    | some t =>
      simp only
      obtain ⟨i1, i2⟩ := ih ({ acc.1 with waitpool := wp' }, acc.2 ++ [Ev.adv t.uid "CANCELED"])
      refine ⟨?_, i2⟩
      intro u hu
      rcases i1 u hu with h | h
      · simp only [canceledUids_append, mem_append] at h
        rcases h with h | h
        · exact Or.inl h
        · have htu : t.uid = x := by
            unfold removeFromPools at hr
            cases hf : acc.1.waitpool.find? (fun e => e.2.any (fun r => r.uid = x)) with
            | none => rw [hf] at hr; simp only at hr; cases hr
            | some e =>
              rw [hf] at hr
              simp only [Prod.mk.injEq] at hr
              have := find?_some hr.2; simpa using this
          simp [canceledUids] at h
          exact Or.inr (by rw [h, htu]; exact mem_cons_self)
      · exact Or.inr (mem_cons_of_mem _ h)

/-- the uids named by the cancel messages of an iteration -/
def namedM (msgs : List Msg) : List Nat :=
  msgs.flatMap (fun m => match m with | .cancel us => us | .sched _ => [])

theorem drainIncoming_canceled (msgs : List Msg) :
    ∀ (s : SchedSt) (toSched : List Req) (evs : List Ev),
      (∀ u ∈ canceledUids (drainIncoming s msgs toSched evs).2.2, u ∈ canceledUids evs ∨ u ∈ namedM msgs)
      ∧ (drainIncoming s msgs toSched evs).1.cancel = s.cancel := by
  induction msgs with
  | nil => intro s toSched evs; exact ⟨fun u hu => Or.inl hu, rfl⟩
  | cons m ms ih =>
    intro s toSched evs
    cases m with
    | sched ts =>
      unfold drainIncoming
      obtain ⟨i1, i2⟩ := ih s (toSched ++ ts.filter (fun t => t.ranks > 0))
        (evs ++ (ts.filter (fun t => t.ranks ≤ 0)).map (fun t => Ev.adv t.uid "FAILED"))
      refine ⟨?_, i2⟩
      intro u hu
      rcases i1 u hu with h | h
      · rw [canceledUids_append, canceledUids_map_ne _ _ (by decide), append_nil] at h
        exact Or.inl h
      · exact Or.inr (by simpa [namedM] using h)
    | cancel us =>
      unfold drainIncoming
      have hc := cancelFold_canceled us (s, [])
      generalize (us.foldl (fun (acc : SchedSt × List Ev) uid =>
          match removeFromPools acc.1.waitpool uid with
          | (wp, some t) => ({ acc.1 with waitpool := wp }, acc.2 ++ [Ev.adv t.uid "CANCELED"])
          | (_,  none)   => acc) (s, [])) = r at hc ⊢
      obtain ⟨c1, c2⟩ := hc
      simp only
      obtain ⟨i1, i2⟩ := ih r.1 toSched (evs ++ r.2)
      refine ⟨?_, by rw [i2]; exact c2⟩
      intro u hu
      rcases i1 u hu with h | h
      · rw [canceledUids_append, mem_append] at h
        rcases h with h | h
        · exact Or.inl h
        · rcases c1 u h with h' | h'
          · simp at h'
          · exact Or.inr (by simp only [namedM, flatMap_cons, mem_append]; exact Or.inl h')
      · exact Or.inr (by simp only [namedM, flatMap_cons, mem_append]; exact Or.inr (by simpa [namedM] using h))

/-- parking: what is reported CANCELED was on the cancel list; the list only shrinks -/
theorem parkTasks_canceled (p : Int) (ts : List Req) :
    ∀ (s : SchedSt) (evs : List Ev),
      (∀ u ∈ canceledUids (parkTasks p s ts evs).2, u ∈ canceledUids evs ∨ u ∈ s.cancel)
      ∧ (∀ u ∈ (parkTasks p s ts evs).1.cancel, u ∈ s.cancel) := by
  induction ts with
  | nil => intro s evs; exact ⟨fun u hu => Or.inl hu, fun u hu => hu⟩
  | cons t ts ih =>
    intro s evs
    unfold parkTasks
    by_cases hc : t.uid ∈ s.cancel
    · rw [if_pos hc]
      refine ⟨?_, ?_⟩
      · intro u hu
        rcases (ih _ _).1 u hu with h | h
        · rw [canceledUids_append, mem_append] at h
          rcases h with h | h
          · exact Or.inl h
          · simp [canceledUids] at h
            exact Or.inr (h ▸ hc)
        · exact Or.inr (mem_of_mem_erase h)
      · intro u hu
        exact mem_of_mem_erase ((ih _ _).2 u hu)
    · rw [if_neg hc]
      exact ih _ evs

theorem incomingFold_canceled (c : Cfg) (toSched : List Req) (ps : List Int) :
    ∀ (acc : SchedSt × List Ev × Bool),
      (∀ u ∈ canceledUids (ps.foldl (incStep c toSched) acc).2.1, u ∈ canceledUids acc.2.1 ∨ u ∈ acc.1.cancel)
      ∧ (∀ u ∈ (ps.foldl (incStep c toSched) acc).1.cancel, u ∈ acc.1.cancel) := by
  induction ps with
  | nil => intro acc; exact ⟨fun u hu => Or.inl hu, fun u hu => hu⟩
  | cons p ps ih =>
    intro acc
    rw [foldl_cons]
    have hck := incomingOne_ck c (sortDesc (fun r => r.ranks) (toSched.filter (fun t => t.prio = p))) acc.1 [] []
    have hcc := incomingOne_canceled c (sortDesc (fun r => r.ranks) (toSched.filter (fun t => t.prio = p))) acc.1 [] []
    rcases hio : incomingOne c acc.1 (sortDesc (fun r => r.ranks) (toSched.filter (fun t => t.prio = p))) [] [] with ⟨s2, toWait, evs2⟩
    rw [hio] at hck hcc
    simp only [canceledUids_nil] at hck hcc
    obtain ⟨p1, p2⟩ := parkTasks_canceled p toWait s2 []
    rcases hpt : parkTasks p s2 toWait [] with ⟨s3, evs3⟩
    rw [hpt] at p1 p2
    simp only [canceledUids_nil] at p1 p2
    have hstep : incStep c toSched acc p = (s3, acc.2.1 ++ evs2 ++ evs3, decide (toWait = [])) := by
      unfold incStep; rw [hio]; simp only; rw [hpt]
    rw [hstep]
    obtain ⟨i1, i2⟩ := ih (s3, acc.2.1 ++ evs2 ++ evs3, decide (toWait = []))
    refine ⟨?_, ?_⟩
    · intro u hu
      rcases i1 u hu with h | h
      · simp only [canceledUids_append, mem_append, hcc] at h
        rcases h with (h | h) | h
        · exact Or.inl h
        · simp at h
        · rcases p1 u h with h' | h'
          · simp at h'
          · exact Or.inr (hck ▸ h')
      · exact Or.inr (hck ▸ p2 u h)
    · intro u hu
      exact hck ▸ p2 u (i2 u hu)

/-- `_schedule_incoming`: whoever is reported CANCELED was named by a cancel message of this iteration
    or was on the cancel list; the list only shrinks -/
theorem scheduleIncoming_canceled (c : Cfg) (s : SchedSt) (msgs : List Msg) :
    (∀ u ∈ canceledUids (scheduleIncoming c s msgs).2.1, u ∈ namedM msgs ∨ u ∈ s.cancel)
    ∧ (∀ u ∈ (scheduleIncoming c s msgs).1.cancel, u ∈ s.cancel) := by
  rw [scheduleIncoming_eq]
  obtain ⟨d1, d2⟩ := drainIncoming_canceled msgs s [] []
  rcases hdr : drainIncoming s msgs [] [] with ⟨s1, toSched, evs⟩
  rw [hdr] at d1 d2
  simp only [canceledUids_nil] at d1 d2
  simp only
  have d1' : ∀ u ∈ canceledUids evs, u ∈ namedM msgs := by
    intro u hu; rcases d1 u hu with h | h
    · simp at h
    · exact h
  by_cases he : toSched = []
  · rw [if_pos he]
    exact ⟨fun u hu => Or.inl (d1' u hu), fun u hu => d2 ▸ hu⟩
  · rw [if_neg he]
    obtain ⟨f1, f2⟩ := incomingFold_canceled c toSched (distinctPriosDesc toSched) (s1, evs, true)
    refine ⟨?_, ?_⟩
    · intro u hu
      rcases f1 u hu with h | h
      · exact Or.inl (d1' u h)
      · exact Or.inr (d2 ▸ h)
    · intro u hu
      exact d2 ▸ f2 u hu

theorem loopIterA_canceled (c : Cfg) (s : SchedSt) (res : Bool) (it : Iter) :
    (∀ u ∈ canceledUids (loopIterA c s res it).2.2, u ∈ namedM it.incoming ∨ u ∈ s.cancel ∨ u ∈ it.marks)
    ∧ (∀ u ∈ (loopIterA c s res it).1.cancel, u ∈ s.cancel ∨ u ∈ it.marks) := by
  unfold loopIterA
  simp only
  cases res with
  | true =>
    simp only [if_true]
    obtain ⟨w1, w2⟩ := scheduleWaitpool_canceled c { s with cancel := s.cancel ++ it.marks, envs := s.envs ++ it.envs }
    generalize scheduleWaitpool c { s with cancel := s.cancel ++ it.marks, envs := s.envs ++ it.envs } = w at w1 w2 ⊢
    have w2' : w.1.cancel = s.cancel ++ it.marks := w2
    obtain ⟨i1, i2⟩ := scheduleIncoming_canceled c w.1 it.incoming
    rcases hsi : scheduleIncoming c w.1 it.incoming with ⟨s2, evs2, rInc, x⟩
    rw [hsi] at i1 i2
    simp only at i1 i2 ⊢
    refine ⟨?_, ?_⟩
    · intro u hu
      rw [canceledUids_append, w1, nil_append] at hu
      rcases i1 u hu with h | h
      · exact Or.inl h
      · rw [w2', mem_append] at h; exact Or.inr h
    · intro u hu
      have := i2 u hu
      rw [w2', mem_append] at this; exact this
  | false =>
    simp only [Bool.false_eq_true, if_false]
    obtain ⟨i1, i2⟩ := scheduleIncoming_canceled c { s with cancel := s.cancel ++ it.marks, envs := s.envs ++ it.envs } it.incoming
    rcases hsi : scheduleIncoming c { s with cancel := s.cancel ++ it.marks, envs := s.envs ++ it.envs } it.incoming
      with ⟨s2, evs2, rInc, x⟩
    rw [hsi] at i1 i2
    simp only at i1 i2 ⊢
    refine ⟨?_, ?_⟩
    · intro u hu
      rw [nil_append] at hu
      rcases i1 u hu with h | h
      · exact Or.inl h
      · rw [mem_append] at h; exact Or.inr h
    · intro u hu
      have := i2 u hu
      rw [mem_append] at this; exact this

theorem loopIter_canceled (c : Cfg) (s : SchedSt) (res : Bool) (it : Iter) :
    (∀ u ∈ canceledUids (loopIter c s res it).2.2, u ∈ namedM it.incoming ∨ u ∈ s.cancel ∨ u ∈ it.marks)
    ∧ (∀ u ∈ (loopIter c s res it).1.cancel, u ∈ s.cancel ∨ u ∈ it.marks) := by
  unfold loopIter
  obtain ⟨a1, a2⟩ := loopIterA_canceled c s res it
  rcases hA : loopIterA c s res it with ⟨s2, res1, evs⟩
  rw [hA] at a1 a2
  simp only at a1 a2 ⊢
  have hu := unscheduleCompleted_ck s2 it.unsched
  rcases hU : unscheduleCompleted s2 it.unsched with ⟨s3, r, x⟩
  rw [hU] at hu
  simp only at hu ⊢
  rw [hu]
  exact ⟨a1, a2⟩

/-- a uid that no cancel message and no cancel mark of the history names -/
def unnamed (u : Nat) (its : List Iter) : Prop := ∀ it ∈ its, u ∉ it.marks ∧ u ∉ namedM it.incoming

theorem runLoop_canceled (c : Cfg) (u : Nat) (its : List Iter) :
    ∀ (s : SchedSt) (res : Bool) (acc : List (List Ev)), u ∉ s.cancel → u ∉ canceledUids acc.flatten → unnamed u its →
      u ∉ canceledUids (runLoop c s res its acc).2.2.flatten ∧ u ∉ (runLoop c s res its acc).1.cancel := by
  induction its with
  | nil => intro s res acc h1 h2 _; exact ⟨h2, h1⟩
  | cons it its ih =>
    intro s res acc h1 h2 hn
    unfold runLoop
    obtain ⟨l1, l2⟩ := loopIter_canceled c s res it
    rcases hL : loopIter c s res it with ⟨s', res', evs⟩
    rw [hL] at l1 l2
    simp only at l1 l2 ⊢
    have hit := hn it mem_cons_self
    apply ih s' res' (acc ++ [evs])
    · intro hx
      rcases l2 u hx with h | h
      · exact h1 h
      · exact hit.1 h
    · have hfl : (acc ++ [evs]).flatten = acc.flatten ++ evs := by simp
      rw [hfl, canceledUids_append, mem_append]
      rintro (h | h)
      · exact h2 h
      · rcases l1 u h with h' | h' | h'
        · exact hit.2 h'
        · exact h1 h'
        · exact hit.1 h'
    · intro it' hit'; exact hn it' (mem_cons_of_mem _ hit')

end RPVerif.Sched
