import RPVerif.Model.TmgrSched
/-!
Round robin spreads a batch evenly (C12): the positions `RoundRobin._schedule_tasks` visits are
`(w + j) % k`; any `k` consecutive ones hit every pilot once, so loads differ by at most one.
-/
namespace RPVerif.TmgrSched
open List

/-- the residues visited from cursor `w`: `(w + j) % k` for `j < n` -/
def res (k w n : Nat) : List Nat := (range n).map (fun j => (w + j) % k)

theorem mod_add_inj' (o L j k : Nat) (hj : j < L) (hk : k < L) (h : (o + j) % L = (o + k) % L) : j = k := by
  rcases Nat.lt_or_ge j k with hlt | hge
  · have := Nat.sub_mod_eq_zero_of_mod_eq h.symm
    have e : o + k - (o + j) = k - j := by omega
    rw [e, Nat.mod_eq_of_lt (by omega)] at this
    omega
  · rcases Nat.lt_or_ge k j with hlt | hge'
    · have := Nat.sub_mod_eq_zero_of_mod_eq h
      have e : o + j - (o + k) = j - k := by omega
      rw [e, Nat.mod_eq_of_lt (by omega)] at this
      omega
    · omega

theorem res_nodup (k w n : Nat) (hn : n ≤ k) : (res k w n).Nodup := by
  unfold res
  rw [Nodup, pairwise_map]
  have hr : (range n).Pairwise (· < ·) := pairwise_lt_range
  refine Pairwise.imp_of_mem ?_ hr
  intro a b ha hb hab e
  have := mod_add_inj' w k a b (by have := mem_range.mp ha; omega) (by have := mem_range.mp hb; omega) e
  omega

theorem res_lt (k w n : Nat) (hk : 0 < k) : ∀ x ∈ res k w n, x < k := by
  intro x hx
  obtain ⟨j, _, rfl⟩ := mem_map.mp hx
  exact Nat.mod_lt _ hk

/-- a duplicate-free list of `k` numbers below `k` contains every number below `k` -/
theorem pigeon (l : List Nat) (k : Nat) (hn : l.Nodup) (hlt : ∀ x ∈ l, x < k) (hlen : l.length = k) (p : Nat) (hp : p < k) :
    p ∈ l := by
  apply Classical.byContradiction
  intro hnot
  have hsub : l ⊆ (range k).erase p := by
    intro x hx
    have hxk := hlt x hx
    have hne : x ≠ p := fun e => hnot (e ▸ hx)
    exact (mem_erase_of_ne hne).mpr (mem_range.mpr hxk)
  have h1 := Nodup.length_le_of_subset hn hsub
  have h2 : ((range k).erase p).length = k - 1 := by
    rw [length_erase_of_mem (mem_range.mpr hp), length_range]
  omega

/-- any `k` consecutive positions hit every pilot position exactly once -/
theorem res_window (k w : Nat) (hk : 0 < k) (p : Nat) (hp : p < k) : (res k w k).count p = 1 := by
  have hn := res_nodup k w k (Nat.le_refl k)
  have hm := pigeon (res k w k) k hn (res_lt k w k hk) (by simp [res]) p hp
  rw [hn.count, if_pos hm]

theorem res_add (k w m n : Nat) : res k w (m + n) = res k w m ++ res k (w + m) n := by
  unfold res
  rw [range_add, map_append, map_map]
  congr 1
  apply map_congr_left
  intro j _
  simp only [Function.comp, Nat.add_assoc]

/-- **balance**: among the first `n` positions from any cursor, no pilot position occurs more than
    once more often than another -/
theorem res_balance (k w : Nat) (hk : 0 < k) : ∀ (n : Nat) (p q : Nat), p < k → q < k →
    (res k w n).count p ≤ (res k w n).count q + 1 := by
  intro n
  induction n using Nat.strongRecOn with
  | _ n ih =>
    intro p q hp hq
    by_cases hn : n < k
    · have hnd := res_nodup k w n (Nat.le_of_lt hn)
      have := (nodup_iff_count.mp hnd) p
      omega
    · obtain ⟨m, rfl⟩ : ∃ m, n = m + k := ⟨n - k, by omega⟩
      rw [res_add, count_append, count_append, res_window k (w + m) hk p hp, res_window k (w + m) hk q hq]
      have := ih m (by omega) p q hp hq
      omega

/-! ### the link to `rrAssign` -/

/-- the cursor `RoundRobin._schedule_tasks` uses: the stored index, wrapped when it ran off the list -/
def wrap (k idx : Nat) : Nat := if idx ≥ k then 0 else idx

/-- the pilots a batch is forwarded to, in order -/
def targets : List Out → List Nat
  | []                 => []
  | .fwd _ p :: os     => p :: targets os
  | .sched _ :: os     => targets os

theorem rrAssign_targets (pids : List Nat) (hk : 0 < pids.length) :
    ∀ (ts : List Task) (idx : Nat),
      targets (rrAssign pids idx ts).2 = (res pids.length (wrap pids.length idx) ts.length).map (fun i => pids.getD i 0) := by
  intro ts
  induction ts with
  | nil => intro idx; simp [rrAssign, targets, res]
  | cons t ts ih =>
    intro idx
    unfold rrAssign
    have hw : wrap pids.length idx < pids.length := by unfold wrap; split <;> omega
    have e0 : (if idx ≥ pids.length then 0 else idx) = wrap pids.length idx := rfl
    rw [e0]
    rcases hr : rrAssign pids (wrap pids.length idx + 1) ts with ⟨idx', outs⟩
    have := ih (wrap pids.length idx + 1)
    rw [hr] at this
    simp only [targets, this, length_cons]
    -- the residues: head and tail
    have hres : res pids.length (wrap pids.length idx) (ts.length + 1)
        = wrap pids.length idx :: res pids.length (wrap pids.length (wrap pids.length idx + 1)) ts.length := by
      unfold res
      rw [range_succ_eq_map, map_cons, map_map]
      congr 1
      · simp [Nat.mod_eq_of_lt hw]
      · apply map_congr_left
        intro j _
        simp only [Function.comp]
        by_cases hc : wrap pids.length idx + 1 ≥ pids.length
        · have he : wrap pids.length idx + 1 = pids.length := by omega
          have : wrap pids.length (wrap pids.length idx + 1) = 0 := by
            show (if wrap pids.length idx + 1 ≥ pids.length then 0 else wrap pids.length idx + 1) = 0
            exact if_pos hc
          rw [this, Nat.zero_add]
          have e : wrap pids.length idx + (j + 1) = pids.length + j := by omega
          rw [e, Nat.add_mod_left]
        · have : wrap pids.length (wrap pids.length idx + 1) = wrap pids.length idx + 1 := by
            show (if wrap pids.length idx + 1 ≥ pids.length then 0 else wrap pids.length idx + 1) = wrap pids.length idx + 1
            exact if_neg hc
          rw [this]
          congr 1; omega
    rw [hres, map_cons]

/-- how many tasks of a batch are forwarded to pilot `P` -/
def load (P : Nat) (outs : List Out) : Nat := (targets outs).count P

theorem count_map_getD (pids : List Nat) (hn : pids.Nodup) (l : List Nat) (hl : ∀ x ∈ l, x < pids.length) (i : Nat)
    (hi : i < pids.length) : (l.map (fun j => pids.getD j 0)).count (pids.getD i 0) = l.count i := by
  induction l with
  | nil => rfl
  | cons x xs ih =>
    have hx : x < pids.length := hl x mem_cons_self
    simp only [map_cons, count_cons, ih (fun y hy => hl y (mem_cons_of_mem _ hy))]
    by_cases h : x = i
    · subst h; simp
    · have : ¬ pids.getD x 0 = pids.getD i 0 := by
        intro e
        apply h
        have e' : pids[x]? = pids[i]? := by
          simp only [List.getD, List.getElem?_eq_getElem hx, List.getElem?_eq_getElem hi, Option.getD_some] at e
          rw [List.getElem?_eq_getElem hx, List.getElem?_eq_getElem hi, e]
        exact (List.getElem?_inj hx hn).mp e'
      have this' : ¬ pids[x]?.getD 0 = pids[i]?.getD 0 := this
      simp [h, this']

/-- **round robin spreads a batch**: for every set of eligible pilots (in any order), every stored
    index and every batch, the numbers of tasks forwarded to two eligible pilots differ by at most one -/
theorem rr_balance (pids : List Nat) (hn : pids.Nodup) (idx : Nat) (ts : List Task) (P Q : Nat)
    (hP : P ∈ pids) (hQ : Q ∈ pids) :
    load P (rrAssign pids idx ts).2 ≤ load Q (rrAssign pids idx ts).2 + 1 := by
  have hk : 0 < pids.length := length_pos_of_mem hP
  obtain ⟨i, hi, rfl⟩ := List.getElem_of_mem hP
  obtain ⟨j, hj, rfl⟩ := List.getElem_of_mem hQ
  unfold load
  rw [rrAssign_targets pids hk ts idx]
  have hlt := res_lt pids.length (wrap pids.length idx) ts.length hk
  have ei : pids[i] = pids.getD i 0 := by simp [List.getD, List.getElem?_eq_getElem hi]
  have ej : pids[j] = pids.getD j 0 := by simp [List.getD, List.getElem?_eq_getElem hj]
  rw [ei, ej, count_map_getD pids hn _ hlt i hi, count_map_getD pids hn _ hlt j hj]
  exact res_balance pids.length (wrap pids.length idx) hk ts.length i j hi hj

/-- and every task of the batch is forwarded to an eligible pilot -/
theorem rr_targets_eligible (pids : List Nat) (hk : 0 < pids.length) (idx : Nat) (ts : List Task) :
    (targets (rrAssign pids idx ts).2).length = ts.length ∧ ∀ P ∈ targets (rrAssign pids idx ts).2, P ∈ pids := by
  rw [rrAssign_targets pids hk ts idx]
  refine ⟨by simp [res], ?_⟩
  intro P hP
  obtain ⟨i, hi, rfl⟩ := mem_map.mp hP
  have := res_lt pids.length (wrap pids.length idx) ts.length hk i hi
  simp only [List.getD, List.getElem?_eq_getElem this, Option.getD_some]
  exact getElem_mem this

end RPVerif.TmgrSched
