import RPVerif.Lemmas.Exec
namespace RPVerif.Exec

/-! ### a task whose process has finished by itself is not canceled any more -/

def earlyPc : CPc → Bool
  | .c0 => true | .c1 => true | .cDone => true | _ => false

/-- the process has exited by itself and no cancel_task invocation has got past its "already done?" test -/
structure Finished (s : ES) : Prop where
  exited  : s.proc.isExited = true
  spawned : s.intake ≠ .i0 ∧ s.intake ≠ .i1
  early   : ∀ c ∈ s.cancels, earlyPc c = true
  inl     : ∀ c, s.intake = .iCancel c → earlyPc c = true
  notC    : s.outcome ≠ some .canceled

theorem cancelPc_early (s : ES) (c : CPc) (he : s.proc.isExited = true) (h : earlyPc c = true) : earlyPc (cancelPc s c) = true := by
  cases c with
  | c0 => simp only [cancelPc]; split <;> rfl
  | c1 => simp [cancelPc, he, earlyPc]
  | cDone => rfl
  | c2 => simp [earlyPc] at h
  | c3 => simp [earlyPc] at h
  | c4 => simp [earlyPc] at h
  | c5 => simp [earlyPc] at h

theorem cancelSt_early (s : ES) (c : CPc) (h : earlyPc c = true) : cancelSt s c = s := by
  cases c <;> simp [earlyPc, cancelSt] at h ⊢

theorem finished_step (s : ES) (ch : Choice) (h : Finished s) : Finished (step s ch) := by
  obtain ⟨h1, h2, h3, h4, h5⟩ := h
  cases ch with
  | intake =>
    simp only [step]
    split
    · next hi => exact absurd hi h2.1
    · next hi => exact absurd hi h2.2
    · exact ⟨h1, by simp, h3, by simp, h5⟩
    · split
      · exact ⟨h1, by simp, h3, by intro c hc; simp at hc; subst hc; rfl, h5⟩
      · exact ⟨h1, by simp, h3, by simp, h5⟩
    · next c hi =>
      have hc := h4 c hi
      rw [cancelSt_early s c hc]
      split
      · exact ⟨h1, by simp, h3, by simp, h5⟩
      · exact ⟨h1, by simp, h3, by intro c' hc'; simp at hc'; subst hc'; exact cancelPc_early s c h1 hc, h5⟩
    · exact ⟨h1, by simp, h3, by simp, h5⟩
    · exact ⟨h1, h2, h3, h4, h5⟩
  | intakeFault =>
    simp only [step]
    split
    · next hi => exact absurd hi h2.2
    · exact ⟨h1, h2, h3, h4, h5⟩
  | watcher =>
    simp only [step]
    split
    · split
      · exact ⟨h1, h2, h3, h4, h5⟩
      · exact ⟨h1, h2, h3, h4, h5⟩
    · split <;> exact ⟨h1, h2, h3, h4, h5⟩
    · split <;> exact ⟨h1, h2, h3, h4, h5⟩
    · exact ⟨h1, h2, h3, h4, h5⟩
    · split
      · refine ⟨h1, h2, h3, h4, ?_⟩
        simp only; split <;> simp
      · exact ⟨h1, h2, h3, h4, h5⟩
    · exact ⟨h1, h2, h3, h4, h5⟩
  | cancel i =>
    simp only [step]
    split
    · exact ⟨h1, h2, h3, h4, h5⟩
    · next c hc =>
      have hm : c ∈ s.cancels := List.mem_of_getElem? hc
      have he := h3 c hm
      rw [cancelSt_early s c he]
      refine ⟨h1, h2, ?_, h4, h5⟩
      intro c' hc'
      simp only [setAt] at hc'
      rcases List.mem_or_eq_of_mem_set hc' with hc' | hc'
      · exact h3 c' hc'
      · subst hc'; exact cancelPc_early s c h1 he
  | exit code =>
    simp only [step]
    split
    · next hp => rw [hp] at h1; simp [Proc.isExited] at h1
    · exact ⟨h1, h2, h3, h4, h5⟩
  | cancelReq =>
    simp only [step]
    split
    · refine ⟨h1, h2, ?_, h4, h5⟩
      intro c hc
      rcases List.mem_append.mp hc with hc | hc
      · exact h3 c hc
      · simp at hc; subst hc; rfl
    · exact ⟨h1, h2, h3, h4, h5⟩
  | timeout =>
    simp only [step]
    split
    · refine ⟨h1, h2, ?_, h4, h5⟩
      intro c hc
      rcases List.mem_append.mp hc with hc | hc
      · exact h3 c hc
      · simp at hc; subst hc; rfl
    · exact ⟨h1, h2, h3, h4, h5⟩

theorem finished_run (s : ES) (cs : List Choice) (h : Finished s) : Finished (run s cs) := by
  induction cs generalizing s with
  | nil => exact h
  | cons c cs ih => exact ih _ (finished_step s c h)

def isReq : Choice → Bool
  | .cancelReq => true | .timeout => true | _ => false

/-- as long as no cancel request and no timeout has reached the executor -/
structure Quiet (s : ES) : Prop where
  noCancels : s.cancels = []
  noMark    : s.mark = false
  noInline  : ∀ c, s.intake ≠ .iCancel c
  notC      : s.outcome ≠ some .canceled
  spawned   : s.proc = .none ∨ (s.intake ≠ .i0 ∧ s.intake ≠ .i1)

theorem quiet_step (s : ES) (ch : Choice) (hq : isReq ch = false) (h : Quiet s) : Quiet (step s ch) := by
  obtain ⟨h1, h2, h3, h4, h5⟩ := h
  cases ch with
  | intake =>
    simp only [step]
    split
    · exact ⟨h1, h2, by simp, h4, by rcases h5 with h5 | h5 <;> simp_all⟩
    · exact ⟨h1, h2, by simp, h4, Or.inr (by simp)⟩
    · exact ⟨h1, h2, by simp, h4, Or.inr (by simp)⟩
    · simp only [h2, Bool.false_eq_true, if_false]; exact ⟨h1, rfl, by simp, h4, Or.inr (by simp)⟩
    · next c hi => exact absurd hi (h3 c)
    · exact ⟨h1, h2, by simp, h4, Or.inr (by simp)⟩
    · exact ⟨h1, h2, h3, h4, h5⟩
  | intakeFault =>
    simp only [step]
    split
    · refine ⟨h1, h2, by simp, h4, ?_⟩
      rcases h5 with h5 | h5
      · exact Or.inl h5
      · next hi => exact absurd hi h5.2
    · exact ⟨h1, h2, h3, h4, h5⟩
  | watcher =>
    simp only [step]
    split
    · split <;> exact ⟨h1, h2, h3, h4, h5⟩
    · split <;> exact ⟨h1, h2, h3, h4, h5⟩
    · split <;> exact ⟨h1, h2, h3, h4, h5⟩
    · exact ⟨h1, h2, h3, h4, h5⟩
    · split
      · refine ⟨h1, h2, h3, ?_, h5⟩
        simp only; split <;> simp
      · exact ⟨h1, h2, h3, h4, h5⟩
    · exact ⟨h1, h2, h3, h4, h5⟩
  | cancel i =>
    simp only [step, h1]
    simp
    exact ⟨h1, h2, h3, h4, h5⟩
  | exit code =>
    simp only [step]
    split
    · next hp =>
      refine ⟨h1, h2, h3, h4, ?_⟩
      rcases h5 with h5 | h5
      · rw [hp] at h5; cases h5
      · exact Or.inr h5
    · exact ⟨h1, h2, h3, h4, h5⟩
  | cancelReq => simp [isReq] at hq
  | timeout => simp [isReq] at hq

theorem quiet_run (s : ES) (cs : List Choice) (hq : ∀ c ∈ cs, isReq c = false) (h : Quiet s) : Quiet (run s cs) := by
  induction cs generalizing s with
  | nil => exact h
  | cons c cs ih => exact ih _ (fun x hx => hq x (by simp [hx])) (quiet_step s c (hq c (by simp)) h)

theorem quiet_init : Quiet ({} : ES) :=
  { noCancels := rfl, noMark := rfl, noInline := (fun c h => by cases h), notC := (by simp), spawned := Or.inl rfl }

theorem finished_of_quiet (s : ES) (h : Quiet s) (he : s.proc.isExited = true) : Finished s := by
  obtain ⟨h1, h2, h3, h4, h5⟩ := h
  refine ⟨he, ?_, by simp [h1], fun c hc => absurd hc (h3 c), h4⟩
  rcases h5 with h5 | h5
  · rw [h5] at he; simp [Proc.isExited] at he
  · exact h5

end RPVerif.Exec
