import RPVerif.Model.Sched

namespace RPVerif.Sched
open List

/-- what `pickFree` returns beyond the accumulator: indices inside the scanned
    window, pointing at free entries, strictly increasing -/
theorem pickFree_spec (os : List Occ) (idx need : Nat) (acc : List Nat) :
    ∃ new, (pickFree os idx need acc).1 = acc ++ new
      ∧ (∀ i ∈ new, idx ≤ i ∧ i < idx + os.length ∧ os[i - idx]? = some Occ.free)
      ∧ new.Pairwise (· < ·)
      ∧ (∀ l, (pickFree os idx need acc).2 = some l → idx ≤ l ∧ l < idx + os.length ∧ ∀ i ∈ new, i ≤ l)
      ∧ ((pickFree os idx need acc).2 = none → os = []) := by
  induction os generalizing idx acc with
  | nil => exact ⟨[], by simp [pickFree], by simp, Pairwise.nil, by simp [pickFree], fun _ => rfl⟩
  | cons o os ih =>
    unfold pickFree
    by_cases hfree : o = .free
    · subst hfree
      simp only [if_true]
      by_cases hlen : (acc ++ [idx]).length = need
      · rw [if_pos hlen]
        refine ⟨[idx], rfl, ?_, pairwise_singleton _ _, ?_, by simp⟩
        · intro i hi; simp only [mem_singleton] at hi; subst hi; simp
        · intro l hl; simp only [Option.some.injEq] at hl; subst hl; simp
      · rw [if_neg hlen]
        obtain ⟨new, h1, h2, h3, h4, h5⟩ := ih (idx + 1) (acc ++ [idx])
        rcases hp : pickFree os (idx + 1) need (acc ++ [idx]) with ⟨r, lo⟩
        rw [hp] at h1 h4 h5
        simp only at h1 h4 h5
        have hnew : ∀ i ∈ new, idx + 1 ≤ i := fun i hi => (h2 i hi).1
        have hmem : ∀ i ∈ idx :: new, idx ≤ i ∧ i < idx + (Occ.free :: os).length ∧ (Occ.free :: os)[i - idx]? = some Occ.free := by
          intro i hi
          rcases mem_cons.mp hi with rfl | hi
          · simp
          · obtain ⟨a, b, c⟩ := h2 i hi
            refine ⟨by omega, by simp; omega, ?_⟩
            have : i - idx = (i - (idx + 1)) + 1 := by omega
            rw [this, getElem?_cons_succ]; exact c
        have hpw : (idx :: new).Pairwise (· < ·) :=
          pairwise_cons.mpr ⟨fun i hi => by have := hnew i hi; omega, h3⟩
        cases lo with
        | none =>
          simp only
          refine ⟨idx :: new, by rw [h1]; simp, hmem, hpw, ?_, by simp⟩
          intro l hl; simp only [Option.some.injEq] at hl; subst hl
          have hos : os = [] := h5 rfl
          subst hos
          refine ⟨Nat.le_refl _, by simp, ?_⟩
          intro i hi
          rcases mem_cons.mp hi with rfl | hi
          · exact Nat.le_refl _
          · have ⟨a, b, _⟩ := h2 i hi
            simp only [length_nil, Nat.add_zero] at b
            omega
        | some l' =>
          simp only
          refine ⟨idx :: new, by rw [h1]; simp, hmem, hpw, ?_, by simp⟩
          intro l hl; simp only [Option.some.injEq] at hl; subst hl
          obtain ⟨a, b, c⟩ := h4 l' rfl
          refine ⟨by omega, by simp; omega, ?_⟩
          intro i hi
          rcases mem_cons.mp hi with rfl | hi
          · omega
          · exact c i hi
    · simp only [hfree, if_false]
      by_cases hlen : acc.length = need
      · rw [if_pos hlen]
        refine ⟨[], by simp, by simp, Pairwise.nil, ?_, by simp⟩
        intro l hl; simp only [Option.some.injEq] at hl; subst hl; simp
      · rw [if_neg hlen]
        obtain ⟨new, h1, h2, h3, h4, h5⟩ := ih (idx + 1) acc
        rcases hp : pickFree os (idx + 1) need acc with ⟨r, lo⟩
        rw [hp] at h1 h4 h5
        simp only at h1 h4 h5
        have hmem : ∀ i ∈ new, idx ≤ i ∧ i < idx + (o :: os).length ∧ (o :: os)[i - idx]? = some Occ.free := by
          intro i hi
          obtain ⟨a, b, c⟩ := h2 i hi
          refine ⟨by omega, by simp; omega, ?_⟩
          have : i - idx = (i - (idx + 1)) + 1 := by omega
          rw [this, getElem?_cons_succ]; exact c
        cases lo with
        | none =>
          simp only
          refine ⟨new, h1, hmem, h3, ?_, by simp⟩
          intro l hl; simp only [Option.some.injEq] at hl; subst hl
          have hos : os = [] := h5 rfl
          subst hos
          refine ⟨Nat.le_refl _, by simp, ?_⟩
          intro i hi
          have ⟨a, b, _⟩ := h2 i hi
          simp only [length_nil, Nat.add_zero] at b
          omega
        | some l' =>
          simp only
          refine ⟨new, h1, hmem, h3, ?_, by simp⟩
          intro l hl; simp only [Option.some.injEq] at hl; subst hl
          obtain ⟨a, b, c⟩ := h4 l' rfl
          exact ⟨by omega, by simp; omega, c⟩


theorem pickFree_len (os : List Occ) (idx need : Nat) (acc : List Nat) (h : acc.length < need) :
    (pickFree os idx need acc).1.length ≤ need := by
  induction os generalizing idx acc with
  | nil => simp [pickFree]; omega
  | cons o os ih =>
    unfold pickFree
    by_cases hfree : o = .free
    · subst hfree
      simp only [if_true]
      by_cases hlen : (acc ++ [idx]).length = need
      · rw [if_pos hlen]; simp only; omega
      · rw [if_neg hlen]
        have : (acc ++ [idx]).length < need := by simp at hlen ⊢; omega
        have := ih (idx + 1) (acc ++ [idx]) this
        rcases hp : pickFree os (idx + 1) need (acc ++ [idx]) with ⟨r, lo⟩
        rw [hp] at this
        cases lo <;> simpa using this
    · simp only [hfree, if_false]
      have hne : ¬ acc.length = need := by omega
      rw [if_neg hne]
      have := ih (idx + 1) acc h
      rcases hp : pickFree os (idx + 1) need acc with ⟨r, lo⟩
      rw [hp] at this
      cases lo <;> simpa using this

/-- `pickFree` on the tail of a list from position `k`: the picked positions are
    free entries of the whole list, strictly increasing, all ≥ k and below the new
    loop index; exactly `need` of them when enough are found -/
theorem pickFree_drop (l : List Occ) (k need : Nat) (hneed : 0 < need)
    (hlen : ¬ (pickFree (l.drop k) k need []).1.length < need) :
    (pickFree (l.drop k) k need []).1.length = need
    ∧ (pickFree (l.drop k) k need []).1.Pairwise (· < ·)
    ∧ ∃ last, (pickFree (l.drop k) k need []).2 = some last
        ∧ ∀ i ∈ (pickFree (l.drop k) k need []).1, k ≤ i ∧ i ≤ last ∧ l[i]? = some Occ.free := by
  obtain ⟨new, h1, h2, h3, h4, h5⟩ := pickFree_spec (l.drop k) k need []
  have hle := pickFree_len (l.drop k) k need [] (by simpa using hneed)
  rcases hp : pickFree (l.drop k) k need [] with ⟨r, lo⟩
  rw [hp] at h1 h4 h5 hle hlen
  simp only [nil_append] at h1 h4 h5 hle hlen ⊢
  subst h1
  refine ⟨by omega, h3, ?_⟩
  cases lo with
  | none =>
    have : l.drop k = [] := h5 rfl
    rw [this] at h2
    have : r = [] := by
      cases r with
      | nil => rfl
      | cons x xs =>
        have h := h2 x mem_cons_self
        simp only [length_nil, Nat.add_zero] at h
        omega
    subst this
    simp at hlen; omega
  | some last =>
    obtain ⟨a, b, c⟩ := h4 last rfl
    refine ⟨last, rfl, ?_⟩
    intro i hi
    obtain ⟨x, y, z⟩ := h2 i hi
    refine ⟨x, c i hi, ?_⟩
    rw [getElem?_drop] at z
    have : k + (i - k) = i := by omega
    rwa [this] at z


/-! ### invariant of the `_find_resources` loop -/

def allCores (slots : List Slot) : List Nat := slots.flatMap (·.cores)
def allGpus  (slots : List Slot) : List (Nat × Nat) := slots.flatMap (·.gpus)

/-- what one `_find_resources` call may hand out on node `n` -/
structure NodeFit (n : NodeSt) (cps gpr lfs mem : Nat) (slots : List Slot) : Prop where
  /-- cores: free on the node, pairwise distinct over all slots (strictly increasing) -/
  cores_inc  : (allCores slots).Pairwise (· < ·)
  cores_free : ∀ c ∈ allCores slots, n.cores[c]? = some Occ.free
  /-- every GPU named is an existing, usable GPU and the shares handed out on it fit -/
  gpus_fit   : ∀ g, 0 < shareOf (allGpus slots) g →
                 (∃ o, n.gpus[g]? = some o ∧ o ≠ Occ.down ∧ shareOf (allGpus slots) g + occVal o ≤ 16)
  /-- storage and memory of all slots together fit what the node has left -/
  lfs_fit    : lfs ≠ 0 → ((lfs * slots.length : Nat) : Int) ≤ n.lfs
  mem_fit    : mem ≠ 0 → ((mem * slots.length : Nat) : Int) ≤ n.mem
  /-- shape of every slot (C02) -/
  shape      : ∀ sl ∈ slots, sl.node = n.index ∧ sl.cores.length = cps ∧ sl.lfs = lfs ∧ sl.mem = mem
                 ∧ (gpr ≥ 16 → sl.gpus.length = gpr / 16 ∧ (sl.gpus.map (·.1)).Pairwise (· < ·) ∧ ∀ g ∈ sl.gpus, g.2 = 16)
                 ∧ (0 < gpr ∧ gpr < 16 → ∃ g, sl.gpus = [(g, gpr)])
                 ∧ (gpr = 0 → sl.gpus = [])

/-- loop invariant: the fit so far, plus where the scan resumes -/
structure FRInv (n : NodeSt) (cps gpr lfs mem : Nat) (st : FRState) : Prop where
  fit     : NodeFit n cps gpr lfs mem st.slots
  core_lt : ∀ c ∈ allCores st.slots, c < st.loopCore
  gpu_lt  : gpr ≥ 16 → ∀ g ∈ allGpus st.slots, g.1 < st.loopGpu
  shares  : st.shares = (if gpr < 16 then allGpus st.slots else [])
  whole_share : gpr ≥ 16 → ∀ g ∈ allGpus st.slots, g.2 = 16
  whole_inc   : gpr ≥ 16 → ((allGpus st.slots).map (·.1)).Pairwise (· < ·)

theorem shareOf_nil (g : Nat) : shareOf [] g = 0 := rfl

theorem shareOf_append (a b : List (Nat × Nat)) (g : Nat) : shareOf (a ++ b) g = shareOf a g + shareOf b g := by
  unfold shareOf
  rw [filter_append, foldl_append]
  generalize (filter (fun p => decide (p.1 = g)) b) = l
  generalize foldl (fun a p => a + p.2) 0 (filter (fun p => decide (p.1 = g)) a) = x
  induction l generalizing x with
  | nil => simp
  | cons y ys ih =>
    simp only [foldl_cons]
    rw [ih (x + y.2), ih (0 + y.2)]
    omega

theorem shareOf_single (g' sh g : Nat) : shareOf [(g', sh)] g = if g' = g then sh else 0 := by
  unfold shareOf
  by_cases h : g' = g <;> simp [h]

theorem FRInv_init (n : NodeSt) (cps gpr lfs mem : Nat) (hl : lfs ≠ 0 → (0 : Int) ≤ n.lfs)
    (hm : mem ≠ 0 → (0 : Int) ≤ n.mem) : FRInv n cps gpr lfs mem {} := by
  refine ⟨⟨Pairwise.nil, by simp [allCores], ?_, ?_, ?_, by simp⟩, by simp [allCores], by simp [allGpus],
          by simp [allGpus], by simp [allGpus], by simp [allGpus]⟩
  · intro g hg; simp [allGpus, shareOf] at hg
  · intro h; simpa using hl h
  · intro h; simpa using hm h


theorem shareOf_zero_of_not_mem (l : List (Nat × Nat)) (g : Nat) (h : ∀ p ∈ l, p.1 ≠ g) : shareOf l g = 0 := by
  unfold shareOf
  have : l.filter (fun p => decide (p.1 = g)) = [] := by
    apply filter_eq_nil_iff.mpr
    intro p hp; simpa using h p hp
  rw [this]; rfl

theorem shareOf_pos_mem (l : List (Nat × Nat)) (g : Nat) (h : 0 < shareOf l g) : ∃ p ∈ l, p.1 = g := by
  apply Classical.byContradiction
  intro hc
  have : ∀ p ∈ l, p.1 ≠ g := fun p hp e => hc ⟨p, hp, e⟩
  rw [shareOf_zero_of_not_mem l g this] at h
  omega

/-- shares of a list of distinct whole GPUs -/
theorem shareOf_whole (gs : List Nat) (hinc : gs.Pairwise (· < ·)) (g : Nat) :
    shareOf (gs.map (fun x => (x, 16))) g = if g ∈ gs then 16 else 0 := by
  induction gs with
  | nil => simp [shareOf]
  | cons x xs ih =>
    have hx := pairwise_cons.mp hinc
    rw [map_cons, show ((x, 16) :: map (fun x => (x, 16)) xs) = [(x, 16)] ++ map (fun x => (x, 16)) xs from rfl,
        shareOf_append, shareOf_single, ih hx.2]
    by_cases h1 : x = g
    · subst h1
      have : x ∉ xs := fun hm => Nat.lt_irrefl _ (hx.1 x hm)
      simp [this]
    · have : ¬ g = x := fun e => h1 e.symm
      simp [h1, this]

theorem pickShare_spec (os : List Occ) (idx share : Nat) (sh : List (Nat × Nat)) (g lg : Nat)
    (h : pickShare os idx share sh = (some g, lg)) :
    lg = g ∧ idx ≤ g ∧ ∃ o, os[g - idx]? = some o ∧ o ≠ Occ.down ∧ share + occVal o + shareOf sh g ≤ 16 := by
  induction os generalizing idx with
  | nil => simp [pickShare] at h
  | cons o os ih =>
    unfold pickShare at h
    by_cases hc : o ≠ .down ∧ share + occVal o + shareOf sh idx ≤ 16
    · rw [if_pos hc] at h
      simp only [Prod.mk.injEq, Option.some.injEq] at h
      obtain ⟨rfl, rfl⟩ := h
      exact ⟨rfl, Nat.le_refl _, o, by simp, hc.1, hc.2⟩
    · rw [if_neg hc] at h
      obtain ⟨a, b, o', c1, c2, c3⟩ := ih (idx + 1) h
      refine ⟨a, by omega, o', ?_, c2, c3⟩
      have : g - idx = (g - (idx + 1)) + 1 := by omega
      rw [this, getElem?_cons_succ]; exact c1

theorem allCores_append (a : List Slot) (sl : Slot) : allCores (a ++ [sl]) = allCores a ++ sl.cores := by
  simp [allCores]

theorem allGpus_append (a : List Slot) (sl : Slot) : allGpus (a ++ [sl]) = allGpus a ++ sl.gpus := by
  simp [allGpus]

/-- **one more slot keeps the invariant** -/
theorem findOne_inv (n : NodeSt) (cps gpr lfs mem : Nat) (hcps : 0 < cps) (st st' : FRState)
    (hi : FRInv n cps gpr lfs mem st) (h : findOne n cps gpr lfs mem st = .ok (some st')) :
    FRInv n cps gpr lfs mem st' ∧ st'.slots.length = st.slots.length + 1 := by
  unfold findOne at h
  by_cases hl : lfs ≠ 0 ∧ n.lfs < ((lfs * (st.slots.length + 1) : Nat) : Int)
  · rw [if_pos hl] at h; cases h
  rw [if_neg hl] at h
  by_cases hm : mem ≠ 0 ∧ n.mem < ((mem * (st.slots.length + 1) : Nat) : Int)
  · rw [if_pos hm] at h; cases h
  rw [if_neg hm] at h
  rcases hp : pickFree (n.cores.drop st.loopCore) st.loopCore cps [] with ⟨cs, last⟩
  rw [hp] at h
  simp only at h
  by_cases hlen : cs.length < cps
  · rw [if_pos hlen] at h; cases h
  rw [if_neg hlen] at h
  have hpd := pickFree_drop n.cores st.loopCore cps hcps (by rw [hp]; exact hlen)
  rw [hp] at hpd
  simp only at hpd
  obtain ⟨c1, c2, lastv, c3, c4⟩ := hpd
  subst c3
  -- facts shared by the three GPU modes
  have hlfs : lfs ≠ 0 → ((lfs * (st.slots.length + 1) : Nat) : Int) ≤ n.lfs := by
    intro hne
    have : ¬ n.lfs < ((lfs * (st.slots.length + 1) : Nat) : Int) := fun x => hl ⟨hne, x⟩
    omega
  have hmem : mem ≠ 0 → ((mem * (st.slots.length + 1) : Nat) : Int) ≤ n.mem := by
    intro hne
    have : ¬ n.mem < ((mem * (st.slots.length + 1) : Nat) : Int) := fun x => hm ⟨hne, x⟩
    omega
  have hcinc : ∀ gs, (allCores (st.slots ++ [{ node := n.index, cores := cs, gpus := gs, lfs := lfs, mem := mem }])).Pairwise (· < ·) := by
    intro gs
    rw [allCores_append]
    apply pairwise_append.mpr
    refine ⟨hi.fit.cores_inc, c2, ?_⟩
    intro a ha b hb
    have := hi.core_lt a ha
    have := (c4 b hb).1
    omega
  have hcfree : ∀ gs, ∀ c ∈ allCores (st.slots ++ [{ node := n.index, cores := cs, gpus := gs, lfs := lfs, mem := mem }]),
      n.cores[c]? = some Occ.free := by
    intro gs c hc
    rw [allCores_append] at hc
    rcases mem_append.mp hc with h1 | h1
    · exact hi.fit.cores_free c h1
    · exact (c4 c h1).2.2
  have hclt : ∀ gs, ∀ c ∈ allCores (st.slots ++ [{ node := n.index, cores := cs, gpus := gs, lfs := lfs, mem := mem }]),
      c < lastv + 1 := by
    intro gs c hc
    rw [allCores_append] at hc
    rcases mem_append.mp hc with h1 | h1
    · have := hi.core_lt c h1
      -- lastv ≥ loopCore because at least one core was picked at or after loopCore
      have hne : cs ≠ [] := by intro e; subst e; simp at c1; omega
      obtain ⟨x, hx⟩ := exists_mem_of_ne_nil cs hne
      have := c4 x hx
      omega
    · have := (c4 c h1).2.1; omega
  by_cases hw : gpr ≥ 16
  · -- whole GPUs
    rw [if_pos hw] at h
    by_cases hmod : gpr % 16 ≠ 0
    · rw [if_pos hmod] at h; cases h
    rw [if_neg hmod] at h
    rcases hg : pickFree (n.gpus.drop st.loopGpu) st.loopGpu (gpr / 16) [] with ⟨gs, glast⟩
    rw [hg] at h
    simp only at h
    by_cases hgl : gs.length < gpr / 16
    · rw [if_pos hgl] at h; cases h
    rw [if_neg hgl] at h
    have hgpos : 0 < gpr / 16 := by omega
    have hgd := pickFree_drop n.gpus st.loopGpu (gpr / 16) hgpos (by rw [hg]; exact hgl)
    rw [hg] at hgd
    simp only at hgd
    obtain ⟨g1, g2, glastv, g3, g4⟩ := hgd
    subst g3
    simp only [Except.ok.injEq, Option.some.injEq] at h
    subst h
    simp only
    have hnotfrac : ¬ gpr < 16 := by omega
    have hold_lt := hi.gpu_lt hw
    have hold_sh := hi.whole_share hw
    refine ⟨⟨⟨hcinc _, hcfree _, ?_, ?_, ?_, ?_⟩, hclt _, ?_, ?_, ?_, ?_⟩, by simp⟩
    · -- gpus_fit
      intro g hgp
      rw [allGpus_append, shareOf_append] at hgp ⊢
      simp only at hgp ⊢
      rw [shareOf_whole gs g2] at hgp ⊢
      by_cases hin : g ∈ gs
      · simp only [hin, if_true] at hgp ⊢
        have hold0 : shareOf (allGpus st.slots) g = 0 := by
          apply shareOf_zero_of_not_mem
          intro p hp e
          have := hold_lt p hp
          have := (g4 g hin).1
          omega
        rw [hold0]
        exact ⟨Occ.free, (g4 g hin).2.2, by simp, by simp [occVal]⟩
      · simp only [hin, if_false, Nat.add_zero] at hgp ⊢
        exact hi.fit.gpus_fit g hgp
    · intro hne; simpa using hlfs hne
    · intro hne; simpa using hmem hne
    · intro sl hsl
      rcases mem_append.mp hsl with h1 | h1
      · exact hi.fit.shape sl h1
      · simp only [mem_singleton] at h1; subst h1
        refine ⟨rfl, c1, rfl, rfl, ?_, ?_, ?_⟩
        · intro _; refine ⟨by simpa using g1, ?_, by simp⟩
          simpa [map_map, Function.comp_def] using g2
        · intro hx; omega
        · intro hx; omega
    · -- gpu_lt
      intro _ g hgm
      rw [allGpus_append] at hgm
      rcases mem_append.mp hgm with h1 | h1
      · have := hold_lt g h1
        have hne : gs ≠ [] := by intro e; subst e; simp at g1; omega
        obtain ⟨x, hx⟩ := exists_mem_of_ne_nil gs hne
        have := g4 x hx
        show g.1 < glastv + 1
        omega
      · simp only [mem_map] at h1
        obtain ⟨x, hx, rfl⟩ := h1
        have := (g4 x hx).2.1; simp; omega
    · simp [hnotfrac, hi.shares]
    · intro _ g hgm
      rw [allGpus_append] at hgm
      rcases mem_append.mp hgm with h1 | h1
      · exact hold_sh g h1
      · simp only [mem_map] at h1; obtain ⟨x, _, rfl⟩ := h1; rfl
    · intro _
      rw [allGpus_append, map_append]
      apply pairwise_append.mpr
      refine ⟨hi.whole_inc hw, by simpa [map_map, Function.comp_def] using g2, ?_⟩
      intro a ha b hb
      obtain ⟨p, hp, rfl⟩ := mem_map.mp ha
      simp only [map_map, Function.comp_def, map_id'] at hb
      have := hold_lt p hp
      have := (g4 b hb).1
      omega
  · rw [if_neg hw] at h
    by_cases hf : gpr > 0
    · -- fractional share
      rw [if_pos hf] at h
      rcases hps : pickShare (n.gpus.drop st.loopGpu) st.loopGpu gpr st.shares with ⟨og, lg⟩
      rw [hps] at h
      cases og with
      | none => simp at h
      | some g =>
        simp only [Except.ok.injEq, Option.some.injEq] at h
        subst h
        simp only
        have hfrac : gpr < 16 := by omega
        obtain ⟨_, p2, o, p3, p4, p5⟩ := pickShare_spec _ _ _ _ _ _ hps
        have hsh : st.shares = allGpus st.slots := by rw [hi.shares]; simp [hfrac]
        rw [getElem?_drop] at p3
        have hidx : st.loopGpu + (g - st.loopGpu) = g := by omega
        rw [hidx] at p3
        refine ⟨⟨⟨hcinc _, hcfree _, ?_, ?_, ?_, ?_⟩, hclt _, ?_, ?_, ?_, ?_⟩, by simp⟩
        · intro g' hgp
          rw [allGpus_append, shareOf_append] at hgp ⊢
          simp only at hgp ⊢
          rw [shareOf_single] at hgp ⊢
          by_cases he : g = g'
          · subst he
            simp only [if_true] at hgp ⊢
            refine ⟨o, p3, p4, ?_⟩
            rw [hsh] at p5; omega
          · simp only [he, if_false, Nat.add_zero] at hgp ⊢
            exact hi.fit.gpus_fit g' hgp
        · intro hne; simpa using hlfs hne
        · intro hne; simpa using hmem hne
        · intro sl hsl
          rcases mem_append.mp hsl with h1 | h1
          · exact hi.fit.shape sl h1
          · simp only [mem_singleton] at h1; subst h1
            exact ⟨rfl, c1, rfl, rfl, fun hx => by omega, fun _ => ⟨g, rfl⟩, fun hx => by omega⟩
        · intro hx; omega
        · simp [hfrac, hsh, allGpus_append]
        · intro hx; omega
        · intro hx; omega
    · -- no GPUs
      rw [if_neg hf] at h
      simp only [Except.ok.injEq, Option.some.injEq] at h
      subst h
      simp only
      have hz : gpr = 0 := by omega
      refine ⟨⟨⟨hcinc _, hcfree _, ?_, ?_, ?_, ?_⟩, hclt _, ?_, ?_, ?_, ?_⟩, by simp⟩
      · intro g hgp
        rw [allGpus_append] at hgp ⊢
        simp only [append_nil] at hgp ⊢
        exact hi.fit.gpus_fit g hgp
      · intro hne; simpa using hlfs hne
      · intro hne; simpa using hmem hne
      · intro sl hsl
        rcases mem_append.mp hsl with h1 | h1
        · exact hi.fit.shape sl h1
        · simp only [mem_singleton] at h1; subst h1
          exact ⟨rfl, c1, rfl, rfl, fun hx => by omega, fun hx => by omega, fun _ => rfl⟩
      · intro hx; omega
      · rw [hi.shares]; simp [hz, allGpus_append]
      · intro hx; omega
      · intro hx; omega


/-- **what `_find_resources` returns fits the node** (for every node state, request and count) -/
theorem findLoop_fit (n : NodeSt) (cps gpr lfs mem : Nat) (hcps : 0 < cps) :
    ∀ (k : Nat) (st : FRState) (slots : List Slot), FRInv n cps gpr lfs mem st →
      findLoop n cps gpr lfs mem k st = .ok slots →
      NodeFit n cps gpr lfs mem slots ∧ st.slots.length ≤ slots.length ∧ slots.length ≤ st.slots.length + k := by
  intro k
  induction k with
  | zero =>
    intro st slots hi h
    simp only [findLoop, Except.ok.injEq] at h
    subst h; exact ⟨hi.fit, Nat.le_refl _, Nat.le_refl _⟩
  | succ k ih =>
    intro st slots hi h
    unfold findLoop at h
    cases hf : findOne n cps gpr lfs mem st with
    | error e => rw [hf] at h; cases h
    | ok r =>
      rw [hf] at h
      cases r with
      | none =>
        simp only [Except.ok.injEq] at h
        subst h; exact ⟨hi.fit, Nat.le_refl _, by omega⟩
      | some st' =>
        simp only at h
        have ⟨hi', hl⟩ := findOne_inv n cps gpr lfs mem hcps st st' hi hf
        have ⟨a, b, c⟩ := ih st' slots hi' h
        exact ⟨a, by omega, by omega⟩

theorem findResources_fit (n : NodeSt) (nSlots cps gpr lfs mem : Nat) (p : Bool) (slots : List Slot)
    (hcps : 0 < cps) (hl : lfs ≠ 0 → (0 : Int) ≤ n.lfs) (hm : mem ≠ 0 → (0 : Int) ≤ n.mem)
    (h : findResources n nSlots cps gpr lfs mem p = .ok (some slots)) :
    NodeFit n cps gpr lfs mem slots ∧ slots.length ≤ nSlots ∧ (p = false → slots.length = nSlots) := by
  unfold findResources at h
  cases hf : findLoop n cps gpr lfs mem nSlots {} with
  | error e => rw [hf] at h; cases h
  | ok sl =>
    rw [hf] at h
    simp only at h
    have ⟨a, _, c⟩ := findLoop_fit n cps gpr lfs mem hcps nSlots {} sl (FRInv_init n cps gpr lfs mem hl hm) hf
    by_cases hc : ¬ p = true ∧ sl.length < nSlots
    · rw [if_pos hc] at h; cases h
    · rw [if_neg hc] at h
      simp only [Except.ok.injEq, Option.some.injEq] at h
      subst h
      refine ⟨a, by simpa using c, ?_⟩
      intro hp
      have : ¬ sl.length < nSlots := fun x => hc ⟨by simp [hp], x⟩
      simp at c; omega

/-! ### `_change_slot_states`: marking busy and freeing again -/

def foldSet (l : List Occ) (idxs : List Nat) (v : Occ) : List Occ := idxs.foldl (fun cs i => setAt cs i v) l

theorem foldSet_get (idxs : List Nat) (l : List Occ) (v : Occ) (j : Nat) :
    (foldSet l idxs v)[j]? = if j ∈ idxs then (l[j]?).map (fun _ => v) else l[j]? := by
  induction idxs generalizing l with
  | nil => simp [foldSet]
  | cons i is ih =>
    simp only [foldSet, foldl_cons] at ih ⊢
    rw [ih (setAt l i v)]
    unfold setAt
    by_cases hj : j ∈ is
    · simp only [hj, mem_cons, or_true, if_true]
      by_cases hij : i = j
      · subst hij; simp [getElem?_set]; split <;> simp_all
      · rw [getElem?_set_ne hij]
    · simp only [hj, mem_cons, or_false]
      by_cases hij : j = i
      · subst hij; simp [getElem?_set]; split <;> simp_all
      · have : ¬ i = j := fun e => hij e.symm
        simp [hij, getElem?_set_ne this]

/-- marking a set of free entries busy and then free again restores the list -/
theorem foldSet_inverse (l : List Occ) (idxs : List Nat) (hfree : ∀ i ∈ idxs, l[i]? = some Occ.free) :
    foldSet (foldSet l idxs .busy) idxs .free = l := by
  apply ext_getElem?
  intro j
  rw [foldSet_get, foldSet_get]
  by_cases hj : j ∈ idxs
  · simp only [hj, if_true, Option.map_map]
    rw [hfree j hj]; rfl
  · simp [hj]

/-- busy marks exactly the named entries -/
theorem foldSet_busy (l : List Occ) (idxs : List Nat) (j : Nat) (o : Occ) (hj : l[j]? = some o) :
    (foldSet l idxs .busy)[j]? = some (if j ∈ idxs then Occ.busy else o) := by
  rw [foldSet_get]
  by_cases h : j ∈ idxs <;> simp [h, hj]

theorem applySlot_inverse (n : NodeSt) (sl : Slot)
    (hc : ∀ i ∈ sl.cores, n.cores[i]? = some Occ.free)
    (hg : ∀ g ∈ sl.gpus, n.gpus[g.1]? = some Occ.free) :
    applySlot (applySlot n sl true) sl false = n := by
  have h1 : foldSet (foldSet n.cores sl.cores .busy) sl.cores .free = n.cores := foldSet_inverse _ _ hc
  have hgi : ∀ i ∈ sl.gpus.map (·.1), n.gpus[i]? = some Occ.free := by
    intro i hi; obtain ⟨g, hg', rfl⟩ := mem_map.mp hi; exact hg g hg'
  have h2 : foldSet (foldSet n.gpus (sl.gpus.map (·.1)) .busy) (sl.gpus.map (·.1)) .free = n.gpus :=
    foldSet_inverse _ _ hgi
  have hfold : ∀ (l : List Occ) (v : Occ), sl.gpus.foldl (fun gs g => setAt gs g.1 v) l = foldSet l (sl.gpus.map (·.1)) v := by
    intro l v; unfold foldSet; rw [foldl_map]
  cases n with
  | mk index cores gpus lfs mem =>
    simp only [applySlot, if_true, Bool.false_eq_true, if_false, hfold] at *
    simp only [foldSet] at h1
    rw [h1, h2]
    congr 1 <;> omega

end RPVerif.Sched
