import RPVerif.Lemmas.States
import RPVerif.Model.Pipeline
/-! helper lemmas for C05: what the client's task state is after a stream of notifications -/
namespace RPVerif.States
open List

/-- the state a task is in after one notification -/
theorem one_state {N : Nat} (t : Task) (u : Upd) (hu : u.state.WF N) :
    (one N t u).1.state = if t.state.isFinal = false ∧ t.state.val N < u.state.val N then u.state else t.state := by
  have hspec := one_spec (N := N) t u hu
  have hone : updateOne N t u = .ok (one N t u) := hspec.1
  unfold updateOne at hone
  by_cases h0 : t.state = u.state
  · rw [if_pos h0] at hone
    injection hone with hone
    rw [← hone]
    simp [h0]
  rw [if_neg h0] at hone
  unfold taskProgress at hone
  by_cases h1 : t.state = .canceled ∧ u.state.isFinal
  · rw [if_pos h1] at hone
    have hnil : ∀ (b : Bool), (if b = true then drop (([] : List St).length - 1) [] else []) = ([] : List St) := by intro b; cases b <;> rfl
    simp only [hnil, replay] at hone
    injection hone with hone
    rw [← hone]
    simp [h1.1, St.isFinal]
  rw [if_neg h1] at hone
  by_cases h2 : t.state.isFinal ∧ u.state.isFinal
  · rw [if_pos h2] at hone
    have hnil : ∀ (b : Bool), (if b = true then drop (([] : List St).length - 1) [] else []) = ([] : List St) := by intro b; cases b <;> rfl
    simp only [hnil, replay] at hone
    injection hone with hone
    rw [← hone]
    simp [h2.1]
  rw [if_neg h2] at hone
  by_cases h3 : t.state.val N ≥ u.state.val N
  · rw [if_pos h3] at hone
    have hnil : ∀ (b : Bool), (if b = true then drop (([] : List St).length - 1) [] else []) = ([] : List St) := by intro b; cases b <;> rfl
    simp only [hnil, replay] at hone
    injection hone with hone
    rw [← hone]
    have : ¬ (t.state.val N < u.state.val N) := by omega
    simp [this]
  rw [if_neg h3] at hone
  have hnf : t.state.isFinal = false := by
    cases hfin : t.state.isFinal
    · rfl
    · have := val_final (N := N) hfin
      have := val_le hu
      omega
  have hlt : t.state.val N < u.state.val N := by omega
  rw [if_pos ⟨hnf, hlt⟩]
  have ⟨c, l, f⟩ := nfRange_chain (N := N) (t.state.val N + 1) (u.state.val N) t.state hnf rfl (val_le hu)
  by_cases hfc : u.state.isFC = true
  · simp only [hfc, if_true] at hone
    have hd : (nfRange (t.state.val N + 1) (u.state.val N) ++ [u.state]).drop
        ((nfRange (t.state.val N + 1) (u.state.val N) ++ [u.state]).length - 1) = [u.state] := by
      simp
    rw [hd] at hone
    have hc : Chain N t.state [u.state] := ⟨⟨hnf, hu, Or.inr hfc⟩, trivial⟩
    have ⟨t', e1, e2, _, _⟩ := replay_chain t u [u.state] hc
    rw [e1] at hone
    injection hone with hone
    rw [← hone]
    simpa [lastOf] using e2
  · simp only [hfc] at hone
    have hc : Chain N t.state (nfRange (t.state.val N + 1) (u.state.val N) ++ [u.state]) := by
      apply chain_append c
      exact ⟨⟨f, hu, Or.inl (by omega)⟩, trivial⟩
    have ⟨t', e1, e2, _, _⟩ := replay_chain t u _ hc
    simp only [Bool.false_eq_true, if_false] at hone
    rw [e1] at hone
    injection hone with hone
    rw [← hone]
    rw [e2, lastOf_append]
    rfl

theorem chain_lastOf_wf {N : Nat} (s : St) (ns : List St) (hs : s.WF N) (h : Chain N s ns) : (lastOf s ns).WF N := by
  induction ns generalizing s with
  | nil => simpa [lastOf] using hs
  | cons n ns ih => exact ih n h.1.2.1 h.2

theorem nonfinal_val_lt {N : Nat} (s : St) (hs : s.WF N) (hn : s.isFinal = false) : s.val N < N := by
  cases s <;> simp [St.isFinal] at hn
  simpa [St.val, St.WF] using hs

/-- notifications whose final states all agree on `f`: the task stays non-final or is `f` -/
theorem foldOne_inv {N : Nat} (f : St) (hf : f.isFinal = true) (us : List Upd) (hw : ∀ u ∈ us, u.state.WF N)
    (hall : ∀ u ∈ us, u.state.isFinal = true → u.state = f) :
    ∀ t : Task, (t.state.isFinal = false ∨ t.state = f) →
      ((foldOne N t us).1.state.isFinal = false ∨ (foldOne N t us).1.state = f) := by
  induction us with
  | nil => intro t h; simpa [foldOne] using h
  | cons u us ih =>
    intro t h
    have hwu := hw u mem_cons_self
    have hws : ∀ x ∈ us, x.state.WF N := fun x hx => hw x (mem_cons_of_mem _ hx)
    have halls : ∀ x ∈ us, x.state.isFinal = true → x.state = f := fun x hx => hall x (mem_cons_of_mem _ hx)
    unfold foldOne
    split
    · apply ih hws halls
      rw [one_state t u hwu]
      split
      · cases hfu : u.state.isFinal with
        | false => exact Or.inl rfl
        | true => exact Or.inr (hall u mem_cons_self hfu)
      · exact h
    · exact ih hws halls t h

/-- once the task is in the final state `f`, further notifications of this kind leave it there -/
theorem foldOne_stays {N : Nat} (f : St) (hf : f.isFinal = true) (us : List Upd) (hw : ∀ u ∈ us, u.state.WF N) :
    ∀ t : Task, t.state = f → (foldOne N t us).1.state = f := by
  induction us with
  | nil => intro t h; simpa [foldOne] using h
  | cons u us ih =>
    intro t h
    have hwu := hw u mem_cons_self
    have hws : ∀ x ∈ us, x.state.WF N := fun x hx => hw x (mem_cons_of_mem _ hx)
    unfold foldOne
    split
    · apply ih hws
      rw [one_state t u hwu]
      have : ¬ (t.state.isFinal = false ∧ t.state.val N < u.state.val N) := by
        intro hh; rw [h, hf] at hh; exact absurd hh.1 (by simp)
      rw [if_neg this]; exact h
    · exact ih hws t h

/-- **the client ends in `f`**: a non-final task that receives, in any order and among any other
    notifications, at least one notification of the final state `f` and no other final state -/
theorem foldOne_final {N : Nat} (f : St) (hf : f.isFinal = true) (us : List Upd) (hw : ∀ u ∈ us, u.state.WF N)
    (t : Task) (ht : t.state.isFinal = false) (htw : t.state.WF N)
    (hall : ∀ u ∈ us, u.uid = t.uid → u.state.isFinal = true → u.state = f)
    (hex : ∃ u ∈ us, u.uid = t.uid ∧ u.state = f) :
    (foldOne N t us).1.state = f := by
  obtain ⟨uf, huf, huid, hst⟩ := hex
  obtain ⟨pre, post, hsplit⟩ := append_of_mem huf
  subst hsplit
  rw [foldOne_append]
  simp only
  have hwpre : ∀ u ∈ pre, u.state.WF N := fun u hu => hw u (mem_append_left _ hu)
  have hwpost : ∀ u ∈ post, u.state.WF N := fun u hu => hw u (mem_append_right _ (mem_cons_of_mem _ hu))
  -- only the notifications naming `t` matter; restrict `hall` to them by a filtered view
  have key : ∀ (l : List Upd), (∀ u ∈ l, u.state.WF N) → (∀ u ∈ l, u.uid = t.uid → u.state.isFinal = true → u.state = f) →
      ∀ s : Task, s.uid = t.uid → (s.state.isFinal = false ∨ s.state = f) →
        ((foldOne N s l).1.state.isFinal = false ∨ (foldOne N s l).1.state = f) := by
    intro l
    induction l with
    | nil => intro _ _ s _ h; simpa [foldOne] using h
    | cons u l ih =>
      intro hwl hal s hs h
      have hwu := hwl u mem_cons_self
      unfold foldOne
      split
      · rename_i hu
        apply ih (fun x hx => hwl x (mem_cons_of_mem _ hx)) (fun x hx => hal x (mem_cons_of_mem _ hx))
        · rw [(one_spec (N := N) s u hwu).2.2.2.1]; exact hs
        · rw [one_state s u hwu]
          split
          · cases hfu : u.state.isFinal with
            | false => exact Or.inl rfl
            | true => exact Or.inr (hal u mem_cons_self (hu.trans hs) hfu)
          · exact h
      · exact ih (fun x hx => hwl x (mem_cons_of_mem _ hx)) (fun x hx => hal x (mem_cons_of_mem _ hx)) s hs h
  have h1 := key pre hwpre (fun u hu => hall u (mem_append_left _ hu)) t rfl (Or.inl ht)
  have huid1 : (foldOne N t pre).1.uid = t.uid := foldOne_uid_eq pre hwpre t
  -- the notification of `f` itself
  have hstep : (foldOne N (foldOne N t pre).1 (uf :: post)).1.state = f := by
    unfold foldOne
    rw [if_pos (huid.trans huid1.symm)]
    apply foldOne_stays f hf post hwpost
    rw [one_state _ uf (hw uf huf)]
    rcases h1 with h1 | h1
    · have hv : (foldOne N t pre).1.state.val N < uf.state.val N := by
        rw [hst, val_final hf]
        have hsp := foldOne_spec (N := N) pre hwpre t
        have hwf : (foldOne N t pre).1.state.WF N := by
          rw [hsp.2.1]; exact chain_lastOf_wf _ _ htw hsp.1
        exact nonfinal_val_lt _ hwf h1
      rw [if_pos ⟨h1, hv⟩]; exact hst
    · have : ¬ ((foldOne N t pre).1.state.isFinal = false ∧ (foldOne N t pre).1.state.val N < uf.state.val N) := by
        intro hh; rw [h1, hf] at hh; exact absurd hh.1 (by simp)
      rw [if_neg this]; exact h1
  exact hstep

end RPVerif.States
