import RPVerif.Model.Sched
/-!
`ru.lazy_bisect` classifies every element exactly once (C04).

The loop of `lazy_bisect` keeps a *frontier*: every index at or above it is classified (good, bad or
failed), bad and failed indices never lie below it, and every pass either lowers the frontier or - with
the frontier fixed - moves the last known good index closer to it.  So the loop comes to its end, and
when it does the frontier is 0: the three lists partition the indices of `data`.
The check (`_try_allocation`) is arbitrary here: nothing is assumed about its answers.
-/
namespace RPVerif.Sched
open List

/-- how often index `i` occurs in the three result lists -/
def cnt (b : BisSt) (i : Nat) : Nat := count i b.good + count i b.bad + count i b.fail

def frontier (n : Nat) (b : BisSt) : Nat :=
  match b.lastGood, b.lastBad with
  | none,   none    => n
  | some g, none    => g
  | _,      some bd => bd

def gapOf (og : Option Nat) (bd : Nat) : Nat :=
  match resetGood og bd with
  | some g => bd - g
  | none   => bd + 1

/-- the measure that decreases with every pass of the loop -/
def mu (n : Nat) (b : BisSt) : Nat :=
  match b.lastGood, b.lastBad with
  | none,   none    => n * (n + 2) + 1
  | some g, none    => g * (n + 2)
  | og,     some bd => bd * (n + 2) + gapOf og bd

structure BInv (n : Nat) (b : BisSt) : Prop where
  le1   : ∀ i, cnt b i ≤ 1
  bound : ∀ i, n ≤ i → cnt b i = 0
  upper : ∀ i, frontier n b ≤ i → i < n → cnt b i = 1
  low   : ∀ i, 0 < count i b.bad + count i b.fail → frontier n b ≤ i
  gd    : ∀ g, b.lastGood = some g → 0 < count g b.good
  bdc   : ∀ bd, b.lastBad = some bd → 0 < count bd b.bad + count bd b.fail
  init  : b.lastGood = none → b.lastBad = none → ∀ i, cnt b i = 0

theorem BInv.lt_good {n : Nat} {b : BisSt} (h : BInv n b) (g : Nat) (hg : b.lastGood = some g) : g < n := by
  have h1 := h.gd g hg
  apply Classical.byContradiction
  intro hn
  have := h.bound g (by omega)
  unfold cnt at this; omega

theorem BInv.lt_bad {n : Nat} {b : BisSt} (h : BInv n b) (bd : Nat) (hb : b.lastBad = some bd) : bd < n := by
  have h1 := h.bdc bd hb
  apply Classical.byContradiction
  intro hn
  have := h.bound bd (by omega)
  unfold cnt at this; omega

/-! ### one call of the check -/

/-- what `bisCheck` does to the bookkeeping: the index goes to exactly one list, the two markers stay -/
theorem bisCheck_spec (c : Cfg) (data : List Req) (idx : Nat) (b : BisSt) (s : SchedSt) (hi : idx < data.length) :
    (bisCheck c data idx b s).2.1.lastGood = b.lastGood ∧ (bisCheck c data idx b s).2.1.lastBad = b.lastBad ∧
    (((bisCheck c data idx b s).1 = true ∧ (bisCheck c data idx b s).2.1.good = b.good ++ [idx]
        ∧ (bisCheck c data idx b s).2.1.bad = b.bad ∧ (bisCheck c data idx b s).2.1.fail = b.fail)
     ∨ ((bisCheck c data idx b s).1 = false ∧ (bisCheck c data idx b s).2.1.good = b.good
        ∧ (((bisCheck c data idx b s).2.1.bad = b.bad ++ [idx] ∧ (bisCheck c data idx b s).2.1.fail = b.fail)
           ∨ ((bisCheck c data idx b s).2.1.bad = b.bad ∧ (bisCheck c data idx b s).2.1.fail = b.fail ++ [idx])))) := by
  unfold bisCheck
  rw [List.getElem?_eq_getElem hi]
  simp only
  rcases tryAllocation c s data[idx] with ⟨r, s'⟩
  cases r with
  | error e => simp
  | ok v => cases v <;> simp

/-! ### the indices `lazy_bisect` assumes to be bad without checking them -/

theorem markSkipped_fold (bd : Nat) : ∀ (k : Nat) (b : BisSt),
    ((List.range k).foldl
      (fun b i => if (bd - i - 1) ∉ b.bad ∧ (bd - i - 1) ∉ b.good
                  then { b with bad := b.bad ++ [bd - i - 1] } else b) b).good = b.good
    ∧ ((List.range k).foldl
      (fun b i => if (bd - i - 1) ∉ b.bad ∧ (bd - i - 1) ∉ b.good
                  then { b with bad := b.bad ++ [bd - i - 1] } else b) b).fail = b.fail
    ∧ ((List.range k).foldl
      (fun b i => if (bd - i - 1) ∉ b.bad ∧ (bd - i - 1) ∉ b.good
                  then { b with bad := b.bad ++ [bd - i - 1] } else b) b).lastGood = b.lastGood
    ∧ ((List.range k).foldl
      (fun b i => if (bd - i - 1) ∉ b.bad ∧ (bd - i - 1) ∉ b.good
                  then { b with bad := b.bad ++ [bd - i - 1] } else b) b).lastBad = b.lastBad
    ∧ (k ≤ bd → ∀ j, count j ((List.range k).foldl
      (fun b i => if (bd - i - 1) ∉ b.bad ∧ (bd - i - 1) ∉ b.good
                  then { b with bad := b.bad ++ [bd - i - 1] } else b) b).bad
        = if bd - k ≤ j ∧ j < bd ∧ count j b.bad = 0 ∧ count j b.good = 0 then 1 else count j b.bad) := by
  intro k
  induction k with
  | zero =>
    intro b
    refine ⟨rfl, rfl, rfl, rfl, ?_⟩
    intro _ j
    simp only [range_zero, foldl_nil]
    rw [if_neg]; omega
  | succ k ih =>
    intro b
    rw [range_succ, foldl_append]
    obtain ⟨h1, h2, h3, h4, h5⟩ := ih b
    generalize ((List.range k).foldl
      (fun b i => if (bd - i - 1) ∉ b.bad ∧ (bd - i - 1) ∉ b.good
                  then { b with bad := b.bad ++ [bd - i - 1] } else b) b) = b1 at h1 h2 h3 h4 h5
    simp only [foldl_cons, foldl_nil]
    by_cases hc : (bd - k - 1) ∉ b1.bad ∧ (bd - k - 1) ∉ b1.good
    · rw [if_pos hc]
      refine ⟨h1, h2, h3, h4, ?_⟩
      intro hk j
      have h5' := h5 (by omega) j
      simp only [count_append, h5']
      have hb0 : count (bd - k - 1) b1.bad = 0 := count_eq_zero.mpr hc.1
      have hg0 : count (bd - k - 1) b.good = 0 := by rw [← h1]; exact count_eq_zero.mpr hc.2
      have h5k := h5 (by omega) (bd - k - 1)
      rw [hb0] at h5k
      by_cases hj : j = bd - k - 1
      · subst hj
        have hnb : count (bd - k - 1) b.bad = 0 := by
          by_cases hx : bd - k ≤ bd - k - 1 ∧ bd - k - 1 < bd ∧ count (bd - k - 1) b.bad = 0 ∧ count (bd - k - 1) b.good = 0
          · exact hx.2.2.1
          · rw [if_neg hx] at h5k; exact h5k.symm
        rw [if_neg (by omega), if_pos ⟨by omega, by omega, hnb, hg0⟩, hnb]
        simp
      · have : count j [bd - k - 1] = 0 := by
          rw [count_singleton]; simp; omega
        rw [this, Nat.add_zero]
        by_cases hx : bd - k ≤ j ∧ j < bd ∧ count j b.bad = 0 ∧ count j b.good = 0
        · rw [if_pos hx, if_pos ⟨by omega, hx.2⟩]
        · rw [if_neg hx, if_neg (by intro hy; apply hx; exact ⟨by omega, hy.2⟩)]
    · rw [if_neg hc]
      refine ⟨h1, h2, h3, h4, ?_⟩
      intro hk j
      rw [h5 (by omega) j]
      by_cases hj : j = bd - k - 1
      · subst hj
        -- the index is already known
        have hkn : 0 < count (bd - k - 1) b1.bad ∨ 0 < count (bd - k - 1) b1.good := by
          by_cases h0 : (bd - k - 1) ∈ b1.bad
          · exact Or.inl (count_pos_iff.mpr h0)
          · by_cases h00 : (bd - k - 1) ∈ b1.good
            · exact Or.inr (count_pos_iff.mpr h00)
            · exact absurd ⟨h0, h00⟩ hc
        have h5k := h5 (by omega) (bd - k - 1)
        rw [if_neg (by omega)] at h5k
        rw [if_neg (by omega)]
        by_cases hx : bd - (k + 1) ≤ bd - k - 1 ∧ bd - k - 1 < bd ∧ count (bd - k - 1) b.bad = 0 ∧ count (bd - k - 1) b.good = 0
        · rcases hkn with hkn | hkn
          · rw [h5k] at hkn; omega
          · rw [h1] at hkn; omega
        · rw [if_neg hx]
      · by_cases hx : bd - k ≤ j ∧ j < bd ∧ count j b.bad = 0 ∧ count j b.good = 0
        · rw [if_pos hx, if_pos ⟨by omega, hx.2⟩]
        · rw [if_neg hx, if_neg (by intro hy; apply hx; exact ⟨by omega, hy.2⟩)]

theorem markSkipped_spec (b : BisSt) (bd idx : Nat) (h : idx < bd) :
    (markSkipped b bd idx).good = b.good ∧ (markSkipped b bd idx).fail = b.fail
    ∧ (markSkipped b bd idx).lastGood = b.lastGood ∧ (markSkipped b bd idx).lastBad = b.lastBad
    ∧ ∀ j, count j (markSkipped b bd idx).bad
        = if idx < j ∧ j < bd ∧ count j b.bad = 0 ∧ count j b.good = 0 then 1 else count j b.bad := by
  unfold markSkipped
  obtain ⟨h1, h2, h3, h4, h5⟩ := markSkipped_fold bd (bd - idx - 1) b
  refine ⟨h1, h2, h3, h4, ?_⟩
  intro j
  rw [h5 (by omega) j]
  by_cases hx : idx < j ∧ j < bd ∧ count j b.bad = 0 ∧ count j b.good = 0
  · rw [if_pos hx, if_pos ⟨by omega, hx.2⟩]
  · rw [if_neg hx, if_neg (by intro hy; apply hx; exact ⟨by omega, hy.2⟩)]

/-! ### the bisected candidate -/

theorem bisIdx_none (bd : Nat) (h : 0 < bd) : bisIdx none bd < bd := by
  unfold bisIdx ceilHalf
  simp only [reduceCtorEq, if_false]
  split <;> omega

theorem bisIdx_some (g bd : Nat) (h : g < bd) :
    g ≤ bisIdx (some g) bd ∧ bisIdx (some g) bd < bd ∧ (bisIdx (some g) bd = g → bd = g + 1) := by
  unfold bisIdx ceilHalf
  simp only [Option.some.injEq]
  by_cases h1 : g = min ((bd - g + 1 + 1) / 2 + g) (bd - 1)
  · rw [if_pos h1]
    split <;> omega
  · rw [if_neg h1]
    split <;> omega

theorem resetGood_le (og : Option Nat) (bd g : Nat) (h : resetGood og bd = some g) : og = some g ∧ g ≤ bd := by
  unfold resetGood at h
  cases og with
  | none => cases h
  | some x =>
    simp only at h
    by_cases hx : x > bd
    · rw [if_pos hx] at h; cases h
    · rw [if_neg hx] at h; cases h; exact ⟨rfl, by omega⟩

/-- `bisCheck` in terms of the counts the invariant speaks about -/
theorem bisCheck_counts (c : Cfg) (data : List Req) (idx : Nat) (b : BisSt) (s : SchedSt) (hi : idx < data.length) :
    (bisCheck c data idx b s).2.1.lastGood = b.lastGood ∧ (bisCheck c data idx b s).2.1.lastBad = b.lastBad ∧
    (∀ i, count i (bisCheck c data idx b s).2.1.good
            = count i b.good + (if (bisCheck c data idx b s).1 = true ∧ i = idx then 1 else 0)) ∧
    (∀ i, count i (bisCheck c data idx b s).2.1.bad + count i (bisCheck c data idx b s).2.1.fail
            = count i b.bad + count i b.fail + (if (bisCheck c data idx b s).1 = false ∧ i = idx then 1 else 0)) := by
  obtain ⟨h1, h2, h3⟩ := bisCheck_spec c data idx b s hi
  refine ⟨h1, h2, ?_, ?_⟩
  · intro i
    rcases h3 with ⟨hr, hg, _, _⟩ | ⟨hr, hg, _⟩
    · rw [hg, hr, count_append, count_singleton]
      by_cases e : i = idx
      · subst e; simp
      · have : ¬ idx = i := fun x => e x.symm
        simp [e, this]
    · rw [hg, hr]; simp
  · intro i
    rcases h3 with ⟨hr, _, hb, hf⟩ | ⟨hr, _, ⟨hb, hf⟩ | ⟨hb, hf⟩⟩
    · rw [hb, hf, hr]; simp
    · rw [hb, hf, hr, count_append, count_singleton]
      by_cases e : i = idx
      · subst e; simp; omega
      · have : ¬ idx = i := fun x => e x.symm
        simp [e, this]
    · rw [hb, hf, hr, count_append, count_singleton]
      by_cases e : i = idx
      · subst e; simp; omega
      · have : ¬ idx = i := fun x => e x.symm
        simp [e, this]

/-! ### the two ways the frontier moves down by one known index -/

/-- the index just below the frontier turned out good: it becomes the last known good one -/
theorem binv_good (n : Nat) (b b' : BisSt) (j : Nat) (h : BInv n b) (hf : frontier n b = j + 1)
    (hlg : b'.lastGood = some j) (hlb : b'.lastBad = none)
    (hG : ∀ i, count i b'.good = count i b.good + (if i = j ∧ cnt b j = 0 then 1 else 0))
    (hB : ∀ i, count i b'.bad + count i b'.fail = count i b.bad + count i b.fail)
    (hj : 0 < count j b'.good) (hjn : j < n) : BInv n b' ∧ frontier n b' = j := by
  have hfr : frontier n b' = j := by simp [frontier, hlg, hlb]
  refine ⟨⟨?_, ?_, ?_, ?_, ?_, ?_, ?_⟩, hfr⟩
  · intro i
    have := h.le1 i; have := hG i; have := hB i
    unfold cnt at *
    by_cases e : i = j ∧ count j b.good + count j b.bad + count j b.fail = 0
    · rw [if_pos e] at *; obtain ⟨rfl, e2⟩ := e; omega
    · rw [if_neg e] at *; omega
  · intro i hi
    have := h.bound i hi; have := hG i; have := hB i
    unfold cnt at *
    rw [if_neg (by omega)] at *; omega
  · intro i hi hin
    rw [hfr] at hi
    have := h.le1 i; have := hG i; have := hB i
    unfold cnt at *
    by_cases e : i = j
    · subst e
      by_cases e2 : count i b.good + count i b.bad + count i b.fail = 0
      · rw [if_pos ⟨rfl, e2⟩] at *; omega
      · rw [if_neg (by intro x; exact e2 x.2)] at *; omega
    · have hup := h.upper i (by omega) hin
      unfold cnt at hup
      rw [if_neg (by intro x; exact e x.1)] at *; omega
  · intro i hi
    rw [hfr]
    have := hB i
    have := h.low i (by omega)
    omega
  · intro g hg
    rw [hlg] at hg; cases hg; exact hj
  · intro bd hb
    rw [hlb] at hb; cases hb
  · intro hx; rw [hlg] at hx; cases hx

/-- the index `j` below the frontier turned out bad (or failed): it becomes the last known bad one;
    everything between it and the old frontier is classified -/
theorem binv_bad (n : Nat) (b b' : BisSt) (j : Nat) (h : BInv n b) (hf : j < frontier n b)
    (hlb : b'.lastBad = some j)
    (hgd : ∀ g, b'.lastGood = some g → 0 < count g b'.good)
    (hle : ∀ i, cnt b' i ≤ 1)
    (hup : ∀ i, j ≤ i → i < frontier n b → cnt b' i = 1)
    (hsame : ∀ i, frontier n b ≤ i → cnt b' i = cnt b i)
    (hB : ∀ i, 0 < count i b'.bad + count i b'.fail → j ≤ i)
    (hj : 0 < count j b'.bad + count j b'.fail) (hfn : frontier n b ≤ n) : BInv n b' ∧ frontier n b' = j := by
  have hfr : frontier n b' = j := by
    unfold frontier; rw [hlb]; cases b'.lastGood <;> rfl
  refine ⟨⟨hle, ?_, ?_, ?_, hgd, ?_, ?_⟩, hfr⟩
  · intro i hi
    rw [hsame i (by omega)]; exact h.bound i hi
  · intro i hi hin
    rw [hfr] at hi
    by_cases e : i < frontier n b
    · exact hup i hi e
    · rw [hsame i (by omega)]; exact h.upper i (by omega) hin
  · intro i hi; rw [hfr]; exact hB i hi
  · intro bd hb; rw [hlb] at hb; cases hb; exact hj
  · intro _ hx; rw [hlb] at hx; cases hx

/-! ### one pass of the loop -/

/-- one pass of the `while True` loop: `none` = `break` -/
def bisNext (c : Cfg) (data : List Req) (b : BisSt) (s : SchedSt) : Option (BisSt × SchedSt) :=
  match b.lastGood, b.lastBad with
  | none, none =>
    match bisCheck c data (data.length - 1) b s with
    | (true,  b', s') => some ({ b' with lastGood := some (data.length - 1) }, s')
    | (false, b', s') => some ({ b' with lastBad := some (data.length - 1) }, s')
  | some g, none =>
    if g = 0 then none
    else if (g - 1) ∈ b.good then some ({ b with lastGood := some (g - 1) }, s)
    else if (g - 1) ∈ b.bad then some ({ b with lastBad := some (g - 1) }, s)
    else
      match bisCheck c data (g - 1) b s with
      | (true,  b', s') => some ({ b' with lastGood := some (g - 1) }, s')
      | (false, b', s') => some ({ b' with lastBad := some (g - 1) }, s')
  | og, some bad =>
    if bad = 0 then none
    else
      match (if bisIdx (resetGood og bad) bad ∈ b.good then (true, b, s)
             else if bisIdx (resetGood og bad) bad ∈ b.bad then (false, b, s)
             else bisCheck c data (bisIdx (resetGood og bad) bad) b s) with
      | (true, b', s') =>
        if bad < bisIdx (resetGood og bad) bad then
          some ({ b' with lastGood := none, lastBad := some bad }, s')
        else if bad - bisIdx (resetGood og bad) bad = 1 then
          some ({ b' with lastGood := some (bisIdx (resetGood og bad) bad), lastBad := none }, s')
        else
          some ({ b' with lastGood := some (bisIdx (resetGood og bad) bad), lastBad := some bad }, s')
      | (false, b', s') =>
        some ({ markSkipped b' bad (bisIdx (resetGood og bad) bad) with
                  lastBad := some (bisIdx (resetGood og bad) bad),
                  lastGood := resetGood (resetGood og bad) (bisIdx (resetGood og bad) bad) }, s')

theorem bisLoop_succ (c : Cfg) (data : List Req) (k : Nat) (b : BisSt) (s : SchedSt) :
    bisLoop c data (k + 1) b s
      = match bisNext c data b s with
        | none   => (b, s)
        | some p => bisLoop c data k p.1 p.2 := by
  rw [bisLoop]
  unfold bisNext
  rcases b with ⟨lg, lb, good, bad, fail⟩
  cases lg <;> cases lb <;> simp only []
  · split <;> (rename_i heq; simp only [heq])
  · split
    · rfl
    · split
      · rename_i heq; simp only [heq]
        split
        · rfl
        · split <;> rfl
      · rename_i heq; simp only [heq]
  · split
    · rfl
    · split
      · rfl
      · split
        · rfl
        · split <;> (rename_i heq; simp only [heq])
  · split
    · rfl
    · split
      · rename_i heq; simp only [heq]
        split
        · rfl
        · split <;> rfl
      · rename_i heq; simp only [heq]

theorem mul_step (a b N : Nat) (h : a < b) : a * N + N ≤ b * N := by
  have : (a + 1) * N ≤ b * N := Nat.mul_le_mul_right N h
  rw [Nat.add_mul, Nat.one_mul] at this; exact this

/-- the counts after a check of an index that was not classified before -/
theorem cnt_after_check (b b1 : BisSt) (idx : Nat) (ret : Bool)
    (cG : ∀ i, count i b1.good = count i b.good + (if ret = true ∧ i = idx then 1 else 0))
    (cB : ∀ i, count i b1.bad + count i b1.fail = count i b.bad + count i b.fail + (if ret = false ∧ i = idx then 1 else 0))
    (i : Nat) : cnt b1 i = cnt b i + (if i = idx then 1 else 0) := by
  have h1 := cG i; have h2 := cB i
  unfold cnt
  cases ret <;> by_cases e : i = idx <;> simp [e] at h1 h2 ⊢ <;> omega

/-- the candidate is looked up in what is known, or checked -/
theorem probe_spec (c : Cfg) (data : List Req) (b : BisSt) (s : SchedSt) (idx : Nat) (hi : idx < data.length)
    (hf0 : count idx b.fail = 0) :
    (if idx ∈ b.good then (true, b, s) else if idx ∈ b.bad then (false, b, s) else bisCheck c data idx b s).2.1.lastGood = b.lastGood
    ∧ (if idx ∈ b.good then (true, b, s) else if idx ∈ b.bad then (false, b, s) else bisCheck c data idx b s).2.1.lastBad = b.lastBad
    ∧ (∀ i, count i (if idx ∈ b.good then (true, b, s) else if idx ∈ b.bad then (false, b, s) else bisCheck c data idx b s).2.1.good
          = count i b.good + (if (if idx ∈ b.good then (true, b, s) else if idx ∈ b.bad then (false, b, s) else bisCheck c data idx b s).1 = true
                                 ∧ i = idx ∧ cnt b idx = 0 then 1 else 0))
    ∧ (∀ i, count i (if idx ∈ b.good then (true, b, s) else if idx ∈ b.bad then (false, b, s) else bisCheck c data idx b s).2.1.bad
            + count i (if idx ∈ b.good then (true, b, s) else if idx ∈ b.bad then (false, b, s) else bisCheck c data idx b s).2.1.fail
          = count i b.bad + count i b.fail
            + (if (if idx ∈ b.good then (true, b, s) else if idx ∈ b.bad then (false, b, s) else bisCheck c data idx b s).1 = false
                  ∧ i = idx ∧ cnt b idx = 0 then 1 else 0))
    ∧ ((if idx ∈ b.good then (true, b, s) else if idx ∈ b.bad then (false, b, s) else bisCheck c data idx b s).1 = true →
          0 < count idx (if idx ∈ b.good then (true, b, s) else if idx ∈ b.bad then (false, b, s) else bisCheck c data idx b s).2.1.good)
    ∧ ((if idx ∈ b.good then (true, b, s) else if idx ∈ b.bad then (false, b, s) else bisCheck c data idx b s).1 = false →
          0 < count idx (if idx ∈ b.good then (true, b, s) else if idx ∈ b.bad then (false, b, s) else bisCheck c data idx b s).2.1.bad
            + count idx (if idx ∈ b.good then (true, b, s) else if idx ∈ b.bad then (false, b, s) else bisCheck c data idx b s).2.1.fail) := by
  by_cases h1 : idx ∈ b.good
  · have hp : 0 < count idx b.good := count_pos_iff.mpr h1
    have hc : ¬ cnt b idx = 0 := by unfold cnt; omega
    rw [if_pos h1]
    refine ⟨rfl, rfl, ?_, ?_, fun _ => hp, fun hx => by simp at hx⟩
    · intro i; rw [if_neg (by intro hx; exact hc hx.2.2)]; rfl
    · intro i; rw [if_neg (by intro hx; cases hx.1)]; rfl
  · by_cases h2 : idx ∈ b.bad
    · have hp : 0 < count idx b.bad := count_pos_iff.mpr h2
      have hc : ¬ cnt b idx = 0 := by unfold cnt; omega
      rw [if_neg h1, if_pos h2]
      refine ⟨rfl, rfl, ?_, ?_, fun hx => by simp at hx, fun _ => by show 0 < count idx b.bad + count idx b.fail; omega⟩
      · intro i; rw [if_neg (by intro hx; cases hx.1)]; rfl
      · intro i; rw [if_neg (by intro hx; exact hc hx.2.2)]; rfl
    · have hc : cnt b idx = 0 := by
        have := count_eq_zero.mpr h1; have := count_eq_zero.mpr h2
        unfold cnt; omega
      rw [if_neg h1, if_neg h2]
      obtain ⟨c1, c2, cG, cB⟩ := bisCheck_counts c data idx b s hi
      refine ⟨c1, c2, ?_, ?_, ?_, ?_⟩
      · intro i; rw [cG i]; simp [hc]
      · intro i; rw [cB i]; simp [hc]
      · intro hx; rw [cG idx]; simp [hx]
      · intro hx; rw [cB idx]; simp [hx]

theorem gapOf_le (og : Option Nat) (bd : Nat) : gapOf og bd ≤ bd + 1 := by
  unfold gapOf; split <;> omega

/-- a pass that does not end the loop keeps the invariant and lowers the measure -/
theorem bisNext_some (c : Cfg) (data : List Req) (hn : 0 < data.length) (b : BisSt) (s : SchedSt)
    (h : BInv data.length b) (p : BisSt × SchedSt) (hnx : bisNext c data b s = some p) :
    BInv data.length p.1 ∧ mu data.length p.1 < mu data.length b := by
  unfold bisNext at hnx
  split at hnx
  · -- nothing known yet: the last element is checked
    rename_i hlg hlb
    obtain ⟨c1, c2, cG, cB⟩ := bisCheck_counts c data (data.length - 1) b s (by omega)
    have hfr : frontier data.length b = (data.length - 1) + 1 := by
      simp only [frontier, hlg, hlb]; omega
    have h0 : ∀ i, cnt b i = 0 := h.init hlg hlb
    have hmub : mu data.length b = data.length * (data.length + 2) + 1 := by simp only [mu, hlg, hlb]
    have hms := mul_step (data.length - 1) data.length (data.length + 2) (by omega)
    rcases hr : bisCheck c data (data.length - 1) b s with ⟨ret, b1, s1⟩
    rw [hr] at hnx c1 c2 cG cB
    simp only at c1 c2 cG cB
    have hc := cnt_after_check b b1 (data.length - 1) ret cG cB
    cases ret with
    | true =>
      simp only [Option.some.injEq] at hnx
      subst hnx
      have hb := binv_good data.length b { b1 with lastGood := some (data.length - 1) } (data.length - 1) h hfr rfl
        (by simp only [c2, hlb])
        (by intro i; rw [cG i]; simp [h0 (data.length - 1)])
        (by intro i; have := cB i; simpa using this)
        (by rw [cG]; simp) (by omega)
      refine ⟨hb.1, ?_⟩
      have : mu data.length { b1 with lastGood := some (data.length - 1) } = (data.length - 1) * (data.length + 2) := by
        simp only [mu, c2, hlb]
      rw [this, hmub]; omega
    | false =>
      simp only [Option.some.injEq] at hnx
      subst hnx
      have hb := binv_bad data.length b { b1 with lastBad := some (data.length - 1) } (data.length - 1) h (by omega) rfl
        (by intro g hg; simp only [c1, hlg] at hg; cases hg)
        (by intro i; show cnt b1 i ≤ 1; rw [hc i, h0 i]; split <;> omega)
        (by intro i hi1 hi2
            show cnt b1 i = 1
            rw [hc i, h0 i, if_pos (by omega)])
        (by intro i hi
            show cnt b1 i = cnt b i
            rw [hc i, if_neg (by omega)]; rfl)
        (by intro i hi
            have := cB i; have h0i := h0 i
            unfold cnt at h0i
            by_cases e : i = data.length - 1
            · omega
            · simp [e] at this; simp only [] at hi; omega)
        (by have := cB (data.length - 1); simp at this; simp only []; omega)
        (by omega)
      refine ⟨hb.1, ?_⟩
      have : mu data.length { b1 with lastBad := some (data.length - 1) }
          = (data.length - 1) * (data.length + 2) + (data.length - 1 + 1) := by
        simp only [mu, gapOf, resetGood, c1, hlg]
      rw [this, hmub]; omega
  · -- only a good index is known: the next one below it
    rename_i g hlg hlb
    have hgn := h.lt_good g hlg
    have hfr0 : frontier data.length b = g := by simp only [frontier, hlg, hlb]
    have hmub : mu data.length b = g * (data.length + 2) := by simp only [mu, hlg, hlb]
    by_cases hg0 : g = 0
    · rw [if_pos hg0] at hnx; cases hnx
    · rw [if_neg hg0] at hnx
      have hfr : frontier data.length b = (g - 1) + 1 := by rw [hfr0]; omega
      have hms := mul_step (g - 1) g (data.length + 2) (by omega)
      by_cases hk1 : (g - 1) ∈ b.good
      · rw [if_pos hk1] at hnx
        simp only [Option.some.injEq] at hnx
        subst hnx
        have hpos : 0 < count (g - 1) b.good := count_pos_iff.mpr hk1
        have hb := binv_good data.length b { b with lastGood := some (g - 1) } (g - 1) h hfr rfl hlb
          (by intro i
              have : ¬ (i = g - 1 ∧ cnt b (g - 1) = 0) := by
                intro hx; have := hx.2; unfold cnt at this; omega
              rw [if_neg this]; rfl)
          (by intro i; rfl) hpos (by omega)
        refine ⟨hb.1, ?_⟩
        have : mu data.length { b with lastGood := some (g - 1) } = (g - 1) * (data.length + 2) := by
          simp only [mu, hlb]
        rw [this, hmub]; omega
      · rw [if_neg hk1] at hnx
        by_cases hk2 : (g - 1) ∈ b.bad
        · rw [if_pos hk2] at hnx
          simp only [Option.some.injEq] at hnx
          subst hnx
          have hpos : 0 < count (g - 1) b.bad := count_pos_iff.mpr hk2
          have hb := binv_bad data.length b { b with lastBad := some (g - 1) } (g - 1) h (by omega) rfl
            (by intro g' hg'; exact h.gd g' hg')
            h.le1
            (by intro i hi1 hi2
                have e : i = g - 1 := by omega
                subst e
                have := h.le1 (g - 1)
                show cnt b (g - 1) = 1
                unfold cnt at this ⊢; omega)
            (by intro i _; rfl)
            (by intro i hi; have := h.low i hi; omega)
            (by show 0 < count (g - 1) b.bad + count (g - 1) b.fail; omega)
            (by omega)
          refine ⟨hb.1, ?_⟩
          have : mu data.length { b with lastBad := some (g - 1) } = (g - 1) * (data.length + 2) + (g - 1 + 1) := by
            simp only [mu, gapOf, resetGood, hlg]
            rw [if_pos (by omega)]
          rw [this, hmub]; omega
        · rw [if_neg hk2] at hnx
          -- the index is not classified yet
          have hc0 : cnt b (g - 1) = 0 := by
            have h1 : count (g - 1) b.good = 0 := count_eq_zero.mpr hk1
            have h2 : count (g - 1) b.bad = 0 := count_eq_zero.mpr hk2
            have h3 : count (g - 1) b.fail = 0 := by
              apply Classical.byContradiction
              intro hx
              have := h.low (g - 1) (by omega)
              omega
            unfold cnt; omega
          obtain ⟨c1, c2, cG, cB⟩ := bisCheck_counts c data (g - 1) b s (by omega)
          rcases hr : bisCheck c data (g - 1) b s with ⟨ret, b1, s1⟩
          rw [hr] at hnx c1 c2 cG cB
          simp only at c1 c2 cG cB
          have hc := cnt_after_check b b1 (g - 1) ret cG cB
          cases ret with
          | true =>
            simp only [Option.some.injEq] at hnx
            subst hnx
            have hb := binv_good data.length b { b1 with lastGood := some (g - 1) } (g - 1) h hfr rfl
              (by simp only [c2, hlb])
              (by intro i; rw [cG i]; simp [hc0])
              (by intro i; have := cB i; simpa using this)
              (by rw [cG]; simp) (by omega)
            refine ⟨hb.1, ?_⟩
            have : mu data.length { b1 with lastGood := some (g - 1) } = (g - 1) * (data.length + 2) := by
              simp only [mu, c2, hlb]
            rw [this, hmub]; omega
          | false =>
            simp only [Option.some.injEq] at hnx
            subst hnx
            have hb := binv_bad data.length b { b1 with lastBad := some (g - 1) } (g - 1) h (by omega) rfl
              (by intro g' hg'
                  simp only [c1] at hg'
                  have := h.gd g' hg'
                  rw [cG]; omega)
              (by intro i; show cnt b1 i ≤ 1; rw [hc i]
                  by_cases e : i = g - 1
                  · rw [if_pos e, e, hc0]; omega
                  · rw [if_neg e]; have := h.le1 i; omega)
              (by intro i hi1 hi2
                  have e : i = g - 1 := by omega
                  show cnt b1 i = 1
                  rw [hc i, if_pos e, e, hc0])
              (by intro i hi
                  show cnt b1 i = cnt b i
                  rw [hc i, if_neg (by omega)]; rfl)
              (by intro i hi
                  have := cB i
                  simp only [] at hi
                  by_cases e : i = g - 1
                  · omega
                  · simp [e] at this
                    have := h.low i (by omega)
                    omega)
              (by have := cB (g - 1); simp at this; simp only []; omega)
              (by omega)
            refine ⟨hb.1, ?_⟩
            have : mu data.length { b1 with lastBad := some (g - 1) } = (g - 1) * (data.length + 2) + (g - 1 + 1) := by
              simp only [mu, gapOf, resetGood, c1, hlg]
              rw [if_pos (by omega)]
            rw [this, hmub]; omega
  · -- a bad index is known: bisect below it
    rename_i bad hlb
    have hbn := h.lt_bad bad hlb
    have hfr0 : frontier data.length b = bad := by
      unfold frontier; rw [hlb]; cases b.lastGood <;> rfl
    have hmub : mu data.length b = bad * (data.length + 2) + gapOf b.lastGood bad := by
      unfold mu; rw [hlb]; cases b.lastGood <;> rfl
    by_cases hb0 : bad = 0
    · rw [if_pos hb0] at hnx; cases hnx
    · rw [if_neg hb0] at hnx
      -- the candidate lies below the bad index, and not below the last good one
      have hidx : bisIdx (resetGood b.lastGood bad) bad < bad
          ∧ (∀ g, resetGood b.lastGood bad = some g →
              g ≤ bisIdx (resetGood b.lastGood bad) bad ∧ (bisIdx (resetGood b.lastGood bad) bad = g → bad = g + 1)) := by
        cases hog : resetGood b.lastGood bad with
        | none => exact ⟨bisIdx_none bad (by omega), fun g hg => by cases hg⟩
        | some g =>
          obtain ⟨hg1, hg2⟩ := resetGood_le _ _ _ hog
          have hne : g ≠ bad := by
            intro e
            have h1 := h.gd g hg1; have h2 := h.bdc bad hlb; have h3 := h.le1 bad
            unfold cnt at h3; subst e; omega
          obtain ⟨a1, a2, a3⟩ := bisIdx_some g bad (by omega)
          exact ⟨a2, fun g' hg' => by cases hg'; exact ⟨a1, a3⟩⟩
      generalize hidxdef : bisIdx (resetGood b.lastGood bad) bad = idx at hnx hidx
      obtain ⟨hi1, hi2⟩ := hidx
      have hf0 : count idx b.fail = 0 := by
        apply Classical.byContradiction
        intro hx
        have := h.low idx (by omega)
        omega
      obtain ⟨c1, c2, cG, cB, cT, cF⟩ := probe_spec c data b s idx (by omega) hf0
      rcases hr : (if idx ∈ b.good then (true, b, s) else if idx ∈ b.bad then (false, b, s)
                   else bisCheck c data idx b s) with ⟨ret, b1, s1⟩
      rw [hr] at hnx c1 c2 cG cB cT cF
      simp only at c1 c2 cG cB cT cF hnx
      have hms := mul_step idx bad (data.length + 2) hi1
      have hc1 : ∀ i, cnt b1 i = cnt b i + (if i = idx ∧ cnt b idx = 0 then 1 else 0) := by
        intro i
        have h1 := cG i; have h2 := cB i
        unfold cnt at h1 h2 ⊢
        cases ret <;> by_cases e : i = idx ∧ count idx b.good + count idx b.bad + count idx b.fail = 0 <;>
          simp [e] at h1 h2 ⊢ <;> omega
      have hle1 : ∀ i, cnt b1 i ≤ 1 := by
        intro i; rw [hc1 i]
        by_cases e : i = idx ∧ cnt b idx = 0
        · rw [if_pos e, e.1, e.2]; omega
        · rw [if_neg e]; have := h.le1 i; omega
      cases ret with
      | true =>
        simp only [] at hnx
        have hpos := cT rfl
        rw [if_neg (by omega)] at hnx
        by_cases hadj : bad - idx = 1
        · rw [if_pos hadj] at hnx
          simp only [Option.some.injEq] at hnx
          subst hnx
          have hb := binv_good data.length b { b1 with lastGood := some idx, lastBad := none } idx h
            (by rw [hfr0]; omega) rfl rfl
            (by intro i; rw [cG i]; simp)
            (by intro i; have := cB i; simpa using this)
            hpos (by omega)
          refine ⟨hb.1, ?_⟩
          have : mu data.length { b1 with lastGood := some idx, lastBad := none } = idx * (data.length + 2) := by
            simp only [mu]
          rw [this, hmub]; omega
        · rw [if_neg hadj] at hnx
          simp only [Option.some.injEq] at hnx
          subst hnx
          have hfrn : frontier data.length { b1 with lastGood := some idx, lastBad := some bad } = bad := by
            simp only [frontier]
          refine ⟨⟨hle1, ?_, ?_, ?_, ?_, ?_, ?_⟩, ?_⟩
          · intro i hi
            show cnt b1 i = 0
            rw [hc1 i, if_neg (by omega)]; exact h.bound i hi
          · intro i hi hin
            rw [hfrn] at hi
            show cnt b1 i = 1
            rw [hc1 i, if_neg (by omega)]; exact h.upper i (by omega) hin
          · intro i hi
            rw [hfrn]
            have := cB i
            simp only [] at hi
            rw [if_neg (by intro hx; cases hx.1)] at this
            have := h.low i (by omega)
            omega
          · intro g hg
            simp only [Option.some.injEq] at hg
            subst hg; exact hpos
          · intro bd hbd
            simp only [Option.some.injEq] at hbd
            subst hbd
            have := cB bad
            rw [if_neg (by intro hx; cases hx.1)] at this
            have := h.bdc bad hlb
            simp only []; omega
          · intro hx; simp only [] at hx; cases hx
          · have : mu data.length { b1 with lastGood := some idx, lastBad := some bad }
                = bad * (data.length + 2) + (bad - idx) := by
              simp only [mu, gapOf, resetGood]
              rw [if_neg (by omega)]
            rw [this, hmub]
            have : bad - idx < gapOf b.lastGood bad := by
              unfold gapOf
              cases hog : resetGood b.lastGood bad with
              | none => simp only []; omega
              | some g =>
                simp only []
                obtain ⟨a1, a2⟩ := hi2 g hog
                have : idx ≠ g := by intro e; have := a2 e; omega
                omega
            omega
      | false =>
        simp only [Option.some.injEq] at hnx
        subst hnx
        have hpos := cF rfl
        obtain ⟨m1, m2, _, _, m5⟩ := markSkipped_spec b1 bad idx hi1
        -- below the old frontier nothing was bad or failed, except what the check just recorded
        have hbf : ∀ i, i ≠ idx → i < bad → count i b1.bad = 0 ∧ count i b1.fail = 0 := by
          intro i hi hib
          have := cB i
          rw [if_neg (by intro hx; exact hi hx.2.1)] at this
          have hl : ¬ 0 < count i b.bad + count i b.fail := by
            intro hx; have := h.low i hx; omega
          omega
        have hcn : ∀ i, cnt { markSkipped b1 bad idx with
                                lastBad := some idx,
                                lastGood := resetGood (resetGood b.lastGood bad) idx } i
              = count i b1.good
                + (if idx < i ∧ i < bad ∧ count i b1.bad = 0 ∧ count i b1.good = 0 then 1 else count i b1.bad)
                + count i b1.fail := by
          intro i
          show count i (markSkipped b1 bad idx).good + count i (markSkipped b1 bad idx).bad
                + count i (markSkipped b1 bad idx).fail = _
          rw [m1, m2, m5 i]
        have hb := binv_bad data.length b { markSkipped b1 bad idx with
                                lastBad := some idx,
                                lastGood := resetGood (resetGood b.lastGood bad) idx } idx h (by omega) rfl
          (by intro g hg
              simp only [] at hg
              obtain ⟨hg1, _⟩ := resetGood_le _ _ _ hg
              obtain ⟨hg2, _⟩ := resetGood_le _ _ _ hg1
              have := h.gd g hg2
              show 0 < count g (markSkipped b1 bad idx).good
              rw [m1, cG g]; omega)
          (by intro i
              rw [hcn i]
              by_cases e : idx < i ∧ i < bad ∧ count i b1.bad = 0 ∧ count i b1.good = 0
              · rw [if_pos e]
                have := (hbf i (by omega) e.2.1).2
                omega
              · rw [if_neg e]; have := hle1 i; unfold cnt at this; omega)
          (by intro i hi1' hi2'
              rw [hfr0] at hi2'
              rw [hcn i]
              by_cases e : idx < i ∧ i < bad ∧ count i b1.bad = 0 ∧ count i b1.good = 0
              · rw [if_pos e]
                have := (hbf i (by omega) e.2.1).2
                omega
              · rw [if_neg e]
                have hl := hle1 i
                unfold cnt at hl
                by_cases ei : i = idx
                · subst ei; omega
                · have := hbf i ei hi2'
                  have : ¬ (count i b1.bad = 0 ∧ count i b1.good = 0) := by
                    intro hx; exact e ⟨by omega, hi2', hx⟩
                  omega)
          (by intro i hi
              rw [hfr0] at hi
              rw [hcn i, if_neg (by omega)]
              have := hc1 i
              rw [if_neg (by omega)] at this
              unfold cnt at this ⊢; omega)
          (by intro i hi
              have hi' : 0 < (if idx < i ∧ i < bad ∧ count i b1.bad = 0 ∧ count i b1.good = 0 then 1 else count i b1.bad)
                            + count i b1.fail := by
                have : count i (markSkipped b1 bad idx).bad + count i (markSkipped b1 bad idx).fail > 0 := hi
                rw [m2, m5 i] at this; exact this
              by_cases e : idx < i ∧ i < bad ∧ count i b1.bad = 0 ∧ count i b1.good = 0
              · omega
              · rw [if_neg e] at hi'
                by_cases ei : i = idx
                · omega
                · have := cB i
                  rw [if_neg (by intro hx; exact ei hx.2.1)] at this
                  have := h.low i (by omega)
                  omega)
          (by show 0 < count idx (markSkipped b1 bad idx).bad + count idx (markSkipped b1 bad idx).fail
              rw [m2, m5 idx, if_neg (by omega)]; exact hpos)
          (by omega)
        refine ⟨hb.1, ?_⟩
        have : mu data.length { markSkipped b1 bad idx with
                                lastBad := some idx,
                                lastGood := resetGood (resetGood b.lastGood bad) idx }
            = idx * (data.length + 2) + gapOf (resetGood (resetGood b.lastGood bad) idx) idx := by
          unfold mu
          simp only []
        rw [this, hmub]
        have := gapOf_le (resetGood (resetGood b.lastGood bad) idx) idx
        omega

/-- when the loop ends, every index has been classified -/
theorem bisNext_none (c : Cfg) (data : List Req) (hn : 0 < data.length) (b : BisSt) (s : SchedSt)
    (h : BInv data.length b) (hnx : bisNext c data b s = none) : frontier data.length b = 0 := by
  unfold bisNext at hnx
  split at hnx
  · exfalso; revert hnx; split <;> simp
  · rename_i g hlg hlb
    by_cases hg0 : g = 0
    · simp only [frontier, hlg, hlb, hg0]
    · rw [if_neg hg0] at hnx
      split at hnx
      · cases hnx
      · split at hnx
        · cases hnx
        · split at hnx <;> cases hnx
  · rename_i bad hlb
    by_cases hb0 : bad = 0
    · unfold frontier; rw [hlb, hb0]; cases b.lastGood <;> rfl
    · rw [if_neg hb0] at hnx
      split at hnx
      · split at hnx
        · cases hnx
        · split at hnx <;> cases hnx
      · cases hnx

/-- **`lazy_bisect` comes to its end with everything classified**, whatever the check answers -/
theorem bisLoop_all (c : Cfg) (data : List Req) (hn : 0 < data.length) :
    ∀ (fuel : Nat) (b : BisSt) (s : SchedSt), BInv data.length b → mu data.length b < fuel →
      BInv data.length (bisLoop c data fuel b s).1 ∧ frontier data.length (bisLoop c data fuel b s).1 = 0 := by
  intro fuel
  induction fuel with
  | zero => intro b s _ hm; omega
  | succ k ih =>
    intro b s h hm
    rw [bisLoop_succ]
    cases hnx : bisNext c data b s with
    | none => exact ⟨h, bisNext_none c data hn b s h hnx⟩
    | some p =>
      obtain ⟨h1, h2⟩ := bisNext_some c data hn b s h p hnx
      exact ih p.1 p.2 h1 (by omega)

theorem binv_start (n : Nat) : BInv n {} := by
  refine ⟨?_, ?_, ?_, ?_, ?_, ?_, ?_⟩ <;> intros <;> simp_all [cnt, frontier] <;> omega

/-- every index of `data` is in exactly one of the three lists a bisect run returns -/
theorem bisLoop_partition (c : Cfg) (data : List Req) (hn : 0 < data.length) (fuel : Nat) (s : SchedSt)
    (hf : data.length * (data.length + 2) + 1 < fuel) (i : Nat) :
    cnt (bisLoop c data fuel {} s).1 i = if i < data.length then 1 else 0 := by
  obtain ⟨h1, h2⟩ := bisLoop_all c data hn fuel {} s (binv_start _) (by simp only [mu]; exact hf)
  by_cases hi : i < data.length
  · rw [if_pos hi]; exact h1.upper i (by omega) hi
  · rw [if_neg hi]; exact h1.bound i (by omega)

end RPVerif.Sched
