import RPVerif.Lemmas.BisectAll
/-!
Conservation of tasks in the agent scheduler (C04): over a whole history of the scheduling loop a task
that was handed in is, at every moment, either reported once (started, failed or canceled) or in the
wait pool once - never both, never twice, never neither.

The ledger is kept per uid `u`:  `count u (reported events) + waiting pool u`.  Every stage of an
iteration (`_schedule_waitpool` with `lazy_bisect`, the drain of the incoming queue with cancel
messages, `_schedule_incoming` with its per-priority placement and the parking of what must wait,
`_unschedule_completed`) leaves the ledger of `u` unchanged except for the tasks with uid `u` that are
handed in, as long as `u` is handed in at most once in the history (uids are unique).
-/
namespace RPVerif.Sched
open List

def evUids (evs : List Ev) : List Nat := evs.map (fun e => match e with | .adv u _ => u)
def uids (ts : List Req) : List Nat := ts.map (·.uid)

@[simp] theorem evUids_append (a b : List Ev) : evUids (a ++ b) = evUids a ++ evUids b := by simp [evUids]
@[simp] theorem uids_append (a b : List Req) : uids (a ++ b) = uids a ++ uids b := by simp [uids]
@[simp] theorem evUids_nil : evUids [] = [] := rfl
@[simp] theorem uids_nil : uids [] = [] := rfl
@[simp] theorem uids_cons (t : Req) (ts : List Req) : uids (t :: ts) = t.uid :: uids ts := rfl

/-- how often uid `u` sits in the wait pool (all priorities) -/
def waiting (wp : List (Int × List Req)) (u : Nat) : Nat := count u (uids (wp.flatMap (·.2)))

/-- the priorities of the wait pool are distinct (it is a dict) -/
def KeysOK (wp : List (Int × List Req)) : Prop := (wp.map (·.1)).Nodup

@[simp] theorem waiting_nil (u : Nat) : waiting [] u = 0 := rfl

theorem waiting_cons (e : Int × List Req) (wp : List (Int × List Req)) (u : Nat) :
    waiting (e :: wp) u = count u (uids e.2) + waiting wp u := by
  simp [waiting, count_append]

theorem waiting_append (a b : List (Int × List Req)) (u : Nat) : waiting (a ++ b) u = waiting a u + waiting b u := by
  simp [waiting, count_append]

/-! ### permutations: sorting, the index lists of `lazy_bisect` -/

theorem insertDesc_perm (key : Req → Int) (x : Req) (l : List Req) : (insertDesc key x l).Perm (x :: l) := by
  induction l with
  | nil => exact Perm.refl _
  | cons y ys ih =>
    unfold insertDesc
    split
    · exact Perm.refl _
    · exact (Perm.cons y ih).trans (Perm.swap x y ys)

theorem sortDesc_perm (key : Req → Int) (l : List Req) : (sortDesc key l).Perm l := by
  unfold sortDesc
  have key' : ∀ (l acc : List Req), (l.foldl (fun acc x => insertDesc key x acc) acc).Perm (l ++ acc) := by
    intro l
    induction l with
    | nil => intro acc; exact Perm.refl _
    | cons x xs ih =>
      intro acc
      rw [foldl_cons]
      refine (ih _).trans ?_
      refine (Perm.append_left xs (insertDesc_perm key x acc)).trans ?_
      exact perm_middle
  simpa using key' l []

theorem count_uids_perm {a b : List Req} (h : a.Perm b) (u : Nat) : count u (uids a) = count u (uids b) :=
  (h.map _).count_eq u

theorem pickIdx_range (data : List Req) : pickIdx data (List.range data.length) = data := by
  unfold pickIdx
  induction data with
  | nil => rfl
  | cons x xs ih =>
    rw [length_cons, range_succ_eq_map, filterMap_cons]
    simp only [getElem?_cons_zero, filterMap_map]
    congr 1

theorem pickIdx_append (data : List Req) (a b : List Nat) : pickIdx data (a ++ b) = pickIdx data a ++ pickIdx data b := by
  simp [pickIdx, filterMap_append]

theorem count_range (n i : Nat) : count i (List.range n) = if i < n then 1 else 0 := by
  rw [nodup_range.count]
  simp [mem_range]

/-- what `lazy_bisect` returns is a re-arrangement of what it was given -/
theorem bis_lists_conserve (data : List Req) (b : BisSt) (h : ∀ i, cnt b i = if i < data.length then 1 else 0) (u : Nat) :
    count u (uids (pickIdx data b.good)) + count u (uids (pickIdx data b.bad)) + count u (uids (pickIdx data b.fail))
      = count u (uids data) := by
  have hp : (b.good ++ b.bad ++ b.fail).Perm (List.range data.length) := by
    rw [perm_iff_count]
    intro i
    rw [count_range, ← h i]
    simp only [cnt, count_append]
  have h2 : (pickIdx data (b.good ++ b.bad ++ b.fail)).Perm (pickIdx data (List.range data.length)) := by
    unfold pickIdx; exact hp.filterMap _
  rw [pickIdx_range] at h2
  have := count_uids_perm h2 u
  rw [pickIdx_append, pickIdx_append, uids_append, uids_append, count_append, count_append] at this
  exact this

theorem count_filter_split (l : List Req) (p q : Req → Bool) (hpq : ∀ r, q r = !p r) (u : Nat) :
    count u (uids (l.filter p)) + count u (uids (l.filter q)) = count u (uids l) := by
  induction l with
  | nil => rfl
  | cons x xs ih =>
    simp only [filter_cons, hpq x]
    cases hp : p x <;> simp [count_cons] <;> omega

/-! ### the wait pool as a dict -/

theorem poolOf_cons (e : Int × List Req) (wp : List (Int × List Req)) (p : Int) :
    poolOf (e :: wp) p = if e.1 = p then e.2 else poolOf wp p := by
  unfold poolOf
  rw [find?_cons]
  by_cases h : e.1 = p
  · simp [h]
  · simp [h]

theorem poolOf_notin (wp : List (Int × List Req)) (p : Int) (h : ∀ e ∈ wp, e.1 ≠ p) : poolOf wp p = [] := by
  induction wp with
  | nil => rfl
  | cons e wp ih =>
    rw [poolOf_cons, if_neg (h e mem_cons_self)]
    exact ih (fun e' he' => h e' (mem_cons_of_mem _ he'))

theorem poolOf_le (wp : List (Int × List Req)) (p : Int) (u : Nat) : count u (uids (poolOf wp p)) ≤ waiting wp u := by
  induction wp with
  | nil => simp [poolOf]
  | cons e wp ih =>
    rw [poolOf_cons, waiting_cons]
    split <;> omega

/-- replacing the list stored under one key: the ledger of `u` changes by the difference -/
theorem waiting_update (wp : List (Int × List Req)) (p : Int) (f : List Req → List Req) (hk : KeysOK wp) (u : Nat) :
    waiting (wp.map (fun e => if e.1 = p then (e.1, f e.2) else e)) u
        + (if wp.any (fun e => e.1 = p) then count u (uids (poolOf wp p)) else 0)
      = waiting wp u + (if wp.any (fun e => e.1 = p) then count u (uids (f (poolOf wp p))) else 0) := by
  induction wp with
  | nil => simp
  | cons e wp ih =>
    have hk' : KeysOK wp := (nodup_cons.mp hk).2
    have hne : ∀ e' ∈ wp, e'.1 ≠ e.1 := by
      intro e' he' heq
      have := (nodup_cons.mp hk).1
      apply this
      exact mem_map.mpr ⟨e', he', heq⟩
    rw [map_cons, waiting_cons, waiting_cons, poolOf_cons, any_cons]
    by_cases h : e.1 = p
    · have hnot : ∀ e' ∈ wp, e'.1 ≠ p := fun e' he' => h ▸ hne e' he'
      have hmap : wp.map (fun e => if e.1 = p then (e.1, f e.2) else e) = wp := by
        rw [map_congr_left (g := id)]
        · simp
        · intro e' he'; simp [hnot e' he']
      simp only [h, if_true, hmap, decide_true, Bool.true_or]
      omega
    · have := ih hk'
      simp only [h, if_false, decide_false, Bool.false_or]
      omega

theorem keysOK_update (wp : List (Int × List Req)) (p : Int) (f : List Req → List Req) (hk : KeysOK wp) :
    KeysOK (wp.map (fun e => if e.1 = p then (e.1, f e.2) else e)) := by
  unfold KeysOK at *
  rw [map_map]
  have : ((fun x : Int × List Req => x.1) ∘ fun e : Int × List Req => if e.1 = p then (e.1, f e.2) else e)
      = fun x => x.1 := by
    funext e; simp only [Function.comp]; split <;> rfl
  rw [this]; exact hk

theorem setPool_eq_update (wp : List (Int × List Req)) (p : Int) (l : List Req) :
    wp.map (fun e => if e.1 = p then (p, l) else e) = wp.map (fun e => if e.1 = p then (e.1, (fun _ => l) e.2) else e) := by
  apply map_congr_left
  intro e _
  by_cases h : e.1 = p <;> simp [h]

/-- `self._waitpool[p] = l` -/
theorem waiting_setPool (wp : List (Int × List Req)) (p : Int) (l : List Req) (hk : KeysOK wp) (u : Nat) :
    waiting (setPool wp p l) u + count u (uids (poolOf wp p)) = waiting wp u + count u (uids l) := by
  unfold setPool
  by_cases h : wp.any (fun e => e.1 = p) = true
  · rw [if_pos h, setPool_eq_update]
    have := waiting_update wp p (fun _ => l) hk u
    rw [if_pos h, if_pos h] at this
    exact this
  · rw [if_neg h, waiting_append]
    have hn : ∀ e ∈ wp, e.1 ≠ p := by
      intro e he heq
      apply h
      exact any_eq_true.mpr ⟨e, he, by simp [heq]⟩
    rw [poolOf_notin wp p hn]
    simp [waiting]

theorem keysOK_setPool (wp : List (Int × List Req)) (p : Int) (l : List Req) (hk : KeysOK wp) : KeysOK (setPool wp p l) := by
  unfold setPool
  by_cases h : wp.any (fun e => e.1 = p) = true
  · rw [if_pos h, setPool_eq_update]; exact keysOK_update wp p (fun _ => l) hk
  · rw [if_neg h]
    unfold KeysOK at *
    rw [map_append, nodup_append]
    refine ⟨hk, by simp, ?_⟩
    intro a ha b hb
    simp only [map_cons, map_nil, mem_singleton] at hb
    subst hb
    obtain ⟨e, he, rfl⟩ := mem_map.mp ha
    intro heq
    apply h
    exact any_eq_true.mpr ⟨e, he, by simp [heq]⟩

/-- dict insertion `pool[uid] = task` seen through the uids -/
theorem uids_poolInsert (l : List Req) (t : Req) :
    uids (poolInsert l t) = if l.any (fun x => x.uid = t.uid) then uids l else uids l ++ [t.uid] := by
  unfold poolInsert
  split
  · unfold uids
    rw [map_map]
    apply map_congr_left
    intro x _
    simp only [Function.comp]
    split
    · rename_i h; exact h.symm
    · rfl
  · simp [uids]

theorem any_uid_iff (l : List Req) (v : Nat) : l.any (fun x => x.uid = v) = true ↔ 0 < count v (uids l) := by
  rw [count_pos_iff, any_eq_true]
  constructor
  · rintro ⟨x, hx, h⟩
    exact mem_map.mpr ⟨x, hx, by simpa using h⟩
  · intro h
    obtain ⟨x, hx, h⟩ := mem_map.mp h
    exact ⟨x, hx, by simpa using h⟩

theorem count_uids_filter_ne (l : List Req) (v u : Nat) :
    count u (uids (l.filter (fun r => r.uid ≠ v))) = if u = v then 0 else count u (uids l) := by
  induction l with
  | nil => simp
  | cons x xs ih =>
    rw [filter_cons]
    by_cases hx : x.uid = v
    · simp only [hx, ne_eq, not_true_eq_false, decide_false, Bool.false_eq_true, if_false, ih, uids_cons, count_cons]
      by_cases e : u = v
      · simp [e]
      · have : ¬ (v == u) = true := by simp; exact fun x => e x.symm
        simp [e, this]
    · simp only [ne_eq, hx, not_false_eq_true, decide_true, if_true, uids_cons, count_cons, ih]
      by_cases e : u = v
      · subst e
        simp [hx]
      · simp [e]

/-! ### stages that leave the wait pool alone -/

theorem finishTask_wp (s : SchedSt) (r : Req) (it : IterSt) : (finishTask s r it).2.waitpool = s.waitpool := by
  unfold finishTask
  split
  · rfl
  · split <;> rfl

theorem scheduleTask_wp (c : Cfg) (s : SchedSt) (r : Req) : (scheduleTask c s r).2.waitpool = s.waitpool := by
  unfold scheduleTask
  split
  · rfl
  · split
    · rfl
    · split
      · rfl
      · exact finishTask_wp s r _

theorem tryAllocation_wp (c : Cfg) (s : SchedSt) (r : Req) : (tryAllocation c s r).2.waitpool = s.waitpool := by
  unfold tryAllocation
  have h := scheduleTask_wp c s r
  rcases hst : scheduleTask c s r with ⟨res, s'⟩
  rw [hst] at h
  simp only at h
  cases res with
  | error e => exact h
  | ok o =>
    cases o with
    | none => simp only; split <;> exact h
    | some sl =>
      cases sl with
      | nil => simp only; split <;> exact h
      | cons x xs =>
        simp only
        split <;> exact h

theorem bisCheck_wp (c : Cfg) (data : List Req) (idx : Nat) (b : BisSt) (s : SchedSt) :
    (bisCheck c data idx b s).2.2.waitpool = s.waitpool := by
  unfold bisCheck
  split
  · rfl
  · rename_i r _
    have := tryAllocation_wp c s r
    split <;> simp_all

theorem bisNext_wp (c : Cfg) (data : List Req) (b : BisSt) (s : SchedSt) (p : BisSt × SchedSt)
    (h : bisNext c data b s = some p) : p.2.waitpool = s.waitpool := by
  unfold bisNext at h
  split at h
  · have := bisCheck_wp c data (data.length - 1) b s
    split at h <;> (rename_i heq; rw [heq] at this; cases h; exact this)
  · split at h
    · cases h
    · split at h
      · cases h; rfl
      · split at h
        · cases h; rfl
        · rename_i g _ _ _ _ _
          have := bisCheck_wp c data (g - 1) b s
          split at h <;> (rename_i heq; rw [heq] at this; cases h; exact this)
  · split at h
    · cases h
    · rename_i bad _ _
      have hmid : (if bisIdx (resetGood b.lastGood bad) bad ∈ b.good then (true, b, s)
             else if bisIdx (resetGood b.lastGood bad) bad ∈ b.bad then (false, b, s)
             else bisCheck c data (bisIdx (resetGood b.lastGood bad) bad) b s).2.2.waitpool = s.waitpool := by
        split
        · rfl
        · split
          · rfl
          · exact bisCheck_wp c data _ b s
      split at h
      · rename_i heq; rw [heq] at hmid
        split at h
        · cases h; exact hmid
        · split at h <;> (cases h; exact hmid)
      · rename_i heq; rw [heq] at hmid
        cases h; exact hmid

theorem bisLoop_wp (c : Cfg) (data : List Req) :
    ∀ (fuel : Nat) (b : BisSt) (s : SchedSt), (bisLoop c data fuel b s).2.waitpool = s.waitpool := by
  intro fuel
  induction fuel with
  | zero => intro b s; rfl
  | succ k ih =>
    intro b s
    rw [bisLoop_succ]
    cases hnx : bisNext c data b s with
    | none => rfl
    | some p => simp only; rw [ih]; exact bisNext_wp c data b s p hnx

theorem lazyBisect_wp (c : Cfg) (data : List Req) (s : SchedSt) : (lazyBisect c data s).2.waitpool = s.waitpool := by
  unfold lazyBisect
  split
  · rfl
  · exact bisLoop_wp c data _ _ s

theorem incomingOne_wp (c : Cfg) (ts : List Req) :
    ∀ (s : SchedSt) (toWait : List Req) (evs : List Ev), (incomingOne c s ts toWait evs).1.waitpool = s.waitpool := by
  induction ts with
  | nil => intro s _ _; rfl
  | cons t ts ih =>
    intro s toWait evs
    unfold incomingOne
    have htry := tryAllocation_wp c s t
    split
    · exact ih _ _ _
    · split
      · split
        · rw [ih]
        · split <;> (rename_i heq; rw [heq] at htry; rw [ih]; exact htry)
      · split <;> (rename_i heq; rw [heq] at htry; rw [ih]; exact htry)

theorem releaseOne_wp (s : SchedSt) (u : Nat) : (releaseOne s u).waitpool = s.waitpool := by
  unfold releaseOne
  split
  · rfl
  · split <;> rfl

theorem unscheduleCompleted_wp (s : SchedSt) (msgs : List (List Nat)) :
    (unscheduleCompleted s msgs).1.waitpool = s.waitpool := by
  unfold unscheduleCompleted
  split
  rename_i uids' rest _
  split
  · rfl
  · have key : ∀ (l : List Nat) (acc : SchedSt), (l.foldl releaseOne acc).waitpool = acc.waitpool := by
      intro l
      induction l with
      | nil => intro acc; rfl
      | cons x xs ih => intro acc; rw [foldl_cons, ih, releaseOne_wp]
    rw [key]

/-! ### the placement routine does not look at the wait pool -/

theorem finishTask_frame (s : SchedSt) (W : List (Int × List Req)) (r : Req) (it : IterSt) :
    finishTask { s with waitpool := W } r it = ((finishTask s r it).1, { (finishTask s r it).2 with waitpool := W }) := by
  unfold finishTask
  split
  · rfl
  · split <;> rfl

theorem scheduleTask_frame (c : Cfg) (s : SchedSt) (W : List (Int × List Req)) (r : Req) :
    scheduleTask c { s with waitpool := W } r = ((scheduleTask c s r).1, { (scheduleTask c s r).2 with waitpool := W }) := by
  unfold scheduleTask
  split
  · rfl
  · split
    · rfl
    · have e1 : coloOf { s with waitpool := W } r = coloOf s r := rfl
      have e2 : skipOf { s with waitpool := W } r = skipOf s r := rfl
      simp only [e1, e2]
      split
      · rfl
      · exact finishTask_frame s W r _

theorem tryAllocation_frame (c : Cfg) (s : SchedSt) (W : List (Int × List Req)) (r : Req) :
    tryAllocation c { s with waitpool := W } r = ((tryAllocation c s r).1, { (tryAllocation c s r).2 with waitpool := W }) := by
  unfold tryAllocation
  rw [scheduleTask_frame]
  rcases scheduleTask c s r with ⟨res, s'⟩
  cases res with
  | error e => rfl
  | ok o =>
    cases o with
    | none => simp only; split <;> rfl
    | some sl =>
      cases sl with
      | nil => simp only; split <;> rfl
      | cons x xs => simp only; split <;> rfl

/-! ### placement of incoming tasks (per priority) -/

/-- every task handed to the placement step ends up exactly once either in the event list (started or
    failed) or in the list of tasks to park in the wait pool -/
theorem incomingOne_conserve (c : Cfg) (ts : List Req) :
    ∀ (s : SchedSt) (toWait : List Req) (evs : List Ev) (a : Nat),
      count a (evUids (incomingOne c s ts toWait evs).2.2) + count a (uids (incomingOne c s ts toWait evs).2.1)
        = count a (evUids evs) + count a (uids toWait) + count a (uids ts) := by
  induction ts with
  | nil => intro s toWait evs a; simp [incomingOne]
  | cons t ts ih =>
    intro s toWait evs a
    unfold incomingOne
    have hcons : count a (uids (t :: ts)) = count a [t.uid] + count a (uids ts) := by
      simp [count_cons]; omega
    rw [hcons]
    have hwait : ∀ s', count a (evUids (incomingOne c s' ts (toWait ++ [t]) evs).2.2)
        + count a (uids (incomingOne c s' ts (toWait ++ [t]) evs).2.1)
        = count a (evUids evs) + count a (uids toWait) + (count a [t.uid] + count a (uids ts)) := by
      intro s'; rw [ih]; simp [uids, count_append]; omega
    have hev : ∀ s' st, count a (evUids (incomingOne c s' ts toWait (evs ++ [Ev.adv t.uid st])).2.2)
        + count a (uids (incomingOne c s' ts toWait (evs ++ [Ev.adv t.uid st])).2.1)
        = count a (evUids evs) + count a (uids toWait) + (count a [t.uid] + count a (uids ts)) := by
      intro s' st; rw [ih]; simp [evUids, count_append]; omega
    have htry : ∀ (res : Except Err Bool × SchedSt),
        count a (evUids (match res with
          | (.ok true,  s') => incomingOne c s' ts toWait (evs ++ [Ev.adv t.uid "AGENT_EXECUTING_PENDING"])
          | (.ok false, s') => incomingOne c s' ts (toWait ++ [t]) evs
          | (.error _,  s') => incomingOne c s' ts toWait (evs ++ [Ev.adv t.uid "FAILED"])).2.2)
        + count a (uids (match res with
          | (.ok true,  s') => incomingOne c s' ts toWait (evs ++ [Ev.adv t.uid "AGENT_EXECUTING_PENDING"])
          | (.ok false, s') => incomingOne c s' ts (toWait ++ [t]) evs
          | (.error _,  s') => incomingOne c s' ts toWait (evs ++ [Ev.adv t.uid "FAILED"])).2.1)
        = count a (evUids evs) + count a (uids toWait) + (count a [t.uid] + count a (uids ts)) := by
      intro res
      obtain ⟨r, s'⟩ := res
      cases r with
      | error e => exact hev s' _
      | ok b => cases b with
        | true => exact hev s' _
        | false => exact hwait s'
    by_cases henv : envMissing s t = true
    · rw [if_pos henv]; exact hwait s
    · rw [if_neg henv]
      cases happ : t.app with
      | none => simp only; exact htry _
      | some slots =>
        simp only
        by_cases hne : slots ≠ []
        · rw [if_pos hne]; exact hev _ _
        · rw [if_neg hne]; exact htry _

/-! ### cancel messages -/

theorem poolOf_mem (wp : List (Int × List Req)) (e : Int × List Req) (hk : KeysOK wp) (he : e ∈ wp) : poolOf wp e.1 = e.2 := by
  induction wp with
  | nil => cases he
  | cons x wp ih =>
    rw [poolOf_cons]
    rcases mem_cons.mp he with h | h
    · subst h; simp
    · have hne : x.1 ≠ e.1 := by
        intro heq
        have := (nodup_cons.mp hk).1
        apply this
        exact mem_map.mpr ⟨e, h, heq.symm⟩
      rw [if_neg hne]
      exact ih (nodup_cons.mp hk).2 h

/-- a cancel message for `uid` that finds the task in the pool: the task leaves the pool (once) -/
theorem removeFromPools_some (wp wp' : List (Int × List Req)) (uid : Nat) (t : Req) (hk : KeysOK wp)
    (h : removeFromPools wp uid = (wp', some t)) (u : Nat) :
    t.uid = uid ∧ KeysOK wp' ∧ (u ≠ uid → waiting wp' u = waiting wp u)
      ∧ (u = uid → waiting wp u ≤ 1 → waiting wp' u + 1 = waiting wp u) := by
  unfold removeFromPools at h
  cases hf : wp.find? (fun e => e.2.any (fun r => r.uid = uid)) with
  | none => rw [hf] at h; simp only at h; cases h
  | some e =>
    rw [hf] at h
    simp only [Prod.mk.injEq] at h
    obtain ⟨h1, h2⟩ := h
    have hem : e ∈ wp := mem_of_find?_eq_some hf
    have hany : e.2.any (fun r => r.uid = uid) = true := by
      have := find?_some hf; simpa using this
    have htu : t.uid = uid := by
      have := find?_some h2; simpa using this
    have hupd := waiting_update wp e.1 (fun l => l.filter (fun r => r.uid ≠ uid)) hk u
    have hanyk : wp.any (fun x => x.1 = e.1) = true := any_eq_true.mpr ⟨e, hem, by simp⟩
    rw [if_pos hanyk, if_pos hanyk, poolOf_mem wp e hk hem, count_uids_filter_ne] at hupd
    rw [h1] at hupd
    refine ⟨htu, ?_, ?_, ?_⟩
    · rw [← h1]; exact keysOK_update wp e.1 _ hk
    · intro hne; rw [if_neg hne] at hupd; omega
    · intro heq hle
      rw [if_pos heq] at hupd
      have hpos : 0 < count uid (uids e.2) := (any_uid_iff e.2 uid).mp hany
      have hle2 := poolOf_le wp e.1 uid
      rw [poolOf_mem wp e hk hem] at hle2
      subst heq
      omega

theorem cancelFold_conserve (us : List Nat) (u : Nat) :
    ∀ (acc : SchedSt × List Ev), KeysOK acc.1.waitpool → waiting acc.1.waitpool u ≤ 1 →
      KeysOK (us.foldl (fun (acc : SchedSt × List Ev) uid =>
          match removeFromPools acc.1.waitpool uid with
          | (wp, some t) => ({ acc.1 with waitpool := wp }, acc.2 ++ [Ev.adv t.uid "CANCELED"])
          | (_,  none)   => acc) acc).1.waitpool
      ∧ count u (evUids (us.foldl (fun (acc : SchedSt × List Ev) uid =>
          match removeFromPools acc.1.waitpool uid with
          | (wp, some t) => ({ acc.1 with waitpool := wp }, acc.2 ++ [Ev.adv t.uid "CANCELED"])
          | (_,  none)   => acc) acc).2)
        + waiting (us.foldl (fun (acc : SchedSt × List Ev) uid =>
          match removeFromPools acc.1.waitpool uid with
          | (wp, some t) => ({ acc.1 with waitpool := wp }, acc.2 ++ [Ev.adv t.uid "CANCELED"])
          | (_,  none)   => acc) acc).1.waitpool u
        = count u (evUids acc.2) + waiting acc.1.waitpool u := by
  induction us with
  | nil => intro acc hk _; exact ⟨hk, rfl⟩
  | cons x xs ih =>
    intro acc hk hle
    rw [foldl_cons]
    rcases hr : removeFromPools acc.1.waitpool x with ⟨wp', ot⟩
    cases ot with
    | none => simp only; exact ih acc hk hle
    | some t =>
      simp only
      obtain ⟨h1, h2, h3, h4⟩ := removeFromPools_some _ _ _ _ hk hr u
      by_cases e : u = x
      · have h4' := h4 e hle
        obtain ⟨i1, i2⟩ := ih ({ acc.1 with waitpool := wp' }, acc.2 ++ [Ev.adv t.uid "CANCELED"]) h2 (by simp only; omega)
        refine ⟨i1, ?_⟩
        rw [i2]
        simp only [evUids_append, count_append]
        have : count u (evUids [Ev.adv t.uid "CANCELED"]) = 1 := by
          simp [evUids, h1, e]
        omega
      · have h3' := h3 e
        obtain ⟨i1, i2⟩ := ih ({ acc.1 with waitpool := wp' }, acc.2 ++ [Ev.adv t.uid "CANCELED"]) h2 (by simp only; omega)
        refine ⟨i1, ?_⟩
        rw [i2]
        simp only [evUids_append, count_append]
        have : count u (evUids [Ev.adv t.uid "CANCELED"]) = 0 := by
          rw [count_eq_zero]; simp [evUids, h1]; exact e
        omega

/-! ### draining the incoming queue -/

/-- how often `u` is handed in by the messages of one iteration -/
def handedM (msgs : List Msg) (u : Nat) : Nat :=
  count u (uids (msgs.flatMap (fun m => match m with | .sched ts => ts | .cancel _ => [])))

theorem handedM_cons_sched (ts : List Req) (ms : List Msg) (u : Nat) :
    handedM (.sched ts :: ms) u = count u (uids ts) + handedM ms u := by
  simp [handedM, count_append]

theorem handedM_cons_cancel (us : List Nat) (ms : List Msg) (u : Nat) :
    handedM (.cancel us :: ms) u = handedM ms u := by
  simp [handedM]

theorem evUids_map_adv (l : List Req) (st : String) :
    evUids (l.map (fun t => Ev.adv t.uid st)) = uids l := by
  simp [evUids, uids]

theorem drainIncoming_conserve (msgs : List Msg) (u : Nat) :
    ∀ (s : SchedSt) (toSched : List Req) (evs : List Ev), KeysOK s.waitpool → waiting s.waitpool u ≤ 1 →
      KeysOK (drainIncoming s msgs toSched evs).1.waitpool
      ∧ count u (evUids (drainIncoming s msgs toSched evs).2.2) + count u (uids (drainIncoming s msgs toSched evs).2.1)
          + waiting (drainIncoming s msgs toSched evs).1.waitpool u
        = count u (evUids evs) + count u (uids toSched) + waiting s.waitpool u + handedM msgs u := by
  induction msgs with
  | nil => intro s toSched evs hk _; simp [drainIncoming, handedM, hk]
  | cons m ms ih =>
    intro s toSched evs hk hle
    cases m with
    | sched ts =>
      unfold drainIncoming
      obtain ⟨i1, i2⟩ := ih s (toSched ++ ts.filter (fun t => t.ranks > 0))
        (evs ++ (ts.filter (fun t => t.ranks ≤ 0)).map (fun t => Ev.adv t.uid "FAILED")) hk hle
      refine ⟨i1, ?_⟩
      rw [i2, handedM_cons_sched]
      simp only [evUids_append, uids_append, count_append, evUids_map_adv]
      have := count_filter_split ts (fun t => decide (t.ranks > 0)) (fun t => decide (t.ranks ≤ 0))
        (by intro r; by_cases h : r.ranks > 0 <;> simp [h] <;> omega) u
      omega
    | cancel us =>
      unfold drainIncoming
      have hc := cancelFold_conserve us u (s, []) hk hle
      generalize (us.foldl (fun (acc : SchedSt × List Ev) uid =>
          match removeFromPools acc.1.waitpool uid with
          | (wp, some t) => ({ acc.1 with waitpool := wp }, acc.2 ++ [Ev.adv t.uid "CANCELED"])
          | (_,  none)   => acc) (s, [])) = r at hc ⊢
      obtain ⟨c1, c2⟩ := hc
      simp only [evUids_nil, count_nil, Nat.zero_add] at c2
      simp only
      obtain ⟨i1, i2⟩ := ih r.1 toSched (evs ++ r.2) c1 (by omega)
      refine ⟨i1, ?_⟩
      rw [i2, handedM_cons_cancel]
      simp only [evUids_append, count_append]
      omega

/-! ### parking what must wait -/

theorem parkTasks_conserve (p : Int) (u : Nat) (ts : List Req) :
    ∀ (s : SchedSt) (evs : List Ev), KeysOK s.waitpool → waiting s.waitpool u + count u (uids ts) ≤ 1 →
      KeysOK (parkTasks p s ts evs).1.waitpool
      ∧ count u (evUids (parkTasks p s ts evs).2) + waiting (parkTasks p s ts evs).1.waitpool u
        = count u (evUids evs) + waiting s.waitpool u + count u (uids ts) := by
  induction ts with
  | nil => intro s evs hk _; simp [parkTasks, hk]
  | cons t ts ih =>
    intro s evs hk hle
    unfold parkTasks
    rw [uids_cons, count_cons] at hle ⊢
    have hple := poolOf_le s.waitpool p u
    -- what dict insertion does to the uids of the pool
    have hins : count u (uids (poolInsert (poolOf s.waitpool p) t))
        = count u (uids (poolOf s.waitpool p)) + (if t.uid = u then 1 else 0) := by
      rw [uids_poolInsert]
      by_cases e : t.uid = u
      · have h0 : count u (uids (poolOf s.waitpool p)) = 0 := by
          have : (if (t.uid == u) = true then 1 else 0) = 1 := by simp [e]
          omega
        have hna : ¬ ((poolOf s.waitpool p).any (fun x => x.uid = t.uid) = true) := by
          rw [any_uid_iff, e]; omega
        rw [if_neg hna, count_append, if_pos e, e]; simp
      · rw [if_neg e]
        split
        · omega
        · rw [count_append]
          have : count u [t.uid] = 0 := by simp [count_singleton]; exact e
          omega
    by_cases hc : t.uid ∈ s.cancel
    · rw [if_pos hc]
      have hw := waiting_setPool s.waitpool p ((poolInsert (poolOf s.waitpool p) t).filter (fun r => r.uid ≠ t.uid)) hk u
      rw [count_uids_filter_ne, hins] at hw
      have hk1 := keysOK_setPool s.waitpool p ((poolInsert (poolOf s.waitpool p) t).filter (fun r => r.uid ≠ t.uid)) hk
      by_cases e : t.uid = u
      · have e' : u = t.uid := e.symm
        rw [if_pos e'] at hw
        have hb : (t.uid == u) = true := by simp [e]
        rw [if_pos hb] at hle ⊢
        obtain ⟨i1, i2⟩ := ih { s with cancel := s.cancel.erase t.uid,
                                       waitpool := setPool s.waitpool p ((poolInsert (poolOf s.waitpool p) t).filter (fun r => r.uid ≠ t.uid)) }
          (evs ++ [Ev.adv t.uid "CANCELED"]) hk1 (by simp only; omega)
        refine ⟨i1, ?_⟩
        rw [i2]
        simp only [evUids_append, count_append]
        have : count u (evUids [Ev.adv t.uid "CANCELED"]) = 1 := by simp [evUids, e]
        omega
      · have e' : ¬ u = t.uid := fun h => e h.symm
        rw [if_neg e', if_neg e] at hw
        have hb : ¬ (t.uid == u) = true := by simp [e]
        rw [if_neg hb] at hle ⊢
        obtain ⟨i1, i2⟩ := ih { s with cancel := s.cancel.erase t.uid,
                                       waitpool := setPool s.waitpool p ((poolInsert (poolOf s.waitpool p) t).filter (fun r => r.uid ≠ t.uid)) }
          (evs ++ [Ev.adv t.uid "CANCELED"]) hk1 (by simp only; omega)
        refine ⟨i1, ?_⟩
        rw [i2]
        simp only [evUids_append, count_append]
        have : count u (evUids [Ev.adv t.uid "CANCELED"]) = 0 := by simp [evUids, e]
        omega
    · rw [if_neg hc]
      have hw := waiting_setPool s.waitpool p (poolInsert (poolOf s.waitpool p) t) hk u
      rw [hins] at hw
      have hk1 := keysOK_setPool s.waitpool p (poolInsert (poolOf s.waitpool p) t) hk
      by_cases e : t.uid = u
      · rw [if_pos e] at hw
        have hb : (t.uid == u) = true := by simp [e]
        rw [if_pos hb] at hle ⊢
        obtain ⟨i1, i2⟩ := ih { s with waitpool := setPool s.waitpool p (poolInsert (poolOf s.waitpool p) t) } evs hk1
          (by simp only; omega)
        refine ⟨i1, ?_⟩
        rw [i2]; simp only; omega
      · rw [if_neg e] at hw
        have hb : ¬ (t.uid == u) = true := by simp [e]
        rw [if_neg hb] at hle ⊢
        obtain ⟨i1, i2⟩ := ih { s with waitpool := setPool s.waitpool p (poolInsert (poolOf s.waitpool p) t) } evs hk1
          (by simp only; omega)
        refine ⟨i1, ?_⟩
        rw [i2]; simp only; omega

/-! ### `_schedule_incoming`: one placement pass per priority -/

theorem filter_or_split (l : List Req) (P Q : Req → Bool) (hd : ∀ r, ¬ (P r = true ∧ Q r = true)) (u : Nat) :
    count u (uids (l.filter (fun r => P r || Q r))) = count u (uids (l.filter P)) + count u (uids (l.filter Q)) := by
  induction l with
  | nil => rfl
  | cons x xs ih =>
    simp only [filter_cons]
    have := hd x
    cases hp : P x <;> cases hq : Q x <;> simp_all [count_cons] <;> omega

/-- insertion of a priority into the descending list of distinct priorities -/
def insPrio (acc : List Int) (p : Int) : List Int :=
  if acc.any (· = p) then acc else (acc.filter (· > p)) ++ [p] ++ (acc.filter (· < p))

theorem distinctPriosDesc_eq (ts : List Req) : distinctPriosDesc ts = (ts.map (·.prio)).foldl insPrio [] := rfl

theorem insPrio_spec (acc : List Int) (p : Int) (hn : acc.Nodup) :
    (insPrio acc p).Nodup ∧ ∀ x, x ∈ insPrio acc p ↔ x ∈ acc ∨ x = p := by
  unfold insPrio
  by_cases h : acc.any (· = p) = true
  · rw [if_pos h]
    refine ⟨hn, ?_⟩
    intro x
    constructor
    · exact Or.inl
    · rintro (hx | hx)
      · exact hx
      · obtain ⟨y, hy, hyp⟩ := any_eq_true.mp h
        have : y = p := by simpa using hyp
        rw [hx, ← this]; exact hy
  · rw [if_neg h]
    have hp : p ∉ acc := by
      intro hp; apply h; exact any_eq_true.mpr ⟨p, hp, by simp⟩
    constructor
    · rw [nodup_append, nodup_append]
      refine ⟨⟨hn.filter _, by simp, ?_⟩, hn.filter _, ?_⟩
      · intro a ha b hb
        simp only [mem_singleton] at hb
        have := (mem_filter.mp ha).2
        subst hb
        intro e; subst e; simp at this
      · intro a ha b hb
        have hb2 := (mem_filter.mp hb).2
        rcases mem_append.mp ha with ha | ha
        · have ha2 := (mem_filter.mp ha).2
          intro e; subst e
          simp only [decide_eq_true_eq] at ha2 hb2
          omega
        · simp only [mem_singleton] at ha
          subst ha
          intro e; subst e; simp at hb2
    · intro x
      simp only [mem_append, mem_filter, mem_singleton, decide_eq_true_eq]
      constructor
      · rintro ((⟨hx, _⟩ | hx) | ⟨hx, _⟩)
        · exact Or.inl hx
        · exact Or.inr hx
        · exact Or.inl hx
      · rintro (hx | hx)
        · have : x ≠ p := fun e => hp (e ▸ hx)
          rcases Int.lt_or_gt_of_ne this with hlt | hgt
          · exact Or.inr ⟨hx, hlt⟩
          · exact Or.inl (Or.inl ⟨hx, hgt⟩)
        · exact Or.inl (Or.inr hx)

theorem insPrio_fold (l : List Int) : ∀ (acc : List Int), acc.Nodup →
    (l.foldl insPrio acc).Nodup ∧ ∀ x, x ∈ l.foldl insPrio acc ↔ x ∈ acc ∨ x ∈ l := by
  induction l with
  | nil => intro acc hn; exact ⟨hn, fun x => by simp⟩
  | cons p ps ih =>
    intro acc hn
    rw [foldl_cons]
    obtain ⟨h1, h2⟩ := insPrio_spec acc p hn
    obtain ⟨i1, i2⟩ := ih (insPrio acc p) h1
    refine ⟨i1, ?_⟩
    intro x
    rw [i2 x, h2 x, mem_cons]
    constructor
    · rintro ((h | h) | h)
      · exact Or.inl h
      · exact Or.inr (Or.inl h)
      · exact Or.inr (Or.inr h)
    · rintro (h | h | h)
      · exact Or.inl (Or.inl h)
      · exact Or.inl (Or.inr h)
      · exact Or.inr h

theorem distinctPriosDesc_spec (ts : List Req) :
    (distinctPriosDesc ts).Nodup ∧ ∀ t ∈ ts, t.prio ∈ distinctPriosDesc ts := by
  rw [distinctPriosDesc_eq]
  obtain ⟨h1, h2⟩ := insPrio_fold (ts.map (·.prio)) [] nodup_nil
  refine ⟨h1, ?_⟩
  intro t ht
  rw [h2]
  exact Or.inr (mem_map.mpr ⟨t, ht, rfl⟩)

theorem filter_false' (l : List Req) : l.filter (fun _ => false) = [] := by
  induction l with
  | nil => rfl
  | cons x xs ih => rw [filter_cons]; simp [ih]

/-- one per-priority pass of `_schedule_incoming`: placement, then parking of what must wait -/
def incStep (c : Cfg) (toSched : List Req) (acc : SchedSt × List Ev × Bool) (p : Int) : SchedSt × List Ev × Bool :=
  match incomingOne c acc.1 (sortDesc (fun r => r.ranks) (toSched.filter (fun t => t.prio = p))) [] [] with
  | (s2, toWait, evs2) =>
    match parkTasks p s2 toWait [] with
    | (s3, evs3) => (s3, acc.2.1 ++ evs2 ++ evs3, toWait = [])

theorem scheduleIncoming_eq (c : Cfg) (s : SchedSt) (msgs : List Msg) :
    scheduleIncoming c s msgs
      = match drainIncoming s msgs [] [] with
        | (s1, toSched, evs) =>
          if toSched = [] then (s1, evs, none, false)
          else
            (fun (r : SchedSt × List Ev × Bool) => (r.1, r.2.1, some r.2.2, true))
              ((distinctPriosDesc toSched).foldl (incStep c toSched) (s1, evs, true)) := rfl

/-- the per-priority passes of `_schedule_incoming` over the priorities `ps` -/
theorem incomingFold_conserve (c : Cfg) (toSched : List Req) (u : Nat) (ps : List Int) (hn : ps.Nodup) :
    ∀ (acc : SchedSt × List Ev × Bool), KeysOK acc.1.waitpool →
      count u (evUids acc.2.1) + waiting acc.1.waitpool u
        + count u (uids (toSched.filter (fun t => decide (t.prio ∈ ps)))) ≤ 1 →
      KeysOK (ps.foldl (incStep c toSched) acc).1.waitpool
      ∧ count u (evUids (ps.foldl (incStep c toSched) acc).2.1) + waiting (ps.foldl (incStep c toSched) acc).1.waitpool u
        = count u (evUids acc.2.1) + waiting acc.1.waitpool u
          + count u (uids (toSched.filter (fun t => decide (t.prio ∈ ps)))) := by
  induction ps with
  | nil => intro acc hk _; simp [hk, filter_false']
  | cons p ps ih =>
    intro acc hk hle
    have hpn : p ∉ ps := (nodup_cons.mp hn).1
    have hsplit : count u (uids (toSched.filter (fun t => decide (t.prio ∈ p :: ps))))
        = count u (uids (toSched.filter (fun t => decide (t.prio = p))))
          + count u (uids (toSched.filter (fun t => decide (t.prio ∈ ps)))) := by
      rw [← filter_or_split toSched (fun t => decide (t.prio = p)) (fun t => decide (t.prio ∈ ps))
            (by intro r hr; simp only [decide_eq_true_eq] at hr; exact hpn (hr.1 ▸ hr.2)) u]
      congr 2
      apply filter_congr
      intro t _
      simp [mem_cons]
    rw [hsplit] at hle ⊢
    rw [foldl_cons]
    have hcons := incomingOne_conserve c (sortDesc (fun r => r.ranks) (toSched.filter (fun t => t.prio = p))) acc.1 [] [] u
    have hwp := incomingOne_wp c (sortDesc (fun r => r.ranks) (toSched.filter (fun t => t.prio = p))) acc.1 [] []
    rcases hio : incomingOne c acc.1 (sortDesc (fun r => r.ranks) (toSched.filter (fun t => t.prio = p))) [] [] with ⟨s2, toWait, evs2⟩
    rw [hio] at hcons hwp
    simp only [evUids_nil, uids_nil, count_nil, Nat.zero_add] at hcons hwp
    rw [count_uids_perm (sortDesc_perm _ _) u] at hcons
    have hk2 : KeysOK s2.waitpool := by rw [hwp]; exact hk
    have hpark := parkTasks_conserve p u toWait s2 [] hk2 (by rw [hwp]; omega)
    rcases hpt : parkTasks p s2 toWait [] with ⟨s3, evs3⟩
    rw [hpt] at hpark
    simp only [evUids_nil, count_nil, Nat.zero_add] at hpark
    obtain ⟨p1, p2⟩ := hpark
    have hstep : incStep c toSched acc p = (s3, acc.2.1 ++ evs2 ++ evs3, decide (toWait = [])) := by
      unfold incStep; rw [hio]; simp only; rw [hpt]
    rw [hstep]
    rw [hwp] at p2
    obtain ⟨i1, i2⟩ := ih (nodup_cons.mp hn).2 (s3, acc.2.1 ++ evs2 ++ evs3, decide (toWait = [])) p1
      (by simp only [evUids_append, count_append]; omega)
    refine ⟨i1, ?_⟩
    rw [i2]
    simp only [evUids_append, count_append]
    omega

/-- `_schedule_incoming` keeps the ledger: what is handed in is reported once or parked once -/
theorem scheduleIncoming_conserve (c : Cfg) (s : SchedSt) (msgs : List Msg) (u : Nat) (hk : KeysOK s.waitpool)
    (hle : waiting s.waitpool u + handedM msgs u ≤ 1) :
    KeysOK (scheduleIncoming c s msgs).1.waitpool
    ∧ count u (evUids (scheduleIncoming c s msgs).2.1) + waiting (scheduleIncoming c s msgs).1.waitpool u
      = waiting s.waitpool u + handedM msgs u := by
  rw [scheduleIncoming_eq]
  have hd := drainIncoming_conserve msgs u s [] [] hk (by omega)
  rcases hdr : drainIncoming s msgs [] [] with ⟨s1, toSched, evs⟩
  rw [hdr] at hd
  simp only [evUids_nil, uids_nil, count_nil, Nat.zero_add] at hd
  obtain ⟨d1, d2⟩ := hd
  simp only
  by_cases he : toSched = []
  · rw [if_pos he]
    subst he
    simp only [uids_nil, count_nil, Nat.add_zero] at d2
    exact ⟨d1, d2⟩
  · rw [if_neg he]
    obtain ⟨n1, n2⟩ := distinctPriosDesc_spec toSched
    have hall : toSched.filter (fun t => decide (t.prio ∈ distinctPriosDesc toSched)) = toSched := by
      rw [filter_eq_self]
      intro t ht; simpa using n2 t ht
    have := incomingFold_conserve c toSched u (distinctPriosDesc toSched) n1 (s1, evs, true) d1
      (by rw [hall]; simp only; omega)
    rw [hall] at this
    obtain ⟨f1, f2⟩ := this
    refine ⟨f1, ?_⟩
    rw [f2]; simp only; omega

/-! ### `_schedule_waitpool`: `lazy_bisect` over every priority pool -/

theorem fuel_ok (n : Nat) : n * (n + 2) + 1 < (n + 2) * (n + 2) := by
  have : (n + 2) * (n + 2) = n * (n + 2) + 2 * (n + 2) := by rw [Nat.add_mul]
  omega

/-- what `lazy_bisect` hands back (good, bad, failed) is what it was given, re-arranged -/
theorem lazyBisect_lists (c : Cfg) (data : List Req) (s : SchedSt) (u : Nat) :
    count u (uids (pickIdx data (lazyBisect c data s).1.good)) + count u (uids (pickIdx data (lazyBisect c data s).1.bad))
      + count u (uids (pickIdx data (lazyBisect c data s).1.fail)) = count u (uids data) := by
  unfold lazyBisect
  by_cases h : data = []
  · rw [if_pos h]; subst h; simp [pickIdx]
  · rw [if_neg h]
    apply bis_lists_conserve
    intro i
    exact bisLoop_partition c data (length_pos_iff.mpr h) _ s (fuel_ok _) i

/-- one priority pool through `lazy_bisect`: started and failed tasks are reported, the others stay -/
theorem waitpoolOne_conserve (c : Cfg) (s : SchedSt) (p : Int) (u : Nat) (hk : KeysOK s.waitpool) :
    KeysOK (waitpoolOne c s p).1.waitpool
    ∧ count u (evUids (waitpoolOne c s p).2.1) + waiting (waitpoolOne c s p).1.waitpool u = waiting s.waitpool u := by
  unfold waitpoolOne
  simp only
  by_cases h1 : poolOf s.waitpool p = []
  · rw [if_pos h1]; exact ⟨hk, by simp⟩
  · rw [if_neg h1]
    by_cases h2 : (poolOf s.waitpool p).filter (envOk s.envs) = []
    · rw [if_pos h2]; exact ⟨hk, by simp⟩
    · rw [if_neg h2]
      have hl := lazyBisect_lists c (sortDesc (fun r => r.ranks * r.cpr * r.gpr)
        ((poolOf s.waitpool p).filter (envOk s.envs))) s u
      have hw := lazyBisect_wp c (sortDesc (fun r => r.ranks * r.cpr * r.gpr)
        ((poolOf s.waitpool p).filter (envOk s.envs))) s
      rcases hlb : lazyBisect c (sortDesc (fun r => r.ranks * r.cpr * r.gpr)
        ((poolOf s.waitpool p).filter (envOk s.envs))) s with ⟨b, s'⟩
      rw [hlb] at hl hw
      simp only at hl hw ⊢
      rw [hw]
      rw [count_uids_perm (sortDesc_perm _ _) u] at hl
      have hsp := count_filter_split (poolOf s.waitpool p)
        (envOk s.envs)
        (envWait s.envs)
        (by intro r; unfold envOk envWait; cases r.env <;> simp) u
      have hset := waiting_setPool s.waitpool p
        (pickIdx (sortDesc (fun r => r.ranks * r.cpr * r.gpr)
          ((poolOf s.waitpool p).filter (envOk s.envs))) b.bad
         ++ (poolOf s.waitpool p).filter (envWait s.envs)) hk u
      refine ⟨keysOK_setPool _ _ _ hk, ?_⟩
      rw [uids_append, count_append] at hset
      simp only [evUids_append, count_append, evUids_map_adv]
      omega

theorem poolOf_map_other (wp : List (Int × List Req)) (p q : Int) (l : List Req) (h : q ≠ p) :
    poolOf (wp.map (fun e => if e.1 = p then (p, l) else e)) q = poolOf wp q := by
  induction wp with
  | nil => rfl
  | cons e wp ih =>
    rw [map_cons, poolOf_cons, poolOf_cons]
    by_cases he : e.1 = p
    · have hpq : ¬ p = q := fun x => h x.symm
      have hq : ¬ e.1 = q := by rw [he]; exact hpq
      simp only [he, if_true, hpq, if_false]
      rw [← he] at hpq
      exact ih
    · simp only [he, if_false]
      split
      · rfl
      · exact ih

theorem poolOf_append_other (wp : List (Int × List Req)) (p q : Int) (l : List Req) (h : q ≠ p) :
    poolOf (wp ++ [(p, l)]) q = poolOf wp q := by
  induction wp with
  | nil =>
    have hpq : ¬ p = q := fun x => h x.symm
    rw [nil_append, poolOf_cons]
    simp only [hpq, if_false]
  | cons e wp ih =>
    rw [cons_append, poolOf_cons, poolOf_cons]
    split
    · rfl
    · exact ih

theorem poolOf_setPool_other (wp : List (Int × List Req)) (p q : Int) (l : List Req) (h : q ≠ p) :
    poolOf (setPool wp p l) q = poolOf wp q := by
  unfold setPool
  split
  · exact poolOf_map_other wp p q l h
  · exact poolOf_append_other wp p q l h

theorem poolOf_setPool_same (wp : List (Int × List Req)) (p : Int) (l : List Req) : poolOf (setPool wp p l) p = l := by
  unfold setPool
  by_cases h : wp.any (fun e => e.1 = p) = true
  · rw [if_pos h]
    induction wp with
    | nil => simp at h
    | cons e wp ih =>
      rw [map_cons, poolOf_cons]
      by_cases he : e.1 = p
      · simp [he]
      · simp only [he, if_false]
        apply ih
        simpa [he] using h
  · rw [if_neg h]
    induction wp with
    | nil => simp [poolOf]
    | cons e wp ih =>
      rw [cons_append, poolOf_cons]
      have he : ¬ e.1 = p := by
        intro x; apply h; simp [x]
      rw [if_neg he]
      apply ih
      intro hx; apply h
      rw [any_cons, hx]; simp

/-- `lazy_bisect` over one element: the element is checked once, and that is all -/
theorem lazyBisect_single (c : Cfg) (r : Req) (s : SchedSt) :
    lazyBisect c [r] s
      = match tryAllocation c s r with
        | (.ok true,  s') => ({ lastGood := some 0, good := [0] }, s')
        | (.ok false, s') => ({ lastBad := some 0, bad := [0] }, s')
        | (.error _,  s') => ({ lastBad := some 0, fail := [0] }, s') := by
  unfold lazyBisect
  simp only [List.cons_ne_nil, if_false, List.length_singleton]
  rw [bisLoop]
  simp only [bisCheck, List.length_singleton, Nat.sub_self, List.getElem?_cons_zero]
  rcases tryAllocation c s r with ⟨res, s'⟩
  cases res with
  | error e => simp only; rw [bisLoop]; simp
  | ok b =>
    cases b with
    | true => simp only; rw [bisLoop]; simp
    | false => simp only; rw [bisLoop]; simp

/-- a pool with one task through `_schedule_waitpool`: the task is tried once -/
theorem waitpoolOne_single (c : Cfg) (s : SchedSt) (p : Int) (r : Req) (hp : poolOf s.waitpool p = [r]) (henv : envOk s.envs r = true) :
    waitpoolOne c s p
      = match tryAllocation c s r with
        | (.ok true,  s') => ({ s' with waitpool := setPool s'.waitpool p [] }, [Ev.adv r.uid "AGENT_EXECUTING_PENDING"], true, false)
        | (.ok false, s') => ({ s' with waitpool := setPool s'.waitpool p [r] }, [], false, true)
        | (.error _,  s') => ({ s' with waitpool := setPool s'.waitpool p [] }, [Ev.adv r.uid "FAILED"], false, false) := by
  have hnw : envWait s.envs r = false := by
    unfold envOk at henv; unfold envWait
    cases he : r.env with
    | none => rfl
    | some e => rw [he] at henv; simp only [decide_eq_true_eq] at henv; simp [henv]
  unfold waitpoolOne
  simp only [hp, cons_ne_nil, if_false, filter_cons, henv, hnw, filter_nil, if_true, Bool.false_eq_true]
  have hs : sortDesc (fun r => r.ranks * r.cpr * r.gpr) [r] = [r] := by simp [sortDesc, insertDesc]
  rw [hs, lazyBisect_single]
  rcases tryAllocation c s r with ⟨res, s'⟩
  cases res with
  | error e => simp [pickIdx]
  | ok b => cases b <;> simp [pickIdx]

/-- one step of the fold of `_schedule_waitpool` -/
def wpStep (c : Cfg) (acc : SchedSt × List Ev × Bool × Bool) (p : Int) : SchedSt × List Ev × Bool × Bool :=
  match waitpoolOne c acc.1 p with
  | (s', evs, act, unsched) => (s', acc.2.1 ++ evs, acc.2.2.1 && !unsched, acc.2.2.2 || act)

theorem scheduleWaitpool_eq (c : Cfg) (s : SchedSt) :
    scheduleWaitpool c s = (prios s.waitpool).foldl (wpStep c) (s, [], true, false) := rfl

theorem scheduleWaitpool_conserve (c : Cfg) (s : SchedSt) (u : Nat) (hk : KeysOK s.waitpool) :
    KeysOK (scheduleWaitpool c s).1.waitpool
    ∧ count u (evUids (scheduleWaitpool c s).2.1) + waiting (scheduleWaitpool c s).1.waitpool u = waiting s.waitpool u := by
  rw [scheduleWaitpool_eq]
  have key : ∀ (ps : List Int) (acc : SchedSt × List Ev × Bool × Bool), KeysOK acc.1.waitpool →
      KeysOK (ps.foldl (wpStep c) acc).1.waitpool
      ∧ count u (evUids (ps.foldl (wpStep c) acc).2.1) + waiting (ps.foldl (wpStep c) acc).1.waitpool u
        = count u (evUids acc.2.1) + waiting acc.1.waitpool u := by
    intro ps
    induction ps with
    | nil => intro acc hk; exact ⟨hk, rfl⟩
    | cons p ps ih =>
      intro acc hk
      rw [foldl_cons]
      obtain ⟨w1, w2⟩ := waitpoolOne_conserve c acc.1 p u hk
      rcases hwo : waitpoolOne c acc.1 p with ⟨s', evs, act, unsched⟩
      rw [hwo] at w1 w2
      simp only at w1 w2
      have hstep : wpStep c acc p = (s', acc.2.1 ++ evs, acc.2.2.1 && !unsched, acc.2.2.2 || act) := by
        unfold wpStep; rw [hwo]
      rw [hstep]
      obtain ⟨i1, i2⟩ := ih (s', acc.2.1 ++ evs, acc.2.2.1 && !unsched, acc.2.2.2 || act) w1
      refine ⟨i1, ?_⟩
      rw [i2]
      simp only [evUids_append, count_append]
      omega
  have := key (prios s.waitpool) (s, [], true, false) hk
  simpa using this

/-! ### the iteration and the loop -/

theorem loopIterA_conserve (c : Cfg) (s : SchedSt) (res : Bool) (it : Iter) (u : Nat) (hk : KeysOK s.waitpool)
    (hle : waiting s.waitpool u + handedM it.incoming u ≤ 1) :
    KeysOK (loopIterA c s res it).1.waitpool
    ∧ count u (evUids (loopIterA c s res it).2.2) + waiting (loopIterA c s res it).1.waitpool u
      = waiting s.waitpool u + handedM it.incoming u := by
  unfold loopIterA
  simp only
  have hk0 : KeysOK ({ s with cancel := s.cancel ++ it.marks, envs := s.envs ++ it.envs } : SchedSt).waitpool := hk
  cases res with
  | true =>
    simp only [if_true]
    obtain ⟨w1, w2⟩ := scheduleWaitpool_conserve c { s with cancel := s.cancel ++ it.marks, envs := s.envs ++ it.envs } u hk0
    generalize scheduleWaitpool c { s with cancel := s.cancel ++ it.marks, envs := s.envs ++ it.envs } = w at w1 w2 ⊢
    have w2' : count u (evUids w.2.1) + waiting w.1.waitpool u = waiting s.waitpool u := w2
    obtain ⟨i1, i2⟩ := scheduleIncoming_conserve c w.1 it.incoming u w1 (by omega)
    rcases hsi : scheduleIncoming c w.1 it.incoming with ⟨s2, evs2, rInc, x⟩
    rw [hsi] at i1 i2
    simp only at i1 i2 ⊢
    refine ⟨i1, ?_⟩
    simp only [evUids_append, count_append]
    omega
  | false =>
    simp only [Bool.false_eq_true, if_false]
    obtain ⟨i1, i2⟩ := scheduleIncoming_conserve c { s with cancel := s.cancel ++ it.marks, envs := s.envs ++ it.envs }
      it.incoming u hk0 hle
    rcases hsi : scheduleIncoming c { s with cancel := s.cancel ++ it.marks, envs := s.envs ++ it.envs } it.incoming
      with ⟨s2, evs2, rInc, x⟩
    rw [hsi] at i1 i2
    simp only at i1 i2 ⊢
    refine ⟨i1, ?_⟩
    simp only [evUids_append, count_append, evUids_nil, count_nil]
    omega

theorem loopIter_conserve (c : Cfg) (s : SchedSt) (res : Bool) (it : Iter) (u : Nat) (hk : KeysOK s.waitpool)
    (hle : waiting s.waitpool u + handedM it.incoming u ≤ 1) :
    KeysOK (loopIter c s res it).1.waitpool
    ∧ count u (evUids (loopIter c s res it).2.2) + waiting (loopIter c s res it).1.waitpool u
      = waiting s.waitpool u + handedM it.incoming u := by
  unfold loopIter
  obtain ⟨a1, a2⟩ := loopIterA_conserve c s res it u hk hle
  rcases hA : loopIterA c s res it with ⟨s2, res1, evs⟩
  rw [hA] at a1 a2
  simp only at a1 a2 ⊢
  have hu := unscheduleCompleted_wp s2 it.unsched
  rcases hU : unscheduleCompleted s2 it.unsched with ⟨s3, r, x⟩
  rw [hU] at hu
  simp only at hu ⊢
  rw [hu]
  exact ⟨a1, a2⟩

/-- how often `u` is handed to the scheduler in a whole history -/
def handed : List Iter → Nat → Nat
  | [],        _ => 0
  | it :: its, u => handedM it.incoming u + handed its u

theorem runLoop_conserve (c : Cfg) (u : Nat) (its : List Iter) :
    ∀ (s : SchedSt) (res : Bool) (acc : List (List Ev)), KeysOK s.waitpool →
      count u (evUids acc.flatten) + waiting s.waitpool u + handed its u ≤ 1 →
      KeysOK (runLoop c s res its acc).1.waitpool
      ∧ count u (evUids (runLoop c s res its acc).2.2.flatten) + waiting (runLoop c s res its acc).1.waitpool u
        = count u (evUids acc.flatten) + waiting s.waitpool u + handed its u := by
  induction its with
  | nil => intro s res acc hk _; simp [runLoop, handed, hk]
  | cons it its ih =>
    intro s res acc hk hle
    unfold runLoop
    simp only [handed] at hle ⊢
    obtain ⟨l1, l2⟩ := loopIter_conserve c s res it u hk (by omega)
    rcases hL : loopIter c s res it with ⟨s', res', evs⟩
    rw [hL] at l1 l2
    simp only at l1 l2 ⊢
    have hfl : (acc ++ [evs]).flatten = acc.flatten ++ evs := by simp
    obtain ⟨i1, i2⟩ := ih s' res' (acc ++ [evs]) l1 (by rw [hfl, evUids_append, count_append]; omega)
    refine ⟨i1, ?_⟩
    rw [i2, hfl, evUids_append, count_append]
    omega

end RPVerif.Sched
