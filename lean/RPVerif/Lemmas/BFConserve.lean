import RPVerif.Lemmas.TmgrSched
/-!
Conservation of tasks in the Backfilling scheduler (C12): over every history of callbacks, a uid that
is handed in at most once is either forwarded once or still held (wait pool / early-binding list) once.
The wait pool of Backfilling is a dict keyed by uid (`waitInsert`), hence the uniqueness hypothesis,
stated per uid.
-/
namespace RPVerif.TmgrSched
open List

theorem bfLoop_conserve (ts : List Task) : ∀ (ps : List Pilot) (pids : List Nat) (a : Nat),
    count a (fwdUids (bfLoop ps pids ts).2.2) + count a (uids (bfLoop ps pids ts).2.1) = count a (uids ts) := by
  induction ts with
  | nil => intro ps pids a; simp [bfLoop, uids]
  | cons t ts ih =>
    intro ps pids a
    unfold bfLoop
    by_cases hp : pids = []
    · rw [if_pos hp]
      have := ih ps pids a
      rcases hl : bfLoop ps pids ts with ⟨ps', un, outs⟩
      rw [hl] at this
      simp only [uids, map_cons, count_cons] at this ⊢
      omega
    · rw [if_neg hp]
      cases hb : bfPlace ps t pids with
      | none =>
        simp only
        have := ih ps pids a
        rcases hl : bfLoop ps pids ts with ⟨ps', un, outs⟩
        rw [hl] at this
        simp only [uids, map_cons, count_cons] at this ⊢
        omega
      | some r =>
        obtain ⟨ps1, pid, full⟩ := r
        simp only
        have := ih ps1 (if full then pids.erase pid else pids) a
        rcases hl : bfLoop ps1 (if full then pids.erase pid else pids) ts with ⟨ps', un, outs⟩
        rw [hl] at this
        simp only [fwdUids_cons_fwd, uids, map_cons, count_cons] at this ⊢
        omega

theorem bfSchedule_conserve (c : BFCfg) (s : S) (a : Nat) :
    count a (fwdUids (bfSchedule c s).2) + count a (held (bfSchedule c s).1) = count a (held s) := by
  unfold bfSchedule
  split
  · simp
  · split
    · simp
    · have := bfLoop_conserve s.wait s.pilots (eligiblePids c s) a
      rcases hl : bfLoop s.pilots (eligiblePids c s) s.wait with ⟨ps', un, outs⟩
      rw [hl] at this
      simp only [held, count_append] at this ⊢
      omega

theorem uids_waitInsert (w : List Task) (t : Task) :
    uids (waitInsert w t) = if w.any (fun x => x.uid = t.uid) then uids w else uids w ++ [t.uid] := by
  unfold waitInsert
  split
  · unfold uids
    rw [map_map]
    apply map_congr_left
    intro x _
    simp only [Function.comp]
    split
    · rename_i h; exact h.symm
    · rfl
  · simp [uids]

theorem any_uid_iff' (l : List Task) (v : Nat) : l.any (fun x => x.uid = v) = true ↔ 0 < count v (uids l) := by
  rw [count_pos_iff, any_eq_true]
  constructor
  · rintro ⟨x, hx, h⟩
    exact mem_map.mpr ⟨x, hx, by simpa using h⟩
  · intro h
    obtain ⟨x, hx, h⟩ := mem_map.mp h
    exact ⟨x, hx, by simpa using h⟩

/-- inserting a batch into the dict-like wait pool adds every uid once, as long as `a` is not in twice -/
theorem waitInsert_fold (rest : List Task) (a : Nat) : ∀ (w : List Task),
    count a (uids w) + count a (uids rest) ≤ 1 →
    count a (uids (rest.foldl waitInsert w)) = count a (uids w) + count a (uids rest) := by
  induction rest with
  | nil => intro w _; simp [uids]
  | cons t ts ih =>
    intro w hle
    rw [foldl_cons]
    have hcons : count a (uids (t :: ts)) = (if t.uid = a then 1 else 0) + count a (uids ts) := by
      simp only [uids, map_cons, count_cons]
      by_cases e : t.uid = a <;> simp [e] <;> omega
    rw [hcons] at hle ⊢
    have hins : count a (uids (waitInsert w t)) = count a (uids w) + (if t.uid = a then 1 else 0) := by
      rw [uids_waitInsert]
      by_cases e : t.uid = a
      · have h0 : count a (uids w) = 0 := by rw [if_pos e] at hle; omega
        have hna : ¬ (w.any (fun x => x.uid = t.uid) = true) := by rw [any_uid_iff', e]; omega
        rw [if_neg hna, count_append, if_pos e, e]; simp
      · rw [if_neg e]
        split
        · omega
        · rw [count_append]
          have : count a [t.uid] = 0 := by rw [count_eq_zero]; simp; exact fun h => e h.symm
          omega
    rw [ih (waitInsert w t) (by rw [hins]; omega), hins]
    omega

theorem bfStep_pilotState (c : BFCfg) (execVal : Nat) (s : S) (pid : Nat) (v : Option Nat) :
    bfStep c execVal s (.pilotState pid v) = ({ s with pilots := touchPilot s.pilots pid v }, [], none)
    ∨ bfStep c execVal s (.pilotState pid v)
        = ((bfSchedule c { s with pilots := touchPilot s.pilots pid v }).1,
           (bfSchedule c { s with pilots := touchPilot s.pilots pid v }).2, none) := by
  simp only [bfStep]
  repeat' split
  all_goals first | exact Or.inl rfl | exact Or.inr rfl

theorem bfStep_conserve (c : BFCfg) (execVal : Nat) (s : S) (op : Op) (a : Nat)
    (hle : count a (held s) + count a (newUids op) ≤ 1) :
    count a (fwdUids (bfStep c execVal s op).2.1) + count a (held (bfStep c execVal s op).1)
      = count a (held s) + count a (newUids op) := by
  cases op with
  | addPilots pids cores =>
    simp only [bfStep, bfAddPilots, newUids, count_nil, Nat.add_zero]
    rcases hm : markAdded s.pilots pids with ⟨ps, e⟩
    cases e with
    | some e => simp [held]
    | none =>
      simp only
      have hf := flushEarly_conserve pids s.early a
      rcases hfl : flushEarly s.early pids with ⟨early', outs⟩
      rw [hfl] at hf
      simp only at hf ⊢
      have hb := bfSchedule_conserve c { s with pilots := bfInitInfo c ps pids cores, early := early', pids := s.pids ++ pids } a
      rcases hbs : bfSchedule c { s with pilots := bfInitInfo c ps pids cores, early := early', pids := s.pids ++ pids } with ⟨s', outs'⟩
      rw [hbs] at hb
      simp only [held, fwdUids_append, count_append] at hb hf ⊢
      omega
  | removePilots pids =>
    simp only [bfStep, rrRemovePilots, newUids, count_nil, Nat.add_zero]
    rcases hm : markRemoved s.pilots pids with ⟨ps, e⟩
    cases e with
    | some e => simp [held]
    | none =>
      simp only
      rcases he : erasePids s.pids pids with ⟨pids', e'⟩
      simp [held]
  | pilotState pid v =>
    simp only [newUids, count_nil, Nat.add_zero]
    rcases bfStep_pilotState c execVal s pid v with h | h
    · rw [h]; simp [held]
    · rw [h]
      have hb := bfSchedule_conserve c { s with pilots := touchPilot s.pilots pid v } a
      simp only [held] at hb ⊢
      exact hb
  | work ts =>
    simp only [bfStep, bfWork, newUids] at hle ⊢
    have hw := workFilter_conserve s.pilots ts s.early a
    rcases hwf : workFilter s.pilots s.early ts with ⟨early', outs, rest⟩
    rw [hwf] at hw
    simp only at hw ⊢
    have hle2 : count a (uids s.wait) + count a (uids rest) ≤ 1 := by
      simp only [held, count_append] at hle; omega
    have hins := waitInsert_fold rest a s.wait hle2
    have hb := bfSchedule_conserve c { s with early := early', wait := rest.foldl waitInsert s.wait } a
    rcases hbs : bfSchedule c { s with early := early', wait := rest.foldl waitInsert s.wait } with ⟨s', outs'⟩
    rw [hbs] at hb
    simp only [held, fwdUids_append, fwdUids_sched, nil_append, count_append] at hb hw hle ⊢
    omega
  | taskStates us =>
    simp only [bfStep, newUids, count_nil, Nat.add_zero]
    rcases hu : bfUpdateTasks execVal s.pilots us false with ⟨ps, r, e⟩
    cases e with
    | some e => simp [held]
    | none =>
      cases r with
      | false => simp [held]
      | true =>
        simp only
        have hb := bfSchedule_conserve c { s with pilots := ps } a
        rcases hbs : bfSchedule c { s with pilots := ps } with ⟨s', outs'⟩
        rw [hbs] at hb
        simp only [held] at hb ⊢
        exact hb

theorem bfRun_conserve (c : BFCfg) (execVal : Nat) (ops : List Op) (a : Nat) : ∀ (s : S),
    count a (held s) + count a (allNew ops) ≤ 1 →
    count a (fwdUids (bfRun c execVal s ops).2) + count a (held (bfRun c execVal s ops).1)
      = count a (held s) + count a (allNew ops) := by
  induction ops with
  | nil => intro s _; simp [bfRun, allNew]
  | cons op ops ih =>
    intro s hle
    simp only [allNew, count_append] at hle ⊢
    have h1 := bfStep_conserve c execVal s op a (by omega)
    rcases hs : bfStep c execVal s op with ⟨s', outs, e⟩
    rw [hs] at h1
    simp only at h1
    have h2 := ih s' (by omega)
    simp only [bfRun, hs]
    rcases hr : bfRun c execVal s' ops with ⟨s'', outs'⟩
    rw [hr] at h2
    simp only [fwdUids_append, count_append] at h1 h2 ⊢
    omega

end RPVerif.TmgrSched
