import RPVerif.Model.Staging
/-! helper lemmas for C11: the abstract file system and operation lists -/
namespace RPVerif.Staging
open List

theorem find_filter_ne (fs : FS) (p q : Path) (h : q ≠ p) :
    (fs.filter (fun e => e.1 ≠ p)).find? (fun e => e.1 = q) = fs.find? (fun e => e.1 = q) := by
  induction fs with
  | nil => rfl
  | cons e es ih =>
    by_cases h1 : e.1 = p
    · have hq : ¬ e.1 = q := fun hq => h (hq ▸ h1 ▸ rfl)
      have hf : (e :: es).filter (fun e => decide (e.1 ≠ p)) = es.filter (fun e => decide (e.1 ≠ p)) := by
        rw [filter_cons]; simp [h1]
      rw [hf, ih, find?_cons_of_neg (by simpa using hq)]
    · have hf : (e :: es).filter (fun e => decide (e.1 ≠ p)) = e :: es.filter (fun e => decide (e.1 ≠ p)) := by
        rw [filter_cons]; simp [h1]
      rw [hf]
      by_cases h2 : e.1 = q
      · rw [find?_cons_of_pos (by simpa using h2), find?_cons_of_pos (by simpa using h2)]
      · rw [find?_cons_of_neg (by simpa using h2), find?_cons_of_neg (by simpa using h2), ih]

theorem find_filter_same (fs : FS) (p : Path) :
    (fs.filter (fun e => e.1 ≠ p)).find? (fun e => e.1 = p) = none := by
  apply find?_eq_none.mpr
  intro e he
  have := (mem_filter.mp he).2
  simpa using this

theorem read_write_same (fs : FS) (p : Path) (c : Content) : (fs.write p c).read p = some c := by
  simp [FS.write, FS.read, find?_cons]

theorem read_write_other (fs : FS) (p q : Path) (c : Content) (h : q ≠ p) : (fs.write p c).read q = fs.read q := by
  unfold FS.write FS.read
  have hpq : ¬ (p = q) := fun e => h e.symm
  simp only [find?_cons, hpq, decide_false]
  rw [find_filter_ne fs p q h]

theorem read_remove_same (fs : FS) (p : Path) : (fs.remove p).read p = none := by
  unfold FS.remove FS.read
  rw [find_filter_same]

theorem read_remove_other (fs : FS) (p q : Path) (h : q ≠ p) : (fs.remove p).read q = fs.read q := by
  unfold FS.remove FS.read
  rw [find_filter_ne fs p q h]

/-- locations an operation writes or removes (`unpack` is handled separately) -/
def touched : Op → List Path
  | .copy _ t => [t]
  | .link _ t => [t]
  | .move s t => [s, t]
  | .put t _  => [t]
  | .unpack _ => []

def Op.simple : Op → Bool
  | .unpack _ => false
  | _         => true

theorem step_frame (fs fs' : FS) (op : Op) (p : Path) (hs : op.simple = true) (h : stepOp fs op = some fs')
    (hp : p ∉ touched op) : fs'.read p = fs.read p := by
  cases op with
  | copy s t =>
    simp only [stepOp] at h
    split at h
    · injection h with h; subst h
      exact read_write_other _ _ _ _ (by simpa [touched] using hp)
    · cases h
  | link s t =>
    simp only [stepOp] at h
    split at h
    · split at h
      · cases h
      · injection h with h; subst h
        exact read_write_other _ _ _ _ (by simpa [touched] using hp)
    · cases h
  | move s t =>
    simp only [stepOp] at h
    split at h
    · injection h with h; subst h
      have hp' : p ≠ s ∧ p ≠ t := by simpa [touched] using hp
      rw [read_remove_other _ _ _ hp'.1, read_write_other _ _ _ _ hp'.2]
    · cases h
  | put t c =>
    simp only [stepOp] at h
    injection h with h; subst h
    exact read_write_other _ _ _ _ (by simpa [touched] using hp)
  | unpack t => simp [Op.simple] at hs

theorem exec_frame (ops : List Op) : ∀ (fs fs' : FS) (b : Bool) (p : Path), (∀ op ∈ ops, op.simple = true) →
    exec fs ops = (fs', b) → (∀ op ∈ ops, p ∉ touched op) → fs'.read p = fs.read p := by
  induction ops with
  | nil => intro fs fs' b p _ h _; simp [exec] at h; rw [h.1]
  | cons op ops ih =>
    intro fs fs' b p hs h hp
    simp only [exec] at h
    cases hst : stepOp fs op with
    | none => rw [hst] at h; simp at h; rw [h.1]
    | some fs1 =>
      rw [hst] at h
      have h1 := ih fs1 fs' b p (fun o ho => hs o (mem_cons_of_mem _ ho)) h (fun o ho => hp o (mem_cons_of_mem _ ho))
      rw [h1, step_frame fs fs1 op p (hs op mem_cons_self) hst (hp op mem_cons_self)]

theorem exec_append (ops1 ops2 : List Op) : ∀ (fs : FS),
    exec fs (ops1 ++ ops2) = (match exec fs ops1 with
                              | (fs1, true)  => exec fs1 ops2
                              | (fs1, false) => (fs1, false)) := by
  induction ops1 with
  | nil => intro fs; simp [exec]
  | cons op ops ih =>
    intro fs
    simp only [cons_append, exec]
    cases stepOp fs op with
    | none => rfl
    | some fs1 => exact ih fs1

/-- what a single copy / link / move does -/
theorem step_effect (fs fs' : FS) (op : Op) (s t : Path) (hop : op = .copy s t ∨ op = .link s t ∨ op = .move s t)
    (hst : s ≠ t) (h : stepOp fs op = some fs') :
    fs'.read t = fs.read s ∧ (fs.read s).isSome = true ∧ (op = .move s t → fs'.read s = none) := by
  rcases hop with rfl | rfl | rfl
  · simp only [stepOp] at h
    cases hr : fs.read s with
    | none => rw [hr] at h; cases h
    | some c =>
      rw [hr] at h; injection h with h; subst h
      exact ⟨read_write_same _ _ _, rfl, fun h => by cases h⟩
  · simp only [stepOp] at h
    cases hr : fs.read s with
    | none => rw [hr] at h; cases h
    | some c =>
      rw [hr] at h
      by_cases ht : (fs.read t).isSome = true
      · simp [ht] at h
      · simp only [ht, Bool.false_eq_true, if_false] at h
        injection h with h; subst h
        exact ⟨read_write_same _ _ _, rfl, fun h => by cases h⟩
  · simp only [stepOp] at h
    cases hr : fs.read s with
    | none => rw [hr] at h; cases h
    | some c =>
      rw [hr] at h; injection h with h; subst h
      refine ⟨?_, rfl, fun _ => read_remove_same _ _⟩
      rw [read_remove_other _ _ _ (fun e => hst e.symm), read_write_same]

/-- **the effect of a staging operation survives the rest of the run**: if the operations before
    it do not touch its source and the operations after it do not touch its target, then at the
    end the target holds what the source held at the start -/
theorem exec_effect (pre post : List Op) (op : Op) (s t : Path) (fs fs' : FS)
    (hop : op = .copy s t ∨ op = .link s t ∨ op = .move s t) (hst : s ≠ t)
    (hsimple : ∀ o ∈ pre ++ post, o.simple = true)
    (hpre : ∀ o ∈ pre, s ∉ touched o) (hpost : ∀ o ∈ post, t ∉ touched o)
    (h : exec fs (pre ++ op :: post) = (fs', true)) :
    fs'.read t = fs.read s ∧ (fs.read s).isSome = true := by
  rw [exec_append] at h
  rcases h1 : exec fs pre with ⟨fs1, b1⟩
  rw [h1] at h
  cases b1 with
  | false => simp at h
  | true =>
    simp only [exec] at h
    cases h2 : stepOp fs1 op with
    | none => rw [h2] at h; simp at h
    | some fs2 =>
      rw [h2] at h
      have f1 := exec_frame pre fs fs1 true s (fun o ho => hsimple o (mem_append_left _ ho)) h1 hpre
      have e := step_effect fs1 fs2 op s t hop hst h2
      have f2 := exec_frame post fs2 fs' true t (fun o ho => hsimple o (mem_append_right _ ho)) h hpost
      rw [f2, e.1, f1]
      exact ⟨rfl, by rw [← f1]; exact e.2.1⟩

/-- extracting a tarball whose members have distinct paths puts every member in place -/
theorem writeAll_frame (es : List (Path × Nat)) : ∀ (fs : FS) (p : Path), p ∉ es.map (·.1) →
    (writeAll fs es).read p = fs.read p := by
  induction es with
  | nil => intro fs p _; rfl
  | cons e es ih =>
    intro fs p hp
    have h1 : p ≠ e.1 := fun h => hp (by simp [h])
    have h2 : p ∉ es.map (·.1) := fun h => hp (by simp [h])
    cases e with
    | mk q c =>
      simp only [writeAll]
      rw [ih _ p h2, read_write_other _ _ _ _ h1]

theorem writeAll_effect (es : List (Path × Nat)) : ∀ (fs : FS), (es.map (·.1)).Nodup →
    ∀ e ∈ es, (writeAll fs es).read e.1 = some (.data e.2) := by
  induction es with
  | nil => intro fs _ e he; cases he
  | cons x xs ih =>
    intro fs hnd e he
    have hnd' : (xs.map (·.1)).Nodup := (nodup_cons.mp (by simpa using hnd)).2
    have hx : x.1 ∉ xs.map (·.1) := (nodup_cons.mp (by simpa using hnd)).1
    cases x with
    | mk q c =>
      simp only [writeAll]
      rcases mem_cons.mp he with rfl | he'
      · rw [writeAll_frame xs _ _ hx, read_write_same]
      · exact ih _ hnd' e he'

end RPVerif.Staging

namespace RPVerif.Staging
open List

theorem pre_self_append (sep t : Str) : pre sep (sep ++ t) = true := by
  induction sep with
  | nil => rfl
  | cons a as ih => simp [pre, ih]

theorem pre_head (a : Char) (rest u : Str) (h : pre (a :: rest) u = true) : u.head? = some a := by
  cases u with
  | nil => simp [pre] at h
  | cons c cs => simp only [pre, Bool.and_eq_true, decide_eq_true_eq] at h; simp [h.1]

/-- a separator whose first character does not occur is not found -/
theorem findSplit_absent (a : Char) (rest u : Str) (h : a ∉ u) : findSplit (a :: rest) u = none := by
  induction u with
  | nil => rfl
  | cons c cs ih =>
    have hc : a ≠ c := fun e => h (by simp [e])
    have hcs : a ∉ cs := fun e => h (mem_cons_of_mem _ e)
    simp [findSplit, pre, hc, ih hcs]

/-- the first occurrence is found -/
theorem findSplit_here (a : Char) (rest s t : Str) (h : a ∉ s) :
    findSplit (a :: rest) (s ++ (a :: rest) ++ t) = some (s, t) := by
  induction s with
  | nil =>
    have hp := pre_self_append (a :: rest) t
    simp only [nil_append]
    simp only [cons_append] at hp ⊢
    simp [findSplit, hp]
  | cons c cs ih =>
    have hc : a ≠ c := fun e => h (by simp [e])
    have hcs : a ∉ cs := fun e => h (mem_cons_of_mem _ e)
    have := ih hcs
    simp only [cons_append, append_assoc] at this ⊢
    simp [findSplit, pre, hc, this]

/-- a single `c` is not a double one -/
theorem findSplit_double_absent (c : Char) (s t : Str) (hs : c ∉ s) (ht : c ∉ t) :
    findSplit [c, c] (s ++ c :: t) = none := by
  induction s with
  | nil =>
    simp only [nil_append, findSplit]
    have h1 : pre [c, c] (c :: t) = false := by
      cases t with
      | nil => simp [pre]
      | cons d ds =>
        have : c ≠ d := fun e => ht (by simp [e])
        simp [pre, this]
    simp [h1, findSplit_absent c [c] t ht]
  | cons d ds ih =>
    have hd : c ≠ d := fun e => hs (by simp [e])
    have hds : c ∉ ds := fun e => hs (mem_cons_of_mem _ e)
    simp [findSplit, pre, hd, ih hds]

end RPVerif.Staging

namespace RPVerif.Staging
open List

/-- the fold that collects the resolved operations of a stage, as a relation between directives and operations -/
theorem foldl_resolve (f : SD → Except Err Op) (acts : List SD) : ∀ (init res : List Op),
    acts.foldl (fun (acc : Except Err (List Op)) sd =>
        match acc with
        | .error e => .error e
        | .ok ops  => match f sd with
                      | .ok op   => .ok (ops ++ [op])
                      | .error e => .error e) (.ok init) = .ok res →
    ∃ l, res = init ++ l ∧ l.length = acts.length ∧ ∀ p ∈ acts.zip l, f p.1 = .ok p.2 := by
  induction acts with
  | nil => intro init res h; simp at h; exact ⟨[], by simp [h], rfl, by simp⟩
  | cons sd acts ih =>
    intro init res h
    rw [foldl_cons] at h
    cases hf : f sd with
    | error e =>
      rw [hf] at h
      simp only at h
      -- once an error, always an error
      have : ∀ (l : List SD) (e : Err), l.foldl (fun (acc : Except Err (List Op)) sd =>
          match acc with
          | .error e => .error e
          | .ok ops  => match f sd with
                        | .ok op   => .ok (ops ++ [op])
                        | .error e => .error e) (.error e) = .error e := by
        intro l e; induction l with
        | nil => rfl
        | cons x xs ihx => rw [foldl_cons]; exact ihx
      rw [this] at h; cases h
    | ok op =>
      rw [hf] at h
      simp only at h
      obtain ⟨l, hl, hlen, hall⟩ := ih (init ++ [op]) res h
      refine ⟨op :: l, by rw [hl]; simp, by simp [hlen], ?_⟩
      intro p hp
      rw [zip_cons_cons] at hp
      rcases mem_cons.mp hp with rfl | hp
      · exact hf
      · exact hall p hp

end RPVerif.Staging
