import RPVerif.Model.WatchQueue
namespace RPVerif.WatchQueue

/-- how often task `t` is anywhere in the watcher's hands -/
def cnt (w : WQ) (t : Nat) : Nat := w.queue.count t + w.watching.count t + w.done.count t

theorem count_filter_split (l : List Nat) (p : Nat → Bool) (t : Nat) :
    (l.filter (fun x => !p x)).count t + (l.filter p).count t = l.count t := by
  induction l with
  | nil => rfl
  | cons x xs ih =>
    by_cases hp : p x = true
    · simp only [List.filter_cons, hp, Bool.not_true, Bool.false_eq_true, if_false, if_true, List.count_cons]
      omega
    · have hp' : p x = false := by cases h : p x <;> simp_all
      simp only [List.filter_cons, hp', Bool.not_false, if_true, Bool.false_eq_true, if_false, List.count_cons]
      omega

theorem pass_cnt (limit : Nat) (w : WQ) (exited : Nat → Bool) (t : Nat) : cnt (pass limit w exited) t = cnt w t := by
  simp only [cnt, pass, List.count_append]
  have h1 := count_filter_split (w.watching ++ w.queue.take limit) exited t
  have h2 : (w.queue.take limit).count t + (w.queue.drop limit).count t = w.queue.count t := by
    rw [← List.count_append, List.take_append_drop]
  rw [List.count_append] at h1
  omega

theorem enqueue_cnt (w : WQ) (ts : List Nat) (t : Nat) : cnt (enqueue w ts) t = cnt w t + ts.count t := by
  simp only [cnt, enqueue, List.count_append]; omega

def enqueued : List Op → List Nat
  | []              => []
  | .enq ts :: rest => ts ++ enqueued rest
  | .pass _ :: rest => enqueued rest

/-- over every history of bursts and passes, with any bulk limit and whatever the processes do, each
    launched task is in exactly as many places (queue, watch list, collected) as it was enqueued -/
theorem run_cnt (limit : Nat) (w : WQ) (ops : List Op) (t : Nat) :
    cnt (run limit w ops) t = cnt w t + (enqueued ops).count t := by
  induction ops generalizing w with
  | nil => simp [run, enqueued]
  | cons op rest ih =>
    have : run limit w (op :: rest) = run limit (step limit w op) rest := rfl
    rw [this, ih]
    cases op with
    | enq ts => simp only [step, enqueue_cnt, enqueued, List.count_append]; omega
    | pass ex => simp only [step, pass_cnt, enqueued]

/-- the queue is drained: after `k` passes without new arrivals at most `|queue| - k * limit` tasks
    have not been seen by the watcher -/
theorem drain (limit : Nat) (w : WQ) (exs : List (List Nat)) :
    (run limit w (exs.map Op.pass)).queue.length = w.queue.length - exs.length * limit := by
  induction exs generalizing w with
  | nil => simp [run]
  | cons e es ih =>
    have : run limit w ((e :: es).map Op.pass) = run limit (step limit w (.pass e)) (es.map Op.pass) := rfl
    rw [this, ih]
    simp only [step, pass, List.length_drop, List.length_cons]
    rw [Nat.add_mul, Nat.one_mul]
    omega

end RPVerif.WatchQueue
