import RPVerif.Lemmas.SchedHist
/-!
The global invariant of the agent scheduler (C01, C03, C04 over whole histories):
the node map is the initial map with exactly the cores / GPUs of the placements still held marked
BUSY and their storage / memory subtracted; the held placements are pairwise disjoint.
`held` is the history variable of the model (`SchedSt.held`).
-/
namespace RPVerif.Sched
open List

/-! ### `_change_slot_states` as a map over the node list -/

def applyAll (n : NodeSt) (sls : List Slot) (b : Bool) : NodeSt := sls.foldl (fun n sl => applySlot n sl b) n

theorem applySlot_index (n : NodeSt) (sl : Slot) (b : Bool) : (applySlot n sl b).index = n.index := rfl

theorem applyAll_index (n : NodeSt) (sls : List Slot) (b : Bool) : (applyAll n sls b).index = n.index := by
  induction sls generalizing n with
  | nil => rfl
  | cons sl sls ih => simp only [applyAll, foldl_cons] at ih ⊢; rw [ih]; rfl

theorem changeSlotStates_spec (slots : List Slot) (b : Bool) :
    ∀ (ns ns' : List NodeSt), changeSlotStates ns slots b = some ns' →
      ns' = ns.map (fun n => applyAll n (slots.filter (fun sl => sl.node = n.index)) b) := by
  induction slots with
  | nil =>
    intro ns ns' h
    simp only [changeSlotStates, Option.some.injEq] at h
    subst h
    simp [applyAll]
  | cons sl sls ih =>
    intro ns ns' h
    unfold changeSlotStates at h
    by_cases ha : ns.any (fun n => n.index = sl.node) = true
    · rw [if_pos ha] at h
      rw [ih _ _ h, map_map]
      apply map_congr_left
      intro n _
      simp only [Function.comp]
      by_cases hi : n.index = sl.node
      · have e : (sl :: sls).filter (fun s => s.node = n.index) = sl :: sls.filter (fun s => s.node = n.index) := by
          simp [filter_cons, hi]
        simp only [if_pos hi, applySlot_index, e]
        rfl
      · have e : (sl :: sls).filter (fun s => s.node = n.index) = sls.filter (fun s => s.node = n.index) := by
          have : ¬ sl.node = n.index := fun x => hi x.symm
          simp [filter_cons, this]
        simp only [if_neg hi, e]
    · rw [if_neg ha] at h; cases h

theorem changeSlotStates_some (slots : List Slot) (b : Bool) :
    ∀ (ns : List NodeSt), (∀ sl ∈ slots, ∃ n ∈ ns, n.index = sl.node) → ∃ ns', changeSlotStates ns slots b = some ns' := by
  induction slots with
  | nil => intro ns _; exact ⟨ns, rfl⟩
  | cons sl sls ih =>
    intro ns h
    unfold changeSlotStates
    have ha : ns.any (fun n => n.index = sl.node) = true := by
      obtain ⟨n, hn, hi⟩ := h sl mem_cons_self
      exact any_eq_true.mpr ⟨n, hn, by simpa using hi⟩
    rw [if_pos ha]
    apply ih
    intro s hs
    obtain ⟨n, hn, hi⟩ := h s (mem_cons_of_mem _ hs)
    refine ⟨if n.index = sl.node then applySlot n sl b else n, mem_map.mpr ⟨n, hn, rfl⟩, ?_⟩
    split <;> simpa [applySlot_index] using hi

/-! ### what marking a list of slots does to one node -/

theorem foldSet_append (l : List Occ) (a b : List Nat) (v : Occ) : foldSet (foldSet l a v) b v = foldSet l (a ++ b) v := by
  simp [foldSet, foldl_append]

def occOf (b : Bool) : Occ := if b then .busy else .free

theorem applySlot_cores (n : NodeSt) (sl : Slot) (b : Bool) : (applySlot n sl b).cores = foldSet n.cores sl.cores (occOf b) := rfl

theorem applySlot_gpus (n : NodeSt) (sl : Slot) (b : Bool) :
    (applySlot n sl b).gpus = foldSet n.gpus (sl.gpus.map (·.1)) (occOf b) := by
  simp only [applySlot, foldSet, foldl_map, occOf]

theorem applyAll_cores (n : NodeSt) (sls : List Slot) (b : Bool) :
    (applyAll n sls b).cores = foldSet n.cores (sls.flatMap (·.cores)) (occOf b) := by
  induction sls generalizing n with
  | nil => simp [applyAll, foldSet]
  | cons sl sls ih =>
    have : applyAll n (sl :: sls) b = applyAll (applySlot n sl b) sls b := rfl
    rw [this, ih, applySlot_cores, foldSet_append]; simp

theorem applyAll_gpus (n : NodeSt) (sls : List Slot) (b : Bool) :
    (applyAll n sls b).gpus = foldSet n.gpus (sls.flatMap (fun sl => sl.gpus.map (·.1))) (occOf b) := by
  induction sls generalizing n with
  | nil => simp [applyAll, foldSet]
  | cons sl sls ih =>
    have : applyAll n (sl :: sls) b = applyAll (applySlot n sl b) sls b := rfl
    rw [this, ih, applySlot_gpus, foldSet_append]; simp

theorem applyAll_lfs (n : NodeSt) (sls : List Slot) (b : Bool) :
    (applyAll n sls b).lfs = if b then n.lfs - ((sls.map (·.lfs)).sum : Nat) else n.lfs + ((sls.map (·.lfs)).sum : Nat) := by
  induction sls generalizing n with
  | nil => cases b <;> simp [applyAll]
  | cons sl sls ih =>
    have : applyAll n (sl :: sls) b = applyAll (applySlot n sl b) sls b := rfl
    rw [this, ih]
    cases b <;> simp [applySlot] <;> omega

theorem applyAll_mem (n : NodeSt) (sls : List Slot) (b : Bool) :
    (applyAll n sls b).mem = if b then n.mem - ((sls.map (·.mem)).sum : Nat) else n.mem + ((sls.map (·.mem)).sum : Nat) := by
  induction sls generalizing n with
  | nil => cases b <;> simp [applyAll]
  | cons sl sls ih =>
    have : applyAll n (sl :: sls) b = applyAll (applySlot n sl b) sls b := rfl
    rw [this, ih]
    cases b <;> simp [applySlot] <;> omega

/-- freeing a segment of what was marked busy, when the segment is disjoint from the rest -/
theorem foldSet_release (l0 : List Occ) (X E Y : List Nat) (hd : ∀ j ∈ E, j ∉ X ∧ j ∉ Y)
    (hf : ∀ j ∈ E, l0[j]? = some Occ.free) :
    foldSet (foldSet l0 (X ++ E ++ Y) .busy) E .free = foldSet l0 (X ++ Y) .busy := by
  apply ext_getElem?
  intro j
  rw [foldSet_get, foldSet_get, foldSet_get]
  by_cases hj : j ∈ E
  · have ⟨hx, hy⟩ := hd j hj
    simp [hj, hx, hy, hf j hj]
  · simp [hj]

/-! ### the invariant -/

/-- one node against its initial state `n0` and the slots `H` still held -/
structure NodeInv (n0 n : NodeSt) (H : List Slot) : Prop where
  idx    : n.index = n0.index
  cnodup : (coresOn H n0.index).Nodup
  cfree0 : ∀ c ∈ coresOn H n0.index, n0.cores[c]? = some Occ.free
  cores  : n.cores = foldSet n0.cores (coresOn H n0.index) .busy
  gfree0 : ∀ g ∈ gpusOn H n0.index, n0.gpus[g]? = some Occ.free
  gpus   : n.gpus = foldSet n0.gpus (gpusOn H n0.index) .busy
  lfs    : n.lfs = n0.lfs - (lfsOn H n0.index : Nat)
  mem    : n.mem = n0.mem - (memOn H n0.index : Nat)
  lfs0   : 0 ≤ n.lfs
  mem0   : 0 ≤ n.mem

def heldSlots (held : List (Nat × List Slot)) : List Slot := held.flatMap (·.2)

/-- GPUs are not shared between placements -/
def GDisj (held : List (Nat × List Slot)) : Prop :=
  held.Pairwise (fun a b => ∀ idx, ∀ g ∈ gpusOn a.2 idx, g ∉ gpusOn b.2 idx)

structure HInv (nodes0 nodes : List NodeSt) (held : List (Nat × List Slot)) : Prop where
  wf     : NodesWF nodes0
  len    : nodes.length = nodes0.length
  node   : ∀ (i : Nat) (n0 n : NodeSt), nodes0[i]? = some n0 → nodes[i]? = some n → NodeInv n0 n (heldSlots held)
  onNode : ∀ sl ∈ heldSlots held, ∃ n0 ∈ nodes0, n0.index = sl.node
  gdisj  : GDisj held

theorem hinv_index (nodes0 nodes : List NodeSt) (held : List (Nat × List Slot)) (h : HInv nodes0 nodes held) :
    nodes.map (·.index) = nodes0.map (·.index) := by
  apply ext_getElem?
  intro i
  rw [getElem?_map, getElem?_map]
  cases hn : nodes[i]? with
  | none =>
    have : nodes0[i]? = none := by
      rw [List.getElem?_eq_none_iff] at hn ⊢; rw [← h.len]; exact hn
    rw [this]
  | some n =>
    have hi : i < nodes0.length := by rw [← h.len]; exact (List.getElem?_eq_some_iff.mp hn).1
    have hn0 : nodes0[i]? = some nodes0[i] := getElem?_eq_getElem hi
    rw [hn0]
    simp [(h.node i _ n hn0 hn).idx]

theorem hinv_wf (nodes0 nodes : List NodeSt) (held : List (Nat × List Slot)) (h : HInv nodes0 nodes held) : NodesWF nodes := by
  unfold NodesWF; rw [hinv_index nodes0 nodes held h]; exact h.wf

theorem hinv_pos (nodes0 nodes : List NodeSt) (held : List (Nat × List Slot)) (h : HInv nodes0 nodes held) (n : NodeSt) (hn : n ∈ nodes) :
    ∃ (i : Nat) (n0 : NodeSt), nodes0[i]? = some n0 ∧ nodes[i]? = some n := by
  obtain ⟨i, hi⟩ := getElem?_of_mem hn
  have hlt : i < nodes0.length := by rw [← h.len]; exact (List.getElem?_eq_some_iff.mp hi).1
  exact ⟨i, nodes0[i], getElem?_eq_getElem hlt, hi⟩

theorem hinv_nonneg (nodes0 nodes : List NodeSt) (held : List (Nat × List Slot)) (h : HInv nodes0 nodes held) : NonNeg nodes := by
  intro n hn
  obtain ⟨i, n0, h0, hi⟩ := hinv_pos nodes0 nodes held h n hn
  exact ⟨(h.node i n0 n h0 hi).lfs0, (h.node i n0 n h0 hi).mem0⟩

theorem hinv_init (nodes0 : List NodeSt) (hw : NodesWF nodes0) (hnn : NonNeg nodes0) : HInv nodes0 nodes0 [] := by
  refine ⟨hw, rfl, ?_, (fun sl hs => by cases hs), Pairwise.nil⟩
  intro i n0 n h0 hn
  rw [h0] at hn; cases hn
  have hm := mem_of_getElem? h0
  have hc : coresOn (heldSlots []) n0.index = [] := rfl
  have hg : gpusOn (heldSlots []) n0.index = [] := rfl
  have hl : lfsOn (heldSlots []) n0.index = 0 := rfl
  have hme : memOn (heldSlots []) n0.index = 0 := rfl
  refine ⟨rfl, ?_, ?_, ?_, ?_, ?_, ?_, ?_, (hnn n0 hm).1, (hnn n0 hm).2⟩
  · rw [hc]; exact nodup_nil
  · intro c h; rw [hc] at h; cases h
  · rw [hc]; rfl
  · intro g h; rw [hg] at h; cases h
  · rw [hg]; rfl
  · rw [hl]; simp
  · rw [hme]; simp

theorem heldSlots_append (a b : List (Nat × List Slot)) : heldSlots (a ++ b) = heldSlots a ++ heldSlots b := by
  simp [heldSlots]

theorem heldSlots_single (u : Nat) (sl : List Slot) : heldSlots [(u, sl)] = sl := by simp [heldSlots]

/-- a core / GPU named by a held slot is BUSY in the current map -/
theorem nodeinv_core_busy (n0 n : NodeSt) (H : List Slot) (h : NodeInv n0 n H) (c : Nat) (hc : c ∈ coresOn H n0.index) :
    n.cores[c]? = some Occ.busy := by
  rw [h.cores, foldSet_get, if_pos hc, h.cfree0 c hc]; rfl

theorem nodeinv_gpu_busy (n0 n : NodeSt) (H : List Slot) (h : NodeInv n0 n H) (g : Nat) (hg : g ∈ gpusOn H n0.index) :
    n.gpus[g]? = some Occ.busy := by
  rw [h.gpus, foldSet_get, if_pos hg, h.gfree0 g hg]; rfl

/-- what is not named by a held slot is as in the initial map -/
theorem nodeinv_core_other (n0 n : NodeSt) (H : List Slot) (h : NodeInv n0 n H) (c : Nat) (hc : c ∉ coresOn H n0.index) :
    n.cores[c]? = n0.cores[c]? := by
  rw [h.cores, foldSet_get, if_neg hc]

theorem nodeinv_gpu_other (n0 n : NodeSt) (H : List Slot) (h : NodeInv n0 n H) (g : Nat) (hg : g ∉ gpusOn H n0.index) :
    n.gpus[g]? = n0.gpus[g]? := by
  rw [h.gpus, foldSet_get, if_neg hg]

/-! ### placing -/

theorem hinv_alloc (nodes0 nodes ns : List NodeSt) (held : List (Nat × List Slot)) (uid : Nat) (alc : List Slot)
    (h : HInv nodes0 nodes held) (hp : Placeable nodes alc) (hc : changeSlotStates nodes alc true = some ns) :
    HInv nodes0 ns (held ++ [(uid, alc)]) := by
  have hspec := changeSlotStates_spec alc true nodes ns hc
  have hH : heldSlots (held ++ [(uid, alc)]) = heldSlots held ++ alc := by rw [heldSlots_append, heldSlots_single]
  refine ⟨h.wf, by rw [hspec, length_map]; exact h.len, ?_, ?_, ?_⟩
  · intro i n0 n' h0 hn'
    rw [hspec, getElem?_map] at hn'
    cases hn : nodes[i]? with
    | none => rw [hn] at hn'; cases hn'
    | some n =>
      rw [hn] at hn'
      simp only [Option.map_some, Option.some.injEq] at hn'
      have hm : n ∈ nodes := mem_of_getElem? hn
      have ni := h.node i n0 n h0 hn
      have hidx : n.index = n0.index := ni.idx
      subst hn'
      rw [hH]
      -- the new slots on this node
      have cnew : ∀ c ∈ coresOn alc n0.index, n.cores[c]? = some Occ.free := by
        rw [← hidx]; exact hp.free n hm
      have gnew : ∀ g ∈ gpusOn alc n0.index, n.gpus[g]? = some Occ.free := by
        rw [← hidx]; exact hp.gfree n hm
      have cnotold : ∀ c ∈ coresOn alc n0.index, c ∉ coresOn (heldSlots held) n0.index := by
        intro c hc hold
        have := nodeinv_core_busy n0 n _ ni c hold
        rw [cnew c hc] at this; cases this
      have gnotold : ∀ g ∈ gpusOn alc n0.index, g ∉ gpusOn (heldSlots held) n0.index := by
        intro g hg hold
        have := nodeinv_gpu_busy n0 n _ ni g hold
        rw [gnew g hg] at this; cases this
      refine ⟨by rw [applyAll_index]; exact hidx, ?_, ?_, ?_, ?_, ?_, ?_, ?_, ?_, ?_⟩
      · rw [coresOn_append]
        refine nodup_append.mpr ⟨ni.cnodup, by rw [← hidx]; exact hp.nodup n hm, ?_⟩
        intro a ha b hb hab
        subst hab
        exact cnotold a hb ha
      · intro c hc
        rw [coresOn_append] at hc
        rcases mem_append.mp hc with hc | hc
        · exact ni.cfree0 c hc
        · rw [← nodeinv_core_other n0 n _ ni c (cnotold c hc)]; exact cnew c hc
      · rw [applyAll_cores, ni.cores, coresOn_append, ← foldSet_append, hidx]; rfl
      · intro g hg
        rw [gpusOn_append] at hg
        rcases mem_append.mp hg with hg | hg
        · exact ni.gfree0 g hg
        · rw [← nodeinv_gpu_other n0 n _ ni g (gnotold g hg)]; exact gnew g hg
      · rw [applyAll_gpus, ni.gpus, gpusOn_append, ← foldSet_append, hidx]; rfl
      · rw [applyAll_lfs, if_pos rfl, ni.lfs, lfsOn_append, hidx]
        simp only [lfsOn]; omega
      · rw [applyAll_mem, if_pos rfl, ni.mem, memOn_append, hidx]
        simp only [memOn]; omega
      · rw [applyAll_lfs, if_pos rfl]
        have := hp.lfsFit n hm
        simp only [lfsOn] at this; omega
      · rw [applyAll_mem, if_pos rfl]
        have := hp.memFit n hm
        simp only [memOn] at this; omega
  · intro sl hs
    rw [hH] at hs
    rcases mem_append.mp hs with hs | hs
    · exact h.onNode sl hs
    · obtain ⟨n, hn, hi⟩ := hp.onNode sl hs
      obtain ⟨i, n0, h0, hni⟩ := hinv_pos nodes0 nodes held h n hn
      exact ⟨n0, mem_of_getElem? h0, by rw [← (h.node i n0 n h0 hni).idx]; exact hi⟩
  · unfold GDisj
    rw [pairwise_append]
    refine ⟨h.gdisj, pairwise_singleton _ _, ?_⟩
    intro a ha b hb idx g hg hgb
    simp only [mem_singleton] at hb
    subst hb
    simp only at hgb
    -- `g` on node `idx` is named by the held placement `a` and by the new one
    have hne : (alc.filter (fun sl => sl.node = idx)) ≠ [] := by
      intro e; simp [gpusOn, e] at hgb
    obtain ⟨sl, hsl⟩ := exists_mem_of_ne_nil _ hne
    have hsl' := mem_filter.mp hsl
    obtain ⟨n, hn, hi⟩ := hp.onNode sl hsl'.1
    have hidx : n.index = idx := by rw [hi]; simpa using hsl'.2
    obtain ⟨i, n0, h0, hni⟩ := hinv_pos nodes0 nodes held h n hn
    have ni := h.node i n0 n h0 hni
    have hfree : n.gpus[g]? = some Occ.free := hp.gfree n hn g (by rw [hidx]; exact hgb)
    have hold : g ∈ gpusOn (heldSlots held) n0.index := by
      rw [← ni.idx, hidx]
      unfold gpusOn heldSlots at *
      obtain ⟨s1, hs1, hg1⟩ := mem_flatMap.mp hg
      have hs1' := mem_filter.mp hs1
      exact mem_flatMap.mpr ⟨s1, mem_filter.mpr ⟨mem_flatMap.mpr ⟨a, ha, hs1'.1⟩, hs1'.2⟩, hg1⟩
    have := nodeinv_gpu_busy n0 n _ ni g hold
    rw [hfree] at this; cases this

/-! ### releasing -/

theorem heldSlots_split (A B : List (Nat × List Slot)) (e : Nat × List Slot) :
    heldSlots (A ++ e :: B) = heldSlots A ++ e.2 ++ heldSlots B := by
  simp [heldSlots]

theorem mem_gpusOn_heldSlots (L : List (Nat × List Slot)) (idx g : Nat) (h : g ∈ gpusOn (heldSlots L) idx) :
    ∃ a ∈ L, g ∈ gpusOn a.2 idx := by
  induction L with
  | nil => cases h
  | cons a as ih =>
    have e : heldSlots (a :: as) = a.2 ++ heldSlots as := by simp [heldSlots]
    rw [e, gpusOn_append] at h
    rcases mem_append.mp h with h | h
    · exact ⟨a, mem_cons_self, h⟩
    · obtain ⟨b, hb, hg⟩ := ih h
      exact ⟨b, mem_cons_of_mem _ hb, hg⟩

theorem hinv_release (nodes0 nodes ns : List NodeSt) (held : List (Nat × List Slot)) (e : Nat × List Slot)
    (h : HInv nodes0 nodes held) (he : e ∈ held) (hc : changeSlotStates nodes e.2 false = some ns) :
    HInv nodes0 ns (held.erase e) := by
  obtain ⟨A, B, _, hsplit, herase⟩ := exists_erase_eq he
  have hspec := changeSlotStates_spec e.2 false nodes ns hc
  rw [herase]
  have hH  : heldSlots held = heldSlots A ++ e.2 ++ heldSlots B := by rw [hsplit, heldSlots_split]
  have hH' : heldSlots (A ++ B) = heldSlots A ++ heldSlots B := heldSlots_append A B
  have hgd : GDisj (A ++ e :: B) := hsplit ▸ h.gdisj
  have hgdA : ∀ a ∈ A, ∀ idx, ∀ g ∈ gpusOn a.2 idx, g ∉ gpusOn e.2 idx := by
    intro a ha
    exact (pairwise_append.mp hgd).2.2 a ha e mem_cons_self
  have hgdB : ∀ b ∈ B, ∀ idx, ∀ g ∈ gpusOn e.2 idx, g ∉ gpusOn b.2 idx := by
    intro b hb
    exact (pairwise_cons.mp (pairwise_append.mp hgd).2.1).1 b hb
  refine ⟨h.wf, by rw [hspec, length_map]; exact h.len, ?_, ?_, ?_⟩
  · intro i n0 n' h0 hn'
    rw [hspec, getElem?_map] at hn'
    cases hn : nodes[i]? with
    | none => rw [hn] at hn'; cases hn'
    | some n =>
      rw [hn] at hn'
      simp only [Option.map_some, Option.some.injEq] at hn'
      have ni := h.node i n0 n h0 hn
      have hidx : n.index = n0.index := ni.idx
      subst hn'
      rw [hH']
      have hcn := ni.cnodup
      rw [hH, coresOn_append, coresOn_append] at hcn
      have hcd : ∀ j ∈ coresOn e.2 n0.index, j ∉ coresOn (heldSlots A) n0.index ∧ j ∉ coresOn (heldSlots B) n0.index := by
        intro j hj
        have h1 := nodup_append.mp hcn
        have h2 := nodup_append.mp h1.1
        exact ⟨fun hx => h2.2.2 j hx j hj rfl, fun hx => h1.2.2 j (mem_append_right _ hj) j hx rfl⟩
      have hgdj : ∀ j ∈ gpusOn e.2 n0.index, j ∉ gpusOn (heldSlots A) n0.index ∧ j ∉ gpusOn (heldSlots B) n0.index := by
        intro j hj
        refine ⟨fun hx => ?_, fun hx => ?_⟩
        · obtain ⟨a, ha, hg⟩ := mem_gpusOn_heldSlots A _ _ hx
          exact hgdA a ha _ j hg hj
        · obtain ⟨b, hb, hg⟩ := mem_gpusOn_heldSlots B _ _ hx
          exact hgdB b hb _ j hj hg
      refine ⟨by rw [applyAll_index]; exact hidx, ?_, ?_, ?_, ?_, ?_, ?_, ?_, ?_, ?_⟩
      · rw [coresOn_append]
        have h1 := nodup_append.mp hcn
        have h2 := nodup_append.mp h1.1
        refine nodup_append.mpr ⟨h2.1, h1.2.1, ?_⟩
        intro a ha b hb hab
        exact h1.2.2 a (mem_append_left _ ha) b hb hab
      · intro c hc'
        rw [coresOn_append] at hc'
        apply ni.cfree0
        rw [hH, coresOn_append, coresOn_append]
        rcases mem_append.mp hc' with x | x
        · exact mem_append_left _ (mem_append_left _ x)
        · exact mem_append_right _ x
      · rw [applyAll_cores, ni.cores, hH, coresOn_append, coresOn_append, coresOn_append, hidx]
        exact foldSet_release n0.cores _ _ _ hcd
          (fun j hj => ni.cfree0 j (by rw [hH, coresOn_append, coresOn_append]; exact mem_append_left _ (mem_append_right _ hj)))
      · intro g hg'
        rw [gpusOn_append] at hg'
        apply ni.gfree0
        rw [hH, gpusOn_append, gpusOn_append]
        rcases mem_append.mp hg' with x | x
        · exact mem_append_left _ (mem_append_left _ x)
        · exact mem_append_right _ x
      · rw [applyAll_gpus, ni.gpus, hH, gpusOn_append, gpusOn_append, gpusOn_append, hidx]
        exact foldSet_release n0.gpus _ _ _ hgdj
          (fun j hj => ni.gfree0 j (by rw [hH, gpusOn_append, gpusOn_append]; exact mem_append_left _ (mem_append_right _ hj)))
      · rw [applyAll_lfs, if_neg (by simp), ni.lfs, hH, lfsOn_append, lfsOn_append, lfsOn_append, hidx]
        simp only [lfsOn]; omega
      · rw [applyAll_mem, if_neg (by simp), ni.mem, hH, memOn_append, memOn_append, memOn_append, hidx]
        simp only [memOn]; omega
      · rw [applyAll_lfs, if_neg (by simp)]
        have := ni.lfs0; omega
      · rw [applyAll_mem, if_neg (by simp)]
        have := ni.mem0; omega
  · intro sl hs
    apply h.onNode
    rw [hH]; rw [hH'] at hs
    rcases mem_append.mp hs with x | x
    · exact mem_append_left _ (mem_append_left _ x)
    · exact mem_append_right _ x
  · have : (A ++ B).Sublist (A ++ e :: B) := Sublist.append_left (sublist_cons_self e B) A
    exact Pairwise.sublist this hgd

end RPVerif.Sched
