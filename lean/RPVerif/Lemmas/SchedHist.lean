import RPVerif.Lemmas.Sched
/-!
Lifting the per-node results to whole placements and whole histories of the scheduling loop
(C01, C03): a placement returned by `schedule_task` names, on every node, pairwise distinct
FREE cores of the current node map, because `_iterate_nodes` yields every node at most once.
-/
namespace RPVerif.Sched
open List

/-- node indices are unique (the resource manager numbers the nodes 0..n-1, C18) -/
def NodesWF (nodes : List NodeSt) : Prop := (nodes.map (·.index)).Nodup

/-- the cores a list of slots names on the node with index `idx` -/
def coresOn (slots : List Slot) (idx : Nat) : List Nat := (slots.filter (fun sl => sl.node = idx)).flatMap (·.cores)

theorem coresOn_append (a b : List Slot) (idx : Nat) : coresOn (a ++ b) idx = coresOn a idx ++ coresOn b idx := by
  simp [coresOn, filter_append, flatMap_append]

theorem coresOn_nil (idx : Nat) : coresOn [] idx = [] := rfl

/-- all slots lie on node `idx`: `coresOn` is all their cores there and nothing elsewhere -/
theorem coresOn_same (slots : List Slot) (idx : Nat) (h : ∀ sl ∈ slots, sl.node = idx) :
    coresOn slots idx = allCores slots := by
  unfold coresOn allCores
  rw [filter_eq_self.mpr (fun sl hs => by simpa using h sl hs)]

theorem coresOn_other (slots : List Slot) (idx j : Nat) (h : ∀ sl ∈ slots, sl.node = idx) (hj : j ≠ idx) :
    coresOn slots j = [] := by
  unfold coresOn
  rw [filter_eq_nil_iff.mpr (fun sl hs => by simp [h sl hs, hj.symm])]
  rfl

/-- the GPU indices a list of slots names on the node with index `idx` -/
def gpusOn (slots : List Slot) (idx : Nat) : List Nat :=
  (slots.filter (fun sl => sl.node = idx)).flatMap (fun sl => sl.gpus.map (·.1))

/-- node-local storage / memory a list of slots takes on the node with index `idx` -/
def lfsOn (slots : List Slot) (idx : Nat) : Nat := ((slots.filter (fun sl => sl.node = idx)).map (·.lfs)).sum
def memOn (slots : List Slot) (idx : Nat) : Nat := ((slots.filter (fun sl => sl.node = idx)).map (·.mem)).sum

theorem gpusOn_append (a b : List Slot) (idx : Nat) : gpusOn (a ++ b) idx = gpusOn a idx ++ gpusOn b idx := by
  simp [gpusOn, filter_append, flatMap_append]
theorem lfsOn_append (a b : List Slot) (idx : Nat) : lfsOn (a ++ b) idx = lfsOn a idx + lfsOn b idx := by
  simp [lfsOn, filter_append]
theorem memOn_append (a b : List Slot) (idx : Nat) : memOn (a ++ b) idx = memOn a idx + memOn b idx := by
  simp [memOn, filter_append]

theorem filter_node_nil (slots : List Slot) (idx : Nat) (h : ∀ sl ∈ slots, sl.node ≠ idx) :
    slots.filter (fun sl => sl.node = idx) = [] :=
  filter_eq_nil_iff.mpr (fun sl hs => by simpa using h sl hs)

theorem filter_node_all (slots : List Slot) (idx : Nat) (h : ∀ sl ∈ slots, sl.node = idx) :
    slots.filter (fun sl => sl.node = idx) = slots :=
  filter_eq_self.mpr (fun sl hs => by simpa using h sl hs)

/-- a set of slots can be placed on the node map: every slot lies on a node of the map, and on
    every node the cores named are pairwise distinct and FREE, the GPUs named are FREE, and the
    storage and memory asked for fit what the node has left -/
structure Placeable (nodes : List NodeSt) (slots : List Slot) : Prop where
  onNode : ∀ sl ∈ slots, ∃ n ∈ nodes, n.index = sl.node
  nodup  : ∀ n ∈ nodes, (coresOn slots n.index).Nodup
  free   : ∀ n ∈ nodes, ∀ c ∈ coresOn slots n.index, n.cores[c]? = some Occ.free
  gfree  : ∀ n ∈ nodes, ∀ g ∈ gpusOn slots n.index, n.gpus[g]? = some Occ.free
  lfsFit : ∀ n ∈ nodes, ((lfsOn slots n.index : Nat) : Int) ≤ n.lfs
  memFit : ∀ n ∈ nodes, ((memOn slots n.index : Nat) : Int) ≤ n.mem

/-- storage and memory of every node are non-negative (kept by the global invariant) -/
def NonNeg (nodes : List NodeSt) : Prop := ∀ n ∈ nodes, (0 : Int) ≤ n.lfs ∧ (0 : Int) ≤ n.mem

theorem placeable_nil (nodes : List NodeSt) (hnn : NonNeg nodes) : Placeable nodes [] :=
  ⟨(fun _ h => by cases h), (fun _ _ => by rw [coresOn_nil]; exact nodup_nil),
   (fun _ _ c hc => by rw [coresOn_nil] at hc; cases hc), (fun _ _ g hg => by simp [gpusOn] at hg),
   (fun n hn => by simpa [lfsOn] using (hnn n hn).1), (fun n hn => by simpa [memOn] using (hnn n hn).2)⟩

theorem shareOf_ge_mem (l : List (Nat × Nat)) (p : Nat × Nat) (h : p ∈ l) : p.2 ≤ shareOf l p.1 := by
  induction l with
  | nil => cases h
  | cons q qs ih =>
    have e : shareOf (q :: qs) p.1 = shareOf [q] p.1 + shareOf qs p.1 := shareOf_append [q] qs p.1
    rcases mem_cons.mp h with rfl | h
    · rw [e, shareOf_single]; simp
    · have := ih h; omega

/-- every GPU `_find_resources` names is FREE in the node map -/
theorem nodefit_gpu_free (n : NodeSt) (cps gpr lfs mem : Nat) (slots : List Slot) (hfit : NodeFit n cps gpr lfs mem slots)
    (p : Nat × Nat) (hp : p ∈ allGpus slots) : n.gpus[p.1]? = some Occ.free := by
  -- the share of `p` is positive
  have hpos : 0 < p.2 := by
    obtain ⟨sl, hsl, hps⟩ := mem_flatMap.mp hp
    obtain ⟨_, _, _, _, hw, hs, hz⟩ := hfit.shape sl hsl
    rcases Nat.lt_or_ge gpr 16 with hlt | hge
    · rcases Nat.eq_zero_or_pos gpr with h0 | h0
      · rw [hz h0] at hps; cases hps
      · obtain ⟨g, hg⟩ := hs ⟨h0, hlt⟩
        rw [hg] at hps; simp only [mem_singleton] at hps; subst hps; exact h0
    · have := (hw hge).2.2 p hps; omega
  have hshare : 0 < shareOf (allGpus slots) p.1 := Nat.lt_of_lt_of_le hpos (shareOf_ge_mem _ p hp)
  obtain ⟨o, ho, hd, hle⟩ := hfit.gpus_fit p.1 hshare
  rw [ho]
  cases o with
  | free => rfl
  | busy => simp [occVal] at hle; omega
  | down => exact absurd rfl hd

theorem mod_add_inj (o L j k : Nat) (hj : j < L) (hk : k < L) (h : (o + j) % L = (o + k) % L) : j = k := by
  rcases Nat.lt_or_ge j k with hlt | hge
  · have := Nat.sub_mod_eq_zero_of_mod_eq h.symm
    have e : o + k - (o + j) = k - j := by omega
    rw [e, Nat.mod_eq_of_lt (by omega)] at this
    omega
  · rcases Nat.lt_or_ge k j with hlt | hge'
    · have := Nat.sub_mod_eq_zero_of_mod_eq h
      have e : o + j - (o + k) = j - k := by omega
      rw [e, Nat.mod_eq_of_lt (by omega)] at this
      omega
    · omega

/-- two positions of the node list holding nodes with the same index are the same position -/
theorem pos_of_index (nodes : List NodeSt) (hw : NodesWF nodes) (a b : Nat) (n m : NodeSt)
    (ha : nodes[a]? = some n) (hb : nodes[b]? = some m) (hi : n.index = m.index) : a = b := by
  have hal : a < (nodes.map (·.index)).length := by
    rw [length_map]; exact (List.getElem?_eq_some_iff.mp ha).1
  apply (getElem?_inj hal hw).mp
  rw [getElem?_map, getElem?_map, ha, hb]
  simp [hi]

/-- invariant of the node loop: what was collected so far is placeable and comes from the nodes
    at the `k` positions visited so far -/
structure NLInv (nodes : List NodeSt) (o0 k : Nat) (it : IterSt) : Prop where
  off     : it.offset = (o0 + k) % nodes.length
  place   : Placeable nodes it.alc
  visited : ∀ sl ∈ it.alc, ∃ j, j < k ∧ ∃ n, nodes[(o0 + j) % nodes.length]? = some n ∧ n.index = sl.node

theorem nlinv_next (nodes : List NodeSt) (o0 k : Nat) (it : IterSt) (alc : List Slot) (r : Nat) (f l : Bool)
    (h : NLInv nodes o0 k it) (hp : Placeable nodes alc)
    (hv : ∀ sl ∈ alc, ∃ j, j < k + 1 ∧ ∃ n, nodes[(o0 + j) % nodes.length]? = some n ∧ n.index = sl.node) :
    NLInv nodes o0 (k + 1) { it with alc := alc, rem := r, isFirst := f, isLast := l, offset := (it.offset + 1) % nodes.length } := by
  refine ⟨?_, hp, hv⟩
  show (it.offset + 1) % nodes.length = (o0 + (k + 1)) % nodes.length
  rw [h.off, Nat.mod_add_mod]; rfl

/-- the slots `_find_resources` returns for the node at the current position extend a placeable
    collection that came from other positions -/
theorem placeable_extend (nodes : List NodeSt) (hw : NodesWF nodes) (o0 k : Nat) (hk : k < nodes.length)
    (alc new : List Slot) (node : NodeSt) (hnode : nodes[(o0 + k) % nodes.length]? = some node)
    (hp : Placeable nodes alc)
    (hv : ∀ sl ∈ alc, ∃ j, j < k ∧ ∃ n, nodes[(o0 + j) % nodes.length]? = some n ∧ n.index = sl.node)
    (cps gpr lfs mem : Nat) (hfit : NodeFit node cps gpr lfs mem new) (hnn : NonNeg nodes) :
    Placeable nodes (alc ++ new)
    ∧ ∀ sl ∈ alc ++ new, ∃ j, j < k + 1 ∧ ∃ n, nodes[(o0 + j) % nodes.length]? = some n ∧ n.index = sl.node := by
  have hnew_node : ∀ sl ∈ new, sl.node = node.index := fun sl hs => (hfit.shape sl hs).1
  have hmem : node ∈ nodes := mem_of_getElem? hnode
  -- nothing collected so far lies on the current node
  have hold : ∀ sl ∈ alc, sl.node ≠ node.index := by
    intro sl hs heq
    obtain ⟨j, hj, n, hn, hni⟩ := hv sl hs
    have := pos_of_index nodes hw _ _ n node hn hnode (hni.trans heq)
    have := mod_add_inj o0 nodes.length j k (by omega) hk this
    omega
  have hold_on : coresOn alc node.index = [] := by
    unfold coresOn
    rw [filter_eq_nil_iff.mpr (fun sl hs => by simpa using hold sl hs)]
    rfl
  have hsame : ∀ n ∈ nodes, n.index = node.index → n = node := by
    intro n hn hi
    obtain ⟨a, ha⟩ := getElem?_of_mem hn
    have := pos_of_index nodes hw _ _ n node ha hnode hi
    rw [this] at ha; rw [hnode] at ha; exact (Option.some.inj ha).symm
  have hfn_old : alc.filter (fun sl => sl.node = node.index) = [] := filter_node_nil alc node.index hold
  have hfn_new : new.filter (fun sl => sl.node = node.index) = new := filter_node_all new node.index hnew_node
  have hfn_other : ∀ j, j ≠ node.index → new.filter (fun sl => sl.node = j) = [] :=
    fun j hj => filter_node_nil new j (fun sl hs e => hj (by rw [← e, hnew_node sl hs]))
  refine ⟨⟨?_, ?_, ?_, ?_, ?_, ?_⟩, ?_⟩
  · intro sl hs
    rcases mem_append.mp hs with h | h
    · exact hp.onNode sl h
    · exact ⟨node, hmem, (hnew_node sl h).symm⟩
  · intro n hn
    rw [coresOn_append]
    by_cases hi : n.index = node.index
    · rw [hi, hold_on, nil_append, coresOn_same new node.index hnew_node]
      exact hfit.cores_inc.imp (fun h => Nat.ne_of_lt h)
    · rw [coresOn_other new node.index n.index hnew_node hi, append_nil]
      exact hp.nodup n hn
  · intro n hn c hc
    rw [coresOn_append] at hc
    by_cases hi : n.index = node.index
    · rw [hi, hold_on, nil_append, coresOn_same new node.index hnew_node] at hc
      -- `n` and `node` have the same index, so they are the same node of the list
      have hsame : n = node := by
        obtain ⟨a, ha⟩ := getElem?_of_mem hn
        have := pos_of_index nodes hw _ _ n node ha hnode hi
        rw [this] at ha; rw [hnode] at ha; exact (Option.some.inj ha).symm
      rw [hsame]; exact hfit.cores_free c hc
    · rw [coresOn_other new node.index n.index hnew_node hi, append_nil] at hc
      exact hp.free n hn c hc
  · -- GPUs
    intro n hn g hg
    rw [gpusOn_append] at hg
    by_cases hi : n.index = node.index
    · have hnn' := hsame n hn hi
      subst hnn'
      simp only [gpusOn, hfn_old, hfn_new, flatMap_nil, nil_append] at hg
      obtain ⟨sl, hsl, hgs⟩ := mem_flatMap.mp hg
      obtain ⟨p, hp', rfl⟩ := mem_map.mp hgs
      exact nodefit_gpu_free n cps gpr lfs mem new hfit p (mem_flatMap.mpr ⟨sl, hsl, hp'⟩)
    · simp only [gpusOn, hfn_other n.index hi, flatMap_nil, append_nil] at hg
      exact hp.gfree n hn g hg
  · -- storage
    intro n hn
    rw [lfsOn_append]
    by_cases hi : n.index = node.index
    · have hnn' := hsame n hn hi
      subst hnn'
      have h0 : lfsOn alc n.index = 0 := by simp [lfsOn, hfn_old]
      have h1 : lfsOn new n.index = lfs * new.length := by
        simp only [lfsOn, hfn_new]
        have : new.map (·.lfs) = replicate new.length lfs := by
          apply eq_replicate_iff.mpr
          refine ⟨by simp, ?_⟩
          intro x hx; obtain ⟨sl, hsl, rfl⟩ := mem_map.mp hx; exact (hfit.shape sl hsl).2.2.1
        rw [this, sum_replicate_nat, Nat.mul_comm]
      rw [h0, h1, Nat.zero_add]
      by_cases hz : lfs = 0
      · subst hz; simpa using (hnn n hn).1
      · exact hfit.lfs_fit hz
    · have : lfsOn new n.index = 0 := by simp [lfsOn, hfn_other n.index hi]
      rw [this, Nat.add_zero]; exact hp.lfsFit n hn
  · -- memory
    intro n hn
    rw [memOn_append]
    by_cases hi : n.index = node.index
    · have hnn' := hsame n hn hi
      subst hnn'
      have h0 : memOn alc n.index = 0 := by simp [memOn, hfn_old]
      have h1 : memOn new n.index = mem * new.length := by
        simp only [memOn, hfn_new]
        have : new.map (·.mem) = replicate new.length mem := by
          apply eq_replicate_iff.mpr
          refine ⟨by simp, ?_⟩
          intro x hx; obtain ⟨sl, hsl, rfl⟩ := mem_map.mp hx; exact (hfit.shape sl hsl).2.2.2.1
        rw [this, sum_replicate_nat, Nat.mul_comm]
      rw [h0, h1, Nat.zero_add]
      by_cases hz : mem = 0
      · subst hz; simpa using (hnn n hn).2
      · exact hfit.mem_fit hz
    · have : memOn new n.index = 0 := by simp [memOn, hfn_other n.index hi]
      rw [this, Nat.add_zero]; exact hp.memFit n hn
  · intro sl hs
    rcases mem_append.mp hs with h | h
    · obtain ⟨j, hj, rest⟩ := hv sl h
      exact ⟨j, by omega, rest⟩
    · exact ⟨k, by omega, node, hnode, (hnew_node sl h).symm⟩

end RPVerif.Sched

namespace RPVerif.Sched
open List

theorem nlinv_skip (nodes : List NodeSt) (o0 k : Nat) (it : IterSt) (h : NLInv nodes o0 k it) :
    NLInv nodes o0 (k + 1) { it with offset := (it.offset + 1) % nodes.length } := by
  refine ⟨?_, h.place, fun sl hs => ?_⟩
  · show (it.offset + 1) % nodes.length = (o0 + (k + 1)) % nodes.length
    rw [h.off, Nat.mod_add_mod]; rfl
  · obtain ⟨j, hj, rest⟩ := h.visited sl hs
    exact ⟨j, by omega, rest⟩

/-- **the node loop only ever collects placeable slots** -/
theorem nodeLoop_placeable (c : Cfg) (nodes : List NodeSt) (r : Req) (cps spn req : Nat) (mpi : Bool)
    (colo : Option (List Nat)) (skip : List Nat) (hw : NodesWF nodes) (hnn : NonNeg nodes) (hcps : 0 < cps) (o0 : Nat) :
    ∀ (count k : Nat) (it it' : IterSt), k + count ≤ nodes.length → NLInv nodes o0 k it →
      nodeLoop c nodes r cps spn req mpi colo skip count it = .ok it' → Placeable nodes it'.alc := by
  intro count
  induction count with
  | zero =>
    intro k it it' _ hi h
    simp only [nodeLoop] at h
    injection h with h; subst h; exact hi.place
  | succ count ih =>
    intro k it it' hk hi h
    unfold nodeLoop at h
    cases hnode : nodes[it.offset]? with
    | none =>
      rw [hnode] at h
      simp only at h
      injection h with h; subst h; exact hi.place
    | some node =>
      rw [hnode] at h
      simp only at h
      have hklt : k < nodes.length := by omega
      have hnode' : nodes[(o0 + k) % nodes.length]? = some node := by rw [← hi.off]; exact hnode
      have hmem : node ∈ nodes := mem_of_getElem? hnode
      by_cases h1 : coloSkip colo node.index = true
      · rw [if_pos h1] at h
        exact ih (k + 1) _ it' (by omega) (nlinv_skip nodes o0 k it hi) h
      · rw [if_neg h1] at h
        by_cases h2 : node.index ∈ skip
        · rw [if_pos h2] at h
          exact ih (k + 1) _ it' (by omega) (nlinv_skip nodes o0 k it hi) h
        · rw [if_neg h2] at h
          cases hfr : findResources node (min it.rem spn) cps r.gpr r.lfs r.mem
              (if ¬ mpi = true then false else (it.isFirst || c.scattered || (it.isLast || decide (it.rem < spn)))) with
          | error e => rw [hfr] at h; simp only at h; cases h
          | ok res =>
            rw [hfr] at h
            simp only at h
            by_cases h3 : resEmpty res = true
            · rw [if_pos h3] at h
              by_cases h4 : ¬ c.scattered = true
              · rw [if_pos h4] at h
                refine ih (k + 1) _ it' (by omega) ?_ h
                exact nlinv_next nodes o0 k it [] req true false hi (placeable_nil nodes hnn) (fun sl hs => by cases hs)
              · rw [if_neg h4] at h
                refine ih (k + 1) _ it' (by omega) ?_ h
                exact nlinv_next nodes o0 k it it.alc it.rem it.isFirst (it.isLast || decide (it.rem < spn)) hi hi.place
                  (fun sl hs => by obtain ⟨j, hj, rest⟩ := hi.visited sl hs; exact ⟨j, by omega, rest⟩)
            · rw [if_neg h3] at h
              cases res with
              | none => simp [resEmpty] at h3
              | some new =>
                have hfit := (findResources_fit node _ cps r.gpr r.lfs r.mem _ new hcps
                                (fun _ => (hnn node hmem).1) (fun _ => (hnn node hmem).2) hfr).1
                have hext := placeable_extend nodes hw o0 k hklt it.alc new node hnode' hi.place hi.visited cps r.gpr r.lfs r.mem hfit hnn
                simp only [resList] at h
                by_cases h5 : it.rem - new.length = 0
                · have h' : (Except.ok { alc := it.alc ++ new, rem := 0, isFirst := false,
                                         isLast := it.isLast || decide (it.rem < spn), offset := it.offset } : Except (Err × Nat) IterSt)
                              = Except.ok it' := by simpa [h5] using h
                  injection h' with h'; subst h'; exact hext.1
                · have h' : nodeLoop c nodes r cps spn req mpi colo skip count
                      { alc := it.alc ++ new, rem := it.rem - new.length, isFirst := false,
                        isLast := it.isLast || decide (it.rem < spn), offset := (it.offset + 1) % nodes.length } = Except.ok it' := by
                    simpa [h5] using h
                  exact ih (k + 1) _ it' (by omega) (nlinv_next nodes o0 k it _ _ _ _ hi hext.1 hext.2) h'

end RPVerif.Sched
