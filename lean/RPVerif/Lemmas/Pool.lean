import RPVerif.Model.Sched
/-! helper lemmas about the wait pool (dict of dicts) of the agent scheduler -/
namespace RPVerif.Sched
open List

theorem poolOf_setPool (wp : List (Int × List Req)) (p : Int) (l : List Req) :
    poolOf (setPool wp p l) p = l := by
  unfold setPool
  by_cases h : wp.any (fun e => e.1 = p) = true
  · rw [if_pos h]
    unfold poolOf
    induction wp with
    | nil => simp at h
    | cons e es ih =>
      by_cases he : e.1 = p
      · simp [he]
      · have h' : es.any (fun e => e.1 = p) = true := by
          simp only [List.any_cons, Bool.or_eq_true, decide_eq_true_eq] at h
          rcases h with h | h
          · exact absurd h he
          · simpa using h
        have := ih h'
        simpa [List.find?, he] using this
  · rw [if_neg h]
    unfold poolOf
    have hn : ∀ e ∈ wp, ¬ (e.1 = p) := by
      intro e he hp
      exact h (List.any_eq_true.mpr ⟨e, he, by simpa using hp⟩)
    have : (wp ++ [(p, l)]).find? (fun e => decide (e.1 = p)) = some (p, l) := by
      rw [List.find?_append]
      have : wp.find? (fun e => decide (e.1 = p)) = none := by
        apply List.find?_eq_none.mpr
        intro e he
        simpa using hn e he
      rw [this]; simp
    rw [this]

theorem mem_poolInsert (l : List Req) (t r : Req) (h : r ∈ poolInsert l t) : r ∈ l ∨ r = t := by
  unfold poolInsert at h
  split at h
  · obtain ⟨x, hx, rfl⟩ := mem_map.mp h
    split
    · exact Or.inr rfl
    · exact Or.inl hx
  · rcases mem_append.mp h with h | h
    · exact Or.inl h
    · exact Or.inr (by simpa using h)

/-- parking tasks with other uids never brings `uid` into pool `p` -/
theorem parkTasks_absent (p : Int) (uid : Nat) (ts : List Req) :
    ∀ (s : SchedSt) (evs : List Ev), (∀ t ∈ ts, t.uid ≠ uid) →
      (∀ r ∈ poolOf s.waitpool p, r.uid ≠ uid) →
      ∀ r ∈ poolOf (parkTasks p s ts evs).1.waitpool p, r.uid ≠ uid := by
  induction ts with
  | nil => intro s evs _ hp; simpa [parkTasks] using hp
  | cons t ts ih =>
    intro s evs hts hp
    have ht : t.uid ≠ uid := hts t (mem_cons_self)
    have hts' : ∀ t ∈ ts, t.uid ≠ uid := fun x hx => hts x (mem_cons_of_mem _ hx)
    unfold parkTasks
    split
    · apply ih _ _ hts'
      simp only [poolOf_setPool]
      intro r hr
      have hr' := (mem_filter.mp hr).1
      rcases mem_poolInsert _ _ _ hr' with h | h
      · exact hp r h
      · rw [h]; exact ht
    · apply ih _ _ hts'
      simp only [poolOf_setPool]
      intro r hr
      rcases mem_poolInsert _ _ _ hr with h | h
      · exact hp r h
      · rw [h]; exact ht

/-- a task that is marked for cancellation when it is put into the wait pool does not stay there -/
theorem parkTasks_marked (p : Int) (uid : Nat) (ts : List Req) :
    ∀ (s : SchedSt) (evs : List Ev), uid ∈ s.cancel → (ts.map (·.uid)).Nodup →
      (∀ r ∈ poolOf s.waitpool p, r.uid ≠ uid) →
      ∀ r ∈ poolOf (parkTasks p s ts evs).1.waitpool p, r.uid ≠ uid := by
  induction ts with
  | nil => intro s evs _ _ hp; simpa [parkTasks] using hp
  | cons t ts ih =>
    intro s evs hm hnd hp
    have hnd' : (ts.map (·.uid)).Nodup := (List.nodup_cons.mp (by simpa using hnd)).2
    have hnotin : t.uid ∉ ts.map (·.uid) := (List.nodup_cons.mp (by simpa using hnd)).1
    by_cases ht : t.uid = uid
    · -- the named task itself: it is marked, so it is taken out again; the rest has other uids
      have hts' : ∀ x ∈ ts, x.uid ≠ uid := by
        intro x hx hxu
        exact hnotin (mem_map.mpr ⟨x, hx, by rw [hxu, ht]⟩)
      unfold parkTasks
      rw [if_pos (by rw [ht]; exact hm)]
      apply parkTasks_absent p uid ts _ _ hts'
      simp only [poolOf_setPool]
      intro r hr
      have := (mem_filter.mp hr).2
      simpa [ht] using this
    · unfold parkTasks
      split
      · apply ih _ _ _ hnd'
        · simp only [poolOf_setPool]
          intro r hr
          have hr' := (mem_filter.mp hr).1
          rcases mem_poolInsert _ _ _ hr' with h | h
          · exact hp r h
          · rw [h]; exact ht
        · exact (List.mem_erase_of_ne (fun h => ht h.symm)).mpr hm
      · apply ih _ _ _ hnd'
        · simp only [poolOf_setPool]
          intro r hr
          rcases mem_poolInsert _ _ _ hr with h | h
          · exact hp r h
          · rw [h]; exact ht
        · exact hm

end RPVerif.Sched
