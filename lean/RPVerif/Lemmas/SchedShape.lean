import RPVerif.Lemmas.SchedHist
/-!
Shape of a whole placement (C02): the node loop of `schedule_task` collects exactly the requested
number of slots, every one of the requested shape, only on nodes the colocate / exclusive tags allow.
-/
namespace RPVerif.Sched
open List

/-- the shape of one slot of a placement for request `r` -/
def SlotOK (cps : Nat) (r : Req) (sl : Slot) : Prop :=
  sl.cores.length = cps ∧ sl.lfs = r.lfs ∧ sl.mem = r.mem
  ∧ (r.gpr ≥ 16 → sl.gpus.length = r.gpr / 16 ∧ (sl.gpus.map (·.1)).Pairwise (· < ·) ∧ ∀ g ∈ sl.gpus, g.2 = 16)
  ∧ (0 < r.gpr ∧ r.gpr < 16 → ∃ g, sl.gpus = [(g, r.gpr)])
  ∧ (r.gpr = 0 → sl.gpus = [])

/-- invariant of the node loop: slots still missing + slots collected = slots requested; everything
    collected has the requested shape and lies on a node the tags allow -/
structure ShInv (nodes : List NodeSt) (r : Req) (cps req : Nat) (colo : Option (List Nat)) (skip : List Nat)
    (it : IterSt) : Prop where
  count  : it.rem + it.alc.length = req
  shape  : ∀ sl ∈ it.alc, SlotOK cps r sl
  place  : ∀ sl ∈ it.alc, (∃ n ∈ nodes, n.index = sl.node) ∧ coloSkip colo sl.node = false ∧ sl.node ∉ skip

theorem nodeLoop_shape (c : Cfg) (nodes : List NodeSt) (r : Req) (cps spn req : Nat) (mpi : Bool)
    (colo : Option (List Nat)) (skip : List Nat) (hnn : NonNeg nodes) (hcps : 0 < cps) :
    ∀ (count : Nat) (it it' : IterSt), ShInv nodes r cps req colo skip it →
      nodeLoop c nodes r cps spn req mpi colo skip count it = .ok it' → ShInv nodes r cps req colo skip it' := by
  intro count
  induction count with
  | zero =>
    intro it it' hi h
    simp only [nodeLoop] at h
    injection h with h; subst h; exact hi
  | succ count ih =>
    intro it it' hi h
    unfold nodeLoop at h
    cases hnode : nodes[it.offset]? with
    | none =>
      rw [hnode] at h
      simp only at h
      injection h with h; subst h; exact hi
    | some node =>
      rw [hnode] at h
      simp only at h
      have hmem : node ∈ nodes := mem_of_getElem? hnode
      by_cases h1 : coloSkip colo node.index = true
      · rw [if_pos h1] at h
        exact ih { it with offset := (it.offset + 1) % nodes.length } it' ⟨hi.count, hi.shape, hi.place⟩ h
      · rw [if_neg h1] at h
        by_cases h2 : node.index ∈ skip
        · rw [if_pos h2] at h
          exact ih { it with offset := (it.offset + 1) % nodes.length } it' ⟨hi.count, hi.shape, hi.place⟩ h
        · rw [if_neg h2] at h
          cases hfr : findResources node (min it.rem spn) cps r.gpr r.lfs r.mem
              (if ¬ mpi = true then false else (it.isFirst || c.scattered || (it.isLast || decide (it.rem < spn)))) with
          | error e => rw [hfr] at h; simp only at h; cases h
          | ok res =>
            rw [hfr] at h
            simp only at h
            by_cases h3 : resEmpty res = true
            · rw [if_pos h3] at h
              by_cases h4 : ¬ c.scattered = true
              · rw [if_pos h4] at h
                refine ih _ it' ⟨?_, ?_, ?_⟩ h
                · simp
                · intro sl hs; cases hs
                · intro sl hs; cases hs
              · rw [if_neg h4] at h
                exact ih { it with isLast := it.isLast || decide (it.rem < spn), offset := (it.offset + 1) % nodes.length } it'
                  ⟨hi.count, hi.shape, hi.place⟩ h
            · rw [if_neg h3] at h
              cases res with
              | none => simp [resEmpty] at h3
              | some new =>
                have hfit := findResources_fit node _ cps r.gpr r.lfs r.mem _ new hcps
                                (fun _ => (hnn node hmem).1) (fun _ => (hnn node hmem).2) hfr
                have hlen : new.length ≤ it.rem := Nat.le_trans hfit.2.1 (Nat.min_le_left _ _)
                have hshape : ∀ sl ∈ it.alc ++ new, SlotOK cps r sl := by
                  intro sl hs
                  rcases mem_append.mp hs with hs | hs
                  · exact hi.shape sl hs
                  · obtain ⟨_, a, b, c', d, e, f⟩ := hfit.1.shape sl hs
                    exact ⟨a, b, c', d, e, f⟩
                have hplace : ∀ sl ∈ it.alc ++ new,
                    (∃ n ∈ nodes, n.index = sl.node) ∧ coloSkip colo sl.node = false ∧ sl.node ∉ skip := by
                  intro sl hs
                  rcases mem_append.mp hs with hs | hs
                  · exact hi.place sl hs
                  · have hn : sl.node = node.index := (hfit.1.shape sl hs).1
                    rw [hn]
                    exact ⟨⟨node, hmem, rfl⟩, by simpa using h1, h2⟩
                simp only [resList] at h
                by_cases h5 : it.rem - new.length = 0
                · have h' : (Except.ok { alc := it.alc ++ new, rem := 0, isFirst := false,
                                         isLast := it.isLast || decide (it.rem < spn), offset := it.offset } : Except (Err × Nat) IterSt)
                              = Except.ok it' := by simpa [h5] using h
                  injection h' with h'; subst h'
                  refine ⟨?_, hshape, hplace⟩
                  have := hi.count
                  simp only [length_append]
                  omega
                · have h' : nodeLoop c nodes r cps spn req mpi colo skip count
                      { alc := it.alc ++ new, rem := it.rem - new.length, isFirst := false,
                        isLast := it.isLast || decide (it.rem < spn), offset := (it.offset + 1) % nodes.length } = Except.ok it' := by
                    simpa [h5] using h
                  refine ih _ it' ⟨?_, hshape, hplace⟩ h'
                  have := hi.count
                  simp only [length_append]
                  omega

/-- **shape of a whole placement**: what `schedule_task` returns has exactly one slot per requested
    rank, every slot of the requested shape, on nodes of the pilot that the colocate tag allows and
    that a new exclusive tag does not have to leave alone -/
theorem scheduleTask_shape (c : Cfg) (s : SchedSt) (r : Req) (slots : List Slot) (hnn : NonNeg s.nodes)
    (h : (scheduleTask c s r).1 = .ok (some slots)) :
    slots.length = r.ranks.toNat
    ∧ (∀ sl ∈ slots, SlotOK (cpsOf r) r sl)
    ∧ (∀ sl ∈ slots, (∃ n ∈ s.nodes, n.index = sl.node) ∧ coloSkip (coloOf s r) sl.node = false ∧ sl.node ∉ skipOf s r) := by
  unfold scheduleTask at h
  by_cases h1 : cpsOf r > c.cpn ∨ r.gpr > c.gpn * 16 ∨ r.lfs > c.lfsPn ∨ r.mem > c.memPn
  · rw [if_pos h1] at h; cases h
  · rw [if_neg h1] at h
    by_cases h2 : ¬ decide (r.ranks > 1) = true ∧ r.ranks.toNat > slotsPerNode c r (cpsOf r)
    · rw [if_pos h2] at h; cases h
    · rw [if_neg h2] at h
      have hcps : 0 < cpsOf r := by unfold cpsOf; split <;> omega
      cases hnl : nodeLoop c s.nodes r (cpsOf r) (slotsPerNode c r (cpsOf r)) r.ranks.toNat (decide (r.ranks > 1))
                    (coloOf s r) (skipOf s r) s.nodes.length { rem := r.ranks.toNat, offset := s.offset } with
      | error p => obtain ⟨e, off⟩ := p; rw [hnl] at h; cases h
      | ok it =>
        rw [hnl] at h
        simp only at h
        have hsh := nodeLoop_shape c s.nodes r (cpsOf r) (slotsPerNode c r (cpsOf r)) r.ranks.toNat (decide (r.ranks > 1))
                      (coloOf s r) (skipOf s r) hnn hcps s.nodes.length _ it
                      ⟨by simp, (fun sl hs => by cases hs), (fun sl hs => by cases hs)⟩ hnl
        unfold finishTask at h
        by_cases h3 : it.rem > 0
        · rw [if_pos h3] at h; cases h
        · rw [if_neg h3] at h
          have hal : it.alc = slots := by
            split at h
            · simp only [Except.ok.injEq, Option.some.injEq] at h; exact h
            · simp only [Except.ok.injEq, Option.some.injEq] at h; exact h
          subst hal
          refine ⟨?_, hsh.shape, hsh.place⟩
          have := hsh.count
          omega

/-! ### colocation -/

theorem coloSkip_false_mem (l : List Nat) (idx : Nat) (h : coloSkip (some l) idx = false) : idx ∈ l := by
  simpa [coloSkip] using h

theorem find_tag_append (hist : List (Nat × List Nat)) (tag : Nat) (v : List Nat) :
    ((hist.filter (fun e => e.1 ≠ tag)) ++ [(tag, v)]).find? (fun e => e.1 = tag) = some (tag, v) := by
  rw [find?_append]
  have : (hist.filter (fun e => e.1 ≠ tag)).find? (fun e => e.1 = tag) = none := by
    apply find?_eq_none.mpr
    intro x hx
    have := (mem_filter.mp hx).2
    simpa using this
  rw [this]
  simp

/-- a task with a colocate tag that already has a history lands on nodes of that history only, and
    the history recorded afterwards is the list of its nodes (a sub-list of the old one): so all
    tasks of a tag stay on the nodes the first one got -/
theorem scheduleTask_colocate (c : Cfg) (s : SchedSt) (r : Req) (tag : Nat) (l : List Nat) (slots : List Slot)
    (hnn : NonNeg s.nodes) (ht : r.colo = some tag) (hh : s.coloHist.find? (fun e => e.1 = tag) = some (tag, l))
    (h : (scheduleTask c s r).1 = .ok (some slots)) :
    (∀ sl ∈ slots, sl.node ∈ l)
    ∧ (scheduleTask c s r).2.coloHist.find? (fun e => e.1 = tag) = some (tag, slots.map (·.node)) := by
  have hcolo : coloOf s r = some l := by unfold coloOf; rw [ht]; simp only; rw [hh]
  have hsh := scheduleTask_shape c s r slots hnn h
  refine ⟨fun sl hs => coloSkip_false_mem l sl.node (by rw [← hcolo]; exact (hsh.2.2 sl hs).2.1), ?_⟩
  -- the state after the call
  unfold scheduleTask at h ⊢
  by_cases h1 : cpsOf r > c.cpn ∨ r.gpr > c.gpn * 16 ∨ r.lfs > c.lfsPn ∨ r.mem > c.memPn
  · rw [if_pos h1] at h; cases h
  · rw [if_neg h1] at h ⊢
    by_cases h2 : ¬ decide (r.ranks > 1) = true ∧ r.ranks.toNat > slotsPerNode c r (cpsOf r)
    · rw [if_pos h2] at h; cases h
    · rw [if_neg h2] at h ⊢
      cases hnl : nodeLoop c s.nodes r (cpsOf r) (slotsPerNode c r (cpsOf r)) r.ranks.toNat (decide (r.ranks > 1))
                    (coloOf s r) (skipOf s r) s.nodes.length { rem := r.ranks.toNat, offset := s.offset } with
      | error p => obtain ⟨e, off⟩ := p; rw [hnl] at h; cases h
      | ok it =>
        rw [hnl] at h
        simp only at h ⊢
        unfold finishTask at h ⊢
        by_cases h3 : it.rem > 0
        · rw [if_pos h3] at h; cases h
        · rw [if_neg h3] at h ⊢
          rw [ht] at h ⊢
          simp only [Except.ok.injEq, Option.some.injEq] at h
          subst h
          exact find_tag_append s.coloHist tag _

/-! ### ranks per node -/

/-- number of slots a placement has on the node with index `idx` -/
def slotsOn (slots : List Slot) (idx : Nat) : Nat := (slots.filter (fun sl => sl.node = idx)).length

theorem slotsOn_append (a b : List Slot) (idx : Nat) : slotsOn (a ++ b) idx = slotsOn a idx + slotsOn b idx := by
  simp [slotsOn, filter_append]

/-- nothing collected so far lies on the node the loop is looking at (every node is visited once) -/
theorem alc_not_on_current (nodes : List NodeSt) (hw : NodesWF nodes) (o0 k : Nat) (hk : k < nodes.length)
    (alc : List Slot) (node : NodeSt) (hnode : nodes[(o0 + k) % nodes.length]? = some node)
    (hv : ∀ sl ∈ alc, ∃ j, j < k ∧ ∃ n, nodes[(o0 + j) % nodes.length]? = some n ∧ n.index = sl.node) :
    ∀ sl ∈ alc, sl.node ≠ node.index := by
  intro sl hs heq
  obtain ⟨j, hj, n, hn, hni⟩ := hv sl hs
  have := pos_of_index nodes hw _ _ n node hn hnode (hni.trans heq)
  have := mod_add_inj o0 nodes.length j k (by omega) hk this
  omega

/-- **no node gets more slots than the per-node limit** (`slots_per_node`, which the ranks-per-node
    limit of the task bounds) -/
theorem nodeLoop_pernode (c : Cfg) (nodes : List NodeSt) (r : Req) (cps spn req : Nat) (mpi : Bool)
    (colo : Option (List Nat)) (skip : List Nat) (hw : NodesWF nodes) (hnn : NonNeg nodes) (hcps : 0 < cps) (o0 : Nat) :
    ∀ (count k : Nat) (it it' : IterSt), k + count ≤ nodes.length → NLInv nodes o0 k it →
      (∀ idx, slotsOn it.alc idx ≤ spn) →
      nodeLoop c nodes r cps spn req mpi colo skip count it = .ok it' → ∀ idx, slotsOn it'.alc idx ≤ spn := by
  intro count
  induction count with
  | zero =>
    intro k it it' _ _ hp h
    simp only [nodeLoop] at h
    injection h with h; subst h; exact hp
  | succ count ih =>
    intro k it it' hk hi hp h
    unfold nodeLoop at h
    cases hnode : nodes[it.offset]? with
    | none =>
      rw [hnode] at h
      simp only at h
      injection h with h; subst h; exact hp
    | some node =>
      rw [hnode] at h
      simp only at h
      have hklt : k < nodes.length := by omega
      have hnode' : nodes[(o0 + k) % nodes.length]? = some node := by rw [← hi.off]; exact hnode
      have hmem : node ∈ nodes := mem_of_getElem? hnode
      by_cases h1 : coloSkip colo node.index = true
      · rw [if_pos h1] at h
        exact ih (k + 1) _ it' (by omega) (nlinv_skip nodes o0 k it hi) hp h
      · rw [if_neg h1] at h
        by_cases h2 : node.index ∈ skip
        · rw [if_pos h2] at h
          exact ih (k + 1) _ it' (by omega) (nlinv_skip nodes o0 k it hi) hp h
        · rw [if_neg h2] at h
          cases hfr : findResources node (min it.rem spn) cps r.gpr r.lfs r.mem
              (if ¬ mpi = true then false else (it.isFirst || c.scattered || (it.isLast || decide (it.rem < spn)))) with
          | error e => rw [hfr] at h; simp only at h; cases h
          | ok res =>
            rw [hfr] at h
            simp only at h
            by_cases h3 : resEmpty res = true
            · rw [if_pos h3] at h
              by_cases h4 : ¬ c.scattered = true
              · rw [if_pos h4] at h
                refine ih (k + 1) _ it' (by omega) ?_ ?_ h
                · exact nlinv_next nodes o0 k it [] req true false hi (placeable_nil nodes hnn) (fun sl hs => by cases hs)
                · intro idx; simp [slotsOn]
              · rw [if_neg h4] at h
                refine ih (k + 1) { it with isLast := it.isLast || decide (it.rem < spn), offset := (it.offset + 1) % nodes.length }
                          it' (by omega) ?_ hp h
                exact nlinv_next nodes o0 k it it.alc it.rem it.isFirst (it.isLast || decide (it.rem < spn)) hi hi.place
                  (fun sl hs => by obtain ⟨j, hj, rest⟩ := hi.visited sl hs; exact ⟨j, by omega, rest⟩)
            · rw [if_neg h3] at h
              cases res with
              | none => simp [resEmpty] at h3
              | some new =>
                have hfit := findResources_fit node _ cps r.gpr r.lfs r.mem _ new hcps
                                (fun _ => (hnn node hmem).1) (fun _ => (hnn node hmem).2) hfr
                have hext := placeable_extend nodes hw o0 k hklt it.alc new node hnode' hi.place hi.visited cps r.gpr r.lfs r.mem hfit.1 hnn
                have hold := alc_not_on_current nodes hw o0 k hklt it.alc node hnode' hi.visited
                have hnew_node : ∀ sl ∈ new, sl.node = node.index := fun sl hs => (hfit.1.shape sl hs).1
                have hpn : ∀ idx, slotsOn (it.alc ++ new) idx ≤ spn := by
                  intro idx
                  rw [slotsOn_append]
                  by_cases hidx : idx = node.index
                  · subst hidx
                    have h0 : slotsOn it.alc node.index = 0 := by
                      simp only [slotsOn, filter_node_nil it.alc node.index hold, length_nil]
                    have h1' : slotsOn new node.index = new.length := by
                      simp only [slotsOn, filter_node_all new node.index hnew_node]
                    rw [h0, h1']
                    have := hfit.2.1
                    have := Nat.min_le_right it.rem spn
                    omega
                  · have : slotsOn new idx = 0 := by
                      simp only [slotsOn, filter_node_nil new idx (fun sl hs e => hidx (by rw [← e, hnew_node sl hs])), length_nil]
                    rw [this]; exact hp idx
                simp only [resList] at h
                by_cases h5 : it.rem - new.length = 0
                · have h' : (Except.ok { alc := it.alc ++ new, rem := 0, isFirst := false,
                                         isLast := it.isLast || decide (it.rem < spn), offset := it.offset } : Except (Err × Nat) IterSt)
                              = Except.ok it' := by simpa [h5] using h
                  injection h' with h'; subst h'; exact hpn
                · have h' : nodeLoop c nodes r cps spn req mpi colo skip count
                      { alc := it.alc ++ new, rem := it.rem - new.length, isFirst := false,
                        isLast := it.isLast || decide (it.rem < spn), offset := (it.offset + 1) % nodes.length } = Except.ok it' := by
                    simpa [h5] using h
                  exact ih (k + 1) _ it' (by omega) (nlinv_next nodes o0 k it _ _ _ _ hi hext.1 hext.2) hpn h'

theorem slotsPerNode_le_rpn (c : Cfg) (r : Req) (cps : Nat) (h : r.rpn ≠ 0) : slotsPerNode c r cps ≤ r.rpn := by
  unfold slotsPerNode
  simp only [h, ne_eq, not_false_eq_true, if_true]
  have a : ∀ (x : Nat), (if r.mem ≠ 0 then min x (c.memPn / r.mem) else x) ≤ x := by intro x; split <;> omega
  have b : ∀ (x : Nat), (if r.lfs ≠ 0 then min x (c.lfsPn / r.lfs) else x) ≤ x := by intro x; split <;> omega
  have d : ∀ (x : Nat), (if r.gpr ≠ 0 then min x (c.gpn * 16 / r.gpr) else x) ≤ x := by intro x; split <;> omega
  exact Nat.le_trans (a _) (Nat.le_trans (b _) (Nat.le_trans (d _) (Nat.min_le_right _ _)))

/-- **the ranks-per-node limit holds for the whole placement** -/
theorem scheduleTask_pernode (c : Cfg) (s : SchedSt) (r : Req) (slots : List Slot) (hw : NodesWF s.nodes) (hnn : NonNeg s.nodes)
    (h : (scheduleTask c s r).1 = .ok (some slots)) (idx : Nat) :
    slotsOn slots idx ≤ slotsPerNode c r (cpsOf r) ∧ (r.rpn ≠ 0 → slotsOn slots idx ≤ r.rpn) := by
  have key : slotsOn slots idx ≤ slotsPerNode c r (cpsOf r) := by
    unfold scheduleTask at h
    by_cases h1 : cpsOf r > c.cpn ∨ r.gpr > c.gpn * 16 ∨ r.lfs > c.lfsPn ∨ r.mem > c.memPn
    · rw [if_pos h1] at h; cases h
    · rw [if_neg h1] at h
      by_cases h2 : ¬ decide (r.ranks > 1) = true ∧ r.ranks.toNat > slotsPerNode c r (cpsOf r)
      · rw [if_pos h2] at h; cases h
      · rw [if_neg h2] at h
        have hcps : 0 < cpsOf r := by unfold cpsOf; split <;> omega
        cases hnl : nodeLoop c s.nodes r (cpsOf r) (slotsPerNode c r (cpsOf r)) r.ranks.toNat (decide (r.ranks > 1))
                      (coloOf s r) (skipOf s r) s.nodes.length { rem := r.ranks.toNat, offset := s.offset } with
        | error p => obtain ⟨e, off⟩ := p; rw [hnl] at h; cases h
        | ok it =>
          rw [hnl] at h
          simp only at h
          have hpn : ∀ idx, slotsOn it.alc idx ≤ slotsPerNode c r (cpsOf r) := by
            by_cases hoff : s.offset < s.nodes.length
            · refine nodeLoop_pernode c s.nodes r _ _ _ _ _ _ hw hnn hcps s.offset s.nodes.length 0 _ it (by omega) ?_ ?_ hnl
              · refine ⟨?_, placeable_nil s.nodes hnn, fun sl hs => by cases hs⟩
                show s.offset = (s.offset + 0) % s.nodes.length
                rw [Nat.add_zero, Nat.mod_eq_of_lt hoff]
              · intro i; simp [slotsOn]
            · have hnone : s.nodes[s.offset]? = none := by
                rw [List.getElem?_eq_none_iff]; omega
              have : nodeLoop c s.nodes r (cpsOf r) (slotsPerNode c r (cpsOf r)) r.ranks.toNat (decide (r.ranks > 1))
                      (coloOf s r) (skipOf s r) s.nodes.length { rem := r.ranks.toNat, offset := s.offset }
                      = .ok { rem := r.ranks.toNat, offset := s.offset } := by
                cases hl : s.nodes.length with
                | zero => rfl
                | succ n => unfold nodeLoop; rw [hnone]
              rw [this] at hnl
              injection hnl with hnl; subst hnl
              intro i; simp [slotsOn]
          unfold finishTask at h
          by_cases h3 : it.rem > 0
          · rw [if_pos h3] at h; cases h
          · rw [if_neg h3] at h
            have hal : it.alc = slots := by
              split at h
              · simp only [Except.ok.injEq, Option.some.injEq] at h; exact h
              · simp only [Except.ok.injEq, Option.some.injEq] at h; exact h
            subst hal
            exact hpn idx
  exact ⟨key, fun hr => Nat.le_trans key (slotsPerNode_le_rpn c r (cpsOf r) hr)⟩

end RPVerif.Sched
