import RPVerif.Model.Launch
/-! helper lemmas for C09: `countHosts` is a histogram of the host list, `hostSet` its support -/
namespace RPVerif.Launch
open List

/-- processes a `host:k` list puts on `h` -/
def hostSum (l : List (Host × Nat)) (h : Host) : Nat :=
  (l.filter (fun e => e.1 = h)).foldl (fun a e => a + e.2) 0

theorem foldl_add_init (l : List (Host × Nat)) (a : Nat) :
    l.foldl (fun a e => a + e.2) a = a + l.foldl (fun a e => a + e.2) 0 := by
  induction l generalizing a with
  | nil => simp
  | cons e es ih => simp only [foldl_cons]; rw [ih (a + e.2), ih (0 + e.2)]; omega

theorem hostSum_nil (h : Host) : hostSum [] h = 0 := rfl

theorem hostSum_cons (e : Host × Nat) (l : List (Host × Nat)) (h : Host) :
    hostSum (e :: l) h = (if e.1 = h then e.2 else 0) + hostSum l h := by
  unfold hostSum
  by_cases he : e.1 = h
  · simp only [filter_cons, he, decide_true, if_true, foldl_cons]
    rw [foldl_add_init]; omega
  · simp [filter_cons, he]

theorem hostSum_append (l1 l2 : List (Host × Nat)) (h : Host) :
    hostSum (l1 ++ l2) h = hostSum l1 h + hostSum l2 h := by
  induction l1 with
  | nil => simp [hostSum_nil]
  | cons e es ih => simp only [cons_append, hostSum_cons, ih]; omega

/-- bumping the entries of host `x` adds one per such entry -/
theorem hostSum_bump (acc : List (Host × Nat)) (x h : Host) :
    hostSum (acc.map (fun e => if e.1 = x then (e.1, e.2 + 1) else e)) h
      = hostSum acc h + (if x = h then (acc.filter (fun e => e.1 = x)).length else 0) := by
  induction acc with
  | nil => simp [hostSum_nil]
  | cons e es ih =>
    simp only [map_cons, hostSum_cons, ih, filter_cons]
    by_cases hx : e.1 = x <;> by_cases hh : x = h <;> by_cases he : e.1 = h <;>
      simp_all <;> omega

/-- keys of the accumulator are distinct -/
def KeysNodup (acc : List (Host × Nat)) : Prop := (acc.map (·.1)).Nodup

theorem filter_len_of_nodup (acc : List (Host × Nat)) (x : Host) (hn : KeysNodup acc)
    (hx : acc.any (fun e => e.1 = x) = true) : (acc.filter (fun e => e.1 = x)).length = 1 := by
  induction acc with
  | nil => simp at hx
  | cons e es ih =>
    have hn' : KeysNodup es := (nodup_cons.mp hn).2
    have hnot : e.1 ∉ es.map (·.1) := (nodup_cons.mp hn).1
    by_cases he : e.1 = x
    · have : es.filter (fun e => e.1 = x) = [] := by
        apply filter_eq_nil_iff.mpr
        intro y hy hyx
        apply hnot
        exact mem_map.mpr ⟨y, hy, by rw [he]; simpa using hyx⟩
      simp [filter_cons, he, this]
    · have hx' : es.any (fun e => e.1 = x) = true := by
        simp only [any_cons, Bool.or_eq_true, decide_eq_true_eq] at hx
        rcases hx with h | h
        · exact absurd h he
        · simpa using h
      simp [filter_cons, he, ih hn' hx']

theorem keysNodup_bump (acc : List (Host × Nat)) (x : Host) (hn : KeysNodup acc) :
    KeysNodup (acc.map (fun e => if e.1 = x then (e.1, e.2 + 1) else e)) := by
  unfold KeysNodup at *
  have : (acc.map (fun e => if e.1 = x then (e.1, e.2 + 1) else e)).map (·.1) = acc.map (·.1) := by
    rw [map_map]; apply map_congr_left; intro e _; simp only [Function.comp]; split <;> rfl
  rw [this]; exact hn

theorem keysNodup_snoc (acc : List (Host × Nat)) (x : Host) (hn : KeysNodup acc)
    (hx : ¬ acc.any (fun e => e.1 = x) = true) : KeysNodup (acc ++ [(x, 1)]) := by
  unfold KeysNodup at *
  rw [map_append]
  apply nodup_append.mpr
  refine ⟨hn, by simp, ?_⟩
  intro a ha b hb hab
  simp at hb
  obtain ⟨e, he, rfl⟩ := mem_map.mp ha
  apply hx
  exact any_eq_true.mpr ⟨e, he, by simp [hab, hb]⟩

/-- `countHosts` adds, for every host, the number of its occurrences -/
theorem countHosts_spec (hs : List Host) :
    ∀ (acc : List (Host × Nat)), KeysNodup acc →
      KeysNodup (countHosts hs acc) ∧ ∀ h, hostSum (countHosts hs acc) h = hostSum acc h + hs.count h := by
  induction hs with
  | nil => intro acc hn; exact ⟨hn, fun h => by simp [countHosts]⟩
  | cons x xs ih =>
    intro acc hn
    unfold countHosts
    split
    · rename_i hx
      obtain ⟨h1, h2⟩ := ih _ (keysNodup_bump acc x hn)
      refine ⟨h1, fun h => ?_⟩
      rw [h2 h, hostSum_bump, filter_len_of_nodup acc x hn hx, count_cons]
      by_cases hh : x = h <;> simp [hh] <;> omega
    · rename_i hx
      obtain ⟨h1, h2⟩ := ih _ (keysNodup_snoc acc x hn hx)
      refine ⟨h1, fun h => ?_⟩
      rw [h2 h, hostSum_append, hostSum_cons, hostSum_nil, count_cons]
      by_cases hh : x = h <;> simp [hh] <;> omega

theorem countHosts_sum (hs : List Host) (h : Host) : hostSum (countHosts hs []) h = hs.count h := by
  have := (countHosts_spec hs [] (by simp [KeysNodup])).2 h
  simpa [hostSum_nil] using this

/-- total of the histogram = length of the host list -/
def total (l : List (Host × Nat)) : Nat := l.foldl (fun a e => a + e.2) 0

theorem mem_insertSorted (h x : Host) (l : List Host) : x ∈ insertSorted h l ↔ x = h ∨ x ∈ l := by
  induction l with
  | nil => simp [insertSorted]
  | cons y ys ih =>
    unfold insertSorted
    split
    · simp
    · split
      · rename_i _ hy; subst hy; simp
      · simp only [mem_cons, ih]
        constructor
        · rintro (h1 | h1 | h1)
          · exact Or.inr (Or.inl h1)
          · exact Or.inl h1
          · exact Or.inr (Or.inr h1)
        · rintro (h1 | h1 | h1)
          · exact Or.inr (Or.inl h1)
          · exact Or.inl h1
          · exact Or.inr (Or.inr h1)

theorem mem_hostSet_aux (hs : List Host) : ∀ (acc : List Host) (x : Host),
    x ∈ hs.foldl (fun acc h => insertSorted h acc) acc ↔ x ∈ acc ∨ x ∈ hs := by
  induction hs with
  | nil => intro acc x; simp
  | cons y ys ih =>
    intro acc x
    simp only [foldl_cons, ih, mem_insertSorted, mem_cons]
    constructor
    · rintro ((h | h) | h)
      · exact Or.inr (Or.inl h)
      · exact Or.inl h
      · exact Or.inr (Or.inr h)
    · rintro (h | h | h)
      · exact Or.inl (Or.inr h)
      · exact Or.inl (Or.inl h)
      · exact Or.inr h

/-- the node list of srun names exactly the hosts of the placement -/
theorem mem_hostSet (hs : List Host) (x : Host) : x ∈ hostSet hs ↔ x ∈ hs := by
  unfold hostSet; rw [mem_hostSet_aux]; simp

/-- strictly increasing: no host is named twice -/
def StrictSorted : List Host → Prop
  | [] => True
  | [_] => True
  | x :: y :: l => x < y ∧ StrictSorted (y :: l)

theorem strictSorted_insert (h : Host) (l : List Host) (hs : StrictSorted l) : StrictSorted (insertSorted h l) := by
  induction l with
  | nil => simp [insertSorted, StrictSorted]
  | cons y ys ih =>
    unfold insertSorted
    split
    · rename_i hlt; exact ⟨hlt, hs⟩
    · split
      · exact hs
      · rename_i hnlt hne
        cases ys with
        | nil =>
          simp only [insertSorted]
          exact ⟨Nat.lt_of_le_of_ne (Nat.le_of_not_lt hnlt) (fun e => hne e.symm), trivial⟩
        | cons z zs =>
          have hs' : StrictSorted (z :: zs) := hs.2
          have ih' := ih hs'
          unfold insertSorted at ih' ⊢
          split
          · rename_i hz; exact ⟨Nat.lt_of_le_of_ne (Nat.le_of_not_lt hnlt) (fun e => hne e.symm), hz, hs'⟩
          · split
            · rename_i hz; exact ⟨hs.1, hs'⟩
            · rename_i h1 h2
              simp only [h1, h2, if_false] at ih'
              exact ⟨hs.1, ih'⟩

theorem strictSorted_hostSet (hs : List Host) : StrictSorted (hostSet hs) := by
  unfold hostSet
  suffices ∀ acc, StrictSorted acc → StrictSorted (hs.foldl (fun acc h => insertSorted h acc) acc) from this [] trivial
  induction hs with
  | nil => intro acc h; simpa
  | cons y ys ih => intro acc h; exact ih _ (strictSorted_insert y acc h)

end RPVerif.Launch
