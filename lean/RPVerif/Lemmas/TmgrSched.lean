import RPVerif.Model.TmgrSched

namespace RPVerif.TmgrSched
open List

def fwdUids (outs : List Out) : List Nat :=
  outs.filterMap (fun o => match o with | .fwd u _ => some u | _ => none)

def fwdPids (outs : List Out) : List Nat :=
  outs.filterMap (fun o => match o with | .fwd _ p => some p | _ => none)

def uids (ts : List Task) : List Nat := ts.map (·.uid)
def earlyUids (e : List (Nat × Task)) : List Nat := e.map (·.2.uid)

/-- uids the scheduler is holding back -/
def held (s : S) : List Nat := uids s.wait ++ earlyUids s.early

@[simp] theorem fwdUids_nil : fwdUids [] = [] := rfl
@[simp] theorem fwdUids_append (a b : List Out) : fwdUids (a ++ b) = fwdUids a ++ fwdUids b := by
  simp [fwdUids, filterMap_append]
@[simp] theorem fwdUids_cons_fwd (u p : Nat) (l : List Out) : fwdUids (Out.fwd u p :: l) = u :: fwdUids l := by
  simp [fwdUids]
@[simp] theorem fwdUids_sched (ts : List Task) : fwdUids (ts.map (fun t => Out.sched t.uid)) = [] := by
  induction ts with
  | nil => rfl
  | cons t ts ih => simp [fwdUids] at *

theorem rrAssign_uids (pids : List Nat) (idx : Nat) (ts : List Task) :
    fwdUids (rrAssign pids idx ts).2 = uids ts := by
  induction ts generalizing idx with
  | nil => rfl
  | cons t ts ih =>
    simp only [rrAssign, uids, map_cons, fwdUids_cons_fwd]
    congr 1
    exact ih _

/-- round robin only ever picks pilots from `_pids` -/
theorem rrAssign_pids (pids : List Nat) (hne : pids ≠ []) (idx : Nat) (ts : List Task) :
    ∀ p ∈ fwdPids (rrAssign pids idx ts).2, p ∈ pids := by
  induction ts generalizing idx with
  | nil => intro p hp; simp [rrAssign, fwdPids] at hp
  | cons t ts ih =>
    intro p hp
    simp only [rrAssign, fwdPids, filterMap_cons] at hp
    rcases mem_cons.mp hp with rfl | hp
    · have hl : 0 < pids.length := length_pos_iff.mpr hne
      have : (if idx ≥ pids.length then 0 else idx) < pids.length := by split <;> omega
      rw [getD_eq_getElem?_getD, getElem?_eq_getElem this]
      exact getElem_mem this
    · exact ih _ p hp

/-- counting form of conservation: what is forwarded plus what is still held
    equals what was held plus what came in, uid by uid -/
theorem rrSchedule_conserve (s : S) (ts : List Task) (a : Nat) :
    count a (fwdUids (rrSchedule s ts).2) + count a (uids (rrSchedule s ts).1.wait)
      = count a (uids s.wait) + count a (uids ts)
    ∧ (rrSchedule s ts).1.early = s.early ∧ (rrSchedule s ts).1.pids = s.pids
    ∧ (rrSchedule s ts).1.pilots = s.pilots := by
  unfold rrSchedule
  split
  · simp [uids]
  · simp only [rrAssign_uids]
    exact ⟨by omega, trivial, trivial, trivial⟩

theorem count_filter_split (p : Nat × Task → Bool) (e : List (Nat × Task)) (a : Nat) :
    count a (earlyUids (e.filter p)) + count a (earlyUids (e.filter (fun x => !p x))) = count a (earlyUids e) := by
  induction e with
  | nil => rfl
  | cons x xs ih =>
    simp only [filter_cons]
    cases hp : p x <;> simp [hp, earlyUids, count_cons] at * <;> omega

theorem flushEarly_conserve (pids : List Nat) (e : List (Nat × Task)) (a : Nat) :
    count a (fwdUids (flushEarly e pids).2) + count a (earlyUids (flushEarly e pids).1)
      = count a (earlyUids e) := by
  induction pids generalizing e with
  | nil => simp [flushEarly]
  | cons pid rest ih =>
    simp only [flushEarly]
    have h1 := ih (e.filter (fun x => x.1 ≠ pid))
    have hf : fwdUids ((e.filter (fun x => x.1 = pid)).map (fun x => Out.fwd x.2.uid pid))
        = earlyUids (e.filter (fun x => x.1 = pid)) := by
      generalize e.filter (fun x => x.1 = pid) = l
      induction l with
      | nil => rfl
      | cons x xs ih' => simp [earlyUids] at *; exact ih'
    have h2 := count_filter_split (fun x => decide (x.1 = pid)) e a
    have e1 : (e.filter (fun x => !(decide (x.1 = pid)))) = e.filter (fun x => x.1 ≠ pid) := by
      congr 1; funext x; simp
    rw [e1] at h2
    rw [fwdUids_append, count_append, hf]
    omega

theorem workFilter_conserve (ps : List Pilot) (ts : List Task) (e : List (Nat × Task)) (a : Nat) :
    count a (fwdUids (workFilter ps e ts).2.1) + count a (earlyUids (workFilter ps e ts).1)
        + count a (uids (workFilter ps e ts).2.2)
      = count a (earlyUids e) + count a (uids ts) := by
  induction ts generalizing e with
  | nil => simp [workFilter, uids]
  | cons t ts ih =>
    unfold workFilter
    cases hp : t.pilot with
    | none =>
      simp only
      have h := ih e
      rcases hw : workFilter ps e ts with ⟨e', outs, rest⟩
      rw [hw] at h
      simp only [uids, map_cons, count_cons] at h ⊢
      omega
    | some pid =>
      simp only
      by_cases hk : isKnown ps pid = true
      · rw [if_pos hk]
        have h := ih e
        rcases hw : workFilter ps e ts with ⟨e', outs, rest⟩
        rw [hw] at h
        simp only [fwdUids_cons_fwd, uids, map_cons, count_cons] at h ⊢
        omega
      · rw [if_neg hk]
        have h := ih (e ++ [(pid, t)])
        rcases hw : workFilter ps (e ++ [(pid, t)]) ts with ⟨e', outs, rest⟩
        rw [hw] at h
        simp only [earlyUids, map_append, map_cons, map_nil, uids, count_append, count_cons, count_nil] at h ⊢
        omega


def newUids : Op → List Nat
  | .work ts => uids ts
  | _        => []

theorem rrStep_conserve (s : S) (op : Op) (a : Nat) :
    count a (fwdUids (rrStep s op).2.1) + count a (held (rrStep s op).1)
      = count a (held s) + count a (newUids op) := by
  cases op with
  | addPilots pids cores =>
    simp only [rrStep, rrAddPilots, newUids, count_nil, Nat.add_zero]
    rcases hm : markAdded s.pilots pids with ⟨ps, e⟩
    cases e with
    | some e => simp [held]
    | none =>
      simp only
      have hf := flushEarly_conserve pids s.early a
      rcases hfe : flushEarly s.early pids with ⟨early', outs⟩
      rw [hfe] at hf
      simp only at hf ⊢
      by_cases hw : s.wait = []
      · rw [if_pos hw]
        simp only [held, hw, uids, map_nil, count_append, count_nil] at hf ⊢
        omega
      · rw [if_neg hw]
        have hc := rrSchedule_conserve { s with pilots := ps, early := early', pids := s.pids ++ pids, wait := [] } s.wait a
        rcases hr : rrSchedule { s with pilots := ps, early := early', pids := s.pids ++ pids, wait := [] } s.wait with ⟨s', outs'⟩
        rw [hr] at hc
        obtain ⟨c1, c2, _, _⟩ := hc
        simp only at c1 c2 ⊢
        simp only [held, fwdUids_append, count_append, c2, uids, map_nil, count_nil] at c1 hf ⊢
        omega
  | removePilots pids =>
    simp only [rrStep, rrRemovePilots, newUids, count_nil, Nat.add_zero]
    rcases hm : markRemoved s.pilots pids with ⟨ps, e⟩
    cases e with
    | some e => simp [held]
    | none =>
      simp only
      rcases he : erasePids s.pids pids with ⟨pids', e'⟩
      simp [held]
  | pilotState pid v => simp [rrStep, newUids, held]
  | taskStates us => simp [rrStep, newUids]
  | work ts =>
    simp only [rrStep, rrWork, newUids]
    have hf := workFilter_conserve s.pilots ts s.early a
    rcases hwf : workFilter s.pilots s.early ts with ⟨early', outs, rest⟩
    rw [hwf] at hf
    simp only at hf ⊢
    by_cases hr : rest = []
    · rw [if_pos hr]
      subst hr
      simp only [held, fwdUids_append, fwdUids_sched, nil_append, count_append, uids, map_nil, count_nil] at hf ⊢
      omega
    · rw [if_neg hr]
      have hc := rrSchedule_conserve { s with early := early' } rest a
      rcases hs : rrSchedule { s with early := early' } rest with ⟨s', outs'⟩
      rw [hs] at hc
      obtain ⟨c1, c2, _, _⟩ := hc
      simp only at c1 c2 ⊢
      simp only [held, fwdUids_append, fwdUids_sched, nil_append, count_append, c2] at c1 hf ⊢
      omega

def allNew : List Op → List Nat
  | []        => []
  | op :: ops => newUids op ++ allNew ops

theorem rrRun_conserve (ops : List Op) (s : S) (a : Nat) :
    count a (fwdUids (rrRun s ops).2) + count a (held (rrRun s ops).1)
      = count a (held s) + count a (allNew ops) := by
  induction ops generalizing s with
  | nil => simp [rrRun, allNew]
  | cons op ops ih =>
    have h1 := rrStep_conserve s op a
    rcases hs : rrStep s op with ⟨s', outs, e⟩
    rw [hs] at h1
    have h2 := ih s'
    simp only [rrRun, hs]
    rcases hr : rrRun s' ops with ⟨s'', outs'⟩
    rw [hr] at h2
    simp only [allNew, fwdUids_append, count_append] at h1 h2 ⊢
    omega

/-! ### backfilling: who can receive a task -/

theorem bfPlace_mem (ps : List Pilot) (t : Task) (pids : List Nat) (ps' : List Pilot) (pid : Nat) (full : Bool)
    (h : bfPlace ps t pids = some (ps', pid, full)) :
    pid ∈ pids ∧ ∃ p, findPilot ps pid = some p ∧ p.used ≤ (p.hwm : Int) := by
  induction pids with
  | nil => simp [bfPlace] at h
  | cons x xs ih =>
    unfold bfPlace at h
    cases hf : findPilot ps x with
    | none =>
      rw [hf] at h
      have ⟨m, q⟩ := ih h
      exact ⟨mem_cons_of_mem _ m, q⟩
    | some p =>
      rw [hf] at h
      simp only at h
      by_cases hu : p.used ≤ (p.hwm : Int)
      · rw [if_pos hu] at h
        cases h
        exact ⟨mem_cons_self, p, hf, hu⟩
      · rw [if_neg hu] at h
        have ⟨m, q⟩ := ih h
        exact ⟨mem_cons_of_mem _ m, q⟩

theorem erase_subset (l : List Nat) (x : Nat) : ∀ y ∈ l.erase x, y ∈ l :=
  fun _ hy => List.mem_of_mem_erase hy

theorem bfLoop_pids (ts : List Task) (ps : List Pilot) (pids : List Nat) :
    ∀ p ∈ fwdPids (bfLoop ps pids ts).2.2, p ∈ pids := by
  induction ts generalizing ps pids with
  | nil => intro p hp; simp [bfLoop, fwdPids] at hp
  | cons t ts ih =>
    intro p hp
    unfold bfLoop at hp
    by_cases he : pids = []
    · rw [if_pos he] at hp
      rcases hl : bfLoop ps pids ts with ⟨ps', un, outs⟩
      rw [hl] at hp
      have := ih ps pids p (by rw [hl]; exact hp)
      exact this
    · rw [if_neg he] at hp
      cases hb : bfPlace ps t pids with
      | none =>
        rw [hb] at hp
        rcases hl : bfLoop ps pids ts with ⟨ps', un, outs⟩
        rw [hl] at hp
        exact ih ps pids p (by rw [hl]; exact hp)
      | some r =>
        obtain ⟨ps1, pid, full⟩ := r
        rw [hb] at hp
        simp only at hp
        rcases hl : bfLoop ps1 (if full then pids.erase pid else pids) ts with ⟨ps', un, outs⟩
        rw [hl] at hp
        simp only [fwdPids, filterMap_cons] at hp
        rcases mem_cons.mp hp with rfl | hp
        · exact (bfPlace_mem ps t pids ps1 p full hb).1
        · have := ih ps1 (if full then pids.erase pid else pids) p (by rw [hl]; exact hp)
          split at this
          · exact erase_subset _ _ _ this
          · exact this

end RPVerif.TmgrSched
