import RPVerif.Lemmas.SchedInv
/-!
The invariant of `Lemmas/SchedInv.lean` is kept by every step of the scheduling loop, for every
script of iterations: `_try_allocation`, `lazy_bisect`, `_schedule_waitpool`, `_schedule_incoming`,
`_unschedule_completed`, `_schedule_tasks`.
-/
namespace RPVerif.Sched
open List

/-- the invariant on a scheduler state: node map = initial map minus what is held, and the counter
    of active tasks is the number of held placements -/
def SInv (nodes0 : List NodeSt) (s : SchedSt) : Prop :=
  HInv nodes0 s.nodes s.held ∧ s.activeCnt = s.held.length

/-- the part of the state the invariant talks about is unchanged -/
def Same (s s' : SchedSt) : Prop := s'.nodes = s.nodes ∧ s'.held = s.held ∧ s'.activeCnt = s.activeCnt

theorem Same.refl (s : SchedSt) : Same s s := ⟨rfl, rfl, rfl⟩

theorem Same.trans {a b c : SchedSt} (h1 : Same a b) (h2 : Same b c) : Same a c :=
  ⟨h2.1.trans h1.1, h2.2.1.trans h1.2.1, h2.2.2.trans h1.2.2⟩

theorem SInv.of_same {nodes0 : List NodeSt} {s s' : SchedSt} (h : SInv nodes0 s) (hs : Same s s') : SInv nodes0 s' := by
  unfold SInv at *
  rw [hs.1, hs.2.1, hs.2.2]; exact h

/-! ### `schedule_task` -/

theorem nodeLoop_oob (c : Cfg) (nodes : List NodeSt) (r : Req) (cps spn req : Nat) (mpi : Bool)
    (colo : Option (List Nat)) (skip : List Nat) (count : Nat) (it : IterSt) (h : nodes[it.offset]? = none) :
    nodeLoop c nodes r cps spn req mpi colo skip count it = .ok it := by
  cases count with
  | zero => rfl
  | succ k => unfold nodeLoop; rw [h]

theorem finishTask_same (s : SchedSt) (r : Req) (it : IterSt) : Same s (finishTask s r it).2 := by
  unfold finishTask
  split
  · exact ⟨rfl, rfl, rfl⟩
  · split <;> exact ⟨rfl, rfl, rfl⟩

/-- `schedule_task` does not touch the node map, the held placements or the counter -/
theorem scheduleTask_same (c : Cfg) (s : SchedSt) (r : Req) : Same s (scheduleTask c s r).2 := by
  unfold scheduleTask
  split
  · exact Same.refl s
  · split
    · exact Same.refl s
    · split
      · exact ⟨rfl, rfl, rfl⟩
      · exact finishTask_same s r _

/-- what `schedule_task` returns can be placed on the current node map -/
theorem scheduleTask_placeable (c : Cfg) (s : SchedSt) (r : Req) (slots : List Slot)
    (hw : NodesWF s.nodes) (hnn : NonNeg s.nodes) (h : (scheduleTask c s r).1 = .ok (some slots)) :
    Placeable s.nodes slots := by
  unfold scheduleTask at h
  by_cases h1 : cpsOf r > c.cpn ∨ r.gpr > c.gpn * 16 ∨ r.lfs > c.lfsPn ∨ r.mem > c.memPn
  · rw [if_pos h1] at h; cases h
  · rw [if_neg h1] at h
    by_cases h2 : ¬ decide (r.ranks > 1) = true ∧ r.ranks.toNat > slotsPerNode c r (cpsOf r)
    · rw [if_pos h2] at h; cases h
    · rw [if_neg h2] at h
      have hcps : 0 < cpsOf r := by unfold cpsOf; split <;> omega
      cases hnl : nodeLoop c s.nodes r (cpsOf r) (slotsPerNode c r (cpsOf r)) r.ranks.toNat (decide (r.ranks > 1))
                    (coloOf s r) (skipOf s r) s.nodes.length { rem := r.ranks.toNat, offset := s.offset } with
      | error p => obtain ⟨e, off⟩ := p; rw [hnl] at h; cases h
      | ok it =>
        rw [hnl] at h
        simp only at h
        have hpl : Placeable s.nodes it.alc := by
          by_cases hoff : s.offset < s.nodes.length
          · refine nodeLoop_placeable c s.nodes r _ _ _ _ _ _ hw hnn hcps s.offset s.nodes.length 0 _ it (by omega) ?_ hnl
            refine ⟨?_, placeable_nil s.nodes hnn, fun sl hs => by cases hs⟩
            show s.offset = (s.offset + 0) % s.nodes.length
            rw [Nat.add_zero, Nat.mod_eq_of_lt hoff]
          · have hnone : s.nodes[s.offset]? = none := by
              rw [List.getElem?_eq_none_iff]; omega
            rw [nodeLoop_oob c s.nodes r _ _ _ _ _ _ _ _ hnone] at hnl
            injection hnl with hnl; subst hnl
            exact placeable_nil s.nodes hnn
        unfold finishTask at h
        split at h
        · cases h
        · split at h
          · simp only [Except.ok.injEq, Option.some.injEq] at h; subst h; exact hpl
          · simp only [Except.ok.injEq, Option.some.injEq] at h; subst h; exact hpl

/-! ### `_try_allocation` -/

theorem placeable_changes (nodes : List NodeSt) (slots : List Slot) (hp : Placeable nodes slots) :
    ∃ ns, changeSlotStates nodes slots true = some ns :=
  changeSlotStates_some slots true nodes hp.onNode

theorem tryAllocation_inv (c : Cfg) (nodes0 : List NodeSt) (s : SchedSt) (r : Req) (h : SInv nodes0 s) :
    SInv nodes0 (tryAllocation c s r).2 := by
  unfold tryAllocation
  have hsame := scheduleTask_same c s r
  have hpl := scheduleTask_placeable c s r
  rcases hst : scheduleTask c s r with ⟨res, s'⟩
  rw [hst] at hsame hpl
  simp only at hsame hpl
  have hs' : SInv nodes0 s' := h.of_same hsame
  cases res with
  | error e => exact hs'
  | ok o =>
    cases o with
    | none => simp only; split <;> exact hs'
    | some l =>
      cases l with
      | nil => simp only; split <;> exact hs'
      | cons x xs =>
        simp only
        have hw : NodesWF s.nodes := hinv_wf nodes0 s.nodes s.held h.1
        have hnn : NonNeg s.nodes := hinv_nonneg nodes0 s.nodes s.held h.1
        have hp : Placeable s'.nodes (x :: xs) := by rw [hsame.1]; exact hpl (x :: xs) hw hnn rfl
        obtain ⟨ns, hns⟩ := placeable_changes s'.nodes (x :: xs) hp
        rw [hns]
        simp only
        refine ⟨hinv_alloc nodes0 s'.nodes ns s'.held r.uid (x :: xs) hs'.1 hp hns, ?_⟩
        show s'.activeCnt + 1 = ((s'.held ++ [(r.uid, x :: xs)]).length : Int)
        rw [hs'.2, length_append]; simp

/-! ### `lazy_bisect`, `_schedule_waitpool` -/

theorem bisCheck_inv (c : Cfg) (nodes0 : List NodeSt) (data : List Req) (idx : Nat) (b : BisSt) (s : SchedSt)
    (h : SInv nodes0 s) : SInv nodes0 (bisCheck c data idx b s).2.2 := by
  unfold bisCheck
  split
  · exact h
  · rename_i r _
    have := tryAllocation_inv c nodes0 s r h
    split <;> simp_all

theorem bisLoop_inv (c : Cfg) (nodes0 : List NodeSt) (data : List Req) :
    ∀ (fuel : Nat) (b : BisSt) (s : SchedSt), SInv nodes0 s → SInv nodes0 (bisLoop c data fuel b s).2 := by
  intro fuel
  induction fuel with
  | zero => intro b s h; exact h
  | succ k ih =>
    intro b s h
    unfold bisLoop
    split
    · -- none, none
      have := bisCheck_inv c nodes0 data (data.length - 1) b s h
      split <;> (rename_i heq; rw [heq] at this; exact ih _ _ this)
    · -- some g, none
      split
      · exact h
      · split
        · exact ih _ _ h
        · split
          · exact ih _ _ h
          · rename_i _ _ g _ _ _ _ _
            have := bisCheck_inv c nodes0 data (g - 1) b s h
            split <;> (rename_i heq; rw [heq] at this; exact ih _ _ this)
    · -- _, some bad
      split
      · exact h
      · rename_i _ _ bad _ _
        have hmid : SInv nodes0
            (if bisIdx (resetGood b.lastGood bad) bad ∈ b.good then (true, b, s)
             else if bisIdx (resetGood b.lastGood bad) bad ∈ b.bad then (false, b, s)
             else bisCheck c data (bisIdx (resetGood b.lastGood bad) bad) b s).2.2 := by
          split
          · exact h
          · split
            · exact h
            · exact bisCheck_inv c nodes0 data _ b s h
        split
        · rename_i heq; rw [heq] at hmid
          split
          · exact ih _ _ hmid
          · split <;> exact ih _ _ hmid
        · rename_i heq; rw [heq] at hmid
          exact ih _ _ hmid

theorem lazyBisect_inv (c : Cfg) (nodes0 : List NodeSt) (data : List Req) (s : SchedSt) (h : SInv nodes0 s) :
    SInv nodes0 (lazyBisect c data s).2 := by
  unfold lazyBisect
  split
  · exact h
  · exact bisLoop_inv c nodes0 data _ _ s h

theorem waitpoolOne_inv (c : Cfg) (nodes0 : List NodeSt) (s : SchedSt) (p : Int) (h : SInv nodes0 s) :
    SInv nodes0 (waitpoolOne c s p).1 := by
  unfold waitpoolOne
  simp only
  split
  · exact h
  · split
    · exact h
    · have := lazyBisect_inv c nodes0
        (sortDesc (fun r => r.ranks * r.cpr * r.gpr)
          ((poolOf s.waitpool p).filter (envOk s.envs))) s h
      exact this.of_same ⟨rfl, rfl, rfl⟩

theorem scheduleWaitpool_inv (c : Cfg) (nodes0 : List NodeSt) (s : SchedSt) (h : SInv nodes0 s) :
    SInv nodes0 (scheduleWaitpool c s).1 := by
  unfold scheduleWaitpool
  have key : ∀ (ps : List Int) (acc : SchedSt × List Ev × Bool × Bool), SInv nodes0 acc.1 →
      SInv nodes0 (ps.foldl
        (fun (acc : SchedSt × List Ev × Bool × Bool) p =>
          match waitpoolOne c acc.1 p with
          | (s', evs, act, unsched) => (s', acc.2.1 ++ evs, acc.2.2.1 && !unsched, acc.2.2.2 || act)) acc).1 := by
    intro ps
    induction ps with
    | nil => intro acc h; exact h
    | cons p ps ih =>
      intro acc h
      rw [foldl_cons]
      apply ih
      have := waitpoolOne_inv c nodes0 acc.1 p h
      split
      rename_i heq
      rw [heq] at this
      exact this
  exact key _ _ h

/-! ### `_schedule_incoming` -/

theorem cancelFold_same (uids : List Nat) :
    ∀ (acc : SchedSt × List Ev),
      Same acc.1 (uids.foldl (fun (acc : SchedSt × List Ev) uid =>
          match removeFromPools acc.1.waitpool uid with
          | (wp, some t) => ({ acc.1 with waitpool := wp }, acc.2 ++ [Ev.adv t.uid "CANCELED"])
          | (_,  none)   => acc) acc).1 := by
  induction uids with
  | nil => intro acc; exact Same.refl _
  | cons u us ih =>
    intro acc
    rw [foldl_cons]
    refine Same.trans ?_ (ih _)
    split
    · exact ⟨rfl, rfl, rfl⟩
    · exact Same.refl _

theorem drainIncoming_same (msgs : List Msg) :
    ∀ (s : SchedSt) (toSched : List Req) (evs : List Ev), Same s (drainIncoming s msgs toSched evs).1 := by
  induction msgs with
  | nil => intro s _ _; exact Same.refl s
  | cons m ms ih =>
    intro s toSched evs
    cases m with
    | sched ts => unfold drainIncoming; exact ih _ _ _
    | cancel uids =>
      unfold drainIncoming
      simp only
      exact Same.trans (cancelFold_same uids (s, [])) (ih _ _ _)

theorem incomingOne_inv (c : Cfg) (nodes0 : List NodeSt) (ts : List Req) :
    ∀ (s : SchedSt) (toWait : List Req) (evs : List Ev), SInv nodes0 s → SInv nodes0 (incomingOne c s ts toWait evs).1 := by
  induction ts with
  | nil => intro s _ _ h; exact h
  | cons t ts ih =>
    intro s toWait evs h
    unfold incomingOne
    split
    · exact ih _ _ _ h
    · have htry := tryAllocation_inv c nodes0 s t h
      split
      · split
        · exact ih _ _ _ (h.of_same ⟨rfl, rfl, rfl⟩)
        · split <;> (rename_i heq; rw [heq] at htry; exact ih _ _ _ htry)
      · split <;> (rename_i heq; rw [heq] at htry; exact ih _ _ _ htry)

theorem parkTasks_same (p : Int) (ts : List Req) :
    ∀ (s : SchedSt) (evs : List Ev), Same s (parkTasks p s ts evs).1 := by
  induction ts with
  | nil => intro s _; exact Same.refl s
  | cons t ts ih =>
    intro s evs
    unfold parkTasks
    split
    · exact Same.trans ⟨rfl, rfl, rfl⟩ (ih _ _)
    · exact Same.trans ⟨rfl, rfl, rfl⟩ (ih _ _)

theorem scheduleIncoming_inv (c : Cfg) (nodes0 : List NodeSt) (s : SchedSt) (msgs : List Msg) (h : SInv nodes0 s) :
    SInv nodes0 (scheduleIncoming c s msgs).1 := by
  unfold scheduleIncoming
  have hd := drainIncoming_same msgs s [] []
  rcases hdr : drainIncoming s msgs [] [] with ⟨s1, toSched, evs⟩
  rw [hdr] at hd
  simp only at hd ⊢
  have h1 : SInv nodes0 s1 := h.of_same hd
  split
  · exact h1
  · simp only
    have key : ∀ (ps : List Int) (acc : SchedSt × List Ev × Bool), SInv nodes0 acc.1 →
        SInv nodes0 (ps.foldl
          (fun (acc : SchedSt × List Ev × Bool) p =>
            match incomingOne c acc.1 (sortDesc (fun r => r.ranks) (toSched.filter (fun t => t.prio = p))) [] [] with
            | (s2, toWait, evs2) =>
              match parkTasks p s2 toWait [] with
              | (s3, evs3) => (s3, acc.2.1 ++ evs2 ++ evs3, toWait = [])) acc).1 := by
      intro ps
      induction ps with
      | nil => intro acc h; exact h
      | cons p ps ih =>
        intro acc h
        rw [foldl_cons]
        apply ih
        have h2 := incomingOne_inv c nodes0 (sortDesc (fun r => r.ranks) (toSched.filter (fun t => t.prio = p))) acc.1 [] [] h
        split
        rename_i s2 toWait evs2 heq
        rw [heq] at h2
        have h3 := parkTasks_same p toWait s2 []
        split
        rename_i s3 evs3 heq3
        rw [heq3] at h3
        exact h2.of_same h3
    exact key _ _ h1

/-! ### `_unschedule_completed` -/

theorem releaseOne_given (s : SchedSt) (u : Nat) : (releaseOne s u).given = s.given := by
  unfold releaseOne
  split
  · rfl
  · split <;> rfl

theorem releaseFold_inv (nodes0 : List NodeSt) (uids : List Nat) :
    ∀ (s : SchedSt), HInv nodes0 s.nodes s.held → relOK s.given s.held uids = true →
      HInv nodes0 (uids.foldl releaseOne s).nodes (uids.foldl releaseOne s).held
      ∧ ((uids.foldl releaseOne s).held.length + uids.length = s.held.length)
      ∧ (uids.foldl releaseOne s).activeCnt = s.activeCnt := by
  induction uids with
  | nil => intro s h _; exact ⟨h, rfl, rfl⟩
  | cons u us ih =>
    intro s h hok
    rw [foldl_cons]
    unfold relOK at hok
    cases hf : s.given.find? (fun e => e.1 = u) with
    | none => rw [hf] at hok; cases hok
    | some e =>
      rw [hf] at hok
      simp only [Bool.and_eq_true, decide_eq_true_eq] at hok
      obtain ⟨he, hrest⟩ := hok
      -- releasing `e` succeeds because its slots lie on nodes of the map
      have hon : ∀ sl ∈ e.2, ∃ n ∈ s.nodes, n.index = sl.node := by
        intro sl hsl
        obtain ⟨n0, hn0, hi⟩ := h.onNode sl (mem_flatMap.mpr ⟨e, he, hsl⟩)
        obtain ⟨i, hi0⟩ := getElem?_of_mem hn0
        have hlt : i < s.nodes.length := by rw [h.len]; exact (List.getElem?_eq_some_iff.mp hi0).1
        refine ⟨s.nodes[i], getElem_mem hlt, ?_⟩
        rw [(h.node i n0 s.nodes[i] hi0 (getElem?_eq_getElem hlt)).idx]; exact hi
      obtain ⟨ns, hns⟩ := changeSlotStates_some e.2 false s.nodes hon
      have hstep : releaseOne s u = { s with nodes := ns, held := s.held.erase e } := by
        unfold releaseOne; rw [hf]; simp only; rw [hns]
      have h' := hinv_release nodes0 s.nodes ns s.held e h he hns
      rw [hstep]
      have := ih { s with nodes := ns, held := s.held.erase e } h' hrest
      refine ⟨this.1, ?_, this.2.2⟩
      have hl : (s.held.erase e).length = s.held.length - 1 := length_erase_of_mem he
      have hpos : 0 < s.held.length := length_pos_of_mem he
      have := this.2.1
      simp only [length_cons] at *
      omega

theorem unscheduleCompleted_inv (nodes0 : List NodeSt) (s : SchedSt) (msgs : List (List Nat)) (h : SInv nodes0 s)
    (hok : relOK s.given s.held (drained s msgs) = true) :
    SInv nodes0 (unscheduleCompleted s msgs).1 := by
  unfold unscheduleCompleted
  unfold drained at hok
  rcases hd : drainUnsched (s.unschedQ ++ msgs) [] with ⟨uids, rest⟩
  rw [hd] at hok
  simp only at hok ⊢
  split
  · exact h.of_same ⟨rfl, rfl, rfl⟩
  · have := releaseFold_inv nodes0 uids { s with activeCnt := s.activeCnt - uids.length, unschedQ := rest } h.1 hok
    refine ⟨this.1, ?_⟩
    rw [this.2.2]
    have hl := this.2.1
    simp only at hl ⊢
    have hcnt := h.2
    omega

/-! ### the loop -/

theorem loopIterA_inv (c : Cfg) (nodes0 : List NodeSt) (s : SchedSt) (res : Bool) (it : Iter) (h : SInv nodes0 s) :
    SInv nodes0 (loopIterA c s res it).1 := by
  unfold loopIterA
  have h0 : SInv nodes0 { s with cancel := s.cancel ++ it.marks, envs := s.envs ++ it.envs } := h.of_same ⟨rfl, rfl, rfl⟩
  cases res with
  | true =>
    have hw := scheduleWaitpool_inv c nodes0 _ h0
    have := scheduleIncoming_inv c nodes0 _ it.incoming hw
    simpa using this
  | false =>
    have := scheduleIncoming_inv c nodes0 _ it.incoming h0
    simpa using this

/-- every iteration's release messages are well formed (see `relOK`), along the run -/
def RunOK (c : Cfg) (s : SchedSt) (res : Bool) (its : List Iter) : Prop := runOK c s res its = true

theorem runOK_cons (c : Cfg) (s : SchedSt) (res : Bool) (it : Iter) (its : List Iter) (h : RunOK c s res (it :: its)) :
    relOK (loopIterA c s res it).1.given (loopIterA c s res it).1.held (drained (loopIterA c s res it).1 it.unsched) = true
    ∧ RunOK c (loopIter c s res it).1 (loopIter c s res it).2.1 its := by
  unfold RunOK at *
  unfold runOK at h
  simpa using h

theorem loopIter_inv (c : Cfg) (nodes0 : List NodeSt) (s : SchedSt) (res : Bool) (it : Iter) (h : SInv nodes0 s)
    (hok : relOK (loopIterA c s res it).1.given (loopIterA c s res it).1.held (drained (loopIterA c s res it).1 it.unsched) = true) :
    SInv nodes0 (loopIter c s res it).1 := by
  unfold loopIter
  have hA := loopIterA_inv c nodes0 s res it h
  rcases hl : loopIterA c s res it with ⟨s2, res1, evs⟩
  rw [hl] at hA hok
  simp only at hA hok ⊢
  exact unscheduleCompleted_inv nodes0 s2 it.unsched hA hok

theorem runLoop_inv (c : Cfg) (nodes0 : List NodeSt) (its : List Iter) :
    ∀ (s : SchedSt) (res : Bool) (acc : List (List Ev)), SInv nodes0 s → RunOK c s res its →
      SInv nodes0 (runLoop c s res its acc).1 := by
  induction its with
  | nil => intro s _ _ h _; exact h
  | cons it its ih =>
    intro s res acc h hok
    unfold runLoop
    have h1 := loopIter_inv c nodes0 s res it h (runOK_cons c s res it its hok).1
    have h2 := (runOK_cons c s res it its hok).2
    rcases hl : loopIter c s res it with ⟨s', res', evs⟩
    rw [hl] at h1 h2
    exact ih s' res' _ h1 h2

end RPVerif.Sched
