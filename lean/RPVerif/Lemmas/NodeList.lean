import RPVerif.Model.NodeList
/-! lemmas about the application-level slot finder -/
namespace RPVerif.NodeList
open List

/-- what a list of (index, occupation) pairs charges to position `j` -/
def charge (t : List (Nat × Nat)) (j : Nat) : Int :=
  t.foldl (fun a e => if e.1 = j then a + (e.2 : Int) else a) 0

theorem charge_nil (j : Nat) : charge [] j = 0 := rfl

theorem foldl_charge_init (t : List (Nat × Nat)) (j : Nat) (a : Int) :
    t.foldl (fun a e => if e.1 = j then a + (e.2 : Int) else a) a = a + charge t j := by
  induction t generalizing a with
  | nil => simp [charge]
  | cons e es ih =>
    unfold charge
    simp only [foldl_cons]
    rw [ih, ih (if e.1 = j then 0 + (e.2 : Int) else 0)]
    split <;> omega

theorem charge_cons (e : Nat × Nat) (es : List (Nat × Nat)) (j : Nat) :
    charge (e :: es) j = (if e.1 = j then (e.2 : Int) else 0) + charge es j := by
  unfold charge
  simp only [foldl_cons]
  rw [foldl_charge_init]
  split <;> simp [charge]

/-- `allocate` / `deallocate` add / subtract exactly the charge of the slot, position by position;
    DOWN entries stay DOWN -/
theorem addOcc_get (t : List (Nat × Nat)) (sign : Int) : ∀ (l : List (Option Int)) (j : Nat),
    (addOcc l t sign)[j]? = (l[j]?).map (bump (sign * charge t j)) := by
  induction t with
  | nil =>
    intro l j
    simp only [addOcc, foldl_nil, charge_nil, Int.mul_zero]
    cases l[j]? with
    | none => rfl
    | some o => cases o <;> simp [bump]
  | cons e es ih =>
    intro l j
    have := ih (l.modify e.1 (bump (sign * e.2))) j
    simp only [addOcc, foldl_cons] at this ⊢
    rw [this, getElem?_modify, charge_cons]
    cases hl : l[j]? with
    | none => simp
    | some o =>
      cases o with
      | none => by_cases h : e.1 = j <;> simp [h, bump]
      | some v =>
        by_cases h : e.1 = j
        · simp only [h, if_true, Option.map_some, Functor.map, bump]
          congr 2
          rw [Int.mul_add]; omega
        · simp [h, bump]

theorem addOcc_length (t : List (Nat × Nat)) (sign : Int) (l : List (Option Int)) : (addOcc l t sign).length = l.length := by
  induction t generalizing l with
  | nil => rfl
  | cons e es ih => simp only [addOcc, foldl_cons] at ih ⊢; rw [ih]; simp

theorem addOcc_cancel (t : List (Nat × Nat)) (l : List (Option Int)) : addOcc (addOcc l t 1) t (-1) = l := by
  apply ext_getElem?
  intro j
  rw [addOcc_get, addOcc_get]
  cases l[j]? with
  | none => rfl
  | some o =>
    cases o with
    | none => rfl
    | some v => simp only [Option.map_some, bump]; congr 2; omega

/-- **giving a slot back restores precisely what was taken** (one node) -/
theorem deallocate_allocate (n : ANode) (s : ASlot) : deallocate (allocate n s) s = n := by
  cases n with
  | mk index cores gpus lfs mem =>
    simp only [allocate, deallocate, addOcc_cancel]
    congr 1 <;> omega

/-- what the scan of `find_slot` returns: strictly increasing positions from `i` on, each not DOWN
    and with room for `occ`, each charged with `occ`; at most `need` of them -/
theorem scan_spec (occ : Nat) (l : List (Option Int)) : ∀ (i need : Nat),
    ((scan occ l i need).map (·.1)).Pairwise (· < ·)
    ∧ (∀ e ∈ scan occ l i need, i ≤ e.1 ∧ e.2 = occ ∧ ∃ v, l[e.1 - i]? = some (some v) ∧ (occ : Int) ≤ 16 - v)
    ∧ (scan occ l i need).length ≤ need := by
  induction l with
  | nil => intro i need; cases need <;> simp [scan]
  | cons o os ih =>
    intro i need
    cases need with
    | zero => simp [scan]
    | succ need =>
      cases o with
      | none =>
        simp only [scan]
        obtain ⟨h1, h2, h3⟩ := ih (i + 1) (need + 1)
        refine ⟨h1, ?_, h3⟩
        intro e he
        obtain ⟨a, b, v, hv, hb⟩ := h2 e he
        refine ⟨by omega, b, v, ?_, hb⟩
        have : e.1 - i = (e.1 - (i + 1)) + 1 := by omega
        rw [this]; simpa using hv
      | some v =>
        simp only [scan]
        split
        · rename_i hroom
          obtain ⟨h1, h2, h3⟩ := ih (i + 1) need
          refine ⟨?_, ?_, by simp; omega⟩
          · simp only [map_cons, pairwise_cons]
            refine ⟨?_, h1⟩
            intro x hx
            obtain ⟨e, he, rfl⟩ := mem_map.mp hx
            have := (h2 e he).1; omega
          · intro e he
            rcases mem_cons.mp he with rfl | he
            · exact ⟨Nat.le_refl _, rfl, v, by simp, hroom⟩
            · obtain ⟨a, b, w, hw, hb⟩ := h2 e he
              refine ⟨by omega, b, w, ?_, hb⟩
              have : e.1 - i = (e.1 - (i + 1)) + 1 := by omega
              rw [this]; simpa using hw
        · obtain ⟨h1, h2, h3⟩ := ih (i + 1) (need + 1)
          refine ⟨h1, ?_, h3⟩
          intro e he
          obtain ⟨a, b, w, hw, hb⟩ := h2 e he
          refine ⟨by omega, b, w, ?_, hb⟩
          have : e.1 - i = (e.1 - (i + 1)) + 1 := by omega
          rw [this]; simpa using hw

/-- positions picked by a scan are charged once -/
theorem charge_of_scan (t : List (Nat × Nat)) (occ : Nat) (hinc : (t.map (·.1)).Pairwise (· < ·)) (hocc : ∀ e ∈ t, e.2 = occ) (j : Nat) :
    charge t j = if j ∈ t.map (·.1) then (occ : Int) else 0 := by
  induction t with
  | nil => simp [charge_nil]
  | cons e es ih =>
    rw [charge_cons]
    have hpc : (e.1 :: es.map (·.1)).Pairwise (· < ·) := hinc
    have hinc' := (pairwise_cons.mp hpc).2
    have hlt := (pairwise_cons.mp hpc).1
    have hocc' : ∀ x ∈ es, x.2 = occ := fun x hx => hocc x (mem_cons_of_mem _ hx)
    rw [ih hinc' hocc']
    by_cases h : e.1 = j
    · have hnot : j ∉ es.map (·.1) := by
        intro hj; have := hlt j hj; omega
      simp [h, hnot, hocc e mem_cons_self]
    · have hne : ¬ j = e.1 := fun x => h x.symm
      have hm : (j ∈ (e :: es).map (·.1)) ↔ (j ∈ es.map (·.1)) := by
        simp only [map_cons, mem_cons, hne, false_or]
      simp only [h, if_false, Int.zero_add]
      by_cases hj : j ∈ es.map (·.1)
      · rw [if_pos hj, if_pos (hm.mpr hj)]
      · rw [if_neg hj, if_neg (fun x => hj (hm.mp x))]

end RPVerif.NodeList

namespace RPVerif.NodeList
open List

/-- what `Node.find_slot` returns -/
theorem findSlot_spec (n n' : ANode) (rr : RR) (s : ASlot) (h : findSlot n rr = some (s, n')) :
    n' = allocate n s ∧ s = mkSlot n rr
    ∧ s.cores.length = rr.nCores ∧ s.gpus.length = rr.nGpus
    ∧ (rr.lfs ≠ 0 → (rr.lfs : Int) ≤ n.lfs) ∧ (rr.mem ≠ 0 → (rr.mem : Int) ≤ n.mem) := by
  unfold findSlot at h
  by_cases h1 : rr.nCores ≠ 0 ∧ (pickCores n rr).length < rr.nCores
  · rw [if_pos h1] at h; cases h
  rw [if_neg h1] at h
  by_cases h2 : rr.nGpus ≠ 0 ∧ (pickGpus n rr).length < rr.nGpus
  · rw [if_pos h2] at h; cases h
  rw [if_neg h2] at h
  by_cases h3 : rr.lfs ≠ 0 ∧ n.lfs < rr.lfs
  · rw [if_pos h3] at h; cases h
  rw [if_neg h3] at h
  by_cases h4 : rr.mem ≠ 0 ∧ n.mem < rr.mem
  · rw [if_pos h4] at h; cases h
  rw [if_neg h4] at h
  injection h with h
  injection h with hs hn
  subst hs; subst hn
  refine ⟨rfl, rfl, ?_, ?_, ?_, ?_⟩
  · simp only [mkSlot, pickCores]
    by_cases hc : rr.nCores = 0
    · simp [hc]
    · have hle := (scan_spec rr.coreOcc n.cores 0 rr.nCores).2.2
      have : ¬ (pickCores n rr).length < rr.nCores := fun x => h1 ⟨hc, x⟩
      simp only [pickCores, ne_eq, hc, not_false_eq_true, if_true] at this ⊢
      omega
  · simp only [mkSlot, pickGpus]
    by_cases hg : rr.nGpus = 0
    · simp [hg]
    · have hle := (scan_spec rr.gpuOcc n.gpus 0 rr.nGpus).2.2
      have : ¬ (pickGpus n rr).length < rr.nGpus := fun x => h2 ⟨hg, x⟩
      simp only [pickGpus, ne_eq, hg, not_false_eq_true, if_true] at this ⊢
      omega
  · intro hl
    have : ¬ (n.lfs < (rr.lfs : Int)) := fun x => h3 ⟨hl, x⟩
    omega
  · intro hm
    have : ¬ (n.mem < (rr.mem : Int)) := fun x => h4 ⟨hm, x⟩
    omega

/-- no core and no GPU of the node is occupied beyond one whole -/
def OccBound (n : ANode) : Prop :=
  (∀ (i : Nat) (v : Int), n.cores[i]? = some (some v) → v ≤ 16) ∧ (∀ (i : Nat) (v : Int), n.gpus[i]? = some (some v) → v ≤ 16)

theorem scan_bound (occ : Nat) (l : List (Option Int)) (need : Nat) (hb : ∀ (i : Nat) (v : Int), l[i]? = some (some v) → v ≤ 16) :
    ∀ (i : Nat) (v : Int), (addOcc l (scan occ l 0 need) 1)[i]? = some (some v) → v ≤ 16 := by
  intro i v hv
  obtain ⟨hinc, hmem, _⟩ := scan_spec occ l 0 need
  rw [addOcc_get, charge_of_scan _ occ hinc (fun e he => (hmem e he).2.1)] at hv
  cases hl : l[i]? with
  | none => rw [hl] at hv; cases hv
  | some o =>
    rw [hl] at hv
    cases o with
    | none => simp [bump] at hv
    | some w =>
      simp only [Option.map_some, bump, Option.some.injEq, Int.one_mul] at hv
      by_cases hi : i ∈ (scan occ l 0 need).map (·.1)
      · obtain ⟨e, he, rfl⟩ := mem_map.mp hi
        obtain ⟨_, _, u, hu, hroom⟩ := hmem e he
        simp only [Nat.sub_zero] at hu
        rw [hl] at hu
        have : u = w := by simpa using hu.symm
        subst this
        rw [if_pos hi] at hv
        omega
      · rw [if_neg hi] at hv
        have := hb i w hl
        omega

theorem findSlot_bound (n n' : ANode) (rr : RR) (s : ASlot) (hb : OccBound n) (h : findSlot n rr = some (s, n')) : OccBound n' := by
  obtain ⟨hn, hs, _⟩ := findSlot_spec n n' rr s h
  subst hn; subst hs
  refine ⟨?_, ?_⟩
  · intro i v hv
    simp only [allocate, mkSlot, pickCores] at hv
    by_cases h0 : rr.nCores = 0
    · simp only [ne_eq, h0, not_true_eq_false, if_false, addOcc, foldl_nil] at hv
      exact hb.1 i v hv
    · simp only [ne_eq, h0, not_false_eq_true, if_true] at hv
      exact scan_bound rr.coreOcc n.cores rr.nCores hb.1 i v hv
  · intro i v hv
    simp only [allocate, mkSlot, pickGpus] at hv
    by_cases h0 : rr.nGpus = 0
    · simp only [ne_eq, h0, not_true_eq_false, if_false, addOcc, foldl_nil] at hv
      exact hb.2 i v hv
    · simp only [ne_eq, h0, not_false_eq_true, if_true] at hv
      exact scan_bound rr.gpuOcc n.gpus rr.nGpus hb.2 i v hv

theorem charge_nonneg (t : List (Nat × Nat)) (j : Nat) : 0 ≤ charge t j := by
  induction t with
  | nil => simp [charge_nil]
  | cons e es ih => rw [charge_cons]; split <;> omega

theorem deallocate_bound (n : ANode) (s : ASlot) (hb : OccBound n) : OccBound (deallocate n s) := by
  refine ⟨?_, ?_⟩
  · intro i v hv
    simp only [deallocate] at hv
    rw [addOcc_get] at hv
    cases hl : n.cores[i]? with
    | none => rw [hl] at hv; cases hv
    | some o =>
      rw [hl] at hv
      cases o with
      | none => simp [bump] at hv
      | some w =>
        simp only [Option.map_some, bump, Option.some.injEq] at hv
        have := hb.1 i w hl
        have := charge_nonneg s.cores i
        omega
  · intro i v hv
    simp only [deallocate] at hv
    rw [addOcc_get] at hv
    cases hl : n.gpus[i]? with
    | none => rw [hl] at hv; cases hv
    | some o =>
      rw [hl] at hv
      cases o with
      | none => simp [bump] at hv
      | some w =>
        simp only [Option.map_some, bump, Option.some.injEq] at hv
        have := hb.2 i w hl
        have := charge_nonneg s.gpus i
        omega

def AllBound (nodes : List ANode) : Prop := ∀ n ∈ nodes, OccBound n

theorem fillNode_bound (rr : RR) : ∀ (fuel : Nat) (n : ANode) (need : Nat), OccBound n → OccBound (fillNode rr fuel n need).2 := by
  intro fuel
  induction fuel with
  | zero => intro n need h; simpa [fillNode] using h
  | succ fuel ih =>
    intro n need h
    cases need with
    | zero => simpa [fillNode] using h
    | succ need =>
      simp only [fillNode]
      cases hf : findSlot n rr with
      | none => simpa using h
      | some p =>
        obtain ⟨s, n'⟩ := p
        simp only
        exact ih n' need (findSlot_bound n n' rr s h hf)

theorem allBound_set (nodes : List ANode) (pos : Nat) (n : ANode) (h : AllBound nodes) (hn : OccBound n) : AllBound (setNode nodes pos n) := by
  intro m hm
  unfold setNode at hm
  rcases mem_or_eq_of_mem_set hm with h1 | h1
  · exact h m h1
  · rw [h1]; exact hn

theorem fillLoop_bound (rr : RR) (start : Int) (need : Nat) : ∀ (count i : Nat) (nodes : List ANode) (acc : List ASlot),
    AllBound nodes → AllBound (fillLoop rr start need count i nodes acc).2.1 := by
  intro count
  induction count with
  | zero => intro i nodes acc h; simpa [fillLoop] using h
  | succ count ih =>
    intro i nodes acc h
    simp only [fillLoop]
    cases hn : nodes[((start + ↑i) % (nodes.length : Int)).toNat]? with
    | none => simpa using h
    | some node =>
      simp only
      have hnb : OccBound node := h node (mem_of_getElem? hn)
      have hfb := fillNode_bound rr (16 * node.cores.length + 1) node (need - acc.length) hnb
      rcases hfn : fillNode rr (16 * node.cores.length + 1) node (need - acc.length) with ⟨got, node'⟩
      rw [hfn] at hfb
      simp only
      split
      · exact allBound_set nodes _ node' h hfb
      · exact ih (i + 1) _ _ (allBound_set nodes _ node' h hfb)

theorem releaseAll_bound (slots : List ASlot) : ∀ nodes, AllBound nodes → AllBound (releaseAll nodes slots) := by
  induction slots with
  | nil => intro nodes h; simpa [releaseAll] using h
  | cons s ss ih =>
    intro nodes h
    simp only [releaseAll]
    apply ih
    cases hn : nodes[s.node]? with
    | none => simpa using h
    | some n => exact allBound_set nodes _ _ h (deallocate_bound n s (h n (mem_of_getElem? hn)))

/-- **for every history of requests and releases** (whatever is released, in whatever order): no core
    and no GPU of any node is ever occupied beyond one whole -/
theorem findSlots_bound (l : NL) (rr : RR) (n : Nat) (h : AllBound l.nodes) : AllBound (findSlots l rr n).2.nodes := by
  unfold findSlots
  cases assertRR l rr n with
  | some e => simpa using h
  | none =>
    simp only
    by_cases hc : cacheHit l rr n = true
    · rw [if_pos hc]; exact h
    · rw [if_neg hc]
      have hf := fillLoop_bound rr l.index n l.nodes.length 0 l.nodes [] h
      rcases hfl : fillLoop rr l.index n l.nodes.length 0 l.nodes [] with ⟨slots, nodes, stop⟩
      rw [hfl] at hf
      cases stop with
      | some st => exact hf
      | none => exact releaseAll_bound slots nodes hf

theorem releaseSlots_bound (l : NL) (slots : List ASlot) (h : AllBound l.nodes) : AllBound (releaseSlots l slots).nodes := by
  unfold releaseSlots
  exact releaseAll_bound slots l.nodes h

/-! ### application-supplied slots -/

theorem charge_notin (t : List (Nat × Nat)) (j : Nat) (h : j ∉ t.map (·.1)) : charge t j = 0 := by
  induction t with
  | nil => rfl
  | cons e es ih =>
    rw [charge_cons]
    have h1 : ¬ e.1 = j := by intro x; apply h; simp [x]
    have h2 : j ∉ es.map (·.1) := by intro x; apply h; simp only [map_cons, mem_cons]; exact Or.inr x
    rw [if_neg h1, ih h2]; rfl

theorem charge_nodup (t : List (Nat × Nat)) (hn : (t.map (·.1)).Nodup) (e : Nat × Nat) (he : e ∈ t) : charge t e.1 = e.2 := by
  induction t with
  | nil => cases he
  | cons x xs ih =>
    rw [charge_cons]
    have hn' := nodup_cons.mp hn
    rcases mem_cons.mp he with h | h
    · subst h
      rw [if_pos rfl, charge_notin xs e.1 hn'.1]; omega
    · have hne : ¬ x.1 = e.1 := by
        intro heq
        apply hn'.1
        exact mem_map.mpr ⟨e, h, heq.symm⟩
      rw [if_neg hne, ih hn'.2 h]; omega

theorem roomFor_bound (l : List (Option Int)) (t : List (Nat × Nat)) (hn : (t.map (·.1)).Nodup) (hr : roomFor l t = true)
    (hb : ∀ (i : Nat) (v : Int), l[i]? = some (some v) → v ≤ 16) :
    ∀ (i : Nat) (v : Int), (addOcc l t 1)[i]? = some (some v) → v ≤ 16 := by
  intro i v hv
  rw [addOcc_get] at hv
  cases hl : l[i]? with
  | none => rw [hl] at hv; cases hv
  | some o =>
    rw [hl] at hv
    cases o with
    | none => simp [bump] at hv
    | some w =>
      simp only [Option.map_some, bump, Option.some.injEq, Int.one_mul] at hv
      by_cases hi : i ∈ t.map (·.1)
      · obtain ⟨e, he, rfl⟩ := mem_map.mp hi
        have hroom := all_eq_true.mp hr e he
        rw [hl] at hroom
        simp only [decide_eq_true_eq] at hroom
        rw [charge_nodup t hn e he] at hv
        omega
      · rw [charge_notin t i hi] at hv
        have := hb i w hl
        omega

/-- a slot of the application that passes the checks of `allocate_slot` keeps every core and GPU of the
    node within one whole -/
theorem allocChecked_bound (n n' : ANode) (s : ASlot) (hw : slotWF s = true) (hb : OccBound n)
    (h : allocChecked n s = some n') : OccBound n' := by
  unfold allocChecked at h
  split at h
  · rename_i hc
    cases h
    simp only [slotWF, Bool.and_eq_true, decide_eq_true_eq] at hw
    exact ⟨roomFor_bound n.cores s.cores hw.1 hc.2.1 hb.1, roomFor_bound n.gpus s.gpus hw.2 hc.2.2.1 hb.2⟩
  · cases h

theorem allocApp_bound (l l' : NL) (pos : Nat) (s : ASlot) (hw : slotWF s = true) (hb : AllBound l.nodes)
    (h : allocApp l pos s = some l') : AllBound l'.nodes := by
  unfold allocApp at h
  cases hn : l.nodes[pos]? with
  | none => rw [hn] at h; cases h
  | some n =>
    rw [hn] at h
    simp only at h
    cases hc : allocChecked n s with
    | none => rw [hc] at h; cases h
    | some n' =>
      rw [hc] at h
      simp only [Option.some.injEq] at h
      subst h
      exact allBound_set l.nodes pos n' hb (allocChecked_bound n n' s hw (hb n (mem_of_getElem? hn)) hc)

/-! ### several application threads on one node -/

/-- with search and booking in one lock section, and releases inside the lock, every schedule of calls and releases
    from any number of threads is the same operations one after the other, in the order the lock let them in: same
    answers, same node -/
theorem crun_atomic (steps : List CStep) : ∀ (s : CState), s.pend = [] → s.rpend = [] →
    (crun true true s steps).node = (seqCalls s.node steps).1 ∧ (crun true true s steps).got = s.got ++ (seqCalls s.node steps).2
    ∧ (crun true true s steps).pend = [] := by
  induction steps with
  | nil => intro s hp _; simp [crun, seqCalls, hp]
  | cons st rest ih =>
    intro s hp hr
    cases st with
    | book k =>
      have e : cstep true true s (.book k) = s := by simp [cstep, hp]
      simp only [crun, List.foldl_cons, e, seqCalls]
      exact ih s hp hr
    | write k =>
      have e : cstep true true s (.write k) = s := by simp [cstep, hr]
      simp only [crun, List.foldl_cons, e, seqCalls]
      exact ih s hp hr
    | release k sl =>
      have e : cstep true true s (.release k sl) = { s with node := deallocate s.node sl } := by simp [cstep]
      simp only [crun, List.foldl_cons, e, seqCalls]
      exact ih { s with node := deallocate s.node sl } hp hr
    | call k rr =>
      simp only [crun, List.foldl_cons, seqCalls]
      cases hf : findSlot s.node rr with
      | none =>
        have e : cstep true true s (.call k rr) = { s with got := s.got ++ [(k, none)] } := by simp [cstep, hf]
        rw [e]
        have := ih { s with got := s.got ++ [(k, none)] } hp hr
        simp only [crun] at this
        refine ⟨this.1, ?_, this.2.2⟩
        rw [this.2.1]; simp
      | some p =>
        obtain ⟨sl, n'⟩ := p
        have e : cstep true true s (.call k rr) = { s with node := n', got := s.got ++ [(k, some sl)] } := by simp [cstep, hf]
        rw [e]
        have := ih { s with node := n', got := s.got ++ [(k, some sl)] } hp hr
        simp only [crun] at this
        refine ⟨this.1, ?_, this.2.2⟩
        rw [this.2.1]; simp

theorem seqCalls_bound (steps : List CStep) : ∀ (n : ANode), OccBound n → OccBound (seqCalls n steps).1 := by
  induction steps with
  | nil => intro n h; exact h
  | cons st rest ih =>
    intro n h
    cases st with
    | book k => exact ih n h
    | write k => exact ih n h
    | release k sl => exact ih (deallocate n sl) (deallocate_bound n sl h)
    | call k rr =>
      simp only [seqCalls]
      cases hf : findSlot n rr with
      | none => exact ih n h
      | some p => exact ih p.2 (findSlot_bound n p.2 rr p.1 h (by rw [hf]))


end RPVerif.NodeList
