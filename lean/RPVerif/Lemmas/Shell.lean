import RPVerif.Model.Shell
import RPVerif.Model.Script
/-! helper lemmas for C10 -/
namespace RPVerif.Shell
open List

/-- no `$` and no backtick: nothing bash would expand inside double quotes -/
def NoExp (s : Str) : Prop := ∀ c ∈ s, c ≠ '$' ∧ c ≠ '`'

instance (s : Str) : Decidable (NoExp s) := by unfold NoExp; infer_instance

theorem plain_ne_space (c : Char) (h : plainChar c = true) : c ≠ ' ' ∧ c ≠ '"' := by
  constructor <;> (intro hc; subst hc; revert h; decide)

/-- a quoted string is read back as the string it was made from -/
theorem runc_escape (a : Str) (ha : NoExp a) : ∀ (cur : Str) (d : List Str) (rest : Str),
    runc { mode := .dquote, cur := cur, done := d } (escape a ++ '"' :: rest)
      = runc { mode := .afterQuote, cur := cur ++ a, done := d } rest := by
  induction a with
  | nil => intro cur d rest; simp [escape, runc, stepc]
  | cons c cs ih =>
    intro cur d rest
    have hcs : NoExp cs := fun x hx => ha x (mem_cons_of_mem _ hx)
    have hc := ha c mem_cons_self
    unfold escape
    by_cases h1 : c = '\\'
    · subst h1
      simp only [if_true, cons_append, runc, stepc]
      simp only [show ('\\' : Char) ≠ '"' by decide, if_false, if_true, Bool.or_true, Bool.true_or]
      have := ih hcs (cur ++ ['\\']) d rest
      simpa [runc, stepc] using this
    · by_cases h2 : c = '"'
      · subst h2
        simp only [h1, if_false, if_true, cons_append, runc, stepc]
        simp only [show ('"' : Char) ≠ '\\' by decide, show ('\\' : Char) ≠ '"' by decide, if_false, if_true]
        have := ih hcs (cur ++ ['"']) d rest
        simpa [runc, stepc] using this
      · simp only [h1, h2, if_false, cons_append, runc, stepc]
        have h3 : (c = '$' || c = '`') = false := by simp [hc.1, hc.2]
        simp only [h3, Bool.false_eq_true, if_false]
        have := ih hcs (cur ++ [c]) d rest
        simpa using this

theorem runc_plainword (w : Str) (hw : w.all plainChar = true) : ∀ (u : Str) (d : List Str) (rest : Str), u ≠ [] →
    runc { mode := .plain, cur := u, done := d } (w ++ rest) = runc { mode := .plain, cur := u ++ w, done := d } rest := by
  induction w with
  | nil => intro u d rest _; simp
  | cons c cs ih =>
    intro u d rest hu
    have hc : plainChar c = true := by simp only [all_cons, Bool.and_eq_true] at hw; exact hw.1
    have hcs : cs.all plainChar = true := by simp only [all_cons, Bool.and_eq_true] at hw; exact hw.2
    obtain ⟨n1, n2⟩ := plain_ne_space c hc
    simp only [cons_append, runc, stepc, n1, n2, if_false, hc, if_true]
    have := ih hcs (u ++ [c]) d rest (by simp)
    simpa using this

/-- a non-empty plain word met between words -/
theorem runc_between_word (w : Str) (hne : w ≠ []) (hw : w.all plainChar = true) (u : Str) (d : List Str) (rest : Str) :
    runc { mode := .between, cur := u, done := d } (w ++ rest) = runc { mode := .plain, cur := w, done := d } rest := by
  cases w with
  | nil => exact absurd rfl hne
  | cons c cs =>
    have hc : plainChar c = true := by simp only [all_cons, Bool.and_eq_true] at hw; exact hw.1
    have hcs : cs.all plainChar = true := by simp only [all_cons, Bool.and_eq_true] at hw; exact hw.2
    obtain ⟨n1, n2⟩ := plain_ne_space c hc
    simp only [cons_append, runc, stepc, n1, n2, if_false, hc, if_true]
    have := runc_plainword cs hcs [c] d rest (by simp)
    simpa using this

theorem runc_firstword (w : Str) (hne : w ≠ []) (hw : w.all plainChar = true) (rest : Str) :
    runc {} (w ++ rest) = runc { mode := .plain, cur := w, done := [] } rest :=
  runc_between_word w hne hw [] [] rest

/-- the quoted arguments after the current word -/
theorem runc_args (args : List Str) (ha : ∀ a ∈ args, NoExp a) :
    ∀ (m : Mode) (w : Str) (d : List Str), (m = .plain ∨ m = .afterQuote) →
      finishO (runc { mode := m, cur := w, done := d } ((args.map (fun a => ' ' :: shQuote a)).flatten))
        = some (d ++ [w] ++ args) := by
  induction args with
  | nil =>
    intro m w d hm
    rcases hm with rfl | rfl <;> simp [runc, finish, finishO]
  | cons a as ih =>
    intro m w d hm
    have ha' : ∀ x ∈ as, NoExp x := fun x hx => ha x (mem_cons_of_mem _ hx)
    have hfl : ((a :: as).map (fun a => ' ' :: shQuote a)).flatten
        = ' ' :: '"' :: (escape a ++ '"' :: (as.map (fun a => ' ' :: shQuote a)).flatten) := by
      simp [shQuote]
    rw [hfl]
    have step1 : runc { mode := m, cur := w, done := d } (' ' :: '"' :: (escape a ++ '"' :: (map (fun a => ' ' :: shQuote a) as).flatten))
        = runc { mode := .dquote, cur := [], done := d ++ [w] } (escape a ++ '"' :: (map (fun a => ' ' :: shQuote a) as).flatten) := by
      rcases hm with rfl | rfl <;> simp [runc, stepc]
    rw [step1, runc_escape a (ha a mem_cons_self)]
    have := ih ha' .afterQuote ([] ++ a) (d ++ [w]) (Or.inr rfl)
    simpa using this

theorem isPrefixB_eq (p s : Str) (h : isPrefixB p s = true) : s = p ++ s.drop p.length := by
  induction p generalizing s with
  | nil => simp
  | cons a as ih =>
    cases s with
    | nil => simp [isPrefixB] at h
    | cons b bs =>
      simp only [isPrefixB, Bool.and_eq_true, decide_eq_true_eq] at h
      obtain ⟨rfl, h2⟩ := h
      simp only [length_cons, drop_succ_cons, cons_append]
      rw [← ih bs h2]

theorem takeWhile_name (name rest : Str) (hn : name.all nameChar = true) (hr : ∀ c, rest.head? = some c → nameChar c = false) :
    (name ++ rest).takeWhile nameChar = name ∧ (name ++ rest).dropWhile nameChar = rest := by
  induction name with
  | nil =>
    cases rest with
    | nil => simp
    | cons c cs => have := hr c rfl; simp [takeWhile, dropWhile, this]
  | cons a as ih =>
    have ha : nameChar a = true := by simp only [all_cons, Bool.and_eq_true] at hn; exact hn.1
    have has : as.all nameChar = true := by simp only [all_cons, Bool.and_eq_true] at hn; exact hn.2
    obtain ⟨h1, h2⟩ := ih has
    simp [takeWhile, dropWhile, ha, h1, h2]

end RPVerif.Shell

namespace RPVerif.Script
open List

theorem runSeq_ok (o : Nat → Nat) (cs : List Nat) :
    ((runSeq o cs).2 = true ↔ ∀ c ∈ cs, o c = 0) ∧ ((runSeq o cs).2 = true → (runSeq o cs).1 = cs) := by
  induction cs with
  | nil => simp [runSeq]
  | cons c cs ih =>
    unfold runSeq
    by_cases h : o c = 0
    · simp only [h, if_true]
      constructor
      · rw [ih.1]; simp [h]
      · intro h2; simp [ih.2 h2]
    · simp [h]

/-- what ran is an initial piece of the list, and everything but the last one succeeded -/
theorem runSeq_prefix (o : Nat → Nat) (cs : List Nat) :
    (runSeq o cs).1 <+: cs ∧ ((runSeq o cs).2 = false → ∃ pre c, (runSeq o cs).1 = pre ++ [c] ∧ o c ≠ 0 ∧ ∀ x ∈ pre, o x = 0) := by
  induction cs with
  | nil => simp [runSeq]
  | cons c cs ih =>
    unfold runSeq
    by_cases h : o c = 0
    · simp only [h, if_true]
      refine ⟨?_, ?_⟩
      · obtain ⟨t, ht⟩ := ih.1
        exact ⟨t, by simp [ht]⟩
      · intro hf
        obtain ⟨pre, x, h1, h2, h3⟩ := ih.2 hf
        refine ⟨c :: pre, x, by simp [h1], h2, ?_⟩
        intro y hy
        rcases mem_cons.mp hy with rfl | hy
        · exact h
        · exact h3 y hy
    · simp only [h, if_false]
      exact ⟨⟨cs, rfl⟩, fun _ => ⟨[], c, rfl, h, by simp⟩⟩

end RPVerif.Script
