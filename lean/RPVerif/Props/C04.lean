import RPVerif.Lemmas.Sched
import RPVerif.Lemmas.SchedRun
import RPVerif.Lemmas.SchedConserve

/-!
# C04 — The pilot scheduler neither loses nor starves tasks
-/
namespace RPVerif.C04
open RPVerif.Sched List

/-- **placement of incoming tasks loses and duplicates nothing**: every task handed
    to the placement step ends up exactly once either in the event list (started
    or failed) or in the list of tasks to park in the wait pool -/
theorem C04_incoming_conserve (c : Cfg) (ts : List Req) :
    ∀ (s : SchedSt) (toWait : List Req) (evs : List Ev) (a : Nat),
      count a (evUids (incomingOne c s ts toWait evs).2.2) + count a (uids (incomingOne c s ts toWait evs).2.1)
        = count a (evUids evs) + count a (uids toWait) + count a (uids ts) :=
  incomingOne_conserve c ts

theorem evUids_map_adv' (l : List Req) (st : String) :
    evUids (l.map (fun t => Ev.adv t.uid st)) = l.map (·.uid) := by
  simp [evUids]

theorem split_count (ts : List Req) (a : Nat) :
    count a ((ts.filter (fun t => t.ranks > 0)).map (·.uid)) + count a ((ts.filter (fun t => t.ranks ≤ 0)).map (·.uid))
      = count a (ts.map (·.uid)) := by
  induction ts with
  | nil => rfl
  | cons t ts ih =>
    by_cases hr : t.ranks > 0
    · have h2 : ¬ t.ranks ≤ 0 := by omega
      simp only [filter_cons, hr, h2, decide_true, decide_false, if_true, Bool.false_eq_true, if_false,
                 map_cons, count_cons]
      omega
    · have h2 : t.ranks ≤ 0 := by omega
      simp only [filter_cons, hr, h2, decide_true, decide_false, if_true, Bool.false_eq_true, if_false,
                 map_cons, count_cons]
      omega

/-- draining the queue: a task with `ranks <= 0` is failed once and not scheduled;
    every other task is handed to the placement step exactly once -/
theorem C04_drain_conserve (ms : List Msg) (hs : ∀ m ∈ ms, ∃ ts, m = Msg.sched ts) :
    ∀ (s : SchedSt) (toSched : List Req) (evs : List Ev) (a : Nat),
      count a (evUids (drainIncoming s ms toSched evs).2.2) + count a (uids (drainIncoming s ms toSched evs).2.1)
        = count a (evUids evs) + count a (uids toSched)
          + count a ((ms.flatMap (fun m => match m with | .sched ts => ts | .cancel _ => [])).map (·.uid)) := by
  induction ms with
  | nil => intro s toSched evs a; simp [drainIncoming]
  | cons m ms ih =>
    intro s toSched evs a
    obtain ⟨ts, rfl⟩ := hs m mem_cons_self
    unfold drainIncoming
    rw [ih (fun m hm => hs m (mem_cons_of_mem _ hm))]
    simp only [flatMap_cons, map_append, count_append, evUids_append, uids_append]
    have hsplit := split_count ts a
    rw [evUids_map_adv']
    simp only [uids] at hsplit ⊢
    omega

/-- **"can never be scheduled"**: a task is failed for lack of resources only when
    nothing holds resources (`_active_cnt = 0`); otherwise it waits -/
theorem C04_never_rule (c : Cfg) (s : SchedSt) (r : Req) (s' : SchedSt)
    (h : scheduleTask c s r = (.ok none, s')) :
    tryAllocation c s r = (if s'.activeCnt = 0 then (.error .runtime, s') else (.ok false, s')) := by
  unfold tryAllocation; rw [h]

/-- `lazy_bisect` always examines the last element first: on an idle pilot a
    waiting task that fits is therefore started (the smallest task of the pool
    by the `ranks*cores*gpus` order is placed last in the list) -/
theorem C04_last_checked_first (c : Cfg) (data : List Req) (s : SchedSt) (fuel : Nat) (r : Req)
    (hr : data[data.length - 1]? = some r) (s' : SchedSt) (hfit : tryAllocation c s r = (.ok true, s')) :
    bisLoop c data (fuel + 1) {} s = bisLoop c data fuel
      { lastGood := some (data.length - 1), good := [data.length - 1] } s' := by
  rw [bisLoop]
  simp only [bisCheck, hr, hfit]
  rfl

/-- FULL statement is FALSE on the current code once an application-placed task
    was released (finding F3): the counter is corrupted, so a task that fits the
    idle pilot is failed as "can never be scheduled".  Witness: task 0 placed by
    the application and released; task 1 (holding) makes `_active_cnt` 0 while it
    runs; task 2 cannot be placed right now and is FAILED although it fits the
    idle pilot. -/
theorem C04_app_slots_witness :
    (runLoop { cpn := 1, gpn := 0, lfsPn := 0, memPn := 0 }
        { nodes := [{ index := 0, cores := [.free], gpus := [], lfs := 0, mem := 0 }] } true
        [{ incoming := [.sched [{ uid := 0, ranks := 1, cpr := 1, gpr := 0, lfs := 0, mem := 0,
                                   app := some [{ node := 0, cores := [0], gpus := [], lfs := 0, mem := 0 }] }]],
           unsched := [[0]] },
         { incoming := [.sched [{ uid := 1, ranks := 1, cpr := 1, gpr := 0, lfs := 0, mem := 0 }]] },
         { incoming := [.sched [{ uid := 2, ranks := 1, cpr := 1, gpr := 0, lfs := 0, mem := 0 }]] }] []).2.2
      = [[.adv 0 "AGENT_EXECUTING_PENDING"], [.adv 1 "AGENT_EXECUTING_PENDING"], [.adv 2 "FAILED"]] := by
  decide

/-! ## whole histories of the scheduling loop -/

/-- **the counter the "can never be scheduled" rule reads is exact after every history**: it is the
    number of placements the scheduler made and that were not released - so the rule (`C04_never_rule`)
    fires only when no scheduler-placed task holds anything -/
theorem C04_history_counter (c : Cfg) (nodes0 : List NodeSt) (its : List Iter) (hw : NodesWF nodes0) (hnn : NonNeg nodes0)
    (hok : RunOK c { nodes := nodes0 } true its) :
    (runLoop c { nodes := nodes0 } true its []).1.activeCnt = ((runLoop c { nodes := nodes0 } true its []).1.held.length : Int) := by
  have hinit : SInv nodes0 ({ nodes := nodes0 } : SchedSt) := ⟨hinv_init nodes0 hw hnn, rfl⟩
  exact (runLoop_inv c nodes0 its _ true [] hinit hok).2


/-! ## fairness: what a pass over the wait pool does with the tasks that wait -/

theorem prios_single (p : Int) (l : List Req) : prios [(p, l)] = [p] := by
  simp [prios]

theorem sortDesc_single (key : Req → Int) (r : Req) : sortDesc key [r] = [r] := by
  simp [sortDesc, insertDesc]

theorem envWait_of_ok (envs : List Nat) (r : Req) (h : envOk envs r = true) : envWait envs r = false := by
  unfold envOk at h; unfold envWait
  cases he : r.env with
  | none => rfl
  | some e => rw [he] at h; simp only [decide_eq_true_eq] at h; simp [h]

/-- **a task waiting alone**: a pass over the wait pool (it runs whenever resources may have been
    released) tries the task once; it is started if it can be placed now, failed if it cannot be placed
    although nothing holds resources (it does not fit even the idle pilot), and keeps waiting otherwise -/
theorem C04_alone (c : Cfg) (s : SchedSt) (p : Int) (r : Req) (hw : s.waitpool = [(p, [r])]) (henv : envOk s.envs r = true) :
    (scheduleWaitpool c s).2.1
      = (match (tryAllocation c s r).1 with
         | .ok true  => [Ev.adv r.uid "AGENT_EXECUTING_PENDING"]
         | .ok false => []
         | .error _  => [Ev.adv r.uid "FAILED"])
    ∧ (scheduleWaitpool c s).1.waitpool
      = (match (tryAllocation c s r).1 with
         | .ok false => [(p, [r])]
         | _         => [(p, [])]) := by
  have hwp := tryAllocation_wp c s r
  rw [scheduleWaitpool_eq, hw, prios_single]
  simp only [List.foldl_cons, List.foldl_nil, wpStep, waitpoolOne, hw, poolOf, List.find?_cons, decide_true,
             List.filter_cons, henv, envWait_of_ok _ _ henv, List.filter_nil, if_true, sortDesc_single,
             List.cons_ne_nil, if_false, lazyBisect_single]
  rcases hta : tryAllocation c s r with ⟨res, s'⟩
  rw [hta] at hwp
  simp only at hwp
  cases res with
  | error e => simp [pickIdx, hwp, hw, setPool]
  | ok b => cases b <;> simp [pickIdx, hwp, hw, setPool]

/-- **priorities**: two tasks wait in pools of different priority and a release lets only the first one
    tried run - the one that is tried first is the one of the higher priority, whatever the order in which
    the pools were created; the other one keeps waiting -/
theorem C04_priority (c : Cfg) (s : SchedSt) (p1 p2 : Int) (r1 r2 : Req) (hp : p2 < p1)
    (hw : s.waitpool = [(p1, [r1]), (p2, [r2])] ∨ s.waitpool = [(p2, [r2]), (p1, [r1])])
    (h1 : envOk s.envs r1 = true) (h2 : envOk s.envs r2 = true)
    (s1 s2 : SchedSt) (hfit : tryAllocation c s r1 = (.ok true, s1)) (hno : tryAllocation c s1 r2 = (.ok false, s2))
    (henvs : s1.envs = s.envs) :
    (scheduleWaitpool c s).2.1 = [Ev.adv r1.uid "AGENT_EXECUTING_PENDING"]
    ∧ poolOf (scheduleWaitpool c s).1.waitpool p2 = [r2] ∧ poolOf (scheduleWaitpool c s).1.waitpool p1 = [] := by
  have hwp1 : s1.waitpool = s.waitpool := by have := tryAllocation_wp c s r1; rw [hfit] at this; exact this
  have hwp2 : s2.waitpool = s1.waitpool := by have := tryAllocation_wp c s1 r2; rw [hno] at this; exact this
  have hne : p1 ≠ p2 := by omega
  have hne' : p2 ≠ p1 := by omega
  have hpr : prios s.waitpool = [p1, p2] := by
    rcases hw with hw | hw <;> rw [hw] <;> simp [prios, hne, hne', hp] <;> omega
  have hpool1 : poolOf s.waitpool p1 = [r1] := by
    rcases hw with hw | hw <;> rw [hw] <;> simp [poolOf, hne, hne']
  have hpool2 : poolOf s.waitpool p2 = [r2] := by
    rcases hw with hw | hw <;> rw [hw] <;> simp [poolOf, hne, hne']
  rw [scheduleWaitpool_eq, hpr]
  simp only [List.foldl_cons, List.foldl_nil, wpStep]
  -- the pool of the higher priority first
  rw [waitpoolOne_single c s p1 r1 hpool1 h1, hfit]
  simp only
  -- then the other one, on what the first left
  have hp2' : poolOf ({ s1 with waitpool := setPool s1.waitpool p1 [] } : SchedSt).waitpool p2 = [r2] := by
    show poolOf (setPool s1.waitpool p1 []) p2 = [r2]
    rw [poolOf_setPool_other _ _ _ _ hne', hwp1]; exact hpool2
  have he2' : envOk ({ s1 with waitpool := setPool s1.waitpool p1 [] } : SchedSt).envs r2 = true := by
    show envOk s1.envs r2 = true
    rw [henvs]; exact h2
  rw [waitpoolOne_single c _ p2 r2 hp2' he2', tryAllocation_frame, hno]
  simp only [List.nil_append, List.append_nil]
  refine ⟨trivial, ?_, ?_⟩
  · rw [poolOf_setPool_same]
  · rw [poolOf_setPool_other _ _ _ _ hne, poolOf_setPool_same]

/-- **as soon as resources are released**: an iteration in which `_unschedule_completed` takes anything off
    its queue leaves the `resources` flag set ... -/
theorem C04_flag_after_release (c : Cfg) (s : SchedSt) (res : Bool) (it : Iter)
    (h : drained (loopIterA c s res it).1 it.unsched ≠ []) : (loopIter c s res it).2.1 = true := by
  unfold loopIter
  rcases hA : loopIterA c s res it with ⟨s2, res1, evs⟩
  rw [hA] at h
  simp only at h ⊢
  unfold unscheduleCompleted
  unfold drained at h
  rcases hd : drainUnsched (s2.unschedQ ++ it.unsched) [] with ⟨uids', rest⟩
  rw [hd] at h
  simp only at h ⊢
  simp only [h, if_false]
  cases res1 <;> simp

/-- ... and with the flag set the next iteration starts with a pass over the wait pool (`C04_alone`,
    `C04_priority` say what that pass does), before anything that arrives in that iteration is placed -/
theorem C04_pass_runs (c : Cfg) (s : SchedSt) (it : Iter) :
    (loopIterA c s true it).2.2
      = (scheduleWaitpool c { s with cancel := s.cancel ++ it.marks, envs := s.envs ++ it.envs }).2.1
        ++ (scheduleIncoming c (scheduleWaitpool c { s with cancel := s.cancel ++ it.marks, envs := s.envs ++ it.envs }).1
              it.incoming).2.1 := by
  unfold loopIterA
  simp only [if_true]

/-! ## conservation over whole histories -/

/-- **every task is accounted for, exactly once, at every moment**: for every configuration, every
    history of loop iterations (arrivals in any order and batching, priorities, named environments,
    cancel messages and cancel marks wherever they fall, completions in any order) and every uid `u`
    that is handed to the scheduler at most once in that history, the number of times `u` was reported
    (started, failed or canceled) plus the number of times it sits in the wait pool equals the number
    of times it was handed in.  Nothing is assumed about the placement routine: `lazy_bisect` is
    proved to classify every element of a pool exactly once whatever its check answers
    (`Lemmas/BisectAll.lean`), and to come to its end. -/
theorem C04_history_conserve (c : Cfg) (s0 : SchedSt) (h0 : s0.waitpool = []) (res : Bool) (its : List Iter) (u : Nat)
    (hu : handed its u ≤ 1) :
    count u (evUids (runLoop c s0 res its []).2.2.flatten) + waiting (runLoop c s0 res its []).1.waitpool u
      = handed its u := by
  have hk : KeysOK s0.waitpool := by rw [h0]; exact nodup_nil
  have := (runLoop_conserve c u its s0 res [] hk (by rw [h0]; simpa using hu)).2
  rw [h0] at this
  simpa using this

/-- a task is reported as started, failed or canceled at most once -/
theorem C04_reported_at_most_once (c : Cfg) (s0 : SchedSt) (h0 : s0.waitpool = []) (res : Bool) (its : List Iter) (u : Nat)
    (hu : handed its u ≤ 1) : count u (evUids (runLoop c s0 res its []).2.2.flatten) ≤ 1 := by
  have := C04_history_conserve c s0 h0 res its u hu
  omega

/-- a task that was handed in is either reported (once) or waiting (once), never both, never neither -/
theorem C04_exactly_one_place (c : Cfg) (s0 : SchedSt) (h0 : s0.waitpool = []) (res : Bool) (its : List Iter) (u : Nat)
    (hu : handed its u = 1) :
    (count u (evUids (runLoop c s0 res its []).2.2.flatten) = 1 ∧ waiting (runLoop c s0 res its []).1.waitpool u = 0)
    ∨ (count u (evUids (runLoop c s0 res its []).2.2.flatten) = 0 ∧ waiting (runLoop c s0 res its []).1.waitpool u = 1) := by
  have := C04_history_conserve c s0 h0 res its u (by omega)
  omega

/-- nothing is invented: a uid that was never handed in is never reported and never waits -/
theorem C04_nothing_invented (c : Cfg) (s0 : SchedSt) (h0 : s0.waitpool = []) (res : Bool) (its : List Iter) (u : Nat)
    (hu : handed its u = 0) :
    count u (evUids (runLoop c s0 res its []).2.2.flatten) = 0 ∧ waiting (runLoop c s0 res its []).1.waitpool u = 0 := by
  have := C04_history_conserve c s0 h0 res its u (by omega)
  omega

/-- `lazy_bisect` (as the scheduler calls it) returns every element of the pool in exactly one of its
    three lists, for every pool and whatever the placement routine answers -/
theorem C04_bisect_partition (c : Cfg) (data : List Req) (s : SchedSt) (u : Nat) :
    count u (uids (pickIdx data (lazyBisect c data s).1.good)) + count u (uids (pickIdx data (lazyBisect c data s).1.bad))
      + count u (uids (pickIdx data (lazyBisect c data s).1.fail)) = count u (uids data) :=
  lazyBisect_lists c data s u

/-- the hypotheses are met and both outcomes occur: on one core, task 0 starts, task 1 waits, task 2
    (ranks 0) is failed, and a cancel message takes task 1 out of the pool -/
example :
    let c : Cfg := { cpn := 1, gpn := 0, lfsPn := 0, memPn := 0 }
    let s0 : SchedSt := { nodes := [{ index := 0, cores := [.free], gpus := [], lfs := 0, mem := 0 }] }
    let its : List Iter :=
      [{ incoming := [.sched [{ uid := 0, ranks := 1, cpr := 1, gpr := 0, lfs := 0, mem := 0 },
                               { uid := 1, ranks := 1, cpr := 1, gpr := 0, lfs := 0, mem := 0 },
                               { uid := 2, ranks := 0, cpr := 1, gpr := 0, lfs := 0, mem := 0 }]] }]
    handed its 0 = 1 ∧ handed its 1 = 1 ∧ handed its 2 = 1
    ∧ waiting (runLoop c s0 true its []).1.waitpool 1 = 1
    ∧ count 0 (evUids (runLoop c s0 true its []).2.2.flatten) = 1
    ∧ count 2 (evUids (runLoop c s0 true its []).2.2.flatten) = 1
    ∧ waiting (runLoop c s0 true (its ++ [{ incoming := [.cancel [1]] }]) []).1.waitpool 1 = 0
    ∧ count 1 (evUids (runLoop c s0 true (its ++ [{ incoming := [.cancel [1]] }]) []).2.2.flatten) = 1 := by
  decide +kernel

end RPVerif.C04
