import RPVerif.Lemmas.Sched
import RPVerif.Lemmas.NodeList
import RPVerif.Lemmas.SchedShape
import RPVerif.Lemmas.SchedRun

/-!
# C02 — A granted placement has exactly the requested shape
-/
namespace RPVerif.C02
open RPVerif.Sched List

/-- **shape of every rank's share**: each slot returned by the per-node search
    lies on that node, holds exactly `cores_per_rank` distinct cores, the
    requested GPU amount (that many distinct whole GPUs, or one GPU with exactly
    the requested share, or none), and the requested storage and memory -/
theorem C02_slot_shape (n : NodeSt) (nSlots cps gpr lfs mem : Nat) (p : Bool) (slots : List Slot)
    (hcps : 0 < cps) (hl : lfs ≠ 0 → (0 : Int) ≤ n.lfs) (hm : mem ≠ 0 → (0 : Int) ≤ n.mem)
    (h : findResources n nSlots cps gpr lfs mem p = .ok (some slots)) :
    ∀ sl ∈ slots,
      sl.node = n.index ∧ sl.cores.length = cps ∧ sl.cores.Nodup ∧ sl.lfs = lfs ∧ sl.mem = mem
      ∧ (gpr ≥ 16 → sl.gpus.length = gpr / 16 ∧ (sl.gpus.map (·.1)).Nodup ∧ ∀ g ∈ sl.gpus, g.2 = 16)
      ∧ (0 < gpr ∧ gpr < 16 → ∃ g, sl.gpus = [(g, gpr)])
      ∧ (gpr = 0 → sl.gpus = []) := by
  intro sl hsl
  have hfit := (findResources_fit n nSlots cps gpr lfs mem p slots hcps hl hm h).1
  obtain ⟨a, b, c, d, e, f, g⟩ := hfit.shape sl hsl
  refine ⟨a, b, ?_, c, d, ?_, f, g⟩
  · -- cores of one slot are a sublist of all cores, which are strictly increasing
    have hsub : sl.cores.Sublist (allCores slots) := by
      unfold allCores
      obtain ⟨l1, l2, rfl⟩ := append_of_mem hsl
      simp only [flatMap_append, flatMap_cons]
      exact (sublist_append_left _ _).trans (sublist_append_right _ _)
    exact (Pairwise.sublist hsub hfit.cores_inc).imp (fun hlt => Nat.ne_of_lt hlt)
  · intro hw
    obtain ⟨e1, e2, e3⟩ := e hw
    exact ⟨e1, e2.imp (fun hlt => Nat.ne_of_lt hlt), e3⟩

/-- never more slots than asked for; exactly as many unless a partial answer was allowed -/
theorem C02_slot_count (n : NodeSt) (nSlots cps gpr lfs mem : Nat) (p : Bool) (slots : List Slot)
    (hcps : 0 < cps) (hl : lfs ≠ 0 → (0 : Int) ≤ n.lfs) (hm : mem ≠ 0 → (0 : Int) ≤ n.mem)
    (h : findResources n nSlots cps gpr lfs mem p = .ok (some slots)) :
    slots.length ≤ nSlots ∧ (p = false → slots.length = nSlots) :=
  (findResources_fit n nSlots cps gpr lfs mem p slots hcps hl hm h).2

/-- a GPU amount above one that is not whole cannot be met: the per-node search never extends a placement
    for it (it raises `cannot share GPUs>1` as soon as the cores of a rank are found) -/
theorem findOne_fractional (n : NodeSt) (cps gpr lfs mem : Nat) (st st' : FRState) (h1 : gpr ≥ 16) (h2 : gpr % 16 ≠ 0) :
    findOne n cps gpr lfs mem st ≠ .ok (some st') := by
  unfold findOne
  simp only [h1, h2, if_true, ge_iff_le, ne_eq, not_false_eq_true]
  repeat' split
  all_goals simp

/-- **a request that cannot be met as stated is refused, not granted smaller**: for `gpus_per_rank` above
    one and not whole, whatever the node looks like, the search returns no slot at all (or the error) - in
    particular never `floor(gpus_per_rank)` whole GPUs per rank -/
theorem C02_fractional_above_one (n : NodeSt) (nSlots cps gpr lfs mem : Nat) (p : Bool) (slots : List Slot)
    (h1 : gpr ≥ 16) (h2 : gpr % 16 ≠ 0) (h : findResources n nSlots cps gpr lfs mem p = .ok (some slots)) :
    slots = [] := by
  have key : ∀ (k : Nat) (st : FRState) (res : List Slot), findLoop n cps gpr lfs mem k st = .ok res → res = st.slots := by
    intro k
    induction k with
    | zero => intro st res h; simp [findLoop] at h; exact h.symm
    | succ k ih =>
      intro st res h
      unfold findLoop at h
      cases hf : findOne n cps gpr lfs mem st with
      | error e => rw [hf] at h; cases h
      | ok o =>
        cases o with
        | none => rw [hf] at h; simp at h; exact h.symm
        | some st' => exact absurd hf (findOne_fractional n cps gpr lfs mem st st' h1 h2)
  unfold findResources at h
  cases hl : findLoop n cps gpr lfs mem nSlots {} with
  | error e => rw [hl] at h; cases h
  | ok res =>
    rw [hl] at h
    have := key nSlots {} res hl
    simp only at h
    split at h
    · cases h
    · simp only [Except.ok.injEq, Option.some.injEq] at h
      rw [← h, this]

/-- **a request whose per-rank needs exceed a single node is rejected** (an
    AssertionError, i.e. the task is FAILED), never granted a smaller placement -/
theorem C02_reject (c : Cfg) (s : SchedSt) (r : Req)
    (h : (if r.cpr = 0 then 1 else r.cpr) > c.cpn ∨ r.gpr > c.gpn * 16 ∨ r.lfs > c.lfsPn ∨ r.mem > c.memPn) :
    scheduleTask c s r = (.error .assertion, s) := by
  unfold scheduleTask
  rw [if_pos (by unfold cpsOf; exact h)]

/-- a single-rank (non-MPI) task needing more ranks than one node can host is a ValueError -/
theorem C02_nonmpi_single_node (c : Cfg) (s : SchedSt) (r : Req)
    (h0 : ¬ ((if r.cpr = 0 then 1 else r.cpr) > c.cpn ∨ r.gpr > c.gpn * 16 ∨ r.lfs > c.lfsPn ∨ r.mem > c.memPn))
    (h1 : ¬ r.ranks > 1) (h2 : r.ranks.toNat > slotsPerNode c r (if r.cpr = 0 then 1 else r.cpr)) :
    scheduleTask c s r = (.error .value, s) := by
  unfold scheduleTask
  rw [if_neg (by unfold cpsOf; exact h0)]
  have : decide (r.ranks > 1) = false := by simpa using h1
  rw [if_pos ⟨by simp [this], by unfold cpsOf; exact h2⟩]

/-- the ranks-per-node limit bounds the number of slots asked of any one node -/
theorem C02_ranks_per_node (c : Cfg) (r : Req) (cps : Nat) (h : r.rpn ≠ 0) : slotsPerNode c r cps ≤ r.rpn := by
  unfold slotsPerNode
  simp only [h, ne_eq, not_false_eq_true, if_true]
  split <;> split <;> split <;> omega

/-! ## the application-level slot finder -/

open RPVerif.NodeList in
/-- a slot of `Node.find_slot` lies on the searched node and has exactly the requested number of
    cores and GPUs, each with the requested occupation, and the requested storage and memory -/
theorem C02_nodelist_slot_shape (n n' : ANode) (rr : RR) (s : ASlot) (h : findSlot n rr = some (s, n')) :
    s.node = n.index ∧ s.cores.length = rr.nCores ∧ s.gpus.length = rr.nGpus ∧ s.lfs = rr.lfs ∧ s.mem = rr.mem
    ∧ (∀ e ∈ s.cores, e.2 = rr.coreOcc) ∧ (∀ e ∈ s.gpus, e.2 = rr.gpuOcc) := by
  obtain ⟨_, hs, hc, hg, _⟩ := findSlot_spec n n' rr s h
  refine ⟨by rw [hs]; rfl, hc, hg, by rw [hs]; rfl, by rw [hs]; rfl, ?_, ?_⟩
  · intro e he
    rw [hs] at he
    simp only [mkSlot, pickCores] at he
    split at he
    · exact ((scan_spec _ _ 0 _).2.1 e he).2.1
    · cases he
  · intro e he
    rw [hs] at he
    simp only [mkSlot, pickGpus] at he
    split at he
    · exact ((scan_spec _ _ 0 _).2.1 e he).2.1
    · cases he

/-! ## whole placements (several nodes) -/

/-- **a granted placement covers exactly the requested ranks, each of the requested shape**: whatever
    the node map (any occupancy), the starting node and the mode, what `schedule_task` returns has one
    slot per rank; every slot lies on a node of the pilot and holds `cores_per_rank` cores, the
    requested GPU amount (k whole GPUs / one GPU with exactly the share / none), storage and memory;
    no node carries more slots than `slots_per_node`, hence never more than `ranks_per_node` -/
theorem C02_placement (c : Cfg) (s : SchedSt) (r : Req) (slots : List Slot) (hw : NodesWF s.nodes) (hnn : NonNeg s.nodes)
    (h : (scheduleTask c s r).1 = .ok (some slots)) :
    slots.length = r.ranks.toNat
    ∧ (∀ sl ∈ slots, SlotOK (cpsOf r) r sl ∧ ∃ n ∈ s.nodes, n.index = sl.node)
    ∧ (∀ idx, slotsOn slots idx ≤ slotsPerNode c r (cpsOf r))
    ∧ (r.rpn ≠ 0 → ∀ idx, slotsOn slots idx ≤ r.rpn) := by
  have h1 := scheduleTask_shape c s r slots hnn h
  refine ⟨h1.1, fun sl hs => ⟨h1.2.1 sl hs, (h1.2.2 sl hs).1⟩, fun idx => (scheduleTask_pernode c s r slots hw hnn h idx).1,
          fun hr idx => (scheduleTask_pernode c s r slots hw hnn h idx).2 hr⟩

/-- **colocation**: a task whose colocate tag already has a history is placed only on nodes of that
    history, and the history recorded for the tag afterwards is the list of its own nodes - so by
    induction every later task of the tag stays on nodes the first one got -/
theorem C02_colocate (c : Cfg) (s : SchedSt) (r : Req) (tag : Nat) (l : List Nat) (slots : List Slot)
    (hnn : NonNeg s.nodes) (ht : r.colo = some tag) (hh : s.coloHist.find? (fun e => e.1 = tag) = some (tag, l))
    (h : (scheduleTask c s r).1 = .ok (some slots)) :
    (∀ sl ∈ slots, sl.node ∈ l)
    ∧ (scheduleTask c s r).2.coloHist.find? (fun e => e.1 = tag) = some (tag, slots.map (·.node)) :=
  scheduleTask_colocate c s r tag l slots hnn ht hh h

/-- both hold in every state the scheduling loop can reach (`RunOK` scripts): the hypotheses on the
    node map are consequences of the global invariant -/
theorem C02_placement_reachable (c : Cfg) (nodes0 : List NodeSt) (its : List Iter) (hw : NodesWF nodes0) (hnn : NonNeg nodes0)
    (hok : RunOK c { nodes := nodes0 } true its) (r : Req) (slots : List Slot)
    (h : (scheduleTask c (runLoop c { nodes := nodes0 } true its []).1 r).1 = .ok (some slots)) :
    slots.length = r.ranks.toNat
    ∧ (∀ sl ∈ slots, SlotOK (cpsOf r) r sl)
    ∧ (r.rpn ≠ 0 → ∀ idx, slotsOn slots idx ≤ r.rpn) := by
  have hinit : SInv nodes0 ({ nodes := nodes0 } : SchedSt) := ⟨hinv_init nodes0 hw hnn, rfl⟩
  have hinv := runLoop_inv c nodes0 its _ true [] hinit hok
  have hw' := hinv_wf nodes0 _ _ hinv.1
  have hnn' := hinv_nonneg nodes0 _ _ hinv.1
  have := C02_placement c _ r slots hw' hnn' h
  exact ⟨this.1, fun sl hs => (this.2.1 sl hs).1, this.2.2.2⟩

end RPVerif.C02
