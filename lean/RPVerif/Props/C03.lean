import RPVerif.Lemmas.Sched
import RPVerif.Lemmas.NodeList

/-!
# C03 — Released resources come back exactly once and completely
-/
namespace RPVerif.C03
open RPVerif.Sched List

/-- **giving back restores precisely what was taken**: marking a slot BUSY and
    then FREE again leaves the node exactly as it was (cores, GPUs, storage,
    memory), provided the slot named free resources — which every grant does
    (`C01_grant_fits_node`) -/
theorem C03_release_inverse (n : NodeSt) (sl : Slot)
    (hc : ∀ i ∈ sl.cores, n.cores[i]? = some Occ.free)
    (hg : ∀ g ∈ sl.gpus, n.gpus[g.1]? = some Occ.free) :
    applySlot (applySlot n sl true) sl false = n :=
  applySlot_inverse n sl hc hg

/-- while held, the slot's cores read BUSY in the node map and nothing else changed -/
theorem C03_held_is_busy (n : NodeSt) (sl : Slot) (j : Nat) (o : Occ) (hj : n.cores[j]? = some o) :
    (applySlot n sl true).cores[j]? = some (if j ∈ sl.cores then Occ.busy else o) := by
  have : (applySlot n sl true).cores = foldSet n.cores sl.cores .busy := by simp [applySlot, foldSet]
  rw [this]; exact foldSet_busy _ _ _ _ hj

/-- the bookkeeping counter: a successful allocation adds one, a release batch
    subtracts one per released task -/
theorem C03_counter_alloc (c : Cfg) (s s' : SchedSt) (r : Req) (h : tryAllocation c s r = (.ok true, s')) :
    ∃ s1, s'.activeCnt = s1.activeCnt + 1 ∧ (scheduleTask c s r).2 = s1 := by
  unfold tryAllocation at h
  rcases hs : scheduleTask c s r with ⟨res, s1⟩
  rw [hs] at h
  refine ⟨s1, ?_, rfl⟩
  cases res with
  | error e => simp at h
  | ok o =>
    cases o with
    | none => simp only at h; split at h <;> simp at h
    | some slots =>
      cases slots with
      | nil => simp only at h; split at h <;> simp at h
      | cons x xs =>
        simp only at h
        cases hc : changeSlotStates s1.nodes (x :: xs) true with
        | none => rw [hc] at h; simp at h
        | some ns => rw [hc] at h; simp only [Prod.mk.injEq] at h; rw [← h.2]

theorem C03_counter_release (s : SchedSt) (msgs : List (List Nat)) :
    (unscheduleCompleted s msgs).1.activeCnt
      = s.activeCnt - (drainUnsched (s.unschedQ ++ msgs) []).1.length
    ∧ (unscheduleCompleted s msgs).1.unschedQ = (drainUnsched (s.unschedQ ++ msgs) []).2 := by
  unfold unscheduleCompleted
  rcases hd : drainUnsched (s.unschedQ ++ msgs) [] with ⟨uids, rest⟩
  simp only
  by_cases h : uids = []
  · rw [if_pos h]; subst h; simp
  · rw [if_neg h]
    simp only
    have hstep : ∀ (acc : SchedSt) (u : Nat), (releaseOne acc u).activeCnt = acc.activeCnt
        ∧ (releaseOne acc u).unschedQ = acc.unschedQ := by
      intro acc u
      unfold releaseOne
      split
      · exact ⟨rfl, rfl⟩
      · split <;> exact ⟨rfl, rfl⟩
    have key : ∀ (l : List Nat) (s0 : SchedSt),
        (l.foldl releaseOne s0).activeCnt = s0.activeCnt ∧ (l.foldl releaseOne s0).unschedQ = s0.unschedQ := by
      intro l
      induction l with
      | nil => intro s0; exact ⟨rfl, rfl⟩
      | cons u us ih =>
        intro s0
        simp only [foldl_cons]
        have ⟨c, d⟩ := hstep s0 u
        have ⟨a, b⟩ := ih (releaseOne s0 u)
        exact ⟨by rw [a, c], by rw [b, d]⟩
    have ⟨a, b⟩ := key uids { s with activeCnt := s.activeCnt - uids.length, unschedQ := rest }
    exact ⟨a, b⟩

/-- **no release message is lost by the bulk limit**: draining takes messages off the
    queue in order; every message is either processed now or stays queued -/
theorem C03_drain_lossless (q : List (List Nat)) (acc : List Nat) :
    (drainUnsched q acc).1 ++ (drainUnsched q acc).2.flatten = acc ++ q.flatten := by
  induction q generalizing acc with
  | nil => simp [drainUnsched]
  | cons m ms ih =>
    unfold drainUnsched
    split
    · simp
    · rw [ih]; simp

/-- FULL statement over all histories is FALSE on the current code for
    application-placed tasks (finding F3): they are released but were never
    counted.  Witness on the faithful model: the counter goes negative. -/
theorem C03_app_slots_witness :
    (runLoop { cpn := 1, gpn := 0, lfsPn := 0, memPn := 0 }
        { nodes := [{ index := 0, cores := [.free], gpus := [], lfs := 0, mem := 0 }] } true
        [{ incoming := [.sched [{ uid := 0, ranks := 1, cpr := 1, gpr := 0, lfs := 0, mem := 0,
                                   app := some [{ node := 0, cores := [0], gpus := [], lfs := 0, mem := 0 }] }]],
           unsched := [[0]] }] []).1.activeCnt = -1 := by
  decide

/-! ## the application-level slot finder -/

open RPVerif.NodeList in
/-- giving a slot back to its node restores precisely what was taken: occupations of all cores and
    GPUs, storage and memory (for every node state and every slot) -/
theorem C03_nodelist_release_inverse (n : ANode) (s : ASlot) : deallocate (allocate n s) s = n :=
  deallocate_allocate n s

end RPVerif.C03
