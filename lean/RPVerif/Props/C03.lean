import RPVerif.Lemmas.Sched
import RPVerif.Lemmas.NodeList
import RPVerif.Lemmas.SchedRun
import RPVerif.Gen.NodeList
import RPVerif.Gen.Exec
import RPVerif.Model.WatchQueue

/-!
# C03 — Released resources come back exactly once and completely
-/
namespace RPVerif.C03
open RPVerif.Sched List

/-- **giving back restores precisely what was taken**: marking a slot BUSY and
    then FREE again leaves the node exactly as it was (cores, GPUs, storage,
    memory), provided the slot named free resources — which every grant does
    (`C01_grant_fits_node`) -/
theorem C03_release_inverse (n : NodeSt) (sl : Slot)
    (hc : ∀ i ∈ sl.cores, n.cores[i]? = some Occ.free)
    (hg : ∀ g ∈ sl.gpus, n.gpus[g.1]? = some Occ.free) :
    applySlot (applySlot n sl true) sl false = n :=
  applySlot_inverse n sl hc hg

/-- while held, the slot's cores read BUSY in the node map and nothing else changed -/
theorem C03_held_is_busy (n : NodeSt) (sl : Slot) (j : Nat) (o : Occ) (hj : n.cores[j]? = some o) :
    (applySlot n sl true).cores[j]? = some (if j ∈ sl.cores then Occ.busy else o) := by
  have : (applySlot n sl true).cores = foldSet n.cores sl.cores .busy := by simp [applySlot, foldSet]
  rw [this]; exact foldSet_busy _ _ _ _ hj

/-- the bookkeeping counter: a successful allocation adds one, a release batch
    subtracts one per released task -/
theorem C03_counter_alloc (c : Cfg) (s s' : SchedSt) (r : Req) (h : tryAllocation c s r = (.ok true, s')) :
    ∃ s1, s'.activeCnt = s1.activeCnt + 1 ∧ (scheduleTask c s r).2 = s1 := by
  unfold tryAllocation at h
  rcases hs : scheduleTask c s r with ⟨res, s1⟩
  rw [hs] at h
  refine ⟨s1, ?_, rfl⟩
  cases res with
  | error e => simp at h
  | ok o =>
    cases o with
    | none => simp only at h; split at h <;> simp at h
    | some slots =>
      cases slots with
      | nil => simp only at h; split at h <;> simp at h
      | cons x xs =>
        simp only at h
        cases hc : changeSlotStates s1.nodes (x :: xs) true with
        | none => rw [hc] at h; simp at h
        | some ns => rw [hc] at h; simp only [Prod.mk.injEq] at h; rw [← h.2]

theorem C03_counter_release (s : SchedSt) (msgs : List (List Nat)) :
    (unscheduleCompleted s msgs).1.activeCnt
      = s.activeCnt - (drainUnsched (s.unschedQ ++ msgs) []).1.length
    ∧ (unscheduleCompleted s msgs).1.unschedQ = (drainUnsched (s.unschedQ ++ msgs) []).2 := by
  unfold unscheduleCompleted
  rcases hd : drainUnsched (s.unschedQ ++ msgs) [] with ⟨uids, rest⟩
  simp only
  by_cases h : uids = []
  · rw [if_pos h]; subst h; simp
  · rw [if_neg h]
    simp only
    have hstep : ∀ (acc : SchedSt) (u : Nat), (releaseOne acc u).activeCnt = acc.activeCnt
        ∧ (releaseOne acc u).unschedQ = acc.unschedQ := by
      intro acc u
      unfold releaseOne
      split
      · exact ⟨rfl, rfl⟩
      · split <;> exact ⟨rfl, rfl⟩
    have key : ∀ (l : List Nat) (s0 : SchedSt),
        (l.foldl releaseOne s0).activeCnt = s0.activeCnt ∧ (l.foldl releaseOne s0).unschedQ = s0.unschedQ := by
      intro l
      induction l with
      | nil => intro s0; exact ⟨rfl, rfl⟩
      | cons u us ih =>
        intro s0
        simp only [foldl_cons]
        have ⟨c, d⟩ := hstep s0 u
        have ⟨a, b⟩ := ih (releaseOne s0 u)
        exact ⟨by rw [a, c], by rw [b, d]⟩
    have ⟨a, b⟩ := key uids { s with activeCnt := s.activeCnt - uids.length, unschedQ := rest }
    exact ⟨a, b⟩

/-- **no release message is lost by the bulk limit**: draining takes messages off the
    queue in order; every message is either processed now or stays queued -/
theorem C03_drain_lossless (q : List (List Nat)) (acc : List Nat) :
    (drainUnsched q acc).1 ++ (drainUnsched q acc).2.flatten = acc ++ q.flatten := by
  induction q generalizing acc with
  | nil => simp [drainUnsched]
  | cons m ms ih =>
    unfold drainUnsched
    split
    · simp
    · rw [ih]; simp

/-- FULL statement over all histories is FALSE on the current code for
    application-placed tasks (finding F3): they are released but were never
    counted.  Witness on the faithful model: the counter goes negative. -/
theorem C03_app_slots_witness :
    (runLoop { cpn := 1, gpn := 0, lfsPn := 0, memPn := 0 }
        { nodes := [{ index := 0, cores := [.free], gpus := [], lfs := 0, mem := 0 }] } true
        [{ incoming := [.sched [{ uid := 0, ranks := 1, cpr := 1, gpr := 0, lfs := 0, mem := 0,
                                   app := some [{ node := 0, cores := [0], gpus := [], lfs := 0, mem := 0 }] }]],
           unsched := [[0]] }] []).1.activeCnt = -1 := by
  decide

/-! ## the application-level slot finder -/

open RPVerif.NodeList in
/-- **a release clears the refusal**: `find_slots` remembers the last request it had to refuse and refuses anything not
    larger at once; every release - of however few slots - forgets it, so after a release a request is judged against
    what is free now: the answer is the one the search gives, never the remembered refusal -/
theorem C03_nodelist_release_clears_refusal (l : NL) (slots : List ASlot) (rr : RR) (n : Nat) :
    (releaseSlots l slots).lastFailed = none ∧ cacheHit (releaseSlots l slots) rr n = false := by
  constructor
  · rfl
  · simp [cacheHit, releaseSlots]

open RPVerif.NodeList in
/-- **only what is at least as large is refused from memory**: `find_slots` answers from the remembered refusal only
    when the request asks at least as much per rank and at least as many slots as the request that failed; a smaller
    request is always searched for - on a pilot where nothing is held it finds what a fresh pilot offers -/
theorem C03_nodelist_refusal_only_for_larger (l : NL) (rr : RR) (n : Nat) (h : cacheHit l rr n = true) :
    ∃ frr fn, l.lastFailed = some (frr, fn) ∧ rrGe rr frr = true ∧ fn ≤ n := by
  unfold cacheHit at h
  cases hl : l.lastFailed with
  | none => rw [hl] at h; simp at h
  | some p =>
    obtain ⟨frr, fn⟩ := p
    rw [hl] at h
    simp only [Bool.and_eq_true, decide_eq_true_eq] at h
    exact ⟨frr, fn, rfl, h.1, h.2⟩

open RPVerif.NodeList in
/-- the defect that was repaired (test): after 3 slots were refused on a pilot that has 2, the original comparison
    (`last failed >= request`) refused a single slot on the empty pilot - with the repaired one it is searched for -/
example : cacheHit { nodes := [], index := 0, lastFailed := some (⟨1, 16, 0, 16, 60, 0⟩, 3), cpn := 2, gpn := 0, lfsPn := 100, memPn := 0 }
    ⟨1, 16, 0, 16, 30, 0⟩ 1 = false := by decide

open RPVerif.NodeList in
/-- **releases from several application threads**: with the code as it is (`Gen.deallocInLock`: `deallocate_slot`
    changes the node inside its lock; `Gen.findSlotBooksInLock`), any interleaving of the threads' requests and
    releases on a node leaves the node the same operations leave one after the other, in the order the lock let them
    in - no release is lost or half applied, so `C03_nodelist_release_inverse` and the history theorems below speak
    about concurrent use as well -/
theorem C03_node_threads (n : ANode) (steps : List CStep) :
    (crun Gen.findSlotBooksInLock Gen.deallocInLock ⟨n, [], [], []⟩ steps).node = (seqCalls n steps).1 := by
  have e : Gen.findSlotBooksInLock = true := by decide
  have e2 : Gen.deallocInLock = true := by decide
  rw [e, e2]
  exact (crun_atomic steps ⟨n, [], [], []⟩ rfl rfl).1

open RPVerif.NodeList in
/-- a release outside the lock can be lost: the thread that releases read the node before another thread's grant and
    writes its stale figures back (here: 100 of lfs granted in between vanish from the node's books) -/
theorem C03_node_threads_witness :
    (crun true false ⟨⟨0, [some 16, some 0], [], 900, 0⟩, [], [], []⟩
       [.release 0 ⟨0, [(0, 16)], [], 100, 0⟩, .call 1 ⟨1, 16, 0, 16, 100, 0⟩, .write 0]).node.lfs = 1000
    ∧ (seqCalls ⟨0, [some 16, some 0], [], 900, 0⟩
       [.release 0 ⟨0, [(0, 16)], [], 100, 0⟩, .call 1 ⟨1, 16, 0, 16, 100, 0⟩, .write 0]).1.lfs = 900 := by decide

open RPVerif.NodeList in
/-- giving a slot back to its node restores precisely what was taken: occupations of all cores and
    GPUs, storage and memory (for every node state and every slot) -/
theorem C03_nodelist_release_inverse (n : ANode) (s : ASlot) : deallocate (allocate n s) s = n :=
  deallocate_allocate n s

/-! ## whole histories of the scheduling loop -/

/-- **the node map shows exactly what is held, after every history**: a core (GPU) is BUSY iff a
    held placement names it or it was BUSY to begin with; everything else is as in the initial map -/
theorem C03_history_map (c : Cfg) (nodes0 : List NodeSt) (its : List Iter) (hw : NodesWF nodes0) (hnn : NonNeg nodes0)
    (hok : RunOK c { nodes := nodes0 } true its) (i : Nat) (n0 n : NodeSt)
    (h0 : nodes0[i]? = some n0) (hn : (runLoop c { nodes := nodes0 } true its []).1.nodes[i]? = some n) :
    n.index = n0.index
    ∧ (∀ x, n.cores[x]? = if x ∈ coresOn (heldSlots (runLoop c { nodes := nodes0 } true its []).1.held) n0.index
                           then some Occ.busy else n0.cores[x]?)
    ∧ (∀ g, n.gpus[g]? = if g ∈ gpusOn (heldSlots (runLoop c { nodes := nodes0 } true its []).1.held) n0.index
                          then some Occ.busy else n0.gpus[g]?)
    ∧ n.lfs = n0.lfs - (lfsOn (heldSlots (runLoop c { nodes := nodes0 } true its []).1.held) n0.index : Nat)
    ∧ n.mem = n0.mem - (memOn (heldSlots (runLoop c { nodes := nodes0 } true its []).1.held) n0.index : Nat) := by
  have hinit : SInv nodes0 ({ nodes := nodes0 } : SchedSt) := ⟨hinv_init nodes0 hw hnn, rfl⟩
  have hinv := runLoop_inv c nodes0 its _ true [] hinit hok
  have ni := hinv.1.node i n0 n h0 hn
  refine ⟨ni.idx, ?_, ?_, ni.lfs, ni.mem⟩
  · intro x
    by_cases hx : x ∈ coresOn (heldSlots (runLoop c { nodes := nodes0 } true its []).1.held) n0.index
    · rw [if_pos hx]; exact nodeinv_core_busy n0 n _ ni x hx
    · rw [if_neg hx]; exact nodeinv_core_other n0 n _ ni x hx
  · intro g
    by_cases hg : g ∈ gpusOn (heldSlots (runLoop c { nodes := nodes0 } true its []).1.held) n0.index
    · rw [if_pos hg]; exact nodeinv_gpu_busy n0 n _ ni g hg
    · rw [if_neg hg]; exact nodeinv_gpu_other n0 n _ ni g hg

/-- **capacity is restored**: after any history, once every placement the scheduler made has been
    released, the node map (cores, GPUs, storage, memory of every node) is the initial one and the
    counter of active tasks is zero -/
theorem C03_history_restored (c : Cfg) (nodes0 : List NodeSt) (its : List Iter) (hw : NodesWF nodes0) (hnn : NonNeg nodes0)
    (hok : RunOK c { nodes := nodes0 } true its)
    (hq : (runLoop c { nodes := nodes0 } true its []).1.held = []) :
    (runLoop c { nodes := nodes0 } true its []).1.nodes = nodes0
    ∧ (runLoop c { nodes := nodes0 } true its []).1.activeCnt = 0 := by
  have hinit : SInv nodes0 ({ nodes := nodes0 } : SchedSt) := ⟨hinv_init nodes0 hw hnn, rfl⟩
  have hinv := runLoop_inv c nodes0 its _ true [] hinit hok
  generalize (runLoop c { nodes := nodes0 } true its []).1 = s at hinv hq
  obtain ⟨hI, hc⟩ := hinv
  refine ⟨?_, by rw [hc, hq]; rfl⟩
  apply ext_getElem?
  intro i
  cases hn : s.nodes[i]? with
  | none =>
    have : nodes0[i]? = none := by
      rw [List.getElem?_eq_none_iff] at hn ⊢; rw [← hI.len]; exact hn
    rw [this]
  | some n =>
    have hlt : i < nodes0.length := by rw [← hI.len]; exact (List.getElem?_eq_some_iff.mp hn).1
    have h0 : nodes0[i]? = some nodes0[i] := getElem?_eq_getElem hlt
    have ni := hI.node i _ n h0 hn
    rw [hq] at ni
    rw [h0]
    have e1 := ni.idx
    have e2 := ni.cores
    have e3 := ni.gpus
    have e4 := ni.lfs
    have e5 := ni.mem
    have z1 : coresOn (heldSlots []) (nodes0[i]).index = [] := rfl
    have z2 : gpusOn (heldSlots []) (nodes0[i]).index = [] := rfl
    have z3 : lfsOn (heldSlots []) (nodes0[i]).index = 0 := rfl
    have z4 : memOn (heldSlots []) (nodes0[i]).index = 0 := rfl
    rw [z1] at e2; rw [z2] at e3; rw [z3] at e4; rw [z4] at e5
    cases n with
    | mk idx cs gs l m =>
      cases hnode : nodes0[i] with
      | mk idx0 cs0 gs0 l0 m0 =>
        rw [hnode] at e1 e2 e3 e4 e5
        simp only [foldSet, foldl_nil] at e2 e3
        simp only at e1 e2 e3 e4 e5
        subst e1; subst e2; subst e3
        have hl : l = l0 := by omega
        have hm : m = m0 := by omega
        rw [hl, hm]

/-! ### a cancelled task gives its resources back also when its process group is gone (round 18) -/

/-- **C03, released exactly once on cancel**: with every signal of `LaunchMethod.cancel_task` sent under a handler for
    OSError (`Gen.killGuardsGoneProcess`, read from the source), a task that `Popen.cancel_task` has taken out of the
    registry gives its resources back once - whether its process group could still be signalled or not -/
theorem C03_cancel_releases_when_group_gone (groupGone : Bool) :
    WatchQueue.cancelReleases Gen.killGuardsGoneProcess groupGone = 1 := by
  have e : Gen.killGuardsGoneProcess = true := by decide
  rw [e]
  cases groupGone <;> rfl

/-- without the handler a process group that is gone ends cancel_task before the release: nothing comes back -/
theorem C03_cancel_releases_witness :
    WatchQueue.cancelReleases false true = 0 ∧ WatchQueue.cancelReleases false false = 1 := by decide

end RPVerif.C03
