import RPVerif.Lemmas.Sched

/-!
# C03 — Released resources come back exactly once and completely
-/
namespace RPVerif.C03
open RPVerif.Sched List

/-- **giving back restores precisely what was taken**: marking a slot BUSY and
    then FREE again leaves the node exactly as it was (cores, GPUs, storage,
    memory), provided the slot named free resources — which every grant does
    (`C01_grant_fits_node`) -/
theorem C03_release_inverse (n : NodeSt) (sl : Slot)
    (hc : ∀ i ∈ sl.cores, n.cores[i]? = some Occ.free)
    (hg : ∀ g ∈ sl.gpus, n.gpus[g.1]? = some Occ.free) :
    applySlot (applySlot n sl true) sl false = n :=
  applySlot_inverse n sl hc hg

/-- while held, the slot's cores read BUSY in the node map and nothing else changed -/
theorem C03_held_is_busy (n : NodeSt) (sl : Slot) (j : Nat) (o : Occ) (hj : n.cores[j]? = some o) :
    (applySlot n sl true).cores[j]? = some (if j ∈ sl.cores then Occ.busy else o) := by
  have : (applySlot n sl true).cores = foldSet n.cores sl.cores .busy := by simp [applySlot, foldSet]
  rw [this]; exact foldSet_busy _ _ _ _ hj

/-- the bookkeeping counter: a successful allocation adds one, a release batch
    subtracts one per released task -/
theorem C03_counter_alloc (c : Cfg) (s s' : SchedSt) (r : Req) (h : tryAllocation c s r = (.ok true, s')) :
    ∃ s1, s'.activeCnt = s1.activeCnt + 1 ∧ (scheduleTask c s r).2 = s1 := by
  unfold tryAllocation at h
  rcases hs : scheduleTask c s r with ⟨res, s1⟩
  rw [hs] at h
  refine ⟨s1, ?_, rfl⟩
  cases res with
  | error e => simp at h
  | ok o =>
    cases o with
    | none => simp only at h; split at h <;> simp at h
    | some slots =>
      cases slots with
      | nil => simp only at h; split at h <;> simp at h
      | cons x xs =>
        simp only at h
        cases hc : changeSlotStates s1.nodes (x :: xs) true with
        | none => rw [hc] at h; simp at h
        | some ns => rw [hc] at h; simp only [Prod.mk.injEq] at h; rw [← h.2]

theorem C03_counter_release (s : SchedSt) (uids : List Nat) (h : uids ≠ []) :
    (unscheduleCompleted s uids).1.activeCnt = s.activeCnt - uids.length := by
  unfold unscheduleCompleted
  rw [if_neg h]
  simp only
  generalize hs0 : ({ s with activeCnt := s.activeCnt - uids.length } : SchedSt) = s0
  have h0 : s0.activeCnt = s.activeCnt - uids.length := by rw [← hs0]
  rw [← h0]
  clear hs0 h0
  induction uids generalizing s0 with
  | nil => rfl
  | cons u us ih =>
    simp only [foldl_cons]
    have hstep : ∀ (acc : SchedSt), (match acc.given.find? (fun (e : Nat × List Slot) => e.1 = u) with
        | none => acc
        | some e => match changeSlotStates acc.nodes e.2 false with
          | none => acc
          | some ns => { acc with nodes := ns }).activeCnt = acc.activeCnt := by
      intro acc
      split
      · rfl
      · split <;> rfl
    by_cases hus : us = []
    · subst hus; simp only [foldl_nil]; exact hstep s0
    · rw [ih hus]; exact hstep s0

/-- FULL statement over all histories is FALSE on the current code for
    application-placed tasks (finding F3): they are released but were never
    counted.  Witness on the faithful model: the counter goes negative. -/
theorem C03_app_slots_witness :
    (runLoop { cpn := 1, gpn := 0, lfsPn := 0, memPn := 0 }
        { nodes := [{ index := 0, cores := [.free], gpus := [], lfs := 0, mem := 0 }] } true
        [{ incoming := [.sched [{ uid := 0, ranks := 1, cpr := 1, gpr := 0, lfs := 0, mem := 0,
                                   app := some [{ node := 0, cores := [0], gpus := [], lfs := 0, mem := 0 }] }]],
           unsched := [0] }] []).1.activeCnt = -1 := by
  decide

end RPVerif.C03
