import RPVerif.Lemmas.States
import RPVerif.Model.AgentCause
import RPVerif.Gen.States
import RPVerif.Gen.AgentCause

/-!
# C14 — Pilot states move forward and end for the right reason
-/
namespace RPVerif.C14
open RPVerif.States RPVerif.AgentCause

def N : Nat := Gen.pilotStateValues.length - 3

theorem pilotTable_ok :
    (Gen.pilotStateValues.take N).map (·.2) = List.range N
    ∧ Gen.pilotStateValues.drop N = [("DONE", N), ("FAILED", N), ("CANCELED", N)]
    ∧ (Gen.pilotStateValues.map (·.1)).Nodup
    ∧ Gen.pilotStateValues.head? = some ("NEW", 0) ∧ Gen.pilotNoneValue = -1 := by
  decide

/-- the cause bookkeeping of `Agent_0` is what the model says: `_check_lifetime`
    records 'timeout' then stops; `_ctrl_cancel_pilots` records 'cancel' then
    stops; `stop` records 'cancel' only when no cause is known yet; `finalize`
    maps timeout -> DONE, cancel/sys.exit -> CANCELED, anything else -> FAILED;
    the bootstrapper reports the recorded state, FAILED when there is none. -/
theorem agentCause_tie :
    Gen.causeWrites = [("__init__", ["set:None"]), ("_check_lifetime", ["set:timeout", "stop"]),
                       ("_ctrl_cancel_pilots", ["set:cancel", "stop"]), ("stop", ["setIfNone:cancel"])]
    ∧ Gen.finalizeMap = [("timeout", "DONE"), ("cancel", "CANCELED"), ("sys.exit", "CANCELED")]
    ∧ Gen.finalizeElse = "FAILED"
    ∧ Gen.bootstrapReadsSignal = true ∧ Gen.bootstrapDefault = "FAILED" := by
  decide

/-- no handler of `Agent_0` writes the cause after it called `stop()` (read from the source) -/
def settledBeforeStop : List String → Bool
  | []      => true
  | a :: as => if a = "stop" then as.all (fun x => !(x.startsWith "set")) else settledBeforeStop as

theorem C14_cause_settled_before_stop : Gen.causeWrites.all (fun m => settledBeforeStop m.2) = true := by decide

/-- **the cause is settled before the termination event is set**: when a handler records its cause
    and then stops, `finalize` - at whatever moment after the `stop()` it runs in the other thread -
    sees that cause; with the two statements the other way round it could see the default 'cancel'
    (the witness is what a swapped `_check_lifetime` does) -/
theorem C14_cause_observable (x : Cause) (hx : x ≠ .none) (c : Cause) :
    observable c [.set x, .stop] = [x] := by
  simp [observable, hx]

theorem C14_cause_order_witness : observable .none [.stop, .set .timeout] = [.cancel, .timeout] := by decide

/-- `finalize` racing with the stopping thread: the state written is DONE if the first event that
    stops the agent is the expired lifetime, CANCELED if it is a cancel request or a terminate -/
theorem C14_cause_at_first_stop (pre post : List Ev) (e : Ev) (he : stops e = true) (hpre : ∀ x ∈ pre, stops x = false) :
    causeAtFirstStop .none (pre ++ e :: post) = some (step .none e)
    ∧ (e = .lifetimeExpired → finalState (step .none e) = .done)
    ∧ (e ≠ .lifetimeExpired → finalState (step .none e) = .canceled) := by
  have hrun : ∀ (c : Cause) (l : List Ev), (∀ x ∈ l, stops x = false) → c = .none →
      causeAtFirstStop c (l ++ e :: post) = some (step .none e) := by
    intro c l
    induction l generalizing c with
    | nil => intro _ hc; subst hc; simp [causeAtFirstStop, he]
    | cons y ys ih =>
      intro hl hc
      subst hc
      have hy : stops y = false := hl y List.mem_cons_self
      have hstep : step .none y = .none := by
        cases y with
        | lifetimeExpired => simp [stops] at hy
        | terminateCmd => simp [stops] at hy
        | cancelCmd n => cases n <;> simp_all [stops, step]
      simp only [List.cons_append, causeAtFirstStop, hy, Bool.false_eq_true, if_false, hstep]
      exact ih .none (fun x hx => hl x (List.mem_cons_of_mem _ hx)) rfl
  refine ⟨hrun .none pre hpre rfl, ?_, ?_⟩
  · intro h; subst h; rfl
  · intro h
    cases e with
    | lifetimeExpired => exact absurd rfl h
    | terminateCmd => rfl
    | cancelCmd n => cases n <;> simp_all [stops, step, stop, finalState]

/-! ## notification path -/

/-- one step seen by a PILOT_STATE callback: the same state again (a repeated
    notification), or a forward step as for tasks -/
def PStep (N : Nat) (a b : St) : Prop := b = a ∨ Step N a b

def PChain (N : Nat) : St → List St → Prop
  | _, []      => True
  | s, n :: ns => PStep N s n ∧ PChain N n ns

theorem pchain_of_chain {s : St} {ns : List St} (h : Chain N s ns) : PChain N s ns := by
  induction ns generalizing s with
  | nil => trivial
  | cons n ns ih => exact ⟨Or.inr h.1, ih h.2⟩

theorem pchain_append {s : St} {xs ys : List St}
    (h1 : PChain N s xs) (h2 : PChain N (lastOf s xs) ys) : PChain N s (xs ++ ys) := by
  induction xs generalizing s with
  | nil => simpa [lastOf] using h2
  | cons x xs ih =>
    exact ⟨h1.1, ih h1.2 (by simpa [lastOf] using h2)⟩

theorem pilotReplay_chain (cur : St) (ss : List St) (h : Chain N cur ss) :
    pilotReplay N cur ss = .ok (lastOf cur ss, ss) := by
  induction ss generalizing cur with
  | nil => rfl
  | cons s ss ih =>
    obtain ⟨⟨_, _, hv⟩, hc⟩ := h
    unfold pilotReplay
    have : pilotUpdate N cur s = .ok s := by
      unfold pilotUpdate
      rcases hv with hv | hv
      · simp [hv]
      · simp [hv]
    rw [this]
    simp only [ih s hc, lastOf]

/-- one notification for a known pilot: either it raises (state untouched), or
    the callbacks it triggers continue the chain and the pilot ends in the last
    state announced -/
theorem updatePilot_spec (cur tgt : St) (ht : tgt.WF N) :
    (∃ e, updatePilot N cur tgt = .error e)
    ∨ ∃ cbs, updatePilot N cur tgt = .ok (lastOf cur cbs, cbs) ∧ PChain N cur cbs := by
  unfold updatePilot
  by_cases h0 : cur = tgt
  · rw [if_pos h0]
    subst h0
    right
    refine ⟨[cur], ?_, ⟨Or.inl rfl, trivial⟩⟩
    have : pilotUpdate N cur cur = .ok cur := by
      unfold pilotUpdate; simp
    simp [this, lastOf]
  rw [if_neg h0]
  unfold pilotProgress
  by_cases h1 : cur = .canceled ∧ tgt.isFinal
  · rw [if_pos h1]; right
    exact ⟨[], by simp [pilotReplay, lastOf], trivial⟩
  rw [if_neg h1]
  by_cases h2 : cur = .failed ∧ tgt.isFinal
  · rw [if_pos h2]; right
    exact ⟨[], by simp [pilotReplay, lastOf], trivial⟩
  rw [if_neg h2]
  by_cases h3 : cur.isFinal ∧ tgt ≠ cur ∧ tgt.isFinal
  · rw [if_pos h3]; left; exact ⟨_, rfl⟩
  rw [if_neg h3]
  by_cases h4 : cur.val N ≥ tgt.val N
  · rw [if_pos h4]; right
    exact ⟨[], by simp [pilotReplay, lastOf], trivial⟩
  rw [if_neg h4]
  right
  have hnf : cur.isFinal = false := by
    cases hfin : cur.isFinal
    · rfl
    · have := val_final (N := N) hfin
      have := val_le ht
      omega
  have ⟨c, l, f⟩ := nfRange_chain (N := N) (cur.val N + 1) (tgt.val N) cur hnf rfl (val_le ht)
  by_cases hfc : tgt.isFC = true
  · simp only [hfc, if_true]
    have : (nfRange (cur.val N + 1) (tgt.val N) ++ [tgt]).drop
        ((nfRange (cur.val N + 1) (tgt.val N) ++ [tgt]).length - 1) = [tgt] := by simp
    rw [this]
    have hc : Chain N cur [tgt] := ⟨⟨hnf, ht, Or.inr hfc⟩, trivial⟩
    exact ⟨[tgt], pilotReplay_chain cur _ hc, pchain_of_chain hc⟩
  · simp only [hfc]
    have hc : Chain N cur (nfRange (cur.val N + 1) (tgt.val N) ++ [tgt]) := by
      apply chain_append c
      exact ⟨⟨f, ht, Or.inl (by omega)⟩, trivial⟩
    exact ⟨_, pilotReplay_chain cur _ hc, pchain_of_chain hc⟩

/-- a final state reported while the pilot handle is still in ANY earlier, non-final state (the
    notifications in between were lost or are late) is never refused: the gap is replayed, the handle
    ends in that final state, and it is the last state the callbacks - the task manager's among them -
    are called with (used by C13: the tasks of the pilot are then failed) -/
theorem C14_final_delivered (i : Nat) (hi : i < N) (tgt : St) (ht : tgt.isFinal = true) :
    ∃ cbs, updatePilot N (.nf i) tgt = .ok (tgt, cbs ++ [tgt]) := by
  have hw : tgt.WF N := by cases tgt <;> simp_all [St.WF, St.isFinal]
  have h0 : ¬ (St.nf i = tgt) := by intro h; subst h; simp [St.isFinal] at ht
  have hv : tgt.val N = N := val_final ht
  unfold updatePilot
  rw [if_neg h0]
  unfold pilotProgress
  have hvi : (St.nf i).val N = i := rfl
  rw [if_neg (by simp), if_neg (by simp), if_neg (by simp [St.isFinal]), if_neg (by rw [hv, hvi]; omega)]
  have hnf : (St.nf i).isFinal = false := rfl
  have ⟨c, l, f⟩ := nfRange_chain (N := N) ((St.nf i).val N + 1) (tgt.val N) (.nf i) hnf rfl (val_le hw)
  by_cases hfc : tgt.isFC = true
  · simp only [hfc, if_true]
    have : (nfRange ((St.nf i).val N + 1) (tgt.val N) ++ [tgt]).drop
        ((nfRange ((St.nf i).val N + 1) (tgt.val N) ++ [tgt]).length - 1) = [tgt] := by simp
    rw [this]
    have hc : Chain N (.nf i) [tgt] := ⟨⟨hnf, hw, Or.inr hfc⟩, trivial⟩
    exact ⟨[], by rw [pilotReplay_chain _ _ hc]; rfl⟩
  · have hfc' : tgt.isFC = false := by cases h : tgt.isFC <;> simp_all
    simp only [hfc', Bool.false_eq_true, if_false]
    have hc : Chain N (.nf i) (nfRange ((St.nf i).val N + 1) (tgt.val N) ++ [tgt]) := by
      apply chain_append c
      exact ⟨⟨f, hw, Or.inl (by have := hvi; rw [hv] at l ⊢; omega)⟩, trivial⟩
    refine ⟨nfRange ((St.nf i).val N + 1) (tgt.val N), ?_⟩
    rw [pilotReplay_chain _ _ hc, lastOf_append]
    rfl

/-- test: a pilot that is still being launched is reported DONE -/
example : updatePilot N (.nf 1) .done = .ok (.done, [.nf 2, .nf 3, .nf 4, .done]) := by rfl

/-- **C14 (notification part)**: for every stream of notifications for a known
    pilot — duplicates, reordering, gaps, late non-final updates after a final
    one — what PILOT_STATE callbacks see is a chain of `PStep`s from the pilot's
    state, and the pilot ends in the last state announced. -/
theorem C14_forward (cur : St) (ts : List St) (hw : ∀ t ∈ ts, t.WF N) :
    PChain N cur (runPilot N cur ts).2 ∧ (runPilot N cur ts).1 = lastOf cur (runPilot N cur ts).2 := by
  induction ts generalizing cur with
  | nil => exact ⟨trivial, rfl⟩
  | cons t ts ih =>
    have hws : ∀ t ∈ ts, t.WF N := fun x hx => hw x (List.mem_cons_of_mem _ hx)
    unfold runPilot
    rcases updatePilot_spec cur t (hw t List.mem_cons_self) with ⟨e, he⟩ | ⟨cbs, hc, hp⟩
    · rw [he]; exact ih cur hws
    · rw [hc]
      have ⟨i1, i2⟩ := ih (lastOf cur cbs) hws
      refine ⟨pchain_append hp i1, ?_⟩
      simp only [lastOf_append]; exact i2

/-- a `PStep` never goes backwards, fills gaps (at most one value forward unless
    entering FAILED/CANCELED) and never leaves a final state -/
theorem PStep_forward (a b : St) (ha : a.WF N) (h : PStep N a b) :
    a.val N ≤ b.val N
    ∧ (b.val N ≤ a.val N + 1 ∨ b.isFC = true)
    ∧ (a.isFinal = true → b = a) := by
  rcases h with rfl | ⟨hf, hb, hv⟩
  · exact ⟨Nat.le_refl _, Or.inl (by omega), fun _ => rfl⟩
  · refine ⟨?_, ?_, fun h => by simp [hf] at h⟩
    · rcases hv with hv | hv
      · omega
      · have : b.val N = N := by cases b <;> simp [St.isFC] at hv <;> rfl
        have := val_le ha; omega
    · rcases hv with hv | hv
      · left; omega
      · right; exact hv

/-- **final states are sticky** for pilots: no later notification changes a
    final state, in particular never to a non-final one -/
theorem C14_final_sticky (cur : St) (ts : List St) (hw : ∀ t ∈ ts, t.WF N)
    (hf : cur.isFinal = true) : (runPilot N cur ts).1 = cur := by
  have ⟨c, l⟩ := C14_forward cur ts hw
  rw [l]
  generalize (runPilot N cur ts).2 = cbs at c
  induction cbs with
  | nil => rfl
  | cons n ns ih =>
    obtain ⟨h1, h2⟩ := c
    have : n = cur := by
      rcases h1 with h | h
      · exact h
      · have := h.1; simp [hf] at this
    subst this
    simpa [lastOf] using ih h2

/-- notifications for pilots the manager does not know are ignored -/
def pmUpdate (N : Nat) (ps : List (Nat × St)) (pid : Nat) (tgt : St) : List (Nat × St) × List (Nat × St) :=
  match ps.find? (fun p => p.1 = pid) with
  | none => (ps, [])
  | some p =>
    match updatePilot N p.2 tgt with
    | .error _     => (ps, [])
    | .ok (c, cbs) => (ps.map (fun q => if q.1 = pid then (pid, c) else q), cbs.map (fun s => (pid, s)))

theorem C14_unknown_ignored (ps : List (Nat × St)) (pid : Nat) (tgt : St)
    (h : ∀ p ∈ ps, p.1 ≠ pid) : pmUpdate N ps pid tgt = (ps, []) := by
  unfold pmUpdate
  have : ps.find? (fun p => p.1 = pid) = none := by
    apply List.find?_eq_none.mpr
    intro p hp; simpa using h p hp
  rw [this]

/-! ## why the pilot ended -/

theorem run_append (c : Cause) (xs ys : List Ev) : run c (xs ++ ys) = run (run c xs) ys := by
  simp [run, List.foldl_append]

/-- once 'timeout' is recorded, only a cancel command naming the pilot changes it -/
theorem timeout_kept (evs : List Ev) (h : Ev.cancelCmd true ∉ evs) : run .timeout evs = .timeout := by
  induction evs with
  | nil => rfl
  | cons e es ih =>
    have he : e ≠ .cancelCmd true := fun x => h (x ▸ List.mem_cons_self)
    have hes : Ev.cancelCmd true ∉ es := fun x => h (List.mem_cons_of_mem _ x)
    have : step .timeout e = .timeout := by
      cases e with
      | lifetimeExpired => rfl
      | cancelCmd n => cases n <;> simp_all [step]
      | terminateCmd => rfl
    simp only [run, List.foldl_cons, this]
    exact ih hes

theorem cancel_kept (evs : List Ev) (h : Ev.lifetimeExpired ∉ evs) : run .cancel evs = .cancel := by
  induction evs with
  | nil => rfl
  | cons e es ih =>
    have he : e ≠ .lifetimeExpired := fun x => h (x ▸ List.mem_cons_self)
    have hes : Ev.lifetimeExpired ∉ es := fun x => h (List.mem_cons_of_mem _ x)
    have : step .cancel e = .cancel := by
      cases e with
      | lifetimeExpired => exact absurd rfl he
      | cancelCmd n => cases n <;> rfl
      | terminateCmd => rfl
    simp only [run, List.foldl_cons, this]
    exact ih hes

/-- **DONE when the pilot ran until its requested run time**: the lifetime check
    fires and no cancel request naming the pilot follows — whatever happened
    before, and whatever `terminate`/foreign cancel commands arrive -/
theorem C14_done (c : Cause) (pre post : List Ev) (h : Ev.cancelCmd true ∉ post) :
    bootstrap (some (finalState (run c (pre ++ .lifetimeExpired :: post)))) = .done := by
  have : run c (pre ++ .lifetimeExpired :: post) = .timeout := by
    rw [run_append]
    show run (step (run c pre) .lifetimeExpired) post = .timeout
    have : step (run c pre) .lifetimeExpired = .timeout := rfl
    rw [this]; exact timeout_kept post h
  rw [this]; rfl

/-- **CANCELED when canceled by request** (a cancel command naming the pilot, the
    lifetime not expiring afterwards) -/
theorem C14_canceled (c : Cause) (pre post : List Ev) (h : Ev.lifetimeExpired ∉ post) :
    bootstrap (some (finalState (run c (pre ++ .cancelCmd true :: post)))) = .canceled := by
  have : run c (pre ++ .cancelCmd true :: post) = .cancel := by
    rw [run_append]
    show run (step (run c pre) (.cancelCmd true)) post = .cancel
    have : step (run c pre) (.cancelCmd true) = .cancel := rfl
    rw [this]; exact cancel_kept post h
  rw [this]; rfl

/-- **FAILED otherwise**: no lifetime expiry, no cancel naming the pilot, no
    termination request — whether `finalize` runs (no cause) or the agent dies
    before writing its state -/
theorem C14_failed (evs : List Ev) (h : ∀ e ∈ evs, e = .cancelCmd false) :
    bootstrap (some (finalState (run .none evs))) = .failed ∧ bootstrap none = .failed := by
  have : run .none evs = .none := by
    induction evs with
    | nil => rfl
    | cons e es ih =>
      have he := h e List.mem_cons_self
      subst he
      simp only [run, List.foldl_cons, step]
      exact ih (fun x hx => h x (List.mem_cons_of_mem _ hx))
  rw [this]; exact ⟨rfl, rfl⟩

/-! non-vacuity (tests) -/
example : N = 5 := by decide
example : runPilot N (.nf 0) [.nf 2, .nf 1, .nf 2, .done, .nf 3, .failed]
    = (.done, [.nf 1, .nf 2, .nf 2, .nf 3, .nf 4, .done]) := by decide
example : run .none [.cancelCmd false, .lifetimeExpired, .terminateCmd] = .timeout := by decide

/-! ## the task manager scheduler's view: messages carrying several notifications -/

/-- the task manager scheduler's view of one pilot: `_update_pilot_states` applies `_pilot_state_progress`
    to every notification of a message, in order (a refused contradictory final leaves the state) -/
def track (cur : St) (seq : List St) : St :=
  seq.foldl (fun c t => match pilotProgress N c t with | .ok (t', _) => t' | .error _ => c) cur

theorem progress_val (c t : St) (hc : c.WF N) (ht : t.WF N) :
    ∀ r, (match pilotProgress N c t with | .ok (t', _) => t' | .error _ => c) = r →
      r.WF N ∧ c.val N ≤ r.val N ∧ t.val N ≤ r.val N := by
  intro r hr
  unfold pilotProgress at hr
  have hcv := val_le hc
  have htv := val_le ht
  by_cases h1 : c = .canceled ∧ t.isFinal = true
  · rw [if_pos h1] at hr; simp only at hr; subst hr
    exact ⟨ht, by rw [val_final h1.2]; exact hcv, Nat.le_refl _⟩
  rw [if_neg h1] at hr
  by_cases h2 : c = .failed ∧ t.isFinal = true
  · rw [if_pos h2] at hr; simp only at hr; subst hr
    exact ⟨ht, by rw [val_final h2.2]; exact hcv, Nat.le_refl _⟩
  rw [if_neg h2] at hr
  by_cases h3 : c.isFinal = true ∧ t ≠ c ∧ t.isFinal = true
  · rw [if_pos h3] at hr; simp only at hr; subst hr
    exact ⟨hc, Nat.le_refl _, by rw [val_final h3.1]; exact htv⟩
  rw [if_neg h3] at hr
  by_cases h4 : c.val N ≥ t.val N
  · rw [if_pos h4] at hr; simp only at hr; subst hr
    exact ⟨hc, Nat.le_refl _, h4⟩
  · rw [if_neg h4] at hr; simp only at hr; subst hr
    exact ⟨ht, by omega, Nat.le_refl _⟩

/-- **no notification of a message is lost**: after a message with any number of notifications for a pilot,
    in any order, the tracked state has at least the value of every one of them (and of the state before) -/
theorem C14_tracked_covers (cur : St) (seq : List St) (hc : cur.WF N) (hs : ∀ t ∈ seq, t.WF N) :
    (track cur seq).WF N ∧ cur.val N ≤ (track cur seq).val N ∧ ∀ t ∈ seq, t.val N ≤ (track cur seq).val N := by
  induction seq generalizing cur with
  | nil => exact ⟨hc, Nat.le_refl _, by simp⟩
  | cons t rest ih =>
    have ht := hs t (by simp)
    obtain ⟨w1, w2, w3⟩ := progress_val cur t hc ht _ rfl
    have : track cur (t :: rest) = track (match pilotProgress N cur t with | .ok (t', _) => t' | .error _ => cur) rest := rfl
    rw [this]
    obtain ⟨i1, i2, i3⟩ := ih _ w1 (fun x hx => hs x (by simp [hx]))
    refine ⟨i1, Nat.le_trans w2 i2, ?_⟩
    intro x hx
    rcases List.mem_cons.mp hx with rfl | hx
    · exact Nat.le_trans w3 i2
    · exact i3 x hx

/-! ### the cause reaches the bootstrapper whatever happens to the final notification (round 16) -/

/-- **C14, the end is for the right reason even when the last message is lost**: with the order of `Agent_0.finalize` as
    the translator reads it from the source (`Gen.finalizeWritesCauseFirst`: killme.signal is written before the final
    notification and the tear-down), the state the bootstrapper reports is the one the cause calls for - for every cause,
    whether or not the final notification fails under the closing session; so `C14_done`, `C14_canceled` and
    `C14_failed` above hold for such runs too -/
theorem C14_cause_survives_failed_push (c : Cause) (pushFails : Bool) :
    bootstrap (signalAfterFinalize Gen.finalizeWritesCauseFirst pushFails c) = finalState c := by
  have e : Gen.finalizeWritesCauseFirst = true := by decide
  rw [e]; rfl

/-- the order matters: written after the push, a pilot that ran its time and loses its final notification is
    reported FAILED -/
theorem C14_cause_survives_failed_push_witness :
    bootstrap (signalAfterFinalize false true .timeout) = .failed ∧ finalState .timeout = .done
    ∧ bootstrap (signalAfterFinalize true true .timeout) = .done := by decide

/-! ### a crashed agent is a failed job (round 18) -/

/-- **C14, FAILED otherwise - also for the batch system**: with the exit code of the agent collected right after the `wait`
    (`Gen.bootstrapCollectsAgentCode`, read from bootstrap_0.sh), a pilot whose agent died without writing a final state
    ends FAILED and its job carries the agent's exit code: non-zero whenever the agent's was -/
theorem C14_crashed_agent_failed_job (agentCode : Nat) (h : 0 < agentCode) :
    bootstrap none = .failed ∧ jobExit Gen.bootstrapCollectsAgentCode none agentCode = agentCode
    ∧ 0 < jobExit Gen.bootstrapCollectsAgentCode none agentCode := by
  have e : Gen.bootstrapCollectsAgentCode = true := by decide
  rw [e]
  exact ⟨rfl, rfl, h⟩

/-- with an `echo` between the `wait` and `$?` the crashed pilot's job would exit 0 - DONE for the launcher -/
theorem C14_crashed_agent_witness : jobExit false none 3 = 0 ∧ jobExit true none 3 = 3 ∧ jobExit true (some .done) 143 = 0 := by decide

end RPVerif.C14
