import RPVerif.Model.Bridge
import RPVerif.Gen.Bridge
import RPVerif.Model.Proxy

/-!
# C16 — Client and agents exchange each forwarded message exactly once
-/
namespace RPVerif.C16
open RPVerif.Bridge

/-- `AgentComponent.advance` forwards by default, `ClientComponent.advance` and
    the base class do not (read from the signatures in utils/component.py) -/
theorem advance_defaults :
    Gen.advanceFwdDefaults = [("AgentComponent", true), ("BaseComponent", false), ("ClientComponent", false)] := by
  decide

theorem stamp_some (m : Nat) (msg : Msg) (o : Nat) (h : msg.origin = some o) : stamp m msg = msg := by
  simp [stamp, h]

theorem stamp_none (m : Nat) (msg : Msg) (h : msg.origin = none) :
    stamp m msg = { msg with origin := some m } := by
  simp [stamp, h]

/-- the message put on the proxy carries the sender as origin -/
theorem outFwd_origin (m : Nat) (msg pm : Msg) (h : outFwd m msg = some pm) :
    pm.origin = some m ∧ pm.fwd = some false ∧ pm.body = msg.body := by
  unfold outFwd at h
  cases ho : msg.origin with
  | none =>
    rw [stamp_none m msg ho] at h
    split at h
    · cases h
    · split at h
      · cases h
      · cases h; exact ⟨rfl, rfl, rfl⟩
  | some o =>
    rw [stamp_some m msg o ho] at h
    split at h
    · cases h
    · split at h
      · cases h
      · rename_i h3
        cases h
        exact ⟨by simpa using h3, rfl, rfl⟩

/-- what arrives from the proxy is never forwarded again: the out-forwarder
    cleared the flag on the first hop -/
theorem outFwd_cleared (m u : Nat) (msg pm lm : Msg) (h : outFwd m msg = some pm)
    (h2 : inFwd u pm = some lm) : outFwd u lm = none ∧ lm.origin = some m ∧ lm.fwd = some false := by
  have ⟨o1, o2, _⟩ := outFwd_origin m msg pm h
  unfold inFwd at h2
  rw [stamp_some u pm m o1] at h2
  split at h2
  · cases h2
  · cases h2
    refine ⟨?_, o1, o2⟩
    unfold outFwd
    rw [stamp_some u pm m o1]
    simp [o2]

theorem inFwd_iff (m u : Nat) (pm : Msg) (ho : pm.origin = some m) :
    inFwd u pm = if u = m then none else some pm := by
  unfold inFwd
  rw [stamp_some u pm m ho, ho]
  by_cases h : u = m
  · simp [h]
  · have : ¬ (some m = some u) := fun e => h (Option.some.inj e).symm
    simp [h, this]

/-- the forwarding condition of the out-forwarder -/
theorem outFwd_some_iff (s : Nat) (m : Msg) :
    (∃ pm, outFwd s m = some pm) ↔ (m.fwd = some true ∧ (m.origin = none ∨ m.origin = some s)) := by
  unfold outFwd
  cases ho : m.origin with
  | none =>
    rw [stamp_none s m ho]
    by_cases hf : m.fwd = some true <;> simp [hf]
  | some o =>
    rw [stamp_some s m o ho, ho]
    by_cases hf : m.fwd = some true <;> by_cases h : o = s <;> simp [hf, h]

theorem count_flat (sides : List Nat) (hn : sides.Nodup) (s t : Nat) (pm : Msg) :
    deliveries (sides.flatMap (fun u => if u = s then [] else [(u, pm)])) t
      = if t ∈ sides ∧ t ≠ s then 1 else 0 := by
  induction sides with
  | nil => simp [deliveries]
  | cons x xs ih =>
    have hx := (List.nodup_cons.mp hn)
    have ih' := ih hx.2
    simp only [deliveries, List.flatMap_cons, List.filter_append, List.length_append] at ih' ⊢
    rw [ih']
    by_cases hxs : x = s
    · subst hxs
      by_cases ht : t = x
      · subst ht; simp [hx.1]
      · simp [ht]
    · by_cases ht : t = x
      · subst ht; simp [hxs, hx.1]
      · have : ¬ x = t := fun e => ht e.symm
        simp [hxs, ht, this]

theorem flatMap_congr' {α β : Type} (l : List α) (f g : α → List β) (h : ∀ a ∈ l, f a = g a) :
    l.flatMap f = l.flatMap g := by
  induction l with
  | nil => rfl
  | cons x xs ih =>
    simp only [List.flatMap_cons]
    rw [h x List.mem_cons_self, ih (fun a ha => h a (List.mem_cons_of_mem _ ha))]

/-- two hops are all there ever is: no message circulates -/
theorem localPub_two (sides : List Nat) (fuel : Nat) (s : Nat) (m : Msg) :
    localPub sides (fuel + 2) s m
      = (s, m) :: (match outFwd s m with
                   | none    => []
                   | some pm => sides.flatMap (fun u => if u = s then [] else [(u, pm)])) := by
  rw [localPub]
  cases ho : outFwd s m with
  | none => rfl
  | some pm =>
    simp only
    congr 1
    apply flatMap_congr'
    intro u _
    have ⟨o1, _, _⟩ := outFwd_origin s m pm ho
    rw [inFwd_iff s u pm o1]
    by_cases hu : u = s
    · simp [hu]
    · simp only [hu, if_false]
      have hi : inFwd u pm = some pm := by rw [inFwd_iff s u pm o1]; simp [hu]
      have ⟨c, _, _⟩ := outFwd_cleared s u m pm pm ho hi
      rw [localPub, c]

/-- **C16 (quiescence)**: whatever budget of hops is allowed beyond two, the
    deliveries are the same — the network is quiet after at most two hops -/
theorem C16_quiescent (sides : List Nat) (fuel : Nat) (s : Nat) (m : Msg) :
    localPub sides (fuel + 2) s m = localPub sides 2 s m := by
  rw [localPub_two sides fuel, localPub_two sides 0]

/-- **C16 (full statement)**, one client and any number of pilots (`sides` is any
    duplicate-free list), any originating side `s`, any markers on the message:
    the local subscribers see it exactly once; if it carries the forward flag and
    no foreign origin, every other connected side sees it exactly once; otherwise
    no other side sees it at all. -/
theorem C16 (sides : List Nat) (hn : sides.Nodup) (fuel : Nat) (s : Nat) (_hs : s ∈ sides) (m : Msg) :
    deliveries (localPub sides (fuel + 2) s m) s = 1
    ∧ (m.fwd = some true ∧ (m.origin = none ∨ m.origin = some s) →
         ∀ t ∈ sides, t ≠ s → deliveries (localPub sides (fuel + 2) s m) t = 1)
    ∧ (¬ (m.fwd = some true ∧ (m.origin = none ∨ m.origin = some s)) →
         ∀ t, t ≠ s → deliveries (localPub sides (fuel + 2) s m) t = 0)
    ∧ (∀ t, t ∉ sides → t ≠ s → deliveries (localPub sides (fuel + 2) s m) t = 0) := by
  rw [localPub_two]
  have hd : ∀ (l : List (Nat × Msg)) t, deliveries ((s, m) :: l) t
      = (if s = t then 1 else 0) + deliveries l t := by
    intro l t
    simp only [deliveries, List.filter_cons]
    by_cases h : s = t <;> simp [h] <;> omega
  cases ho : outFwd s m with
  | none =>
    have hno : ¬ (m.fwd = some true ∧ (m.origin = none ∨ m.origin = some s)) := by
      intro h
      have ⟨pm, e⟩ := (outFwd_some_iff s m).mpr h
      rw [ho] at e; cases e
    refine ⟨by simp [deliveries], fun h => absurd h hno, ?_, ?_⟩
    · intro _ t ht
      have : ¬ s = t := fun e => ht e.symm
      simp [deliveries, this]
    · intro t _ ht
      have : ¬ s = t := fun e => ht e.symm
      simp [deliveries, this]
  | some pm =>
    have hyes : m.fwd = some true ∧ (m.origin = none ∨ m.origin = some s) :=
      (outFwd_some_iff s m).mp ⟨pm, ho⟩
    simp only [hd, count_flat sides hn s _ pm]
    refine ⟨by simp, ?_, fun h => absurd hyes h, ?_⟩
    · intro _ t ht hts
      have : ¬ s = t := fun e => hts e.symm
      simp [this, ht, hts]
    · intro t ht hts
      have : ¬ s = t := fun e => hts e.symm
      simp [this, ht]

/-- what the other sides receive is the published body, marked with the sender
    as origin and with the forward flag cleared -/
theorem C16_content (sides : List Nat) (fuel : Nat) (s : Nat) (m : Msg) (t : Nat) (lm : Msg)
    (h : (t, lm) ∈ localPub sides (fuel + 2) s m) (ht : t ≠ s) :
    lm.body = m.body ∧ lm.origin = some s ∧ lm.fwd = some false := by
  rw [localPub_two] at h
  rcases List.mem_cons.mp h with h | h
  · cases h; exact absurd rfl ht
  · cases ho : outFwd s m with
    | none => rw [ho] at h; cases h
    | some pm =>
      rw [ho] at h
      obtain ⟨u, _, hu⟩ := List.mem_flatMap.mp h
      by_cases hus : u = s
      · simp [hus] at hu
      · simp only [hus, if_false, List.mem_singleton] at hu
        have hl : lm = pm := (Prod.mk.inj hu).2
        rw [hl]
        have ⟨a, b, c⟩ := outFwd_origin s m pm ho
        exact ⟨c, a, b⟩

/-- the class default of the `fwd` parameter of `advance`, read from utils/component.py -/
def fwdDefault (cls : String) : Bool :=
  match Gen.advanceFwdDefaults.find? (fun e => e.1 = cls) with
  | some e => e.2
  | none   => false

/-- **state advances**: an agent-side advance without an explicit `fwd` argument reaches the local
    subscribers once and every other connected side exactly once; a client-side advance without the
    argument stays on the client; an explicit argument decides either way, on either side -/
theorem C16_advance (sides : List Nat) (hn : sides.Nodup) (fuel : Nat) (s : Nat) (hs : s ∈ sides)
    (cls : String) (fwdArg : Option Bool) (body : Nat) :
    deliveries (localPub sides (fuel + 2) s (advanceMsg (fwdDefault cls) fwdArg body)) s = 1
    ∧ ((fwdArg = some true ∨ (fwdArg = none ∧ fwdDefault cls = true)) →
         ∀ t ∈ sides, t ≠ s → deliveries (localPub sides (fuel + 2) s (advanceMsg (fwdDefault cls) fwdArg body)) t = 1)
    ∧ ((fwdArg = some false ∨ (fwdArg = none ∧ fwdDefault cls = false)) →
         ∀ t, t ≠ s → deliveries (localPub sides (fuel + 2) s (advanceMsg (fwdDefault cls) fwdArg body)) t = 0) := by
  have h := C16 sides hn fuel s hs (advanceMsg (fwdDefault cls) fwdArg body)
  refine ⟨h.1, fun hf => h.2.1 ⟨?_, Or.inl rfl⟩, fun hf => h.2.2.1 (fun hh => ?_)⟩
  · rcases hf with hf | ⟨hf, hd⟩
    · subst hf; rfl
    · subst hf; simp [advanceMsg, hd]
  · have h1 := hh.1
    rcases hf with hf | ⟨hf, hd⟩
    · subst hf; simp [advanceMsg] at h1
    · subst hf; simp [advanceMsg, hd] at h1

theorem C16_advance_agent_default : fwdDefault "AgentComponent" = true := by decide
theorem C16_advance_client_default : fwdDefault "ClientComponent" = false := by decide

/-! non-vacuity (tests) -/
example : localPub [0, 1, 2] 5 1 ⟨none, some true, 7⟩
    = [(1, ⟨none, some true, 7⟩), (0, ⟨some 1, some false, 7⟩), (2, ⟨some 1, some false, 7⟩)] := by decide
example : localPub [0, 1, 2] 5 1 ⟨some 0, some true, 7⟩ = [(1, ⟨some 0, some true, 7⟩)] := by decide

/-! ### the origin markers of the sides are distinct -/

/-- **distinct markers**: with the marker of a side taken from the pilot uid (as `Session.__init__` does:
    `Gen.moduleFromPilotId`), different sides carry different markers - the hypothesis `sides.Nodup` of the
    theorems above is met by every set of connected sides -/
theorem C16_markers_distinct (sides : List Nat) (hn : sides.Nodup) :
    (sides.map (moduleOf Gen.moduleFromPilotId)).Nodup := by
  have e : Gen.moduleFromPilotId = true := by decide
  rw [e]
  have : sides.map (moduleOf true) = sides := by
    rw [List.map_congr_left (g := id)]
    · simp
    · intro s _; unfold moduleOf; split <;> simp_all
  rw [this]; exact hn

/-- with one marker for all pilots a message forwarded by one pilot never reaches another one -/
example : deliveries (localPub ([0, 1, 2].map (moduleOf false)) 2 1 { origin := none, fwd := some true, body := 7 }) 1 ≠ 1
    ∨ ([0, 1, 2].map (moduleOf false)).Nodup = False := by
  right; decide

/-! ### RPC round trips across the sides (request -> handler -> reply) -/

/-- the `fwd` default of a message type, read from messages.py -/
def msgFwdDefault (t : String) : Bool :=
  match Gen.msgFwdDefaults.find? (fun e => e.1 = t) with
  | some e => e.2
  | none   => false

/-- does `RPCResultMessage(rpc_req=..)` take the forward flag over from the request (messages.py) -/
def rpcCopiesFwd : Bool := Gen.rpcResCopied.contains "fwd"

theorem deliveries_append (a b : List (Nat × Msg)) (t : Nat) :
    deliveries (a ++ b) t = deliveries a t + deliveries b t := by
  simp [deliveries, List.filter_append]

/-- a reply built with the type default `fwd = True` and no copied flag: whatever markers the request
    carried when it reached the handler, every connected side sees as many replies as the handler's
    side saw requests -/
theorem rpc_general (sides : List Nat) (hn : sides.Nodup) (fuel : Nat) (r h : Nat) (hh : h ∈ sides)
    (req : Msg) (t : Nat) (ht : t ∈ sides) :
    deliveries (rpcRoundTrip sides (fuel + 2) true false r h req) t
      = deliveries (localPub sides (fuel + 2) r req) h := by
  unfold rpcRoundTrip
  have key : ∀ (l : List (Nat × Msg)),
      deliveries (l.flatMap (fun d => localPub sides (fuel + 2) h (rpcReply true false d.2))) t = l.length := by
    intro l
    induction l with
    | nil => simp [deliveries]
    | cons d ds ih =>
      rw [List.flatMap_cons, deliveries_append, ih]
      have hc := C16 sides hn fuel h hh (rpcReply true false d.2)
      have hone : deliveries (localPub sides (fuel + 2) h (rpcReply true false d.2)) t = 1 := by
        by_cases e : t = h
        · subst e; exact hc.1
        · exact hc.2.1 ⟨by simp [rpcReply], Or.inl (by simp [rpcReply])⟩ t ht e
      rw [hone, List.length_cons]; omega
  rw [key]
  rfl

/-- **RPC replies**: a request published with the defaults of its message type on any side `r`, handled
    on any side `h` (the same or another one): the reply the handler publishes reaches the subscribers of
    every connected side - the requester's among them - exactly once -/
theorem C16_rpc (sides : List Nat) (hn : sides.Nodup) (fuel : Nat) (r h : Nat) (hr : r ∈ sides) (hh : h ∈ sides)
    (uid : Nat) (t : Nat) (ht : t ∈ sides) :
    deliveries (rpcRoundTrip sides (fuel + 2) (msgFwdDefault "rpc_res") rpcCopiesFwd r h
      { origin := none, fwd := some (msgFwdDefault "rpc_req"), body := uid }) t = 1 := by
  have e1 : msgFwdDefault "rpc_req" = true := by decide
  have e2 : msgFwdDefault "rpc_res" = true := by decide
  have e3 : rpcCopiesFwd = false := by decide
  rw [e1, e2, e3, rpc_general sides hn fuel r h hh _ t ht]
  have hc := C16 sides hn fuel r hr { origin := none, fwd := some true, body := uid }
  by_cases e : h = r
  · subst e; exact hc.1
  · exact hc.2.1 ⟨rfl, Or.inl rfl⟩ h hh e

/-- not vacuous, and the copied flag matters: with a reply that takes the flag over from the request as
    received, the requester on another side never sees the reply -/
example : deliveries (rpcRoundTrip [0, 1, 2] 2 true false 0 1 { origin := none, fwd := some true, body := 7 }) 0 = 1
    ∧ deliveries (rpcRoundTrip [0, 1, 2] 2 true true 0 1 { origin := none, fwd := some true, body := 7 }) 0 = 0 := by
  decide

/-! ## messages published while a side closes -/

theorem C16_close_order : Gen.closeStopsForwardersFirst = false := by decide

/-- **what a closing side publishes with the forward flag still reaches every other side exactly
    once** (`terminate` from the client's `Session.close()`, the `cancel_pilots` of its pilot manager):
    the forwarders are stopped only after these publications (`C16_close_order`, read from the source) -/
theorem C16_close_forwarded (sides : List Nat) (hn : sides.Nodup) (fuel : Nat) (c : Nat) (hc : c ∈ sides) (body : Nat) :
    ∀ t ∈ sides, t ≠ c →
      deliveries (closePub Gen.closeStopsForwardersFirst sides (fuel + 2) c { origin := none, fwd := some true, body := body }) t = 1 := by
  rw [C16_close_order]
  simp only [closePub, Bool.false_eq_true, if_false]
  exact (C16 sides hn fuel c hc _).2.1 ⟨rfl, Or.inl rfl⟩

/-- the order matters: were the forwarders stopped first, no other side would see the message -/
theorem C16_close_order_matters (sides : List Nat) (fuel : Nat) (c t : Nat) (ht : t ≠ c) (m : Msg) :
    deliveries (closePub true sides fuel c m) t = 0 := by
  have : ¬ c = t := fun e => ht e.symm
  simp [closePub, deliveries, this]

/-! ## a pilot's session closes, the others go on -/

theorem C16_unregister_only_primary : Gen.unregisterOnlyPrimary = true := by decide

/-- **when a pilot's side closes its session, the exchange between the remaining sides is what it was**: every
    message one of them publishes with the forward flag still reaches every other remaining side exactly once
    (and the side that closed no more) - because only the client tells the proxy service to end the session's
    channels (`C16_unregister_only_primary`, read from the source) -/
theorem C16_pilot_close_keeps_channels (sides : List Nat) (hn : sides.Nodup) (fuel : Nat) (c : Nat) (hc : c ≠ 0)
    (s : Nat) (hs : s ∈ sides) (hsc : s ≠ c) (body : Nat) :
    (∀ t ∈ sides, t ≠ c → t ≠ s →
      deliveries (localPub (sidesAfterClose Gen.unregisterOnlyPrimary sides c) (fuel + 2) s { origin := none, fwd := some true, body := body }) t = 1)
    ∧ deliveries (localPub (sidesAfterClose Gen.unregisterOnlyPrimary sides c) (fuel + 2) s { origin := none, fwd := some true, body := body }) c = 0 := by
  rw [C16_unregister_only_primary]
  have hrest : sidesAfterClose true sides c = sides.filter (· ≠ c) := by simp [sidesAfterClose, hc]
  rw [hrest]
  have hn' : (sides.filter (· ≠ c)).Nodup := hn.sublist List.filter_sublist
  have hs' : s ∈ sides.filter (· ≠ c) := List.mem_filter.mpr ⟨hs, by simpa using hsc⟩
  obtain ⟨_, h2, _, h4⟩ := C16 (sides.filter (· ≠ c)) hn' fuel s hs' { origin := none, fwd := some true, body := body }
  refine ⟨?_, ?_⟩
  · intro t ht htc hts
    exact h2 ⟨rfl, Or.inl rfl⟩ t (List.mem_filter.mpr ⟨ht, by simpa using htc⟩) hts
  · exact h4 c (by simp) (fun h => hsc h.symm)

/-- the guard matters: were every closing side to send the request, nobody would be connected afterwards -/
example : sidesAfterClose false [0, 1, 2] 1 = [] ∧ sidesAfterClose true [0, 1, 2] 1 = [0, 2] := by decide

/-! ## a side that connects while the others exchange messages -/

/-- **nothing received is lost during set-up**: with the code as it is (`Gen.forwarderPublisherFirst`: the publisher
    of a forwarder exists before the subscriber that feeds it), whenever a message reaches the forwarder's closure
    - at whatever point of the set-up its subscription went live - the closure can publish it -/
theorem C16_setup_no_loss (i : Nat) :
    (setupRun (withArrivalAt (setupOrder Gen.forwarderPublisherFirst) i)).received = true →
    (setupRun (withArrivalAt (setupOrder Gen.forwarderPublisherFirst) i)).forwarded = true := by
  have e : Gen.forwarderPublisherFirst = true := by decide
  rw [e]
  match i with
  | 0 => decide
  | 1 => decide
  | (k + 2) => simp [withArrivalAt, setupOrder, setupRun, setupStep]

/-- the order matters: with the subscriber first a message can be received and not forwarded -/
theorem C16_setup_witness :
    (setupRun (withArrivalAt (setupOrder false) 1)).received = true
    ∧ (setupRun (withArrivalAt (setupOrder false) 1)).forwarded = false := by decide

/-! ### pilots with sub-agents (round 16) -/

theorem wiredSides_false (pilots : List (Nat × Nat)) : wiredSides false pilots = 0 :: pilots.map (·.1) := by
  unfold wiredSides
  congr 1
  induction pilots with
  | nil => rfl
  | cons p ps ih =>
    simp only [List.flatMap_cons, List.map_cons, Bool.false_eq_true, if_false, List.singleton_append] at ih ⊢
    rw [ih]

/-- **C16 for pilots with sub-agents**: a sub-agent session does not install forwarders (`Gen.subAgentsCrosswire`: its
    initialisation path does not reach `_crosswire_proxy`, read from session.py), so whatever the number of sub-agents
    of each pilot, every side carries ONE set of forwarders and a forwarded message reaches every other side exactly once -/
theorem C16_subagents (pilots : List (Nat × Nat)) (hn : (pilots.map (·.1)).Nodup) (h0 : 0 ∉ pilots.map (·.1))
    (fuel : Nat) (s : Nat) (hs : s ∈ wiredSides Gen.subAgentsCrosswire pilots) (m : Msg)
    (hf : m.fwd = some true ∧ (m.origin = none ∨ m.origin = some s)) :
    ∀ t ∈ wiredSides Gen.subAgentsCrosswire pilots, t ≠ s →
      deliveries (localPub (wiredSides Gen.subAgentsCrosswire pilots) (fuel + 2) s m) t = 1 := by
  have e : Gen.subAgentsCrosswire = false := by decide
  rw [e] at hs ⊢
  rw [wiredSides_false] at hs ⊢
  have hnd : (0 :: pilots.map (·.1)).Nodup := List.nodup_cons.mpr ⟨h0, hn⟩
  exact (C16 (0 :: pilots.map (·.1)) hnd fuel s hs m).2.1 hf

/-- were sub-agent sessions to crosswire, the pilot with one sub-agent would receive a forwarded message of the client twice -/
theorem C16_subagents_witness :
    deliveries (localPub (wiredSides true [(1, 1), (2, 0)]) 2 0 ⟨none, some true, 7⟩) 1 = 2
    ∧ deliveries (localPub (wiredSides true [(1, 1), (2, 0)]) 2 0 ⟨none, some true, 7⟩) 2 = 1
    ∧ deliveries (localPub (wiredSides false [(1, 1), (2, 0)]) 2 0 ⟨none, some true, 7⟩) 1 = 1 := by decide

/-! ### the proxy service ends the channels of silent sessions only (round 17) -/

open RPVerif.Proxy in
theorem evict_subset (l : List Nat) : ∀ (s : PS) (c : Client), c ∈ s.clients → c ∉ (evict s l).clients → c.sid ∈ l := by
  induction l with
  | nil => intro s c hc hn; exact absurd hc hn
  | cons sid l ih =>
    intro s c hc hn
    unfold evict at hn
    by_cases hs : c.sid = sid
    · rw [hs]; exact List.mem_cons_self
    · cases hf : s.clients.find? (fun x => x.sid = sid) with
      | none =>
        rw [hf] at hn
        exact List.mem_cons_of_mem _ (ih s c hc hn)
      | some d =>
        rw [hf] at hn
        simp only at hn
        refine List.mem_cons_of_mem _ (ih _ c ?_ hn)
        simp only [List.mem_filter, decide_eq_true_eq]
        exact ⟨hc, hs⟩

open RPVerif.Proxy in
theorem same_of_sid (l : List Client) (h : (l.map (·.sid)).Nodup) (a b : Client) (ha : a ∈ l) (hb : b ∈ l)
    (e : a.sid = b.sid) : a = b := by
  induction l with
  | nil => simp at ha
  | cons x xs ih =>
    simp only [List.map_cons, List.nodup_cons] at h
    rcases List.mem_cons.mp ha with rfl | ha' <;> rcases List.mem_cons.mp hb with rfl | hb'
    · rfl
    · exact absurd (List.mem_map.mpr ⟨b, hb', e.symm⟩) h.1
    · exact absurd (List.mem_map.mpr ⟨a, ha', e⟩) h.1
    · exact ih h.2 ha' hb'

open RPVerif.Proxy in
/-- the registry is keyed by session id: no two records of one id, whatever the sessions do -/
theorem act_nodup (s : PS) (a : Act) (h : (s.clients.map (·.sid)).Nodup) : ((act s a).clients.map (·.sid)).Nodup := by
  cases a with
  | reg sid =>
    simp only [act, List.map_append, List.map_cons, List.map_nil]
    rw [List.nodup_append]
    refine ⟨(List.Sublist.map _ List.filter_sublist).nodup h, by simp, ?_⟩
    intro x hx y hy
    simp only [List.mem_map, List.mem_filter, decide_eq_true_eq] at hx
    obtain ⟨c, ⟨_, hne⟩, rfl⟩ := hx
    simp only [List.mem_singleton] at hy
    rw [hy]; simpa using hne
  | hb sid =>
    simp only [act, List.map_map]
    have : ((fun c : Client => c.sid) ∘ fun c => if c.sid = sid then { c with hb := s.now } else c) = (fun c => c.sid) := by
      funext c; simp only [Function.comp]; split <;> rfl
    rw [this]; exact h
  | skip t => exact h

open RPVerif.Proxy in
/-- **C16, the channels of a live session stay up**: with the eviction list of `Proxy._monitor` made anew in every pass
    (`Gen.proxyEvictionListFresh`, read from proxy.py), a pass of the monitor ends the channels of a registered session
    only if its last heartbeat (or its registration) is older than the timeout AT THAT PASS - whatever happened to the same
    session id before: an earlier registration that timed out and was ended does not count against the new one -/
theorem C16_proxy_ends_silent_only (T : Nat) (s : PS) (hu : (s.clients.map (·.sid)).Nodup) (c : Client) (hc : c ∈ s.clients)
    (hgone : c ∉ (pass Gen.proxyEvictionListFresh T s).clients) : s.now + 1 > c.hb + T := by
  have e : Gen.proxyEvictionListFresh = true := by decide
  rw [e] at hgone
  unfold pass at hgone
  simp only [if_true, List.nil_append] at hgone
  by_cases hl : timedOut T { s with now := s.now + 1 } = []
  · rw [if_pos hl] at hgone
    exact absurd hc hgone
  · rw [if_neg hl] at hgone
    simp only at hgone
    have hm := evict_subset (timedOut T { s with now := s.now + 1 }) { s with now := s.now + 1 } c hc hgone
    simp only [timedOut, List.mem_map, List.mem_filter, decide_eq_true_eq] at hm
    obtain ⟨d, ⟨_, hd⟩, hsid⟩ := hm
    -- (the registry is keyed by session id: the record that timed out is `c` itself)
    have : d = c := same_of_sid s.clients hu d c (by simpa using ‹d ∈ _›) hc hsid
    subst this
    simpa using hd

open RPVerif.Proxy in
/-- the list matters: kept across passes, it still names session 7 after that session was ended for its silence; when the
    same id registers again and sends its heartbeats, the next pass ends the new registration too -/
theorem C16_proxy_witness :
    (run false 10 {} [[.reg 7], [.skip 20], [], [.reg 7, .hb 7], [.hb 7]]).ended = [(7, 1), (7, 2)]
    ∧ (run true 10 {} [[.reg 7], [.skip 20], [], [.reg 7, .hb 7], [.hb 7]]).ended = [(7, 1)]
    ∧ (run true 10 {} [[.reg 7], [.skip 20], [], [.reg 7, .hb 7], [.hb 7]]).clients.map (·.gen) = [2] := by decide

end RPVerif.C16
