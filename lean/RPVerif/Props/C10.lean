import RPVerif.Model.Shell
import RPVerif.Model.Script
import RPVerif.Lemmas.Shell

/-!
# C10 — The generated task scripts run what the user described

Arguments and environment values are arbitrary strings (spaces, quotes, globs, empty,
unicode, newlines); the only hypothesis is `NoExp`: no `$` and no backtick, which bash
expands inside double quotes — `ru.sh_quote` documents that it leaves them alone on purpose.
The executable is a non-empty word of plain characters (it is written unquoted).
-/
namespace RPVerif.C10
open List RPVerif.Shell RPVerif.Script

/-- **argument list**: bash reads the command line `get_exec` writes back as exactly the
    executable followed by the described arguments, whatever characters they contain -/
theorem C10_argv (exe : Str) (args : List Str) (hne : exe ≠ []) (hexe : exe.all plainChar = true)
    (hargs : ∀ a ∈ args, NoExp a) :
    words (execLine exe args) = some (exe :: args) := by
  unfold words execLine
  rw [runc_firstword exe hne hexe]
  have := runc_args args hargs .plain exe [] (Or.inl rfl)
  simpa using this

theorem takeWhile_key (k v : Str) (hkeq : '=' ∉ k) :
    (k ++ '=' :: v).takeWhile (· ≠ '=') = k ∧ ((k ++ '=' :: v).dropWhile (· ≠ '=')).drop 1 = v := by
  induction k with
  | nil => simp [takeWhile, dropWhile]
  | cons a as ih =>
    have ha : a ≠ '=' := fun h => hkeq (by simp [h])
    have has : '=' ∉ as := fun h => hkeq (mem_cons_of_mem _ h)
    obtain ⟨h1, h2⟩ := ih has
    simp only [cons_append, takeWhile, dropWhile, ha, ne_eq, not_false_eq_true, decide_true]
    exact ⟨by rw [h1], h2⟩

/-- **environment**: `export K="V"` as written by `_get_task_env` assigns exactly V to K -/
theorem C10_env (k v : Str) (hk : k ≠ []) (hkc : k.all plainChar = true) (hkeq : '=' ∉ k) (hv : NoExp v) :
    exported (exportLine k v) = some (k, v) := by
  have hw : words (exportLine k v) = some ["export".toList, k ++ '=' :: v] := by
    unfold words exportLine shQuote
    have e1 : "export ".toList ++ k ++ '=' :: '"' :: (escape v ++ ['"'])
        = "export".toList ++ (' ' :: ((k ++ ['=']) ++ '"' :: (escape v ++ '"' :: []))) := by
      simp
    rw [e1, runc_firstword "export".toList (by decide) (by decide)]
    have hk1 : (k ++ ['=']).all plainChar = true := by
      simp only [all_append, hkc, Bool.true_and]; decide
    have step : runc { mode := .plain, cur := "export".toList, done := [] } (' ' :: ((k ++ ['=']) ++ '"' :: (escape v ++ '"' :: [])))
        = runc { mode := .between, cur := [], done := ["export".toList] } ((k ++ ['=']) ++ '"' :: (escape v ++ '"' :: [])) := by
      simp [runc, stepc]
    rw [step, runc_between_word (k ++ ['=']) (by simp) hk1]
    have step2 : runc { mode := .plain, cur := k ++ ['='], done := ["export".toList] } ('"' :: (escape v ++ '"' :: []))
        = runc { mode := .dquote, cur := k ++ ['='], done := ["export".toList] } (escape v ++ '"' :: []) := by
      simp [runc, stepc]
    rw [step2, runc_escape v hv]
    simp [runc, finishO, finish]
  unfold exported
  rw [hw]
  obtain ⟨h1, h2⟩ := takeWhile_key k v hkeq
  simp only [if_true, h1, h2]

/-- the hypotheses are met by hostile-looking arguments, and the statement is about them -/
example : words (execLine "/bin/echo".toList ["a b".toList, [], "x'y".toList, "q\"r".toList, "*".toList, "back\\slash".toList,
                                               "new\nline".toList, "~ ; | & > < ( ) { } [ ] ! #".toList])
    = some ("/bin/echo".toList :: ["a b".toList, [], "x'y".toList, "q\"r".toList, "*".toList, "back\\slash".toList,
                                   "new\nline".toList, "~ ; | & > < ( ) { } [ ] ! #".toList]) := by decide
example : exported (exportLine "CFG".toList "{\"a\": 1} \\ end\\".toList) = some ("CFG".toList, "{\"a\": 1} \\ end\\".toList) := by decide
/-- outside `NoExp` the model declines to answer (bash would expand) -/
example : words (execLine "/bin/echo".toList ["$HOME".toList]) = none := by decide

/-! ## the task sandbox reference -/

/-- `RP_TASK_SANDBOX` is written relative to `$RP_PILOT_SANDBOX`; expanding that variable (bash
    takes the longest name after `$`) gives back the sandbox path, for every absolute path -/
theorem pilotVar_name : pilotVar.all nameChar = true := by decide

theorem C10_sandbox_ref (pwd sbox : Str) (habs : sbox.head? = some '/') :
    expandHead pilotVar pwd (sboxRef true pwd sbox) = sbox := by
  unfold sboxRef
  simp only [if_true]
  split
  · rename_i h
    rcases h with h | h
    · subst h
      have := takeWhile_name pilotVar [] pilotVar_name (by simp)
      simp only [append_nil] at this
      simp only [drop_length, append_nil, expandHead, this.1, this.2, if_true]
    · have hs := isPrefixB_eq _ _ h
      have hsb : sbox = pwd ++ ('/' :: sbox.drop (pwd ++ ['/']).length) := by
        conv => lhs; rw [hs]
        simp
      have hd : sbox.drop pwd.length = '/' :: sbox.drop (pwd ++ ['/']).length := by
        conv => lhs; rw [hsb]
        simp
      rw [hd]
      have := takeWhile_name pilotVar ('/' :: sbox.drop (pwd ++ ['/']).length) pilotVar_name
                (by intro c hc; simp only [head?_cons, Option.some.injEq] at hc; subst hc; decide)
      simp only [expandHead, this.1, this.2, if_true]
      exact hsb.symm
  · cases sbox with
    | nil => simp at habs
    | cons c cs =>
      simp only [head?_cons, Option.some.injEq] at habs
      subst habs
      simp [expandHead]

/-- the original comparison (plain string prefix) was wrong for a sandbox next to the pilot sandbox -/
example : expandHead pilotVar "/s/pilot.0".toList (sboxRef false "/s/pilot.0".toList "/s/pilot.0_data/t".toList)
            ≠ "/s/pilot.0_data/t".toList := by decide
example : expandHead pilotVar "/s/pilot.0".toList (sboxRef true "/s/pilot.0".toList "/s/pilot.0_data/t".toList)
            = "/s/pilot.0_data/t".toList := by decide

/-! ## order of execution and exit code -/

/-- per-rank entries run only on their rank; entries for all ranks run on every rank -/
theorem C10_per_rank (entries : List Entry) (ranks rank c : Nat) (h : c ∈ cmdsFor entries ranks rank) :
    Entry.all c ∈ entries ∨ ∃ m, Entry.perRank m ∈ entries ∧ c ∈ lookupRank rank m := by
  unfold cmdsFor at h
  split at h
  · obtain ⟨e, he, hc⟩ := mem_flatMap.mp h
    cases e with
    | all c' => simp at hc; subst hc; exact Or.inl he
    | perRank m => simp at hc
  · split at h
    · obtain ⟨e, he, hc⟩ := mem_flatMap.mp h
      cases e with
      | all c' => simp at hc; subst hc; exact Or.inl he
      | perRank m => exact Or.inr ⟨m, he, hc⟩
    · simp at h

theorem C10_all_ranks (entries : List Entry) (ranks rank c : Nat) (hr : rank < ranks) (h : Entry.all c ∈ entries) :
    c ∈ cmdsFor entries ranks rank := by
  unfold cmdsFor
  split
  · exact mem_flatMap.mpr ⟨_, h, by simp⟩
  · first | exact mem_flatMap.mpr ⟨_, h, by simp⟩ | (rw [if_pos hr]; exact mem_flatMap.mpr ⟨_, h, by simp⟩)

theorem C10_own_rank (entries : List Entry) (ranks rank c : Nat) (m : List (Nat × List Nat)) (hr : rank < ranks)
    (h : Entry.perRank m ∈ entries) (hc : c ∈ lookupRank rank m) : c ∈ cmdsFor entries ranks rank := by
  unfold cmdsFor
  have : entries.all Entry.isAll = false := by
    apply Bool.eq_false_iff.mpr
    intro hall
    have := all_eq_true.mp hall _ h
    simp [Entry.isAll] at this
  simp only [this, Bool.false_eq_true, if_false, if_pos hr]
  exact mem_flatMap.mpr ⟨_, h, hc⟩

theorem runSeq_all (o : Nat → Nat) (cs : List Nat) (h : ∀ c ∈ cs, o c = 0) : runSeq o cs = (cs, true) := by
  have hb := (runSeq_ok o cs).1.mpr h
  exact Prod.ext ((runSeq_ok o cs).2 hb) hb

theorem runSeq_some (o : Nat → Nat) (cs : List Nat) (h : ∃ c ∈ cs, o c ≠ 0) :
    ∃ ran, runSeq o cs = (ran, false) ∧ ran <+: cs := by
  have hb : (runSeq o cs).2 = false := by
    cases hh : (runSeq o cs).2 with
    | false => rfl
    | true =>
      obtain ⟨c, hc, hne⟩ := h
      exact absurd ((runSeq_ok o cs).1.mp hh c hc) hne
  exact ⟨(runSeq o cs).1, Prod.ext rfl hb, (runSeq_prefix o cs).1⟩

/-- **order, gating and exit code of the exec script**, for every rank, every pre/post list and
    every outcome of every command:
    * all pre commands succeed and all post commands succeed: pre commands, then the executable,
      then the post commands ran, in order, and the exit code is the executable's;
    * a pre command fails: the executable does not run, exit code 1;
    * a post command fails: exit code 1 (the executable ran, once, before). -/
theorem C10_exec (s : ExecScript) (rank : Nat) (o : Nat → Nat) (code : Nat) :
    ((∀ c ∈ cmdsFor s.pre s.ranks rank, o c = 0) → (∀ c ∈ cmdsFor s.post s.ranks rank, o c = 0) →
        runExec s rank o code = ((cmdsFor s.pre s.ranks rank).map Ev.cmd ++ [Ev.exe] ++ (cmdsFor s.post s.ranks rank).map Ev.cmd, code))
    ∧ ((∃ c ∈ cmdsFor s.pre s.ranks rank, o c ≠ 0) →
          ∃ ran, runExec s rank o code = (ran.map Ev.cmd, 1) ∧ ran <+: cmdsFor s.pre s.ranks rank)
    ∧ ((∀ c ∈ cmdsFor s.pre s.ranks rank, o c = 0) → (∃ c ∈ cmdsFor s.post s.ranks rank, o c ≠ 0) →
          ∃ ran, runExec s rank o code = ((cmdsFor s.pre s.ranks rank).map Ev.cmd ++ [Ev.exe] ++ ran.map Ev.cmd, 1)
                 ∧ ran <+: cmdsFor s.post s.ranks rank) := by
  refine ⟨?_, ?_, ?_⟩
  · intro hpre hpost
    unfold runExec
    rw [runSeq_all o _ hpre]; simp only
    rw [runSeq_all o _ hpost]
  · intro hbad
    obtain ⟨ran, he, hp⟩ := runSeq_some o _ hbad
    refine ⟨ran, ?_, hp⟩
    unfold runExec
    rw [he]
  · intro hpre hbad
    obtain ⟨ran, he, hp⟩ := runSeq_some o _ hbad
    refine ⟨ran, ?_, hp⟩
    unfold runExec
    rw [runSeq_all o _ hpre]; simp only
    rw [he]

/-- a failing pre_exec command prevents the executable from running -/
theorem C10_pre_gates_exe (s : ExecScript) (rank : Nat) (o : Nat → Nat) (code : Nat)
    (h : ∃ c ∈ cmdsFor s.pre s.ranks rank, o c ≠ 0) : Ev.exe ∉ (runExec s rank o code).1 := by
  obtain ⟨ran, he, _⟩ := (C10_exec s rank o code).2.1 h
  rw [he]
  intro hmem
  obtain ⟨x, _, hx⟩ := mem_map.mp hmem
  cases hx

/-- **launch script**: a failing pre_launch command prevents the launch; the script's exit code
    is the launcher's unless a pre/post launch command failed -/
theorem C10_launch (l : LaunchScript) (o : Nat → Nat) (codes : List Nat) :
    ((∃ c ∈ l.preLaunch, o c ≠ 0) → ∃ ran : List Nat, runLaunch l o codes = (ran.map LEv.lcmd, 1))
    ∧ ((∀ c ∈ l.preLaunch, o c = 0) → (∀ c ∈ l.postLaunch, o c = 0) →
        (runLaunch l o codes).2 = firstNonZero (runRanks l.exec o codes (List.range l.exec.ranks)).2)
    ∧ ((∀ c ∈ l.preLaunch, o c = 0) → (∃ c ∈ l.postLaunch, o c ≠ 0) → (runLaunch l o codes).2 = 1) := by
  refine ⟨?_, ?_, ?_⟩
  · intro hbad
    obtain ⟨ran, he, _⟩ := runSeq_some o _ hbad
    refine ⟨ran, ?_⟩
    unfold runLaunch
    rw [he]
  · intro hpre hpost
    unfold runLaunch
    rw [runSeq_all o _ hpre]; simp only
    rw [runSeq_all o _ hpost]
  · intro hpre hbad
    obtain ⟨ran, he, _⟩ := runSeq_some o _ hbad
    unfold runLaunch
    rw [runSeq_all o _ hpre]; simp only
    rw [he]

/-- one failing rank does not change what the other ranks run -/
theorem C10_rank_independent (s : ExecScript) (o : Nat → Nat) (codes codes' : List Nat) (r : Nat)
    (h : codes.getD r 0 = codes'.getD r 0) :
    runExec s r o (codes.getD r 0) = runExec s r o (codes'.getD r 0) := by rw [h]

/-- non-vacuity: two ranks, a global and per-rank pre commands, rank 1's second command fails -/
example :
    runLaunch { exec := { ranks := 2, pre := [.all 1, .perRank [(0, [2]), (1, [3, 4])]], post := [.all 5] },
                preLaunch := [], postLaunch := [] }
      (fun c => if c = 4 then 3 else 0) [0, 0]
    = ([.rank 0 [.cmd 1, .cmd 2, .exe, .cmd 5], .rank 1 [.cmd 1, .cmd 3, .cmd 4]], 1) := by decide

/-! ## named environment and described variables -/

theorem envGet_envSet (e : Env) (k v k' : Nat) :
    envGet (envSet e k v) k' = if k' = k then some v else envGet e k' := by
  unfold envGet envSet
  by_cases h : k' = k
  · subst h; simp
  · have h' : ¬ k = k' := fun x => h x.symm
    simp only [List.find?_cons, h', decide_false, if_neg h]
    congr 1
    induction e with
    | nil => rfl
    | cons x xs ih =>
      simp only [List.filter_cons]
      split
      · rw [List.find?_cons, List.find?_cons, ih]
      · rename_i hx
        have hx' : x.1 = k := by simpa using hx
        have hk' : decide (x.1 = k') = false := by
          simp only [decide_eq_false_iff_not]; intro e'; exact h (by rw [← e', hx'])
        rw [ih, List.find?_cons, hk']

theorem runEnv_exports (env : List (Nat × Nat)) (hn : (env.map (·.1)).Nodup) :
    ∀ (e : Env) (k v : Nat), (k, v) ∈ env →
      envGet (runEnv e (env.map (fun kv => EnvAct.export kv.1 kv.2))) k = some v := by
  induction env with
  | nil => intro e k v h; cases h
  | cons kv rest ih =>
    intro e k v h
    have hnr : (rest.map (·.1)).Nodup := (List.nodup_cons.mp hn).2
    have hk : kv.1 ∉ rest.map (·.1) := (List.nodup_cons.mp hn).1
    simp only [List.map_cons, runEnv, List.foldl_cons, applyAct]
    rcases List.mem_cons.mp h with h | h
    · -- this export: no later export touches the key
      subst h
      have key : ∀ (l : List (Nat × Nat)) (e' : Env), (∀ x ∈ l, x.1 ≠ k) → envGet e' k = some v →
          envGet (l.map (fun kv => EnvAct.export kv.1 kv.2) |>.foldl applyAct e') k = some v := by
        intro l
        induction l with
        | nil => intro e' _ h'; exact h'
        | cons y ys ihy =>
          intro e' hl h'
          simp only [List.map_cons, List.foldl_cons, applyAct]
          apply ihy _ (fun x hx => hl x (List.mem_cons_of_mem _ hx))
          rw [envGet_envSet, if_neg (fun e'' => hl y List.mem_cons_self e''.symm)]
          exact h'
      apply key rest _ (fun x hx e' => hk (e' ▸ List.mem_map.mpr ⟨x, hx, rfl⟩))
      rw [envGet_envSet, if_pos rfl]
    · exact ih hnr _ k v h

/-- **the described variables win over the named environment**: whatever the agent's environment
    is and whatever the named environment un-sets or sets, after the task environment section every
    variable of the task description has the described value -/
theorem C10_env_over_named (named : Option (List Nat × List (Nat × Nat))) (env : List (Nat × Nat))
    (hn : (env.map (·.1)).Nodup) (agentEnv : Env) (k v : Nat) (h : (k, v) ∈ env) :
    envGet (runEnv agentEnv (taskEnvActs named env)) k = some v := by
  unfold taskEnvActs runEnv
  rw [List.foldl_append]
  exact runEnv_exports env hn _ k v h

/-- with the two parts the other way round a variable the named environment un-sets is lost (witness) -/
theorem C10_env_order_witness :
    envGet (runEnv [(1, 7)] ([EnvAct.export 1 5] ++ [EnvAct.source [1] []])) 1 = none := by decide

end RPVerif.C10
