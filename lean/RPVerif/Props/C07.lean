import RPVerif.Lemmas.Exec

/-!
# C07 — The executor finishes each task exactly once

`run {} cs` is the executor handling one accepted task under the schedule `cs`:
any interleaving of the intake thread, the process watcher, any number of
`cancel_task` invocations (control thread, timeout watcher, the late check in
`_launch_task`), the process exiting by itself with any code, cancel requests
and timeouts arriving at any moment, and the launch preparation failing.
-/
namespace RPVerif.C07
open RPVerif.Exec List

/-- **safety, for every schedule**: execution start is announced at most once,
    the task is handed on (to output staging, or as FAILED) at most once, its
    resources are asked to be released at most once — and exactly as often as it
    was handed on -/
theorem C07_safety (cs : List Choice) :
    (run {} cs).started ≤ 1
    ∧ (run {} cs).handed + (run {} cs).failed ≤ 1
    ∧ (run {} cs).unsched ≤ 1
    ∧ (run {} cs).unsched = (run {} cs).handed + (run {} cs).failed := by
  have h := inv_run cs {} inv_init
  generalize run {} cs = s at h
  have hu := h.unsched_eq
  by_cases hi : s.intake = .i0
  · obtain ⟨a1, a2, a3, a4, a5⟩ := h.at_i0 hi
    have := (h.noproc (Or.inl (Or.inl hi))).2.2.2.2.1
    omega
  · have ⟨a, b⟩ := h.post_i0 hi
    have hf := h.failed_le
    have hh : s.handed ≤ 1 := by unfold tok at b; omega
    by_cases hf1 : s.failed = 1
    · have := (h.noproc (Or.inr hf1)).2.2.2.2.1
      omega
    · omega

/-- a collected task is never also canceled: the outcome is attached by the one
    thread that removed the uid from `_tasks` under the lock; with `handed <= 1`
    there is one outcome.  (Stated on the token: at most one thread is ever
    between taking the task and handing it on.) -/
theorem C07_single_owner (cs : List Choice) : owners (run {} cs) + (run {} cs).handed ≤ 1 := by
  have h := inv_run cs {} inv_init
  generalize run {} cs = s at h
  by_cases hi : s.intake = .i0
  · obtain ⟨a1, a2, a3, a4, a5⟩ := h.at_i0 hi
    obtain ⟨n1, n2, n3, n4, n5, n6, n7⟩ := h.noproc (Or.inl (Or.inl hi))
    simp only [owners, ownersI, ownersW, ownersC, hi, n6, a5, n5]
    simp
  · have ⟨_, b⟩ := h.post_i0 hi
    unfold tok at b; omega

/-- quiescence: every thread has run to its end and the watcher has nothing left to watch -/
def Done (s : ES) : Prop :=
  s.intake = .iDone ∧ s.watcher = .wIdle ∧ s.watching = false ∧ ∀ c ∈ s.cancels, c = CPc.cDone

/-- **never left behind**: in every quiescent state reachable by any schedule the
    accepted task has been announced once, handed on exactly once (to output
    staging or as FAILED) and its resources have been released exactly once -/
theorem C07_complete (cs : List Choice) (hd : Done (run {} cs)) :
    (run {} cs).started = 1
    ∧ (run {} cs).handed + (run {} cs).failed = 1
    ∧ (run {} cs).unsched = 1 := by
  have h := inv_run cs {} inv_init
  have hl := live_run cs {} inv_init live_init
  generalize run {} cs = s at h hl hd
  obtain ⟨d1, d2, d3, d4⟩ := hd
  have hi : s.intake ≠ .i0 := by rw [d1]; exact fun e => by cases e
  have ⟨a, b⟩ := h.post_i0 hi
  have hu := h.unsched_eq
  have hf := h.failed_le
  by_cases hf1 : s.failed = 1
  · have := (h.noproc (Or.inr hf1)).2.2.2.2.1
    exact ⟨a, by omega, by omega⟩
  · have hf0 : s.failed = 0 := by omega
    have hin : s.inTasks = false := by
      cases hh : s.inTasks
      · rfl
      · rcases hl.watch (by rw [d1]; rfl) hf0 hh with w | w
        · rw [d3] at w; cases w
        · rw [d2] at w; cases w
    have hoC : ownersC s = 0 := by
      unfold ownersC
      apply countP_eq_zero.mpr
      intro c hc; rw [d4 c hc]; simp [CPc.owner]
    have : s.handed = 1 := by
      simp only [tok, owners, ownersI, ownersW, d1, d2, hoC, hin, b2n] at b
      omega
    exact ⟨a, by omega, by omega⟩

/-- a launch failure is reported as FAILED, never handed to output staging -/
theorem C07_fault_outcome (cs : List Choice) (h1 : (run {} cs).failed = 1) : (run {} cs).handed = 0 := by
  have h := inv_run cs {} inv_init
  exact (h.noproc (Or.inr h1)).2.2.2.2.1

/-! non-vacuity (tests): cancel racing process exit, either order, one finisher -/
example : (run {} [.intake, .intake, .intake, .intake, .cancelReq, .cancel 0, .cancel 0, .exit 0,
                   .watcher, .watcher, .watcher, .cancel 0, .cancel 0, .cancel 0, .cancel 0,
                   .watcher, .watcher, .watcher]).outcome = some .canceled := by decide
example : Done (run {} [.intake, .intake, .intake, .intake, .exit 3, .watcher, .watcher, .watcher, .watcher,
                        .watcher, .watcher]) := by
  refine ⟨by decide, by decide, by decide, ?_⟩
  intro c hc; simp [run, step] at hc

end RPVerif.C07
