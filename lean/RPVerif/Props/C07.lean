import RPVerif.Lemmas.Exec
import RPVerif.Model.Noop
import RPVerif.Lemmas.WatchQueue
import RPVerif.Lemmas.Timeout
import RPVerif.Gen.Exec

/-!
# C07 — The executor finishes each task exactly once

`run {} cs` is the executor handling one accepted task under the schedule `cs`:
any interleaving of the intake thread, the process watcher, any number of
`cancel_task` invocations (control thread, timeout watcher, the late check in
`_launch_task`), the process exiting by itself with any code, cancel requests
and timeouts arriving at any moment, and the launch preparation failing.
-/
namespace RPVerif.C07
open RPVerif.Exec List

/-- **safety, for every schedule**: execution start is announced at most once,
    the task is handed on (to output staging, or as FAILED) at most once, its
    resources are asked to be released at most once — and exactly as often as it
    was handed on -/
theorem C07_safety (cs : List Choice) :
    (run {} cs).started ≤ 1
    ∧ (run {} cs).handed + (run {} cs).failed ≤ 1
    ∧ (run {} cs).unsched ≤ 1
    ∧ (run {} cs).unsched = (run {} cs).handed + (run {} cs).failed := by
  have h := inv_run cs {} inv_init
  generalize run {} cs = s at h
  have hu := h.unsched_eq
  by_cases hi : s.intake = .i0
  · obtain ⟨a1, a2, a3, a4, a5⟩ := h.at_i0 hi
    have := (h.noproc (Or.inl (Or.inl hi))).2.2.2.2.1
    omega
  · have ⟨a, b⟩ := h.post_i0 hi
    have hf := h.failed_le
    have hh : s.handed ≤ 1 := by unfold tok at b; omega
    by_cases hf1 : s.failed = 1
    · have := (h.noproc (Or.inr hf1)).2.2.2.2.1
      omega
    · omega

/-- a collected task is never also canceled: the outcome is attached by the one
    thread that removed the uid from `_tasks` under the lock; with `handed <= 1`
    there is one outcome.  (Stated on the token: at most one thread is ever
    between taking the task and handing it on.) -/
theorem C07_single_owner (cs : List Choice) : owners (run {} cs) + (run {} cs).handed ≤ 1 := by
  have h := inv_run cs {} inv_init
  generalize run {} cs = s at h
  by_cases hi : s.intake = .i0
  · obtain ⟨a1, a2, a3, a4, a5⟩ := h.at_i0 hi
    obtain ⟨n1, n2, n3, n4, n5, n6, n7⟩ := h.noproc (Or.inl (Or.inl hi))
    simp only [owners, ownersI, ownersW, ownersC, hi, n6, a5, n5]
    simp
  · have ⟨_, b⟩ := h.post_i0 hi
    unfold tok at b; omega

/-- quiescence: every thread has run to its end and the watcher has nothing left to watch -/
def Done (s : ES) : Prop :=
  s.intake = .iDone ∧ s.watcher = .wIdle ∧ s.watching = false ∧ ∀ c ∈ s.cancels, c = CPc.cDone

/-- **never left behind**: in every quiescent state reachable by any schedule the
    accepted task has been announced once, handed on exactly once (to output
    staging or as FAILED) and its resources have been released exactly once -/
theorem C07_complete (cs : List Choice) (hd : Done (run {} cs)) :
    (run {} cs).started = 1
    ∧ (run {} cs).handed + (run {} cs).failed = 1
    ∧ (run {} cs).unsched = 1 := by
  have h := inv_run cs {} inv_init
  have hl := live_run cs {} inv_init live_init
  generalize run {} cs = s at h hl hd
  obtain ⟨d1, d2, d3, d4⟩ := hd
  have hi : s.intake ≠ .i0 := by rw [d1]; exact fun e => by cases e
  have ⟨a, b⟩ := h.post_i0 hi
  have hu := h.unsched_eq
  have hf := h.failed_le
  by_cases hf1 : s.failed = 1
  · have := (h.noproc (Or.inr hf1)).2.2.2.2.1
    exact ⟨a, by omega, by omega⟩
  · have hf0 : s.failed = 0 := by omega
    have hin : s.inTasks = false := by
      cases hh : s.inTasks
      · rfl
      · rcases hl.watch (by rw [d1]; rfl) hf0 hh with w | w
        · rw [d3] at w; cases w
        · rw [d2] at w; cases w
    have hoC : ownersC s = 0 := by
      unfold ownersC
      apply countP_eq_zero.mpr
      intro c hc; rw [d4 c hc]; simp [CPc.owner]
    have : s.handed = 1 := by
      simp only [tok, owners, ownersI, ownersW, d1, d2, hoC, hin, b2n] at b
      omega
    exact ⟨a, by omega, by omega⟩

/-- a launch failure is reported as FAILED, never handed to output staging -/
theorem C07_fault_outcome (cs : List Choice) (h1 : (run {} cs).failed = 1) : (run {} cs).handed = 0 := by
  have h := inv_run cs {} inv_init
  exact (h.noproc (Or.inr h1)).2.2.2.2.1

/-! non-vacuity (tests): cancel racing process exit, either order, one finisher -/
example : (run {} [.intake, .intake, .intake, .intake, .cancelReq, .cancel 0, .cancel 0, .exit 0,
                   .watcher, .watcher, .watcher, .cancel 0, .cancel 0, .cancel 0, .cancel 0,
                   .watcher, .watcher, .watcher]).outcome = some .canceled := by decide
example : Done (run {} [.intake, .intake, .intake, .intake, .exit 3, .watcher, .watcher, .watcher, .watcher,
                        .watcher, .watcher]) := by
  refine ⟨by decide, by decide, by decide, ?_⟩
  intro c hc; simp [run, step] at hc

/-! ### bulks -/

theorem count_map_ctor {β : Type} [DecidableEq β] (g : Nat → β) (hg : ∀ a b, g a = g b → a = b) (l : List Nat) (a : Nat) :
    (l.map g).count (g a) = l.count a := by
  induction l with
  | nil => rfl
  | cons x xs ih =>
    simp only [map_cons, count_cons, ih]
    by_cases h : x = a
    · subst h; simp
    · have : ¬ g x = g a := fun e => h (hg _ _ e)
      simp [h, this]

theorem count_map_zero {α β : Type} [DecidableEq β] (g : α → β) (l : List α) (e : β) (h : ∀ x, g x ≠ e) :
    (l.map g).count e = 0 :=
  count_eq_zero.mpr (fun hm => by obtain ⟨x, _, hx⟩ := mem_map.mp hm; exact h x hx)

abbrev failing (ts : List (Nat × Bool × Nat)) := ts.filter (fun t => t.2.1)
abbrev launched (ts : List (Nat × Bool × Nat)) := ts.filter (fun t => !t.2.1)

theorem cnt_pairs_unsched (l : List (Nat × Bool × Nat)) (u : Nat) :
    (l.flatMap (fun t => [BEv.unsched t.1, BEv.failed t.1])).count (.unsched u) = (l.map (·.1)).count u := by
  induction l with
  | nil => rfl
  | cons x xs ih =>
    simp only [flatMap_cons, count_append, ih, map_cons, count_cons, count_nil]
    by_cases h : x.1 = u <;> simp [h] <;> omega

theorem cnt_pairs_failed (l : List (Nat × Bool × Nat)) (u : Nat) :
    (l.flatMap (fun t => [BEv.unsched t.1, BEv.failed t.1])).count (.failed u) = (l.map (·.1)).count u := by
  induction l with
  | nil => rfl
  | cons x xs ih =>
    simp only [flatMap_cons, count_append, ih, map_cons, count_cons, count_nil]
    by_cases h : x.1 = u <;> simp [h] <;> omega

theorem cnt_pairs_other (l : List (Nat × Bool × Nat)) (e : BEv) (h1 : ∀ u, e ≠ .unsched u) (h2 : ∀ u, e ≠ .failed u) :
    (l.flatMap (fun t => [BEv.unsched t.1, BEv.failed t.1])).count e = 0 := by
  apply count_eq_zero.mpr
  intro hm
  obtain ⟨t, _, ht⟩ := mem_flatMap.mp hm
  simp only [mem_cons, mem_singleton] at ht
  rcases ht with ht | ht | ht
  · exact h1 _ ht
  · exact h2 _ ht
  · cases ht

theorem cnt_start (ts : List (Nat × Bool × Nat)) (u : Nat) : (bulkEvents ts).count (.start u) = (ts.map (·.1)).count u := by
  simp only [bulkEvents, count_append]
  have h1 := cnt_pairs_other (failing ts) (.start u) (fun _ h => by cases h) (fun _ h => by cases h)
  have h2 := count_map_zero (fun t : Nat × Bool × Nat => BEv.unsched t.1) (launched ts) (.start u) (fun _ h => by cases h)
  have h3 := count_map_zero (fun t : Nat × Bool × Nat => BEv.handed t.1 (t.2.2 == 0)) (launched ts) (.start u) (fun _ h => by cases h)
  have h0 : ts.map (fun t => BEv.start t.1) = (ts.map (·.1)).map BEv.start := by rw [map_map]; rfl
  rw [h0, count_map_ctor BEv.start (fun a b h => by injection h)]
  simp only [failing, launched] at h1 h2 h3
  omega

theorem cnt_unsched (ts : List (Nat × Bool × Nat)) (u : Nat) :
    (bulkEvents ts).count (.unsched u) = ((failing ts).map (·.1)).count u + ((launched ts).map (·.1)).count u := by
  simp only [bulkEvents, count_append]
  have h1 := cnt_pairs_unsched (failing ts) u
  have h2 := count_map_zero (fun t : Nat × Bool × Nat => BEv.start t.1) ts (.unsched u) (fun _ h => by cases h)
  have h3 := count_map_zero (fun t : Nat × Bool × Nat => BEv.handed t.1 (t.2.2 == 0)) (launched ts) (.unsched u) (fun _ h => by cases h)
  have h0 : (launched ts).map (fun t => BEv.unsched t.1) = ((launched ts).map (·.1)).map BEv.unsched := by rw [map_map]; rfl
  have h4 := count_map_ctor BEv.unsched (fun a b h => by injection h) ((launched ts).map (·.1)) u
  rw [← h0] at h4
  simp only [failing, launched] at h1 h2 h3 h4 ⊢
  omega

theorem cnt_failed (ts : List (Nat × Bool × Nat)) (u : Nat) :
    (bulkEvents ts).count (.failed u) = ((failing ts).map (·.1)).count u := by
  simp only [bulkEvents, count_append]
  have h1 := cnt_pairs_failed (failing ts) u
  have h2 := count_map_zero (fun t : Nat × Bool × Nat => BEv.start t.1) ts (.failed u) (fun _ h => by cases h)
  have h3 := count_map_zero (fun t : Nat × Bool × Nat => BEv.handed t.1 (t.2.2 == 0)) (launched ts) (.failed u) (fun _ h => by cases h)
  have h4 := count_map_zero (fun t : Nat × Bool × Nat => BEv.unsched t.1) (launched ts) (.failed u) (fun _ h => by cases h)
  simp only [failing, launched] at h1 h2 h3 h4 ⊢
  omega

theorem cnt_handed_map (l : List (Nat × Bool × Nat)) (u : Nat) (b : Bool) :
    (l.map (fun t => BEv.handed t.1 (t.2.2 == 0))).count (.handed u b) = (l.map (fun t => (t.1, t.2.2 == 0))).count (u, b) := by
  induction l with
  | nil => rfl
  | cons x xs ih =>
    simp only [map_cons, count_cons, ih]
    by_cases h : x.1 = u ∧ (x.2.2 == 0) = b
    · obtain ⟨h1, h2⟩ := h; subst h1; subst h2; simp
    · have h1 : ¬ (BEv.handed x.1 (x.2.2 == 0) = BEv.handed u b) := by
        intro e; injection e with e1 e2; exact h ⟨e1, e2⟩
      have h2 : ¬ ((x.1, x.2.2 == 0) = (u, b)) := by
        intro e; injection e with e1 e2; exact h ⟨e1, e2⟩
      simp [h1, h2]

theorem cnt_handed (ts : List (Nat × Bool × Nat)) (u : Nat) (b : Bool) :
    (bulkEvents ts).count (.handed u b) = ((launched ts).map (fun t => (t.1, t.2.2 == 0))).count (u, b) := by
  simp only [bulkEvents, count_append]
  have h1 := cnt_pairs_other (failing ts) (.handed u b) (fun _ h => by cases h) (fun _ h => by cases h)
  have h2 := count_map_zero (fun t : Nat × Bool × Nat => BEv.start t.1) ts (.handed u b) (fun _ h => by cases h)
  have h3 := count_map_zero (fun t : Nat × Bool × Nat => BEv.unsched t.1) (launched ts) (.handed u b) (fun _ h => by cases h)
  have h4 := cnt_handed_map (launched ts) u b
  simp only [failing, launched] at h1 h2 h3 h4 ⊢
  omega

/-- **every task of a bulk gets its own outcome**: with distinct uids, whatever subset of the bulk
    cannot be launched, every task's start is announced once, its resources are released once, and
    it is handed on exactly once - as FAILED if its own launch failed, to output staging (with its
    own exit code) otherwise; a launch error never touches another task of the bulk -/
theorem C07_bulk (ts : List (Nat × Bool × Nat)) (hn : (ts.map (·.1)).Nodup) (t : Nat × Bool × Nat) (ht : t ∈ ts) :
    (bulkEvents ts).count (.start t.1) = 1
    ∧ (bulkEvents ts).count (.unsched t.1) = 1
    ∧ (bulkEvents ts).count (.failed t.1) = (if t.2.1 then 1 else 0)
    ∧ (bulkEvents ts).count (.handed t.1 (t.2.2 == 0)) = (if t.2.1 then 0 else 1)
    ∧ (∀ b, (bulkEvents ts).count (.handed t.1 b) ≤ (if t.2.1 then 0 else 1)) := by
  have hmem : t.1 ∈ ts.map (·.1) := mem_map.mpr ⟨t, ht, rfl⟩
  -- the uid lists of the failing and the launched tasks are sublists of the bulk's
  have hfn : ((failing ts).map (·.1)).Nodup := hn.sublist (filter_sublist.map _)
  have hln : ((launched ts).map (·.1)).Nodup := hn.sublist (filter_sublist.map _)
  -- a uid occurs once in the bulk, so `t` is the only task with it
  have huniq : ∀ y ∈ ts, y.1 = t.1 → y = t := by
    intro y hy e
    obtain ⟨i, hi⟩ := getElem?_of_mem hy
    obtain ⟨j, hj⟩ := getElem?_of_mem ht
    have hil : i < (ts.map (·.1)).length := by rw [length_map]; exact (List.getElem?_eq_some_iff.mp hi).1
    have : i = j := (getElem?_inj hil hn).mp (by rw [getElem?_map, getElem?_map, hi, hj]; simp [e])
    subst this; rw [hi] at hj; exact Option.some.inj hj
  have hf_mem : t.1 ∈ (failing ts).map (·.1) ↔ t.2.1 = true := by
    constructor
    · intro h; obtain ⟨y, hy, e⟩ := mem_map.mp h
      have hy' := mem_filter.mp hy
      rw [huniq y hy'.1 e] at hy'; simpa using hy'.2
    · intro h; exact mem_map.mpr ⟨t, mem_filter.mpr ⟨ht, by simpa using h⟩, rfl⟩
  have hl_mem : t.1 ∈ (launched ts).map (·.1) ↔ t.2.1 = false := by
    constructor
    · intro h; obtain ⟨y, hy, e⟩ := mem_map.mp h
      have hy' := mem_filter.mp hy
      rw [huniq y hy'.1 e] at hy'; simpa using hy'.2
    · intro h; exact mem_map.mpr ⟨t, mem_filter.mpr ⟨ht, by simpa using h⟩, rfl⟩
  have hpn : ((launched ts).map (fun t => (t.1, t.2.2 == 0))).Nodup := by
    have : ((launched ts).map (fun t => (t.1, t.2.2 == 0))).map (·.1) = (launched ts).map (·.1) := by rw [map_map]; rfl
    have hp : (((launched ts).map (fun t => (t.1, t.2.2 == 0))).map (·.1)).Pairwise (· ≠ ·) := this ▸ hln
    exact Pairwise.of_map (fun p : Nat × Bool => p.1) (fun a b hab e => hab (by rw [e])) hp
  refine ⟨by rw [cnt_start, hn.count, if_pos hmem], ?_, ?_, ?_, ?_⟩
  · rw [cnt_unsched, hfn.count, hln.count]
    cases hb : t.2.1
    · rw [if_neg (by rw [hf_mem, hb]; simp), if_pos (hl_mem.mpr hb)]
    · rw [if_pos (hf_mem.mpr hb), if_neg (by rw [hl_mem, hb]; simp)]
  · rw [cnt_failed, hfn.count]
    cases hb : t.2.1
    · rw [if_neg (by rw [hf_mem, hb]; simp)]; rfl
    · rw [if_pos (hf_mem.mpr hb)]; rfl
  · rw [cnt_handed, hpn.count]
    cases hb : t.2.1
    · have : (t.1, t.2.2 == 0) ∈ (launched ts).map (fun t => (t.1, t.2.2 == 0)) :=
        mem_map.mpr ⟨t, mem_filter.mpr ⟨ht, by simp [hb]⟩, rfl⟩
      rw [if_pos this]; rfl
    · have : (t.1, t.2.2 == 0) ∉ (launched ts).map (fun t => (t.1, t.2.2 == 0)) := by
        intro h; obtain ⟨y, hy, e⟩ := mem_map.mp h
        have e1 : y.1 = t.1 := (Prod.mk.inj e).1
        have := hl_mem.mp (mem_map.mpr ⟨y, hy, e1⟩)
        rw [hb] at this; cases this
      rw [if_neg this]; rfl
  · intro b
    rw [cnt_handed, hpn.count]
    cases hb : t.2.1
    · split <;> simp
    · have : (t.1, b) ∉ (launched ts).map (fun t => (t.1, t.2.2 == 0)) := by
        intro h; obtain ⟨y, hy, e⟩ := mem_map.mp h
        have e1 : y.1 = t.1 := (Prod.mk.inj e).1
        have := hl_mem.mp (mem_map.mpr ⟨y, hy, e1⟩)
        rw [hb] at this; cases this
      rw [if_neg this]; simp

example : bulkEvents [(0, false, 0), (1, true, 0), (2, false, 3)]
    = [.start 0, .start 1, .start 2, .unsched 1, .failed 1, .unsched 0, .unsched 2, .handed 0 true, .handed 2 false] := by decide

/-! ### the NOOP executor -/

section noop
open RPVerif.Noop

/-- what the invariant says about a state after the operations `ops` -/
structure NoopInv (ops : List Op) (s : St) : Prop where
  started : ∀ u, s.evs.count (.start u) = (accepted ops).count u
  cons    : ∀ u, (accepted ops).count u = s.tasks.count u + s.evs.count (.handed u)
  paired  : ∀ u, s.evs.count (.unsched u) = s.evs.count (.handed u)

theorem accepted_append (a b : List Op) : accepted (a ++ b) = accepted a ++ accepted b := by
  induction a with
  | nil => rfl
  | cons o os ih => cases o <;> simp [accepted, ih]

theorem count_filter_split (l : List Nat) (p : Nat → Bool) (u : Nat) :
    l.count u = (l.filter p).count u + (l.filter (fun x => !p x)).count u := by
  induction l with
  | nil => rfl
  | cons x xs ih =>
    simp only [filter_cons]
    cases hp : p x <;> simp [count_cons, ih] <;> omega

theorem noop_step_inv (ops : List Op) (s : St) (o : Op) (h : NoopInv ops s) : NoopInv (ops ++ [o]) (Noop.step s o) := by
  have hst : ∀ (l : List Nat) (u : Nat), (l.map Ev.start).count (.start u) = l.count u :=
    fun l u => count_map_ctor Ev.start (fun a b e => by injection e) l u
  have hun : ∀ (l : List Nat) (u : Nat), (l.map Ev.unsched).count (.unsched u) = l.count u :=
    fun l u => count_map_ctor Ev.unsched (fun a b e => by injection e) l u
  have hha : ∀ (l : List Nat) (u : Nat), (l.map Ev.handed).count (.handed u) = l.count u :=
    fun l u => count_map_ctor Ev.handed (fun a b e => by injection e) l u
  cases o with
  | work b =>
    have hacc : accepted (ops ++ [Op.work b]) = accepted ops ++ b := by
      rw [accepted_append]; simp [accepted]
    refine ⟨?_, ?_, ?_⟩
    · intro u
      simp only [Noop.step, count_append, hacc, hst, h.started u]
    · intro u
      simp only [Noop.step, count_append, hacc]
      rw [count_map_zero Ev.start b (.handed u) (fun _ e => by cases e)]
      have := h.cons u; omega
    · intro u
      simp only [Noop.step, count_append]
      rw [count_map_zero Ev.start b (.unsched u) (fun _ e => by cases e),
          count_map_zero Ev.start b (.handed u) (fun _ e => by cases e)]
      have := h.paired u; omega
  | collect due =>
    have hacc : accepted (ops ++ [Op.collect due]) = accepted ops := by
      rw [accepted_append]; simp [accepted]
    refine ⟨?_, ?_, ?_⟩
    · intro u
      simp only [Noop.step, count_append, hacc]
      rw [count_map_zero Ev.unsched _ (.start u) (fun _ e => by cases e),
          count_map_zero Ev.handed _ (.start u) (fun _ e => by cases e)]
      have := h.started u; omega
    · intro u
      simp only [Noop.step, count_append, hacc, hha]
      rw [count_map_zero Ev.unsched _ (.handed u) (fun _ e => by cases e)]
      have h1 := h.cons u
      have h2 := count_filter_split s.tasks (fun x => due.contains x) u
      omega
    · intro u
      simp only [Noop.step, count_append, hun, hha]
      rw [count_map_zero Ev.handed _ (.unsched u) (fun _ e => by cases e),
          count_map_zero Ev.unsched _ (.handed u) (fun _ e => by cases e)]
      have := h.paired u; omega

theorem noop_run_inv (ops : List Op) : NoopInv ops (Noop.run ops) := by
  have key : ∀ (todo done : List Op) (s : St), NoopInv done s → NoopInv (done ++ todo) (todo.foldl Noop.step s) := by
    intro todo
    induction todo with
    | nil => intro done s h; simpa using h
    | cons o os ih =>
      intro done s h
      have := ih (done ++ [o]) (Noop.step s o) (noop_step_inv done s o h)
      simpa [List.append_assoc] using this
  have := key ops [] {} ⟨fun _ => rfl, fun _ => rfl, fun _ => rfl⟩
  simpa [Noop.run] using this

/-- **the NOOP executor neither loses nor duplicates a task**: for every sequence of `work` calls and
    collector passes (any bulks, any deadlines), every task handed to `work` was announced once and is
    either still held or was handed on - never both, never twice when uids are distinct - and the
    unschedule message was published exactly as often as the task was handed on -/
theorem C07_noop (ops : List Op) (u : Nat) :
    (Noop.run ops).evs.count (.start u) = (accepted ops).count u
    ∧ (accepted ops).count u = (Noop.run ops).tasks.count u + (Noop.run ops).evs.count (.handed u)
    ∧ (Noop.run ops).evs.count (.unsched u) = (Noop.run ops).evs.count (.handed u) :=
  ⟨(noop_run_inv ops).started u, (noop_run_inv ops).cons u, (noop_run_inv ops).paired u⟩

/-- ... and after a collector pass for which every deadline has passed nothing is left behind: every
    accepted task (distinct uids) was handed on exactly once and released exactly once -/
theorem C07_noop_complete (ops : List Op) (due : List Nat) (hn : (accepted ops).Nodup)
    (hd : ∀ u ∈ (Noop.run ops).tasks, u ∈ due) (u : Nat) (hu : u ∈ accepted ops) :
    (Noop.run (ops ++ [.collect due])).tasks = []
    ∧ (Noop.run (ops ++ [.collect due])).evs.count (.handed u) = 1
    ∧ (Noop.run (ops ++ [.collect due])).evs.count (.unsched u) = 1 := by
  have hrun : Noop.run (ops ++ [.collect due]) = Noop.step (Noop.run ops) (.collect due) := by
    simp [Noop.run, List.foldl_append]
  have hinv := noop_run_inv (ops ++ [.collect due])
  have hacc : accepted (ops ++ [Op.collect due]) = accepted ops := by
    rw [accepted_append]; simp [accepted]
  have hempty : (Noop.step (Noop.run ops) (.collect due)).tasks = [] := by
    simp only [Noop.step]
    apply filter_eq_nil_iff.mpr
    intro x hx
    simp [List.contains_iff_mem, hd x hx]
  rw [hrun] at hinv ⊢
  refine ⟨hempty, ?_, ?_⟩
  · have := hinv.cons u
    rw [hacc, hempty, hn.count, if_pos hu] at this
    simpa using this.symm
  · have h1 := hinv.cons u
    have h2 := hinv.paired u
    rw [hacc, hempty, hn.count, if_pos hu] at h1
    simp at h1
    omega

end noop

/-! ## never left behind: the watcher's intake and the run-time limit -/

open RPVerif.WatchQueue in
/-- **no launched task is lost between the intake and the watcher**: over every history of bursts of launched
    tasks and watcher passes, with any bulk limit per pass and whatever the processes do, each task is in
    exactly as many places - still queued, on the watch list, or collected - as it was put on the queue -/
theorem C07_watch_queue_conserves (limit : Nat) (ops : List Op) (t : Nat) :
    cnt (run limit {} ops) t = (enqueued ops).count t := by
  rw [run_cnt]; simp [cnt]

open RPVerif.WatchQueue in
/-- the queue is drained `limit` tasks per pass: after `k` passes without new arrivals at most
    `|queue| - k * limit` launched tasks have not yet been looked at -/
theorem C07_watch_queue_drains (limit : Nat) (w : WQ) (exs : List (List Nat)) :
    (run limit w (exs.map Op.pass)).queue.length = w.queue.length - exs.length * limit :=
  drain limit w exs

open RPVerif.Timeout in
/-- **a run-time limit that has passed is enforced at the next pass of the timeout watcher**: whatever entry
    the watcher holds for a task after taking in what was handed to it - if its cancel time is a real
    deadline and lies in the past, `cancel_task` is called for that task in this pass -/
theorem C07_deadline_enforced (w : TW) (now u ct : Nat) (hm : (u, ct) ∈ w.pending.foldl merge w.table)
    (h0 : ct ≠ 0) (hlt : ct < now) : u ∈ (pass w now).2 :=
  pass_enforces w now u ct hm h0 hlt

/-- test: 5 tasks launched in one burst, bulk limit 4: the fifth is looked at in the second pass -/
example : (WatchQueue.run 4 {} [.enq [0, 1, 2, 3, 4], .pass []]).watching = [0, 1, 2, 3]
    ∧ (WatchQueue.run 4 {} [.enq [0, 1, 2, 3, 4], .pass [], .pass []]).watching = [0, 1, 2, 3, 4] := by decide

/-! ### a launched task is never forgotten by the watcher (round 17) -/

open RPVerif.WatchQueue in
/-- **C07, never left behind at the hand-over**: with the order of `Popen._launch_task` as the translator reads it
    (`Gen.procAttachedBeforeQueued`: the process handle is on the task before the task is queued for the watcher),
    at whatever moment of the launch the watcher thread makes a pass, it never meets a queued task without its handle -
    the case it takes for "finalised by the cancel path" and drops for good -/
theorem C07_launched_task_never_dropped (i : Nat) :
    (launchRun (withWatchAt (launchOrder Gen.procAttachedBeforeQueued) i)).dropped = false := by
  have e : Gen.procAttachedBeforeQueued = true := by decide
  rw [e]
  match i with
  | 0 => decide
  | 1 => decide
  | (k + 2) => simp [withWatchAt, launchOrder, launchRun, launchStep]

open RPVerif.WatchQueue in
/-- the order matters: queued first, a pass of the watcher between the two statements forgets the task -/
theorem C07_launched_task_witness :
    (launchRun (withWatchAt (launchOrder false) 1)).dropped = true := by decide

end RPVerif.C07
