import RPVerif.Model.RM
import RPVerif.Lemmas.Launch

/-!
# C18 — The pilot offers exactly the nodes it was allocated
-/
namespace RPVerif.C18
open RPVerif.RM List

/-! ## node file -> (host, slots) -/

def hostsOf : List Line → List Name
  | []            => []
  | .host n :: ls => n :: hostsOf ls
  | _ :: ls       => hostsOf ls

theorem countHosts_spec (ls : List Line) (acc res : List (Name × Nat))
    (ha : (acc.map Prod.fst).Nodup) (h : countHosts ls acc = some res) :
    (res.map Prod.fst).Nodup
    ∧ (∀ n, n ∈ res.map Prod.fst ↔ n ∈ acc.map Prod.fst ∨ n ∈ hostsOf ls) := by
  induction ls generalizing acc with
  | nil =>
    simp only [countHosts, Option.some.injEq] at h
    subst h
    exact ⟨ha, fun n => by simp [hostsOf]⟩
  | cons l ls ih =>
    cases l with
    | blank => simpa [countHosts, hostsOf] using ih acc ha h
    | bad => simp [countHosts] at h
    | host n =>
      unfold countHosts at h
      by_cases hin : acc.any (fun e => e.1 = n) = true
      · rw [if_pos hin] at h
        have hm : (acc.map (fun e => if e.1 = n then (e.1, e.2 + 1) else e)).map Prod.fst = acc.map Prod.fst := by
          rw [map_map]; apply map_congr_left; intro e _; by_cases he : e.1 = n <;> simp [he]
        have ⟨r1, r2⟩ := ih _ (by rw [hm]; exact ha) h
        refine ⟨r1, fun x => ?_⟩
        rw [r2 x, hm]
        simp only [hostsOf, mem_cons]
        have hn : n ∈ acc.map Prod.fst := by
          obtain ⟨e, he, hen⟩ := any_eq_true.mp hin
          exact mem_map.mpr ⟨e, he, by simpa using hen⟩
        constructor
        · rintro (h1 | h1)
          · exact Or.inl h1
          · exact Or.inr (Or.inr h1)
        · rintro (h1 | h1 | h1)
          · exact Or.inl h1
          · exact Or.inl (h1 ▸ hn)
          · exact Or.inr h1
      · rw [if_neg hin] at h
        have hn : n ∉ acc.map Prod.fst := by
          intro hc
          obtain ⟨e, he, hen⟩ := mem_map.mp hc
          exact hin (any_eq_true.mpr ⟨e, he, by simpa using hen⟩)
        have ha' : ((acc ++ [(n, 1)]).map Prod.fst).Nodup := by
          rw [map_append, nodup_append]
          refine ⟨ha, by simp, ?_⟩
          intro a ha1 b hb
          simp only [map_cons, map_nil, mem_singleton] at hb
          subst hb
          intro e; exact hn (e ▸ ha1)
        have ⟨r1, r2⟩ := ih _ ha' h
        refine ⟨r1, fun x => ?_⟩
        rw [r2 x]
        simp only [map_append, map_cons, map_nil, mem_append, hostsOf, mem_cons]
        constructor
        · rintro ((h1 | h1) | h1)
          · exact Or.inl h1
          · exact Or.inr (Or.inl (by simpa using h1))
          · exact Or.inr (Or.inr h1)
        · rintro (h1 | h1 | h1)
          · exact Or.inl (Or.inl h1)
          · exact Or.inl (Or.inr (by simpa using h1))
          · exact Or.inr h1

/-- **one entry per allocated host**: the parsed node file names every host of
    the file exactly once (repeated lines are counted, not repeated), whatever
    the `cpn`/`smt` arguments; blank lines are not hosts -/
theorem C18_parse (ls : List Line) (cpn smt : Nat) :
    ((parseNodefile ls cpn smt).map Prod.fst).Nodup
    ∧ (∀ n, n ∈ (parseNodefile ls cpn smt).map Prod.fst → n ∈ hostsOf ls)
    ∧ (Line.bad ∉ ls → ∀ n, n ∈ hostsOf ls → n ∈ (parseNodefile ls cpn smt).map Prod.fst) := by
  unfold parseNodefile
  cases h : countHosts ls [] with
  | none =>
    refine ⟨by simp, by simp, ?_⟩
    intro hb
    -- without a bad line counting cannot fail
    have : ∀ (l : List Line) acc, Line.bad ∉ l → countHosts l acc ≠ none := by
      intro l
      induction l with
      | nil => intro acc _; simp [countHosts]
      | cons x xs ih =>
        intro acc hx
        have hxs : Line.bad ∉ xs := fun e => hx (mem_cons_of_mem _ e)
        cases x with
        | blank => simpa [countHosts] using ih acc hxs
        | bad => exact absurd mem_cons_self hx
        | host n => unfold countHosts; split <;> exact ih _ hxs
    exact absurd h (this ls [] hb)
  | some acc =>
    have ⟨r1, r2⟩ := countHosts_spec ls [] acc (by simp) h
    have hm : (acc.map (fun e => (e.1, (if cpn ≠ 0 then cpn else e.2) * (if smt = 0 then 1 else smt)))).map Prod.fst
        = acc.map Prod.fst := by rw [map_map]; rfl
    simp only [hm]
    exact ⟨r1, fun n hn => by simpa using (r2 n).mp hn, fun _ n hn => (r2 n).mpr (Or.inr hn)⟩

/-- with a configured `cores_per_node` every host gets that many slots (times
    the hardware-thread multiplier), however often its line is repeated -/
theorem C18_parse_cpn (ls : List Line) (cpn smt : Nat) (hc : cpn ≠ 0) :
    ∀ e ∈ parseNodefile ls cpn smt, e.2 = cpn * (if smt = 0 then 1 else smt) := by
  unfold parseNodefile
  cases countHosts ls [] with
  | none => simp
  | some acc => intro e he; obtain ⟨x, _, rfl⟩ := mem_map.mp he; simp [hc]

/-! ## (host, slots) -> node list -/

theorem nodeListFrom_spec (nodes : List (Name × Nat)) (gpn start : Nat) :
    (nodeListFrom nodes gpn start).map (·.index) = (List.range nodes.length).map (· + start)
    ∧ (nodeListFrom nodes gpn start).map (·.name) = nodes.map Prod.fst
    ∧ (nodeListFrom nodes gpn start).map (fun n => n.cores.length) = nodes.map Prod.snd
    ∧ ∀ n ∈ nodeListFrom nodes gpn start, n.gpus.length = gpn
        ∧ (∀ o ∈ n.cores, o = .free) ∧ (∀ o ∈ n.gpus, o = .free) := by
  induction nodes generalizing start with
  | nil => simp [nodeListFrom]
  | cons x xs ih =>
    have ⟨i1, i2, i3, i4⟩ := ih (start + 1)
    refine ⟨?_, ?_, ?_, ?_⟩
    · simp only [nodeListFrom, map_cons, i1, length_cons, range_succ_eq_map, map_cons, map_map]
      congr 1
      · simp
      · apply map_congr_left; intro a _; simp; omega
    · simp [nodeListFrom, i2]
    · simp [nodeListFrom, i3]
    · intro n hn
      simp only [nodeListFrom, mem_cons] at hn
      rcases hn with rfl | hn
      · simp
      · exact i4 n hn

/-- **unique indices, configured size**: `_get_node_list` numbers the nodes
    0,1,2,… and gives each the slot count of its host and `gpus_per_node` GPUs -/
theorem C18_node_list (nodes : List (Name × Nat)) (gpn : Nat) :
    ((getNodeList nodes gpn).map (·.index)) = List.range nodes.length
    ∧ ((getNodeList nodes gpn).map (·.index)).Nodup
    ∧ (getNodeList nodes gpn).map (·.name) = nodes.map Prod.fst
    ∧ (getNodeList nodes gpn).map (fun n => n.cores.length) = nodes.map Prod.snd
    ∧ ∀ n ∈ getNodeList nodes gpn, n.gpus.length = gpn := by
  have ⟨i1, i2, i3, i4⟩ := nodeListFrom_spec nodes gpn 0
  have h1 : (getNodeList nodes gpn).map (·.index) = List.range nodes.length := by
    simpa [getNodeList] using i1
  exact ⟨h1, by rw [h1]; exact nodup_range, i2, i3, fun n hn => (i4 n hn).1⟩

/-! ## blocked cores / GPUs -/

theorem markDown_spec (l : List Occ) (blocked : List Nat) :
    (markDown l blocked).length = l.length
    ∧ ∀ i, i < l.length → ((markDown l blocked).getD i .free = .down ↔ (i ∈ blocked ∨ l.getD i .free = .down)) := by
  unfold markDown
  refine ⟨by simp, ?_⟩
  intro i hi
  rw [getD_eq_getElem?_getD, getElem?_map, getElem?_range hi]
  simp only [Option.map_some, Option.getD_some]
  by_cases hb : i ∈ blocked <;> simp [hb]

/-! ## reduction to the requested size, agent and service nodes -/

theorem popN_spec (l : List Node) (k : Nat) (hk : k ≤ l.length) :
    (popN l k).1 ++ (popN l k).2.reverse = l ∧ (popN l k).2.length = k := by
  induction k generalizing l with
  | zero => simp [popN]
  | succ k ih =>
    unfold popN
    cases hl : l.getLast? with
    | none =>
      have : l = [] := by simpa using hl
      subst this; simp at hk
    | some x =>
      simp only
      have hne : l ≠ [] := by intro e; subst e; simp at hl
      have hlen : k ≤ l.dropLast.length := by simp; omega
      have ⟨i1, i2⟩ := ih l.dropLast hlen
      rcases hp : popN l.dropLast k with ⟨rest, popped⟩
      rw [hp] at i1 i2
      simp only at i1 i2 ⊢
      refine ⟨?_, by simp [i2]⟩
      rw [reverse_cons, ← append_assoc, i1]
      have hx : x = l.getLast hne := by
        have := getLast?_eq_some_getLast hne
        rw [hl] at this; exact Option.some.inj this
      rw [hx]
      exact dropLast_concat_getLast hne

/-- **C18 (final node list)**: whenever initialisation succeeds, the offered
    list is never empty, never longer than the number of nodes the pilot asked
    for, its indices are unique, it shares no node with the agent / service
    lists, and the three lists together are exactly the first `requestedNodes`
    usable nodes -/
theorem reachable_sublist (c : Cfg) (nodes : List Node) (reach : List Nat) :
    (reachable c nodes reach).Sublist nodes := by
  unfold reachable
  split
  · exact filter_sublist
  · exact Sublist.refl _

theorem C18_final (c : Cfg) (nodes : List Node) (cpn : Nat) (reach : List Nat) (info : Info)
    (hidx : (nodes.map (·.index)).Nodup) (h : finish c nodes cpn reach = .ok info) :
    info.nodeList ≠ []
    ∧ info.nodeList.length + info.agentNodes.length + info.serviceNodes.length ≤ info.requestedNodes
    ∧ info.agentNodes.length = c.agentNodes ∧ info.serviceNodes.length = c.serviceNodes
    ∧ ((info.nodeList ++ info.serviceNodes.reverse ++ info.agentNodes.reverse).map (·.index)).Nodup
    ∧ (∀ n ∈ info.nodeList, n ∉ info.agentNodes ∧ n ∉ info.serviceNodes)
    ∧ (∀ n ∈ info.nodeList ++ info.agentNodes ++ info.serviceNodes,
        ∃ m ∈ nodes, n.index = m.index ∧ n.name = m.name
          ∧ n.cores = markDown m.cores c.blockedCores ∧ n.gpus = markDown m.gpus c.blockedGpus) := by
  unfold finish at h
  split at h
  · cases h
  split at h
  · cases h
  split at h
  · cases h
  split at h
  · cases h
  split at h
  · cases h
  split at h
  · cases h
  split at h
  · cases h
  rename_i hlen hrn0
  cases h
  simp only
  generalize hcut : (reachable c (blockNodes c nodes) reach).take (reqNodes c cpn) = cut at *
  have hcl : c.agentNodes + c.serviceNodes < cut.length := by omega
  have ⟨a1, a2⟩ := popN_spec cut c.agentNodes (by omega)
  generalize hp1 : popN cut c.agentNodes = p1 at *
  obtain ⟨rest, ag⟩ := p1
  simp only at a1 a2 ⊢
  have hrest : rest.length = cut.length - c.agentNodes := by
    have := congrArg length a1
    simp only [length_append, length_reverse] at this
    omega
  have ⟨s1, s2⟩ := popN_spec rest c.serviceNodes (by omega)
  generalize hp2 : popN rest c.serviceNodes = p2 at *
  obtain ⟨rest2, sv⟩ := p2
  simp only at s1 s2 ⊢
  have hrest2 : rest2.length = rest.length - c.serviceNodes := by
    have := congrArg length s1
    simp only [length_append, length_reverse] at this
    omega
  have hall : rest2 ++ sv.reverse ++ ag.reverse = cut := by rw [s1, a1]
  have hsub2 : cut.Sublist (blockNodes c nodes) := by
    rw [← hcut]; exact (take_sublist _ _).trans (reachable_sublist c _ reach)
  have hidx1 : ((blockNodes c nodes).map (·.index)).Nodup := by
    unfold blockNodes
    rw [map_map]
    exact hidx
  have hidx2 : (cut.map (·.index)).Nodup := (hsub2.map _).nodup hidx1
  have hnd : cut.Nodup := by
    have : ∀ (l : List Node), (l.map (·.index)).Nodup → l.Nodup := by
      intro l
      induction l with
      | nil => intro _; exact nodup_nil
      | cons x xs ih =>
        intro hl
        simp only [map_cons, nodup_cons, mem_map, not_exists, not_and] at hl
        exact nodup_cons.mpr ⟨fun hx => hl.1 x hx rfl, ih hl.2⟩
    exact this cut hidx2
  refine ⟨?_, ?_, a2, s2, by rw [hall]; exact hidx2, ?_, ?_⟩
  · intro e
    have : rest2.length = 0 := by rw [e]; rfl
    omega
  · have : cut.length ≤ reqNodes c cpn := by rw [← hcut]; exact length_take_le _ _
    omega
  · intro n hn
    rw [← hall] at hnd
    have h1 := nodup_append.mp hnd
    have h2 := nodup_append.mp h1.1
    constructor
    · intro ha
      exact h1.2.2 n (mem_append_left _ hn) n (mem_reverse.mpr ha) rfl
    · intro hs
      exact h2.2.2 n hn n (mem_reverse.mpr hs) rfl
  · intro n hn
    have hmem : n ∈ cut := by
      rw [← hall]
      simp only [mem_append, mem_reverse] at hn ⊢
      rcases hn with (h | h) | h
      · exact Or.inl (Or.inl h)
      · exact Or.inr h
      · exact Or.inl (Or.inr h)
    have : n ∈ blockNodes c nodes := hsub2.subset hmem
    unfold blockNodes at this
    obtain ⟨m, hm, rfl⟩ := mem_map.mp this
    exact ⟨m, hm, rfl, rfl, rfl, rfl⟩

/-! ## PBSPro: nodes from the `exec_vnode` attribute -/

/-- **with backup nodes only nodes whose reachability probe answered are used** - for tasks, sub-agents
    and services alike; a probe that is refused or hangs (no return code, also after it was cancelled)
    leaves its node out -/
theorem C18_probed (c : Cfg) (nodes : List Node) (cpn : Nat) (reach : List Nat) (info : Info)
    (hb : c.backup ≠ 0) (h : finish c nodes cpn reach = .ok info) :
    ∀ n ∈ info.nodeList ++ info.agentNodes ++ info.serviceNodes, n.name.id ∈ reach := by
  unfold finish at h
  split at h
  · cases h
  split at h
  · cases h
  split at h
  · cases h
  split at h
  · cases h
  split at h
  · cases h
  split at h
  · cases h
  split at h
  · cases h
  rename_i hlen hrn0
  cases h
  simp only
  generalize hcut : (reachable c (blockNodes c nodes) reach).take (reqNodes c cpn) = cut at *
  have hcl : c.agentNodes + c.serviceNodes < cut.length := by omega
  have ⟨a1, a2⟩ := popN_spec cut c.agentNodes (by omega)
  generalize hp1 : popN cut c.agentNodes = p1 at *
  obtain ⟨rest, ag⟩ := p1
  simp only at a1 a2 ⊢
  have hrest : rest.length = cut.length - c.agentNodes := by
    have := congrArg length a1
    simp only [length_append, length_reverse] at this
    omega
  have ⟨s1, _s2⟩ := popN_spec rest c.serviceNodes (by omega)
  generalize hp2 : popN rest c.serviceNodes = p2 at *
  obtain ⟨rest2, sv⟩ := p2
  simp only at s1 ⊢
  have hall : rest2 ++ sv.reverse ++ ag.reverse = cut := by rw [s1, a1]
  have hmem : ∀ n ∈ cut, n.name.id ∈ reach := by
    intro n hn
    rw [← hcut] at hn
    have hn' := (take_sublist _ _).subset hn
    unfold reachable at hn'
    rw [if_pos hb] at hn'
    simpa using (mem_filter.mp hn').2
  intro n hn
  apply hmem
  rw [← hall]
  simp only [mem_append, mem_reverse] at hn ⊢
  rcases hn with (hn | hn) | hn
  · exact Or.inl (Or.inl hn)
  · exact Or.inr hn
  · exact Or.inl (Or.inr hn)

/-- a strictly increasing list has no duplicates -/
theorem strictSorted_lt_head (x : Nat) (l : List Nat) (h : RPVerif.Launch.StrictSorted (x :: l)) : ∀ y ∈ l, x < y := by
  induction l generalizing x with
  | nil => intro y hy; cases hy
  | cons z zs ih =>
    intro y hy
    have h1 : x < z := h.1
    rcases mem_cons.mp hy with rfl | hy
    · exact h1
    · exact Nat.lt_trans h1 (ih z h.2 y hy)

theorem strictSorted_nodup (l : List Nat) (h : RPVerif.Launch.StrictSorted l) : l.Nodup := by
  induction l with
  | nil => exact nodup_nil
  | cons x xs ih =>
    have hx := strictSorted_lt_head x xs h
    have hs : RPVerif.Launch.StrictSorted xs := by
      cases xs with
      | nil => trivial
      | cons y ys => exact h.2
    exact nodup_cons.mpr ⟨fun hm => Nat.lt_irrefl x (hx x hm), ih hs⟩

/-- **every vnode of the allocation is offered exactly once**: whatever chunks `exec_vnode` lists
    (a vnode may occur in several chunks, several vnodes in one), the vnode list has no duplicates,
    contains exactly the vnodes named, and every slice has the reported size -/
theorem C18_pbs_vnodes (chunks : List (List (Nat × Nat))) (vn : List Nat) (n : Nat) (h : pbsVnodes chunks = .ok (vn, n)) :
    vn.Nodup
    ∧ (∀ x, x ∈ vn ↔ ∃ c ∈ chunks, ∃ e ∈ c, e.1 = x)
    ∧ (∀ c ∈ chunks, ∀ e ∈ c, e.2 = n) := by
  unfold pbsVnodes at h
  split at h
  · rename_i m hm
    simp only [Except.ok.injEq, Prod.mk.injEq] at h
    obtain ⟨h1, h2⟩ := h
    subst h1; subst h2
    refine ⟨strictSorted_nodup _ (RPVerif.Launch.strictSorted_hostSet _), ?_, ?_⟩
    · intro x
      rw [RPVerif.Launch.mem_hostSet]
      constructor
      · intro hx
        obtain ⟨e, he, rfl⟩ := mem_map.mp hx
        obtain ⟨c, hc, hec⟩ := mem_flatten.mp he
        exact ⟨c, hc, e, hec, rfl⟩
      · rintro ⟨c, hc, e, hec, rfl⟩
        exact mem_map.mpr ⟨e, mem_flatten.mpr ⟨c, hc, hec⟩, rfl⟩
    · intro c hc e hec
      have : e.2 ∈ RPVerif.Launch.hostSet (chunks.flatten.map (·.2)) := by
        rw [RPVerif.Launch.mem_hostSet]
        exact mem_map.mpr ⟨e, mem_flatten.mpr ⟨c, hc, hec⟩, rfl⟩
      rw [hm] at this
      simpa using this
  · cases h
  · cases h

/-- the PBSPro node list built from it names every vnode once, in that order, with `ncpus` cores -/
theorem C18_pbs_node_list (c : Cfg) (chunks : List (List (Nat × Nat))) (ls : List Line) (hosts : List Name)
    (envCpus : Option Nat) (detected : Nat) (nodes : List Node) (cpn : Nat)
    (hc : c.execVnode = some chunks) (h : initKind .pbspro c ls hosts envCpus detected = .ok (nodes, cpn)) :
    (nodes.map (·.name.id)).Nodup ∧ (∀ x, x ∈ nodes.map (·.name.id) ↔ ∃ ch ∈ chunks, ∃ e ∈ ch, e.1 = x)
    ∧ ∀ nd ∈ nodes, nd.cores.length = cpn := by
  unfold initKind at h
  simp only [hc] at h
  cases hp : pbsVnodes chunks with
  | error e => rw [hp] at h; cases h
  | ok r =>
    obtain ⟨vn, n⟩ := r
    rw [hp] at h
    simp only [Except.ok.injEq, Prod.mk.injEq] at h
    obtain ⟨h1, h2⟩ := h
    subst h1; subst h2
    obtain ⟨a, b, _⟩ := C18_pbs_vnodes chunks vn n hp
    have hspec := C18_node_list (vn.map (fun i => (({ id := i } : Name), n))) c.gpn
    have hnames : (getNodeList (vn.map (fun i => (({ id := i } : Name), n))) c.gpn).map (·.name.id) = vn := by
      have e2 : (getNodeList (vn.map (fun i => (({ id := i } : Name), n))) c.gpn).map (·.name.id)
          = ((getNodeList (vn.map (fun i => (({ id := i } : Name), n))) c.gpn).map (·.name)).map (·.id) := by rw [map_map]; rfl
      rw [e2, hspec.2.2.1, map_map, map_map]
      exact map_id' vn
    refine ⟨by rw [hnames]; exact a, by rw [hnames]; exact b, ?_⟩
    intro nd hnd
    have hlen := hspec.2.2.2.1
    have : nd.cores.length ∈ (getNodeList (vn.map (fun i => (({ id := i } : Name), n))) c.gpn).map (fun n => n.cores.length) :=
      mem_map.mpr ⟨nd, hnd, rfl⟩
    rw [hlen, map_map] at this
    obtain ⟨_, _, e⟩ := mem_map.mp this
    exact e.symm

/-- **CCM: the node file written last is the one that is read**: the chosen file is one of the
    files found and none of them has a later modification time (metadata changes of an older file
    do not matter) -/
theorem C18_ccm_newest (files : List (Nat × List Line)) (h : files ≠ []) :
    newestFile files ∈ files ∧ ∀ f ∈ files, f.1 ≤ (newestFile files).1 := by
  induction files with
  | nil => exact absurd rfl h
  | cons f fs ih =>
    unfold newestFile
    by_cases hfs : fs = []
    · subst hfs
      simp [newestFile]
    · obtain ⟨hm, hle⟩ := ih hfs
      by_cases hlt : (newestFile fs).1 < f.1
      · rw [if_pos hlt]
        refine ⟨mem_cons_self, ?_⟩
        intro g hg
        rcases mem_cons.mp hg with rfl | hg
        · exact Nat.le_refl _
        · exact Nat.le_of_lt (Nat.lt_of_le_of_lt (hle g hg) hlt)
      · rw [if_neg hlt, if_neg hfs]
        refine ⟨mem_cons_of_mem _ hm, ?_⟩
        intro g hg
        rcases mem_cons.mp hg with rfl | hg
        · omega
        · exact hle g hg

/-- **Slurm: a configured GPU count is what every node gets**, whatever the batch environment
    reports; the environment is consulted only when nothing is configured -/
theorem C18_slurm_gpus (c : Cfg) (ls : List Line) (hosts : List Name) (envCpus : Option Nat) (detected : Nat)
    (nodes : List Node) (cpn : Nat) (h : initKind .slurm c ls hosts envCpus detected = .ok (nodes, cpn)) :
    (c.gpn ≠ 0 → ∀ nd ∈ nodes, nd.gpus.length = c.gpn)
    ∧ (c.gpn = 0 → ∀ nd ∈ nodes, nd.gpus.length = envGpn c) := by
  unfold initKind at h
  simp only at h
  cases hn : (if c.cpn ≠ 0 then some c.cpn else envCpus) with
  | none => rw [hn] at h; cases h
  | some n =>
    rw [hn] at h
    simp only [Except.ok.injEq, Prod.mk.injEq] at h
    obtain ⟨h1, _⟩ := h
    subst h1
    have hspec := (C18_node_list (hosts.map (fun h => (h, n))) (slurmGpn c)).2.2.2.2
    refine ⟨fun hg nd hnd => ?_, fun hg nd hnd => ?_⟩
    · rw [hspec nd hnd]; unfold slurmGpn; rw [if_pos hg]
    · rw [hspec nd hnd]; unfold slurmGpn; rw [if_neg (by simpa using hg)]

/-! non-vacuity (tests) -/
example : (pbsVnodes [[(3, 8)], [(3, 8), (1, 8)], [(1, 8)], [(7, 8)]]).toOption = some ([1, 3, 7], 8) := by decide

example : (initRM .torque ⟨4, 1, 1, 2, 8, 0, 0, [0], [], 1, 0, none, none, 0⟩
      [.host ⟨1, false, false⟩, .blank, .host ⟨2, false, false⟩, .host ⟨1, false, false⟩, .host ⟨3, false, false⟩] [] none 8 []).toOption.map
      (fun i => (i.nodeList.map (fun n => (n.name.id, n.index, n.cores)), i.agentNodes.map (·.name.id)))
    = some ([(1, 0, [.down, .free, .free, .free])], [2]) := by decide

/-- ceiling division covers: `((a + b - 1) / b) * b >= a` -/
theorem ceil_covers (a b : Nat) (hb : 0 < b) : a ≤ ((a + b - 1) / b) * b := by
  have h1 := Nat.div_add_mod (a + b - 1) b
  have h2 := Nat.mod_lt (a + b - 1) hb
  have h3 : b * ((a + b - 1) / b) = ((a + b - 1) / b) * b := Nat.mul_comm _ _
  omega

/-- **a pilot sized by cores / GPUs gets the nodes it needs**: when no node count is configured, the
    count `_init_from_scratch` derives covers the requested cores and GPUs with what a node can really
    give (blocked cores / GPUs subtracted) - so the offered list is not cut below the allocation the pilot
    was sized for (all resource managers but Fork, which fixes the count before blocked cores are known) -/
theorem C18_derived_covers (c : Cfg) (nodes : List Node) (cpn : Nat) (reach : List Nat) (info : Info)
    (hn : c.requestedNodes = 0) (h : finish c nodes cpn reach = .ok info) :
    c.requestedCores ≤ info.requestedNodes * info.coresPerNode
    ∧ (info.gpusPerNode ≠ 0 → c.requestedGpus ≤ info.requestedNodes * info.gpusPerNode) := by
  unfold finish at h
  split at h
  · cases h
  split at h
  · cases h
  split at h
  · cases h
  rename_i huc
  split at h
  · cases h
  split at h
  · cases h
  split at h
  · cases h
  split at h
  · cases h
  simp only [Except.ok.injEq] at h
  subst h
  simp only
  have hpos : 0 < usableCores c cpn := Nat.pos_of_ne_zero huc
  have hr : reqNodes c cpn = max ((c.requestedCores + usableCores c cpn - 1) / usableCores c cpn)
      (if usableGpus c ≠ 0 then (c.requestedGpus + usableGpus c - 1) / usableGpus c else 0) := by
    unfold reqNodes
    rw [if_neg (by simp [hn]), if_neg huc]
  constructor
  · have h1 := ceil_covers c.requestedCores (usableCores c cpn) hpos
    have h2 : (c.requestedCores + usableCores c cpn - 1) / usableCores c cpn ≤ reqNodes c cpn := by
      rw [hr]; exact Nat.le_max_left _ _
    exact Nat.le_trans h1 (Nat.mul_le_mul_right _ h2)
  · intro hg
    have hgpos : 0 < usableGpus c := Nat.pos_of_ne_zero hg
    have h1 := ceil_covers c.requestedGpus (usableGpus c) hgpos
    have h2 : (c.requestedGpus + usableGpus c - 1) / usableGpus c ≤ reqNodes c cpn := by
      rw [hr, if_pos hg]; exact Nat.le_max_right _ _
    exact Nat.le_trans h1 (Nat.mul_le_mul_right _ h2)

end RPVerif.C18
