import RPVerif.Lemmas.Descr
import RPVerif.Gen.Descr

/-!
# C19 — Descriptions and payloads survive normalisation and transport
-/
namespace RPVerif.C19
open RPVerif.Descr

/-- side conditions tying the mode chain to the alias table: the attributes the
    chain reads are not written by any alias, nor are "mode"/"use_mpi"; "ranks"
    is not a deprecated name -/
def TablesWF (cs : List ModeCheck) (as : List Alias) : Prop :=
  AliasesWF as
  ∧ (∀ a ∈ as, a.old ≠ "mode" ∧ a.new ≠ "mode" ∧ a.old ≠ "use_mpi" ∧ a.new ≠ "use_mpi" ∧ a.old ≠ "ranks")
  ∧ (∀ c ∈ cs, ∀ k ∈ c.required ++ c.banned, k ≠ "mode" ∧ k ≠ "use_mpi" ∧ ∀ a ∈ as, k ≠ a.old ∧ k ≠ a.new)

instance (cs : List ModeCheck) (as : List Alias) : Decidable (TablesWF cs as) := by
  unfold TablesWF; infer_instance

/-- **the tables found in `TaskDescription._verify` are well-formed**: every
    deprecated attribute is reset itself (to a falsy value) after its value was
    copied, no attribute is both a deprecated and a current name, … -/
theorem tables_wf : TablesWF Gen.modeChecks Gen.aliases ∧ Gen.defaultMode ≠ ""
    ∧ Gen.aliases.length = 10 ∧ Gen.modeChecks.length = 6 := by
  decide

section
variable (cs : List ModeCheck) (as : List Alias) (dm : String)

/-- the dict after the mode default -/
def withMode (d : Dict) : Dict := if (d "mode").truthy then d else d.set "mode" (.str dm)

theorem verify_eq (d : Dict) :
    verify cs as dm d = if modeOk (withMode dm d) cs then
        some ((fun d2 : Dict => if d2 "use_mpi" = .none then d2.set "use_mpi" (ranksMinusOne (d2 "ranks")) else d2)
               (as.foldl applyAlias (withMode dm d)))
      else none := rfl

/-- **modes**: verification fails exactly when the mode's required attribute is
    missing (or a banned one is set) -/
theorem C19_modes (d : Dict) : verify cs as dm d = none ↔ modeOk (withMode dm d) cs = false := by
  rw [verify_eq]; split <;> simp_all

/-- **aliases**: a deprecated attribute that is set is mapped onto its
    replacement with the same value (as float where the replacement is a float),
    and is itself cleared -/
theorem C19_alias (hw : TablesWF cs as) (d d' : Dict) (h : verify cs as dm d = some d')
    (a : Alias) (ha : a ∈ as) (ht : (d a.old).truthy = true) :
    d' a.new = conv a (d a.old) ∧ (d' a.old).truthy = false := by
  obtain ⟨hw1, hw2, _⟩ := hw
  rw [verify_eq] at h
  split at h
  · cases h
    have ⟨o1, o2, o3, o4, _⟩ := hw2 a ha
    have hm : (withMode dm d) a.old = d a.old := by
      unfold withMode; split
      · rfl
      · rw [set_other _ _ _ _ o1]
    have ⟨f1, f2⟩ := fold_alias as hw1 (withMode dm d) a ha
    rw [hm, ht] at f1 f2
    simp only [if_true] at f1 f2
    constructor
    · simp only; split
      · rw [set_other _ _ _ _ o4]; exact f1
      · exact f1
    · have : (a.resetVal).truthy = false := hw1.2.1 a ha
      simp only; split
      · rw [set_other _ _ _ _ o3, f2]; exact this
      · rw [f2]; exact this
  · cases h

/-- **nothing is lost**: every attribute that is neither a deprecated name, a
    replacement name, `mode` nor `use_mpi` keeps its value; a replacement keeps
    its value unless its deprecated twin was set -/
theorem C19_nothing_lost (hw : TablesWF cs as) (d d' : Dict) (h : verify cs as dm d = some d') :
    (∀ k, k ≠ "mode" → k ≠ "use_mpi" → (∀ a ∈ as, k ≠ a.old ∧ k ≠ a.new) → d' k = d k)
    ∧ (∀ a ∈ as, (d a.old).truthy = false → d' a.new = d a.new ∧ d' a.old = d a.old) := by
  obtain ⟨hw1, hw2, _⟩ := hw
  rw [verify_eq] at h
  split at h
  · cases h
    constructor
    · intro k k1 k2 k3
      have hu : ∀ a ∈ as, k ≠ a.new ∧ k ≠ a.resetAttr := by
        intro a ha
        exact ⟨(k3 a ha).2, by rw [hw1.1 a ha]; exact (k3 a ha).1⟩
      have hf := fold_untouched as (withMode dm d) k hu
      have hm : (withMode dm d) k = d k := by
        unfold withMode; split
        · rfl
        · rw [set_other _ _ _ _ k1]
      simp only; split
      · rw [set_other _ _ _ _ k2, hf, hm]
      · rw [hf, hm]
    · intro a ha ht
      have ⟨o1, o2, o3, o4, _⟩ := hw2 a ha
      have hmo : (withMode dm d) a.old = d a.old := by
        unfold withMode; split
        · rfl
        · rw [set_other _ _ _ _ o1]
      have hmn : (withMode dm d) a.new = d a.new := by
        unfold withMode; split
        · rfl
        · rw [set_other _ _ _ _ o2]
      have ⟨f1, f2⟩ := fold_alias as hw1 (withMode dm d) a ha
      rw [hmo, ht, hmn] at f1
      rw [hmo, ht] at f2
      simp only [Bool.false_eq_true, if_false] at f1 f2
      simp only; split
      · rw [set_other _ _ _ _ o4, set_other _ _ _ _ o3]; exact ⟨f1, f2⟩
      · exact ⟨f1, f2⟩
  · cases h

/-- **idempotent**: verifying a verified description changes nothing -/
theorem C19_idempotent (hw : TablesWF cs as) (hdm : dm ≠ "") (d d' : Dict)
    (h : verify cs as dm d = some d') : verify cs as dm d' = some d' := by
  have hw' := hw
  obtain ⟨hw1, hw2, hw3⟩ := hw
  have h0 := h
  rw [verify_eq] at h
  split at h
  · rename_i hok
    cases h
    -- abbreviations
    generalize hd1 : withMode dm d = d1 at *
    generalize hd2 : as.foldl applyAlias d1 = d2 at *
    have hmode1 : (d1 "mode").truthy = true := by
      rw [← hd1]; unfold withMode; split
      · assumption
      · rw [set_same]; simp [V.truthy, hdm]
    -- "mode" survives the alias pass and the use_mpi step
    have hmode2 : d2 "mode" = d1 "mode" := by
      rw [← hd2]
      apply fold_untouched
      intro a ha
      have ⟨o1, o2, _, _, _⟩ := hw2 a ha
      exact ⟨fun e => o2 e.symm, by rw [hw1.1 a ha]; exact fun e => o1 e.symm⟩
    -- the result
    let d3 : Dict := if d2 "use_mpi" = .none then d2.set "use_mpi" (ranksMinusOne (d2 "ranks")) else d2
    have hd3 : (fun d2 : Dict => if d2 "use_mpi" = .none then d2.set "use_mpi" (ranksMinusOne (d2 "ranks")) else d2) d2 = d3 := rfl
    rw [hd3] at h0 ⊢
    have h3k : ∀ k, k ≠ "use_mpi" → d3 k = d2 k := by
      intro k hk
      show (if d2 "use_mpi" = .none then d2.set "use_mpi" (ranksMinusOne (d2 "ranks")) else d2) k = d2 k
      split
      · rw [set_other _ _ _ _ hk]
      · rfl
    have hmode3 : d3 "mode" = d1 "mode" := by rw [h3k "mode" (by decide), hmode2]
    have hwm : withMode dm d3 = d3 := by
      unfold withMode; rw [hmode3, hmode1]; simp
    -- all deprecated attributes are falsy now
    have hold : ∀ a ∈ as, (d3 a.old).truthy = false := by
      intro a ha
      have ⟨_, _, o3, _, _⟩ := hw2 a ha
      rw [h3k _ o3, ← hd2]
      have ⟨_, f2⟩ := fold_alias as hw1 d1 a ha
      rw [f2]
      split
      · exact hw1.2.1 a ha
      · rename_i hf; simpa using hf
    have hfold : as.foldl applyAlias d3 = d3 := fold_noop as d3 hold
    -- the mode chain sees the same values
    have hok3 : modeOk d3 cs = true := by
      rw [← hok]
      apply modeOk_congr
      · exact hmode3
      · intro c hc k hk
        have ⟨k1, k2, k3⟩ := hw3 c hc k hk
        rw [h3k k k2, ← hd2]
        apply fold_untouched
        intro a ha
        exact ⟨(k3 a ha).2, by rw [hw1.1 a ha]; exact (k3 a ha).1⟩
    rw [verify_eq, hwm, hok3, hfold]
    simp only [if_true]
    congr 1
    -- the use_mpi step on d3
    by_cases hu : d3 "use_mpi" = .none
    · rw [if_pos hu]
      funext k
      by_cases hk : k = "use_mpi"
      · subst hk
        rw [set_same, hu]
        -- d3 "use_mpi" = none means the value computed from ranks was none
        have hr : d3 "ranks" = d2 "ranks" := h3k "ranks" (by decide)
        rw [hr]
        by_cases hu2 : d2 "use_mpi" = .none
        · have : d3 "use_mpi" = ranksMinusOne (d2 "ranks") := by
            show (if d2 "use_mpi" = .none then d2.set "use_mpi" (ranksMinusOne (d2 "ranks")) else d2) "use_mpi" = _
            rw [if_pos hu2, set_same]
          rw [← this, hu]
        · have : d3 "use_mpi" = d2 "use_mpi" := by
            show (if d2 "use_mpi" = .none then d2.set "use_mpi" (ranksMinusOne (d2 "ranks")) else d2) "use_mpi" = _
            rw [if_neg hu2]
          rw [this] at hu; exact absurd hu hu2
      · rw [set_other _ _ _ _ hk]
    · rw [if_neg hu]
  · cases h

end

/-- the instances for the tables found in the code -/
theorem C19_idempotent_code (d d' : Dict)
    (h : verify Gen.modeChecks Gen.aliases Gen.defaultMode d = some d') :
    verify Gen.modeChecks Gen.aliases Gen.defaultMode d' = some d' :=
  C19_idempotent _ _ _ tables_wf.1 tables_wf.2.1 d d' h

theorem C19_alias_code (d d' : Dict)
    (h : verify Gen.modeChecks Gen.aliases Gen.defaultMode d = some d')
    (a : Alias) (ha : a ∈ Gen.aliases) (ht : (d a.old).truthy = true) :
    d' a.new = conv a (d a.old) ∧ (d' a.old).truthy = false :=
  C19_alias _ _ _ tables_wf.1 d d' h a ha ht

/-- the line-protocol driver evaluates `verify` through a tabulated fold
    (`verifyFast`); on every tabulated key it returns exactly `verify`'s value -/
theorem C19_driver_sound (ks : List String) (d : Dict)
    (hold : ∀ a ∈ Gen.aliases, a.old ∈ ks) (hu : "use_mpi" ∈ ks) (hr : "ranks" ∈ ks) :
    (verifyFast Gen.modeChecks Gen.aliases Gen.defaultMode ks d).isSome
      = (verify Gen.modeChecks Gen.aliases Gen.defaultMode d).isSome
    ∧ ∀ l d', verifyFast Gen.modeChecks Gen.aliases Gen.defaultMode ks d = some l →
        verify Gen.modeChecks Gen.aliases Gen.defaultMode d = some d' → ∀ k ∈ ks, ofList l k = d' k :=
  verifyFast_agrees _ _ _ ks d hold hu hr

/-! ## slot formats -/

/-- new -> old keeps node, core and GPU indices (and lfs/mem) -/
theorem C19_slots_to_old (s : Slot) :
    (toOld s).cores.indices = s.cores.map (·.1) ∧ (toOld s).gpus.indices = s.gpus.map (·.1)
    ∧ (toOld s).nodeIndex = s.nodeIndex ∧ (toOld s).nodeName = s.nodeName
    ∧ (toOld s).lfs = s.lfs ∧ (toOld s).mem = s.mem := by
  refine ⟨?_, ?_, rfl, rfl, rfl, rfl⟩ <;>
  · simp only [toOld, OldRes.indices]
    generalize s.cores = l
    generalize s.gpus = l'
    first
      | (induction l with
         | nil => rfl
         | cons x xs ih => simp_all)
      | (induction l' with
         | nil => rfl
         | cons x xs ih => simp_all)

/-- old -> new keeps node, core and GPU indices whenever it produces a slot -/
theorem C19_slots_to_new (o : OldSlot) (s : Slot) (h : toNew o = some s) :
    s.cores.map (·.1) = o.cores.indices ∧ s.gpus.map (·.1) = o.gpus.indices
    ∧ s.nodeIndex = o.nodeIndex ∧ s.nodeName = o.nodeName := by
  unfold toNew at h
  have key : ∀ (r : OldRes) (l : List (Nat × Nat)), resToNew r = some l → l.map (·.1) = r.indices := by
    intro r l hr
    cases r with
    | ints x => simp [resToNew] at hr; subst hr; simp [OldRes.indices, Function.comp_def]
    | pairs x => simp [resToNew] at hr; subst hr; rfl
    | lists x =>
      cases x with
      | nil => simp [resToNew] at hr; subst hr; rfl
      | cons y ys => simp [resToNew] at hr
  cases hc : resToNew o.cores with
  | none => rw [hc] at h; simp at h
  | some c =>
    cases hg : resToNew o.gpus with
    | none => rw [hc, hg] at h; simp at h
    | some g =>
      rw [hc, hg] at h
      cases h
      exact ⟨key _ _ hc, key _ _ hg, rfl, rfl⟩

/-- integer and (index, occupation) forms are always accepted -/
theorem C19_slots_to_new_total (o : OldSlot)
    (hc : ∀ l, o.cores ≠ .lists l) (hg : ∀ l, o.gpus ≠ .lists l) : ∃ s, toNew o = some s := by
  unfold toNew
  cases h1 : o.cores with
  | lists l => exact absurd h1 (hc l)
  | ints l =>
    cases h2 : o.gpus with
    | lists l' => exact absurd h2 (hg l')
    | ints l' => exact ⟨_, rfl⟩
    | pairs l' => exact ⟨_, rfl⟩
  | pairs l =>
    cases h2 : o.gpus with
    | lists l' => exact absurd h2 (hg l')
    | ints l' => exact ⟨_, rfl⟩
    | pairs l' => exact ⟨_, rfl⟩

/-- **a slot survives the plain-dictionary form**: re-creating a `Slot` from what `as_dict()` gives
    (cores and GPUs as dicts) yields the same cores, GPUs (indices and occupations), storage, memory
    and node -/
theorem C19_slot_dict_roundtrip (s : Slot) :
    slotInit (.dicts s.cores) (.dicts s.gpus) s.lfs s.mem s.nodeIndex s.nodeName = s := by
  cases s; rfl

/-- bare indices stand for whole cores / GPUs; cores and GPUs are treated separately -/
theorem C19_slot_init_ints (cs gs : List Nat) (lfs mem ni : Nat) (nn : String) :
    (slotInit (.ints cs) (.ints gs) lfs mem ni nn).cores = cs.map (fun i => (i, 16))
    ∧ (slotInit (.ints cs) (.ints gs) lfs mem ni nn).gpus = gs.map (fun i => (i, 16)) := ⟨rfl, rfl⟩

/-- **slots of a list are converted independently**: position `i` of the result is what slot `i`
    converts to on its own - nothing is carried over from one slot to the next -/
theorem C19_slots_list (os : List OldSlot) (ss : List Slot) (h : toNewList os = some ss) :
    ss.length = os.length ∧ ∀ (i : Nat), (ss[i]?).map some = (os[i]?).map toNew := by
  induction os generalizing ss with
  | nil =>
    simp only [toNewList, Option.some.injEq] at h
    subst h
    exact ⟨rfl, fun i => by simp⟩
  | cons o os ih =>
    unfold toNewList at h
    cases h1 : toNew o with
    | none => rw [h1] at h; simp at h
    | some s =>
      cases h2 : toNewList os with
      | none => rw [h1, h2] at h; simp at h
      | some rest =>
        rw [h1, h2] at h
        simp only [Option.some.injEq] at h
        subst h
        obtain ⟨a, b⟩ := ih rest h2
        refine ⟨by simp [a], ?_⟩
        intro i
        cases i with
        | zero => simp [h1]
        | succ k => simpa using b k

/-- FULL round trip `toNew (toOld s) = some s'` with the same indices is FALSE on
    the current code for every slot that holds a core or a GPU (finding
    C19-slots-old-list-form): `convert_slots_to_new` cannot read the per-rank
    index lists `convert_slots_to_old` writes.  Witness: -/
theorem C19_roundtrip_witness :
    toNew (toOld { cores := [(1, 16)], gpus := [], lfs := 0, mem := 0, nodeIndex := 0, nodeName := "n" }) = none := by
  decide

/-- partial: the round trip is the identity on slots without cores and GPUs -/
theorem C19_roundtrip_partial (s : Slot) (hc : s.cores = []) (hg : s.gpus = []) :
    toNew (toOld s) = some s := by
  cases s; simp_all [toOld, toNew, resToNew]

/-! ## function transport: composition order of RP's own encoding
    (`serialize_bson {func: serialize_obj f, args, kwargs}`), with the
    third-party codecs as hypotheses -/
theorem C19_transport {F A B S : Type} (serObj : F → B) (deserObj : B → Option F)
    (serBson : (B × A) → S) (deserBson : S → Option (B × A))
    (h1 : ∀ f, deserObj (serObj f) = some f) (h2 : ∀ x, deserBson (serBson x) = some x)
    (f : F) (a : A) :
    (deserBson (serBson (serObj f, a))).bind (fun p => (deserObj p.1).map (fun g => (g, p.2))) = some (f, a) := by
  rw [h2]; simp [h1]

/-! non-vacuity (tests) -/
example : (verify Gen.modeChecks Gen.aliases Gen.defaultMode
    (fun k => if k = "executable" then .str "/bin/date" else if k = "worker_class" then .str "Foo"
              else if k = "gpu_processes" then .int 2 else if k = "ranks" then .int 1 else
              match Gen.descrDefaults.find? (·.1 = k) with | some p => p.2 | none => .str "")).map
      (fun d => (d "raptor_class", d "worker_class", d "gpus_per_rank", d "gpu_processes", d "use_mpi", d "mode"))
    = some (.str "Foo", .str "", .flt 32, .int 0, .bool false, .str "task.executable") := by
  decide

end RPVerif.C19
