import RPVerif.Model.Cancel
import RPVerif.Lemmas.Exec
import RPVerif.Lemmas.Sched
import RPVerif.Lemmas.Pool
import RPVerif.Props.C07
import RPVerif.Lemmas.SchedCancel
import RPVerif.Lemmas.ExecFinished

/-!
# C08 — Cancel stops the named tasks and nothing else
-/
namespace RPVerif.C08
open List

/-! ## (a) a named task that a component meets later is canceled there; bystanders pass -/
open RPVerif.Cancel in
theorem filterBulk_spec (ts : List Nat) :
    ∀ cl : List Nat,
      -- every incoming task is either passed on or canceled, exactly once, in order
      ((filterBulk cl ts).1 ++ (filterBulk cl ts).2.1).Perm ts
      -- bystanders (not in the cancel list) are all passed on
      ∧ (∀ t ∈ ts, t ∉ cl → t ∈ (filterBulk cl ts).1)
      -- only named tasks are canceled
      ∧ (∀ t ∈ (filterBulk cl ts).2.1, t ∈ cl)
      -- a named task does not reach `work` (one request cancels one occurrence)
      ∧ (∀ t, count t ts ≤ count t cl → t ∉ (filterBulk cl ts).1) := by
  induction ts with
  | nil => intro cl; simp [filterBulk]
  | cons t ts ih =>
    intro cl
    unfold filterBulk
    by_cases h : t ∈ cl
    · rw [if_pos h]
      obtain ⟨i1, i2, i3, i4⟩ := ih (cl.erase t)
      rcases hf : filterBulk (cl.erase t) ts with ⟨keep, canc, cl'⟩
      rw [hf] at i1 i2 i3 i4
      simp only at i1 i2 i3 i4 ⊢
      refine ⟨?_, ?_, ?_, ?_⟩
      · exact (perm_middle.trans (Perm.cons t i1))
      · intro x hx hnx
        rcases mem_cons.mp hx with rfl | hx
        · exact absurd h hnx
        · exact i2 x hx (fun hm => hnx (mem_of_mem_erase hm))
      · intro x hx
        rcases mem_cons.mp hx with rfl | hx
        · exact h
        · exact mem_of_mem_erase (i3 x hx)
      · intro x hc
        apply i4 x
        by_cases hxt : x = t
        · subst hxt
          rw [count_cons_self] at hc
          rw [count_erase_self]; omega
        · have : t ≠ x := fun e => hxt e.symm
          rw [count_cons_of_ne this] at hc
          rw [count_erase_of_ne hxt]; exact hc
    · rw [if_neg h]
      obtain ⟨i1, i2, i3, i4⟩ := ih cl
      rcases hf : filterBulk cl ts with ⟨keep, canc, cl'⟩
      rw [hf] at i1 i2 i3 i4
      simp only at i1 i2 i3 i4 ⊢
      refine ⟨Perm.cons t i1, ?_, i3, ?_⟩
      · intro x hx hnx
        rcases mem_cons.mp hx with rfl | hx
        · exact mem_cons_self
        · exact mem_cons_of_mem _ (i2 x hx hnx)
      · intro x hc
        have hxt : x ≠ t := by
          intro e; subst e
          rw [count_cons_self] at hc
          have : count x cl = 0 := count_eq_zero.mpr h
          omega
        have : t ≠ x := fun e => hxt e.symm
        rw [count_cons_of_ne this] at hc
        intro hm
        rcases mem_cons.mp hm with e | hm
        · exact hxt e
        · exact i4 x hc hm

/-- **the client-side request names exactly the tasks the caller named**: for a single uid and for
    a non-empty list the published command carries those uids and no other - whatever the states of
    the named tasks, and whatever other tasks the manager knows -/
theorem C08_request_names (known : List Nat) :
    (∀ u, RPVerif.Cancel.request known (.one u) = [u])
    ∧ (∀ us, us ≠ [] → RPVerif.Cancel.request known (.many us) = us)
    ∧ RPVerif.Cancel.request known .none = known ∧ RPVerif.Cancel.request known (.many []) = known := by
  refine ⟨fun _ => rfl, ?_, rfl, rfl⟩
  intro us h
  cases us with
  | nil => exact absurd rfl h
  | cons a as => rfl

/-- a task that is not named by the caller is not named by the command (bystanders stay out of
    every component's cancel list), for a request that names at least one task -/
theorem C08_request_bystander (known : List Nat) (a : RPVerif.Cancel.Arg) (t : Nat)
    (hne : a ≠ .none ∧ a ≠ .many []) (ht : match a with | .one u => t ≠ u | .many us => t ∉ us | .none => True) :
    t ∉ RPVerif.Cancel.request known a := by
  cases a with
  | none => exact absurd rfl hne.1
  | one u => simpa [RPVerif.Cancel.request] using ht
  | many us =>
    cases us with
    | nil => exact absurd rfl hne.2
    | cons x xs => simpa [RPVerif.Cancel.request] using ht

/-- **C08 (intake filter)**: of a bulk arriving at a component after a cancel
    request, exactly the named tasks are advanced to CANCELED instead of being
    processed, every other task of the bulk is processed unchanged -/
theorem C08_intake (cl uids things : List Nat) (hu : ∀ t, count t things ≤ 1) :
    let r := RPVerif.Cancel.intake (RPVerif.Cancel.cancelCmd cl uids) things
    (∀ t ∈ things, t ∈ uids → t ∉ r.1 ∧ t ∈ r.2.1)
    ∧ (∀ t ∈ things, t ∉ cl → t ∉ uids → t ∈ r.1 ∧ t ∉ r.2.1) := by
  intro r
  have key := filterBulk_spec things (cl ++ uids)
  obtain ⟨k1, k2, k3, k4⟩ := key
  by_cases he : cl ++ uids = []
  · have hr : r = (things, [], cl ++ uids) := by
      simp only [r, RPVerif.Cancel.intake, RPVerif.Cancel.cancelCmd, he, if_true]
    constructor
    · intro t _ htu
      have : uids = [] := (append_eq_nil_iff.mp he).2
      rw [this] at htu; cases htu
    · intro t ht _ _
      rw [hr]; exact ⟨ht, by simp⟩
  · have hr : r = RPVerif.Cancel.filterBulk (cl ++ uids) things := by
      simp only [r, RPVerif.Cancel.intake, RPVerif.Cancel.cancelCmd, he, if_false]
    rw [hr]
    constructor
    · intro t ht htu
      have hin : t ∈ cl ++ uids := mem_append_right _ htu
      have hnk : t ∉ (RPVerif.Cancel.filterBulk (cl ++ uids) things).1 := by
        apply k4 t
        have := hu t
        have : 1 ≤ count t (cl ++ uids) := count_pos_iff.mpr hin
        omega
      refine ⟨hnk, ?_⟩
      have : t ∈ (RPVerif.Cancel.filterBulk (cl ++ uids) things).1 ++ (RPVerif.Cancel.filterBulk (cl ++ uids) things).2.1 :=
        k1.symm.subset ht
      rcases mem_append.mp this with h | h
      · exact absurd h hnk
      · exact h
    · intro t ht hc hu'
      have hnin : t ∉ cl ++ uids := by
        intro h; rcases mem_append.mp h with h | h
        · exact hc h
        · exact hu' h
      exact ⟨k2 t ht hnin, fun h => hnin (k3 t h)⟩

/-! ## (b) the executor: nothing is canceled without a request; a task is finished once -/
open RPVerif.Exec in
/-- choices that can start a cancellation -/
def isCancelChoice : Choice → Bool
  | .cancelReq | .timeout => true
  | _ => false

open RPVerif.Exec in
theorem no_request_inv (cs : List Choice) (hn : ∀ c ∈ cs, isCancelChoice c = false) :
    ∀ s : ES, (s.cancels = [] ∧ s.mark = false ∧ (∀ c, s.intake ≠ .iCancel c) ∧ s.canceledPub = 0
                ∧ s.outcome ≠ some .canceled) →
      ((run s cs).cancels = [] ∧ (run s cs).mark = false ∧ (∀ c, (run s cs).intake ≠ .iCancel c)
        ∧ (run s cs).canceledPub = 0 ∧ (run s cs).outcome ≠ some .canceled) := by
  induction cs with
  | nil => intro s h; exact h
  | cons c cs ih =>
    intro s h
    obtain ⟨h1, h2, h3, h4, h5⟩ := h
    have hc := hn c mem_cons_self
    apply ih (fun x hx => hn x (mem_cons_of_mem _ hx)) (step s c)
    cases c with
    | cancelReq => simp [isCancelChoice] at hc
    | timeout => simp [isCancelChoice] at hc
    | exit code =>
      simp only [step]
      cases s.proc <;> exact ⟨h1, h2, h3, h4, h5⟩
    | cancel i =>
      simp only [step, h1]
      simp only [getElem?_nil]
      exact ⟨h1, h2, h3, h4, h5⟩
    | intakeFault =>
      simp only [step]
      cases hi : s.intake <;> simp only <;> first
        | exact ⟨h1, h2, h3, h4, h5⟩
        | exact ⟨h1, h2, (fun c e => by cases e), h4, h5⟩
    | watcher =>
      simp only [step]
      cases hw : s.watcher with
      | wIdle => simp only; split <;> exact ⟨h1, h2, h3, h4, h5⟩
      | w0 => simp only; split <;> exact ⟨h1, h2, h3, h4, h5⟩
      | w1 => simp only; cases s.proc <;> exact ⟨h1, h2, h3, h4, h5⟩
      | w2b c => exact ⟨h1, h2, h3, h4, h5⟩
      | w3 c =>
        simp only
        split
        · refine ⟨h1, h2, h3, h4, ?_⟩
          simp only; split <;> exact fun e => by cases e
        · exact ⟨h1, h2, h3, h4, h5⟩
      | w4 c => exact ⟨h1, h2, h3, h4, h5⟩
    | intake =>
      simp only [step]
      cases hi : s.intake with
      | i0 => exact ⟨h1, h2, (fun c e => by cases e), h4, h5⟩
      | i1 => exact ⟨h1, h2, (fun c e => by cases e), h4, h5⟩
      | i2 => exact ⟨h1, h2, (fun c e => by cases e), h4, h5⟩
      | i3 =>
        simp only [h2, Bool.false_eq_true, if_false]
        exact ⟨h1, trivial, (fun c e => by cases e), h4, h5⟩
      | iCancel c => exact absurd hi (h3 c)
      | iFault => exact ⟨h1, h2, (fun c e => by cases e), h4, h5⟩
      | iDone => simp only; exact ⟨h1, h2, h3, h4, h5⟩

open RPVerif.Exec in
/-- **no task is canceled unless a cancel request or a run-time limit asked for it** -/
theorem C08_no_spurious_cancel (cs : List Choice) (hn : ∀ c ∈ cs, isCancelChoice c = false) :
    (run {} cs).outcome ≠ some .canceled ∧ (run {} cs).canceledPub = 0 := by
  have := no_request_inv cs hn {} ⟨rfl, rfl, (fun c e => by cases e), rfl, (fun e => by cases e)⟩
  exact ⟨this.2.2.2.2, this.2.2.2.1⟩

open RPVerif.Exec in
/-- whatever the interleaving of the cancel request with the watcher and with the
    process exiting, the canceled task is finished exactly once and its resources
    are released exactly once (instances of C07 for schedules with requests) -/
theorem C08_cancel_once (cs : List Choice) (hd : RPVerif.C07.Done (run {} cs)) :
    (run {} cs).handed + (run {} cs).failed = 1 ∧ (run {} cs).unsched = 1 :=
  (RPVerif.C07.C07_complete cs hd).2

/-! ## (c) the scheduler's wait pool: only the named task is taken out -/
open RPVerif.Sched in
/-- a cancel message removes from the wait pool only entries with the named uid:
    every waiting task with another uid stays in the pool of its priority
    (bystanders are not dropped), and what is reported CANCELED is the named task -/
theorem C08_waitpool_cancel (wp : List (Int × List Req)) (uid : Nat) :
    (∀ e ∈ wp, ∀ r ∈ e.2, r.uid ≠ uid → ∃ e' ∈ (removeFromPools wp uid).1, e'.1 = e.1 ∧ r ∈ e'.2)
    ∧ (∀ t, (removeFromPools wp uid).2 = some t → t.uid = uid)
    ∧ (∀ e' ∈ (removeFromPools wp uid).1, ∀ r ∈ e'.2, ∃ e ∈ wp, e.1 = e'.1 ∧ r ∈ e.2) := by
  unfold removeFromPools
  cases hf : wp.find? (fun e => e.2.any (fun r => r.uid = uid)) with
  | none =>
    simp only
    exact ⟨fun e he r hr _ => ⟨e, he, rfl, hr⟩, (fun t ht => by cases ht), fun e' he' r hr => ⟨e', he', rfl, hr⟩⟩
  | some e0 =>
    simp only
    refine ⟨?_, ?_, ?_⟩
    · intro e he r hr hne
      refine ⟨(if e.1 = e0.1 then (e.1, e.2.filter (fun r => r.uid ≠ uid)) else e), ?_, ?_, ?_⟩
      · exact mem_map.mpr ⟨e, he, rfl⟩
      · split <;> rfl
      · split
        · exact mem_filter.mpr ⟨hr, by simpa using hne⟩
        · exact hr
    · intro t ht
      have := find?_some ht
      simpa using this
    · intro e' he' r hr
      obtain ⟨x, hx, rfl⟩ := mem_map.mp he'
      by_cases hxe : x.1 = e0.1
      · simp only [hxe, if_true] at hr ⊢
        exact ⟨x, hx, hxe, (mem_filter.mp hr).1⟩
      · simp only [hxe, if_false] at hr ⊢
        exact ⟨x, hx, rfl, hr⟩

open RPVerif.Sched in
/-- a cancel message takes the named task out of the wait pool: afterwards no pool holds an
    entry with that uid (a uid waits under one priority only: the pools are keyed by the
    priority of the task's own description) -/
theorem C08_cancel_message_clears (wp : List (Int × List Req)) (uid : Nat)
    (huniq : ∀ e1 ∈ wp, ∀ e2 ∈ wp, (∃ r ∈ e1.2, r.uid = uid) → (∃ r ∈ e2.2, r.uid = uid) → e1.1 = e2.1) :
    ∀ e' ∈ (removeFromPools wp uid).1, ∀ r ∈ e'.2, r.uid ≠ uid := by
  unfold removeFromPools
  cases hf : wp.find? (fun e => e.2.any (fun r => r.uid = uid)) with
  | none =>
    simp only
    intro e he r hr hu
    have := List.find?_eq_none.mp hf e he
    exact this (List.any_eq_true.mpr ⟨r, hr, by simpa using hu⟩)
  | some e0 =>
    simp only
    intro e' he' r hr hu
    obtain ⟨x, hx, rfl⟩ := mem_map.mp he'
    have h0 : e0 ∈ wp := List.mem_of_find?_eq_some hf
    have h0u : ∃ r ∈ e0.2, r.uid = uid := by
      have := List.find?_some hf
      obtain ⟨r0, hr0, hh⟩ := List.any_eq_true.mp this
      exact ⟨r0, hr0, by simpa using hh⟩
    by_cases hxe : x.1 = e0.1
    · simp only [hxe, if_true] at hr
      have := (mem_filter.mp hr).2
      simp [hu] at this
    · simp only [hxe, if_false] at hr
      exact hxe (huniq x hx e0 h0 ⟨r, hr, hu⟩ h0u)

open RPVerif.Sched in
/-- a task whose uid is on the cancel list when the scheduler puts it into the wait pool
    (the cancel request overtook it) is taken out again at once: it does not wait there to
    be started when resources free up.  Together with `C08_cancel_message_clears`: whichever
    of the CANCEL message and the task the scheduler sees first, the task does not stay. -/
theorem C08_marked_task_does_not_wait (p : Int) (uid : Nat) (ts : List Req) (s : SchedSt) (evs : List Ev)
    (hm : uid ∈ s.cancel) (hnd : (ts.map (·.uid)).Nodup)
    (hp : ∀ r ∈ poolOf s.waitpool p, r.uid ≠ uid) :
    ∀ r ∈ poolOf (parkTasks p s ts evs).1.waitpool p, r.uid ≠ uid :=
  parkTasks_marked p uid ts s evs hm hnd hp

open RPVerif.Sched in
/-- premises are satisfiable and the conclusion is not vacuous: a marked task parked next to a bystander -/
example : (parkTasks 0 { nodes := [], cancel := [7] } [{ uid := 7, ranks := 1, cpr := 1, gpr := 0, lfs := 0, mem := 0 },
      { uid := 8, ranks := 1, cpr := 1, gpr := 0, lfs := 0, mem := 0 }] []).1.waitpool.map (fun e => (e.1, e.2.map (·.uid)))
            = [(0, [8])] := by decide

open RPVerif.Sched in
/-- **bystanders over whole histories of the scheduling loop**: a task that no cancel message and no cancel
    mark of the history names (and that was not marked before) is never reported CANCELED by the scheduler,
    whatever else is canceled around it, whenever, and however often -/
theorem C08_bystander_never_canceled (c : Cfg) (s0 : SchedSt) (res : Bool) (its : List Iter) (u : Nat)
    (h0 : u ∉ s0.cancel) (hn : unnamed u its) :
    u ∉ canceledUids (runLoop c s0 res its []).2.2.flatten :=
  (runLoop_canceled c u its s0 res [] h0 (by simp) hn).1

open RPVerif.Sched in
/-- ... and it is not dropped: handed in once, it is either still waiting (once) or was reported once - as
    started or failed, not as canceled -/
theorem C08_bystander_keeps_its_place (c : Cfg) (s0 : SchedSt) (hw : s0.waitpool = []) (res : Bool) (its : List Iter) (u : Nat)
    (h0 : u ∉ s0.cancel) (hn : unnamed u its) (h1 : handed its u = 1) :
    u ∉ canceledUids (runLoop c s0 res its []).2.2.flatten
    ∧ ((count u (evUids (runLoop c s0 res its []).2.2.flatten) = 1 ∧ waiting (runLoop c s0 res its []).1.waitpool u = 0)
       ∨ (count u (evUids (runLoop c s0 res its []).2.2.flatten) = 0 ∧ waiting (runLoop c s0 res its []).1.waitpool u = 1)) := by
  refine ⟨C08_bystander_never_canceled c s0 res its u h0 hn, ?_⟩
  have hk : KeysOK s0.waitpool := by rw [hw]; exact List.nodup_nil
  have := (runLoop_conserve c u its s0 res [] hk (by rw [hw]; simp; omega)).2
  rw [hw] at this
  simp at this
  omega

open RPVerif.Exec in
/-- **"... unless it had already finished"**: for every schedule of the executor's threads, if the process of a
    task has exited by itself before any cancel request or timeout reached the executor, then whatever follows
    - requests, timeouts, any number of cancel_task invocations on any thread, in any interleaving with the
    watcher - the task never ends CANCELED (every cancel_task invocation stops at its "already done" test; the
    watcher hands the task on with the process's own outcome) -/
theorem C08_finished_never_canceled (pre post : List Choice) (hq : ∀ c ∈ pre, isReq c = false)
    (he : (run {} pre).proc.isExited = true) :
    (run {} (pre ++ post)).outcome ≠ some .canceled := by
  have h1 := finished_of_quiet _ (quiet_run {} pre hq quiet_init) he
  have : run {} (pre ++ post) = run (run {} pre) post := by simp [run, List.foldl_append]
  rw [this]
  exact (finished_run _ post h1).notC

open RPVerif.Exec in
/-- test: exit 0, then a cancel request and its cancel_task run to the end - the outcome is DONE -/
example : (run {} [.intake, .intake, .intake, .intake, .exit 0, .cancelReq, .cancel 0, .cancel 0, .cancel 0,
                   .watcher, .watcher, .watcher, .watcher, .watcher, .watcher]).outcome = some .done := by decide

end RPVerif.C08
