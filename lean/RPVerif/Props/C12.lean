import RPVerif.Lemmas.TmgrSched
import RPVerif.Lemmas.RRBalance
import RPVerif.Lemmas.BFUsage
import RPVerif.Lemmas.BFConserve
import RPVerif.Lemmas.BFStates
import RPVerif.Gen.TmgrSched

/-!
# C12 — Each task is bound to exactly one eligible pilot

`rrRun` / `bfRun` are the models of the RoundRobin / Backfilling task-manager
schedulers; an op is one atomic callback (they run under the component locks).
-/
namespace RPVerif.C12
open RPVerif.TmgrSched List

/-- **conservation (round robin)**: over any history of callbacks, for every
    uid: (times forwarded) + (times still held in the wait pool or the
    early-binding list) = (times held initially) + (times submitted). -/
theorem C12_conservation (ops : List Op) (s : S) (a : Nat) :
    count a (fwdUids (rrRun s ops).2) + count a (held (rrRun s ops).1)
      = count a (held s) + count a (allNew ops) :=
  rrRun_conserve ops s a

/-- **forwarded exactly once, never lost**: if task uids are unique, every task
    is forwarded at most once, is never both forwarded and waiting, and every
    submitted task is either forwarded or still waiting (wait pool / waiting for
    its named pilot) — for every interleaving of submissions, pilot additions,
    removals and state notifications. -/
theorem C12_once (ops : List Op) (s : S) (hu : (held s ++ allNew ops).Nodup) :
    (fwdUids (rrRun s ops).2 ++ held (rrRun s ops).1).Nodup
    ∧ ∀ a, a ∈ held s ++ allNew ops ↔ a ∈ fwdUids (rrRun s ops).2 ++ held (rrRun s ops).1 := by
  have hc := fun a => C12_conservation ops s a
  constructor
  · rw [nodup_iff_count]
    intro a
    have := (nodup_iff_count.mp hu) a
    rw [count_append] at this ⊢
    rw [hc a]; exact this
  · intro a
    rw [← count_pos_iff, ← count_pos_iff, count_append, count_append, hc a]

/-- **tasks wait while no pilot is added**: nothing is forwarded by the round
    robin placement, the tasks are appended to the wait pool -/
theorem C12_waits (s : S) (ts : List Task) (h : s.pids = []) :
    rrSchedule s ts = ({ s with wait := s.wait ++ ts }, []) := by
  simp [rrSchedule, h]

/-- **unnamed tasks only go to pilots that are currently added** (`_pids`) -/
theorem C12_eligible (s : S) (ts : List Task) :
    ∀ p ∈ fwdPids (rrSchedule s ts).2, p ∈ s.pids := by
  unfold rrSchedule
  by_cases h : s.pids = []
  · rw [if_pos h]; intro p hp; simp [fwdPids] at hp
  · rw [if_neg h]
    intro p hp
    exact rrAssign_pids s.pids h s.idx ts p hp

/-- `_pids` only grows by `add_pilots` and a successful `remove_pilots` takes
    the removed pilots out of it -/
theorem C12_removed_gone (s : S) (pids : List Nat) (p : Nat) (hp : p ∈ pids) (hn : s.pids.Nodup)
    (h : (rrRemovePilots s pids).2.2 = none) : p ∉ (rrRemovePilots s pids).1.pids := by
  unfold rrRemovePilots at h ⊢
  rcases hm : markRemoved s.pilots pids with ⟨ps, e⟩
  rw [hm] at h
  cases e with
  | some e => simp at h
  | none =>
    simp only at h ⊢
    rcases he : erasePids s.pids pids with ⟨pids', e'⟩
    rw [he] at h
    simp only at h ⊢
    subst h
    -- erasePids removed every pid of the list from a duplicate-free `_pids`
    have key : ∀ (l : List Nat) (cur : List Nat), cur.Nodup → (erasePids cur l).2 = none →
        (erasePids cur l).1.Nodup ∧ (∀ x ∈ l, x ∉ (erasePids cur l).1)
        ∧ ∀ x, x ∈ (erasePids cur l).1 → x ∈ cur := by
      intro l
      induction l with
      | nil => intro cur hc _; exact ⟨hc, fun x hx => absurd hx (List.not_mem_nil), fun x hx => hx⟩
      | cons y ys ih =>
        intro cur hc hok
        unfold erasePids at hok ⊢
        by_cases hy : y ∈ cur
        · rw [if_pos hy] at hok ⊢
          have ⟨i1, i2, i3⟩ := ih (cur.erase y) (hc.erase y) hok
          refine ⟨i1, ?_, fun x hx => mem_of_mem_erase (i3 x hx)⟩
          intro x hx
          rcases mem_cons.mp hx with rfl | hx
          · intro hin
            have := i3 x hin
            exact (List.Nodup.mem_erase_iff hc).mp this |>.1 rfl
          · exact i2 x hx
        · rw [if_neg hy] at hok; simp at hok
    have := key pids s.pids hn (by rw [he])
    rw [he] at this
    exact this.2.1 p hp

/-- **named tasks**: what `work` forwards directly are tasks naming a pilot whose
    dict is known, and they go to exactly that pilot; what it parks in the
    early-binding list are tasks naming a pilot not yet known -/
theorem C12_named (ps : List Pilot) (ts : List Task) (e : List (Nat × Task)) :
    (∀ o ∈ (workFilter ps e ts).2.1, ∃ t ∈ ts, o = Out.fwd t.uid (t.pilot.getD 0)
        ∧ ∃ pid, t.pilot = some pid ∧ isKnown ps pid = true)
    ∧ (∀ t ∈ (workFilter ps e ts).2.2, t ∈ ts ∧ t.pilot = none)
    ∧ (∀ x ∈ (workFilter ps e ts).1, x ∈ e ∨ (x.2 ∈ ts ∧ x.2.pilot = some x.1 ∧ isKnown ps x.1 = false)) := by
  induction ts generalizing e with
  | nil => simp [workFilter]
  | cons t ts ih =>
    unfold workFilter
    cases hp : t.pilot with
    | none =>
      simp only
      have ⟨i1, i2, i3⟩ := ih e
      rcases hw : workFilter ps e ts with ⟨e', outs, rest⟩
      rw [hw] at i1 i2 i3
      refine ⟨?_, ?_, ?_⟩
      · intro o ho
        obtain ⟨t', ht', r⟩ := i1 o ho
        exact ⟨t', mem_cons_of_mem _ ht', r⟩
      · intro t' ht'
        rcases mem_cons.mp ht' with rfl | h
        · exact ⟨mem_cons_self, hp⟩
        · exact ⟨mem_cons_of_mem _ (i2 t' h).1, (i2 t' h).2⟩
      · intro x hx
        rcases i3 x hx with h | ⟨h1, h2⟩
        · exact Or.inl h
        · exact Or.inr ⟨mem_cons_of_mem _ h1, h2⟩
    | some pid =>
      simp only
      by_cases hk : isKnown ps pid = true
      · rw [if_pos hk]
        have ⟨i1, i2, i3⟩ := ih e
        rcases hw : workFilter ps e ts with ⟨e', outs, rest⟩
        rw [hw] at i1 i2 i3
        refine ⟨?_, ?_, ?_⟩
        · intro o ho
          rcases mem_cons.mp ho with rfl | h
          · exact ⟨t, mem_cons_self, by simp [hp], pid, hp, hk⟩
          · obtain ⟨t', ht', r⟩ := i1 o h
            exact ⟨t', mem_cons_of_mem _ ht', r⟩
        · intro t' ht'
          exact ⟨mem_cons_of_mem _ (i2 t' ht').1, (i2 t' ht').2⟩
        · intro x hx
          rcases i3 x hx with h | ⟨h1, h2⟩
          · exact Or.inl h
          · exact Or.inr ⟨mem_cons_of_mem _ h1, h2⟩
      · rw [if_neg hk]
        have ⟨i1, i2, i3⟩ := ih (e ++ [(pid, t)])
        rcases hw : workFilter ps (e ++ [(pid, t)]) ts with ⟨e', outs, rest⟩
        rw [hw] at i1 i2 i3
        refine ⟨?_, ?_, ?_⟩
        · intro o ho
          obtain ⟨t', ht', r⟩ := i1 o ho
          exact ⟨t', mem_cons_of_mem _ ht', r⟩
        · intro t' ht'
          exact ⟨mem_cons_of_mem _ (i2 t' ht').1, (i2 t' ht').2⟩
        · intro x hx
          rcases i3 x hx with h | ⟨h1, h2⟩
          · rcases mem_append.mp h with h | h
            · exact Or.inl h
            · simp only [mem_singleton] at h
              subst h
              exact Or.inr ⟨mem_cons_self, hp, by simpa using hk⟩
          · exact Or.inr ⟨mem_cons_of_mem _ h1, h2⟩

/-- when a pilot is added, exactly the tasks parked for it are forwarded to it
    and forgotten (so re-adding the pilot cannot forward them again) -/
theorem C12_early_flush (e : List (Nat × Task)) (pid : Nat) :
    (flushEarly e [pid]).2 = (e.filter (fun x => x.1 = pid)).map (fun x => Out.fwd x.2.uid pid)
    ∧ (flushEarly e [pid]).1 = e.filter (fun x => x.1 ≠ pid)
    ∧ (flushEarly (flushEarly e [pid]).1 [pid]).2 = [] := by
  refine ⟨by simp [flushEarly], by simp [flushEarly], ?_⟩
  simp [flushEarly, filter_filter]

/-- **backfilling never assigns to a pilot outside its eligible states or
    already at its high-water mark**: every pilot that receives a task in a
    scheduling pass was, at the start of the pass, ADDED, in a state within the
    backfilling window, and below its high-water mark -/
theorem C12_bf_window (c : BFCfg) (s : S) :
    ∀ p ∈ fwdPids (bfSchedule c s).2, p ∈ s.pids ∧
      ∃ pl, findPilot s.pilots p = some pl ∧ pl.role = .added
        ∧ (∃ v, pl.state = some v ∧ c.startVal ≤ v ∧ v ≤ c.stopVal) ∧ pl.used < (pl.hwm : Int) := by
  intro p hp
  unfold bfSchedule at hp
  by_cases h1 : s.pids = []
  · rw [if_pos h1] at hp; simp [fwdPids] at hp
  · rw [if_neg h1] at hp
    by_cases h2 : eligiblePids c s = []
    · rw [if_pos h2] at hp; simp [fwdPids] at hp
    · rw [if_neg h2] at hp
      rcases hl : bfLoop s.pilots (eligiblePids c s) s.wait with ⟨ps', un, outs⟩
      rw [hl] at hp
      have := bfLoop_pids s.wait s.pilots _ p (by rw [hl]; exact hp)
      obtain ⟨hm, he⟩ := mem_filter.mp this
      refine ⟨hm, ?_⟩
      cases hf : findPilot s.pilots p with
      | none => rw [hf] at he; simp at he
      | some pl =>
        rw [hf] at he
        simp only [bfEligible, Bool.and_eq_true, decide_eq_true_eq] at he
        obtain ⟨⟨hr, hs⟩, hu⟩ := he
        refine ⟨pl, rfl, hr, ?_, hu⟩
        cases hst : pl.state with
        | none => rw [hst] at hs; simp at hs
        | some v =>
          rw [hst] at hs
          simp only [Bool.and_eq_true, decide_eq_true_eq] at hs
          exact ⟨v, rfl, hs.1, hs.2⟩

/-! non-vacuity (tests) -/
example : (rrRun {} [.work [⟨0, some 7, 1⟩, ⟨1, none, 1⟩], .addPilots [7] [4], .removePilots [7],
                     .addPilots [7] [4], .work [⟨2, none, 1⟩]]).2
    = [.sched 0, .sched 1, .fwd 0 7, .fwd 1 7, .sched 2, .fwd 2 7] := by decide

/-! ## round robin spreads a batch -/

/-- **round robin balance**: for every list of eligible pilots (no duplicates), every stored index
    (in or beyond the list) and every batch of tasks without a named pilot, the numbers of tasks
    forwarded to any two eligible pilots differ by at most one, every task of the batch is forwarded,
    and only to eligible pilots -/
theorem C12_rr_balance (pids : List Nat) (hn : pids.Nodup) (idx : Nat) (ts : List Task) (P Q : Nat)
    (hP : P ∈ pids) (hQ : Q ∈ pids) :
    load P (rrAssign pids idx ts).2 ≤ load Q (rrAssign pids idx ts).2 + 1
    ∧ (targets (rrAssign pids idx ts).2).length = ts.length
    ∧ ∀ T ∈ targets (rrAssign pids idx ts).2, T ∈ pids :=
  ⟨rr_balance pids hn idx ts P Q hP hQ,
   (rr_targets_eligible pids (List.length_pos_of_mem hP) idx ts).1,
   (rr_targets_eligible pids (List.length_pos_of_mem hP) idx ts).2⟩

example : targets (rrAssign [5, 7, 9] 2 [⟨0, none, 1⟩, ⟨1, none, 1⟩, ⟨2, none, 1⟩, ⟨3, none, 1⟩]).2 = [9, 5, 7, 9] := by decide

/-! ## backfilling: the usage figure -/

/-- **the usage figure of backfilling is exact and returns to zero**: for every history of scheduler
    callbacks (pilots added - also again after removal -, removed, state notifications in any order,
    submissions, task state notifications, duplicates included) in which submissions and notifications
    carry the cores of the task's description (`cf`), every pilot's `used` is the cores of the tasks
    assigned to it minus the cores of those reported finished; a finished task is counted once; so
    when all of a pilot's (distinct) tasks have finished its usage is zero -/
theorem C12_bf_usage (cf : Nat → Nat) (c : BFCfg) (execVal : Nat) (ops : List Op) (hops : ∀ op ∈ ops, OpOK cf op)
    (p : Pilot) (hp : p ∈ (bfRun c execVal {} ops).1.pilots) :
    p.used = sumc cf p.tasks - sumc cf p.done
    ∧ p.done.Nodup ∧ (∀ u ∈ p.done, u ∈ p.tasks)
    ∧ (p.tasks.Nodup → (∀ u ∈ p.tasks, u ∈ p.done) → p.used = 0) := by
  have hinit : BFInv cf ({} : S) := ⟨(fun q hq => by cases hq), (fun t ht => by cases ht)⟩
  have h := (bfRun_inv cf c execVal ops hops {} hinit).pilots p hp
  exact ⟨h.used, h.nodup, h.sub, fun hn hall => usedInv_zero cf p h hn hall⟩

/-- **conservation (backfilling)**: over any history of callbacks (pilots added with any sizes, removed,
    state notifications in any order, submissions, task state notifications), a uid that is held or
    submitted at most once is forwarded once or still held once: (times forwarded) + (times in the wait
    pool or the early-binding list) = (times held initially) + (times submitted).  The wait pool of
    Backfilling is a dict keyed by uid, hence the uniqueness hypothesis (per uid). -/
theorem C12_bf_conservation (c : BFCfg) (execVal : Nat) (ops : List Op) (s : S) (a : Nat)
    (hu : count a (held s) + count a (allNew ops) ≤ 1) :
    count a (fwdUids (bfRun c execVal s ops).2) + count a (held (bfRun c execVal s ops).1)
      = count a (held s) + count a (allNew ops) :=
  bfRun_conserve c execVal ops a s hu

/-- **forwarded at most once, never lost (backfilling)** -/
theorem C12_bf_once (c : BFCfg) (execVal : Nat) (ops : List Op) (s : S) (a : Nat)
    (hu : count a (held s) + count a (allNew ops) = 1) :
    (count a (fwdUids (bfRun c execVal s ops).2) = 1 ∧ count a (held (bfRun c execVal s ops).1) = 0)
    ∨ (count a (fwdUids (bfRun c execVal s ops).2) = 0 ∧ count a (held (bfRun c execVal s ops).1) = 1) := by
  have := C12_bf_conservation c execVal ops s a (by omega)
  omega

/-! ## a callback handled by another thread while a pass hands its tasks on -/

/-- **overlapping callbacks**: with the code as it is (`Gen.bfWritesPoolInPass`: the pass replaces the wait pool by
    the remainder inside the lock section that read it), a callback another thread handles while the pass hands its
    placed tasks on finds exactly the state the pass leaves - it does what it would do after the pass, so the
    theorems over callback histories cover this interleaving too -/
theorem C12_bf_overlap (c : BFCfg) (execVal : Nat) (s : S) (op : Op) :
    bfStep c execVal (bfVisibleAtHandOver Gen.bfWritesPoolInPass c s) op = bfStep c execVal (bfSchedule c s).1 op := by
  have e : Gen.bfWritesPoolInPass = true := by decide
  rw [e]; rfl

/-- the lock section matters: were the pool written back after the hand-over, a second pass over what is visible
    in between would forward the task the first pass has just placed once more (to the second pilot) -/
def overlapWitness : S :=
  { pilots := [⟨0, .added, some 4, true, 1, 2, 0, [], []⟩, ⟨1, .added, some 4, true, 1, 2, 0, [], []⟩], pids := [0, 1],
    wait := [⟨7, none, 2⟩] }

theorem C12_bf_overlap_witness :
    (bfSchedule ⟨4, 4, 200⟩ overlapWitness).2 = [.fwd 7 0]
    ∧ (bfSchedule ⟨4, 4, 200⟩ (bfVisibleAtHandOver false ⟨4, 4, 200⟩ overlapWitness)).2 = [.fwd 7 1]
    ∧ (bfSchedule ⟨4, 4, 200⟩ (bfVisibleAtHandOver true ⟨4, 4, 200⟩ overlapWitness)).2 = [] := by decide

/-! ### one state notification naming several pilots (round 15) -/

/-- a pass over a wait pool with an eligible pilot forwards at least the first waiting task -/
theorem C12_bf_pass_progress (c : BFCfg) (s : S) (t : Task) (ts : List Task)
    (hw : s.wait = t :: ts) (he : eligiblePids c s ≠ []) :
    ∃ pid, Out.fwd t.uid pid ∈ (bfSchedule c s).2 := by
  have hp : s.pids ≠ [] := by
    intro h; apply he; simp [eligiblePids, h]
  unfold bfSchedule
  rw [if_neg hp, if_neg he, hw]
  cases hel : eligiblePids c s with
  | nil => exact absurd hel he
  | cons pid rest =>
    have hmem : pid ∈ eligiblePids c s := by rw [hel]; simp
    obtain ⟨_, hE⟩ := mem_filter.mp hmem
    cases hf : findPilot s.pilots pid with
    | none => rw [hf] at hE; simp at hE
    | some p =>
      rw [hf] at hE
      simp only [bfEligible, Bool.and_eq_true, decide_eq_true_eq] at hE
      have hu : p.used ≤ (p.hwm : Int) := by omega
      refine ⟨pid, ?_⟩
      simp only [bfLoop, bfPlace, hf, hu, if_true, reduceCtorEq, if_false]
      rcases bfLoop _ _ ts with ⟨ps', un, outs⟩
      simp

theorem find_map_set (ps : List Pilot) (p' : Pilot) :
    (ps.map (fun q => if q.pid = p'.pid then p' else q)).find? (fun q => q.pid = p'.pid)
      = (ps.find? (fun q => q.pid = p'.pid)).map (fun _ => p') := by
  induction ps with
  | nil => rfl
  | cons q qs ih =>
    by_cases h : q.pid = p'.pid
    · simp [h]
    · simp [h, ih]

theorem stateOf_touchPilot (ps : List Pilot) (pid : Nat) (v : Option Nat) : stateOf (touchPilot ps pid v) pid = v := by
  unfold stateOf touchPilot
  cases hf : findPilot ps pid with
  | none =>
    simp only [findPilot] at hf ⊢
    simp [List.find?_append, hf]
  | some p =>
    have hp : p.pid = pid := by
      have := List.find?_some hf
      simpa using this
    have hm : p ∈ ps := List.mem_of_find?_eq_some hf
    subst hp
    have hany : (ps.any (fun q => q.pid = ({ p with state := v } : Pilot).pid)) = true := by
      simp only [List.any_eq_true, decide_eq_true_eq]
      exact ⟨p, hm, rfl⟩
    simp only [setPilot, hany, if_true, findPilot]
    have h2 := find_map_set ps { p with state := v }
    simp only [findPilot] at hf
    simp only at h2
    rw [h2, hf]
    rfl

/-- a single-pilot notification is the `pilotState` step the histories of this file range over -/
theorem C12_bulk_single (c : BFCfg) (execVal : Nat) (s : S) (pid : Nat) (v : Option Nat) :
    bfPilotStates true c s [(pid, v)] = bfStep c execVal s (.pilotState pid v) := by
  unfold bfPilotStates bfStep
  simp only [touchAll]
  show _ = if stateOf s.pilots pid = v then _ else if inWindow c v = true then _ else _
  by_cases h : stateOf s.pilots pid = v
  · simp [h, bfTrigger]
  · simp only [h, if_false, bfTrigger, if_true, List.any_cons, List.any_nil, Bool.or_false, stateOf_touchPilot]

/-- **C12 for notifications that name several pilots**: with the loop of `Backfilling.update_pilots` as the translator
    reads it from the source (`Gen.bfUpdateAnyEligible`), a notification after which SOME pilot whose state changed is
    inside the window triggers a pass wherever in the notification that pilot stands; if a task waits and an added
    pilot inside the window has room, at least the first waiting task is forwarded -/
theorem C12_bulk_notification_progress (c : BFCfg) (s : S) (ups : List (Nat × Option Nat)) (t : Task) (ts : List Task)
    (hw : s.wait = t :: ts)
    (hch : ∃ pid ∈ (touchAll s.pilots ups).2, inWindow c (stateOf (touchAll s.pilots ups).1 pid) = true)
    (he : eligiblePids c { s with pilots := (touchAll s.pilots ups).1 } ≠ []) :
    ∃ pid, Out.fwd t.uid pid ∈ (bfPilotStates Gen.bfUpdateAnyEligible c s ups).2.1 := by
  have e : Gen.bfUpdateAnyEligible = true := by decide
  rw [e]
  unfold bfPilotStates
  rcases hta : touchAll s.pilots ups with ⟨ps, ch⟩
  rw [hta] at hch he
  have htr : bfTrigger true c ps ch = true := by
    simp only [bfTrigger, if_true, List.any_eq_true]
    exact hch
  simp only [htr, if_true]
  obtain ⟨pid, hpid⟩ := C12_bf_pass_progress c { s with pilots := ps } t ts hw he
  rcases hb : bfSchedule c { s with pilots := ps } with ⟨s', outs⟩
  rw [hb] at hpid
  exact ⟨pid, hpid⟩

/-- the position matters to the alternative: were the last updated pilot to decide, the notification
    [pilot 1 becomes ACTIVE, pilot 0 still pending] would leave the task waiting although pilot 1 has room -/
def bulkWitness : S :=
  { pilots := [⟨0, .added, some 2, true, 4, 8, 0, [], []⟩, ⟨1, .added, some 2, true, 4, 8, 0, [], []⟩], pids := [0, 1],
    wait := [⟨7, none, 1⟩] }

theorem C12_bulk_notification_witness :
    (bfPilotStates true  ⟨4, 4, 200⟩ bulkWitness [(1, some 4), (0, some 3)]).2.1 = [.fwd 7 1]
    ∧ (bfPilotStates false ⟨4, 4, 200⟩ bulkWitness [(1, some 4), (0, some 3)]).2.1 = []
    ∧ (bfPilotStates false ⟨4, 4, 200⟩ bulkWitness [(0, some 3), (1, some 4)]).2.1 = [.fwd 7 1] := by decide

/-! ### one notification naming a pilot and its task (round 16) -/

/-- what the pass of the task part starts from: the pilot states are those the pilot part recorded -/
theorem mixed_task_part_window (c : BFCfg) (execVal : Nat) (s1 : S) (tus : List (Nat × Option Nat × Nat × Nat)) :
    ∀ p ∈ fwdPids (bfStep c execVal s1 (.taskStates tus)).2.1, inWindow c (stateOf s1.pilots p) = true := by
  intro p hp
  simp only [bfStep] at hp
  rcases hu : bfUpdateTasks execVal s1.pilots tus false with ⟨ps, r, e⟩
  rw [hu] at hp
  cases e with
  | some e => simp [fwdPids] at hp
  | none =>
    cases r with
    | false => simp [fwdPids] at hp
    | true =>
      simp only at hp
      obtain ⟨_, pl, hf, _, ⟨v, hv, h1, h2⟩, _⟩ := C12_bf_window c { s1 with pilots := ps } p hp
      have hst : stateOf ps p = stateOf s1.pilots p := by
        have := bfUpdateTasks_state execVal tus s1.pilots false p
        rw [hu] at this
        exact this
      rw [← hst]
      simp only at hf
      simp [stateOf, hf, hv, inWindow, h1, h2]

/-- **C12 for a notification that names pilots and tasks**: with the order in which `_base_state_cb` digests them as the
    translator reads it from the source (`Gen.bfStatesPilotsFirst`) and the loop of `update_pilots` as read
    (`Gen.bfUpdateAnyEligible`), every pilot a task is forwarded to while the notification is handled - by the pass the
    pilot part triggers or by the pass a finished task triggers - is, in the state the notification itself reports for
    it, inside the backfilling window: no task is bound to a pilot the scheduler has just been told is final -/
theorem C12_mixed_window (c : BFCfg) (execVal : Nat) (s : S) (ups : List (Nat × Option Nat))
    (tus : List (Nat × Option Nat × Nat × Nat)) :
    ∀ p ∈ fwdPids (bfMixed Gen.bfUpdateAnyEligible Gen.bfStatesPilotsFirst c execVal s ups tus).2.1,
      inWindow c (stateOf (touchAll s.pilots ups).1 p) = true := by
  have e1 : Gen.bfUpdateAnyEligible = true := by decide
  have e2 : Gen.bfStatesPilotsFirst = true := by decide
  rw [e1, e2]
  intro p hp
  simp only [bfMixed, if_true] at hp
  -- the pilot part
  have hpart : ∀ q ∈ fwdPids (bfPilotStates true c s ups).2.1, inWindow c (stateOf (touchAll s.pilots ups).1 q) = true := by
    intro q hq
    unfold bfPilotStates at hq
    rcases hta : touchAll s.pilots ups with ⟨ps, ch⟩
    rw [hta] at hq
    simp only
    by_cases htr : bfTrigger true c ps ch = true
    · simp only [htr, if_true] at hq
      obtain ⟨_, pl, hf, _, ⟨v, hv, h1, h2⟩, _⟩ := C12_bf_window c { s with pilots := ps } q hq
      simp only at hf
      simp [stateOf, hf, hv, inWindow, h1, h2]
    · simp only [htr] at hq
      simp [fwdPids] at hq
  have hstate : ∀ q, stateOf (bfPilotStates true c s ups).1.pilots q = stateOf (touchAll s.pilots ups).1 q := by
    intro q
    unfold bfPilotStates
    rcases hta : touchAll s.pilots ups with ⟨ps, ch⟩
    simp only
    by_cases htr : bfTrigger true c ps ch = true
    · simp only [htr, if_true]
      exact bfSchedule_state c { s with pilots := ps } q
    · simp only [htr]
      rfl
  rcases hps : bfPilotStates true c s ups with ⟨s1, o1, e⟩
  rw [hps] at hp hpart hstate
  cases e with
  | some e => exact hpart p hp
  | none =>
    simp only at hp
    rcases hts : bfStep c execVal s1 (.taskStates tus) with ⟨s2, o2, e'⟩
    rw [hts] at hp
    simp only [fwdPids, filterMap_append, mem_append] at hp
    rcases hp with hp | hp
    · exact hpart p hp
    · have := mixed_task_part_window c execVal s1 tus p (by rw [hts]; exact hp)
      rw [← hstate p]
      exact this

/-- the order matters: pilot 0 (4 cores, at its high-water mark, tasks 4 waits) is reported DONE together with its task 0
    finished.  Pilots first: nothing is forwarded.  Tasks first: the pass the finished task triggers still sees pilot 0
    active and binds the waiting task to it. -/
def mixedWitness : S :=
  { pilots := [⟨0, .added, some 4, true, 2, 4, 4, [0, 1, 2, 3], []⟩], pids := [0], wait := [⟨4, none, 1⟩] }

theorem C12_mixed_window_witness :
    (bfMixed true true  ⟨4, 4, 200⟩ 10 mixedWitness [(0, some 5)] [(0, some 0, 13, 1)]).2.1 = []
    ∧ (bfMixed true false ⟨4, 4, 200⟩ 10 mixedWitness [(0, some 5)] [(0, some 0, 13, 1)]).2.1 = [.fwd 4 0] := by decide

end RPVerif.C12
