import RPVerif.Lemmas.States
import RPVerif.Gen.States
import RPVerif.Model.Callbacks

/-!
# C13 — A dying pilot fails its own tasks and only those

`pilotStateCb` is the model of `TaskManager._pilot_state_cb` (it calls the model
of `Task._update`).  `ps` is the list of `(pilot id, pilot state)` the callback
is invoked with — several pilots, in any order.
-/
namespace RPVerif.C13
open RPVerif.States

def N : Nat := Gen.taskStateValues.length - 3

/-- task `t` is hit: it is not final and bound to a pilot of `ps` that is final -/
def affected (ps : List (Nat × St)) (t : Task) : Bool :=
  !t.state.isFinal && ps.any (fun q => q.2.isFinal && t.pilot == some q.1)

/-- what the property demands for one task -/
def expected (ps : List (Nat × St)) (t : Task) : Task :=
  if affected ps t then { t with state := .failed, detail := t.pilot } else t

def failOne (pid : Nat) (t : Task) : Task :=
  if t.pilot = some pid ∧ ¬ t.state.isFinal then { t with state := .failed, detail := some pid } else t

theorem pilotFinalOne_eq (pid : Nat) (ts : Tasks) :
    ∃ pubs, pilotFinalOne N pid ts = .ok (ts.map (failOne pid), pubs)
      ∧ pubs = (ts.filter (fun t => t.pilot = some pid ∧ ¬ t.state.isFinal)).map (·.uid) := by
  induction ts with
  | nil => exact ⟨[], rfl, rfl⟩
  | cons t ts ih =>
    obtain ⟨pubs, h, hp⟩ := ih
    unfold pilotFinalOne
    by_cases hc : t.pilot = some pid ∧ ¬ t.state.isFinal
    · rw [if_pos hc]
      have hu : taskUpdate N t { uid := t.uid, state := .failed, detail := some pid } false
          = .ok { t with state := .failed, detail := some pid } := by
        have : Step N t.state .failed := ⟨by simpa using hc.2, trivial, Or.inr rfl⟩
        have := taskUpdate_step (N := N) t { uid := t.uid, state := .failed, detail := some pid } .failed this
        simpa using this
      rw [hu]
      simp only [h]
      refine ⟨t.uid :: pubs, ?_, ?_⟩
      · simp only [List.map_cons, failOne, if_pos hc]
      · simp only [List.filter_cons, decide_eq_true hc, if_true, List.map_cons, hp]
    · rw [if_neg hc]
      simp only [h]
      refine ⟨pubs, ?_, ?_⟩
      · simp only [List.map_cons, failOne, if_neg hc]
      · simp only [List.filter_cons, decide_eq_false hc, hp]
        rfl

theorem affected_cons (p : Nat) (s : St) (ps : List (Nat × St)) (t : Task) :
    affected ((p, s) :: ps) t
      = ((!t.state.isFinal && (s.isFinal && t.pilot == some p)) || affected ps t) := by
  simp only [affected, List.any_cons]
  cases t.state.isFinal <;> simp

theorem expected_cons_final (p : Nat) (s : St) (ps : List (Nat × St)) (hs : s.isFinal = true)
    (t : Task) : expected ps (failOne p t) = expected ((p, s) :: ps) t := by
  unfold expected
  rw [affected_cons]
  by_cases hc : t.pilot = some p ∧ ¬ t.state.isFinal
  · have h1 : failOne p t = { t with state := .failed, detail := some p } := by
      simp only [failOne, if_pos hc]
    have h2 : affected ps (failOne p t) = false := by
      rw [h1]; simp [affected, St.isFinal]
    have h4 : t.state.isFinal = false := by simpa using hc.2
    rw [h2, h1]
    simp [h4, hs, hc.1]
  · have h1 : failOne p t = t := by simp only [failOne, if_neg hc]
    rw [h1]
    have h5 : (!t.state.isFinal && (s.isFinal && t.pilot == some p)) = false := by
      by_cases hf : t.state.isFinal = true
      · simp [hf]
      · have hp : t.pilot ≠ some p := fun h => hc ⟨h, hf⟩
        have : (t.pilot == some p) = false := by simp [hp]
        simp [this]
    rw [h5, Bool.false_or]

theorem expected_cons_nonfinal (p : Nat) (s : St) (ps : List (Nat × St)) (hs : s.isFinal = false)
    (t : Task) : expected ps t = expected ((p, s) :: ps) t := by
  unfold expected
  rw [affected_cons, hs]
  simp

/-- **C13 (full statement)**: the callback never raises, and afterwards every
    task is exactly what the property demands: a non-final task bound to one of
    the pilots that ended is FAILED with a detail naming that pilot; every other
    task (bound elsewhere, unbound, or already final — DONE, FAILED or CANCELED)
    is unchanged in state, binding and recorded exception. -/
theorem C13 (ts : Tasks) (ps : List (Nat × St)) :
    ∃ pubs, pilotStateCb N ts ps = .ok (ts.map (expected ps), pubs) := by
  induction ps generalizing ts with
  | nil =>
    refine ⟨[], ?_⟩
    have : ts.map (expected []) = ts := by
      have h : ∀ t : Task, expected [] t = t := fun t => by simp [expected, affected]
      rw [List.map_congr_left (fun t _ => h t), List.map_id']
    simp [pilotStateCb, this]
  | cons q ps ih =>
    obtain ⟨p, s⟩ := q
    unfold pilotStateCb
    by_cases hs : s.isFinal = true
    · rw [if_pos hs]
      obtain ⟨pubs, h, _⟩ := pilotFinalOne_eq p ts
      obtain ⟨pubs', h'⟩ := ih (ts.map (failOne p))
      simp only [h, h']
      refine ⟨pubs ++ pubs', ?_⟩
      rw [List.map_map]
      congr 2
      apply List.map_congr_left
      intro t _
      exact expected_cons_final p s ps hs t
    · rw [if_neg hs]
      obtain ⟨pubs', h'⟩ := ih ts
      refine ⟨pubs', ?_⟩
      rw [h']
      congr 2
      apply List.map_congr_left
      intro t _
      exact expected_cons_nonfinal p s ps (by simpa using hs) t

/-- the clauses of the property, read off `expected` -/
theorem C13_own_tasks_failed (ps : List (Nat × St)) (t : Task) (p : Nat) (s : St)
    (hb : t.pilot = some p) (hm : (p, s) ∈ ps) (hs : s.isFinal = true)
    (hn : t.state.isFinal = false) :
    (expected ps t).state = .failed ∧ (expected ps t).detail = some p := by
  have : affected ps t = true := by
    simp only [affected, hn, Bool.not_false, Bool.true_and, List.any_eq_true]
    exact ⟨(p, s), hm, by simp [hs, hb]⟩
  simp [expected, this, hb]

theorem C13_others_untouched (ps : List (Nat × St)) (t : Task)
    (h : t.pilot = none ∨ t.state.isFinal = true
         ∨ ∀ p s, (p, s) ∈ ps → s.isFinal = true → t.pilot ≠ some p) :
    expected ps t = t := by
  have : affected ps t = false := by
    simp only [affected, Bool.and_eq_false_iff, Bool.not_eq_false', List.any_eq_false]
    rcases h with h | h | h
    · right; intro q _; simp [h]
    · left; exact h
    · right; intro q hq
      by_cases hf : q.2.isFinal = true
      · have := h q.1 q.2 hq hf
        simp [hf, this]
      · simp [hf]
  simp [expected, this]

/-- **order independence**: the outcome does not depend on the order in which
    several pilots end -/
theorem C13_order (ts : Tasks) (ps ps' : List (Nat × St)) (h : ∀ q, q ∈ ps ↔ q ∈ ps') :
    ts.map (expected ps) = ts.map (expected ps') := by
  apply List.map_congr_left
  intro t _
  have : affected ps t = affected ps' t := by
    unfold affected
    congr 1
    rw [Bool.eq_iff_iff]
    simp only [List.any_eq_true]
    constructor
    · rintro ⟨q, hq, hh⟩; exact ⟨q, (h q).mp hq, hh⟩
    · rintro ⟨q, hq, hh⟩; exact ⟨q, (h q).mpr hq, hh⟩
  simp [expected, this]

/-! non-vacuity (a test): two pilots, one ends; a canceled task of the dead pilot,
    an unbound task and a task of the other pilot are untouched -/
example :
    pilotStateCb N [⟨0, .nf 9, some 1, none⟩, ⟨1, .nf 4, some 2, none⟩, ⟨2, .nf 1, none, none⟩,
                    ⟨3, .canceled, some 1, none⟩, ⟨4, .done, some 1, none⟩]
                   [(1, .failed), (2, .nf 4)]
      = .ok ([⟨0, .failed, some 1, some 1⟩, ⟨1, .nf 4, some 2, none⟩, ⟨2, .nf 1, none, none⟩,
              ⟨3, .canceled, some 1, none⟩, ⟨4, .done, some 1, none⟩], [0]) := by
  rfl

/-! ## the callback chain -/

theorem runChain_prefix (pre : List Cb) (tm : Cb) (rest : List Cb) (h : ∀ c ∈ pre, c.raises = false) :
    tm.id ∈ runChain (pre ++ tm :: rest) := by
  induction pre with
  | nil =>
    simp only [List.nil_append, runChain]
    split <;> simp
  | cons c cs ih =>
    have hc : c.raises = false := h c List.mem_cons_self
    simp only [List.cons_append, runChain, hc, Bool.false_eq_true, if_false]
    exact List.mem_cons_of_mem _ (ih (fun x hx => h x (List.mem_cons_of_mem _ hx)))

/-- **an application callback on the pilot manager cannot keep a dying pilot's tasks alive**: the
    task manager's callback is registered on the pilot object, so it has run before any callback of
    the pilot manager is called - whatever those do (raise, return), and whatever callbacks were
    registered on the pilot after it; only a raising callback registered on the pilot before it can
    prevent it -/
theorem C13_callback_order (pre post pmgr : List Cb) (tm : Cb) (h : ∀ c ∈ pre, c.raises = false) :
    tm.id ∈ pilotUpdateCbs (pre ++ tm :: post) pmgr := by
  unfold pilotUpdateCbs
  rw [List.append_assoc, List.cons_append]
  exact runChain_prefix pre tm (post ++ pmgr) h

/-- with the pilot manager's callbacks called first, one that raises keeps the task manager's from
    running (witness for the order) -/
theorem C13_callback_order_witness :
    (0 : Nat) ∉ runChain ([⟨7, true⟩] ++ [⟨0, false⟩]) := by decide

/-! ## application callbacks that use the registry while a pilot state is delivered -/

theorem C13_pilot_cb_snapshot : Gen.pilotCbSnapshot = true ∧ Gen.pmgrCbSnapshot = true := by decide

/-- **the task manager's callback is reached whatever the application's callbacks do to the registry**:
    every callback registered on the pilot (and then every one registered on the pilot manager) when a
    state is delivered is called exactly once and no exception escapes the walk - a one-shot callback
    that unregisters itself at the final state does not keep the task manager from failing the tasks of
    the dead pilot.  Holds because both loops walk a copy of the registry (`C13_pilot_cb_snapshot`, read
    from the source; repaired by f9f0a5a - the walk over the live registry lost every later callback). -/
theorem C13_registry_use_harmless (reg : List Nat) (act : Nat → Callbacks.Edit) :
    (Callbacks.deliver Gen.pilotCbSnapshot reg act).1 = reg ∧ (Callbacks.deliver Gen.pilotCbSnapshot reg act).2.2 = false ∧
    (Callbacks.deliver Gen.pmgrCbSnapshot reg act).1 = reg ∧ (Callbacks.deliver Gen.pmgrCbSnapshot reg act).2.2 = false := by
  rw [C13_pilot_cb_snapshot.1, C13_pilot_cb_snapshot.2]
  exact ⟨rfl, rfl, rfl, rfl⟩

/-- the defect that was repaired (test): walking the live registry, a one-shot application callback (1)
    registered before the task manager's (0) ends the walk - the task manager is never called -/
example : Callbacks.deliver false [1, 0] (fun id => if id = 1 then .unregister 1 else .nothing) = ([1], [0], true) := by decide

/-! ## a pilot that ends while tasks bound to it are being submitted -/

/-- **the scan survives a concurrent submission**: `_pilot_state_cb` scans the task registry without the tasks
    lock, and `submit_tasks` on another thread may enter tasks while it does (`act id`: what happens to the registry
    while task `id` is being failed - anything).  With the code as it is (`Gen.tmgrScanSnapshot`: the scan walks a
    copy; repaired by 6c8c628 - the walk over the live registry ended with a RuntimeError at the first task entered
    meanwhile and the remaining tasks of the dead pilot were never failed) every task registered when the scan began
    is looked at and no exception escapes -/
theorem C13_scan_complete (reg : List Nat) (act : Nat → Callbacks.Edit) :
    (Callbacks.deliver Gen.tmgrScanSnapshot reg act).1 = reg ∧ (Callbacks.deliver Gen.tmgrScanSnapshot reg act).2.2 = false := by
  have e : Gen.tmgrScanSnapshot = true := by decide
  rw [e]; exact ⟨rfl, rfl⟩

/-- the defect that was repaired (test): three tasks, a task (9) entered while the first is being failed - the walk
    over the live registry stops after the first -/
example : Callbacks.deliver false [0, 1, 2] (fun id => if id = 0 then .register 9 else .nothing) = ([0], [0, 1, 2, 9], true) := by decide


/-- **no window between hand-over and registration**: with the code as it is (`Gen.submitRegistersFirst`:
    `submit_tasks` enters a bulk into the registry before it hands it to the scheduler, at every site), wherever
    the delivery of the pilot's final state falls between the steps of the submitting thread, a task of that pilot
    the scheduler already had when the pilot ended is found by the callback and failed -/
theorem C13_submission_window (i : Nat) :
    (Callbacks.subRun (Callbacks.withFinalAt (Callbacks.submitOrder Gen.submitRegistersFirst) i)).handedBefore = true →
    (Callbacks.subRun (Callbacks.withFinalAt (Callbacks.submitOrder Gen.submitRegistersFirst) i)).failed = true := by
  have e : Gen.submitRegistersFirst = true := by decide
  rw [e]
  match i with
  | 0 => decide
  | 1 => decide
  | (k + 2) => simp [Callbacks.withFinalAt, Callbacks.submitOrder, Callbacks.subRun, Callbacks.subStep]

/-- the order matters: handing over first opens a window in which the pilot's end misses the task -/
theorem C13_submission_window_witness :
    (Callbacks.subRun (Callbacks.withFinalAt (Callbacks.submitOrder false) 1)).handedBefore = true
    ∧ (Callbacks.subRun (Callbacks.withFinalAt (Callbacks.submitOrder false) 1)).failed = false := by decide

/-! ## a pilot that ends while it is being activated -/

theorem updRun_update_ge (evs : List Callbacks.UpdEv) (h : ∀ e ∈ evs, ∃ t, e = .update t) : ∀ (s : Callbacks.UpdSt),
    s.cur ≤ (Callbacks.updRun s evs).cur ∧ ∀ t, Callbacks.UpdEv.update t ∈ evs → t ≤ (Callbacks.updRun s evs).cur := by
  induction evs with
  | nil => intro s; simp [Callbacks.updRun]
  | cons e rest ih =>
    intro s
    obtain ⟨t0, rfl⟩ := h _ List.mem_cons_self
    have ih' := ih (fun e he => h e (List.mem_cons_of_mem _ he)) (Callbacks.updStep s (.update t0))
    simp only [Callbacks.updRun, List.foldl_cons] at ih' ⊢
    have hc : (Callbacks.updStep s (.update t0)).cur = max s.cur t0 := rfl
    refine ⟨by omega, ?_⟩
    intro t ht
    rcases List.mem_cons.mp ht with h1 | h1
    · cases h1; omega
    · exact ih'.2 t h1

/-- **no notified state is lost between two threads**: with the code as it is (`Gen.pmgrUpdateInLock`:
    `_update_pilot` reads, plans and applies within one section of the pilots lock), whatever order the lock lets the
    two notifications in, the pilot ends at least as far as both of them say - a FAILED that arrives while the pilot
    is being activated is not overwritten by the activation, so the callback of the task manager sees the final state -/
theorem C13_update_atomic (c a b : Nat) (evs : List Callbacks.UpdEv)
    (h : evs = (Callbacks.updThreads Gen.pmgrUpdateInLock a b).1 ++ (Callbacks.updThreads Gen.pmgrUpdateInLock a b).2
       ∨ evs = (Callbacks.updThreads Gen.pmgrUpdateInLock a b).2 ++ (Callbacks.updThreads Gen.pmgrUpdateInLock a b).1) :
    a ≤ (Callbacks.updRun ⟨c, []⟩ evs).cur ∧ b ≤ (Callbacks.updRun ⟨c, []⟩ evs).cur := by
  have e : Gen.pmgrUpdateInLock = true := by decide
  rw [e] at h
  simp only [Callbacks.updThreads, if_true, List.singleton_append] at h
  rcases h with rfl | rfl
  · have := (updRun_update_ge [.update a, .update b] (by intro e he; simp at he; rcases he with rfl | rfl <;> exact ⟨_, rfl⟩) ⟨c, []⟩).2
    exact ⟨this a (by simp), this b (by simp)⟩
  · have := (updRun_update_ge [.update b, .update a] (by intro e he; simp at he; rcases he with rfl | rfl <;> exact ⟨_, rfl⟩) ⟨c, []⟩).2
    exact ⟨this a (by simp), this b (by simp)⟩

/-- the lock section matters: with the application outside it the activation (value 4), planned before the final state
    (value 5) was applied, overwrites it -/
theorem C13_update_witness :
    (Callbacks.updRun ⟨2, []⟩ [.plan 0 4, .plan 1 5, .apply 1, .apply 0]).cur = 4 := by decide

/-! ### one description object re-used for several pilots (round 16) -/

theorem filter_map_aux {α β : Type} (f : α → β) (P : β → Bool) (Q : α → Bool) (g : β → Nat) (g' : α → Nat)
    (hP : ∀ a, P (f a) = Q a) (hg : ∀ a, g (f a) = g' a) (l : List α) :
    ((l.map f).filter P).map g = (l.filter Q).map g' := by
  induction l with
  | nil => rfl
  | cons a l ih =>
    simp only [List.map_cons, List.filter_cons, hP a]
    cases Q a <;> simp [ih, hg a]

theorem shared_filter (subs : List (Nat × Nat)) (p : Nat) :
    ((submitShared true subs).filter (fun t => t.pilot = some p ∧ ¬ t.state.isFinal)).map (·.uid)
      = (subs.filter (fun s => s.2 = p)).map (·.1) := by
  have hs : submitShared true subs
      = subs.map (fun s => ({ uid := s.1, state := .nf 0, pilot := some s.2, detail := none } : Task)) := by
    simp [submitShared]
  rw [hs]
  apply filter_map_aux
  · intro a; simp [St.isFinal]
  · intro a; rfl

/-- **C13 for tasks of one re-used description**: with the Task recording its pilot when it is created
    (`Gen.taskPilotSnapshot`, read from task.py), whatever the application does to the description object afterwards -
    in particular re-using it for the next pilot - the end of pilot `p` fails exactly the tasks that were submitted
    to `p`: its own and only those -/
theorem C13_shared_description (subs : List (Nat × Nat)) (p : Nat) :
    ∃ ts', pilotFinalOne N p (submitShared Gen.taskPilotSnapshot subs)
             = .ok (ts', (subs.filter (fun s => s.2 = p)).map (·.1)) := by
  have e : Gen.taskPilotSnapshot = true := by decide
  rw [e]
  obtain ⟨pubs, h, hp⟩ := pilotFinalOne_eq p (submitShared true subs)
  refine ⟨(submitShared true subs).map (failOne p), ?_⟩
  rw [h, hp, shared_filter]

/-- a live view of the description shows every task the pilot of the last submission: the end of pilot 0 fails nothing,
    the end of pilot 2 fails all three -/
theorem C13_shared_description_witness :
    (match pilotFinalOne 15 0 (submitShared false [(0, 0), (1, 1), (2, 2)]) with | .ok r => r.2 | .error _ => [99]) = []
    ∧ (match pilotFinalOne 15 2 (submitShared false [(0, 0), (1, 1), (2, 2)]) with | .ok r => r.2 | .error _ => [99]) = [0, 1, 2]
    ∧ (match pilotFinalOne 15 0 (submitShared true [(0, 0), (1, 1), (2, 2)]) with | .ok r => r.2 | .error _ => [99]) = [0] := by
  decide

end RPVerif.C13
