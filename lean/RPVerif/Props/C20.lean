import RPVerif.Model.Raptor

/-!
# C20 — Raptor workers and masters account for every request
-/
namespace RPVerif.C20
open List RPVerif.Raptor

/-- exit code 0 and only exit code 0 gives DONE; an absent exit code gives FAILED -/
theorem C20_target (e : Option Int) : (targetState e = "DONE" ↔ e = some 0) ∧ (targetState e ≠ "DONE" → targetState e = "FAILED") := by
  unfold targetState
  cases e with
  | none => simp
  | some v => by_cases h : v = 0 <;> simp [h]

end RPVerif.C20
