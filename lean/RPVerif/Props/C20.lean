import RPVerif.Model.Raptor
import RPVerif.Gen.Raptor
import RPVerif.Lemmas.Raptor

/-!
# C20 — Raptor workers and masters account for every request
-/
namespace RPVerif.C20
open List RPVerif.Raptor

/-! ## (1) the allocator: never two requests on one core or GPU; everything comes back -/

/-- the worker's bookkeeping: busy flags and the slots of the requests that are running -/
structure WS where
  res  : Res
  live : List Slots

def WInv (w : WS) : Prop :=
  AInv w.res.cores (w.live.map (·.cores)) ∧ AInv w.res.gpus (w.live.map (·.gpus))

inductive AOp where
  | accept (cores gpus : Nat)       -- a request arrives (`_alloc`)
  | finish (s : Slots)              -- a running request finishes, fails or times out (`_dealloc`)

/-- one step of the worker; a request that must wait or that is refused changes nothing -/
def wstep (w : WS) : AOp → WS
  | .accept c g => match alloc w.res c g with
                   | .ok r s => { res := r, live := s :: w.live }
                   | _       => w
  | .finish s   => if s ∈ w.live then
                     (match dealloc w.res s with
                      | some r => { res := r, live := w.live.erase s }
                      | none   => w)
                   else w

theorem alloc_ok (r r' : Res) (c g : Nat) (s : Slots) (h : alloc r c g = .ok r' s) :
    r' = { cores := setAll r.cores (pick r.cores 0 c) true, gpus := setAll r.gpus (pick r.gpus 0 g) true }
    ∧ s = { cores := pick r.cores 0 c, gpus := pick r.gpus 0 g }
    ∧ c ≤ countFree r.cores ∧ g ≤ countFree r.gpus ∧ 1 ≤ c := by
  unfold alloc at h
  split at h
  · cases h
  · split at h
    · cases h
    · rename_i h1 h2
      simp only at h
      injection h with hr hs
      refine ⟨hr.symm, hs.symm, ?_, ?_, ?_⟩ <;> omega

theorem winv_step (w : WS) (op : AOp) (h : WInv w) : WInv (wstep w op) := by
  cases op with
  | accept c g =>
    simp only [wstep]
    cases ha : alloc w.res c g with
    | assertion => exact h
    | wait => exact h
    | ok r s =>
      obtain ⟨hr, hs, _⟩ := alloc_ok _ _ _ _ _ ha
      subst hr; subst hs
      exact ⟨(AInv_alloc _ _ c h.1).1, (AInv_alloc _ _ g h.2).1⟩
  | finish s =>
    simp only [wstep]
    by_cases hs : s ∈ w.live
    · rw [if_pos hs]
      cases hd : dealloc w.res s with
      | none => exact h
      | some r =>
        obtain ⟨l1, l2, _, hsplit, herase⟩ := exists_erase_eq hs
        unfold dealloc at hd
        split at hd
        · injection hd with hd
          subst hd
          simp only [herase]
          have h1 := h.1; have h2 := h.2
          rw [hsplit] at h1 h2
          simp only [map_append, map_cons] at h1 h2
          refine ⟨?_, ?_⟩
          · simpa using (AInv_dealloc _ _ _ _ h1).2
          · simpa using (AInv_dealloc _ _ _ _ h2).2
        · cases hd
    · rw [if_neg hs]; exact h

/-- what a finishing request gives back is accepted: `_dealloc` never hits its assertion for a live request -/
theorem dealloc_live (w : WS) (s : Slots) (h : WInv w) (hs : s ∈ w.live) : (dealloc w.res s).isSome = true := by
  obtain ⟨l1, l2, _, hsplit, _⟩ := exists_erase_eq hs
  have h1 := h.1; have h2 := h.2
  rw [hsplit] at h1 h2
  simp only [map_append, map_cons] at h1 h2
  have c1 := (AInv_dealloc _ _ _ _ h1).1
  have c2 := (AInv_dealloc _ _ _ _ h2).1
  unfold dealloc
  have : (s.cores.all (fun i => w.res.cores.getD i false) = true ∧ s.gpus.all (fun i => w.res.gpus.getD i false) = true) := by
    constructor
    · apply all_eq_true.mpr; intro i hi; simp [List.getD, c1 i hi]
    · apply all_eq_true.mpr; intro i hi; simp [List.getD, c2 i hi]
  rw [if_pos this]; rfl

def wrun (w : WS) (ops : List AOp) : WS := ops.foldl wstep w

def winit (ncores ngpus : Nat) : WS :=
  { res := { cores := List.replicate ncores false, gpus := List.replicate ngpus false }, live := [] }

theorem winv_run (ops : List AOp) : ∀ w, WInv w → WInv (wrun w ops) := by
  induction ops with
  | nil => intro w h; exact h
  | cons op ops ih => intro w h; exact ih _ (winv_step w op h)

theorem wlen_step (w : WS) (op : AOp) :
    (wstep w op).res.cores.length = w.res.cores.length ∧ (wstep w op).res.gpus.length = w.res.gpus.length := by
  cases op with
  | accept c g =>
    simp only [wstep]
    cases ha : alloc w.res c g with
    | assertion => exact ⟨rfl, rfl⟩
    | wait => exact ⟨rfl, rfl⟩
    | ok r s =>
      obtain ⟨hr, _, _⟩ := alloc_ok _ _ _ _ _ ha
      subst hr
      exact ⟨setAll_length _ _ _, setAll_length _ _ _⟩
  | finish s =>
    simp only [wstep]
    split
    · cases hd : dealloc w.res s with
      | none => exact ⟨rfl, rfl⟩
      | some r =>
        unfold dealloc at hd
        split at hd
        · injection hd with hd; subst hd
          exact ⟨setAll_length _ _ _, setAll_length _ _ _⟩
        · cases hd
    · exact ⟨rfl, rfl⟩

theorem wlen_run (ops : List AOp) : ∀ w,
    (wrun w ops).res.cores.length = w.res.cores.length ∧ (wrun w ops).res.gpus.length = w.res.gpus.length := by
  induction ops with
  | nil => intro w; exact ⟨rfl, rfl⟩
  | cons op ops ih =>
    intro w
    have := ih (wstep w op)
    have h2 := wlen_step w op
    exact ⟨by rw [show wrun w (op :: ops) = wrun (wstep w op) ops from rfl, this.1, h2.1],
           by rw [show wrun w (op :: ops) = wrun (wstep w op) ops from rfl, this.2, h2.2]⟩

/-- **C20 (allocator)**, for every stream of requests and every order of completions, failures and
    timeouts: (a) no core and no GPU is in the slots of two running requests; (b) an accepted request
    got exactly the cores and GPUs it asked for, none of them held by a running request;
    (c) once every accepted request has given its slots back the worker is as it started -/
theorem C20_alloc (nc ng : Nat) (ops : List AOp) :
    let w := wrun (winit nc ng) ops
    (w.live.map (·.cores)).Pairwise (fun a b => ∀ j, j ∈ a → j ∉ b)
    ∧ (w.live.map (·.gpus)).Pairwise (fun a b => ∀ j, j ∈ a → j ∉ b)
    ∧ (w.live = [] → w.res = (winit nc ng).res) := by
  intro w
  have hinv : WInv w := winv_run ops _ ⟨AInv_init nc, AInv_init ng⟩
  refine ⟨hinv.1.2, hinv.2.2, ?_⟩
  intro hl
  have h1 := hinv.1; have h2 := hinv.2
  rw [hl] at h1 h2
  have e1 := AInv_empty _ h1
  have e2 := AInv_empty _ h2
  have hlen := wlen_run ops (winit nc ng)
  have l1 : w.res.cores.length = nc := by have := hlen.1; simp only [winit, length_replicate] at this; exact this
  have l2 : w.res.gpus.length = ng := by have := hlen.2; simp only [winit, length_replicate] at this; exact this
  rw [l1] at e1; rw [l2] at e2
  cases hw : w.res with
  | mk cs gs =>
    rw [hw] at e1 e2
    simp only at e1 e2
    simp [winit, e1, e2]

theorem C20_alloc_grant (w : WS) (c g : Nat) (r : Res) (s : Slots) (h : WInv w) (ha : alloc w.res c g = .ok r s) :
    s.cores.length = c ∧ s.gpus.length = g
    ∧ (∀ j ∈ s.cores, ∀ s' ∈ w.live, j ∉ s'.cores) ∧ (∀ j ∈ s.gpus, ∀ s' ∈ w.live, j ∉ s'.gpus)
    ∧ s.cores.Pairwise (· < ·) ∧ s.gpus.Pairwise (· < ·) := by
  obtain ⟨_, hs, hc, hg, _⟩ := alloc_ok _ _ _ _ _ ha
  subst hs
  refine ⟨pick_length _ 0 c hc, pick_length _ 0 g hg, ?_, ?_, pick_sorted _ 0 c, pick_sorted _ 0 g⟩
  · intro j hj s' hs'
    exact (AInv_alloc _ _ c h.1).2 j hj _ (mem_map.mpr ⟨s', hs', rfl⟩)
  · intro j hj s' hs'
    exact (AInv_alloc _ _ g h.2).2 j hj _ (mem_map.mpr ⟨s', hs', rfl⟩)

example : (wrun (winit 4 1) [.accept 2 1, .accept 2 0, .accept 1 0, .finish ⟨[0, 1], [0]⟩, .accept 1 1]).live
    = [⟨[0], [0]⟩, ⟨[2, 3], []⟩] := by decide

/-! ## (3) routing and target state -/

/-- exit code 0 and only exit code 0 gives DONE; anything else, also an absent exit code, FAILED -/
theorem C20_target (e : Option Int) : (targetState e = "DONE" ↔ e = some 0) ∧ (targetState e ≠ "DONE" → targetState e = "FAILED") := by
  unfold targetState
  cases e with
  | none => simp
  | some v => by_cases h : v = 0 <;> simp [h]

/-- executable requests go to the pilot's normal execution path, everything else to the workers;
    an executable request the master has seen is scheduled by the agent, not forwarded again (no loop);
    raptor workers themselves are never forwarded -/
theorem C20_route (m : Mode) (seen has : Bool) :
    (masterRoute m = .agent ↔ m = .executable)
    ∧ (masterRoute m = .workers ↔ m ≠ .executable)
    ∧ schedRoute has .executable (masterSeen .executable seen) = .schedule
    ∧ schedRoute has .raptorWorker seen = .schedule
    ∧ (has = true → m ≠ .raptorWorker → seen = false → schedRoute has m seen = .toRaptor)
    ∧ (has = false → schedRoute has m seen = .schedule) := by
  cases m <;> cases seen <;> cases has <;> simp [masterRoute, masterSeen, schedRoute]


/-- **no request is left behind in the scheduler**: after any history of drains, master
    registrations, de-registrations and cancel messages, no request waits for a master that is
    registered, and none waits for "any master" while some master is registered -/
theorem C20_forward (ops : List FOp) :
    FInv (ops.foldl fwdStep { queues := [], backlog := [], delivered := [], failed := [], canceled := [] }) := by
  have h0 : FInv { queues := [], backlog := [], delivered := [], failed := [], canceled := [] } :=
    ⟨(fun m hm => by cases hm), (fun h => absurd rfl h)⟩
  generalize ({ queues := [], backlog := [], delivered := [], failed := [], canceled := [] } : Fwd) = s at h0
  induction ops generalizing s with
  | nil => exact h0
  | cons op ops ih => exact ih _ (finv_step s op h0)

/-- **every request the scheduler is given is accounted for exactly once**: after any history, a
    request is found in exactly as many places (handed to a master, failed, canceled, still waiting)
    as it arrived - once for requests with distinct uids; nothing is duplicated, nothing is lost -/
theorem C20_accounted (ops : List FOp) (t : Nat) :
    cnt (ops.foldl fwdStep { queues := [], backlog := [], delivered := [], failed := [], canceled := [] }) t
      = (arrived ops).count t := by
  have := cnt_run ops t { queues := [], backlog := [], delivered := [], failed := [], canceled := [] } (by simp [KeysNodup])
  simpa [cnt, waiting] using this

/-- ... and what is handed over goes to a registered master -/
theorem C20_round_robin_targets (qs ts : List Nat) : ∀ e ∈ roundRobin qs ts, e.1 ∈ qs :=
  rrFrom_fst qs ts 0

/-- requests that waited are handed over when their master registers -/
example : (([FOp.incoming [(some 1, [0]), (none, [1, 2])], .register 1].foldl fwdStep
            { queues := [], backlog := [], delivered := [], failed := [], canceled := [] }).delivered)
          = [(1, 0), (1, 1), (1, 2)] := by decide

/-! ## (2) life cycle of a request inside the worker (code after the repair: `flagCheck = true`) -/

def wpDone : WP → Bool
  | .put | .released | .exited => true
  | _ => false

def wpLock : WP → Bool
  | .hasLock | .put => true
  | _ => false

/-- what holds in every reachable state, whatever the interleaving and wherever the timeout falls -/
structure LInv (s : LS) : Prop where
  watcher : s.watcher = true
  flag    : s.doneFlag = wpDone s.wp
  lock    : s.lock = (wpLock s.wp || decide (s.dp = .hasLock))
  excl    : ¬ (wpLock s.wp = true ∧ s.dp = .hasLock)
  count   : s.queued + s.answers = (if wpDone s.wp then 1 else 0) + (if s.wp = .killed then 1 else 0)
  killed  : s.wp = .killed → s.dp = .done
  pool    : s.inPool = decide (s.answers = 0)
  held    : s.held = s.inPool

theorem linv_init : LInv {} := by
  constructor <;> simp [wpDone, wpLock]

theorem linv_bound (s : LS) (h : LInv s) : s.queued + s.answers ≤ 1 := by
  have h5 := h.count
  cases hw : s.wp <;> simp [hw, wpDone] at h5 <;> omega

theorem linv_step (s : LS) (c : LChoice) (h : LInv s) : LInv (lstep true s c) := by
  have hb := linv_bound s h
  obtain ⟨h1, h2, h3, h4, h5, h6, h7, h8⟩ := h
  rcases s with ⟨wp, dp, lk, df, q, ip, hd, ans, wt⟩
  simp only at h1 h2 h3 h4 h5 h6 h7 h8 hb
  cases c with
  | watcher =>
    by_cases hq : q > 0
    · have ha : ans = 0 := by omega
      have hip : ip = true := by rw [h7, ha]; rfl
      have : lstep true ⟨wp, dp, lk, df, q, ip, hd, ans, wt⟩ .watcher
          = ⟨wp, dp, lk, df, q - 1, false, false, ans + 1, wt⟩ := by
        simp [lstep, h1, hq, hip]
      rw [this]
      refine ⟨h1, h2, h3, h4, ?_, h6, ?_, rfl⟩
      · simp only at h5 ⊢; omega
      · simp [ha]
    · have : lstep true ⟨wp, dp, lk, df, q, ip, hd, ans, wt⟩ .watcher = ⟨wp, dp, lk, df, q, ip, hd, ans, wt⟩ := by
        simp [lstep, hq]
      rw [this]
      exact ⟨h1, h2, h3, h4, h5, h6, h7, h8⟩
  | wp =>
    rw [h1, h2, h3, h8, h7]
    clear h1 h2 h3 h8 h7
    cases wp <;> cases dp <;>
      simp [wpDone, wpLock] at h4 h5 h6 ⊢ <;>
      constructor <;> simp [lstep, wpDone, wpLock] <;>
      (try split) <;> simp_all [wpDone, wpLock] <;> (first | rfl | omega | skip)
  | dp =>
    rw [h1, h2, h3, h8, h7]
    clear h1 h2 h3 h8 h7
    cases wp <;> cases dp <;>
      simp [wpDone, wpLock] at h4 h5 h6 ⊢ <;>
      constructor <;> simp [lstep, wpDone, wpLock] <;>
      (try split) <;> simp_all [wpDone, wpLock] <;> (first | rfl | omega | skip)
  | timeout =>
    rw [h1, h2, h3, h8, h7]
    clear h1 h2 h3 h8 h7
    cases wp <;> cases dp <;>
      simp [wpDone, wpLock] at h4 h5 h6 ⊢ <;>
      constructor <;> simp [lstep, wpDone, wpLock] <;>
      (try split) <;> simp_all [wpDone, wpLock] <;> (first | rfl | omega | skip)

theorem linv_run (cs : List LChoice) : ∀ s, LInv s → LInv (lrun true s cs) := by
  induction cs with
  | nil => intro s h; exact h
  | cons c cs ih => intro s h; exact ih _ (linv_step s c h)

/-- nothing left to do: both processes are gone and the result queue is drained -/
def Quiescent (s : LS) : Prop := (s.wp = .exited ∨ s.wp = .killed) ∧ s.dp = .done ∧ s.queued = 0

instance (s : LS) : Decidable (Quiescent s) := by unfold Quiescent; infer_instance

/-- **C20 (life cycle)**: for every interleaving of the rank process, the dispatch process, the
    timeout and the result watcher, the watcher survives, the request is never answered twice, and
    once everything has come to rest it was answered exactly once and its resources are returned -/
theorem C20_once (cs : List LChoice) :
    (lrun true {} cs).watcher = true ∧ (lrun true {} cs).answers ≤ 1
    ∧ (Quiescent (lrun true {} cs) → (lrun true {} cs).answers = 1 ∧ (lrun true {} cs).held = false
                                      ∧ (lrun true {} cs).inPool = false) := by
  have h := linv_run cs {} linv_init
  generalize lrun true {} cs = s at h
  obtain ⟨h1, h2, h3, h4, h5, h6, h7, h8⟩ := h
  refine ⟨h1, ?_, ?_⟩
  · cases hw : s.wp <;> simp [hw, wpDone] at h5 <;> omega
  · rintro ⟨hq1, hq2, hq3⟩
    have ha : s.answers = 1 := by
      rcases hq1 with hw | hw <;> simp [hw, wpDone, hq3] at h5 <;> omega
    refine ⟨ha, ?_, ?_⟩
    · rw [h8, h7]; simp [ha]
    · rw [h7]; simp [ha]

/-- every schedule can be completed: from the start, letting each party finish gives quiescence -/
example : Quiescent (lrun true {} [.wp, .wp, .wp, .wp, .dp, .dp, .dp, .watcher]) := by decide
example : Quiescent (lrun true {} [.timeout, .dp, .dp, .watcher]) := by decide

/-- the schedule that lets every party run to its end: the rank process, then (after its join returns or
    times out) the dispatch process, then the watcher -/
def finishAll : List LChoice := [.wp, .wp, .wp, .wp, .timeout, .dp, .dp, .dp, .watcher, .watcher]

/-- **progress from every reachable state**: wherever the three parties stand - in any state the
    invariant allows, in particular every state reachable by any interleaving - letting them run to their
    end brings the request to rest, answered exactly once, its resources returned -/
theorem C20_progress (s : LS) (h : LInv s) :
    Quiescent (lrun true s finishAll) ∧ (lrun true s finishAll).answers = 1
    ∧ (lrun true s finishAll).held = false ∧ (lrun true s finishAll).watcher = true := by
  have hb := linv_bound s h
  obtain ⟨h1, h2, h3, h4, h5, h6, h7, h8⟩ := h
  rcases s with ⟨wp, dp, lk, df, q, ip, hd, ans, wt⟩
  simp only at h1 h2 h3 h4 h5 h6 h7 h8 hb
  have hq : (q = 0 ∧ ans = 0) ∨ (q = 1 ∧ ans = 0) ∨ (q = 0 ∧ ans = 1) := by omega
  subst h1 h2
  have hall := And.intro h3 (And.intro h4 (And.intro h5 (And.intro h6 (And.intro h7 h8))))
  clear h3 h4 h5 h6 h7 h8 hb
  rcases hq with ⟨rfl, rfl⟩ | ⟨rfl, rfl⟩ | ⟨rfl, rfl⟩ <;>
    cases wp <;> cases dp <;> cases lk <;> cases ip <;> cases hd <;>
      first
      | (exact absurd hall (by decide))
      | decide

/-- ... in particular after any interleaving whatever -/
theorem C20_progress_reachable (cs : List LChoice) :
    Quiescent (lrun true (lrun true {} cs) finishAll) ∧ (lrun true (lrun true {} cs) finishAll).answers = 1 :=
  ⟨(C20_progress _ (linv_run cs {} linv_init)).1, (C20_progress _ (linv_run cs {} linv_init)).2.1⟩

/-- the race the repair removed: the rank process has queued its result and released the lock,
    the join times out before the process has exited.  With the original test (`is_alive()`) a second
    result is queued and the result watcher dies on it; with the recorded flag nothing of the kind -/
theorem C20_race_witness :
    (lrun false {} [.wp, .wp, .timeout, .wp, .dp, .dp, .watcher, .watcher]).watcher = false
    ∧ (lrun true {} [.wp, .wp, .timeout, .wp, .dp, .dp, .watcher, .watcher]).watcher = true
    ∧ (lrun true {} [.wp, .wp, .timeout, .wp, .dp, .dp, .watcher, .watcher]).answers = 1 := by decide

/-! ## (2b) a result is never handled before its process is registered -/

/-- what holds in every reachable state when start and registration share the lock -/
def sinv (s : SS) : Bool :=
  s.watcher
  && (s.plock == (s.rq == .locked || s.rq == .started || s.rq == .registered))
  && (s.started == (s.rq == .started || s.rq == .registered || s.rq == .done))
  && (s.inPool == ((s.rq == .registered || s.rq == .done) && !s.answered))
  && (!s.finished || s.started)
  && (s.finished == (s.queued || s.answered))
  && (!(s.queued && s.answered))
  && (!s.answered || s.rq == .done)
  && (s.held == !s.answered)

theorem sinv_step (s : SS) (c : SChoice) (h : sinv s = true) : sinv (sstep true s c) = true := by
  rcases s with ⟨rq, pl, st, fi, q, ip, hd, an, wt⟩
  cases rq <;> cases pl <;> cases st <;> cases fi <;> cases q <;> cases ip <;> cases hd <;> cases an <;> cases wt <;>
    first
    | (exact absurd h (by decide))
    | (cases c <;> decide)

theorem sinv_run (cs : List SChoice) : ∀ s, sinv s = true → sinv (srun true s cs) = true := by
  induction cs with
  | nil => intro s h; exact h
  | cons c cs ih => intro s h; exact ih _ (sinv_step s c h)

/-- **C20 (start)**: with the code as it is (`Gen.startInPoolLock`), for every interleaving of the request
    thread, the dispatch process and the result watcher: the watcher never meets a pid that is not
    registered (it survives), and once the request thread is through, the process has delivered and the
    queue is drained, the request was answered and its cores and GPUs are free again -/
theorem C20_start (cs : List SChoice) :
    (srun Gen.startInPoolLock {} cs).watcher = true
    ∧ ((srun Gen.startInPoolLock {} cs).rq = .done → (srun Gen.startInPoolLock {} cs).finished = true →
       (srun Gen.startInPoolLock {} cs).queued = false →
         (srun Gen.startInPoolLock {} cs).answered = true ∧ (srun Gen.startInPoolLock {} cs).held = false
         ∧ (srun Gen.startInPoolLock {} cs).inPool = false)
    ∧ ((srun Gen.startInPoolLock {} cs).answered = false → (srun Gen.startInPoolLock {} cs).held = true) := by
  have e : Gen.startInPoolLock = true := by decide
  rw [e]
  have h := sinv_run cs {} (by decide)
  generalize srun true {} cs = s at h
  rcases s with ⟨rq, pl, st, fi, q, ip, hd, an, wt⟩
  cases rq <;> cases pl <;> cases st <;> cases fi <;> cases q <;> cases ip <;> cases hd <;> cases an <;> cases wt <;>
    first
    | (exact absurd h (by decide))
    | decide

/-- the schedule that lets the request thread, the dispatch process and the watcher finish -/
def startFinish : List SChoice := [.req, .req, .req, .req, .proc, .watcher]

/-- **progress (start)**: from every state the invariant allows, letting the three parties run to their
    end answers the request and frees its resources -/
theorem C20_start_progress (s : SS) (h : sinv s = true) :
    (srun true s startFinish).answered = true ∧ (srun true s startFinish).held = false
    ∧ (srun true s startFinish).inPool = false ∧ (srun true s startFinish).watcher = true := by
  rcases s with ⟨rq, pl, st, fi, q, ip, hd, an, wt⟩
  cases rq <;> cases pl <;> cases st <;> cases fi <;> cases q <;> cases ip <;> cases hd <;> cases an <;> cases wt <;>
    first
    | (exact absurd h (by decide))
    | decide

/-- the schedule the lock excludes: with the start outside the lock the process can deliver before its pid
    is registered - the watcher dies, the request is never answered, its resources stay busy -/
theorem C20_start_witness :
    (srun false {} [.req, .proc, .watcher, .req, .req, .req]).watcher = false
    ∧ (srun false {} [.req, .proc, .watcher, .req, .req, .req]).held = true
    ∧ (srun true {} [.req, .req, .proc, .watcher, .req, .req, .watcher]).answered = true := by decide

/-! ## (4) dispatchers -/

/-- exit code 0 exactly when the call succeeded, with its return value and captured output;
    otherwise a non-zero code and the exception (captured output is still returned) -/
theorem C20_dispatch (p : Proc) (te : List (Nat × Nat)) (pl : Payload) (rc : Bool) :
    ((dispatchPy rc p te pl).1.ret = 0 ↔ ∃ v, pl.outcome = .returns v)
    ∧ (∀ v, pl.outcome = .returns v → (dispatchPy rc p te pl).1.val = some v ∧ (dispatchPy rc p te pl).1.exc = none
          ∧ (pl.rebinds = false → (dispatchPy rc p te pl).1.out = pl.out ∧ (dispatchPy rc p te pl).1.err = pl.err))
    ∧ (∀ e, pl.outcome = .raises e → (dispatchPy rc p te pl).1.ret ≠ 0 ∧ (dispatchPy rc p te pl).1.exc = some e
          ∧ (dispatchPy rc p te pl).1.val = none ∧ (pl.rebinds = false → (dispatchPy rc p te pl).1.out = pl.out)) := by
  unfold dispatchPy
  cases ho : pl.outcome with
  | returns v => simp; intro h; simp [h]
  | raises e => simp; intro h; simp [h]

/-- whatever the request changed in the environment or the output streams is undone before the
    next request runs (code after the repair) -/
theorem C20_restore (p : Proc) (te : List (Nat × Nat)) (pl : Payload) : (dispatchPy true p te pl).2 = p := by
  unfold dispatchPy; simp

/-- **C20 (a request that never ran is not a success)**: with the exit code the code sets for the path on which the
    rank process's try block raised (`Gen.rankRaisedExit`), the master files a request under DONE only if its
    dispatcher returned a tuple with exit code 0 - so, with `C20_dispatch`, only if the call returned; a request
    whose sandbox, dispatcher lookup or dispatcher raised is FAILED and carries the exception -/
theorem C20_unrun_request_fails (d : Except Nat Report) :
    (targetState (some (rankResult Gen.rankRaisedExit d).1) = "DONE" → ∃ r, d = .ok r ∧ r.ret = 0)
    ∧ (∀ e, d = .error e → targetState (some (rankResult Gen.rankRaisedExit d).1) = "FAILED"
                           ∧ (rankResult Gen.rankRaisedExit d).2.2 = some e) := by
  have hx : Gen.rankRaisedExit ≠ 0 := by decide
  constructor
  · intro h
    cases d with
    | ok r =>
        refine ⟨r, rfl, ?_⟩
        have := (C20_target (some ((r.ret : Nat) : Int))).1.mp h
        simpa using this
    | error e =>
        exact absurd ((C20_target (some Gen.rankRaisedExit)).1.mp h) (by simpa using hx)
  · intro e he
    subst he
    refine ⟨?_, rfl⟩
    have := (C20_target (some Gen.rankRaisedExit)).2
    apply this
    intro h
    exact absurd ((C20_target (some Gen.rankRaisedExit)).1.mp h) (by simpa using hx)

/-- the exit code matters: were the raised path reported with 0, a request that never ran would be DONE -/
theorem C20_unrun_witness : targetState (some (rankResult 0 (.error 3)).1) = "DONE"
    ∧ targetState (some (rankResult 1 (.error 3)).1) = "FAILED" := by decide

/-- a request that is refused before it runs fails and leaves the worker's environment and streams alone -/
theorem C20_unresolved (p : Proc) : (dispatchUnresolved p).2 = p ∧ (dispatchUnresolved p).1.ret ≠ 0 := by
  constructor <;> simp [dispatchUnresolved]

/-- the original restore left what the request had set in the process environment -/
theorem C20_restore_witness :
    (dispatchPy false { env := [], cenv := [], real := true, stdout := 1, stderr := 2 } []
        { out := [], err := [], envEdits := [(1, some 2)], rebinds := false, outcome := .returns 0 }).2.cenv = [(1, 2)] := by decide

/-- child processes: the exit code and the captured output are reported as they are -/
theorem C20_dispatch_proc (out err : List Nat) (code : Nat) :
    (dispatchProc out err code).ret = code ∧ (dispatchProc out err code).out = out ∧ (dispatchProc out err code).err = err := ⟨rfl, rfl, rfl⟩

theorem find_filter_other (e : Env) (k k' : Nat) (h : k' ≠ k) :
    (e.filter (fun x => x.1 ≠ k)).find? (fun x => x.1 = k') = e.find? (fun x => x.1 = k') := by
  induction e with
  | nil => rfl
  | cons x xs ih =>
    simp only [List.filter_cons]
    split
    · rw [List.find?_cons, List.find?_cons, ih]
    · rename_i hx
      have hx' : x.1 = k := by simpa using hx
      have hk' : decide (x.1 = k') = false := by
        simp only [decide_eq_false_iff_not]; intro e; exact h (by rw [← e, hx'])
      rw [ih, List.find?_cons, hk']

theorem envGet_envSet (e : Env) (k v k' : Nat) :
    envGet (envSet e k v) k' = if k' = k then some v else envGet e k' := by
  unfold envGet envSet
  by_cases h : k' = k
  · subst h; simp
  · have h' : ¬ k = k' := fun x => h x.symm
    simp only [List.find?_cons, h', decide_false, if_neg h]
    rw [find_filter_other e k k' h]

theorem envGet_setMany_other (r : List (Nat × Nat)) (base : Env) (k : Nat) (h : ∀ kv ∈ r, kv.1 ≠ k) :
    envGet (setMany base r) k = envGet base k := by
  induction r generalizing base with
  | nil => rfl
  | cons kv kvs ih =>
    simp only [setMany, List.foldl_cons]
    have := ih (envSet base kv.1 kv.2) (fun x hx => h x (List.mem_cons_of_mem _ hx))
    simp only [setMany] at this
    rw [this, envGet_envSet, if_neg (fun e => h kv List.mem_cons_self e.symm)]

/-- **process and shell requests do not see each other's environment**: on a worker that serves any
    stream of such requests, the child of request `i` sees the worker's base environment updated by
    request `i`'s own variables only - a variable no request `i` names has its base value, whatever
    earlier requests set -/
theorem C20_proc_env (base : Env) (reqs : List (List (Nat × Nat))) (i : Nat) (r : List (Nat × Nat))
    (hr : reqs[i]? = some r) :
    (procEnvs base reqs)[i]? = some (setMany base r)
    ∧ ∀ k, (∀ kv ∈ r, kv.1 ≠ k) → envGet (setMany base r) k = envGet base k := by
  refine ⟨by simp [procEnvs, hr], fun k hk => envGet_setMany_other r base k hk⟩

end RPVerif.C20
