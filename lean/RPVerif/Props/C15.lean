import RPVerif.Model.Wait

/-!
# C15 — Waiting on tasks and pilots returns when it should

"Shortly after" is one polling tick.  `none` from a loop means "has not
returned within the fuel"; the theorems give explicit fuel bounds, i.e. they
are termination results.
-/
namespace RPVerif.C15
open RPVerif.States RPVerif.Wait

/-- default request = any final state -/
theorem C15_default : norm .none = [.done, .failed, .canceled] ∧ norm (.many []) = norm .none
    ∧ (∀ s, norm (.one s) = [s]) ∧ (∀ s l, norm (.many (s :: l)) = s :: l) :=
  ⟨rfl, rfl, fun _ => rfl, fun _ _ => rfl⟩

/-- key lemma: if at tick `j ≥ k` the entity is in an awaited state or final,
    the loop entered at `k` returns no later than tick `j`, with the state the
    entity has at the tick of return -/
theorem entityLoop_returns (states : List St) (traj : Nat → St) (to : Nat) (j : Nat) :
    ∀ k fuel, k ≤ j → fuel ≥ j - k + 1 → (traj j ∈ states ∨ (traj j).isFinal = true) →
      ∃ r, entityLoop states traj to fuel k = some r ∧ r.1 ≤ j ∧ r.2 = traj r.1 := by
  intro k fuel
  induction fuel generalizing k with
  | zero => intro _ h; omega
  | succ fuel ih =>
    intro hk hf hs
    unfold entityLoop
    by_cases h1 : traj k ∈ states
    · rw [if_pos h1]; exact ⟨_, rfl, hk, rfl⟩
    rw [if_neg h1]
    by_cases h2 : (traj k).isFinal = true
    · rw [if_pos h2]; exact ⟨_, rfl, hk, rfl⟩
    rw [if_neg h2]
    have hlt : k < j := by
      rcases Nat.lt_or_ge k j with h | h
      · exact h
      · have : k = j := by omega
        subst this
        rcases hs with h | h
        · exact absurd h h1
        · exact absurd h h2
    by_cases h3 : to ≠ 0 ∧ to ≤ k + 1
    · rw [if_pos h3]; exact ⟨_, rfl, by simp; omega, rfl⟩
    rw [if_neg h3]
    exact ih (k + 1) (by omega) (by omega) hs

/-- **C15 for `Task.wait` / `Pilot.wait` — returns**: for every request form and
    every trajectory, if the entity is in a requested state at tick `j`, or is
    final at tick `j` (whatever final state, awaited or not), the call returns
    no later than tick `j`. -/
theorem C15_entity_returns (req : Req) (traj : Nat → St) (to j : Nat)
    (h : traj j ∈ norm req ∨ (traj j).isFinal = true) :
    ∃ r, entityWait req traj to (j + 1) = some r ∧ r.1 ≤ j ∧ r.2 = traj r.1 := by
  unfold entityWait
  by_cases h0 : (traj 0).isFinal = true
  · rw [if_pos h0]; exact ⟨_, rfl, Nat.zero_le _, rfl⟩
  · rw [if_neg h0]
    exact entityLoop_returns (norm req) traj to j 0 (j + 1) (Nat.zero_le _) (by omega) h

/-- **timeout**: with a timeout of `to > 0` ticks the call returns no later than
    tick `to`, whatever the trajectory -/
theorem entityLoop_timeout (states : List St) (traj : Nat → St) (to : Nat) (hto : to ≠ 0) :
    ∀ k fuel, k + 1 ≤ to → fuel ≥ to - k → 
      ∃ r, entityLoop states traj to fuel k = some r ∧ r.1 ≤ to ∧ r.2 = traj r.1 := by
  intro k fuel
  induction fuel generalizing k with
  | zero => intro h1 h2; omega
  | succ fuel ih =>
    intro hk hf
    unfold entityLoop
    by_cases h1 : traj k ∈ states
    · rw [if_pos h1]; exact ⟨_, rfl, by simp; omega, rfl⟩
    rw [if_neg h1]
    by_cases h2 : (traj k).isFinal = true
    · rw [if_pos h2]; exact ⟨_, rfl, by simp; omega, rfl⟩
    rw [if_neg h2]
    by_cases h3 : to ≠ 0 ∧ to ≤ k + 1
    · rw [if_pos h3]; exact ⟨_, rfl, by simp; omega, rfl⟩
    rw [if_neg h3]
    have : k + 2 ≤ to := by
      have : ¬ to ≤ k + 1 := fun h => h3 ⟨hto, h⟩
      omega
    exact ih (k + 1) (by omega) (by omega)

theorem C15_entity_timeout (req : Req) (traj : Nat → St) (to : Nat) (hto : to ≠ 0) :
    ∃ r, entityWait req traj to to = some r ∧ r.1 ≤ to ∧ r.2 = traj r.1 := by
  unfold entityWait
  by_cases h0 : (traj 0).isFinal = true
  · rw [if_pos h0]; exact ⟨_, rfl, Nat.zero_le _, rfl⟩
  · rw [if_neg h0]
    exact entityLoop_timeout (norm req) traj to hto 0 to (by omega) (by omega)

/-- **honest**: whenever the call returns, the value returned is the entity's
    actual state at that tick; and unless that tick is the timeout, the state
    is an awaited one or a final one -/
theorem entityLoop_honest (states : List St) (traj : Nat → St) (to : Nat) :
    ∀ fuel k r, entityLoop states traj to fuel k = some r →
      r.2 = traj r.1 ∧ k ≤ r.1
      ∧ (r.2 ∈ states ∨ r.2.isFinal = true ∨ (to ≠ 0 ∧ to ≤ r.1)) := by
  intro fuel
  induction fuel with
  | zero => intro k r h; simp [entityLoop] at h
  | succ fuel ih =>
    intro k r h
    unfold entityLoop at h
    by_cases h1 : traj k ∈ states
    · rw [if_pos h1] at h; cases h; exact ⟨rfl, Nat.le_refl _, Or.inl h1⟩
    rw [if_neg h1] at h
    by_cases h2 : (traj k).isFinal = true
    · rw [if_pos h2] at h; cases h; exact ⟨rfl, Nat.le_refl _, Or.inr (Or.inl h2)⟩
    rw [if_neg h2] at h
    by_cases h3 : to ≠ 0 ∧ to ≤ k + 1
    · rw [if_pos h3] at h; cases h; exact ⟨rfl, by simp, Or.inr (Or.inr h3)⟩
    rw [if_neg h3] at h
    have ⟨a, b, c⟩ := ih (k + 1) r h
    exact ⟨a, by omega, c⟩

theorem C15_entity_honest (req : Req) (traj : Nat → St) (to fuel : Nat) (r : Nat × St)
    (h : entityWait req traj to fuel = some r) :
    r.2 = traj r.1
    ∧ (r.2 ∈ norm req ∨ r.2.isFinal = true ∨ (to ≠ 0 ∧ to ≤ r.1)) := by
  unfold entityWait at h
  by_cases h0 : (traj 0).isFinal = true
  · rw [if_pos h0] at h; cases h; exact ⟨rfl, Or.inr (Or.inl h0)⟩
  · rw [if_neg h0] at h
    have ⟨a, _, c⟩ := entityLoop_honest _ _ _ _ _ _ h
    exact ⟨a, c⟩

/-! ## sets: `wait_tasks`, `wait_pilots` -/

/-- `wait_tasks` returns at most one tick after every watched task is (and
    stays) final or at/after the earliest awaited state -/
theorem waitTasksLoop_returns (N cv : Nat) (traj : Nat → Nat → St) (ents : List Nat) (to K : Nat)
    (hs : ∀ i ∈ ents, ∀ k, K ≤ k → taskSat N cv (traj i k) = true) :
    ∀ fuel k toCheck, (∀ i ∈ toCheck, i ∈ ents) → fuel ≥ (K - k) + 2 →
      ∃ r, waitTasksLoop N cv traj ents to fuel k toCheck = some r
           ∧ r.1 ≤ max K k + 1 ∧ r.2 = ents.map (fun i => traj i r.1) := by
  intro fuel
  induction fuel with
  | zero => intro k _ _ h; omega
  | succ fuel ih =>
    intro k toCheck hsub hf
    unfold waitTasksLoop
    by_cases h1 : toCheck = []
    · rw [if_pos h1]; exact ⟨_, rfl, by simp; omega, rfl⟩
    rw [if_neg h1]
    by_cases h2 : to ≠ 0 ∧ to ≤ k
    · rw [if_pos h2]; exact ⟨_, rfl, by simp; omega, rfl⟩
    rw [if_neg h2]
    have hsub' : ∀ i ∈ toCheck.filter (fun i => !taskSat N cv (traj i (k + 1))), i ∈ ents :=
      fun i hi => hsub i (List.mem_filter.mp hi).1
    by_cases hk : K ≤ k + 1
    · -- everything still watched is satisfied at tick k+1: the list empties
      have : toCheck.filter (fun i => !taskSat N cv (traj i (k + 1))) = [] := by
        apply List.filter_eq_nil_iff.mpr
        intro i hi
        simp [hs i (hsub i hi) (k + 1) hk]
      rw [this]
      cases fuel with
      | zero => omega
      | succ fuel =>
        unfold waitTasksLoop
        simp only [if_true]
        exact ⟨_, rfl, by simp; omega, rfl⟩
    · have ⟨r, e, b, c⟩ := ih (k + 1) _ hsub' (by omega)
      exact ⟨r, e, by omega, c⟩

theorem C15_wait_tasks_returns (N : Nat) (req : Req) (traj : Nat → Nat → St) (ents : List Nat)
    (to K : Nat)
    (hs : ∀ i ∈ ents, ∀ k, K ≤ k → taskSat N (checkVal N (norm req)) (traj i k) = true) :
    ∃ r, waitTasks N req traj ents to (K + 2) = some r ∧ r.1 ≤ K + 1
         ∧ r.2 = ents.map (fun i => traj i r.1) := by
  have ⟨r, e, b, c⟩ := waitTasksLoop_returns N _ traj ents to K hs (K + 2) 0 ents (fun _ h => h) (by omega)
  exact ⟨r, e, by simpa using b, c⟩

theorem waitTasksLoop_timeout (N cv : Nat) (traj : Nat → Nat → St) (ents : List Nat) (to : Nat)
    (hto : to ≠ 0) :
    ∀ fuel k toCheck, k ≤ to → fuel ≥ (to - k) + 1 →
      ∃ r, waitTasksLoop N cv traj ents to fuel k toCheck = some r
           ∧ r.1 ≤ to ∧ r.2 = ents.map (fun i => traj i r.1) := by
  intro fuel
  induction fuel with
  | zero => intro k _ _ h; omega
  | succ fuel ih =>
    intro k toCheck hk hf
    unfold waitTasksLoop
    by_cases h1 : toCheck = []
    · rw [if_pos h1]; exact ⟨_, rfl, hk, rfl⟩
    rw [if_neg h1]
    by_cases h2 : to ≠ 0 ∧ to ≤ k
    · rw [if_pos h2]; exact ⟨_, rfl, hk, rfl⟩
    rw [if_neg h2]
    have : k < to := by
      have : ¬ to ≤ k := fun h => h2 ⟨hto, h⟩
      omega
    exact ih (k + 1) _ (by omega) (by omega)

theorem C15_wait_tasks_timeout (N : Nat) (req : Req) (traj : Nat → Nat → St) (ents : List Nat)
    (to : Nat) (hto : to ≠ 0) :
    ∃ r, waitTasks N req traj ents to (to + 1) = some r ∧ r.1 ≤ to
         ∧ r.2 = ents.map (fun i => traj i r.1) :=
  waitTasksLoop_timeout N _ traj ents to hto (to + 1) 0 ents (Nat.zero_le _) (by omega)

/-- `wait_pilots` returns at most one tick after every watched pilot is (and
    stays) in an awaited state or final -/
theorem waitPilotsLoop_returns (states : List St) (traj : Nat → Nat → St) (ents : List Nat) (to K : Nat)
    (hs : ∀ i ∈ ents, ∀ k, K ≤ k → pilotSat states (traj i k) = true) :
    ∀ fuel k toCheck, (∀ i ∈ toCheck, i ∈ ents) → fuel ≥ (K - k) + 2 →
      ∃ r, waitPilotsLoop states traj ents to fuel k toCheck = some r
           ∧ r.1 ≤ max K k + 1 ∧ r.2 = ents.map (fun i => traj i r.1) := by
  intro fuel
  induction fuel with
  | zero => intro k _ _ h; omega
  | succ fuel ih =>
    intro k toCheck hsub hf
    unfold waitPilotsLoop
    by_cases h1 : toCheck = []
    · rw [if_pos h1]; exact ⟨_, rfl, by simp; omega, rfl⟩
    rw [if_neg h1]
    have hsub' : ∀ i ∈ toCheck.filter (fun i => !pilotSat states (traj i k)), i ∈ ents :=
      fun i hi => hsub i (List.mem_filter.mp hi).1
    by_cases h2 : (toCheck.filter (fun i => !pilotSat states (traj i k))) ≠ [] ∧ to ≠ 0 ∧ to ≤ k
    · rw [if_pos h2]; exact ⟨_, rfl, by simp; omega, rfl⟩
    rw [if_neg h2]
    by_cases hk : K ≤ k
    · have : toCheck.filter (fun i => !pilotSat states (traj i k)) = [] := by
        apply List.filter_eq_nil_iff.mpr
        intro i hi
        simp [hs i (hsub i hi) k hk]
      rw [this]
      cases fuel with
      | zero => omega
      | succ fuel =>
        unfold waitPilotsLoop
        simp only [if_true]
        exact ⟨_, rfl, by simp; omega, rfl⟩
    · have ⟨r, e, b, c⟩ := ih (k + 1) _ hsub' (by omega)
      exact ⟨r, e, by omega, c⟩

theorem C15_wait_pilots_returns (req : Req) (traj : Nat → Nat → St) (ents : List Nat) (to K : Nat)
    (hs : ∀ i ∈ ents, ∀ k, K ≤ k → pilotSat (norm req) (traj i k) = true) :
    ∃ r, waitPilots req traj ents to (K + 2) = some r ∧ r.1 ≤ K + 1
         ∧ r.2 = ents.map (fun i => traj i r.1) := by
  have ⟨r, e, b, c⟩ := waitPilotsLoop_returns _ traj ents to K hs (K + 2) 0 ents (fun _ h => h) (by omega)
  exact ⟨r, e, by simpa using b, c⟩

theorem waitPilotsLoop_timeout (states : List St) (traj : Nat → Nat → St) (ents : List Nat) (to : Nat)
    (hto : to ≠ 0) :
    ∀ fuel k toCheck, k ≤ to → fuel ≥ (to - k) + 2 →
      ∃ r, waitPilotsLoop states traj ents to fuel k toCheck = some r
           ∧ r.1 ≤ to + 1 ∧ r.2 = ents.map (fun i => traj i r.1) := by
  intro fuel
  induction fuel with
  | zero => intro k _ _ h; omega
  | succ fuel ih =>
    intro k toCheck hk hf
    unfold waitPilotsLoop
    by_cases h1 : toCheck = []
    · rw [if_pos h1]; exact ⟨_, rfl, by simp; omega, rfl⟩
    rw [if_neg h1]
    by_cases h2 : (toCheck.filter (fun i => !pilotSat states (traj i k))) ≠ [] ∧ to ≠ 0 ∧ to ≤ k
    · rw [if_pos h2]; exact ⟨_, rfl, by simp; omega, rfl⟩
    rw [if_neg h2]
    by_cases hkt : k < to
    · exact ih (k + 1) _ (by omega) (by omega)
    · -- k = to and no timeout exit: the filtered list is empty, the loop ends after the sleep
      have hk' : to ≤ k := by omega
      have : toCheck.filter (fun i => !pilotSat states (traj i k)) = [] := by
        apply Classical.byContradiction
        intro hne
        exact h2 ⟨hne, hto, hk'⟩
      rw [this]
      cases fuel with
      | zero => omega
      | succ fuel =>
        unfold waitPilotsLoop
        simp only [if_true]
        exact ⟨_, rfl, by simp; omega, rfl⟩

theorem C15_wait_pilots_timeout (req : Req) (traj : Nat → Nat → St) (ents : List Nat)
    (to : Nat) (hto : to ≠ 0) :
    ∃ r, waitPilots req traj ents to (to + 2) = some r ∧ r.1 ≤ to + 1
         ∧ r.2 = ents.map (fun i => traj i r.1) :=
  waitPilotsLoop_timeout _ traj ents to hto (to + 2) 0 ents (Nat.zero_le _) (by omega)

/-! non-vacuity / regression tests on concrete trajectories -/

/-- default wait on a running task that becomes DONE at tick 3 returns at tick 3 (F11) -/
example : entityWait .none (fun k => if k < 3 then .nf 10 else .done) 0 10 = some (3, .done) := by decide
/-- waiting for DONE on a task that FAILS at tick 2 returns FAILED at tick 2 (F12) -/
example : entityWait (.one .done) (fun k => if k < 2 then .nf 10 else .failed) 0 10 = some (2, .failed) := by decide
example : waitTasks 15 (.one (.nf 10)) (fun i k => if k < i + 1 then .nf 9 else .nf 11) [0, 1] 0 10
    = some (2, [.nf 11, .nf 11]) := by decide

end RPVerif.C15
