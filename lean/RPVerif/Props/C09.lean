import RPVerif.Model.Launch
import RPVerif.Lemmas.Launch
import RPVerif.Gen.Exec

/-!
# C09 — Launch commands enact the placement they were given

For every launch method that builds a command from a placement: the command starts
as many processes as the placement has ranks, puts on every host exactly the ranks the
placement has there (none outside, none omitted) and, where it pins, names the cores
of the placement.  `procsOn` / `procCount` / `palsFill` / `Bind.cores` are the
interpretation of the third-party launchers (trusted, see Model/Launch.lean).
A placement is a list of slots, one per rank (C02); `t.slots.length = t.ranks` is the
only assumption about it, stated where it is used.
-/
namespace RPVerif.C09
open List RPVerif.Launch

/-- ranks the placement has on host `h` -/
def want (t : Task) (h : Host) : Nat := (hostsOf t).count h

/-! ## MPIRUN (Open MPI host list / host file, HPE MPT, dplace, ccmrun) -/

theorem C09_mpirun (c : MpirunCfg) (t : Task) (cmd : Cmd) (h : cmdMpirun c t = .ok cmd) :
    procCount cmd = t.slots.length ∧ ∀ x, procsOn cmd x = some (want t x) := by
  have hl : (hostsOf t).length = t.slots.length := by simp [hostsOf]
  unfold cmdMpirun at h
  split at h
  · cases h
  · split at h
    · cases h
    · injection h with h
      subst h
      simp only [procCount, procsOn, want, hl]
      by_cases hm : c.mpt = true <;> by_cases h42 : t.slots.length ≤ 42
      · have h42' : ¬ t.slots.length > 42 := by omega
        simp [hm, h42, h42', hl]
      · have h42' : t.slots.length > 42 := by omega
        simp [hm, h42, h42', hl]
      · have h42' : ¬ t.slots.length > 42 := by omega
        simp [hm, h42, h42', hl]
      · have h42' : t.slots.length > 42 := by omega
        simp [hm, h42, h42', hl]

/-- MPIRUN_DPLACE passes `dplace -c` the first core of every rank, in rank order -/
theorem C09_mpirun_dplace (c : MpirunCfg) (t : Task) (np : Nat) (mh ha : List Host) (hf : Option (List Host))
    (dp : Option (List Nat)) (mpt : Bool) (hd : c.dplace = true)
    (h : cmdMpirun c t = .ok (.mpirun np mh ha hf dp mpt)) :
    dp = some (dplaceCores t) ∧ (dplaceCores t).map some = t.slots.map (fun s => s.cores.head?) := by
  unfold cmdMpirun at h
  split at h
  · cases h
  · split at h
    · cases h
    · rename_i hall
      injection h with h
      injection h with _ _ _ _ h5 _
      refine ⟨by rw [← h5], ?_⟩
      have hs : ∀ s ∈ t.slots, (s.cores.head?).isSome = true := by
        intro s hs
        exact List.all_eq_true.mp hall (s.cores.head?) (mem_map.mpr ⟨s, hs, rfl⟩)
      unfold dplaceCores
      clear h5 hall
      generalize t.slots = l at hs
      induction l with
      | nil => rfl
      | cons s ss ih =>
        obtain ⟨v, hv⟩ := Option.isSome_iff_exists.mp (hs s mem_cons_self)
        simp only [filterMap_cons, hv, map_cons]
        rw [ih (fun x hx => hs x (mem_cons_of_mem _ hx))]

/-! ## MPIEXEC -/

/-- rank file: rank `i` runs on the host of slot `i`, bound to the cores of slot `i` -/
theorem C09_mpiexec_rankfile (c : MpiexecCfg) (t : Task) (cmd : Cmd) (hrf : c.useRf = true)
    (h : cmdMpiexec c t = .ok cmd) :
    procCount cmd = t.slots.length ∧ (∀ x, procsOn cmd x = some (want t x))
    ∧ cmd = .mpiexec t.slots.length (some (t.slots.map (fun s => (s.host, s.cores)))) none none [] := by
  unfold cmdMpiexec at h
  split at h
  · cases h
  · try simp only [hrf, if_true] at h
    injection h with h
    subst h
    refine ⟨rfl, ?_, rfl⟩
    intro x
    simp [procsOn, want, hostsOf, Function.comp_def]

/-- host file (`host slots=k` / `host:k`): every host gets as many ranks as the placement has there -/
theorem C09_mpiexec_hostfile (c : MpiexecCfg) (t : Task) (cmd : Cmd) (hrf : c.useRf = false) (hp : c.pals = false)
    (h : cmdMpiexec c t = .ok cmd) :
    procCount cmd = t.slots.length ∧ ∀ x, procsOn cmd x = some (want t x) := by
  unfold cmdMpiexec at h
  split at h
  · cases h
  · simp only [hrf, hp, Bool.false_eq_true, if_false] at h
    injection h with h
    subst h
    refine ⟨rfl, ?_⟩
    intro x
    have := countHosts_sum (hostsOf t) x
    unfold hostSum at this
    simp [procsOn, want, this]

/-- PALS: the ranks fall where the placement has them when the hosts are filled one after the
    other (every host but the last holds the same number of ranks, the last one not more) -/
theorem palsFill_uniform (M : Nat) (hist : List (Host × Nat))
    (hfull : ∀ e ∈ hist.dropLast, e.2 = M) (hlast : ∀ e ∈ hist.getLast?, e.2 ≤ M) :
    palsFill M (hist.map (·.1)) (total hist) = hist := by
  induction hist with
  | nil => rfl
  | cons e es ih =>
    cases es with
    | nil =>
      have : e.2 ≤ M := hlast e (by simp)
      simp [palsFill, total, Nat.min_eq_right this]
    | cons e2 es2 =>
      have he : e.2 = M := hfull e (by simp [dropLast])
      have ih' := ih (fun x hx => hfull x (by simp only [dropLast_cons₂]; exact mem_cons_of_mem _ hx))
                    (fun x hx => hlast x (by simpa using hx))
      have ht : total (e :: e2 :: es2) = M + total (e2 :: es2) := by
        unfold total
        simp only [foldl_cons]
        rw [foldl_add_init, foldl_add_init (a := 0 + e2.2)]
        omega
      simp only [map_cons, palsFill] at ih' ⊢
      rw [ht]
      have hm : min M (M + total (e2 :: es2)) = M := Nat.min_eq_left (by omega)
      rw [hm]
      have : M + total (e2 :: es2) - M = total (e2 :: es2) := by omega
      rw [this, ih']
      cases e
      simp_all

theorem C09_mpiexec_pals (c : MpiexecCfg) (t : Task) (hrf : c.useRf = false) (hp : c.pals = true)
    (hne : t.slots ≠ []) :
    ∃ hf ppn, cmdMpiexec c t = .ok (.mpiexec t.slots.length none (some hf) (some ppn) (t.slots.map (fun s => bindEntry s.cores)))
      ∧ hf.map (·.1) = (countHosts (hostsOf t) []).map (·.1)
      ∧ ppn = (countHosts (hostsOf t) []).foldl (fun m e => max m e.2) 0 := by
  unfold cmdMpiexec
  rw [if_neg hne]
  simp only [hrf, hp, Bool.false_eq_true, if_false, if_true]
  exact ⟨_, _, rfl, by simp [Function.comp_def], rfl⟩

/-- `--cpu-bind list:`: the entry of a rank names exactly the cores of its slot -/
theorem C09_pals_bind (cores : List Nat) : (bindEntry cores).cores = cores := by
  unfold bindEntry
  split
  · rfl
  · rfl
  · split
    · rename_i h; simp only [Bind.cores]; exact h.symm
    · rfl

/-! ## SRUN: names the nodes of the placement, each once, and the number of ranks -/

theorem C09_srun (c : SrunCfg) (t : Task) (hne : t.slots ≠ []) :
    ∃ nodes nl f, cmdSrun c t = .srun nodes t.slots.length t.cpr nl f
      ∧ (∀ x, x ∈ nl ↔ x ∈ hostsOf t) ∧ StrictSorted nl
      ∧ (c.traverse = false → nodes = some nl.length) := by
  unfold cmdSrun
  rw [if_neg hne]
  refine ⟨_, _, _, rfl, fun x => mem_hostSet _ x, strictSorted_hostSet _, ?_⟩
  intro ht
  simp [ht]

theorem C09_srun_count (c : SrunCfg) (t : Task) (hwf : t.slots.length = t.ranks) :
    procCount (cmdSrun c t) = t.ranks := by
  unfold cmdSrun
  split <;> simp [procCount, hwf]

/-! ## PRTE: `--host h:k` per host of the placement -/

theorem C09_prte (t : Task) : procCount (cmdPrte t) = t.ranks ∧ ∀ x, procsOn (cmdPrte t) x = some (want t x) := by
  refine ⟨rfl, fun x => ?_⟩
  have := countHosts_sum (hostsOf t) x
  unfold hostSum at this
  simp [cmdPrte, procsOn, want, this]

/-! ## single-process launchers -/

theorem C09_ssh (t : Task) (cmd : Cmd) (h : cmdSsh t = .ok cmd) :
    procCount cmd = t.slots.length ∧ ∀ x, procsOn cmd x = some (want t x) := by
  unfold cmdSsh at h
  split at h
  · rename_i s hs
    injection h with h; subst h
    refine ⟨by simp [procCount, hs], fun x => ?_⟩
    simp only [procsOn, want, hostsOf, hs, map_cons, map_nil, count_cons, count_nil]
    by_cases hx : s.host = x <;> simp [hx]
  · cases h

theorem C09_rsh (t : Task) (cmd : Cmd) (h : cmdRsh t = .ok cmd) :
    procCount cmd = t.slots.length ∧ ∀ x, procsOn cmd x = some (want t x) := by
  unfold cmdRsh at h
  split at h
  · rename_i s hs
    injection h with h; subst h
    refine ⟨by simp [procCount, hs], fun x => ?_⟩
    simp only [procsOn, want, hostsOf, hs, map_cons, map_nil, count_cons, count_nil]
    by_cases hx : s.host = x <;> simp [hx]
  · cases h

/-- FORK runs the task where the executor is: it only accepts a single rank placed on this host -/
theorem C09_fork (lh self : Host) (t : Task) (h : canFork lh self t = true) :
    ∃ s, t.slots = [s] ∧ (s.host = lh ∨ s.host = self) ∧ procCount .fork = t.slots.length ∧ t.useMpi ≠ some true := by
  unfold canFork at h
  split at h
  · cases h
  · rename_i s ss heq
    simp only [Bool.and_eq_true, Bool.or_eq_true, decide_eq_true_eq, List.isEmpty_iff, bne_iff_ne, ne_eq] at h
    obtain ⟨⟨⟨⟨h1, h2⟩, h3⟩, _⟩, _⟩ := h
    subst h1
    exact ⟨s, heq, h2, by rw [heq]; rfl, h3⟩

/-- SSH / RSH refuse what they cannot launch: a placement of more than one rank -/
theorem C09_ssh_refuses (t : Task) (h : canSsh t = true) : t.slots.length ≤ 1 := by
  unfold canSsh at h
  simp only [Bool.and_eq_true, decide_eq_true_eq] at h
  exact h.1.1

/-! ## launchers that receive only a rank count (APRUN, CCMRUN) or an offset (IBRUN) -/

theorem C09_count_only (t : Task) : procCount (.aprun t.ranks t.cpr) = t.ranks ∧ procCount (.ccmrun t.ranks) = t.ranks :=
  ⟨rfl, rfl⟩

theorem C09_ibrun_count (c : IbrunCfg) (t : Task) (cmd : Cmd) (h : cmdIbrun c t = .ok cmd) : procCount cmd = t.ranks := by
  unfold cmdIbrun at h
  split at h
  · cases h
  · split at h
    · cases h
    · injection h with h; subst h; rfl

/-- the IBRUN offset starts at the first node of the RM's list that the placement uses:
    `tpn` task slots are skipped for every unused node before it -/
theorem C09_ibrun_first (tpn : Nat) (used pre post : List Nat) (n acc : Nat)
    (hpre : ∀ x ∈ pre, x ∉ used) (hn : n ∈ used) :
    ibrunFirst tpn used (pre ++ n :: post) acc = some (acc + tpn * pre.length, n) := by
  induction pre generalizing acc with
  | nil => simp [ibrunFirst, hn]
  | cons p ps ih =>
    have hp : p ∉ used := hpre p mem_cons_self
    simp only [cons_append, ibrunFirst, hp, if_false, length_cons]
    rw [ih (acc + tpn) (fun x hx => hpre x (mem_cons_of_mem _ hx))]
    congr 2
    rw [Nat.mul_succ]; omega

theorem foldl_min_head (x : Nat) (xs : List Nat) (h : ∀ y ∈ xs, x ≤ y) : xs.foldl min x = x := by
  induction xs with
  | nil => rfl
  | cons y ys ih =>
    simp only [foldl_cons]
    rw [Nat.min_eq_left (h y mem_cons_self)]
    exact ih (fun z hz => h z (mem_cons_of_mem _ hz))

/-- **IBRUN round trip**: for every placement `ibrun` can express - ranks on consecutive task slots
    of the job, starting at any slot `off`, over any number of nodes - the offset the launch method
    computes is that `off`, so the command starts every rank on the node and cores of its slot -/
theorem C09_ibrun_roundtrip (c : IbrunCfg) (t : Task) (tpn off n : Nat) (htpn : 0 < tpn) (hn : 0 < n) (hcpr : 0 < t.cpr)
    (hnd : c.nodeIdx.Nodup) (hfit : (off + (n - 1)) / tpn < c.nodeIdx.length)
    (hs : t.slots = ibrunPlace tpn t.cpr c.nodeIdx off n) :
    ibrunOffset tpn c t = .ok off := by
  obtain ⟨m, rfl⟩ : ∃ m, n = m + 1 := ⟨n - 1, by omega⟩
  have hq : ∀ j, j < m + 1 → off / tpn ≤ (off + j) / tpn ∧ (off + j) / tpn < c.nodeIdx.length := by
    intro j hj
    refine ⟨Nat.div_le_div_right (by omega), Nat.lt_of_le_of_lt (Nat.div_le_div_right (by omega)) hfit⟩
  have hp0 : off / tpn < c.nodeIdx.length := (hq 0 (by omega)).2
  have hgetD : ∀ q, q < c.nodeIdx.length → c.nodeIdx.getD q 0 = c.nodeIdx[q]! := by
    intro q hq'; simp [List.getD, hq']
  -- the node list split at the first used node
  have hsplit : c.nodeIdx = c.nodeIdx.take (off / tpn) ++ c.nodeIdx[off / tpn] :: c.nodeIdx.drop (off / tpn + 1) := by
    rw [← List.drop_eq_getElem_cons hp0, List.take_append_drop]
  -- positions in a duplicate-free list
  have hinj : ∀ a b (ha : a < c.nodeIdx.length) (hb : b < c.nodeIdx.length), c.nodeIdx[a] = c.nodeIdx[b] → a = b := by
    intro a b ha hb e
    exact (List.getElem?_inj ha hnd).mp (by rw [List.getElem?_eq_getElem ha, List.getElem?_eq_getElem hb, e])
  have hnode : ∀ j (hj : j < m + 1), c.nodeIdx.getD ((off + j) / tpn) 0 = c.nodeIdx[(off + j) / tpn]'(hq j hj).2 := by
    intro j hj
    simp [List.getD, List.getElem?_eq_getElem (hq j hj).2]
  have hused : t.slots.map (·.nodeIndex) = (List.range (m + 1)).map (fun j => c.nodeIdx.getD ((off + j) / tpn) 0) := by
    rw [hs, ibrunPlace, map_map]; rfl
  have hpre : ∀ x ∈ c.nodeIdx.take (off / tpn), x ∉ t.slots.map (·.nodeIndex) := by
    intro x hx hu
    rw [hused] at hu
    obtain ⟨j, hj, e⟩ := mem_map.mp hu
    have hj' : j < m + 1 := mem_range.mp hj
    obtain ⟨i, hi, e2⟩ := List.getElem_of_mem hx
    rw [List.length_take] at hi
    have hi' : i < off / tpn := by omega
    rw [List.getElem_take] at e2
    rw [hnode j hj'] at e
    have := hinj i ((off + j) / tpn) (by omega) (hq j hj').2 (by rw [e2, e])
    have := (hq j hj').1
    omega
  have hn0 : c.nodeIdx[off / tpn] ∈ t.slots.map (·.nodeIndex) := by
    rw [hused]
    exact mem_map.mpr ⟨0, mem_range.mpr (by omega), by rw [hnode 0 (by omega)]; simp⟩
  have hfirst : ibrunFirst tpn (t.slots.map (·.nodeIndex)) c.nodeIdx 0 = some (tpn * (off / tpn), c.nodeIdx[off / tpn]) := by
    have := C09_ibrun_first tpn (t.slots.map (·.nodeIndex)) (c.nodeIdx.take (off / tpn)) (c.nodeIdx.drop (off / tpn + 1))
              c.nodeIdx[off / tpn] 0 hpre hn0
    rw [← hsplit, List.length_take, Nat.min_eq_left (by omega), Nat.zero_add] at this
    exact this
  unfold ibrunOffset
  rw [hfirst]
  simp only
  -- the slots: rank 0 first, then the others
  have hslots : t.slots = (ibrunPlace tpn t.cpr c.nodeIdx off 1) ++ (List.range m).map (fun j =>
      ({ host := c.nodeIdx.getD ((off + (j + 1)) / tpn) 0, nodeIndex := c.nodeIdx.getD ((off + (j + 1)) / tpn) 0,
         cores := (List.range t.cpr).map (fun k => ((off + (j + 1)) % tpn) * t.cpr + k), gpus := [] } : Slot)) := by
    rw [hs, ibrunPlace, List.range_succ_eq_map, map_cons, map_map]
    simp [ibrunPlace, Function.comp, Nat.add_assoc]
  obtain ⟨cp, hcp⟩ : ∃ cp, t.cpr = cp + 1 := ⟨t.cpr - 1, by omega⟩
  have hcores_ne : ∀ s ∈ t.slots, s.cores ≠ [] := by
    intro s hs'
    rw [hs, ibrunPlace] at hs'
    obtain ⟨j, _, rfl⟩ := mem_map.mp hs'
    simp [hcp, List.range_succ_eq_map]
  have hany : (t.slots.filter (fun s => s.nodeIndex = c.nodeIdx[off / tpn])).any (fun s => s.cores = []) = false := by
    apply Bool.eq_false_iff.mpr
    intro h
    obtain ⟨s, hs', hc⟩ := any_eq_true.mp h
    exact hcores_ne s (mem_filter.mp hs').1 (by simpa using hc)
  rw [hany]
  simp only [Bool.false_eq_true, if_false]
  -- the minimum over the first node is the first core of rank 0
  have hmin : listMin ((t.slots.filter (fun s => s.nodeIndex = c.nodeIdx[off / tpn])).map (fun s => s.cores.headD 0))
      = (off % tpn) * t.cpr := by
    rw [hslots]
    have h0 : ibrunPlace tpn t.cpr c.nodeIdx off 1 =
        [{ host := c.nodeIdx[off / tpn], nodeIndex := c.nodeIdx[off / tpn],
           cores := (List.range t.cpr).map (fun k => (off % tpn) * t.cpr + k), gpus := [] }] := by
      have := hnode 0 (by omega)
      simp only [Nat.add_zero] at this
      simp [ibrunPlace, List.getElem?_eq_getElem hp0]
    rw [h0, filter_append, filter_cons, filter_nil]
    simp only [decide_true, if_true, cons_append, nil_append, map_cons]
    unfold listMin
    have hhead : ((List.range t.cpr).map (fun k => (off % tpn) * t.cpr + k)).headD 0 = (off % tpn) * t.cpr := by
      rw [hcp]; simp [List.range_succ_eq_map]
    rw [hhead]
    apply foldl_min_head
    intro y hy
    obtain ⟨s, hs', rfl⟩ := mem_map.mp hy
    obtain ⟨hs1, hs2⟩ := mem_filter.mp hs'
    obtain ⟨j, hj, rfl⟩ := mem_map.mp hs1
    have hj' : j + 1 < m + 1 := by have := mem_range.mp hj; omega
    simp only [decide_eq_true_eq] at hs2
    rw [hnode (j + 1) hj'] at hs2
    have hqeq := hinj _ _ (hq (j + 1) hj').2 hp0 hs2
    have hh : ((List.range t.cpr).map (fun k => ((off + (j + 1)) % tpn) * t.cpr + k)).headD 0 = ((off + (j + 1)) % tpn) * t.cpr := by
      rw [hcp]; simp [List.range_succ_eq_map]
    simp only [hh]
    apply Nat.mul_le_mul_right
    -- same quotient, larger number: larger remainder
    have e1 := Nat.div_add_mod off tpn
    have e2 := Nat.div_add_mod (off + (j + 1)) tpn
    rw [hqeq] at e2
    omega
  rw [hmin, Nat.mul_div_cancel _ hcpr]
  have := Nat.div_add_mod off tpn
  congr 1

/-! ## no residue: a launcher answers a task the same way whatever it answered before -/

/-- the model of a launcher is a function of its configuration and the task alone; that the
    real launcher objects behave like this function over sequences of tasks (MPIRUN_DPLACE used
    to accumulate core lists) is what the correspondence check establishes -/
theorem C09_no_residue {α β} (f : α → β) (before after : List α) (t : α) :
    ((before ++ t :: after).map f)[before.length]? = some (f t) := by
  simp

/-! ## find_launcher -/

theorem C09_find_launcher (order : List (Nat × Bool)) :
    (∀ n, findLauncher order = some n →
        ∃ pre post, order = pre ++ (n, true) :: post ∧ ∀ e ∈ pre, e.2 = false)
    ∧ (findLauncher order = none → ∀ e ∈ order, e.2 = false) := by
  unfold findLauncher
  constructor
  · intro n h
    split at h
    · rename_i e he
      injection h with h
      obtain ⟨hp, pre, post, hsplit, hall⟩ := List.find?_eq_some_iff_append.mp he
      refine ⟨pre, post, ?_, ?_⟩
      · rw [hsplit]; congr
        cases e; simp_all
      · intro x hx
        have := hall x hx
        simpa using this
    · cases h
  · intro h
    split at h
    · cases h
    · rename_i hnone
      intro e he
      have := List.find?_eq_none.mp hnone e he
      simpa using this

/-! ## the premises are satisfiable, the statements are not vacuous -/

def exTask : Task :=
  { ranks := 3, cpr := 2, gpus := false, useMpi := none, hasExe := true,
    slots := [⟨5, 5, [0, 1], []⟩, ⟨5, 5, [2, 5], []⟩, ⟨7, 7, [0, 1], []⟩] }

example : cmdPrte exTask = .prte 3 2 [(5, 2), (7, 1)] := by decide
example : (cmdSrun ⟨20, false, 8⟩ exTask) = .srun (some 2) 3 2 [5, 7] false := by decide
example : (exTask.slots.map (fun s => (bindEntry s.cores))) = [.range 0 1, .list [2, 5], .range 0 1] := by decide
example : palsFill 2 [5, 7] 3 = [(5, 2), (7, 1)] := by decide
/-! ## JSRUN -/

theorem erfFrom_ranks (rs : List RSet) : ∀ base, (erfFrom base rs).flatMap (·.ranks) = List.range' base (totalRanks rs) := by
  induction rs with
  | nil => intro base; simp [erfFrom, totalRanks]
  | cons r rs ih =>
    intro base
    simp only [erfFrom, List.flatMap_cons, ih, totalRanks, List.map_cons, List.sum_cons]
    rw [List.range'_append_1]

/-- **JSRUN, explicit resource file**: for every list of resource sets (any number of sets, any number
    of ranks per set, any cores and GPUs) the file names the rank ids 0 .. N-1, each exactly once, N being
    the number of ranks of the placement; line i carries the node, the cores of every rank and the GPUs of
    resource set i, and as many ranks as that set has -/
theorem C09_jsrun_erf (rs : List RSet) :
    (erfFrom 0 rs).flatMap (·.ranks) = List.range (totalRanks rs)
    ∧ (erfFrom 0 rs).map (fun l => (l.host, l.cpus, l.gpus)) = rs.map (fun r => (r.node, r.ranks, r.gpus))
    ∧ (erfFrom 0 rs).map (fun l => l.ranks.length) = rs.map (fun r => r.ranks.length) := by
  refine ⟨?_, ?_, ?_⟩
  · rw [erfFrom_ranks, List.range_eq_range']
  · have : ∀ base, (erfFrom base rs).map (fun l => (l.host, l.cpus, l.gpus)) = rs.map (fun r => (r.node, r.ranks, r.gpus)) := by
      induction rs with
      | nil => intro _; rfl
      | cons r rs ih => intro base; simp only [erfFrom, List.map_cons, ih]
    exact this 0
  · have : ∀ base, (erfFrom base rs).map (fun l => l.ranks.length) = rs.map (fun r => r.ranks.length) := by
      induction rs with
      | nil => intro _; rfl
      | cons r rs ih => intro base; simp only [erfFrom, List.map_cons, ih, List.length_range']
    exact this 0

/-- **JSRUN, resource set flags**: `-n` times `-a` is the number of ranks of the placement whenever the
    resource sets have the same number of ranks (what the jsrun scheduler produces); the nodes are left
    to jsrun (count only, like APRUN) -/
theorem C09_jsrun_count (tpc gpn : Nat) (omp : Bool) (rs : List RSet) (o : JsrunOpts) (h : jsrunOpts tpc gpn omp rs = some o)
    (hu : ∀ r ∈ rs, r.ranks.length = o.a) : o.n * o.a = totalRanks rs := by
  have hn : o.n = rs.length := by
    unfold jsrunOpts at h
    cases rs with
    | nil => cases h
    | cons f fs =>
      simp only at h
      cases hf : f.ranks with
      | nil => rw [hf] at h; cases h
      | cons r0 rr => rw [hf] at h; simp only [Option.some.injEq] at h; rw [← h]
  rw [hn]
  unfold totalRanks
  clear h hn
  induction rs with
  | nil => simp
  | cons r rs ih =>
    rw [List.map_cons, List.sum_cons, List.length_cons, ← ih (fun x hx => hu x (List.mem_cons_of_mem _ hx)),
        hu r List.mem_cons_self, Nat.add_mul, Nat.one_mul, Nat.add_comm]

/-- three sets of two ranks: the file names ranks 0..5 (and not 0,1,1,2,2,3) -/
example : (erfFrom 0 [⟨1, [[0], [1]], [0]⟩, ⟨1, [[2], [3]], [1]⟩, ⟨2, [[0], [1]], [0]⟩]).map (·.ranks)
    = [[0, 1], [2, 3], [4, 5]] := by decide

/-- outside the hypothesis of `palsFill_uniform` the ranks do NOT fall where the placement has
    them (host 5: 1 rank, host 7: 2 ranks): this case is not claimed -/
example : palsFill 2 [5, 7] 3 ≠ [(5, 1), (7, 2)] := by decide

/-! ### flavours of one launch-method family (round 17) -/

/-- every entry of the registry holds the inspection of the name it is filed under -/
def RegOK (reg : List (LMName × LMName)) : Prop := ∀ e ∈ reg, e.2 = e.1

theorem lmCreate_ok (reg : List (LMName × LMName)) (n : LMName) (h : RegOK reg) :
    RegOK (lmCreate true reg n).1 ∧ (lmCreate true reg n).2 = n := by
  unfold lmCreate
  cases hf : reg.find? (fun e => e.1 = lmKey true n) with
  | some e =>
    have hm : e ∈ reg := List.mem_of_find?_eq_some hf
    have hk : e.1 = lmKey true n := by
      have := List.find?_some hf
      simpa using this
    refine ⟨h, ?_⟩
    simp only
    rw [h e hm, hk]; simp [lmKey]
  | none =>
    refine ⟨?_, rfl⟩
    intro e he
    simp only [List.mem_append, List.mem_singleton] at he
    rcases he with he | rfl
    · exact h e he
    · simp [lmKey]

theorem lmCreateAll_ok (ns : List LMName) : ∀ (reg : List (LMName × LMName)), RegOK reg → RegOK (lmCreateAll true reg ns) := by
  induction ns with
  | nil => intro reg h; exact h
  | cons n ns ih =>
    intro reg h
    simp only [lmCreateAll, List.foldl_cons]
    exact ih _ (lmCreate_ok reg n h).1

/-- **C09 for platforms that configure several flavours of one launcher**: with the inspection result of a launch method
    looked up and stored under its own name (`Gen.lmInfoKeyPerName`, read from LaunchMethod.__init__), whatever launch
    methods were created before - of the same family or not, in any order - a launch method initialises from the
    inspection of ITS name: its flags (mpt, rsh, dplace, ccmrun, erf ...) are its own, so the command it writes is the one
    it writes when created alone -/
theorem C09_flavours_keep_their_flags (before : List LMName) (n : LMName) :
    (lmCreate Gen.lmInfoKeyPerName (lmCreateAll Gen.lmInfoKeyPerName [] before) n).2 = n := by
  have e : Gen.lmInfoKeyPerName = true := by decide
  rw [e]
  exact (lmCreate_ok _ n (lmCreateAll_ok before [] (by intro e he; simp at he))).2

/-- one key per family hands the second flavour the flags of the first -/
theorem C09_flavours_witness :
    (lmCreate false (lmCreateAll false [] [⟨1, 0⟩]) ⟨1, 2⟩).2 = ⟨1, 0⟩
    ∧ (lmCreate true (lmCreateAll true [] [⟨1, 0⟩]) ⟨1, 2⟩).2 = ⟨1, 2⟩ := by decide

end RPVerif.C09
