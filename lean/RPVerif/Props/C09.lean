import RPVerif.Model.Launch
import RPVerif.Lemmas.Launch

/-!
# C09 — Launch commands enact the placement they were given

For every launch method that builds a command from a placement: the command starts
as many processes as the placement has ranks, puts on every host exactly the ranks the
placement has there (none outside, none omitted) and, where it pins, names the cores
of the placement.  `procsOn` / `procCount` / `palsFill` / `Bind.cores` are the
interpretation of the third-party launchers (trusted, see Model/Launch.lean).
A placement is a list of slots, one per rank (C02); `t.slots.length = t.ranks` is the
only assumption about it, stated where it is used.
-/
namespace RPVerif.C09
open List RPVerif.Launch

/-- ranks the placement has on host `h` -/
def want (t : Task) (h : Host) : Nat := (hostsOf t).count h

/-! ## MPIRUN (Open MPI host list / host file, HPE MPT, dplace, ccmrun) -/

theorem C09_mpirun (c : MpirunCfg) (t : Task) (cmd : Cmd) (h : cmdMpirun c t = .ok cmd) :
    procCount cmd = t.slots.length ∧ ∀ x, procsOn cmd x = some (want t x) := by
  have hl : (hostsOf t).length = t.slots.length := by simp [hostsOf]
  unfold cmdMpirun at h
  split at h
  · cases h
  · split at h
    · cases h
    · injection h with h
      subst h
      simp only [procCount, procsOn, want, hl]
      by_cases hm : c.mpt = true <;> by_cases h42 : t.slots.length ≤ 42
      · have h42' : ¬ t.slots.length > 42 := by omega
        simp [hm, h42, h42', hl]
      · have h42' : t.slots.length > 42 := by omega
        simp [hm, h42, h42', hl]
      · have h42' : ¬ t.slots.length > 42 := by omega
        simp [hm, h42, h42', hl]
      · have h42' : t.slots.length > 42 := by omega
        simp [hm, h42, h42', hl]

/-- MPIRUN_DPLACE passes `dplace -c` the first core of every rank, in rank order -/
theorem C09_mpirun_dplace (c : MpirunCfg) (t : Task) (np : Nat) (mh ha : List Host) (hf : Option (List Host))
    (dp : Option (List Nat)) (mpt : Bool) (hd : c.dplace = true)
    (h : cmdMpirun c t = .ok (.mpirun np mh ha hf dp mpt)) :
    dp = some (dplaceCores t) ∧ (dplaceCores t).map some = t.slots.map (fun s => s.cores.head?) := by
  unfold cmdMpirun at h
  split at h
  · cases h
  · split at h
    · cases h
    · rename_i hall
      injection h with h
      injection h with _ _ _ _ h5 _
      refine ⟨by rw [← h5], ?_⟩
      have hs : ∀ s ∈ t.slots, (s.cores.head?).isSome = true := by
        intro s hs
        exact List.all_eq_true.mp hall (s.cores.head?) (mem_map.mpr ⟨s, hs, rfl⟩)
      unfold dplaceCores
      clear h5 hall
      generalize t.slots = l at hs
      induction l with
      | nil => rfl
      | cons s ss ih =>
        obtain ⟨v, hv⟩ := Option.isSome_iff_exists.mp (hs s mem_cons_self)
        simp only [filterMap_cons, hv, map_cons]
        rw [ih (fun x hx => hs x (mem_cons_of_mem _ hx))]

/-! ## MPIEXEC -/

/-- rank file: rank `i` runs on the host of slot `i`, bound to the cores of slot `i` -/
theorem C09_mpiexec_rankfile (c : MpiexecCfg) (t : Task) (cmd : Cmd) (hrf : c.useRf = true)
    (h : cmdMpiexec c t = .ok cmd) :
    procCount cmd = t.slots.length ∧ (∀ x, procsOn cmd x = some (want t x))
    ∧ cmd = .mpiexec t.slots.length (some (t.slots.map (fun s => (s.host, s.cores)))) none none [] := by
  unfold cmdMpiexec at h
  split at h
  · cases h
  · try simp only [hrf, if_true] at h
    injection h with h
    subst h
    refine ⟨rfl, ?_, rfl⟩
    intro x
    simp [procsOn, want, hostsOf, Function.comp_def]

/-- host file (`host slots=k` / `host:k`): every host gets as many ranks as the placement has there -/
theorem C09_mpiexec_hostfile (c : MpiexecCfg) (t : Task) (cmd : Cmd) (hrf : c.useRf = false) (hp : c.pals = false)
    (h : cmdMpiexec c t = .ok cmd) :
    procCount cmd = t.slots.length ∧ ∀ x, procsOn cmd x = some (want t x) := by
  unfold cmdMpiexec at h
  split at h
  · cases h
  · simp only [hrf, hp, Bool.false_eq_true, if_false] at h
    injection h with h
    subst h
    refine ⟨rfl, ?_⟩
    intro x
    have := countHosts_sum (hostsOf t) x
    unfold hostSum at this
    simp [procsOn, want, this]

/-- PALS: the ranks fall where the placement has them when the hosts are filled one after the
    other (every host but the last holds the same number of ranks, the last one not more) -/
theorem palsFill_uniform (M : Nat) (hist : List (Host × Nat))
    (hfull : ∀ e ∈ hist.dropLast, e.2 = M) (hlast : ∀ e ∈ hist.getLast?, e.2 ≤ M) :
    palsFill M (hist.map (·.1)) (total hist) = hist := by
  induction hist with
  | nil => rfl
  | cons e es ih =>
    cases es with
    | nil =>
      have : e.2 ≤ M := hlast e (by simp)
      simp [palsFill, total, Nat.min_eq_right this]
    | cons e2 es2 =>
      have he : e.2 = M := hfull e (by simp [dropLast])
      have ih' := ih (fun x hx => hfull x (by simp only [dropLast_cons₂]; exact mem_cons_of_mem _ hx))
                    (fun x hx => hlast x (by simpa using hx))
      have ht : total (e :: e2 :: es2) = M + total (e2 :: es2) := by
        unfold total
        simp only [foldl_cons]
        rw [foldl_add_init, foldl_add_init (a := 0 + e2.2)]
        omega
      simp only [map_cons, palsFill] at ih' ⊢
      rw [ht]
      have hm : min M (M + total (e2 :: es2)) = M := Nat.min_eq_left (by omega)
      rw [hm]
      have : M + total (e2 :: es2) - M = total (e2 :: es2) := by omega
      rw [this, ih']
      cases e
      simp_all

theorem C09_mpiexec_pals (c : MpiexecCfg) (t : Task) (hrf : c.useRf = false) (hp : c.pals = true)
    (hne : t.slots ≠ []) :
    ∃ hf ppn, cmdMpiexec c t = .ok (.mpiexec t.slots.length none (some hf) (some ppn) (t.slots.map (fun s => bindEntry s.cores)))
      ∧ hf.map (·.1) = (countHosts (hostsOf t) []).map (·.1)
      ∧ ppn = (countHosts (hostsOf t) []).foldl (fun m e => max m e.2) 0 := by
  unfold cmdMpiexec
  rw [if_neg hne]
  simp only [hrf, hp, Bool.false_eq_true, if_false, if_true]
  exact ⟨_, _, rfl, by simp [Function.comp_def], rfl⟩

/-- `--cpu-bind list:`: the entry of a rank names exactly the cores of its slot -/
theorem C09_pals_bind (cores : List Nat) : (bindEntry cores).cores = cores := by
  unfold bindEntry
  split
  · rfl
  · rfl
  · split
    · rename_i h; simp only [Bind.cores]; exact h.symm
    · rfl

/-! ## SRUN: names the nodes of the placement, each once, and the number of ranks -/

theorem C09_srun (c : SrunCfg) (t : Task) (hne : t.slots ≠ []) :
    ∃ nodes nl f, cmdSrun c t = .srun nodes t.slots.length t.cpr nl f
      ∧ (∀ x, x ∈ nl ↔ x ∈ hostsOf t) ∧ StrictSorted nl
      ∧ (c.traverse = false → nodes = some nl.length) := by
  unfold cmdSrun
  rw [if_neg hne]
  refine ⟨_, _, _, rfl, fun x => mem_hostSet _ x, strictSorted_hostSet _, ?_⟩
  intro ht
  simp [ht]

theorem C09_srun_count (c : SrunCfg) (t : Task) (hwf : t.slots.length = t.ranks) :
    procCount (cmdSrun c t) = t.ranks := by
  unfold cmdSrun
  split <;> simp [procCount, hwf]

/-! ## PRTE: `--host h:k` per host of the placement -/

theorem C09_prte (t : Task) : procCount (cmdPrte t) = t.ranks ∧ ∀ x, procsOn (cmdPrte t) x = some (want t x) := by
  refine ⟨rfl, fun x => ?_⟩
  have := countHosts_sum (hostsOf t) x
  unfold hostSum at this
  simp [cmdPrte, procsOn, want, this]

/-! ## single-process launchers -/

theorem C09_ssh (t : Task) (cmd : Cmd) (h : cmdSsh t = .ok cmd) :
    procCount cmd = t.slots.length ∧ ∀ x, procsOn cmd x = some (want t x) := by
  unfold cmdSsh at h
  split at h
  · rename_i s hs
    injection h with h; subst h
    refine ⟨by simp [procCount, hs], fun x => ?_⟩
    simp only [procsOn, want, hostsOf, hs, map_cons, map_nil, count_cons, count_nil]
    by_cases hx : s.host = x <;> simp [hx]
  · cases h

theorem C09_rsh (t : Task) (cmd : Cmd) (h : cmdRsh t = .ok cmd) :
    procCount cmd = t.slots.length ∧ ∀ x, procsOn cmd x = some (want t x) := by
  unfold cmdRsh at h
  split at h
  · rename_i s hs
    injection h with h; subst h
    refine ⟨by simp [procCount, hs], fun x => ?_⟩
    simp only [procsOn, want, hostsOf, hs, map_cons, map_nil, count_cons, count_nil]
    by_cases hx : s.host = x <;> simp [hx]
  · cases h

/-- FORK runs the task where the executor is: it only accepts a single rank placed on this host -/
theorem C09_fork (lh self : Host) (t : Task) (h : canFork lh self t = true) :
    ∃ s, t.slots = [s] ∧ (s.host = lh ∨ s.host = self) ∧ procCount .fork = t.slots.length ∧ t.useMpi ≠ some true := by
  unfold canFork at h
  split at h
  · cases h
  · rename_i s ss heq
    simp only [Bool.and_eq_true, Bool.or_eq_true, decide_eq_true_eq, List.isEmpty_iff, bne_iff_ne, ne_eq] at h
    obtain ⟨⟨⟨⟨h1, h2⟩, h3⟩, _⟩, _⟩ := h
    subst h1
    exact ⟨s, heq, h2, by rw [heq]; rfl, h3⟩

/-- SSH / RSH refuse what they cannot launch: a placement of more than one rank -/
theorem C09_ssh_refuses (t : Task) (h : canSsh t = true) : t.slots.length ≤ 1 := by
  unfold canSsh at h
  simp only [Bool.and_eq_true, decide_eq_true_eq] at h
  exact h.1.1

/-! ## launchers that receive only a rank count (APRUN, CCMRUN) or an offset (IBRUN) -/

theorem C09_count_only (t : Task) : procCount (.aprun t.ranks t.cpr) = t.ranks ∧ procCount (.ccmrun t.ranks) = t.ranks :=
  ⟨rfl, rfl⟩

theorem C09_ibrun_count (c : IbrunCfg) (t : Task) (cmd : Cmd) (h : cmdIbrun c t = .ok cmd) : procCount cmd = t.ranks := by
  unfold cmdIbrun at h
  split at h
  · cases h
  · simp only at h
    split at h
    · injection h with h; subst h; rfl
    · split at h
      · cases h
      · injection h with h; subst h; rfl

/-- the IBRUN offset starts at the first node of the RM's list that the placement uses:
    `tpn` task slots are skipped for every unused node before it -/
theorem C09_ibrun_first (tpn : Nat) (used pre post : List Nat) (n acc : Nat)
    (hpre : ∀ x ∈ pre, x ∉ used) (hn : n ∈ used) :
    ibrunFirst tpn used (pre ++ n :: post) acc = some (acc + tpn * pre.length, n) := by
  induction pre generalizing acc with
  | nil => simp [ibrunFirst, hn]
  | cons p ps ih =>
    have hp : p ∉ used := hpre p mem_cons_self
    simp only [cons_append, ibrunFirst, hp, if_false, length_cons]
    rw [ih (acc + tpn) (fun x hx => hpre x (mem_cons_of_mem _ hx))]
    congr 2
    rw [Nat.mul_succ]; omega

/-! ## no residue: a launcher answers a task the same way whatever it answered before -/

/-- the model of a launcher is a function of its configuration and the task alone; that the
    real launcher objects behave like this function over sequences of tasks (MPIRUN_DPLACE used
    to accumulate core lists) is what the correspondence check establishes -/
theorem C09_no_residue {α β} (f : α → β) (before after : List α) (t : α) :
    ((before ++ t :: after).map f)[before.length]? = some (f t) := by
  simp

/-! ## find_launcher -/

theorem C09_find_launcher (order : List (Nat × Bool)) :
    (∀ n, findLauncher order = some n →
        ∃ pre post, order = pre ++ (n, true) :: post ∧ ∀ e ∈ pre, e.2 = false)
    ∧ (findLauncher order = none → ∀ e ∈ order, e.2 = false) := by
  unfold findLauncher
  constructor
  · intro n h
    split at h
    · rename_i e he
      injection h with h
      obtain ⟨hp, pre, post, hsplit, hall⟩ := List.find?_eq_some_iff_append.mp he
      refine ⟨pre, post, ?_, ?_⟩
      · rw [hsplit]; congr
        cases e; simp_all
      · intro x hx
        have := hall x hx
        simpa using this
    · cases h
  · intro h
    split at h
    · cases h
    · rename_i hnone
      intro e he
      have := List.find?_eq_none.mp hnone e he
      simpa using this

/-! ## the premises are satisfiable, the statements are not vacuous -/

def exTask : Task :=
  { ranks := 3, cpr := 2, gpus := false, useMpi := none, hasExe := true,
    slots := [⟨5, 5, [0, 1], []⟩, ⟨5, 5, [2, 5], []⟩, ⟨7, 7, [0, 1], []⟩] }

example : cmdPrte exTask = .prte 3 2 [(5, 2), (7, 1)] := by decide
example : (cmdSrun ⟨20, false, 8⟩ exTask) = .srun (some 2) 3 2 [5, 7] false := by decide
example : (exTask.slots.map (fun s => (bindEntry s.cores))) = [.range 0 1, .list [2, 5], .range 0 1] := by decide
example : palsFill 2 [5, 7] 3 = [(5, 2), (7, 1)] := by decide
/-- outside the hypothesis of `palsFill_uniform` the ranks do NOT fall where the placement has
    them (host 5: 1 rank, host 7: 2 ranks): this case is not claimed -/
example : palsFill 2 [5, 7] 3 ≠ [(5, 1), (7, 2)] := by decide

end RPVerif.C09
