import RPVerif.Lemmas.Sched
import RPVerif.Lemmas.SchedHist
import RPVerif.Lemmas.NodeList
import RPVerif.Lemmas.SchedRun
import RPVerif.Lemmas.JsrunSched
import RPVerif.Lemmas.JsrunMem
import RPVerif.Lemmas.JsrunTotal
import RPVerif.Gen.NodeList

/-!
# C01 — Pilot resources are never oversubscribed

Theorems about the faithful model of `Continuous._find_resources` and
`_change_slot_states` (tied to the real scheduling loop by the correspondence
suite).  Status: the per-node safety of every grant and the effect of marking
are proved for all node states and requests; the lift over whole histories of
the loop is carried by the monitor + exact model/implementation comparison
(partial, see DESIGN.md).
-/
namespace RPVerif.C01
open RPVerif.Sched List

/-- **every grant fits the node it is taken from**: whatever the occupancy of the
    node, the request and the number of slots asked for, the slots returned by
    the model of `_find_resources` name only FREE cores, pairwise distinct over
    all slots; every GPU named exists, is not blocked, and the shares handed out
    on it (with what the node map already shows) sum to at most one GPU; the
    storage and memory of all slots together fit what the node has left. -/
theorem C01_grant_fits_node (n : NodeSt) (nSlots cps gpr lfs mem : Nat) (p : Bool) (slots : List Slot)
    (hcps : 0 < cps) (hl : lfs ≠ 0 → (0 : Int) ≤ n.lfs) (hm : mem ≠ 0 → (0 : Int) ≤ n.mem)
    (h : findResources n nSlots cps gpr lfs mem p = .ok (some slots)) :
    NodeFit n cps gpr lfs mem slots :=
  (findResources_fit n nSlots cps gpr lfs mem p slots hcps hl hm h).1

/-- no core is handed out twice within one grant -/
theorem C01_cores_distinct {n : NodeSt} {cps gpr lfs mem : Nat} {slots : List Slot}
    (h : NodeFit n cps gpr lfs mem slots) : (allCores slots).Nodup := by
  have := h.cores_inc
  exact this.imp (fun hlt => Nat.ne_of_lt hlt)

/-- blocked (DOWN) and busy cores are never part of a grant -/
theorem C01_no_blocked_core {n : NodeSt} {cps gpr lfs mem : Nat} {slots : List Slot}
    (h : NodeFit n cps gpr lfs mem slots) (c : Nat) (hc : c ∈ allCores slots) :
    n.cores[c]? ≠ some Occ.down ∧ n.cores[c]? ≠ some Occ.busy := by
  rw [h.cores_free c hc]; simp

/-- the shares a grant puts on one GPU never exceed what is left of it, and a
    blocked GPU is never used -/
theorem C01_gpu_share_bound {n : NodeSt} {cps gpr lfs mem : Nat} {slots : List Slot}
    (h : NodeFit n cps gpr lfs mem slots) (g : Nat) (hg : 0 < shareOf (allGpus slots) g) :
    shareOf (allGpus slots) g ≤ 16 ∧ n.gpus[g]? ≠ some Occ.down ∧ n.gpus[g]? ≠ none := by
  obtain ⟨o, h1, h2, h3⟩ := h.gpus_fit g hg
  refine ⟨by omega, ?_, by rw [h1]; simp⟩
  rw [h1]; intro e; exact h2 (Option.some.inj e)

/-- **what is marked busy cannot be granted again**: after `_change_slot_states`
    marked a slot BUSY on a node, no later search on that node returns any of
    its cores (while it is held) -/
theorem C01_held_not_regranted (n : NodeSt) (sl : Slot) (nSlots cps gpr lfs mem : Nat) (p : Bool)
    (slots : List Slot) (hcps : 0 < cps)
    (hl : lfs ≠ 0 → (0 : Int) ≤ (applySlot n sl true).lfs) (hm : mem ≠ 0 → (0 : Int) ≤ (applySlot n sl true).mem)
    (h : findResources (applySlot n sl true) nSlots cps gpr lfs mem p = .ok (some slots)) :
    ∀ c ∈ allCores slots, c ∉ sl.cores := by
  intro c hc hin
  have hfit := (findResources_fit _ nSlots cps gpr lfs mem p slots hcps hl hm h).1
  have hfree := hfit.cores_free c hc
  have hcores : (applySlot n sl true).cores = foldSet n.cores sl.cores .busy := by
    simp [applySlot, foldSet]
  rw [hcores, foldSet_get] at hfree
  simp only [hin, if_true] at hfree
  cases hn : n.cores[c]? with
  | none => rw [hn] at hfree; simp at hfree
  | some o => rw [hn] at hfree; simp at hfree

/-- FULL statement (all histories, placements chosen by the scheduler OR supplied
    by the application) is FALSE on the current code: an application-supplied
    placement is passed on without being marked busy (recorded finding F3).
    Witness on the faithful model: task 0 is placed by the application on core 0
    of the only node, task 1 is then scheduled onto the same core. -/
theorem C01_app_slots_witness :
    (runLoop { cpn := 1, gpn := 0, lfsPn := 0, memPn := 0 }
        { nodes := [{ index := 0, cores := [.free], gpus := [], lfs := 0, mem := 0 }] } true
        [{ incoming := [.sched [{ uid := 0, ranks := 1, cpr := 1, gpr := 0, lfs := 0, mem := 0,
                                   app := some [{ node := 0, cores := [0], gpus := [], lfs := 0, mem := 0 }] },
                                 { uid := 1, ranks := 1, cpr := 1, gpr := 0, lfs := 0, mem := 0 }]] }] []).1.given
      = [(0, [{ node := 0, cores := [0], gpus := [], lfs := 0, mem := 0 }]),
         (1, [{ node := 0, cores := [0], gpus := [], lfs := 0, mem := 0 }])] := by
  decide

/-! non-vacuity (tests) -/
example : findResources { index := 3, cores := [.free, .down, .busy, .free, .free], gpus := [.down, .free, .free],
                          lfs := 10, mem := 0 } 2 2 10 4 0 true
    = .ok (some [{ node := 3, cores := [0, 3], gpus := [(1, 10)], lfs := 4, mem := 0 }]) := by rfl

/-! ## placements over several nodes -/

/-- **a whole placement is placeable**: whatever the node map, the request, the starting node and
    the scattered / continuous mode, the slots `schedule_task`'s node loop collects name, on every
    node, pairwise distinct FREE cores of the current map (the loop visits every node at most once) -/
theorem C01_placement_placeable (c : Cfg) (nodes : List NodeSt) (r : Req) (cps spn req : Nat) (mpi : Bool)
    (colo : Option (List Nat)) (skip : List Nat) (hw : NodesWF nodes) (hnn : NonNeg nodes) (hcps : 0 < cps)
    (o0 : Nat) (it' : IterSt)
    (h : nodeLoop c nodes r cps spn req mpi colo skip nodes.length { rem := req, offset := o0 % nodes.length } = .ok it') :
    Placeable nodes it'.alc := by
  refine nodeLoop_placeable c nodes r cps spn req mpi colo skip hw hnn hcps o0 nodes.length 0 _ it' (by omega) ?_ h
  exact ⟨by simp, placeable_nil nodes hnn, fun sl hs => by cases hs⟩

/-! ## the application-level slot finder (`pilot.nodelist`) -/

open RPVerif.NodeList in
/-- **for every history of `find_slots` / `release_slots` calls** - whatever is requested, whatever
    is released and in whatever order, failed requests included - no core and no GPU of any node is
    ever occupied beyond one whole -/
theorem C01_nodelist_bound (l : NL) (ops : List (Sum (RR × Nat) (List ASlot))) (h : AllBound l.nodes) :
    AllBound (ops.foldl (fun l op => match op with
                                     | .inl (rr, n) => (findSlots l rr n).2
                                     | .inr slots   => releaseSlots l slots) l).nodes := by
  induction ops generalizing l with
  | nil => exact h
  | cons op ops ih =>
    rw [List.foldl_cons]
    apply ih
    cases op with
    | inl p => exact findSlots_bound l p.1 p.2 h
    | inr slots => exact releaseSlots_bound l slots h

open RPVerif.NodeList in
/-- **any number of application threads on one node**, finding and releasing slots, interleaved in any way: with the
    code as it is (`Gen.findSlotBooksInLock`: `Node.find_slot` searches and books inside one section of the node's
    lock; `Gen.deallocInLock`: `deallocate_slot` is one section of it, so a release is one step) no core
    and no GPU is ever booked beyond one whole, and threads and node end up as if the calls had been made one after
    the other -/
theorem C01_node_threads (n : ANode) (steps : List CStep) (h : OccBound n) :
    OccBound (crun Gen.findSlotBooksInLock Gen.deallocInLock ⟨n, [], [], []⟩ steps).node
    ∧ (crun Gen.findSlotBooksInLock Gen.deallocInLock ⟨n, [], [], []⟩ steps).node = (seqCalls n steps).1
    ∧ (crun Gen.findSlotBooksInLock Gen.deallocInLock ⟨n, [], [], []⟩ steps).got = (seqCalls n steps).2 := by
  have e : Gen.findSlotBooksInLock = true := by decide
  have e2 : Gen.deallocInLock = true := by decide
  rw [e, e2]
  obtain ⟨h1, h2, _⟩ := crun_atomic steps ⟨n, [], [], []⟩ rfl rfl
  refine ⟨?_, h1, by simpa using h2⟩
  rw [h1]; exact seqCalls_bound steps n h

open RPVerif.NodeList in
/-- the lock sections matter: with the booking outside two threads that search before either books are both given
    core 0 and the node shows it booked twice; with the release outside, a release that read the node before another
    thread's grant writes its stale figures back - the grant (100 of lfs) vanishes from the node's books -/
theorem C01_node_threads_witness :
    (crun false true ⟨⟨0, [some 0, some 0], [], 0, 0⟩, [], [], []⟩
       [.call 0 ⟨1, 16, 0, 16, 0, 0⟩, .call 1 ⟨1, 16, 0, 16, 0, 0⟩, .book 0, .book 1]).node.cores = [some 32, some 0]
    ∧ (crun true true ⟨⟨0, [some 0, some 0], [], 0, 0⟩, [], [], []⟩
       [.call 0 ⟨1, 16, 0, 16, 0, 0⟩, .call 1 ⟨1, 16, 0, 16, 0, 0⟩, .book 0, .book 1]).node.cores = [some 16, some 16]
    ∧ (crun true false ⟨⟨0, [some 16, some 0], [], 900, 0⟩, [], [], []⟩
       [.release 0 ⟨0, [(0, 16)], [], 100, 0⟩, .call 1 ⟨1, 16, 0, 16, 100, 0⟩, .write 0]).node.lfs = 1000
    ∧ (crun true true ⟨⟨0, [some 16, some 0], [], 900, 0⟩, [], [], []⟩
       [.release 0 ⟨0, [(0, 16)], [], 100, 0⟩, .call 1 ⟨1, 16, 0, 16, 100, 0⟩, .write 0]).node.lfs = 900 := by
  decide

open RPVerif.NodeList in
/-- a slot `Node.find_slot` hands out names pairwise distinct cores (GPUs) that are not DOWN and had
    room for the requested occupation -/
theorem C01_nodelist_slot_fits (n n' : ANode) (rr : RR) (s : ASlot) (h : findSlot n rr = some (s, n')) :
    ((s.cores.map (·.1)).Pairwise (· < ·)) ∧ (∀ e ∈ s.cores, ∃ v, n.cores[e.1]? = some (some v) ∧ (e.2 : Int) ≤ 16 - v)
    ∧ ((s.gpus.map (·.1)).Pairwise (· < ·)) ∧ (∀ e ∈ s.gpus, ∃ v, n.gpus[e.1]? = some (some v) ∧ (e.2 : Int) ≤ 16 - v) := by
  obtain ⟨_, hs, _⟩ := findSlot_spec n n' rr s h
  subst hs
  simp only [mkSlot, pickCores, pickGpus]
  refine ⟨?_, ?_, ?_, ?_⟩
  · split
    · exact (scan_spec _ _ 0 _).1
    · simp
  · split
    · intro e he
      obtain ⟨_, he2, v, hv, hr⟩ := (scan_spec _ _ 0 _).2.1 e he
      exact ⟨v, by simpa using hv, by rw [he2]; exact hr⟩
    · intro e he; cases he
  · split
    · exact (scan_spec _ _ 0 _).1
    · simp
  · split
    · intro e he
      obtain ⟨_, he2, v, hv, hr⟩ := (scan_spec _ _ 0 _).2.1 e he
      exact ⟨v, by simpa using hv, by rw [he2]; exact hr⟩
    · intro e he; cases he

/-! ## whole histories of the scheduling loop -/

theorem coresOn_heldSlots (held : List (Nat × List Slot)) (idx : Nat) :
    coresOn (heldSlots held) idx = held.flatMap (fun e => coresOn e.2 idx) := by
  induction held with
  | nil => rfl
  | cons e es ih =>
    have : heldSlots (e :: es) = e.2 ++ heldSlots es := by simp [heldSlots]
    rw [this, coresOn_append, ih, flatMap_cons]

/-- **C01 over every history of the scheduling loop** (placements made by the scheduler): for every
    node layout (unique node indices, blocked cores / GPUs, non-negative storage and memory), every
    script of loop iterations - arrivals, priorities, colocate / exclusive tags, named environments,
    cancellations, completions in any order and at any time - whose release messages name placements
    that are held (`RunOK`), after the run
    * no core is held by two placements, no GPU is held by two placements,
    * every core / GPU named by a held placement was FREE in the initial map (blocked ones are never
      handed out),
    * storage and memory held on a node never exceed what the node has (what is left is ≥ 0 and is
      the initial amount minus what is held). -/
theorem C01_history (c : Cfg) (nodes0 : List NodeSt) (its : List Iter) (hw : NodesWF nodes0) (hnn : NonNeg nodes0)
    (hok : RunOK c { nodes := nodes0 } true its) :
    (((runLoop c { nodes := nodes0 } true its []).1.held).Pairwise
        (fun a b => ∀ idx, ∀ x ∈ coresOn a.2 idx, x ∉ coresOn b.2 idx))
    ∧ GDisj (runLoop c { nodes := nodes0 } true its []).1.held
    ∧ (∀ n0 ∈ nodes0, (∀ x ∈ coresOn (heldSlots (runLoop c { nodes := nodes0 } true its []).1.held) n0.index,
                          n0.cores[x]? = some Occ.free)
                     ∧ (∀ g ∈ gpusOn (heldSlots (runLoop c { nodes := nodes0 } true its []).1.held) n0.index,
                          n0.gpus[g]? = some Occ.free)
                     ∧ ((lfsOn (heldSlots (runLoop c { nodes := nodes0 } true its []).1.held) n0.index : Nat) : Int) ≤ n0.lfs
                     ∧ ((memOn (heldSlots (runLoop c { nodes := nodes0 } true its []).1.held) n0.index : Nat) : Int) ≤ n0.mem) := by
  have hinit : SInv nodes0 ({ nodes := nodes0 } : SchedSt) := ⟨hinv_init nodes0 hw hnn, rfl⟩
  have hinv := runLoop_inv c nodes0 its _ true [] hinit hok
  generalize (runLoop c { nodes := nodes0 } true its []).1 = s at hinv
  obtain ⟨hI, _⟩ := hinv
  -- every node of the initial list has its counterpart in the current list
  have hnode : ∀ n0 ∈ nodes0, ∃ n, NodeInv n0 n (heldSlots s.held) := by
    intro n0 hn0
    obtain ⟨i, hi⟩ := getElem?_of_mem hn0
    have hlt : i < s.nodes.length := by rw [hI.len]; exact (List.getElem?_eq_some_iff.mp hi).1
    exact ⟨s.nodes[i], hI.node i n0 s.nodes[i] hi (getElem?_eq_getElem hlt)⟩
  refine ⟨?_, hI.gdisj, ?_⟩
  · -- cores: from the duplicate-freeness of everything held on a node
    apply Pairwise.imp_of_mem (R := fun a b => ∀ idx, (∃ n0 ∈ nodes0, n0.index = idx) → ∀ x ∈ coresOn a.2 idx, x ∉ coresOn b.2 idx)
    · intro a b ha hb hab idx x hx hxb
      -- a slot with cores on node `idx` lies on a node of the list
      have : ∃ n0 ∈ nodes0, n0.index = idx := by
        unfold coresOn at hx
        obtain ⟨sl, hsl, _⟩ := mem_flatMap.mp hx
        have hsl' := mem_filter.mp hsl
        obtain ⟨n0, hn0, hi⟩ := hI.onNode sl (mem_flatMap.mpr ⟨a, ha, hsl'.1⟩)
        exact ⟨n0, hn0, by rw [hi]; simpa using hsl'.2⟩
      exact hab idx this x hx hxb
    · -- pairwise over the held list, node by node
      have key : ∀ idx, (∃ n0 ∈ nodes0, n0.index = idx) →
          s.held.Pairwise (fun a b => ∀ x ∈ coresOn a.2 idx, ∀ y ∈ coresOn b.2 idx, x ≠ y) := by
        intro idx ⟨n0, hn0, hi⟩
        obtain ⟨n, hn⟩ := hnode n0 hn0
        have := hn.cnodup
        rw [hi, coresOn_heldSlots] at this
        exact (pairwise_flatMap.mp this).2
      -- combine the per-node statements
      have comb : ∀ (l : List (Nat × List Slot)),
          (∀ idx, (∃ n0 ∈ nodes0, n0.index = idx) → l.Pairwise (fun a b => ∀ x ∈ coresOn a.2 idx, ∀ y ∈ coresOn b.2 idx, x ≠ y)) →
          l.Pairwise (fun a b => ∀ idx, (∃ n0 ∈ nodes0, n0.index = idx) → ∀ x ∈ coresOn a.2 idx, x ∉ coresOn b.2 idx) := by
        intro l
        induction l with
        | nil => intro _; exact Pairwise.nil
        | cons e es ih =>
          intro hl
          refine pairwise_cons.mpr ⟨?_, ih (fun idx hidx => (pairwise_cons.mp (hl idx hidx)).2)⟩
          intro b hb idx hidx x hx hxb
          exact (pairwise_cons.mp (hl idx hidx)).1 b hb x hx x hxb rfl
      exact comb s.held key
  · intro n0 hn0
    obtain ⟨n, hn⟩ := hnode n0 hn0
    refine ⟨hn.cfree0, hn.gfree0, ?_, ?_⟩
    · have := hn.lfs; have := hn.lfs0; omega
    · have := hn.mem; have := hn.mem0; omega

/-! non-vacuity (tests): a script that places two tasks, releases one, places a third on the freed
    cores and releases everything meets `RunOK`; in between placements are held -/
example :
    RunOK { cpn := 2, gpn := 0, lfsPn := 0, memPn := 0 }
      { nodes := [{ index := 0, cores := [.free, .free], gpus := [], lfs := 0, mem := 0 }] } true
      [{ incoming := [.sched [{ uid := 1, ranks := 1, cpr := 1, gpr := 0, lfs := 0, mem := 0 },
                              { uid := 2, ranks := 1, cpr := 1, gpr := 0, lfs := 0, mem := 0 }]] },
       { incoming := [.sched [{ uid := 3, ranks := 1, cpr := 1, gpr := 0, lfs := 0, mem := 0 }]], unsched := [[1]] },
       { unsched := [[2]] }, { unsched := [[3]] }] := by
  unfold RunOK; decide +kernel

example :
    ((runLoop { cpn := 2, gpn := 0, lfsPn := 0, memPn := 0 }
      { nodes := [{ index := 0, cores := [.free, .free], gpus := [], lfs := 0, mem := 0 }] } true
      [{ incoming := [.sched [{ uid := 1, ranks := 1, cpr := 1, gpr := 0, lfs := 0, mem := 0 },
                              { uid := 2, ranks := 1, cpr := 1, gpr := 0, lfs := 0, mem := 0 }]] }] []).1.held.map (·.1)) = [1, 2] := by
  decide +kernel

open RPVerif.NodeList in
/-- an operation on the application-level node list -/
inductive NOp where
  | find (rr : RR) (n : Nat)              -- `find_slots`
  | release (slots : List ASlot)          -- `release_slots`
  | app (pos : Nat) (slot : ASlot)        -- a slot of the application's own making: `nodes[pos].allocate_slot(slot)`

open RPVerif.NodeList in
def nstep (l : NL) : NOp → NL
  | .find rr n      => (findSlots l rr n).2
  | .release slots  => releaseSlots l slots
  | .app pos slot   => match allocApp l pos slot with
                       | some l' => l'
                       | none    => l            -- refused: nothing changes

open RPVerif.NodeList in
/-- **placements supplied by the application included**: for every history of `find_slots`,
    `release_slots` and `allocate_slot` calls with slots of the application's own making (each naming a
    core or GPU at most once), accepted or refused, no core and no GPU of any node is ever occupied beyond
    one whole -/
theorem C01_nodelist_bound_app (l : NL) (ops : List NOp) (h : AllBound l.nodes)
    (hw : ∀ op ∈ ops, ∀ pos s, op = NOp.app pos s → slotWF s = true) :
    AllBound (ops.foldl nstep l).nodes := by
  induction ops generalizing l with
  | nil => exact h
  | cons op ops ih =>
    rw [List.foldl_cons]
    apply ih
    · cases op with
      | find rr n => exact findSlots_bound l rr n h
      | release slots => exact releaseSlots_bound l slots h
      | app pos s =>
        simp only [nstep]
        cases ha : allocApp l pos s with
        | none => exact h
        | some l' => exact allocApp_bound l l' pos s (hw _ List.mem_cons_self pos s rfl) h ha
    · intro op' hop'; exact hw op' (List.mem_cons_of_mem _ hop')

open RPVerif.NodeList in
/-- the checks are not vacuous: a slot naming a GPU that is held is refused, one naming a free GPU is taken -/
example :
    let n : ANode := { index := 0, cores := [some 0, some 16], gpus := [some 16, some 0], lfs := 0, mem := 0 }
    allocChecked n { node := 0, cores := [(0, 16)], gpus := [(0, 16)], lfs := 0, mem := 0 } = none
    ∧ (allocChecked n { node := 0, cores := [(0, 16)], gpus := [(1, 16)], lfs := 0, mem := 0 }).isSome = true := by
  decide

/-! ## the JSRUN flavour of the scheduler (`continuous_jsrun.py`)

`ContinuousJsrun` hands out whole cores and whole GPUs in *resource sets*: the ranks of one set share the
GPUs of that set.  `jrun` is every history of `_try_allocation` and releases (`JOp`), `keysBy coreF` /
`keysBy gpuF` are the (node, core) and (node, GPU) pairs held by the tasks that were granted a placement
and have not released it. -/

open RPVerif.JsrunSched in
/-- **no core and no GPU is held twice**, at every moment of every history of arrivals and releases over
    any node list with distinct node indices -/
theorem C01_jsrun_disjoint (cfg : JCfg) (nodes : List Sched.NodeSt) (ops : List JOp)
    (hidx : (nodes.map (·.index)).Nodup) :
    (keysBy coreF (jrun cfg { nodes := nodes } ops).held).Nodup ∧
    (keysBy gpuF (jrun cfg { nodes := nodes } ops).held).Nodup :=
  let h := jrun_inv cfg _ ops (init_inv nodes hidx)
  ⟨h.cND, h.gND⟩

open RPVerif.JsrunSched in
/-- what is held is marked BUSY in the node map the next placement is searched in (so it is not offered
    again: `_find_resources` only takes FREE entries, `findJ_spec`) -/
theorem C01_jsrun_held_busy (cfg : JCfg) (nodes : List Sched.NodeSt) (ops : List JOp)
    (hidx : (nodes.map (·.index)).Nodup) :
    (∀ k ∈ keysBy coreF (jrun cfg { nodes := nodes } ops).held,
        ∃ n, nodeAt (jrun cfg { nodes := nodes } ops).nodes k.1 = some n ∧ n.cores[k.2]? = some .busy) ∧
    (∀ k ∈ keysBy gpuF (jrun cfg { nodes := nodes } ops).held,
        ∃ n, nodeAt (jrun cfg { nodes := nodes } ops).nodes k.1 = some n ∧ n.gpus[k.2]? = some .busy) :=
  let h := jrun_inv cfg _ ops (init_inv nodes hidx)
  ⟨h.cBusy, h.gBusy⟩

open RPVerif.JsrunSched in
/-- **blocked cores and GPUs are never handed out**: whatever is held at any moment is not marked
    unusable (DOWN) in the node list the pilot started with -/
theorem C01_jsrun_blocked_never (cfg : JCfg) (nodes : List Sched.NodeSt) (ops : List JOp)
    (hidx : (nodes.map (·.index)).Nodup) :
    (∀ k ∈ keysBy coreF (jrun cfg { nodes := nodes } ops).held, ∀ n0, nodeAt nodes k.1 = some n0 →
        n0.cores[k.2]? ≠ some .down) ∧
    (∀ k ∈ keysBy gpuF (jrun cfg { nodes := nodes } ops).held, ∀ n0, nodeAt nodes k.1 = some n0 →
        n0.gpus[k.2]? ≠ some .down) := by
  have h := jrun_inv cfg _ ops (init_inv nodes hidx)
  have hd := jrun_down nodes cfg _ ops (init_inv nodes hidx) (init_down nodes)
  constructor
  · intro k hk n0 hn0 hdown
    obtain ⟨n, hn, hc, _⟩ := hd k.1 n0 hn0
    obtain ⟨n', hn', hb⟩ := h.cBusy k hk
    rw [hn] at hn'; simp at hn'; subst hn'
    rw [hc k.2 hdown] at hb; simp at hb
  · intro k hk n0 hn0 hdown
    obtain ⟨n, hn, _, hg⟩ := hd k.1 n0 hn0
    obtain ⟨n', hn', hb⟩ := h.gBusy k hk
    rw [hn] at hn'; simp at hn'; subst hn'
    rw [hg k.2 hdown] at hb; simp at hb

open RPVerif.JsrunSched in
/-- **the shares held on the GPUs of a resource set sum to at most those GPUs**: however a request with
    `ranks` ranks of `gpr`/16 GPU each is cut into resource sets, the ranks of one set together ask for no
    more than the whole GPUs the set owns, and the sets together place every rank -/
theorem C01_jsrun_shares (ranks cpr gpr lfs mem : Nat) (hr : 0 < ranks) :
    (shape ranks cpr gpr lfs mem).ranksPerSlot * gpr ≤ (shape ranks cpr gpr lfs mem).gpusPerSlot * 16 ∧
    (shape ranks cpr gpr lfs mem).reqSlots * (shape ranks cpr gpr lfs mem).ranksPerSlot = ranks := by
  by_cases hg : gpr % 16 = 0
  · simp only [shape, hg, ne_eq, not_true_eq_false, if_false, Nat.one_mul, Nat.mul_one, and_true]
    have := Nat.div_mul_cancel (Nat.dvd_of_mod_eq_zero hg)
    omega
  · exact ⟨(shape_frac ranks cpr gpr lfs mem hr hg).1, (shape_frac ranks cpr gpr lfs mem hr hg).2.1⟩

open RPVerif.JsrunSched in
/-- a node never serves more lfs or memory than it has left -/
theorem C01_jsrun_find (n : Sched.NodeSt) (nSlots rps cps gps lfs mem : Nat) (part : Bool) (sl : List RSlot)
    (h : findJ n nSlots rps cps gps lfs mem part = .ok (some sl)) :
    (coresOf sl).Nodup ∧ (∀ c ∈ coresOf sl, n.cores[c]? = some .free) ∧
    (gpusOf sl).Nodup ∧ (∀ g ∈ gpusOf sl, n.gpus[g]? = some .free) ∧
    sl.length * lfs ≤ n.lfs.toNat ∧ sl.length * mem ≤ n.mem.toNat :=
  let ⟨_, _, a, b, c, d, e, f⟩ := findJ_spec n nSlots rps cps gps lfs mem part sl h
  ⟨a, b, c, d, e, f⟩

open RPVerif.JsrunSched in
/-- **node-local storage and memory are never overdrawn**: every placement takes from each node no more
    lfs and memory than the node has left at that moment (`schedule_fits`), a release gives back what
    the placement took (`markAll_lfs`) - so over every history the free amounts of every node stay ≥ 0,
    i.e. what the tasks hold of a node never exceeds what the node has -/
theorem C01_jsrun_lfs_mem (cfg : JCfg) (nodes : List Sched.NodeSt) (ops : List JOp)
    (hidx : (nodes.map (·.index)).Nodup) (h0 : ∀ n ∈ nodes, 0 ≤ n.lfs ∧ 0 ≤ n.mem) :
    ∀ n ∈ (jrun cfg { nodes := nodes } ops).nodes, 0 ≤ n.lfs ∧ 0 ≤ n.mem :=
  jrun_nonneg cfg _ ops (init_inv nodes hidx) h0

open RPVerif.JsrunSched in
/-- `_find_resources` of the JSRUN scheduler never raises: the loops that pick free cores and GPUs do not run
    off the node, because the number of sets dug out is bounded by what the node has free -/
theorem C01_jsrun_find_total (n : Sched.NodeSt) (nSlots rps cps gps lfs mem : Nat) (part : Bool) :
    ∃ r, findJ n nSlots rps cps gps lfs mem part = .ok r :=
  findJ_total n nSlots rps cps gps lfs mem part

/-- tests: 5 ranks of half a GPU are cut into one set of 5 ranks owning 3 GPUs; 4 ranks of a quarter GPU
    into one set owning one GPU; and a two-node history in which the second task cannot take what the
    first holds -/
example : JsrunSched.shape 5 1 8 0 0 = ⟨1, 5, 5, 3, 0, 0⟩ ∧ JsrunSched.shape 4 1 4 0 0 = ⟨1, 4, 4, 1, 0, 0⟩ := by decide

end RPVerif.C01
