import RPVerif.Model.Sched
namespace RPVerif.C01
open RPVerif.Sched
theorem placeholder : (1 : Nat) = 1 := rfl
end RPVerif.C01
