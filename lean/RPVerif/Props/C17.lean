import RPVerif.Model.Sizing
import RPVerif.Gen.Configs
import RPVerif.Gen.Factories
import RPVerif.Gen.Exec

/-!
# C17 — Every shipped platform resolves and pilots are sized to fit
-/
namespace RPVerif.C17
open RPVerif.Sizing

/-! ## (a) resolution: a finite table regenerated from the JSON files and the
factories on every run; `decide +kernel` over the whole table is a proof. -/

def names (f : List (String × String × Bool)) : List String :=
  (f.filter (fun e => e.2.2)).map (·.1)

/-- everything `Session.get_resource_config` + the agent factories need from a row -/
def rowOk (r : Gen.ConfigRow) : Bool :=
  r.schemaOk
  && (r.rm ∈ names Gen.rmFactory)
  && (r.scheduler ∈ names Gen.schedulerFactory)
  && (r.spawner ∈ names Gen.spawnerFactory)
  && (r.agentConfig ∈ Gen.agentConfigs)
  && !r.lms.isEmpty
  && r.lms.all (fun l => l ∈ names Gen.lmFactory)
  && r.order.all (fun l => l ∈ r.lms)
  && (r.defaultSchema ∈ r.schemas)
  && (r.schema ∈ r.schemas)
  && (r.jobEndpoint ≠ "") && (r.fsEndpoint ≠ "")
  && r.blockedCores.all (fun i => i < r.cpn * r.smt)
  && r.blockedGpus.all (fun i => i < r.gpn)
  && (r.blockedCores.length < r.cpn * r.smt || r.cpn == 0)
  && (r.smt ≥ 1)

/-- **every shipped platform, under each of its access schemas, resolves** to a
    resource manager, launch methods, agent scheduler, executor and agent
    configuration that exist in the code base -/
theorem C17_resolves : ∀ r ∈ Gen.configRows, rowOk r = true := by
  decide +kernel

theorem factories_exist :
    (Gen.rmFactory ++ Gen.lmFactory ++ Gen.schedulerFactory ++ Gen.spawnerFactory
      ++ Gen.tmgrSchedFactory).all (fun e => e.2.2) = true := by
  decide +kernel

/-- the table is not empty (non-vacuity of `C17_resolves`) -/
theorem table_nonempty : Gen.configRows.length ≥ 100 := by decide +kernel

/-! ## (b) sizing -/

theorem ceilDiv_spec (a b : Nat) (hb : 0 < b) :
    ceilDiv a b * b ≥ a ∧ ∀ m, m < ceilDiv a b → m * b < a := by
  unfold ceilDiv
  constructor
  · have := Nat.div_add_mod (a + b - 1) b
    have := Nat.mod_lt (a + b - 1) hb
    rw [Nat.mul_comm]; omega
  · intro m hm
    have h1 : m + 1 ≤ (a + b - 1) / b := hm
    have h2 : (m + 1) * b ≤ a + b - 1 := (Nat.le_div_iff_mul_le hb).mp h1
    have : (m + 1) * b = m * b + b := by rw [Nat.add_mul]; simp
    omega

/-- **smallest number of whole nodes**: when the pilot is sized by cores/GPUs
    and the node size is known, the job asks for `n` nodes (plus backup) where
    `n` nodes cover the requested cores and GPUs and no smaller number does -/
theorem C17_least (rc : RC) (pd : PD) (sz : Sizing) (ac ag : Nat)
    (hn : pd.nodes = 0) (hac : availCores rc = some ac) (hag : availGpus rc = some ag)
    (hpos : 0 < ac) (hs : sizePilot rc pd = .ok sz) :
    sz.nodeCount = sz.agentNodes + pd.backup
    ∧ sz.agentNodes * ac ≥ pd.cores
    ∧ (0 < ag → sz.agentNodes * ag ≥ pd.gpus)
    ∧ ∀ m, m < sz.agentNodes → ¬ (m * ac ≥ pd.cores ∧ (0 < ag → m * ag ≥ pd.gpus)) := by
  unfold sizePilot at hs
  rw [hac, hag] at hs
  simp only [reqNodes, hn, ne_eq, not_true_eq_false, if_false] at hs
  have hacne : ac ≠ 0 := by omega
  simp only [hacne, not_false_eq_true, if_true] at hs
  cases hs
  simp only
  have ⟨c1, c2⟩ := ceilDiv_spec pd.cores ac hpos
  refine ⟨trivial, ?_, ?_, ?_⟩
  · exact Nat.le_trans c1 (Nat.mul_le_mul_right _ (Nat.le_max_right _ _))
  · intro hg
    have hgne : ag ≠ 0 := by omega
    have ⟨g1, _⟩ := ceilDiv_spec pd.gpus ag hg
    simp only [hgne, not_false_eq_true, if_true]
    exact Nat.le_trans g1 (Nat.mul_le_mul_right _ (Nat.le_max_left _ _))
  · intro m hm ⟨h1, h2⟩
    by_cases hg : 0 < ag
    · have hgne : ag ≠ 0 := by omega
      have ⟨_, g2⟩ := ceilDiv_spec pd.gpus ag hg
      simp only [hgne, not_false_eq_true, if_true] at hm
      rcases Nat.lt_or_ge m (ceilDiv pd.cores ac) with h | h
      · have := c2 m h; omega
      · have hm' : m < ceilDiv pd.gpus ag := by
          rcases Nat.lt_or_ge m (ceilDiv pd.gpus ag) with h' | h'
          · exact h'
          · have : max (ceilDiv pd.gpus ag) (ceilDiv pd.cores ac) ≤ m := Nat.max_le.mpr ⟨h', h⟩
            omega
        have := g2 m hm'
        have := h2 hg
        omega
    · have hg0 : ag = 0 := by omega
      simp only [hg0, not_true_eq_false, if_false, Nat.zero_max] at hm
      have := c2 m hm; omega

/-- **the agent is told what the job requests**: node, core and GPU figures of
    the agent configuration agree with the batch job description, the job asks
    for whole nodes, and the per-node figure given to the agent is the node
    size including hardware threads -/
theorem C17_agree (rc : RC) (pd : PD) (sz : Sizing) (hs : sizePilot rc pd = .ok sz) :
    sz.agentNodes + sz.agentBackup = sz.nodeCount
    ∧ sz.agentCores = sz.totalCpu ∧ sz.agentGpus = sz.totalGpu
    ∧ sz.agentBackup = pd.backup
    ∧ sz.agentCoresPerNode = coresPerNode rc ∧ sz.agentGpusPerNode = rc.gpn
    ∧ (∀ ac, availCores rc = some ac → sz.procsPerHost = ac
          ∧ (sz.nodeCount * ac ≠ 0 → sz.totalCpu = sz.nodeCount * ac))
    ∧ (∀ ag, availGpus rc = some ag → sz.nodeCount * ag ≠ 0 → sz.totalGpu = sz.nodeCount * ag) := by
  unfold sizePilot at hs
  cases hac : availCores rc with
  | none => rw [hac] at hs; simp at hs
  | some ac =>
    cases hag : availGpus rc with
    | none => rw [hac, hag] at hs; simp at hs
    | some ag =>
      rw [hac, hag] at hs
      simp only at hs
      cases hr : reqNodes pd ac ag with
      | error e => rw [hr] at hs; simp at hs
      | ok n =>
        rw [hr] at hs
        cases hs
        refine ⟨rfl, rfl, rfl, rfl, rfl, rfl, ?_, ?_⟩
        · intro ac' h; cases h
          exact ⟨rfl, fun hne => by simp [orElse, hne]⟩
        · intro ag' h hne; cases h
          simp [orElse, hne]

/-- nodes given explicitly: that many nodes (plus backup) are requested, and the
    request is refused when the platform's node size is unknown -/
theorem C17_nodes_given (rc : RC) (pd : PD) (hn : pd.nodes ≠ 0) (ac ag : Nat)
    (hac : availCores rc = some ac) (hag : availGpus rc = some ag) :
    (ac = 0 → sizePilot rc pd = .error .runtime)
    ∧ (ac ≠ 0 → ∃ sz, sizePilot rc pd = .ok sz ∧ sz.nodeCount = pd.nodes + pd.backup
                       ∧ sz.totalCpu = (pd.nodes + pd.backup) * ac) := by
  unfold sizePilot
  rw [hac, hag]
  constructor
  · intro h0; simp [reqNodes, hn, h0]
  · intro h0
    simp only [reqNodes, hn, ne_eq, not_false_eq_true, if_true, h0, if_false]
    refine ⟨_, rfl, rfl, ?_⟩
    have : (pd.nodes + pd.backup) * ac ≠ 0 := by
      have : 0 < pd.nodes := Nat.pos_of_ne_zero hn
      have : 0 < ac := Nat.pos_of_ne_zero h0
      exact Nat.ne_of_gt (Nat.mul_pos (by omega) (by omega))
    simp [orElse, this]

/-- blocked cores and hardware threads are taken into account -/
theorem C17_avail (rc : RC) (ac : Nat) (h : availCores rc = some ac) (hc : rc.cpn ≠ 0) (hs : rc.smt ≠ 0) :
    ac = rc.cpn * rc.smt - rc.blockedCores ∧ (rc.blockedCores ≠ 0 → 0 < ac) := by
  unfold availCores coresPerNode at h
  simp only [hc, hs, ne_eq, not_false_eq_true, and_self, if_true] at h
  have hm : rc.cpn * rc.smt ≠ 0 := Nat.ne_of_gt (Nat.mul_pos (Nat.pos_of_ne_zero hc) (Nat.pos_of_ne_zero hs))
  by_cases hb : rc.blockedCores = 0
  · simp [hm, hb] at h; omega
  · simp only [hm, hb, not_false_eq_true, and_self, if_true] at h
    split at h
    · cases h; omega
    · cases h

/-- **the per-host figure of the job matches its totals**: the batch system is told the usable cores of a
    node as processes per host, and (for a node of known size) the total is the node count times that
    figure - what the batch system derives from the two is the node count the pilot was sized for -/
theorem C17_per_host (rc : RC) (pd : PD) (sz : Sizing) (ac : Nat) (hs : sizePilot rc pd = .ok sz)
    (hac : availCores rc = some ac) :
    sz.procsPerHost = ac ∧ (sz.nodeCount * ac ≠ 0 → sz.totalCpu = sz.nodeCount * sz.procsPerHost) := by
  unfold sizePilot at hs
  rw [hac] at hs
  cases hag : availGpus rc with
  | none => rw [hag] at hs; cases hs
  | some ag =>
    rw [hag] at hs
    simp only at hs
    cases hr : reqNodes pd ac ag with
    | error e => rw [hr] at hs; cases hs
    | ok n =>
      rw [hr] at hs
      cases hs
      refine ⟨rfl, ?_⟩
      intro hne
      simp only [orElse, hne, ne_eq, not_false_eq_true, if_true]

/-- a pilot given by cores and GPUs is always turned into a job when the blocked cores/GPUs fit the
    node - in particular on a platform that declares no GPUs per node (the GPU term is skipped and the
    requested GPU count is passed on) and on one that declares no node size at all -/
theorem C17_sized_always (rc : RC) (pd : PD) (hn : pd.nodes = 0)
    (hc : rc.blockedCores = 0 ∨ rc.blockedCores < coresPerNode rc) (hg : rc.blockedGpus ≤ rc.gpn ∨ rc.gpn = 0) :
    ∃ sz, sizePilot rc pd = .ok sz ∧ (rc.gpn = 0 → sz.totalGpu = pd.gpus ∧ sz.agentGpus = pd.gpus) := by
  have hac : ∃ ac, availCores rc = some ac := by
    unfold availCores
    split
    · next h => rcases hc with h0 | h1
                · exact absurd h0 h.2
                · simp [h1]
    · exact ⟨_, rfl⟩
  have hag : ∃ ag, availGpus rc = some ag ∧ (rc.gpn = 0 → ag = 0) := by
    unfold availGpus
    split
    · next h => rcases hg with h0 | h1
                · exact ⟨rc.gpn - rc.blockedGpus, by simp [h0], fun h2 => absurd h2 h.1⟩
                · exact absurd h1 h.1
    · exact ⟨_, rfl, fun h => h⟩
  obtain ⟨ac, h1⟩ := hac
  obtain ⟨ag, h2, h3⟩ := hag
  simp only [sizePilot, h1, h2, reqNodes, hn, ne_eq, not_true_eq_false, if_false]
  refine ⟨_, rfl, ?_⟩
  intro h0
  simp [orElse, h3 h0]

/-! non-vacuity (tests): a Summit-like node, 42 cores x smt 4, 4 blocked, 6 GPUs -/
example : sizePilot ⟨42, 6, 4, 4, 0⟩ ⟨0, 1000, 40, 1⟩
    = .ok ⟨8, 1312, 48, 164, 7, 1, 1312, 48, 168, 6⟩ := by rfl

/-- GPUs requested on a platform without declared GPUs (an Expanse-like node, 128 cores) -/
example : sizePilot ⟨128, 0, 1, 0, 0⟩ ⟨0, 256, 4, 0⟩ = .ok ⟨2, 256, 4, 128, 2, 0, 256, 4, 128, 0⟩ := by rfl

/-! ### the agent works with the nodes it was told (round 17) -/

/-- **C17, the agent is told the same node figures the job requests - and keeps them**: with the guard of the fallback in
    the agent's resource manager as the translator reads it (`Gen.agentKeepsToldNodes`), an agent that was told a node
    count works with it, whatever the core and GPU figures of the job (which include the backup nodes) would give: the
    backup nodes stay in reserve -/
theorem C17_agent_keeps_told_nodes (told derived : Nat) (h : 0 < told) :
    agentNodes Gen.agentKeepsToldNodes told derived = told := by
  have e : Gen.agentKeepsToldNodes = true := by decide
  rw [e]
  simp [agentNodes]
  omega

/-- a pilot of 2 nodes plus 1 backup node: derived from the figures of the job the agent would work with 3 -/
theorem C17_agent_keeps_told_nodes_witness : agentNodes false 2 3 = 3 ∧ agentNodes true 2 3 = 2 ∧ agentNodes true 0 3 = 3 := by decide

end RPVerif.C17
