import RPVerif.Model.Pipeline
import RPVerif.Lemmas.Pipeline
import RPVerif.Props.C06

/-!
# C05 — Every submitted task ends in one final state that tells the truth

`Plan` says what goes wrong for a task (which staging step cannot be carried out, how
execution ends, whether staging on error was requested); `run` says which state
notifications the components publish for it.  The theorems hold for every plan; the
composition with the client (`C05_client`) holds for every order and batching in which the
notifications arrive, among notifications of any other tasks.
-/
namespace RPVerif.C05
open List RPVerif.Pipeline RPVerif.States

/-- the task reaches the executor -/
def reached (p : Plan) : Prop := p.tmgrInFails = false ∧ p.agentInFails = false

/-- an output directive that is attempted cannot be carried out -/
def stageFault (p : Plan) : Prop := staged p = true ∧ (p.agentOutFails = true ∨ p.tmgrOutFails = true)

instance (p : Plan) : Decidable (reached p) := by unfold reached; infer_instance
instance (p : Plan) : Decidable (stageFault p) := by unfold stageFault; infer_instance

/-- **the final state tells the truth** -/
theorem C05_truth (p : Plan) :
    (final p = .done ↔ reached p ∧ p.exec = .exit 0 ∧ p.agentOutFails = false ∧ p.tmgrOutFails = false)
    ∧ (final p = .canceled ↔ reached p ∧ p.exec = .canceled ∧ ¬ stageFault p)
    ∧ (final p = .failed ↔ ¬ reached p ∨ p.exec = .noLauncher ∨ p.exec = .launchError
                            ∨ (∃ n, n ≠ 0 ∧ p.exec = .exit n) ∨ stageFault p)
    ∧ (final p).isFinal = true := by
  rcases p with ⟨ti, ai, ex, oe, ao, to, ht⟩
  cases ti <;> cases ai <;> cases oe <;> cases ao <;> cases to <;> cases ht <;>
    (cases ex with
     | noLauncher => simp [final, run, reached, stageFault, staged, targetOf, St.isFinal]
     | launchError => simp [final, run, reached, stageFault, staged, targetOf, St.isFinal]
     | canceled => simp [final, run, reached, stageFault, staged, targetOf, St.isFinal]
     | exit n =>
       cases n with
       | zero => simp [final, run, reached, stageFault, staged, targetOf, St.isFinal]
       | succ k => simp [final, run, reached, stageFault, staged, targetOf, St.isFinal])

/-- **what is recorded**: a task reported FAILED carries an exception (a non-zero exit code is
    recorded too when the process ran); a task reported DONE carries exit code 0 and no exception -/
theorem C05_recorded (p : Plan) :
    (final p = .failed → (run p).exception = true)
    ∧ (final p = .done → (run p).exitCode = some 0 ∧ (run p).exception = false)
    ∧ (∀ n, reached p → p.exec = .exit n → (run p).exitCode = some n) := by
  rcases p with ⟨ti, ai, ex, oe, ao, to, ht⟩
  cases ti <;> cases ai <;> cases oe <;> cases ao <;> cases to <;> cases ht <;>
    (cases ex with
     | noLauncher => simp [final, run, reached, staged, targetOf]
     | launchError => simp [final, run, reached, staged, targetOf]
     | canceled => simp [final, run, reached, staged, targetOf]
     | exit n =>
       cases n with
       | zero => simp [final, run, reached, staged, targetOf]
       | succ k => simp [final, run, reached, staged, targetOf])

def oneFinalB (l : List St) (f : St) : Bool :=
  decide ((l.dropWhile (fun s => !s.isFinal)).length ≥ 1) && (l.dropWhile (fun s => !s.isFinal)).all (fun s => decide (s = f))
  && l.all (fun s => decide (s.WF 15))

theorem oneFinalB_run (p : Plan) : oneFinalB (run p).emits (final p) = true := by
  rcases p with ⟨ti, ai, ex, oe, ao, to, ht⟩
  cases ti <;> cases ai <;> cases oe <;> cases ao <;> cases to <;> cases ht <;>
    (cases ex with
     | noLauncher => decide
     | launchError => decide
     | canceled => decide
     | exit n =>
       cases n with
       | zero => decide
       | succ k => simp [oneFinalB, final, run, staged, targetOf, St.isFinal, St.WF, dropWhile] <;> (try decide))

/-- **one final state**: the published notifications are non-final states followed by the final
    state (published once, or twice by the client side output stager - the same state both times) -/
theorem C05_one_final (p : Plan) :
    ∃ pre k, (run p).emits = pre ++ List.replicate (k + 1) (final p)
      ∧ (∀ s ∈ pre, s.isFinal = false) ∧ (∀ s ∈ (run p).emits, s.WF C06.N) := by
  have hN : C06.N = 15 := by decide
  have h := oneFinalB_run p
  unfold oneFinalB at h
  simp only [Bool.and_eq_true, decide_eq_true_eq, all_eq_true] at h
  obtain ⟨⟨h1, h2⟩, h3⟩ := h
  refine ⟨(run p).emits.takeWhile (fun s => !s.isFinal), ((run p).emits.dropWhile (fun s => !s.isFinal)).length - 1, ?_, ?_, ?_⟩
  · have : (run p).emits.dropWhile (fun s => !s.isFinal)
        = List.replicate (((run p).emits.dropWhile (fun s => !s.isFinal)).length - 1 + 1) (final p) := by
      rw [show ((run p).emits.dropWhile (fun s => !s.isFinal)).length - 1 + 1 = ((run p).emits.dropWhile (fun s => !s.isFinal)).length by omega]
      exact eq_replicate_iff.mpr ⟨rfl, fun s hs => by simpa using h2 s hs⟩
    rw [← this, takeWhile_append_dropWhile]
  · intro s hs
    have := all_eq_true.mp (all_takeWhile (l := (run p).emits) (p := fun s => !s.isFinal)) s hs
    simpa using this
  · intro s hs
    rw [hN]; simpa using h3 s hs

/-- **what the application sees**: whatever the order and batching in which the notifications of
    this task reach the task manager, mixed with notifications of any other tasks, the task ends in
    exactly the final state of its plan, and no callback announces another final state -/
theorem C05_client (p : Plan) (ts : Tasks) (bs : List (List Upd)) (hn : (uids ts).Nodup)
    (hw : ∀ b ∈ bs, ∀ u ∈ b, u.state.WF C06.N) (t : Task) (ht : t ∈ ts)
    (hnf : t.state.isFinal = false) (htw : t.state.WF C06.N)
    (hmine : ∀ u ∈ bs.flatten, u.uid = t.uid → u.state ∈ (run p).emits)
    (hfin : ∃ u ∈ bs.flatten, u.uid = t.uid ∧ u.state = final p) :
    ∃ t', (runBatches C06.N ts bs).1.find? (fun x => x.uid = t.uid) = some t' ∧ t'.state = final p := by
  have hwf : ∀ u ∈ bs.flatten, u.state.WF C06.N := by
    intro u hu
    obtain ⟨b, hb, hub⟩ := mem_flatten.mp hu
    exact hw b hb u hub
  have ⟨p1, _⟩ := runBatches_proj (N := C06.N) bs hw ts hn t ht
  refine ⟨_, p1, ?_⟩
  obtain ⟨pre, k, hem, hpre, _⟩ := C05_one_final p
  have hfinal : (final p).isFinal = true := (C05_truth p).2.2.2
  apply foldOne_final (final p) hfinal bs.flatten hwf t hnf htw
  · intro u hu huid hfu
    have hm := hmine u hu huid
    rw [hem] at hm
    rcases mem_append.mp hm with h | h
    · have := hpre _ h; rw [hfu] at this; cases this
    · exact eq_of_mem_replicate h
  · exact hfin

/-! ## error isolation -/

/-- a work routine that does not raise leaves every thing of the bulk with what was published for it;
    one that raises fails every thing of the bulk, the component itself goes on (`work_cb` returns) -/
theorem C05_work_cb (handled : List (List St)) (rest : Nat) :
    workCb handled rest false = handled
    ∧ (workCb handled rest true).length = handled.length + rest
    ∧ ∀ l ∈ workCb handled rest true, l.getLast? = some .failed := by
  refine ⟨rfl, by simp [workCb], ?_⟩
  intro l hl
  simp only [workCb, if_true, mem_append, mem_map, mem_replicate] at hl
  rcases hl with ⟨a, _, rfl⟩ | ⟨_, rfl⟩
  · simp
  · rfl

/-- the plan of one task is all that its notifications depend on: the tasks of a bulk are handled
    one by one, each inside its own error handler (tied by the correspondence with real bulks) -/
theorem C05_isolation (ps : List Plan) (i : Nat) (p : Plan) (h : ps[i]? = some p) :
    (ps.map run)[i]? = some (run p) := by
  simp [h]

/-- non-vacuity -/
example : final { tmgrInFails := false, agentInFails := false, exec := .exit 0, stageOnError := false,
                  agentOutFails := false, tmgrOutFails := false, hasTmgrOut := true } = .done := by decide
example : (run { tmgrInFails := false, agentInFails := false, exec := .exit 3, stageOnError := true,
                 agentOutFails := false, tmgrOutFails := true, hasTmgrOut := true }).emits.getLast? = some .failed := by decide

end RPVerif.C05
