import RPVerif.Model.Pipeline
import RPVerif.Lemmas.Pipeline
import RPVerif.Props.C06
import RPVerif.Lemmas.Timeout
import RPVerif.Gen.States
import RPVerif.Gen.Exec

/-!
# C05 — Every submitted task ends in one final state that tells the truth

`Plan` says what goes wrong for a task (which staging step cannot be carried out, how
execution ends, whether staging on error was requested); `run` says which state
notifications the components publish for it.  The theorems hold for every plan; the
composition with the client (`C05_client`) holds for every order and batching in which the
notifications arrive, among notifications of any other tasks.
-/
namespace RPVerif.C05
open List RPVerif.Pipeline RPVerif.States

/-- the task reaches the executor -/
def reached (p : Plan) : Prop := p.tmgrInFails = false ∧ p.agentInFails = false

/-- an output directive that is attempted cannot be carried out -/
def stageFault (p : Plan) : Prop := staged p = true ∧ (p.agentOutFails = true ∨ p.tmgrOutFails = true)

instance (p : Plan) : Decidable (reached p) := by unfold reached; infer_instance
instance (p : Plan) : Decidable (stageFault p) := by unfold stageFault; infer_instance

/-- **the final state tells the truth** -/
theorem C05_truth (p : Plan) :
    (final p = .done ↔ reached p ∧ p.exec = .exit 0 ∧ p.agentOutFails = false ∧ p.tmgrOutFails = false)
    ∧ (final p = .canceled ↔ reached p ∧ p.exec = .canceled ∧ ¬ stageFault p)
    ∧ (final p = .failed ↔ ¬ reached p ∨ p.exec = .noLauncher ∨ p.exec = .launchError
                            ∨ (∃ n, n ≠ 0 ∧ p.exec = .exit n) ∨ stageFault p)
    ∧ (final p).isFinal = true := by
  rcases p with ⟨ti, ai, ex, oe, ao, to, ht⟩
  cases ti <;> cases ai <;> cases oe <;> cases ao <;> cases to <;> cases ht <;>
    (cases ex with
     | noLauncher => simp [final, run, reached, stageFault, staged, targetOf, St.isFinal]
     | launchError => simp [final, run, reached, stageFault, staged, targetOf, St.isFinal]
     | canceled => simp [final, run, reached, stageFault, staged, targetOf, St.isFinal]
     | exit n =>
       cases n with
       | zero => simp [final, run, reached, stageFault, staged, targetOf, St.isFinal]
       | succ k => simp [final, run, reached, stageFault, staged, targetOf, St.isFinal])

/-- **what is recorded**: a task reported FAILED carries an exception (a non-zero exit code is
    recorded too when the process ran); a task reported DONE carries exit code 0 and no exception -/
theorem C05_recorded (p : Plan) :
    (final p = .failed → (run p).exception = true)
    ∧ (final p = .done → (run p).exitCode = some 0 ∧ (run p).exception = false)
    ∧ (∀ n, reached p → p.exec = .exit n → (run p).exitCode = some n) := by
  rcases p with ⟨ti, ai, ex, oe, ao, to, ht⟩
  cases ti <;> cases ai <;> cases oe <;> cases ao <;> cases to <;> cases ht <;>
    (cases ex with
     | noLauncher => simp [final, run, reached, staged, targetOf]
     | launchError => simp [final, run, reached, staged, targetOf]
     | canceled => simp [final, run, reached, staged, targetOf]
     | exit n =>
       cases n with
       | zero => simp [final, run, reached, staged, targetOf]
       | succ k => simp [final, run, reached, staged, targetOf])

def oneFinalB (l : List St) (f : St) : Bool :=
  decide ((l.dropWhile (fun s => !s.isFinal)).length ≥ 1) && (l.dropWhile (fun s => !s.isFinal)).all (fun s => decide (s = f))
  && l.all (fun s => decide (s.WF 15))

theorem oneFinalB_run (p : Plan) : oneFinalB (run p).emits (final p) = true := by
  rcases p with ⟨ti, ai, ex, oe, ao, to, ht⟩
  cases ti <;> cases ai <;> cases oe <;> cases ao <;> cases to <;> cases ht <;>
    (cases ex with
     | noLauncher => decide
     | launchError => decide
     | canceled => decide
     | exit n =>
       cases n with
       | zero => decide
       | succ k => simp [oneFinalB, final, run, staged, targetOf, St.isFinal, St.WF, dropWhile] <;> (try decide))

/-- **one final state**: the published notifications are non-final states followed by the final
    state (published once, or twice by the client side output stager - the same state both times) -/
theorem C05_one_final (p : Plan) :
    ∃ pre k, (run p).emits = pre ++ List.replicate (k + 1) (final p)
      ∧ (∀ s ∈ pre, s.isFinal = false) ∧ (∀ s ∈ (run p).emits, s.WF C06.N) := by
  have hN : C06.N = 15 := by decide
  have h := oneFinalB_run p
  unfold oneFinalB at h
  simp only [Bool.and_eq_true, decide_eq_true_eq, all_eq_true] at h
  obtain ⟨⟨h1, h2⟩, h3⟩ := h
  refine ⟨(run p).emits.takeWhile (fun s => !s.isFinal), ((run p).emits.dropWhile (fun s => !s.isFinal)).length - 1, ?_, ?_, ?_⟩
  · have : (run p).emits.dropWhile (fun s => !s.isFinal)
        = List.replicate (((run p).emits.dropWhile (fun s => !s.isFinal)).length - 1 + 1) (final p) := by
      rw [show ((run p).emits.dropWhile (fun s => !s.isFinal)).length - 1 + 1 = ((run p).emits.dropWhile (fun s => !s.isFinal)).length by omega]
      exact eq_replicate_iff.mpr ⟨rfl, fun s hs => by simpa using h2 s hs⟩
    rw [← this, takeWhile_append_dropWhile]
  · intro s hs
    have := all_eq_true.mp (all_takeWhile (l := (run p).emits) (p := fun s => !s.isFinal)) s hs
    simpa using this
  · intro s hs
    rw [hN]; simpa using h3 s hs

/-- **what the application sees**: whatever the order and batching in which the notifications of
    this task reach the task manager, mixed with notifications of any other tasks, the task ends in
    exactly the final state of its plan, and no callback announces another final state -/
theorem C05_client (p : Plan) (ts : Tasks) (bs : List (List Upd)) (hn : (uids ts).Nodup)
    (hw : ∀ b ∈ bs, ∀ u ∈ b, u.state.WF C06.N) (t : Task) (ht : t ∈ ts)
    (hnf : t.state.isFinal = false) (htw : t.state.WF C06.N)
    (hmine : ∀ u ∈ bs.flatten, u.uid = t.uid → u.state ∈ (run p).emits)
    (hfin : ∃ u ∈ bs.flatten, u.uid = t.uid ∧ u.state = final p) :
    ∃ t', (runBatches C06.N ts bs).1.find? (fun x => x.uid = t.uid) = some t' ∧ t'.state = final p := by
  have hwf : ∀ u ∈ bs.flatten, u.state.WF C06.N := by
    intro u hu
    obtain ⟨b, hb, hub⟩ := mem_flatten.mp hu
    exact hw b hb u hub
  have ⟨p1, _⟩ := runBatches_proj (N := C06.N) bs hw ts hn t ht
  refine ⟨_, p1, ?_⟩
  obtain ⟨pre, k, hem, hpre, _⟩ := C05_one_final p
  have hfinal : (final p).isFinal = true := (C05_truth p).2.2.2
  apply foldOne_final (final p) hfinal bs.flatten hwf t hnf htw
  · intro u hu huid hfu
    have hm := hmine u hu huid
    rw [hem] at hm
    rcases mem_append.mp hm with h | h
    · have := hpre _ h; rw [hfu] at this; cases this
    · exact eq_of_mem_replicate h
  · exact hfin

/-! ## error isolation -/

/-- a work routine that does not raise leaves every thing of the bulk with what was published for it;
    one that raises fails every thing of the bulk, the component itself goes on (`work_cb` returns) -/
theorem C05_work_cb (handled : List (List St)) (rest : Nat) :
    workCb handled rest false = handled
    ∧ (workCb handled rest true).length = handled.length + rest
    ∧ ∀ l ∈ workCb handled rest true, l.getLast? = some .failed := by
  refine ⟨rfl, by simp [workCb], ?_⟩
  intro l hl
  simp only [workCb, if_true, mem_append, mem_map, mem_replicate] at hl
  rcases hl with ⟨a, _, rfl⟩ | ⟨_, rfl⟩
  · simp
  · rfl

/-- the plan of one task is all that its notifications depend on: the tasks of a bulk are handled
    one by one, each inside its own error handler (tied by the correspondence with real bulks) -/
theorem C05_isolation (ps : List Plan) (i : Nat) (p : Plan) (h : ps[i]? = some p) :
    (ps.map run)[i]? = some (run p) := by
  simp [h]

/-- non-vacuity -/
example : final { tmgrInFails := false, agentInFails := false, exec := .exit 0, stageOnError := false,
                  agentOutFails := false, tmgrOutFails := false, hasTmgrOut := true } = .done := by decide
example : (run { tmgrInFails := false, agentInFails := false, exec := .exit 3, stageOnError := true,
                 agentOutFails := false, tmgrOutFails := true, hasTmgrOut := true }).emits.getLast? = some .failed := by decide

/-! ## CANCELED only if a timeout was requested: the executor's timeout watcher

`Timeout.run` is every history of `handle_timeout` calls (`reg`), `task_startup_done` messages (`done`)
and passes of the watcher loop (`pass`), at any times; it returns every `cancel_task` call of the watcher
as (time, task). -/

open RPVerif.Timeout in
/-- **every cancellation by the watcher stems from a timeout the task asked for, and that timeout has run
    out**: there is a nonzero startup or execution timeout `v` of this task, counted from its launch
    (`handle_timeout`) or from a reported startup, with `t0 + v` before the time of the cancellation -/
theorem C05_watcher_cancel_justified (hist : List (Nat × Ev)) (t u : Nat) (h : (t, u) ∈ (run {} hist).2) :
    ∃ t0 v, v ≠ 0 ∧ t0 + v < t ∧
      ((∃ st et, (t0, Ev.reg u st et) ∈ hist ∧ v = (if st ≠ 0 then st else et)) ∨ (t0, Ev.done u v) ∈ hist) := by
  obtain ⟨ct, hlt, t0, v, hv, rfl, hsrc⟩ :=
    run_justified hist {} hist (fun _ hx => hx) ⟨by simp, by simp⟩ t u h
  exact ⟨t0, v, hv, hlt, hsrc⟩

open RPVerif.Timeout in
/-- a task that asked for no timeout at all is never cancelled by the watcher -/
theorem C05_no_timeout_never_cancelled (hist : List (Nat × Ev)) (u : Nat)
    (hreg : ∀ t0 st et, (t0, Ev.reg u st et) ∈ hist → st = 0 ∧ et = 0)
    (hdone : ∀ t0 et, (t0, Ev.done u et) ∈ hist → et = 0) (t : Nat) :
    (t, u) ∉ (run {} hist).2 := by
  intro h
  obtain ⟨t0, v, hv, _, hsrc⟩ := C05_watcher_cancel_justified hist t u h
  rcases hsrc with ⟨st, et, hm, rfl⟩ | hm
  · obtain ⟨rfl, rfl⟩ := hreg t0 st et hm
    simp at hv
  · exact hv (hdone t0 v hm)

open RPVerif.Timeout in
/-- **a reported startup replaces the startup deadline**: once a task without an execution timeout has
    reported its startup, the watcher does not cancel it at its next pass, whenever that runs and whatever
    other tasks register or report in between -/
theorem C05_reported_startup_clears (w : TW) (t u : Nat) (hu : u ∉ w.gone)
    (evs : List (Nat × Ev)) (hq : ∀ x ∈ evs, Quiet u x.2) (now : Nat) :
    u ∉ (pass (run (startupDone w t u 0) evs).1 now).2 := by
  obtain ⟨ys, h1, h2, _⟩ := run_quiet (startupDone w t u 0) u evs hq
  apply pass_after_startup _ w.pending ys u now _ h2
  rw [h1]
  simp [startupDone, hu]

/-- tests: a startup timeout of 3 with the startup reported at t=2 and no execution timeout - no
    cancellation ever; without the report the task is cancelled at the first pass after t=4 -/
example : (Timeout.run {} [(1, .reg 0 3 0), (2, .done 0 0), (9, .pass), (50, .pass)]).2 = [] := by decide
example : (Timeout.run {} [(1, .reg 0 3 0), (4, .pass), (5, .pass), (9, .pass)]).2 = [(5, 0)] := by decide

/-! ### the final state tells the truth under every delivery order (round 15) -/

/-- invariant: a final state on the client's record came with the details -/
theorem viewRun_inv (acc : St → St → Bool) (ns : List Note) (v : View)
    (hn : ∀ n ∈ ns, n.st.isFinal = true → n.full = true) (hv : v.st.isFinal = true → v.details = true) :
    (viewRun acc v ns).st.isFinal = true → (viewRun acc v ns).details = true := by
  induction ns generalizing v with
  | nil => exact hv
  | cons n ns ih =>
    have hstep : (viewStep acc v n).st.isFinal = true → (viewStep acc v n).details = true := by
      unfold viewStep
      by_cases ha : acc v.st n.st = true
      · simp only [ha, if_true]
        intro hf
        simp [hn n (by simp) hf]
      · simp only [ha]
        exact hv
    exact ih (viewStep acc v n) (fun m hm => hn m (mem_cons_of_mem _ hm)) hstep

/-- **C05, exit code and exception under every delivery order**: with the publish loop of `BaseComponent.advance` as
    the translator reads it from the source (`Gen.publishFinalByThing`: a thing in a final state is published in full,
    whatever state argument the call carried), for EVERY list of notifications components publish for a task - in any
    order, with duplicates, any of them dropped by any acceptance rule of the client - a task the client records in a
    final state has its details (exit code, exception) recorded too -/
theorem C05_final_carries_details (acc : St → St → Bool)
    (calls : List (Bool × Option St × St)) (v : View) (hv : v.st.isFinal = false) :
    let ns := calls.map (fun c => noteOf Gen.publishFinalByThing c.1 c.2.1 c.2.2)
    (viewRun acc v ns).st.isFinal = true → (viewRun acc v ns).details = true := by
  have e : Gen.publishFinalByThing = true := by decide
  intro ns
  apply viewRun_inv
  · intro n hn hf
    simp only [ns, mem_map] at hn
    obtain ⟨c, _, rfl⟩ := hn
    rw [e] at hf ⊢
    simp only [noteOf, if_true] at hf ⊢
    simp [hf]
  · intro h; rw [hv] at h; exact absurd h (by decide)

/-- the test matters: judged by the state argument, the client's output staging (it sets the final state on the task and
    advances without a state) publishes DONE without the task; delivered before the agent's full update, which the client
    then refuses as no progression, the task is DONE and its exit code is unknown -/
theorem C05_final_carries_details_witness :
    let acc : St → St → Bool := fun cur tgt => decide (cur.val 15 < tgt.val 15)
    (viewRun acc ⟨.nf 1, false⟩ [noteOf false false none .done, noteOf false true (some (.nf 13)) (.nf 13)]) = ⟨.done, false⟩
    ∧ (viewRun acc ⟨.nf 1, false⟩ [noteOf true false none .done, noteOf true true (some (.nf 13)) (.nf 13)]) = ⟨.done, true⟩ := by
  decide

/-! ### DONE only for exit code 0 - whatever ended the process (round 18) -/

/-- **C05, DONE only if the process exited with code 0**: with the test of `Popen._check_running` as the translator reads it
    (`Gen.doneIffExitZero`), for every return code - positive, or negative when the process was ended by a signal from
    outside (OOM killer, epilogue of the batch system, an operator) - the task is DONE iff the code is 0 -/
theorem C05_done_iff_exit_zero (code : Int) : targetOfCode Gen.doneIffExitZero code = .done ↔ code = 0 := by
  have e : Gen.doneIffExitZero = true := by decide
  rw [e]
  unfold targetOfCode
  by_cases h : code = 0
  · simp [h]
  · simp [h]

/-- a test of the sign lets a process killed by SIGKILL (-9) end DONE -/
theorem C05_done_iff_exit_zero_witness : targetOfCode false (-9) = .done ∧ targetOfCode true (-9) = .failed := by decide

end RPVerif.C05
