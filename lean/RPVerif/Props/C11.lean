import RPVerif.Model.Staging
import RPVerif.Gen.Staging
import RPVerif.Lemmas.Staging

/-!
# C11 — Staging directives move the named data to the named place
-/
namespace RPVerif.C11
open List RPVerif.Staging

/-- every action has a component that carries it out on the input side, and every local / remote
    action one on the output side; what a component lets through its filter it also acts on
    (decided over the tables regenerated from the four stagers on every run) -/
theorem C11_every_action_handled :
    (∀ a ∈ ["Transfer", "Copy", "Link", "Move", "Tarball"],
        (RPVerif.Gen.stagingTables.tmgrIn.contains a = true)
        ∨ (RPVerif.Gen.stagingTables.agentIn.contains a = true ∧ RPVerif.Gen.stagingTables.agentInDo.contains a = true))
    ∧ (∀ a ∈ ["Tarball"], RPVerif.Gen.stagingTables.agentIn.contains a = true ∧ RPVerif.Gen.stagingTables.agentInDo.contains a = true)
    ∧ (∀ a ∈ ["Transfer", "Copy", "Link", "Move"],
        (RPVerif.Gen.stagingTables.tmgrOut.contains a = true)
        ∨ (RPVerif.Gen.stagingTables.agentOut.contains a = true ∧ RPVerif.Gen.stagingTables.agentOutDo.contains a = true))
    ∧ RPVerif.Gen.stagingTables.tmgrOutOnError = true := by
  decide

/-! ## string short forms -/

def NoRedir (s : Str) : Prop := '>' ∉ s ∧ '<' ∉ s

theorem hasSub_false (a : Char) (rest u : Str) (h : a ∉ u) : hasSub (a :: rest) u = false := by
  unfold hasSub; rw [findSplit_absent a rest u h]; rfl

/-- `src > tgt` -/
theorem C11_form_gt (dflt : String) (s t : Str) (hs : NoRedir s) (ht : NoRedir t) :
    expandStr dflt (s ++ '>' :: t) = .ok { source := strip s, target := strip t, action := dflt } := by
  have h1 : hasSub ">>".toList (s ++ '>' :: t) = false := by
    unfold hasSub
    rw [show ">>".toList = ['>', '>'] from rfl, findSplit_double_absent '>' s t hs.1 ht.1]; rfl
  have h2 : findSplit ">".toList (s ++ '>' :: t) = some (s, t) := by
    have := findSplit_here '>' [] s t hs.1
    simpa using this
  have h3 : findSplit ">".toList t = none := findSplit_absent '>' [] t ht.1
  unfold expandStr
  rw [h1]
  simp only [Bool.false_eq_true, if_false]
  have h4 : hasSub ">".toList (s ++ '>' :: t) = true := by unfold hasSub; rw [h2]; rfl
  rw [h4]
  simp only [if_true, split2, h2, h3, Option.isSome_none, Bool.false_eq_true, if_false]

/-- `src >> tgt` -/
theorem C11_form_gtgt (dflt : String) (s t : Str) (hs : NoRedir s) (ht : NoRedir t) :
    expandStr dflt (s ++ '>' :: '>' :: t) = .ok { source := strip s, target := strip t, action := dflt } := by
  have h2 : findSplit ">>".toList (s ++ '>' :: '>' :: t) = some (s, t) := by
    have := findSplit_here '>' ['>'] s t hs.1
    simpa using this
  have h3 : findSplit ">>".toList t = none := findSplit_absent '>' ['>'] t ht.1
  unfold expandStr
  have h4 : hasSub ">>".toList (s ++ '>' :: '>' :: t) = true := by unfold hasSub; rw [h2]; rfl
  rw [h4]
  simp only [if_true, split2, h2, h3, Option.isSome_none, Bool.false_eq_true, if_false]

/-- `tgt < src` -/
theorem C11_form_lt (dflt : String) (s t : Str) (hs : NoRedir s) (ht : NoRedir t) :
    expandStr dflt (t ++ '<' :: s) = .ok { source := strip s, target := strip t, action := dflt } := by
  have hn : '>' ∉ t ++ '<' :: s := by
    intro h
    rcases mem_append.mp h with h | h
    · exact ht.1 h
    · rcases mem_cons.mp h with h | h
      · cases h
      · exact hs.1 h
  have h1 : hasSub ">>".toList (t ++ '<' :: s) = false := hasSub_false '>' ['>'] _ hn
  have h1' : hasSub ">".toList (t ++ '<' :: s) = false := hasSub_false '>' [] _ hn
  have h1'' : hasSub "<<".toList (t ++ '<' :: s) = false := by
    unfold hasSub
    rw [show "<<".toList = ['<', '<'] from rfl, findSplit_double_absent '<' t s ht.2 hs.2]; rfl
  have h2 : findSplit "<".toList (t ++ '<' :: s) = some (t, s) := by
    have := findSplit_here '<' [] t s ht.2
    simpa using this
  have h3 : findSplit "<".toList s = none := findSplit_absent '<' [] s hs.2
  have h4 : hasSub "<".toList (t ++ '<' :: s) = true := by unfold hasSub; rw [h2]; rfl
  unfold expandStr
  rw [h1, h1', h1'', h4]
  simp only [Bool.false_eq_true, if_false, if_true, split2, h2, h3, Option.isSome_none]

/-- `tgt << src` -/
theorem C11_form_ltlt (dflt : String) (s t : Str) (hs : NoRedir s) (ht : NoRedir t) :
    expandStr dflt (t ++ '<' :: '<' :: s) = .ok { source := strip s, target := strip t, action := dflt } := by
  have hn : '>' ∉ t ++ '<' :: '<' :: s := by
    intro h
    rcases mem_append.mp h with h | h
    · exact ht.1 h
    · rcases mem_cons.mp h with h | h
      · cases h
      · rcases mem_cons.mp h with h | h
        · cases h
        · exact hs.1 h
  have h1 : hasSub ">>".toList (t ++ '<' :: '<' :: s) = false := hasSub_false '>' ['>'] _ hn
  have h1' : hasSub ">".toList (t ++ '<' :: '<' :: s) = false := hasSub_false '>' [] _ hn
  have h2 : findSplit "<<".toList (t ++ '<' :: '<' :: s) = some (t, s) := by
    have := findSplit_here '<' ['<'] t s ht.2
    simpa using this
  have h3 : findSplit "<<".toList s = none := findSplit_absent '<' ['<'] s hs.2
  have h4 : hasSub "<<".toList (t ++ '<' :: '<' :: s) = true := by unfold hasSub; rw [h2]; rfl
  unfold expandStr
  rw [h1, h1', h4]
  simp only [Bool.false_eq_true, if_false, if_true, split2, h2, h3, Option.isSome_none]

/-- no redirection: the target is the base name of the source path (relative to the task sandbox) -/
theorem C11_form_plain (dflt : String) (s : Str) (hs : NoRedir s) :
    expandStr dflt s = .ok { source := strip s, target := strip (basename (urlOf s).path), action := dflt } := by
  have h1 : hasSub ">>".toList s = false := hasSub_false '>' ['>'] s hs.1
  have h2 : hasSub ">".toList s = false := hasSub_false '>' [] s hs.1
  have h3 : hasSub "<<".toList s = false := hasSub_false '<' ['<'] s hs.2
  have h4 : hasSub "<".toList s = false := hasSub_false '<' [] s hs.2
  unfold expandStr
  rw [h1, h2, h3, h4]
  simp

example : (expandStr "Transfer" "in.dat > sub/staged.dat".toList).toOption
    = some { source := "in.dat".toList, target := "sub/staged.dat".toList, action := "Transfer" } := by decide
example : (expandStr "Transfer" "client:///data/in.dat".toList).toOption
    = some { source := "client:///data/in.dat".toList, target := "in.dat".toList, action := "Transfer" } := by decide

/-! ## where a URL points -/

/-- a `schema:///path` URL of a schema the component knows denotes `path` below that sandbox -/
theorem C11_resolution_schema (ctx : List (String × Str)) (sch rel base : Str) (hc : ':' ∉ sch) (hne : sch ≠ [])
    (hf : sch ≠ "file".toList) (hl : lookup ctx sch = some base) :
    completeUrl ctx (sch ++ "://".toList ++ '/' :: rel)
      = .ok { urlOf base with path := (urlOf base).path ++ '/' :: '/' :: rel } := by
  have hsplit : findSplit "://".toList (sch ++ "://".toList ++ '/' :: rel) = some (sch, '/' :: rel) := by
    have := findSplit_here ':' ['/', '/'] sch ('/' :: rel) hc
    simpa using this
  have hu : urlOf (sch ++ "://".toList ++ '/' :: rel) = { schema := sch, host := [], path := '/' :: rel } := by
    unfold urlOf; rw [hsplit]; simp [takeWhile, dropWhile]
  unfold completeUrl
  rw [hu]
  have hf' : sch ≠ ['f', 'i', 'l', 'e'] := hf
  simp only [hne, if_false, hl]
  simp [hf']

/-- a relative path denotes a file below the component's default (`pwd`) location -/
theorem C11_resolution_relative (ctx : List (String × Str)) (p base : Str) (hrel : p.head? ≠ some '/')
    (hns : findSplit "://".toList p = none) (hl : lookup ctx "pwd".toList = some base) :
    completeUrl ctx p = .ok { urlOf base with path := (urlOf base).path ++ '/' :: p } := by
  have hu : urlOf p = { schema := [], host := [], path := p } := by unfold urlOf; rw [hns]
  unfold completeUrl
  rw [hu]
  simp only [if_true, hrel, if_false, hl]
  simp

/-- an absolute path is left alone -/
theorem C11_resolution_absolute (ctx : List (String × Str)) (p : Str) (habs : p.head? = some '/')
    (hns : findSplit "://".toList p = none) (hl : lookup ctx "file".toList = none) :
    completeUrl ctx p = .ok { schema := "file".toList, host := [], path := p } := by
  have hu : urlOf p = { schema := [], host := [], path := p } := by unfold urlOf; rw [hns]
  unfold completeUrl
  rw [hu]
  simp only [if_true, habs, hl]

/-- the documented defaults: on the input side the client resolves relative sources in the client
    directory and relative targets in the task sandbox; the agent resolves both in the task sandbox;
    on the output side the client resolves relative sources in the task sandbox and relative targets
    in the client directory -/
theorem C11_defaults (b : Boxes) :
    lookup (clientSrcCtx b) "pwd".toList = some b.client ∧ lookup (clientTgtCtx b) "pwd".toList = some b.task
    ∧ lookup (agentCtx b) "pwd".toList = some b.task
    ∧ lookup (clientOutSrcCtx b) "pwd".toList = some b.task ∧ lookup (clientOutTgtCtx b) "pwd".toList = some b.client
    ∧ lookup (clientSrcCtx b) "client".toList = some b.client ∧ lookup (clientSrcCtx b) "task".toList = some b.task
    ∧ lookup (clientSrcCtx b) "pilot".toList = some b.pilot ∧ lookup (clientSrcCtx b) "session".toList = some b.session
    ∧ lookup (clientSrcCtx b) "resource".toList = some b.resource ∧ lookup (clientSrcCtx b) "endpoint".toList = some b.endpoint
    ∧ lookup (agentCtx b) "client".toList = none := by
  refine ⟨?_, ?_, ?_, ?_, ?_, ?_, ?_, ?_, ?_, ?_, ?_, ?_⟩ <;>
    simp [Staging.lookup, clientSrcCtx, clientTgtCtx, agentCtx, clientOutSrcCtx, clientOutTgtCtx, List.find?]

/-! ## what the operations do to the files -/

/-- **effect**: in any run of staging operations that succeeds, a copy / link / move whose source
    is not touched before it and whose target is not touched after it leaves, at the end, the
    content its source had at the start in its target -/
theorem C11_effect (pre post : List Op) (op : Op) (s t : Path) (fs fs' : FS)
    (hop : op = .copy s t ∨ op = .link s t ∨ op = .move s t) (hst : s ≠ t)
    (hsimple : ∀ o ∈ pre ++ post, o.simple = true)
    (hpre : ∀ o ∈ pre, s ∉ touched o) (hpost : ∀ o ∈ post, t ∉ touched o)
    (h : exec fs (pre ++ op :: post) = (fs', true)) :
    fs'.read t = fs.read s ∧ (fs.read s).isSome = true :=
  exec_effect pre post op s t fs fs' hop hst hsimple hpre hpost h

/-- **directory-form targets**: a COPY / TRANSFER / MOVE whose completed target is written with a trailing `/`
    puts the source's content at `<that directory>/<name of the source>`; nothing is written at the directory's
    own name (the source does not become a file called like the directory) -/
theorem C11_dir_form (fs fs' : FS) (a : String) (s : Path) (b : Str) (g : Url) (op : Op)
    (hd : dirForm g = true) (hb : s.getLast? = some b) (ha : a = "Copy" ∨ a = "Transfer" ∨ a = "Move")
    (hop : helperOpU a s g = some op) (hne : s ≠ loc g ++ [b]) (h : stepOp fs op = some fs') :
    fs'.read (loc g ++ [b]) = fs.read s ∧ (fs.read s).isSome = true
    ∧ (loc g ≠ s → fs'.read (loc g) = fs.read (loc g)) := by
  have hl : ¬ (dirForm g = true ∧ a = "Link") := by
    rintro ⟨_, rfl⟩; rcases ha with h | h | h <;> simp at h
  have ht : tloc s g = loc g ++ [b] := by simp [tloc, hd, hb]
  have hne2 : loc g ≠ loc g ++ [b] := by
    intro hh
    have := congrArg List.length hh
    simp at this
  unfold helperOpU at hop
  rw [if_neg hl, ht] at hop
  unfold helperOp at hop
  rcases ha with rfl | rfl | rfl
  · simp at hop; subst hop
    have e := step_effect fs fs' _ s (loc g ++ [b]) (Or.inl rfl) hne h
    refine ⟨e.1, e.2.1, fun hs => ?_⟩
    exact step_frame fs fs' _ (loc g) rfl h (by simpa [touched] using hne2)
  · simp at hop; subst hop
    have e := step_effect fs fs' _ s (loc g ++ [b]) (Or.inl rfl) hne h
    refine ⟨e.1, e.2.1, fun hs => ?_⟩
    exact step_frame fs fs' _ (loc g) rfl h (by simpa [touched] using hne2)
  · simp at hop; subst hop
    have e := step_effect fs fs' _ s (loc g ++ [b]) (Or.inr (Or.inr rfl)) hne h
    refine ⟨e.1, e.2.1, fun hs => ?_⟩
    exact step_frame fs fs' _ (loc g) rfl h (by simp [touched]; exact hs)

/-- non-vacuity: `task:///inputs/` under COPY -/
example : helperOpU "Copy" [['a'], ['f']] { schema := "file".toList, host := [], path := "/x/inputs/".toList }
    = some (.copy [['a'], ['f']] [['x'], "inputs".toList, ['f']]) := by decide

/-- **tarball**: unpacking puts every packed file at its target -/
theorem C11_unpack (fs fs' : FS) (tp : Path) (es : List (Path × Nat)) (hr : fs.read tp = some (.tar es))
    (hnd : (es.map (·.1)).Nodup) (h : stepOp fs (.unpack tp) = some fs') :
    ∀ e ∈ es, fs'.read e.1 = some (.data e.2) := by
  simp only [stepOp, hr] at h
  injection h with h
  subst h
  exact writeAll_effect es fs hnd

/-- a source that does not exist makes the operation, and with it the run, fail -/
theorem C11_missing_source_fails (fs : FS) (pre post : List Op) (s t : Path) (hm : ∀ fs1, (exec fs pre).1 = fs1 → fs1.read s = none) :
    (exec fs (pre ++ Op.copy s t :: post)).2 = false := by
  rw [exec_append]
  rcases h1 : exec fs pre with ⟨fs1, b1⟩
  cases b1 with
  | false => rfl
  | true =>
    have := hm fs1 (by rw [h1])
    simp [exec, stepOp, this]

/-- **from directives to operations** (client side of output staging): when the stage is planned,
    its operations are, one for one and in order, what the TRANSFER directives of the task resolve to
    in the client's contexts (sources relative to the task sandbox, targets relative to the client
    directory) -/
theorem C11_tmgr_out_plan (tb : Tables) (t : Task) (ops : List Op) (hs : t.target = "DONE" ∨ (tb.tmgrOutOnError = true ∧ t.stageOnError = true))
    (h : tmgrOutPlan tb t = .ok ops) :
    ops.length = (t.outputs.filter (fun sd => tb.tmgrOut.contains sd.action)).length
    ∧ ∀ p ∈ (t.outputs.filter (fun sd => tb.tmgrOut.contains sd.action)).zip ops,
        resolveOp (clientOutSrcCtx t.boxes) (clientOutTgtCtx t.boxes) p.1 = .ok p.2 := by
  unfold tmgrOutPlan at h
  have hc : ¬ (t.target ≠ "DONE" ∧ ¬ (tb.tmgrOutOnError = true ∧ t.stageOnError = true)) := by
    intro hh; rcases hs with h1 | h1
    · exact hh.1 h1
    · exact hh.2 h1
  rw [if_neg hc] at h
  obtain ⟨l, hl, hlen, hall⟩ := foldl_resolve (resolveOp (clientOutSrcCtx t.boxes) (clientOutTgtCtx t.boxes)) _ [] ops h
  simp only [nil_append] at hl
  subst hl
  exact ⟨hlen, hall⟩

/-- ... so for a task that ended DONE, after a successful client side output stage every TRANSFER
    directive whose source is not touched by the directives before it and whose target is not
    touched by those after it has the content of its source (as it was when the stage began) in
    its target -/
theorem C11_transfer_out (tb : Tables) (t : Task) (fs fs' : FS) (pre post : List Op) (s g : Path)
    (hplan : tmgrOutPlan tb t = .ok (pre ++ Op.copy s g :: post)) (hsg : s ≠ g)
    (hsimple : ∀ o ∈ pre ++ post, o.simple = true)
    (hpre : ∀ o ∈ pre, s ∉ touched o) (hpost : ∀ o ∈ post, g ∉ touched o)
    (hrun : runStage fs (tmgrOutPlan tb t) = (fs', true)) :
    fs'.read g = fs.read s ∧ (fs.read s).isSome = true := by
  rw [hplan] at hrun
  exact exec_effect pre post (.copy s g) s g fs fs' (Or.inl rfl) hsg hsimple hpre hpost hrun

/-- the fold of the agent side input stager, as a relation between directives and operations -/
theorem agentIn_fold (tb : Tables) (t : Task) (l : List SD) : ∀ (acc : List Op × Bool),
    (acc.2 = false → l.foldl (agentInStep tb t) acc = acc)
    ∧ ((l.foldl (agentInStep tb t) acc).2 = true →
        acc.2 = true
        ∧ (l.foldl (agentInStep tb t) acc).1
          = acc.1 ++ (l.filter (fun sd => tb.agentInDo.contains sd.action)).filterMap (fun sd => (agentInOp t sd).join)
        ∧ ∀ sd ∈ l.filter (fun sd => tb.agentInDo.contains sd.action), (agentInOp t sd).isSome = true) := by
  induction l with
  | nil => intro acc; exact ⟨fun _ => rfl, fun h => ⟨h, by simp, by simp⟩⟩
  | cons sd l ih =>
    intro acc
    rw [foldl_cons]
    rcases acc with ⟨ops, ok⟩
    cases ok with
    | false =>
      have hstep : agentInStep tb t (ops, false) sd = (ops, false) := by simp [agentInStep]
      rw [hstep]
      refine ⟨fun _ => (ih (ops, false)).1 rfl, ?_⟩
      intro h
      rw [(ih (ops, false)).1 rfl] at h
      cases h
    | true =>
      refine ⟨(fun h => by cases h), ?_⟩
      by_cases hd : tb.agentInDo.contains sd.action = true
      · have hd' : sd.action ∈ tb.agentInDo := by simpa using hd
        cases hop : agentInOp t sd with
        | none =>
          have hstep : agentInStep tb t (ops, true) sd = (ops, false) := by simp [agentInStep, hd', hop]
          rw [hstep]
          intro h
          rw [(ih (ops, false)).1 rfl] at h
          cases h
        | some o =>
          cases o with
          | none =>
            have hstep : agentInStep tb t (ops, true) sd = (ops, true) := by simp [agentInStep, hd', hop]
            rw [hstep]
            intro h
            obtain ⟨j1, j2, j3⟩ := (ih (ops, true)).2 h
            refine ⟨j1, ?_, ?_⟩
            · rw [j2, filter_cons, if_pos hd, filterMap_cons, hop]; rfl
            · intro x hx
              rw [filter_cons, if_pos hd] at hx
              rcases mem_cons.mp hx with e | e
              · rw [e, hop]; rfl
              · exact j3 x e
          | some op =>
            have hstep : agentInStep tb t (ops, true) sd = (ops ++ [op], true) := by simp [agentInStep, hd', hop]
            rw [hstep]
            intro h
            obtain ⟨_, j2, j3⟩ := (ih (ops ++ [op], true)).2 h
            refine ⟨rfl, ?_, ?_⟩
            · rw [j2, filter_cons, if_pos hd, filterMap_cons, hop, append_assoc]; rfl
            · intro x hx
              rw [filter_cons, if_pos hd] at hx
              rcases mem_cons.mp hx with e | e
              · rw [e, hop]; rfl
              · exact j3 x e
      · have hd' : sd.action ∉ tb.agentInDo := by simpa using hd
        have hstep : agentInStep tb t (ops, true) sd = (ops, true) := by simp [agentInStep, hd']
        rw [hstep]
        intro h
        obtain ⟨j1, j2, j3⟩ := (ih (ops, true)).2 h
        refine ⟨j1, ?_, ?_⟩
        · rw [j2, filter_cons, if_neg hd]
        · intro x hx; rw [filter_cons, if_neg hd] at hx; exact j3 x hx

/-- **from directives to operations** (agent side of input staging): when the stage could resolve all it
    had to, its operations are, in order, what the directives the agent acts on become in the agent's
    contexts: COPY / LINK / MOVE resolved against the task sandbox with a local target, and the extraction
    of the tarball the client packed (other TARBALL directives need nothing here) -/
theorem C11_agent_in_plan (tb : Tables) (t : Task) (inputs : List SD) (hok : (agentInPlan tb t inputs).2 = true) :
    (agentInPlan tb t inputs).1
      = ((inputs.filter (fun sd => tb.agentIn.contains sd.action)).filter (fun sd => tb.agentInDo.contains sd.action)).filterMap
          (fun sd => (agentInOp t sd).join)
    ∧ ∀ sd ∈ (inputs.filter (fun sd => tb.agentIn.contains sd.action)).filter (fun sd => tb.agentInDo.contains sd.action),
        (agentInOp t sd).isSome = true := by
  unfold agentInPlan at hok ⊢
  obtain ⟨_, j2, j3⟩ := (agentIn_fold tb t _ ([], true)).2 hok
  rw [j2]
  exact ⟨rfl, j3⟩

/-- the fold of the agent side output stager, as a relation between directives and operations -/
theorem agentOut_fold (tb : Tables) (t : Task) (l : List SD) : ∀ (acc : List Op × Bool),
    (acc.2 = false → l.foldl (agentOutStep tb t) acc = acc)
    ∧ ((l.foldl (agentOutStep tb t) acc).2 = true →
        acc.2 = true
        ∧ (l.foldl (agentOutStep tb t) acc).1
          = acc.1 ++ (l.filter (fun sd => tb.agentOutDo.contains sd.action)).filterMap (agentOutOp t)
        ∧ ∀ sd ∈ l.filter (fun sd => tb.agentOutDo.contains sd.action), (agentOutOp t sd).isSome = true) := by
  induction l with
  | nil => intro acc; exact ⟨fun _ => rfl, fun h => ⟨h, by simp, by simp⟩⟩
  | cons sd l ih =>
    intro acc
    rw [foldl_cons]
    rcases acc with ⟨ops, ok⟩
    cases ok with
    | false =>
      have hstep : agentOutStep tb t (ops, false) sd = (ops, false) := by simp [agentOutStep]
      rw [hstep]
      obtain ⟨i1, i2⟩ := ih (ops, false)
      refine ⟨fun _ => i1 rfl, ?_⟩
      intro h
      rw [i1 rfl] at h
      cases h
    | true =>
      refine ⟨(fun h => by cases h), ?_⟩
      by_cases hd : tb.agentOutDo.contains sd.action = true
      · have hd' : sd.action ∈ tb.agentOutDo := by simpa using hd
        cases hop : agentOutOp t sd with
        | none =>
          have hstep : agentOutStep tb t (ops, true) sd = (ops, false) := by simp [agentOutStep, hd', hop]
          rw [hstep]
          intro h
          rw [(ih (ops, false)).1 rfl] at h
          cases h
        | some op =>
          have hstep : agentOutStep tb t (ops, true) sd = (ops ++ [op], true) := by simp [agentOutStep, hd', hop]
          rw [hstep]
          intro h
          obtain ⟨_, j2, j3⟩ := (ih (ops ++ [op], true)).2 h
          refine ⟨rfl, ?_, ?_⟩
          · rw [j2, filter_cons, if_pos hd, filterMap_cons, hop, append_assoc]; rfl
          · intro x hx
            rw [filter_cons, if_pos hd] at hx
            rcases mem_cons.mp hx with e | e
            · rw [e, hop]; rfl
            · exact j3 x e
      · have hd' : sd.action ∉ tb.agentOutDo := by simpa using hd
        have hstep : agentOutStep tb t (ops, true) sd = (ops, true) := by simp [agentOutStep, hd']
        rw [hstep]
        intro h
        obtain ⟨j1, j2, j3⟩ := (ih (ops, true)).2 h
        refine ⟨j1, ?_, ?_⟩
        · rw [j2, filter_cons, if_neg hd]
        · intro x hx; rw [filter_cons, if_neg hd] at hx; exact j3 x hx

/-- **from directives to operations** (agent side of output staging): when the stage could resolve all it
    had to, its operations are, one for one and in order, what the directives the agent acts on (COPY, LINK,
    MOVE) become in the agent's contexts - relative paths relative to the task sandbox, both ends local -/
theorem C11_agent_out_plan (tb : Tables) (t : Task) (hs : t.target = "DONE" ∨ t.stageOnError = true)
    (hok : (agentOutPlan tb t).2 = true) :
    (agentOutPlan tb t).1
      = ((t.outputs.filter (fun sd => tb.agentOut.contains sd.action)).filter (fun sd => tb.agentOutDo.contains sd.action)).filterMap (agentOutOp t)
    ∧ ∀ sd ∈ (t.outputs.filter (fun sd => tb.agentOut.contains sd.action)).filter (fun sd => tb.agentOutDo.contains sd.action),
        (agentOutOp t sd).isSome = true := by
  unfold agentOutPlan at hok ⊢
  have hc : ¬ (t.target ≠ "DONE" ∧ ¬ t.stageOnError = true) := by
    intro hh; rcases hs with h1 | h1
    · exact hh.1 h1
    · exact hh.2 h1
  rw [if_neg hc] at hok ⊢
  obtain ⟨_, j2, j3⟩ := (agentOut_fold tb t _ ([], true)).2 hok
  rw [j2]
  exact ⟨rfl, j3⟩

/-- ... so after a successful agent side stage (input or output) every COPY / LINK / MOVE the stage planned,
    whose source is not touched by the operations before it and whose target is not touched by those after
    it, has left the content of its source (as it was when the stage began) in its target -/
theorem C11_agent_stage_effect (plan : List Op × Bool) (fs fs' : FS) (pre post : List Op) (op : Op) (s g : Path)
    (hplan : plan.1 = pre ++ op :: post) (hop : op = .copy s g ∨ op = .link s g ∨ op = .move s g) (hsg : s ≠ g)
    (hsimple : ∀ o ∈ pre ++ post, o.simple = true)
    (hpre : ∀ o ∈ pre, s ∉ touched o) (hpost : ∀ o ∈ post, g ∉ touched o)
    (hrun : runStageA fs plan = (fs', true)) :
    fs'.read g = fs.read s ∧ (fs.read s).isSome = true := by
  unfold runStageA at hrun
  rcases he : exec fs plan.1 with ⟨fs1, b⟩
  rw [he] at hrun
  cases b with
  | false => simp at hrun
  | true =>
    simp only [Prod.mk.injEq] at hrun
    rw [hplan, hrun.1] at he
    exact exec_effect pre post op s g fs fs' hop hsg hsimple hpre hpost he

/-! ## failed tasks and error locality -/

/-- output directives of a task that did not end DONE are not carried out unless staging on error
    was requested: neither output stager plans anything -/
theorem C11_failed_task (tb : Tables) (t : Task) (hf : t.target ≠ "DONE") (hs : t.stageOnError = false) :
    agentOutPlan tb t = ([], true) ∧ tmgrOutPlan tb t = .ok [] := by
  unfold agentOutPlan tmgrOutPlan
  simp [hf, hs]

/-- ... so the file system is what input staging and the task itself left -/
theorem C11_failed_task_fs (tb : Tables) (t : Task) (fs : FS) (hf : t.target ≠ "DONE") (hs : t.stageOnError = false) :
    runStageA fs (agentOutPlan tb t) = (fs, true) ∧ runStage fs (tmgrOutPlan tb t) = (fs, true) := by
  rw [(C11_failed_task tb t hf hs).1, (C11_failed_task tb t hf hs).2]
  exact ⟨rfl, rfl⟩

/-- **a directive that cannot be carried out fails that task only**: every task of a bulk is worked
    on, in order, whatever happened to the tasks before it; its state is the result of its own pipeline -/
theorem C11_error_local (tb : Tables) (fs : FS) (t : Task) (pr : List (Path × Nat)) (ts : List (Task × List (Path × Nat))) :
    (bulk tb fs ((t, pr) :: ts)).2 = (pipeline tb fs t pr).2 :: (bulk tb (pipeline tb fs t pr).1 ts).2
    ∧ (bulk tb fs ((t, pr) :: ts)).2.length = ts.length + 1 := by
  have hl : ∀ (l : List (Task × List (Path × Nat))) (f : FS), (bulk tb f l).2.length = l.length := by
    intro l
    induction l with
    | nil => intro f; rfl
    | cons x xs ih => intro f; cases x; simp [bulk, ih]
  refine ⟨rfl, ?_⟩
  rw [hl]; rfl

/-! ## the scratch tarball: calls do not disturb each other -/

theorem C11_tar_scratch_unique : Gen.tarScratchUnique = true := by decide

theorem find_filter_other (d : Scratch) (p q : Nat × Nat) (h : p ≠ q) :
    List.find? (fun e => decide (e.1 = q)) (List.filter (fun e => decide (e.1 ≠ p)) d)
      = List.find? (fun e => decide (e.1 = q)) d := by
  induction d with
  | nil => rfl
  | cons e es ih =>
    by_cases he : e.1 = p
    · have hq : ¬ e.1 = q := fun h2 => h (he ▸ h2)
      rw [List.filter_cons, if_neg (by simp [he]), List.find?_cons, ih]
      simp [hq]
    · rw [List.filter_cons, if_pos (by simp [he]), List.find?_cons, List.find?_cons, ih]

theorem find_filter_same (d : Scratch) (p : Nat × Nat) :
    List.find? (fun e => decide (e.1 = p)) (List.filter (fun e => decide (e.1 ≠ p)) d) = none := by
  rw [List.find?_eq_none]
  intro e he
  simp only [List.mem_filter] at he
  simpa using he.2

theorem scratchGet_step_other (d : Scratch) (p q : Nat × Nat) (op : TarOp) (h : p ≠ q) :
    scratchGet (tarStep d p op).1 q = scratchGet d q := by
  cases op with
  | pack m =>
    simp only [tarStep, scratchGet]
    rw [List.find?_cons, find_filter_other d p q h]
    simp [h]
  | ship => rfl
  | remove =>
    simp only [tarStep, scratchGet]
    rw [find_filter_other d p q h]

/-- **every call ships what it packed itself**: for any number of concurrent `_handle_task` calls - of
    any sessions, on tasks whose uids may coincide - and any interleaving of their pack / ship / remove
    steps, what one call ships is what it would ship if it ran alone.  Holds because the scratch file is
    named by the operating system per call (`C11_tar_scratch_unique`, read from the source). -/
theorem C11_tar_calls_isolated (d d' : Scratch) (l : List (Nat × Nat × TarOp)) (c : Nat)
    (hd : ∀ u, scratchGet d (scratchOf Gen.tarScratchUnique c u) = scratchGet d' (scratchOf Gen.tarScratchUnique c u)) :
    (tarRun Gen.tarScratchUnique d l).filter (fun r => r.1 = c)
      = tarRun Gen.tarScratchUnique d' (l.filter (fun x => x.1 = c)) := by
  rw [C11_tar_scratch_unique] at hd ⊢
  induction l generalizing d d' with
  | nil => rfl
  | cons x rest ih =>
    obtain ⟨c1, u1, op⟩ := x
    by_cases hc : c1 = c
    · subst hc
      have hstep : ∀ u, scratchGet (tarStep d (scratchOf true c1 u1) op).1 (scratchOf true c1 u)
                      = scratchGet (tarStep d' (scratchOf true c1 u1) op).1 (scratchOf true c1 u) := by
        intro u
        have hp : scratchOf true c1 u = scratchOf true c1 u1 := by simp [scratchOf]
        rw [hp]
        cases op with
        | pack m => simp [tarStep, scratchGet]
        | ship => simpa [tarStep] using hd u1
        | remove =>
          simp only [tarStep, scratchGet]
          rw [find_filter_same, find_filter_same]
      simp only [List.filter_cons, decide_true, if_true, tarRun]
      cases op with
      | ship =>
        simp only [tarStep]
        rw [List.filter_cons]
        simp only [decide_true, if_true]
        rw [hd u1, ih d d' hd]
      | pack m => simpa [tarStep] using ih _ _ (by simpa [tarStep] using hstep)
      | remove => simpa [tarStep] using ih _ _ (by simpa [tarStep] using hstep)
    · have hne : ∀ u, scratchOf true c1 u1 ≠ scratchOf true c u := by
        intro u h; simp [scratchOf] at h; exact hc h
      have hd2 : ∀ u, scratchGet (tarStep d (scratchOf true c1 u1) op).1 (scratchOf true c u) = scratchGet d' (scratchOf true c u) := by
        intro u; rw [scratchGet_step_other _ _ _ _ (hne u)]; exact hd u
      simp only [List.filter_cons, hc, decide_false, Bool.false_eq_true, if_false, tarRun]
      cases hs : tarStep d (scratchOf true c1 u1) op with
      | mk dd r =>
        have hd3 : ∀ u, scratchGet dd (scratchOf true c u) = scratchGet d' (scratchOf true c u) := by
          intro u; have := hd2 u; rw [hs] at this; exact this
        cases r with
        | none => simpa using ih dd d' hd3
        | some v =>
          simp only [List.filter_cons, hc, decide_false, Bool.false_eq_true, if_false]
          exact ih dd d' hd3

/-- the naming matters (test): two sessions, the same task uid 0, names computed from the uid - the first
    call ships the members of the second, the second finds no file -/
example : tarRun false [] [(1, 0, .pack 11), (2, 0, .pack 22), (1, 0, .ship), (1, 0, .remove), (2, 0, .ship)]
    = [(1, some 22), (2, none)] := by decide
example : tarRun true [] [(1, 0, .pack 11), (2, 0, .pack 22), (1, 0, .ship), (1, 0, .remove), (2, 0, .ship)]
    = [(1, some 11), (2, some 22)] := by decide

/-! ## every pilot of a session has a sandbox of its own -/

theorem pilotSandboxes_spec (sess : Nat) (cache : List (Nat × (Nat × Nat))) (pids : List Nat)
    (hc : ∀ e ∈ cache, e.2 = (sess, e.1)) :
    pilotSandboxes sess cache pids = pids.map (fun pid => (sess, pid)) := by
  induction pids generalizing cache with
  | nil => rfl
  | cons pid rest ih =>
    simp only [pilotSandboxes, List.map_cons]
    cases hf : cache.find? (fun e => e.1 = pid) with
    | some e =>
      have hm := List.mem_of_find?_eq_some hf
      have hk : e.1 = pid := by have := List.find?_some hf; simpa using this
      simp only [pilotSandbox, hf]
      rw [hc e hm, hk, ih cache hc]
    | none =>
      simp only [pilotSandbox, hf]
      rw [ih]
      intro e he
      rcases List.mem_append.mp he with he | he
      · exact hc e he
      · simp at he; subst he; rfl

/-- **whatever the order in which the pilots of a session ask for their sandboxes, and however often, pilot
    `pid` is given `<session sandbox>/<pid>`** - in particular two pilots never share one (the directory of a
    task, `<pilot sandbox>/<task uid>`, and every `pilot:///` target are resolved against it) -/
theorem C11_pilot_sandbox_own (sess : Nat) (pids : List Nat) :
    pilotSandboxes sess [] pids = pids.map (fun pid => (sess, pid)) :=
  pilotSandboxes_spec sess [] pids (by simp)

/-! ## from directives to operations: the client side of input staging -/

def isPut : Op → Bool
  | .put _ _ => true
  | _        => false

/-- the transfers of the directives that are not TARBALL directives, in order -/
def plainPlan (t : Task) : List SD → Except Err (List Op)
  | []         => .ok []
  | sd :: rest =>
    if sd.action = "Tarball" then plainPlan t rest
    else match resolveOp (clientSrcCtx t.boxes) (clientTgtCtx t.boxes) sd with
         | .error e => .error e
         | .ok op   => match plainPlan t rest with
                       | .ok r    => .ok (op :: r)
                       | .error e => .error e

theorem helperOp_notPut (a : String) (s g : Path) (op : Op) (h : helperOp a s g = some op) : isPut op = false := by
  unfold helperOp at h
  split at h
  · cases h; rfl
  · split at h
    · cases h; rfl
    · split at h
      · cases h; rfl
      · cases h

theorem helperOpU_notPut (a : String) (s : Path) (g : Url) (op : Op) (h : helperOpU a s g = some op) : isPut op = false := by
  unfold helperOpU at h
  split at h
  · cases h
  · exact helperOp_notPut _ _ _ _ h

theorem resolveOp_notPut (sc tc : List (String × Str)) (sd : SD) (op : Op) (h : resolveOp sc tc sd = .ok op) : isPut op = false := by
  unfold resolveOp at h
  split at h
  · next s g _ _ =>
    split at h
    · next op' hh => cases h; exact helperOpU_notPut _ _ _ _ hh
    · cases h
  · cases h
  · cases h

theorem tmgr_fold (t : Task) (entries : List (Path × Nat)) (l : List SD) :
    ∀ (ops : List Op) (seen : Bool) (res : List Op) (seen' : Bool),
      l.foldl (tmgrStep t entries) (.ok (ops, seen)) = .ok (res, seen') →
      ∃ plain, plainPlan t l = .ok plain
        ∧ res.filter (fun o => !isPut o) = ops.filter (fun o => !isPut o) ++ plain
        ∧ res.filter isPut = ops.filter isPut ++
            (if seen = false ∧ l.any (fun sd => sd.action = "Tarball") = true then [Op.put (tarPathOf t) (.tar entries)] else [])
        ∧ seen' = (seen || l.any (fun sd => sd.action = "Tarball")) := by
  induction l with
  | nil =>
    intro ops seen res seen' h
    simp only [foldl_nil, Except.ok.injEq, Prod.mk.injEq] at h
    obtain ⟨rfl, rfl⟩ := h
    exact ⟨[], rfl, by simp, by simp, by simp⟩
  | cons sd rest ih =>
    intro ops seen res seen' h
    rw [foldl_cons] at h
    by_cases hT : sd.action = "Tarball"
    · cases seen with
      | true =>
        have hstep : tmgrStep t entries (.ok (ops, true)) sd = .ok (ops, true) := by simp [tmgrStep, hT]
        rw [hstep] at h
        obtain ⟨plain, p1, p2, p3, p4⟩ := ih ops true res seen' h
        exact ⟨plain, by simp [plainPlan, hT, p1], p2, by simpa using p3, by simp [p4]⟩
      | false =>
        have hstep : tmgrStep t entries (.ok (ops, false)) sd = .ok (ops ++ [Op.put (tarPathOf t) (.tar entries)], true) := by
          simp [tmgrStep, hT]
        rw [hstep] at h
        obtain ⟨plain, p1, p2, p3, p4⟩ := ih _ true res seen' h
        refine ⟨plain, by simp [plainPlan, hT, p1], ?_, ?_, by simp [p4, hT]⟩
        · rw [p2]; simp [isPut]
        · rw [p3]; simp [isPut, hT]
    · cases hr : resolveOp (clientSrcCtx t.boxes) (clientTgtCtx t.boxes) sd with
      | error e =>
        have hstep : tmgrStep t entries (.ok (ops, seen)) sd = .error e := by simp [tmgrStep, hT, hr]
        rw [hstep] at h
        have : ∀ (l : List SD) (e : Err), l.foldl (tmgrStep t entries) (.error e) = .error e := by
          intro l e; induction l with
          | nil => rfl
          | cons x xs ih2 => simp [foldl_cons, tmgrStep, ih2]
        rw [this] at h; cases h
      | ok op =>
        have hstep : tmgrStep t entries (.ok (ops, seen)) sd = .ok (ops ++ [op], seen) := by simp [tmgrStep, hT, hr]
        rw [hstep] at h
        obtain ⟨plain, p1, p2, p3, p4⟩ := ih _ seen res seen' h
        have hnp := resolveOp_notPut _ _ _ _ hr
        refine ⟨op :: plain, by simp [plainPlan, hT, hr, p1], ?_, ?_, by simp [p4, hT]⟩
        · rw [p2]; simp [hnp]
        · rw [p3]; simp [hnp, hT]

theorem any_iff_filter_ne_nil (l : List SD) :
    (l.any (fun sd => sd.action = "Tarball") = true) ↔ l.filter (fun sd => sd.action = "Tarball") ≠ [] := by
  induction l with
  | nil => simp
  | cons x xs ih =>
    by_cases hx : x.action = "Tarball"
    · simp [hx]
    · simp [hx]

/-- **from directives to operations** (client side of input staging): when the stage could resolve all it had
    to, (1) every TARBALL directive's source was read into the tarball under the name of its target, in
    order; (2) the other directives the client acts on became their transfers, in order; (3) the tarball is
    shipped exactly once to `task:///<uid>.tar` iff there was a TARBALL directive, and then the agent is left
    exactly one directive to unpack it; (4) nothing else is done -/
theorem C11_tmgr_in_plan (tb : Tables) (fs : FS) (t : Task) (ops : List Op) (inputs' : List SD)
    (h : tmgrInPlan tb fs t = .ok (ops, inputs')) :
    (t.inputs.filter (fun sd => tb.tmgrIn.contains sd.action) = [] → ops = [] ∧ inputs' = t.inputs) ∧
    (t.inputs.filter (fun sd => tb.tmgrIn.contains sd.action) ≠ [] →
      ∃ entries plain,
        ((t.inputs.filter (fun sd => tb.tmgrIn.contains sd.action)).filter (fun sd => sd.action = "Tarball")).mapM (packEntry fs t) = .ok entries
        ∧ plainPlan t (t.inputs.filter (fun sd => tb.tmgrIn.contains sd.action)) = .ok plain
        ∧ ops.filter (fun o => !isPut o) = plain
        ∧ ops.filter isPut =
            (if (t.inputs.filter (fun sd => tb.tmgrIn.contains sd.action)).filter (fun sd => sd.action = "Tarball") = [] then []
             else [Op.put (tarPathOf t) (.tar entries)])
        ∧ inputs' =
            (if (t.inputs.filter (fun sd => tb.tmgrIn.contains sd.action)).filter (fun sd => sd.action = "Tarball") = [] then t.inputs
             else t.inputs ++ [tarDirective t])) := by
  unfold tmgrInPlan at h
  generalize hacts : t.inputs.filter (fun sd => tb.tmgrIn.contains sd.action) = acts at *
  by_cases ha : acts = []
  · rw [if_pos ha] at h
    simp only [Except.ok.injEq, Prod.mk.injEq] at h
    exact ⟨fun _ => ⟨h.1.symm, h.2.symm⟩, fun hne => absurd ha hne⟩
  · rw [if_neg ha] at h
    refine ⟨fun he => absurd he ha, fun _ => ?_⟩
    cases hm : (acts.filter (fun sd => sd.action = "Tarball")).mapM (packEntry fs t) with
    | error e => rw [hm] at h; cases h
    | ok entries =>
      rw [hm] at h
      simp only at h
      cases hf : acts.foldl (tmgrStep t entries) (.ok ([], false)) with
      | error e => rw [hf] at h; cases h
      | ok r =>
        obtain ⟨res, seen'⟩ := r
        rw [hf] at h
        simp only [Except.ok.injEq, Prod.mk.injEq] at h
        obtain ⟨rfl, rfl⟩ := h
        obtain ⟨plain, p1, p2, p3, _⟩ := tmgr_fold t entries acts [] false res seen' hf
        refine ⟨entries, plain, rfl, p1, by simpa using p2, ?_, rfl⟩
        by_cases ht : acts.filter (fun sd => sd.action = "Tarball") = []
        · have : ¬ (acts.any (fun sd => sd.action = "Tarball") = true) := fun hc => (any_iff_filter_ne_nil acts).mp hc ht
          simp only [ht, if_true]
          rw [p3]; simp [this]
        · have : acts.any (fun sd => sd.action = "Tarball") = true := (any_iff_filter_ne_nil acts).mpr ht
          simp only [ht, if_false]
          rw [p3]; simp [this]

/-! ### the input tarball arrives whole (round 18, defect de5bcc5) -/

/-- **C11, TARBALL directives move the named data whatever its size**: with the temporary file under the tarball closed
    before the transfer (`Gen.tarFileClosedBeforeTransfer`, read from the client-side input stager), the tarball that is
    transferred holds every byte of the archive, for every archive size and every buffer size -/
theorem C11_tarball_whole (size buf : Nat) : tarOnDisk Gen.tarFileClosedBeforeTransfer size buf = size := by
  have e : Gen.tarFileClosedBeforeTransfer = true := by decide
  rw [e]; rfl

/-- before the repair: an archive of 20480 bytes behind a buffer of 8192 bytes was transferred with its last 4096 bytes
    missing (the agent then fails to unpack it) -/
theorem C11_tarball_whole_witness : tarOnDisk false 20480 8192 = 16384 ∧ tarOnDisk true 20480 8192 = 20480 := by decide

end RPVerif.C11
