import RPVerif.Lemmas.States
import RPVerif.Lemmas.StatesReach
import RPVerif.Gen.States
import RPVerif.Model.Callbacks

/-!
# C06 — Applications observe the linear task state model

Property theorems only (helper lemmas live in `Lemmas/States.lean`).
`N` is the number of non-final task states; it and the names are read from the
table regenerated from `states.py` on every run (`taskTable_ok`).
-/
namespace RPVerif.C06
open RPVerif.States

/-- number of non-final task states according to `states.py` -/
def N : Nat := Gen.taskStateValues.length - 3

/-- the numeric table of `states.py` has the shape the model assumes:
    non-final states are numbered 0,1,…,N-1 in order, without gaps or repeats,
    and exactly DONE, FAILED, CANCELED share the final value N. -/
theorem taskTable_ok :
    (Gen.taskStateValues.take N).map (·.2) = List.range N
    ∧ Gen.taskStateValues.drop N = [("DONE", N), ("FAILED", N), ("CANCELED", N)]
    ∧ (Gen.taskStateValues.map (·.1)).Nodup
    ∧ Gen.finalStates = ["DONE", "FAILED", "CANCELED"]
    ∧ Gen.initialStates = ["NEW"] ∧ Gen.taskStateValues.head? = some ("NEW", 0)
    ∧ Gen.noneValue = -1 := by
  decide

/-- the progress helper never raises: a contradictory final state is discarded -/
theorem C06_progress_total (c t : St) : ∃ r, taskProgress N c t = .ok r :=
  taskProgress_ok N c t

/-- **no exception escapes `_update_tasks`**: every batch is processed to its end,
    whatever late, duplicated, out-of-order or contradictory notifications it holds -/
theorem C06_batch_completes (ts : Tasks) (b : List Upd) (hn : (uids ts).Nodup)
    (hw : ∀ u ∈ b, u.state.WF N) : (updateTasks N ts b).2.2 = none := by
  cases ts with
  | nil =>
    -- no known task: every dict is skipped
    have : ∀ (us : List Upd) acc, (updateTasksAux N [] us acc).2.2 = none := by
      intro us; induction us with
      | nil => intro acc; rfl
      | cons u us ih => intro acc; simp [updateTasksAux, ih]
    exact this b []
  | cons t ts => exact (updateTasksAux_proj b hw (t :: ts) [] hn t List.mem_cons_self).2.2.1

/-- **batch independence (full statement)**: inserting an arbitrary notification
    `d` for task `d.uid` anywhere into a batch changes nothing for any other task:
    same resulting state, same callbacks, in the same order. -/
theorem C06_batch_independence (ts : Tasks) (b₁ b₂ : List Upd) (d : Upd)
    (hn : (uids ts).Nodup) (hw : ∀ u ∈ b₁ ++ d :: b₂, u.state.WF N)
    (t : Task) (ht : t ∈ ts) (hne : d.uid ≠ t.uid) :
    (updateTasks N ts (b₁ ++ d :: b₂)).1.find? (fun x => x.uid = t.uid)
      = (updateTasks N ts (b₁ ++ b₂)).1.find? (fun x => x.uid = t.uid)
    ∧ (updateTasks N ts (b₁ ++ d :: b₂)).2.1.filter (fun p => p.1 = t.uid)
      = (updateTasks N ts (b₁ ++ b₂)).2.1.filter (fun p => p.1 = t.uid) := by
  have hw1 : ∀ u ∈ b₁, u.state.WF N := fun u hu => hw u (List.mem_append_left _ hu)
  have hw2 : ∀ u ∈ b₁ ++ b₂, u.state.WF N := by
    intro u hu
    rcases List.mem_append.mp hu with h | h
    · exact hw u (List.mem_append_left _ h)
    · exact hw u (List.mem_append_right _ (List.mem_cons_of_mem _ h))
  have ⟨a1, a2, _, _⟩ := updateTasksAux_proj (N := N) _ hw ts [] hn t ht
  have ⟨b1, b2, _, _⟩ := updateTasksAux_proj (N := N) _ hw2 ts [] hn t ht
  unfold updateTasks
  rw [a1, a2, b1, b2, foldOne_skip N t b₁ d b₂ hne hw1]
  exact ⟨rfl, rfl⟩

/-- **the callbacks an application sees for one task, over any history of
    notification batches, form a chain of observable steps** from the task's
    state: each announces the next state in order (skipped states filled in) or
    FAILED/CANCELED, never a step out of a final state; the task's state after
    the history is the last state announced. -/
theorem C06_linear (ts : Tasks) (bs : List (List Upd)) (hn : (uids ts).Nodup)
    (hw : ∀ b ∈ bs, ∀ u ∈ b, u.state.WF N) (t : Task) (ht : t ∈ ts) :
    ∃ t' cbs,
      (runBatches N ts bs).1.find? (fun x => x.uid = t.uid) = some t'
      ∧ (runBatches N ts bs).2.filter (fun p => p.1 = t.uid) = cbs.map (fun s => (t.uid, s))
      ∧ Chain N t.state cbs ∧ t'.state = lastOf t.state cbs := by
  have ⟨p1, p2⟩ := runBatches_proj (N := N) bs hw ts hn t ht
  have hwf : ∀ u ∈ bs.flatten, u.state.WF N := by
    intro u hu
    obtain ⟨b, hb, hub⟩ := List.mem_flatten.mp hu
    exact hw b hb u hub
  have ⟨c, l, _, _⟩ := foldOne_spec (N := N) bs.flatten hwf t
  exact ⟨_, _, p1, p2, c, l⟩

/-- along such a chain the numeric state values strictly increase: no state is
    announced twice and none is announced after a later one -/
theorem C06_monotone (s : St) (cbs : List St) (hs : s.WF N) (h : Chain N s cbs) :
    List.Pairwise (· < ·) ((s :: cbs).map (St.val N)) :=
  (chain_increasing s cbs hs h).1

/-- **final states are sticky**: once a task is final, no history of batches
    changes its state or triggers another callback for it -/
theorem C06_final_sticky (ts : Tasks) (bs : List (List Upd)) (hn : (uids ts).Nodup)
    (hw : ∀ b ∈ bs, ∀ u ∈ b, u.state.WF N) (t : Task) (ht : t ∈ ts)
    (hf : t.state.isFinal = true) :
    (∃ t', (runBatches N ts bs).1.find? (fun x => x.uid = t.uid) = some t' ∧ t'.state = t.state)
    ∧ (runBatches N ts bs).2.filter (fun p => p.1 = t.uid) = [] := by
  have ⟨t', cbs, h1, h2, c, l⟩ := C06_linear ts bs hn hw t ht
  have : cbs = [] := chain_of_final t.state cbs hf c
  subst this
  exact ⟨⟨t', h1, by simpa [lastOf] using l⟩, by simpa using h2⟩

/-! non-vacuity: concrete histories meeting the hypotheses, with late, duplicated
    and contradictory notifications (these are tests, not the unbounded claim) -/

example : N = 15 := by decide

example :
    let ts : Tasks := [⟨0, .nf 0, none, none⟩, ⟨1, .done, none, none⟩, ⟨2, .canceled, none, none⟩]
    (runBatches N ts [[⟨1, .failed, none⟩, ⟨0, .nf 3, none⟩, ⟨2, .done, none⟩, ⟨0, .nf 1, none⟩],
                      [⟨0, .failed, none⟩, ⟨0, .done, none⟩, ⟨7, .done, none⟩]])
      = ([⟨0, .failed, none, none⟩, ⟨1, .done, none, none⟩, ⟨2, .canceled, none, none⟩],
         [(0, .nf 1), (0, .nf 2), (0, .nf 3), (0, .failed)]) := by
  decide

example : Chain N (.nf 0) [.nf 1, .nf 2, .canceled] := by
  simp [Chain, Step, St.isFinal, St.WF, St.val, St.isFC, N, Gen.taskStateValues]

/-! ## callbacks that use the registry while a notification is delivered -/

open RPVerif.Callbacks

theorem C06_task_cb_snapshot : Gen.taskCbSnapshot = true := by decide

/-- **every callback registered when a notification arrives is called exactly once, in order, and no
    exception escapes the delivery - whatever the callbacks do to the registry meanwhile** (a one-shot
    callback taking itself out, a callback installing another one).  Holds because `_task_cb` walks a list
    made before the first callback runs (`C06_task_cb_snapshot`, read from the source). -/
theorem C06_registry_use_harmless (reg : List Nat) (act : Nat → Edit) :
    (deliver Gen.taskCbSnapshot reg act).1 = reg ∧ (deliver Gen.taskCbSnapshot reg act).2.2 = false := by
  rw [C06_task_cb_snapshot]
  exact ⟨rfl, rfl⟩

/-- the order matters (test): walking the live registry, a one-shot callback that takes itself out ends
    the delivery - the callbacks after it never hear of the state -/
example : deliver false [1, 2, 3] (fun id => if id = 1 then .unregister 1 else .nothing) = ([1], [2, 3], true) := by decide
example : deliver true [1, 2, 3] (fun id => if id = 1 then .unregister 1 else .nothing) = ([1, 2, 3], [2, 3], false) := by decide

/-! ### no notification is ignored (round 16) -/

/-- **C06, no notification is ignored**: with `_state_sub_cb` handing every task notification of a batch to
    `_update_tasks` (`Gen.stateSubPassesAll`, read from the source), after ANY batch - late, duplicated, out-of-order
    notifications, other tasks in between - a known task is at least as far as EVERY notification of the batch that named
    it (values of the state table; DONE, FAILED and CANCELED share the top value), in particular final once a final state
    was reported for it, wherever in the batch that notification stood -/
theorem C06_most_advanced (ts : Tasks) (b : List Upd) (hn : (uids ts).Nodup) (hw : ∀ u ∈ b, u.state.WF N)
    (t : Task) (ht : t ∈ ts) (htw : t.state.WF N) (u : Upd) (hu : u ∈ b) (hid : u.uid = t.uid) :
    ∃ t', (updateTasks N ts (subBatch Gen.stateSubPassesAll b)).1.find? (fun x => x.uid = t.uid) = some t'
      ∧ u.state.val N ≤ t'.state.val N
      ∧ (u.state.isFinal = true → t'.state.WF N → t'.state.isFinal = true) := by
  have e : Gen.stateSubPassesAll = true := by decide
  rw [e]
  simp only [subBatch, if_true]
  have hp := (updateTasksAux_proj (N := N) b hw ts [] hn t ht).1
  refine ⟨(foldOne N t b).1, hp, foldOne_reaches b hw t htw u hu hid, ?_⟩
  intro hf hwf
  have h1 := foldOne_reaches (N := N) b hw t htw u hu hid
  rw [val_final (N := N) hf] at h1
  cases hs : (foldOne N t b).1.state with
  | nf i =>
    rw [hs] at h1 hwf
    simp only [St.val, St.WF] at h1 hwf
    omega
  | done => rfl
  | failed => rfl
  | canceled => rfl

/-- the hand-over matters: were only the last notification per task handed on, the batch [task 0 DONE, task 0 in state 13]
    (a late notification behind the one that overtook it) would leave the task in state 13 and its DONE never seen -/
theorem C06_most_advanced_witness :
    ((updateTasks 15 [⟨0, .nf 12, none, none⟩] (subBatch false [⟨0, .done, none⟩, ⟨0, .nf 13, none⟩])).1.map (·.state)) = [.nf 13]
    ∧ ((updateTasks 15 [⟨0, .nf 12, none, none⟩] (subBatch true [⟨0, .done, none⟩, ⟨0, .nf 13, none⟩])).1.map (·.state)) = [.done] := by
  decide

end RPVerif.C06
