import Driver.States
import Driver.AgentCause
import Driver.Wait
import Driver.Bridge
import Driver.Sizing
import Driver.Descr
import Driver.TmgrSched
import Driver.RM
import Driver.Sched
import Driver.Exec
import Driver.Cancel
import Driver.Launch
import Driver.Shell
import Driver.Staging
import Driver.Raptor
import Driver.Pipeline
import Driver.NodeList
import Driver.JsrunSched
import Driver.Timeout
import Driver.WatchQueue
open Lean

/-- line protocol: one JSON op per input line, one canonical JSON answer per line -/
partial def loop (h : IO.FS.Stream) (f : Json → Json) : IO Unit := do
  let line ← h.getLine
  if line.isEmpty then return ()
  match Json.parse line with
  | .ok j => IO.println (f j).compress
  | .error e => IO.println (Json.str s!"parse-error {e}").compress
  loop h f

def main (args : List String) : IO UInt32 := do
  let stdin ← IO.getStdin
  match args with
  | ["states"] => loop stdin Driver.States.handle; return 0
  | ["wait"] => loop stdin Driver.Wait.handle; return 0
  | ["bridge"] => loop stdin Driver.Bridge.handle; return 0
  | ["sizing"] => loop stdin Driver.Sizing.handle; return 0
  | ["descr"] => loop stdin Driver.Descr.handle; return 0
  | ["tmgrsched"] => loop stdin Driver.TmgrSched.handle; return 0
  | ["rm"] => loop stdin Driver.RM.handle; return 0
  | ["sched"] => loop stdin Driver.Sched.handle; return 0
  | ["exec"] => loop stdin Driver.Exec.handle; return 0
  | ["cancel"] => loop stdin Driver.Cancel.handle; return 0
  | ["launch"] => loop stdin Driver.Launch.handle; return 0
  | ["shell"] => loop stdin Driver.Shell.handle; return 0
  | ["staging"] => loop stdin Driver.Staging.handle; return 0
  | ["raptor"] => loop stdin Driver.Raptor.handle; return 0
  | ["pipeline"] => loop stdin Driver.Pipeline.handle; return 0
  | ["watchqueue"] => loop stdin Driver.WatchQueue.handle; return 0
  | ["timeout"] => loop stdin Driver.Timeout.handle; return 0
  | ["jsrunsched"] => loop stdin Driver.JsrunSched.handle; return 0
  | ["nodelist"] => loop stdin Driver.NodeList.handle; return 0
  | ["cause"] => loop stdin Driver.AgentCause.handle; return 0
  | _ => IO.eprintln "usage: rpmodel <suite>"; return 2
